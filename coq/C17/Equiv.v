(* C17 — the recursive-descent transliteration (Model.v) and the
   character-level machine (Machine.v) are the same function: agreement
   whenever the transliteration does not run out of fuel (G_all), the fuel of
   parse always suffices (F_all), hence parse = parseM. *)
From Coq Require Import List NArith Bool Lia Wf_nat Arith.
Require Import BobV.Gen.Consts BobV.C17.Model BobV.C17.Proofs BobV.C17.Machine BobV.C17.Spec BobV.C17.MachineProofs.
Import ListNotations.
Open Scope N_scope.

Definition is_top (k : skind) : bool := match k with KTop => true | _ => false end.
Definition keep_of (k : skind) : bool := match k with KVarName | KArg => true | _ => false end.

Section Equiv.
  Variable c : ctx.

  (* ---- the token scanner against the machine *)
  Lemma not_delim_step k sb acc below x :
    mem x (TOKEN_DELIMS ++ extra_of k) = false -> (x =? ch_bs) = false ->
    step_fs c k sb acc below x = Ok (FS k sb (acc ++ [x]) :: below).
  Proof.
    intros H Hb. unfold step_fs.
    assert (E : mem x (extra_of k) = false).
    { destruct (mem x (extra_of k)) eqn:E; [|reflexivity].
      assert (In x (TOKEN_DELIMS ++ extra_of k)) by (apply in_or_app; right; now apply mem_In).
      apply mem_In in H0. congruence. }
    rewrite E.
    assert (D : forall y, In y TOKEN_DELIMS -> (x =? y) = false).
    { intros y Hy. destruct (x =? y) eqn:Q; [|reflexivity]. apply N.eqb_eq in Q. subst.
      assert (In y (TOKEN_DELIMS ++ extra_of k)) by (apply in_or_app; now left).
      apply mem_In in H0. congruence. }
    rewrite (D ch_dq) by (cbn; auto). rewrite (D ch_sq) by (cbn; auto). rewrite (D ch_dollar) by (cbn; auto).
    rewrite Hb. reflexivity.
  Qed.

  Lemma bs_step k : mem ch_bs (TOKEN_DELIMS ++ extra_of k) = false.
  Proof. destruct k; reflexivity. Qed.

  (* what the scanner consumes is what the machine appends *)
  Lemma scan_run k sb : forall t a0 s r,
    scan (TOKEN_DELIMS ++ extra_of k) t a0 = Some (s, r) ->
    exists consumed, t = consumed ++ r /\
      (r = [] \/ exists x r', r = x :: r' /\ mem x (TOKEN_DELIMS ++ extra_of k) = true) /\
      exists s', s = rev a0 ++ s' /\
      forall acc below, run c (FS k sb acc :: below) consumed = Ok (FS k sb (acc ++ s') :: below).
  Proof.
    intros t. remember (length t) as n eqn:Hn. revert t Hn.
    induction n as [n IH] using lt_wf_ind. intros t Hn a0 s r H.
    destruct t as [|x t']; cbn [scan] in H.
    - inversion H; subst. exists []. split; [reflexivity|]. split; [now left|].
      exists []. split; [now rewrite app_nil_r|]. intros. cbn. now rewrite app_nil_r.
    - destruct (mem x (TOKEN_DELIMS ++ extra_of k)) eqn:Ed.
      + inversion H; subst. exists []. split; [reflexivity|]. split; [right; eauto|].
        exists []. split; [now rewrite app_nil_r|]. intros. cbn. now rewrite app_nil_r.
      + destruct (x =? ch_bs) eqn:Eb.
        * destruct t' as [|y t'']; [discriminate|].
          destruct (IH (length t'') ltac:(subst n; cbn; lia) t'' eq_refl (y :: a0) s r H)
            as (cons' & -> & Hr & s' & -> & Hrun).
          exists (x :: y :: cons'). split; [reflexivity|]. split; [exact Hr|].
          exists (y :: s'). split; [cbn; now rewrite <- app_assoc|].
          intros acc below. apply N.eqb_eq in Eb. subst x.
          change (ch_bs :: y :: cons') with ([ch_bs; y] ++ cons'). rewrite run_app, meta_step. cbn [bind].
          rewrite Hrun. now rewrite <- app_assoc.
        * destruct (IH (length t') ltac:(subst n; cbn; lia) t' eq_refl (x :: a0) s r H)
            as (cons' & -> & Hr & s' & -> & Hrun).
          exists (x :: cons'). split; [reflexivity|]. split; [exact Hr|].
          exists (x :: s'). split; [cbn; now rewrite <- app_assoc|].
          intros acc below. cbn [run step]. rewrite (not_delim_step _ _ _ _ _ Ed Eb). cbn [bind].
          rewrite Hrun. now rewrite <- app_assoc.
  Qed.

  Lemma scan_none_exec k sb : forall t a0,
    scan (TOKEN_DELIMS ++ extra_of k) t a0 = None ->
    forall acc below, exec c (FS k sb acc :: below) t = PErr.
  Proof.
    intros t. remember (length t) as n eqn:Hn. revert t Hn.
    induction n as [n IH] using lt_wf_ind. intros t Hn a0 H acc below.
    destruct t as [|x t']; cbn [scan] in H; [discriminate|].
    destruct (mem x (TOKEN_DELIMS ++ extra_of k)) eqn:Ed; [discriminate|].
    destruct (x =? ch_bs) eqn:Eb.
    - apply N.eqb_eq in Eb. subst x. destruct t' as [|y t''].
      + unfold exec. cbn [run step]. unfold step_fs. rewrite bs_not_extra.
        change (ch_bs =? ch_dq) with false. change (ch_bs =? ch_sq) with false.
        change (ch_bs =? ch_dollar) with false. change (ch_bs =? ch_bs) with true. reflexivity.
      + change (ch_bs :: y :: t'') with ([ch_bs; y] ++ t''). rewrite exec_app, meta_step. cbn [bind].
        apply (IH (length t'') ltac:(subst n; cbn; lia) t'' eq_refl (y :: a0) H).
    - rewrite exec_cons. cbn [step]. rewrite (not_delim_step _ _ _ _ _ Ed Eb). cbn [bind].
      apply (IH (length t') ltac:(subst n; cbn; lia) t' eq_refl (x :: a0) H).
  Qed.

  (* ---- single quotes and names *)
  Lemma getSingleQuoted_spec t s r : getSingleQuoted t = Some (s, r) ->
    t = s ++ ch_sq :: r /\ mem ch_sq s = false.
  Proof.
    revert s r. induction t as [|x t IH]; intros s r H; cbn [getSingleQuoted] in H; [discriminate|].
    destruct (x =? ch_sq) eqn:E.
    - inversion H; subst. apply N.eqb_eq in E. subst. auto.
    - destruct (getSingleQuoted t) as [[s' r']|]; [|discriminate]. inversion H; subst.
      destruct (IH s' r eq_refl) as [-> Hm]. split; [reflexivity|]. cbn [mem]. rewrite N.eqb_sym, E. exact Hm.
  Qed.

  Lemma getSingleQuoted_none t : getSingleQuoted t = None -> mem ch_sq t = false.
  Proof.
    induction t as [|x t IH]; intros H; cbn [getSingleQuoted] in H; [reflexivity|].
    destruct (x =? ch_sq) eqn:E; [discriminate|].
    destruct (getSingleQuoted t) as [[s' r']|]; [discriminate|]. cbn [mem]. rewrite N.eqb_sym, E. now apply IH.
  Qed.

  Lemma sq_unterminated t : forall a B, mem ch_sq t = false -> exec c (FSq a :: B) t = PErr.
  Proof.
    induction t as [|x t IH]; intros a B H.
    - reflexivity.
    - cbn [mem] in H. apply orb_false_iff in H as [H1 H2].
      rewrite exec_cons. cbn [step]. rewrite N.eqb_sym, H1. cbn [bind]. now apply IH.
  Qed.

  Lemma getRestOfName_spec t n r : getRestOfName t = (n, r) ->
    t = n ++ r /\ forallb (fun x => mem x NAME_CHARS) n = true /\ nsafe r = true.
  Proof.
    revert n r. induction t as [|x t IH]; intros n r H; cbn [getRestOfName] in H.
    - inversion H; subst. auto.
    - destruct (mem x NAME_CHARS) eqn:E.
      + destruct (getRestOfName t) as [n' r'] eqn:G. inversion H; subst.
        destruct (IH n' r eq_refl) as (-> & Hn & Hr). cbn [app forallb]. rewrite E. auto.
      + inversion H; subst. cbn [app forallb nsafe]. rewrite E. auto.
  Qed.

  (* ---- the three mutually recursive functions against the machine *)
  Definition res_of {A} (r : res (str * str)) (k : str -> str -> res A) : res A :=
    match r with Ok (v, rest) => k v rest | PErr => PErr | Ext => Ext | Fuel => Fuel end.

  Definition Concl (k : skind) (sb : bool) (t acc : str) (r : res (str * str)) : Prop :=
    match r with
    | Ok (v, rest) =>
      if is_top k then rest = [] /\ (k = KTop -> exec c [FS KTop sb acc] t = Ok v)
      else exists d rest', mem d (extra_of k) = true /\ rest = (if keep_of k then d :: rest' else rest') /\
           forall below, exec c (FS k sb acc :: below) t =
                         bind (terminate c k sb v d below) (fun st => exec c st rest')
    | PErr => forall below, exec c (FS k sb acc :: below) t = PErr
    | Ext => forall below, exec c (FS k sb acc :: below) t = Ext
    | Fuel => True
    end.

  Definition GS (f : nat) : Prop := forall k sb t acc r,
    getString f c (extra_of k) (is_top k) (keep_of k) sb t acc = r -> r <> Fuel -> Concl k sb t acc r.

  Lemma Concl_transport k sb t acc t2 acc2 r :
    (forall below, exec c (FS k sb acc :: below) t = exec c (FS k sb acc2 :: below) t2) ->
    Concl k sb t2 acc2 r -> Concl k sb t acc r.
  Proof.
    intros E H. unfold Concl in *. destruct r as [[v rest]| | |]; auto.
    - destruct (is_top k) eqn:Tk.
      + destruct H as [H1 H2]. split; [exact H1|]. intros ->. rewrite (E []). now apply H2.
      + destruct H as (d & rest' & H1 & H2 & H3). exists d, rest'. split; [exact H1|]. split; [exact H2|].
        intros below. rewrite E. apply H3.
    - intros below. rewrite E. apply H.
    - intros below. rewrite E. apply H.
  Qed.

  Lemma Concl_err k sb t acc (e : res (str * str)) :
    (e = PErr \/ e = Ext) -> (forall below, exec c (FS k sb acc :: below) t = match e with PErr => PErr | _ => Ext end) ->
    Concl k sb t acc e.
  Proof. intros [->| ->] H; exact H. Qed.

  Definition GV (f : nat) : Prop := forall sb t r,
    getVariable f c sb t = r -> r <> Fuel ->
    forall k' sb' acc' below',
      exec c (FS KVarName sb [] :: FS k' sb' acc' :: below') t =
      res_of r (fun v rest => exec c (FS k' sb' (acc' ++ v) :: below') rest).

  Definition GC (f : nat) : Prop := forall sb t words r,
    getCommand f c sb t words = r -> r <> Fuel ->
    forall k' sb' acc' below',
      exec c (FS KArg sb [] :: FCmd words sb :: FS k' sb' acc' :: below') t =
      res_of r (fun v rest => exec c (FS k' sb' (acc' ++ v) :: below') rest).

  Lemma bind_not_fuel {A B} (r : res A) (g : A -> res B) :
    bind r g <> Fuel -> r <> Fuel.
  Proof. destruct r; cbn; congruence. Qed.

  Definition var_op (f : nat) (name : str) (sb unset : bool) (o : N) (r' : str) : res (str * str) :=
    if o =? ch_minus then
      bind (getString f c VARBODY_DELIMS false false (sb && unset) r' []) (fun dr =>
        Ok (if unset then fst dr else env_get (c_env c) name, snd dr))
    else if o =? ch_plus then
      bind (getString f c VARBODY_DELIMS false false (sb && negb unset) r' []) (fun ar =>
        Ok (if unset then [] else fst ar, snd ar))
    else if o =? ch_rbrace then
      match lookup (c_env c) name with
      | Some v => Ok (v, r')
      | None => if sb && c_nounset c then PErr else Ok ([], r')
      end
    else PErr.

  Lemma var_tail f : GS f -> forall name sb unset o r' k' sb' acc' below' res,
    var_op f name sb unset o r' = res -> res <> Fuel ->
    bind (dispatch_op c name sb unset o (FS k' sb' acc' :: below')) (fun st => exec c st r') =
    res_of res (fun v rest => exec c (FS k' sb' (acc' ++ v) :: below') rest).
  Proof.
    intros HS name sb unset o r' k' sb' acc' below' res H NF. unfold var_op in H. unfold dispatch_op.
    destruct (o =? ch_minus) eqn:E1.
    - cbn [bind].
      destruct (getString f c VARBODY_DELIMS false false (sb && unset) r' []) as [[dv rest]| | |] eqn:G;
        cbn [bind] in H; subst res.
      + pose proof (HS (KVarBody name unset false) (sb && unset) r' [] _ G ltac:(discriminate)) as Hb.
        unfold Concl in Hb. cbn [is_top keep_of] in Hb.
        destruct Hb as (d & rest' & Hd & -> & Hex). rewrite Hex. cbn [terminate append_val bind res_of fst snd]. reflexivity.
      + pose proof (HS (KVarBody name unset false) (sb && unset) r' [] _ G ltac:(discriminate)) as Hb. apply Hb.
      + pose proof (HS (KVarBody name unset false) (sb && unset) r' [] _ G ltac:(discriminate)) as Hb. apply Hb.
      + exfalso. apply NF. reflexivity.
    - destruct (o =? ch_plus) eqn:E2.
      + cbn [bind].
        destruct (getString f c VARBODY_DELIMS false false (sb && negb unset) r' []) as [[dv rest]| | |] eqn:G;
          cbn [bind] in H; subst res.
        * pose proof (HS (KVarBody name unset true) (sb && negb unset) r' [] _ G ltac:(discriminate)) as Hb.
          unfold Concl in Hb. cbn [is_top keep_of] in Hb.
          destruct Hb as (d & rest' & Hd & -> & Hex). rewrite Hex. cbn [terminate append_val bind res_of fst snd]. reflexivity.
        * pose proof (HS (KVarBody name unset true) (sb && negb unset) r' [] _ G ltac:(discriminate)) as Hb. apply Hb.
        * pose proof (HS (KVarBody name unset true) (sb && negb unset) r' [] _ G ltac:(discriminate)) as Hb. apply Hb.
        * exfalso. apply NF. reflexivity.
      + destruct (o =? ch_rbrace) eqn:E3.
        * unfold var_value. destruct (lookup (c_env c) name) as [v|].
          -- subst res. reflexivity.
          -- destruct (sb && c_nounset c); subst res; cbn; rewrite ?app_nil_r; reflexivity.
        * subst res. reflexivity.
  Qed.

  Lemma GV_step f : GS f -> GV (S f).
  Proof.
    intros HS sb t r H NF k' sb' acc' below'. cbn [getVariable] in H.
    destruct (getString f c VARNAME_DELIMS false true sb t []) as [[name rest]| | |] eqn:G;
      cbn [bind] in H.
    - (* name parsed *)
      pose proof (HS KVarName sb t [] _ G ltac:(discriminate)) as Hn. unfold Concl in Hn. cbn [is_top keep_of] in Hn.
      destruct Hn as (d & rest' & Hd & -> & Hex). rewrite Hex. clear Hex G.
      cbn [snd fst] in H. cbn [terminate].
      destruct (d =? ch_colon) eqn:Ec.
      + cbn [bind]. destruct rest' as [|o2 r2].
        * subst r. reflexivity.
        * rewrite exec_cons. cbn [step].
          assert (Eu : (if negb (in_env (c_env c) name) then true else str_eqb (env_get (c_env c) name) []) =
                       (if in_env (c_env c) name then str_eqb (env_get (c_env c) name) [] else true))
            by (destruct (in_env (c_env c) name); reflexivity).
          rewrite Eu in H.
          exact (var_tail f HS name sb _ o2 r2 k' sb' acc' below' r H NF).
      + exact (var_tail f HS name sb _ d rest' k' sb' acc' below' r H NF).
    - subst r. pose proof (HS KVarName sb t [] _ G ltac:(discriminate)) as Hn. apply Hn.
    - subst r. pose proof (HS KVarName sb t [] _ G ltac:(discriminate)) as Hn. apply Hn.
    - subst r. congruence.
  Qed.


  Lemma GC_step f : GS f -> GC f -> GC (S f).
  Proof.
    intros HS HC sb t words r H NF k' sb' acc' below'. cbn [getCommand] in H.
    destruct (getString f c CMD_DELIMS false true sb t []) as [[w rest]| | |] eqn:G; cbn [bind] in H.
    - pose proof (HS KArg sb t [] _ G ltac:(discriminate)) as Hw. unfold Concl in Hw. cbn [is_top keep_of] in Hw.
      destruct Hw as (d & rest' & Hd & -> & Hex). rewrite Hex. clear Hex G. cbn [fst snd] in H. cbn [terminate].
      destruct (d =? ch_rparen) eqn:Ep.
      + destruct sb.
        * destruct (words ++ [w]) as [|cmd args] eqn:W.
          -- subst r. reflexivity.
          -- destruct (call_fun c cmd args) as [v| | |] eqn:Cf; cbn [bind] in H; subst r; cbn [bind res_of append_val]; try reflexivity.
        * subst r. cbn. rewrite app_nil_r. reflexivity.
      + cbn [bind]. exact (HC sb rest' (words ++ [w]) r H NF k' sb' acc' below').
    - subst r. apply (HS KArg sb t [] _ G ltac:(discriminate)).
    - subst r. apply (HS KArg sb t [] _ G ltac:(discriminate)).
    - subst r. exfalso. apply NF. reflexivity.
  Qed.

  Lemma bare_finish name sb k acc B r2 : nsafe r2 = true ->
    exec c (FBare name sb :: FS k sb acc :: B) r2 =
    bind (var_value c sb name) (fun v => exec c (FS k sb (acc ++ v) :: B) r2).
  Proof.
    intros Hs. destruct r2 as [|x r3].
    - unfold exec. cbn [run bind finish]. unfold var_value.
      destruct k, B; cbn; destruct (lookup (c_env c) name); try destruct (sb && c_nounset c); reflexivity.
    - cbn [nsafe] in Hs. apply negb_true_iff in Hs.
      rewrite exec_cons. cbn [step]. rewrite Hs. rewrite bind_assoc.
      apply bind_ext. intros v. rewrite exec_cons. reflexivity.
  Qed.

  Lemma token_delim_is_dollar k x :
    mem x (TOKEN_DELIMS ++ extra_of k) = true -> mem x (extra_of k) = false ->
    (x =? ch_dq) = false -> (x =? ch_sq) = false -> x = ch_dollar.
  Proof.
    intros H1 H2 H3 H4. apply mem_In in H1. apply in_app_or in H1. destruct H1 as [H1|H1].
    - cbn in H1. destruct H1 as [<-|[<-|[<-|[]]]]; try reflexivity; discriminate.
    - apply mem_In in H1. congruence.
  Qed.

  Lemma GS_step f : GS f -> GV f -> GC f -> GS (S f).
  Proof.
    intros HS HV HC k sb t acc r H NF. cbn [getString] in H. unfold nextToken in H.
    destruct t as [|x t'].
    { cbn [bind] in H. unfold Concl. destruct (is_top k) eqn:Tk; subst r.
      - split; [reflexivity|]. intros ->. reflexivity.
      - intros below. unfold exec. cbn [run bind].
        destruct k; try discriminate; (reflexivity || (destruct below; reflexivity)). }
    destruct (mem x (TOKEN_DELIMS ++ extra_of k)) eqn:Ed.
    2:{ (* text token *)
      destruct (scan (TOKEN_DELIMS ++ extra_of k) (x :: t') []) as [[s rest]|] eqn:G; cbn [bind] in H.
      - destruct (scan_run k sb _ _ _ _ G) as (consumed & Et & _ & s' & -> & Hrun). cbn [rev app] in H.
        rewrite Et. apply (Concl_transport k sb _ acc rest (acc ++ s')).
        + intros below. rewrite exec_app, Hrun. reflexivity.
        + exact (HS k sb rest (acc ++ s') r H NF).
      - subst r. intros below. exact (scan_none_exec k sb _ _ G acc below). }
    cbn [bind] in H. destruct (mem x (extra_of k)) eqn:Ex.
    { subst r. unfold Concl. destruct (is_top k) eqn:Tk.
      - destruct k; discriminate.
      - exists x, t'. split; [exact Ex|]. split; [reflexivity|]. intros below.
        rewrite exec_cons. cbn [step]. unfold step_fs. rewrite Ex. reflexivity. }
    assert (Stp : forall below, exec c (FS k sb acc :: below) (x :: t') =
              if x =? ch_dq then exec c (FS KDq sb [] :: FS k sb acc :: below) t'
              else if x =? ch_sq then exec c (FSq [] :: FS k sb acc :: below) t'
              else exec c (FDollar sb :: FS k sb acc :: below) t').
    { intros below. rewrite exec_cons. cbn [step]. unfold step_fs. rewrite Ex.
      destruct (x =? ch_dq) eqn:Q1; [reflexivity|]. destruct (x =? ch_sq) eqn:Q2; [reflexivity|].
      rewrite (token_delim_is_dollar k x Ed Ex Q1 Q2). reflexivity. }
    destruct (x =? ch_dq) eqn:Q1.
    { destruct (getString f c [ch_dq] false false sb t' []) as [[s r1]| | |] eqn:G; cbn [bind] in H.
      - pose proof (HS KDq sb t' [] _ G ltac:(discriminate)) as Hq. unfold Concl in Hq. cbn [is_top keep_of] in Hq.
        destruct Hq as (d & rest' & _ & -> & Hex). cbn [fst snd] in H.
        apply (Concl_transport k sb (x :: t') acc rest' (acc ++ s)).
        + intros below. rewrite Stp, Hex. reflexivity.
        + exact (HS k sb rest' (acc ++ s) r H NF).
      - subst r. intros below. rewrite Stp. apply (HS KDq sb t' [] _ G ltac:(discriminate)).
      - subst r. intros below. rewrite Stp. apply (HS KDq sb t' [] _ G ltac:(discriminate)).
      - subst r. exfalso. apply NF. reflexivity. }
    destruct (x =? ch_sq) eqn:Q2.
    { destruct (getSingleQuoted t') as [[s r1]|] eqn:G.
      - destruct (getSingleQuoted_spec _ _ _ G) as [-> Hm].
        apply (Concl_transport k sb _ acc r1 (acc ++ s)).
        + intros below. rewrite Stp. change (s ++ ch_sq :: r1) with (s ++ [ch_sq] ++ r1).
          rewrite app_assoc, exec_app, (sq_run c s [] _ Hm). reflexivity.
        + exact (HS k sb r1 (acc ++ s) r H NF).
      - subst r. intros below. rewrite Stp. apply sq_unterminated. now apply getSingleQuoted_none. }
    destruct t' as [|k0 r1].
    { subst r. intros below. rewrite Stp. reflexivity. }
    destruct (k0 =? ch_lbrace) eqn:K1.
    { assert (Stp2 : forall below, exec c (FS k sb acc :: below) (x :: k0 :: r1) =
                                  exec c (FS KVarName sb [] :: FS k sb acc :: below) r1).
      { intros. rewrite Stp, exec_cons. cbn [step]. rewrite K1. reflexivity. }
      destruct (getVariable f c sb r1) as [[v r2]| | |] eqn:G; cbn [bind] in H.
      - cbn [fst snd] in H. apply (Concl_transport k sb _ acc r2 (acc ++ v)).
        + intros below. rewrite Stp2, (HV sb r1 _ G ltac:(discriminate) k sb acc below). reflexivity.
        + exact (HS k sb r2 (acc ++ v) r H NF).
      - subst r. intros below. rewrite Stp2, (HV sb r1 _ G ltac:(discriminate) k sb acc below). reflexivity.
      - subst r. intros below. rewrite Stp2, (HV sb r1 _ G ltac:(discriminate) k sb acc below). reflexivity.
      - subst r. exfalso. apply NF. reflexivity. }
    destruct (k0 =? ch_lparen) eqn:K2.
    { assert (Stp2 : forall below, exec c (FS k sb acc :: below) (x :: k0 :: r1) =
                                  exec c (FS KArg sb [] :: FCmd [] sb :: FS k sb acc :: below) r1).
      { intros. rewrite Stp, exec_cons. cbn [step]. rewrite K1, K2. reflexivity. }
      destruct (getCommand f c sb r1 []) as [[v r2]| | |] eqn:G; cbn [bind] in H.
      - cbn [fst snd] in H. apply (Concl_transport k sb _ acc r2 (acc ++ v)).
        + intros below. rewrite Stp2, (HC sb r1 [] _ G ltac:(discriminate) k sb acc below). reflexivity.
        + exact (HS k sb r2 (acc ++ v) r H NF).
      - subst r. intros below. rewrite Stp2, (HC sb r1 [] _ G ltac:(discriminate) k sb acc below). reflexivity.
      - subst r. intros below. rewrite Stp2, (HC sb r1 [] _ G ltac:(discriminate) k sb acc below). reflexivity.
      - subst r. exfalso. apply NF. reflexivity. }
    destruct (mem k0 NAME_START) eqn:K3.
    2:{ subst r. intros below. rewrite Stp, exec_cons. cbn [step]. rewrite K1, K2, K3. reflexivity. }
    destruct (getRestOfName r1) as [n r2] eqn:G. destruct (getRestOfName_spec _ _ _ G) as (-> & Hn & Hs).
    assert (Stp3 : forall below, exec c (FS k sb acc :: below) (x :: k0 :: n ++ r2) =
                     bind (var_value c sb (k0 :: n)) (fun v => exec c (FS k sb (acc ++ v) :: below) r2)).
    { intros below. rewrite Stp, exec_cons. cbn [step]. rewrite K1, K2, K3. cbn [bind].
      rewrite exec_app, (bare_tail c n [k0] sb _ Hn). cbn [bind app]. apply bare_finish. exact Hs. }
    unfold var_value in Stp3. destruct (lookup (c_env c) (k0 :: n)) as [v|].
    - apply (Concl_transport k sb _ acc r2 (acc ++ v)); [intros; rewrite Stp3; reflexivity | exact (HS k sb r2 (acc ++ v) r H NF)].
    - destruct (sb && c_nounset c).
      + subst r. intros below. rewrite Stp3. reflexivity.
      + apply (Concl_transport k sb _ acc r2 acc); [intros; rewrite Stp3; cbn [bind]; now rewrite app_nil_r | exact (HS k sb r2 acc r H NF)].
  Qed.

  Lemma G_all f : GS f /\ GV f /\ GC f.
  Proof.
    induction f as [|f (HS & HV & HC)].
    - split; [|split].
      + intros k sb t acc r H NF. cbn in H. congruence.
      + intros sb t r H NF. cbn in H. congruence.
      + intros sb t words r H NF. cbn in H. congruence.
    - assert (HS' : GS (S f)) by (apply GS_step; assumption).
      split; [exact HS'|]. split; [apply GV_step; exact HS | apply GC_step; assumption].
  Qed.

  (* ---- the fuel of [parse] is enough: every call chain consumes text *)
  Lemma bind_ok_inv {A B} (r : res A) (g : A -> res B) b :
    bind r g = Ok b -> exists a, r = Ok a /\ g a = Ok b.
  Proof. destruct r; cbn; intros H; try discriminate. eauto. Qed.

  Lemma bind_fuel_inv {A B} (r : res A) (g : A -> res B) :
    bind r g = Fuel -> r = Fuel \/ exists a, r = Ok a /\ g a = Fuel.
  Proof. destruct r; cbn; intros H; try discriminate; eauto. Qed.

  Lemma scan_len delim : forall t a s r, scan delim t a = Some (s, r) -> (length r <= length t)%nat.
  Proof.
    intros t. remember (length t) as n eqn:Hn. revert t Hn.
    induction n as [n IH] using lt_wf_ind. intros t Hn a s r H.
    destruct t as [|x t']; cbn [scan] in H.
    - inversion H; subst. cbn. lia.
    - destruct (mem x delim). { inversion H; subst. cbn [length]. lia. }
      destruct (x =? ch_bs).
      + destruct t' as [|y t'']; [discriminate|].
        apply (IH (length t'') ltac:(subst n; cbn; lia) t'' eq_refl) in H. subst n. cbn [length]. lia.
      + apply (IH (length t') ltac:(subst n; cbn; lia) t' eq_refl) in H. subst n. cbn [length]. lia.
  Qed.

  Lemma scan_len_strict delim x t' a s r :
    mem x delim = false -> scan delim (x :: t') a = Some (s, r) -> (length r <= length t')%nat.
  Proof.
    intros E H. cbn [scan] in H. rewrite E in H. destruct (x =? ch_bs).
    - destruct t' as [|y t'']; [discriminate|]. apply scan_len in H. cbn [length]. lia.
    - now apply scan_len in H.
  Qed.

  Definition LS (f : nat) : Prop := forall extra top keep sb t acc v rest,
    getString f c extra top keep sb t acc = Ok (v, rest) -> (length rest <= length t)%nat.
  Definition LV (f : nat) : Prop := forall sb t v rest,
    getVariable f c sb t = Ok (v, rest) -> (length rest <= length t)%nat.
  Definition LC (f : nat) : Prop := forall sb t words v rest,
    getCommand f c sb t words = Ok (v, rest) -> (length rest <= length t)%nat.

  Lemma LS_step f : LS f -> LV f -> LC f -> LS (S f).
  Proof.
    intros HS HV HC extra top keep sb t acc v rest H. cbn [getString] in H.
    apply bind_ok_inv in H as ((tk, r0) & Ht & H). unfold nextToken in Ht.
    destruct t as [|x t'].
    { inversion Ht; subst. destruct top; inversion H; subst; cbn; lia. }
    destruct (mem x (TOKEN_DELIMS ++ extra)) eqn:Ed.
    2:{ destruct (scan (TOKEN_DELIMS ++ extra) (x :: t') []) as [[s rest0]|] eqn:G; [|discriminate].
        inversion Ht; subst. apply HS in H. apply (scan_len_strict _ _ _ _ _ _ Ed) in G. cbn [length]. lia. }
    inversion Ht; subst tk r0. clear Ht.
    destruct (mem x extra). { inversion H; subst. destruct keep; cbn; lia. }
    destruct (x =? ch_dq).
    { apply bind_ok_inv in H as ((s, r1) & H1 & H2). cbn [fst snd] in H2. apply HS in H1. apply HS in H2. cbn [length]. lia. }
    destruct (x =? ch_sq).
    { destruct (getSingleQuoted t') as [[s r1]|] eqn:G; [|discriminate].
      apply getSingleQuoted_spec in G as [-> _]. apply HS in H. cbn [length]. rewrite app_length. cbn [length]. lia. }
    destruct t' as [|k0 r1]; [discriminate|].
    destruct (k0 =? ch_lbrace).
    { apply bind_ok_inv in H as ((s, r2) & H1 & H2). cbn [fst snd] in H2. apply HV in H1. apply HS in H2. cbn [length]. lia. }
    destruct (k0 =? ch_lparen).
    { apply bind_ok_inv in H as ((s, r2) & H1 & H2). cbn [fst snd] in H2. apply HC in H1. apply HS in H2. cbn [length]. lia. }
    destruct (mem k0 NAME_START); [|discriminate].
    destruct (getRestOfName r1) as [n r2] eqn:G. apply getRestOfName_spec in G as (-> & _ & _).
    destruct (lookup (c_env c) (k0 :: n)).
    - apply HS in H. cbn [length]. rewrite app_length. lia.
    - destruct (sb && c_nounset c); [discriminate|]. apply HS in H. cbn [length]. rewrite app_length. lia.
  Qed.

  Lemma var_op_len f : LS f -> forall name sb unset o r' v rest,
    var_op f name sb unset o r' = Ok (v, rest) -> (length rest <= length r')%nat.
  Proof.
    intros HS name sb unset o r' v rest H. unfold var_op in H.
    destruct (o =? ch_minus).
    { apply bind_ok_inv in H as ((dv, r1) & H1 & H2). apply HS in H1. cbn [fst snd] in H2. inversion H2; subst. exact H1. }
    destruct (o =? ch_plus).
    { apply bind_ok_inv in H as ((dv, r1) & H1 & H2). apply HS in H1. cbn [fst snd] in H2. inversion H2; subst. exact H1. }
    destruct (o =? ch_rbrace); [|discriminate].
    destruct (lookup (c_env c) name). { inversion H; subst; lia. }
    destruct (sb && c_nounset c); [discriminate|]. inversion H; subst; lia.
  Qed.

  Lemma LV_step f : LS f -> LV (S f).
  Proof.
    intros HS sb t v rest H. cbn [getVariable] in H.
    apply bind_ok_inv in H as ((name, r0) & H1 & H2). apply HS in H1. cbn [fst snd] in H2.
    destruct r0 as [|op r]; [discriminate|]. cbn [length] in H1.
    destruct (op =? ch_colon).
    - destruct r as [|o2 r2]; [discriminate|].
      pose proof (var_op_len f HS name sb
        (if negb (in_env (c_env c) name) then true else str_eqb (env_get (c_env c) name) []) o2 r2 v rest H2) as L.
      cbn [length] in H1. lia.
    - pose proof (var_op_len f HS name sb (negb (in_env (c_env c) name)) op r v rest H2) as L. lia.
  Qed.

  Lemma LC_step f : LS f -> LC f -> LC (S f).
  Proof.
    intros HS HC sb t words v rest H. cbn [getCommand] in H.
    apply bind_ok_inv in H as ((w, r0) & H1 & H2). apply HS in H1. cbn [fst snd] in H2.
    destruct r0 as [|e r]; [discriminate|]. cbn [length] in H1. destruct (e =? ch_rparen).
    - destruct sb.
      + destruct (words ++ [w]); [discriminate|]. apply bind_ok_inv in H2 as (v0 & _ & H3). inversion H3; subst. lia.
      + inversion H2; subst; lia.
    - apply HC in H2. lia.
  Qed.

  Lemma L_all f : LS f /\ LV f /\ LC f.
  Proof.
    induction f as [|f (HS & HV & HC)].
    - split; [|split]; red; intros; discriminate.
    - split; [apply LS_step; assumption|]. split; [apply LV_step; assumption | apply LC_step; assumption].
  Qed.

  Definition FS_ (f : nat) : Prop := forall extra top keep sb t acc,
    (2 * length t + 1 <= f)%nat -> getString f c extra top keep sb t acc <> Fuel.
  Definition FV_ (f : nat) : Prop := forall sb t,
    (2 * length t + 2 <= f)%nat -> getVariable f c sb t <> Fuel.
  Definition FC_ (f : nat) : Prop := forall sb t words,
    (2 * length t + 2 <= f)%nat -> getCommand f c sb t words <> Fuel.

  Lemma FS_step f : FS_ f -> FV_ f -> FC_ f -> FS_ (S f).
  Proof.
    intros HS HV HC extra top keep sb t acc Hb H. cbn [getString] in H.
    destruct (L_all f) as (LSf & LVf & LCf).
    apply bind_fuel_inv in H as [H|((tk, r0) & Ht & H)].
    { unfold nextToken in H. destruct t as [|x t']; [discriminate|].
      destruct (mem x (TOKEN_DELIMS ++ extra)); [discriminate|].
      destruct (scan (TOKEN_DELIMS ++ extra) (x :: t') []) as [[? ?]|]; discriminate. }
    unfold nextToken in Ht. destruct t as [|x t'].
    { inversion Ht; subst. destruct top; discriminate. }
    cbn [length] in Hb.
    destruct (mem x (TOKEN_DELIMS ++ extra)) eqn:Ed.
    2:{ destruct (scan (TOKEN_DELIMS ++ extra) (x :: t') []) as [[s rest0]|] eqn:G; [|discriminate].
        inversion Ht; subst. apply (scan_len_strict _ _ _ _ _ _ Ed) in G.
        revert H. apply HS. lia. }
    inversion Ht; subst tk r0. clear Ht.
    destruct (mem x extra). { discriminate. }
    destruct (x =? ch_dq).
    { apply bind_fuel_inv in H as [H|((s, r1) & H1 & H2)].
      - revert H. apply HS. lia.
      - cbn [fst snd] in H2. apply LSf in H1. revert H2. apply HS. lia. }
    destruct (x =? ch_sq).
    { destruct (getSingleQuoted t') as [[s r1]|] eqn:G; [|discriminate].
      apply getSingleQuoted_spec in G as [-> _]. rewrite app_length in Hb. cbn [length] in Hb.
      revert H. apply HS. lia. }
    destruct t' as [|k0 r1]; [discriminate|]. cbn [length] in Hb.
    destruct (k0 =? ch_lbrace).
    { apply bind_fuel_inv in H as [H|((s, r2) & H1 & H2)].
      - revert H. apply HV. lia.
      - cbn [fst snd] in H2. apply LVf in H1. revert H2. apply HS. lia. }
    destruct (k0 =? ch_lparen).
    { apply bind_fuel_inv in H as [H|((s, r2) & H1 & H2)].
      - revert H. apply HC. lia.
      - cbn [fst snd] in H2. apply LCf in H1. revert H2. apply HS. lia. }
    destruct (mem k0 NAME_START); [|discriminate].
    destruct (getRestOfName r1) as [n r2] eqn:G. apply getRestOfName_spec in G as (-> & _ & _).
    rewrite app_length in Hb.
    destruct (lookup (c_env c) (k0 :: n)).
    - revert H. apply HS. lia.
    - destruct (sb && c_nounset c); [discriminate|]. revert H. apply HS. lia.
  Qed.

  Lemma var_op_fuel f : FS_ f -> forall name sb unset o r',
    (2 * length r' + 1 <= f)%nat -> var_op f name sb unset o r' <> Fuel.
  Proof.
    intros HS name sb unset o r' Hb H. unfold var_op in H.
    destruct (o =? ch_minus).
    { apply bind_fuel_inv in H as [H|(a & _ & H)]; [|discriminate]. revert H. apply HS. exact Hb. }
    destruct (o =? ch_plus).
    { apply bind_fuel_inv in H as [H|(a & _ & H)]; [|discriminate]. revert H. apply HS. exact Hb. }
    destruct (o =? ch_rbrace); [|discriminate].
    destruct (lookup (c_env c) name); [discriminate|]. destruct (sb && c_nounset c); discriminate.
  Qed.

  Lemma FV_step f : FS_ f -> FV_ (S f).
  Proof.
    intros HS sb t Hb H. cbn [getVariable] in H. destruct (L_all f) as (LSf & _ & _).
    apply bind_fuel_inv in H as [H|((name, r0) & H1 & H2)].
    { revert H. apply HS. lia. }
    apply LSf in H1. cbn [fst snd] in H2.
    destruct r0 as [|op r]; [discriminate|]. cbn [length] in H1.
    destruct (op =? ch_colon).
    - destruct r as [|o2 r2]; [discriminate|]. cbn [length] in H1.
      exact (var_op_fuel f HS name sb
        (if negb (in_env (c_env c) name) then true else str_eqb (env_get (c_env c) name) []) o2 r2 ltac:(lia) H2).
    - exact (var_op_fuel f HS name sb (negb (in_env (c_env c) name)) op r ltac:(lia) H2).
  Qed.

  Lemma FC_step f : FS_ f -> FC_ f -> FC_ (S f).
  Proof.
    intros HS HC sb t words Hb H. cbn [getCommand] in H. destruct (L_all f) as (LSf & _ & _).
    apply bind_fuel_inv in H as [H|((w, r0) & H1 & H2)].
    { revert H. apply HS. lia. }
    apply LSf in H1. cbn [fst snd] in H2.
    destruct r0 as [|e r]; [discriminate|]. cbn [length] in H1. destruct (e =? ch_rparen).
    - destruct sb; [|discriminate]. destruct (words ++ [w]); [discriminate|].
      apply bind_fuel_inv in H2 as [H2|(a & _ & H2)]; [|discriminate]. revert H2. apply call_fun_no_fuel.
    - revert H2. apply HC. lia.
  Qed.

  Lemma F_all f : FS_ f /\ FV_ f /\ FC_ f.
  Proof.
    induction f as [|f (HS & HV & HC)].
    - split; [|split]; red; intros; lia.
    - split; [apply FS_step; assumption|]. split; [apply FV_step; assumption | apply FC_step; assumption].
  Qed.

  Lemma fuel_enough_proof t : parse c t <> Fuel.
  Proof.
    unfold parse. destruct (existsb (fun x => mem x t) SPECIAL_CHARS); [|discriminate].
    intros H. apply bind_fuel_inv in H as [H|(a & _ & H)]; [|discriminate].
    revert H. apply (proj1 (F_all (fuel_for t))). unfold fuel_for. lia.
  Qed.

  (* ---- text without special characters *)
  Lemma top_plain_run t : forall acc,
    mem ch_bs t = false -> mem ch_dq t = false -> mem ch_sq t = false -> mem ch_dollar t = false ->
    run c [FS KTop true acc] t = Ok [FS KTop true (acc ++ t)].
  Proof.
    induction t as [|x t IH]; intros acc H1 H2 H3 H4.
    - cbn. now rewrite app_nil_r.
    - cbn [mem] in H1, H2, H3, H4.
      apply orb_false_iff in H1 as [A1 B1]. apply orb_false_iff in H2 as [A2 B2].
      apply orb_false_iff in H3 as [A3 B3]. apply orb_false_iff in H4 as [A4 B4].
      cbn [run step]. unfold step_fs. cbn [extra_of mem].
      rewrite (N.eqb_sym x ch_dq), A2, (N.eqb_sym x ch_sq), A3, (N.eqb_sym x ch_dollar), A4, (N.eqb_sym x ch_bs), A1.
      cbn [bind]. rewrite IH by assumption. now rewrite <- app_assoc.
  Qed.

  (* the recursive-descent transliteration and the machine are the same function *)
  Lemma parse_is_parseM_proof t : parse c t = parseM c t.
  Proof.
    pose proof (fuel_enough_proof t) as NF. unfold parse in *. unfold parseM.
    destruct (existsb (fun x => mem x t) SPECIAL_CHARS) eqn:Es.
    - destruct (getString (fuel_for t) c [] true false true t []) as [[v rest]| | |] eqn:G; cbn [bind] in *.
      + pose proof (proj1 (G_all (fuel_for t)) KTop true t [] _ G ltac:(discriminate)) as Hc.
        unfold Concl in Hc. cbn [is_top] in Hc. destruct Hc as [_ Hc]. cbn [fst]. symmetry. now apply Hc.
      + pose proof (proj1 (G_all (fuel_for t)) KTop true t [] _ G ltac:(discriminate)) as Hc. symmetry. apply Hc.
      + pose proof (proj1 (G_all (fuel_for t)) KTop true t [] _ G ltac:(discriminate)) as Hc. symmetry. apply Hc.
      + congruence.
    - cbn [existsb SPECIAL_CHARS] in Es. unfold SPECIAL_CHARS in Es. cbn [existsb] in Es.
      repeat (apply orb_false_iff in Es; destruct Es as [? Es]).
      unfold exec. rewrite top_plain_run by assumption. reflexivity.
  Qed.
End Equiv.

Lemma parse_render_rd_proof c e : wf_items e = true -> parse c (r_items e) = e_items c true e.
Proof. intros H. rewrite parse_is_parseM_proof. now apply parse_render_proof. Qed.
