(* C17 — concrete syntax of if-expressions (`if: !expr ...` conditions).
   Definitions only.

   Model of what bob.stringparser.IfExpressionParser.parseExpression(text)
   accepts and which object tree it builds, i.e. of the pyparsing (3.3.2, the
   installed version) grammar instantiated in IfExpressionParser.__init__:

     sQ    = QuotedString(SQ)             dQ = QuotedString(DQ, escape character backslash)
             (SQ = the single quote character 39, DQ = the double quote character 34)
     arg   = sQ | dQ | call
     call  = Word(alphas, alphanums+'-') '(' Opt(arg (',' arg)* ) ')'
     expr  = infix_notation(sQ|dQ ^ call,
               [ '!' (unary, right), '<', '<=', '>', '>=', '==', '!=', '&&',
                 '||'  (binary, left; one precedence level PER operator) ])
     parse_string(text, parse_all=True) with parse_with_tabs()

   pyparsing is a scannerless PEG interpreter: every token skips the white space
   characters (blank, tab, line feed, carriage return) first, alternatives are ordered, repetitions are greedy
   and never given back.  infix_notation builds, for each operator level k,
       this_k := FollowedBy(last op last) Group(last (op last)+)  |  last
   which is: parse `last`, then fold `(op last)` to the left while that
   matches (an `op` without a parsable right operand is given back).  `<` is
   tried before `<=`; `'a' <= 'b'` still parses because after `<` no operand
   starts with `=`.

   Strings are lists of code points.  All parsers return the unconsumed rest.
   Recursion is on explicit fuel; IfGrammarProofs.v shows that the fuel given by
   the entry points always suffices (parse_if_total). *)
From Coq Require Import List NArith Bool.
Require Import BobV.Gen.Consts BobV.C17.Model.
Import ListNotations.
Open Scope N_scope.

Inductive pres (A : Type) : Type :=
| POk (a : A) (rest : str)     (* matched; rest = unconsumed input *)
| PFail                        (* pyparsing.ParseException: the caller may try an alternative *)
| PFuel.                       (* model ran out of fuel: excluded by parse_if_total *)
Arguments POk {A} a rest.
Arguments PFail {A}.
Arguments PFuel {A}.

(* ---- characters ------------------------------------------------------- *)
(* ParserElement.DEFAULT_WHITE_CHARS = blank, line feed, tab, carriage return *)
Definition is_ws (c : N) : bool := (c =? 32) || (c =? 9) || (c =? 10) || (c =? 13).

Fixpoint skip_ws (s : str) : str :=
  match s with
  | c :: r => if is_ws c then skip_ws r else s
  | [] => []
  end.

(* pyparsing.alphas / nums: ASCII only *)
Definition is_alpha (c : N) : bool := ((65 <=? c) && (c <=? 90)) || ((97 <=? c) && (c <=? 122)).
Definition is_digit (c : N) : bool := (48 <=? c) && (c <=? 57).
Definition is_namech (c : N) : bool := is_alpha c || is_digit c || (c =? 45).

(* Literal(t): s starts with t *)
Fixpoint lit (t s : str) : option str :=
  match t with
  | [] => Some s
  | c :: t' => match s with
               | d :: s' => if c =? d then lit t' s' else None
               | [] => None
               end
  end.

(* Literal of one character c, after skipping white space *)
Definition eat (c : N) (s : str) : option str :=
  match skip_ws s with
  | d :: r => if d =? c then Some r else None
  | [] => None
  end.

(* ---- QuotedString ------------------------------------------------------ *)
(* QuotedString(SQ): regex  SQ (?:[^SQ\n\r])* SQ   — body and rest after the closing quote *)
Fixpoint scan_sq (s : str) : option (str * str) :=
  match s with
  | [] => None
  | c :: r =>
    if c =? 39 then Some ([], r)
    else if (c =? 10) || (c =? 13) then None
    else match scan_sq r with
         | Some (b, r') => Some (c :: b, r')
         | None => None
         end
  end.

(* QuotedString(DQ, backslash): regex  DQ (?:\\.|[^DQ\n\r\\])* DQ   (`.` matches all but line feed) *)
Fixpoint scan_dq (s : str) : option (str * str) :=
  match s with
  | [] => None
  | c :: r =>
    if c =? 34 then Some ([], r)
    else if c =? 92 then
      match r with
      | d :: r2 => if d =? 10 then None
                   else match scan_dq r2 with
                        | Some (b, r') => Some (c :: d :: b, r')
                        | None => None
                        end
      | [] => None
      end
    else if (c =? 10) || (c =? 13) then None
    else match scan_dq r with
         | Some (b, r') => Some (c :: b, r')
         | None => None
         end
  end.

Definition is_oct (c : N) : bool := (48 <=? c) && (c <=? 55).
Definition hexval (c : N) : option N :=
  if is_digit c then Some (c - 48)
  else if (97 <=? c) && (c <=? 102) then Some (c - 87)
  else if (65 <=? c) && (c <=? 70) then Some (c - 55)
  else None.

(* Single quotes: QuotedString(SQ, convert_whitespace_escapes=False), no escape
   character: the body is re-scanned with (.)|(\n|.), i.e. taken verbatim.
   Double quotes: unquote_results with convert_whitespace_escapes (both default
   True): the body is re-scanned with
     (\\t|\\n|\\f|\\r) | (\\[0-7]3|\\0|\\x[0-9a-fA-F]2|\\u[0-9a-fA-F]4) | (\\.) | (\n|.)
   (pyparsing 3.3.2 writes {3} {2} {4} inside an rf-string, so the pattern
   contains the digits 3, 2, 4, not repetition counts).
   [unq_esc r]: r is the text after a backslash; result = emitted text and how
   many characters of r are consumed; None = the backslash stands for itself. *)
Definition ws_escape (d : N) : option N :=
  if d =? 116 then Some 9 else if d =? 110 then Some 10
  else if d =? 102 then Some 12 else if d =? 114 then Some 13 else None.

Definition hex_escape (d : N) (r1 : str) : option (str * nat) :=
  match (if d =? 120 then Some 2 else if d =? 117 then Some 4 else None), r1 with
  | Some k, h :: e :: _ =>
    match hexval h with
    | Some v => if e =? 48 + k then Some ([16 * v + k], 3%nat) else None   (* chr(int(h2, 16)) / chr(int(h4, 16)) *)
    | None => None
    end
  | _, _ => None
  end.

Definition unq_esc (r : str) : option (str * nat) :=
  match r with
  | [] => None
  | d :: r1 =>
    match ws_escape d with
    | Some w => Some ([w], 1%nat)
    | None =>
      if is_oct d && (match r1 with e :: _ => e =? 51 | [] => false end)
      then Some ([d; 51], 2%nat)           (* _convert_escaped_numerics_to_char: the two characters as they are *)
      else if d =? 48 then Some ([0], 1%nat)
      else match hex_escape d r1 with
           | Some x => Some x
           | None => if negb (d =? 10) then Some ([d], 1%nat) else None
           end
    end
  end.

(* [skip] characters are still to be dropped (consumed by the last escape) *)
Fixpoint unq (skip : nat) (s : str) : str :=
  match s with
  | [] => []
  | c :: r =>
    match skip with
    | S k => unq k r
    | O => if c =? 92
           then match unq_esc r with
                | Some (out, k) => out ++ unq k r
                | None => c :: unq 0 r
                end
           else c :: unq 0 r
    end
  end.

(* ---- string typed expressions: literals and function calls ----------- *)
(* Word(alphas, alphanums+'-'): maximal munch *)
Fixpoint span_name (s : str) : str * str :=
  match s with
  | c :: r => if is_namech c then let (a, b) := span_name r in (c :: a, b) else ([], s)
  | [] => ([], [])
  end.

Definition p_close (name : str) (args : list sexpr) (s : str) : pres sexpr :=
  match eat 41 s with
  | Some r => POk (SFn name args) r
  | None => PFail
  end.

(* ZeroOrMore(',' arg): a comma without an argument behind it is given back *)
Fixpoint p_more (arg : str -> pres sexpr) (k : nat) (acc : list sexpr) (s : str) : pres (list sexpr) :=
  match k with
  | O => PFuel
  | S k' =>
    match eat 44 s with
    | Some r =>
      match arg r with
      | POk a r' => p_more arg k' (acc ++ [a]) r'
      | PFail => POk acc s
      | PFuel => PFuel
      end
    | None => POk acc s
    end
  end.

(* Opt(arg (',' arg)* ) ')'   after the opening parenthesis *)
Definition p_args (arg : str -> pres sexpr) (name : str) (r2 : str) : pres sexpr :=
  match arg r2 with
  | PFuel => PFuel
  | PFail => p_close name [] r2                 (* Opt(...) matched nothing *)
  | POk a r3 =>
    match p_more arg (S (length r3)) [a] r3 with
    | POk args r4 => p_close name args r4
    | PFail => PFail
    | PFuel => PFuel
    end
  end.

(* functionCall; s starts with a letter *)
Definition p_call (arg : str -> pres sexpr) (s : str) : pres sexpr :=
  let (name, r1) := span_name s in
  match eat 40 r1 with
  | Some r2 => p_args arg name r2
  | None => PFail
  end.

(* sQ | dQ | functionCall *)
Definition p_sx_body (arg : str -> pres sexpr) (s : str) : pres sexpr :=
  match skip_ws s with
  | [] => PFail
  | c :: r =>
    if c =? 39 then
      match scan_sq r with
      | Some (b, r') => POk (SLit b false) r'                (* verbatim *)
      | None => PFail
      end
    else if c =? 34 then
      match scan_dq r with
      | Some (b, r') => POk (SLit (unq 0 b) true) r'
      | None => PFail
      end
    else if is_alpha c then p_call arg (c :: r)
    else PFail
  end.

Fixpoint p_sx (n : nat) : str -> pres sexpr :=
  match n with
  | O => fun _ => PFuel
  | S n' => p_sx_body (p_sx n')
  end.

Definition parse_sx (s : str) : pres sexpr := p_sx (S (length s)) s.

(* ---- the operator tower ------------------------------------------------ *)
Inductive binop := BLt | BLe | BGt | BGe | BEq | BNe | BAnd | BOr.

(* the tree the parse actions build; comparison operands are checked by
   BinaryStrOperator.__init__ (to_ifexpr below) *)
Inductive ifast :=
| AStr (e : sexpr)
| ANot (e : ifast)
| ABin (op : binop) (l r : ifast).

Definition op_text (op : binop) : str :=
  match op with
  | BLt => [60] | BLe => [60; 61] | BGt => [62] | BGe => [62; 61]
  | BEq => [61; 61] | BNe => [33; 61] | BAnd => [38; 38] | BOr => [124; 124]
  end.

Definition parser := str -> pres ifast.

(* (op last)+ folded to the left by utils.infixBinaryOp; k bounds the number of iterations *)
Fixpoint p_loop (op : binop) (last : parser) (k : nat) (acc : ifast) (s : str) : pres ifast :=
  match k with
  | O => PFuel
  | S k' =>
    match lit (op_text op) (skip_ws s) with
    | None => POk acc s
    | Some r =>
      match last r with
      | POk e r' => p_loop op last k' (ABin op acc e) r'
      | PFail => POk acc s
      | PFuel => PFuel
      end
    end
  end.

Definition p_level (op : binop) (last : parser) : parser := fun s =>
  match last s with
  | POk e r => p_loop op last (S (length r)) e r
  | PFail => PFail
  | PFuel => PFuel
  end.

(* '!' this | atom  (an atom never starts with '!') *)
Fixpoint p_not (atom : parser) (s : str) : pres ifast :=
  match s with
  | [] => atom []
  | c :: r =>
    if is_ws c then p_not atom r
    else if c =? 33 then
      match p_not atom r with
      | POk e r' => POk (ANot e) r'
      | PFail => PFail
      | PFuel => PFuel
      end
    else atom s
  end.

(* (stringLiteral ^ functionCall) | '(' expr ')' *)
Definition p_atom (rec : parser) : parser := fun s =>
  match eat 40 s with
  | Some r =>
    match rec r with
    | POk e r' => match eat 41 r' with
                  | Some r'' => POk e r''
                  | None => PFail
                  end
    | PFail => PFail
    | PFuel => PFuel
    end
  | None =>
    match parse_sx s with
    | POk e r => POk (AStr e) r
    | PFail => PFail
    | PFuel => PFuel
    end
  end.

(* the order of the op_list of IfExpressionParser.__init__: first = binds tightest *)
Definition p_tower (rec : parser) : parser :=
  p_level BOr (p_level BAnd (p_level BNe (p_level BEq (p_level BGe (p_level BGt
    (p_level BLe (p_level BLt (p_not (p_atom rec))))))))).

Fixpoint p_expr (n : nat) : parser :=
  match n with
  | O => fun _ => PFuel
  | S n' => p_tower (p_expr n')
  end.

(* parse_string(text, parse_all=True): trailing white space is allowed *)
Definition parse_ast_res (s : str) : pres ifast :=
  match p_expr (S (length s)) s with
  | POk e r => match skip_ws r with
               | [] => POk e []
               | _ => PFail
               end
  | PFail => PFail
  | PFuel => PFuel
  end.

Definition parse_ast (s : str) : option ifast :=
  match parse_ast_res s with
  | POk e _ => Some e
  | _ => None
  end.

(* ---- from the parsed tree to the evaluated AST of Model.v ------------- *)
Definition cmp_of (op : binop) : option cmpop :=
  match op with
  | BLt => Some OLt | BLe => Some OLe | BGt => Some OGt | BGe => Some OGe
  | BEq => Some OEq | BNe => Some ONe | BAnd => None | BOr => None
  end.

(* BinaryStrOperator.__init__ raises bob.errors.ParseError unless both operands
   have evalExpressionToString (StringLiteral, FunctionCall).  That exception is
   not a pyparsing exception: it is not caught by any alternative and aborts the
   whole parse.  The model checks the operands after the syntactic parse
   instead.  Both agree: a comparison whose parse action ran but whose result
   is later discarded would have to sit inside an unclosed parenthesis (every
   level succeeds when the level below it does, look-aheads run without parse
   actions), and then no parse of the whole text exists either.  The harness
   compares both on texts with ill-typed comparisons in every position. *)
Fixpoint to_ifexpr (a : ifast) : option ifexpr :=
  match a with
  | AStr e => Some (IStr e)
  | ANot x => match to_ifexpr x with Some y => Some (INot y) | None => None end
  | ABin op l r =>
    match cmp_of op with
    | Some c => match l, r with
                | AStr x, AStr y => Some (ICmp c x y)
                | _, _ => None
                end
    | None =>
      match to_ifexpr l, to_ifexpr r with
      | Some x, Some y => Some (match op with BAnd => IAnd x y | _ => IOr x y end)
      | _, _ => None
      end
    end
  end.

(* None = bob.errors.ParseError *)
Definition parse_if (s : str) : option ifexpr :=
  match parse_ast s with
  | Some a => to_ifexpr a
  | None => None
  end.

Definition op_of_cmp (c : cmpop) : binop :=
  match c with
  | OLt => BLt | OLe => BLe | OGt => BGt | OGe => BGe | OEq => BEq | ONe => BNe
  end.

Fixpoint of_ifexpr (e : ifexpr) : ifast :=
  match e with
  | IStr s => AStr s
  | INot x => ANot (of_ifexpr x)
  | IAnd l r => ABin BAnd (of_ifexpr l) (of_ifexpr r)
  | IOr l r => ABin BOr (of_ifexpr l) (of_ifexpr r)
  | ICmp c l r => ABin (op_of_cmp c) (AStr l) (AStr r)
  end.

(* ---- rendering --------------------------------------------------------- *)
(* precedence levels: 0 = primary, 1 = '!', 2..9 = the binary operators *)
Definition lvl (op : binop) : nat :=
  match op with
  | BLt => 2 | BLe => 3 | BGt => 4 | BGe => 5 | BEq => 6 | BNe => 7 | BAnd => 8 | BOr => 9
  end.

Definition lvl_ast (a : ifast) : nat :=
  match a with AStr _ => 0 | ANot _ => 1 | ABin op _ _ => lvl op end.

(* double quotes: backslash and quote escaped, line breaks as \n \r *)
Definition esc_dq_char (c : N) : str :=
  if c =? 92 then [92; 92] else if c =? 34 then [92; 34]
  else if c =? 10 then [92; 110] else if c =? 13 then [92; 114] else [c].

Fixpoint esc_dq (s : str) : str :=
  match s with
  | [] => []
  | c :: r => esc_dq_char c ++ esc_dq r
  end.

Definition render_lit (s : str) (dq : bool) : str :=
  if dq then 34 :: esc_dq s ++ [34] else 39 :: s ++ [39].

Fixpoint render_sx (e : sexpr) : str :=
  match e with
  | SLit s d => render_lit s d
  | SFn name args =>
    name ++ 40 ::
    match args with
    | [] => []
    | a :: more => render_sx a ++ (fix go (l : list sexpr) : str :=
                                     match l with
                                     | [] => []
                                     | x :: r => 44 :: 32 :: render_sx x ++ go r
                                     end) more
    end ++ [41]
  end.

(* minimal parentheses: k = loosest level the context admits without parentheses;
   binary operators are left associative (right operand one level tighter) *)
Fixpoint render_at (k : nat) (a : ifast) : str :=
  let body :=
    match a with
    | AStr e => render_sx e
    | ANot x => 33 :: render_at 1 x
    | ABin op l r => render_at (lvl op) l ++ 32 :: op_text op ++ 32 :: render_at (lvl op - 1) r
    end in
  if Nat.leb (lvl_ast a) k then body else 40 :: body ++ [41].

Definition render_ast (a : ifast) : str := render_at 9 a.
Definition render_if (e : ifexpr) : str := render_ast (of_ifexpr e).

(* every operand in parentheses *)
Fixpoint render_full (a : ifast) : str :=
  match a with
  | AStr e => render_sx e
  | ANot x => 33 :: 40 :: render_full x ++ [41]
  | ABin op l r => 40 :: render_full l ++ 41 :: 32 :: op_text op ++ 32 :: 40 :: render_full r ++ [41]
  end.

(* ---- well-formedness (executable) ------------------------------------- *)
Definition wf_name (name : str) : bool :=
  match name with
  | c :: r => is_alpha c && forallb is_namech r
  | [] => false
  end.

(* body of a single quoted literal: no quote, no line break *)
Definition sq_body (b : str) : bool :=
  forallb (fun c => negb ((c =? 39) || (c =? 10) || (c =? 13))) b.

(* body of a double quoted literal: backslash pairs (not before a line feed), no bare quote or line break *)
Fixpoint dq_body (b : str) : bool :=
  match b with
  | [] => true
  | c :: r =>
    if c =? 92 then
      match r with
      | d :: r2 => negb (d =? 10) && dq_body r2
      | [] => false
      end
    else negb ((c =? 34) || (c =? 10) || (c =? 13)) && dq_body r
  end.

Fixpoint wf_sx (e : sexpr) : bool :=
  match e with
  | SLit s d => if d then true else sq_body s
  | SFn name args => wf_name name && forallb wf_sx args
  end.

Fixpoint wf_ast (a : ifast) : bool :=
  match a with
  | AStr e => wf_sx e
  | ANot x => wf_ast x
  | ABin _ l r => wf_ast l && wf_ast r
  end.

Definition wf_if (e : ifexpr) : bool := wf_ast (of_ifexpr e).

(* ---- every concrete text of an AST (arbitrary white space, redundant
        parentheses, any spelling of the literals) ------------------------- *)
Definition all_ws (w : str) : Prop := forallb is_ws w = true.

Inductive rend_sx : sexpr -> str -> Prop :=
| RSq : forall w b, all_ws w -> sq_body b = true ->
    rend_sx (SLit b false) (w ++ 39 :: b ++ [39])
| RDq : forall w b, all_ws w -> dq_body b = true ->
    rend_sx (SLit (unq 0 b) true) (w ++ 34 :: b ++ [34])
| RFn : forall w name w1 args sargs w2,
    all_ws w -> wf_name name = true -> all_ws w1 -> rend_args args sargs -> all_ws w2 ->
    rend_sx (SFn name args) (w ++ name ++ w1 ++ 40 :: sargs ++ w2 ++ [41])
with rend_args : list sexpr -> str -> Prop :=
| RA_nil : rend_args [] []
| RA_cons : forall e s es ss, rend_sx e s -> rend_more es ss -> rend_args (e :: es) (s ++ ss)
with rend_more : list sexpr -> str -> Prop :=
| RM_nil : rend_more [] []
| RM_cons : forall w e s es ss, all_ws w -> rend_sx e s -> rend_more es ss ->
    rend_more (e :: es) (w ++ 44 :: s ++ ss).

(* rend k a s: s is a text of a in a context that admits level k without parentheses *)
Inductive rend : nat -> ifast -> str -> Prop :=
| R_str : forall k e s, rend_sx e s -> rend k (AStr e) s
| R_not : forall k w x s, (1 <= k)%nat -> all_ws w -> rend 1 x s -> rend k (ANot x) (w ++ 33 :: s)
| R_bin : forall k op l r sl w sr, (lvl op <= k)%nat ->
    rend (lvl op) l sl -> all_ws w -> rend (lvl op - 1) r sr ->
    rend k (ABin op l r) (sl ++ w ++ op_text op ++ sr)
| R_par : forall k a w s w2, all_ws w -> rend 9 a s -> all_ws w2 ->
    rend k a (w ++ 40 :: s ++ w2 ++ [41]).

(* ---- comparison with the implementation ------------------------------- *)
(* StringLiteral.subst = doSubst and any of backslash, DQ, SQ, dollar in the literal *)
Definition has_special (s : str) : bool := existsb (fun x => mem x s) SPECIAL_CHARS.

Fixpoint canon_sx (e : sexpr) : sexpr :=
  match e with
  | SLit s d => SLit s (d && has_special s)
  | SFn name args => SFn name (map canon_sx args)
  end.

Fixpoint canon_if (e : ifexpr) : ifexpr :=
  match e with
  | IStr s => IStr (canon_sx s)
  | INot x => INot (canon_if x)
  | IAnd l r => IAnd (canon_if l) (canon_if r)
  | IOr l r => IOr (canon_if l) (canon_if r)
  | ICmp c l r => ICmp c (canon_sx l) (canon_sx r)
  end.

Definition parse_if_canon (s : str) : option ifexpr :=
  match parse_if s with Some e => Some (canon_if e) | None => None end.

Fixpoint sexpr_eqb (a b : sexpr) : bool :=
  match a, b with
  | SLit s d, SLit s' d' => str_eqb s s' && Bool.eqb d d'
  | SFn n xs, SFn n' ys =>
    str_eqb n n' &&
    (fix go (xs ys : list sexpr) : bool :=
       match xs, ys with
       | [], [] => true
       | x :: xs', y :: ys' => sexpr_eqb x y && go xs' ys'
       | _, _ => false
       end) xs ys
  | _, _ => false
  end.

Definition cmpop_eqb (a b : cmpop) : bool :=
  match a, b with
  | OLt, OLt | OGt, OGt | OLe, OLe | OGe, OGe | OEq, OEq | ONe, ONe => true
  | _, _ => false
  end.

Fixpoint ifexpr_eqb (a b : ifexpr) : bool :=
  match a, b with
  | IStr x, IStr y => sexpr_eqb x y
  | INot x, INot y => ifexpr_eqb x y
  | IAnd l r, IAnd l' r' => ifexpr_eqb l l' && ifexpr_eqb r r'
  | IOr l r, IOr l' r' => ifexpr_eqb l l' && ifexpr_eqb r r'
  | ICmp c l r, ICmp c' l' r' => cmpop_eqb c c' && sexpr_eqb l l' && sexpr_eqb r r'
  | _, _ => false
  end.

Definition eqb_opt_if (a b : option ifexpr) : bool :=
  match a, b with
  | Some x, Some y => ifexpr_eqb x y
  | None, None => true
  | _, _ => false
  end.
