(* C13 — steps run in exactly the declared environment: property theorems.
   Only statements (closed by [exact] of a lemma of Proofs.v) and non-vacuity
   examples.  All definitions used here live in Model.v. *)
From Coq Require Import List NArith Bool.
Require Import BobV.C13.Model BobV.C13.Proofs.
Import ListNotations.
Open Scope N_scope.

(* P1. Whatever a value contains — quotes, dollars, backslashes, newlines,
   blanks, glob characters, non-ASCII — bash reads the quoted form back as
   exactly that value (NUL cannot occur in a bash word or an environment). *)
Theorem quote_roundtrip : forall env s, no_nul s -> bash_word env (quote s) = Some s.
Proof. exact quote_roundtrip_proof. Qed.

(* ... and in any context: with any text already read and any text following
   in the script, the quoted form is consumed exactly and contributes exactly
   the value (so the next `export` line cannot be swallowed or injected). *)
Theorem quote_in_context : forall env s acc rest,
  no_nul s -> lex env MU acc (quote s ++ rest) = lex env MU (acc ++ s) rest.
Proof. exact lex_quote. Qed.

(* P1. After the generated prolog ran, every declared variable has precisely
   the value the recipes computed. *)
Theorem export_value_exact : forall dpath preserve cwd sp environ,
  spec_ok cwd sp ->
  exists e', script_env dpath preserve cwd sp environ = Some e' /\
    forall k v, In (k, v) sp.(sp_env) -> ~ In k bob_vars -> lookup e' k = Some v.
Proof. exact export_value_exact_proof. Qed.

(* P1. The script sees exactly: the declared variables, Bob's own
   (PATH, LD_LIBRARY_PATH, BOB_CWD) and the host variables that are named in
   the whitelist (all host variables only if the user asked to preserve the
   environment). *)
Theorem visible_vars_exact : forall dpath preserve cwd sp environ e',
  spec_ok cwd sp ->
  script_env dpath preserve cwd sp environ = Some e' ->
  forall k, In k (keys e') <->
            (In k (keys sp.(sp_env)) \/ In k bob_vars \/
             host_visible preserve sp.(sp_whitelist) environ k).
Proof. exact visible_vars_exact_proof. Qed.

(* whitelisted host variables arrive with the host's value, all others not at all *)
Theorem host_passthrough : forall dpath preserve cwd sp environ e',
  spec_ok cwd sp ->
  script_env dpath preserve cwd sp environ = Some e' ->
  forall k, ~ In k (keys sp.(sp_env)) -> ~ In k bob_vars ->
    lookup e' k = if preserve || str_mem k sp.(sp_whitelist) then lookup environ k else None.
Proof. exact host_passthrough_proof. Qed.

(* P1. Every consumed tool is on PATH / LD_LIBRARY_PATH, in order, in front of
   the inherited PATH (bash's built-in default if the interpreter inherits none); BOB_CWD is the execution path of the workspace. *)
Theorem tools_on_path : forall dpath preserve cwd sp environ e',
  spec_ok cwd sp ->
  script_env dpath preserve cwd sp environ = Some e' ->
  lookup e' s_PATH = Some (path_value (map (abspath cwd) sp.(sp_paths))
                                      (getenv (bash_init dpath (proc_env preserve sp environ)) s_PATH)) /\
  lookup e' s_LD = Some (join_with [ch_colon] (map (abspath cwd) sp.(sp_libs))) /\
  lookup e' s_BOB_CWD = Some (abspath cwd sp.(sp_ws_exec)).
Proof. exact tools_on_path_proof. Qed.

(* P1. The positional parameters are the dependencies in declared order. *)
Theorem args_in_declared_order : forall cwd bash script trace sp,
  bash <> s_dashdash ->
  positional (call_args cwd bash script trace sp) = map (abspath cwd) sp.(sp_args).
Proof. exact args_in_declared_order_proof. Qed.

(* P1. The environment of a step is the computed environment restricted to
   the variables declared (strong or weak) for that step by the recipe or one
   of its classes; what checkout sees build sees, what build sees package sees. *)
Theorem step_env_exact : forall full rs kd k v,
  In (k, v) (step_env full rs kd) <->
  In (k, v) full /\ exists r, In r rs /\ In k (fst (own_vars r kd) ++ snd (own_vars r kd)).
Proof. exact step_env_exact_proof. Qed.

Theorem step_env_chain : forall full rs k v,
  (In (k, v) (step_env full rs KCheckout) -> In (k, v) (step_env full rs KBuild)) /\
  (In (k, v) (step_env full rs KBuild) -> In (k, v) (step_env full rs KPackage)).
Proof. exact step_env_chain_proof. Qed.

(* P1. A fingerprint script sees, of the step's variables, exactly those named
   in fingerprintVars (with their exact values); everything else is what the
   filtered host environment plus BOB_CWD provides. *)
Theorem fingerprint_env_restricted : forall preserve sp environ fpcwd stepenv varset,
  NoDup (keys stepenv) -> (forall k v, In (k, v) stepenv -> no_nul v) ->
  exists e', fingerprint_env preserve sp environ fpcwd stepenv varset = Some e' /\
    (forall k v, In (k, v) stepenv -> In k varset -> lookup e' k = Some v) /\
    (forall k, ~ (In k (keys stepenv) /\ In k varset) ->
               lookup e' k = lookup (fingerprint_proc_env preserve sp environ fpcwd) k).
Proof. exact fingerprint_env_restricted_proof. Qed.

(* P1 mount_plan_exact, in three parts, over the mount table that the
   namespace-sandbox option parser (helper_mounts) derives from the command
   line Bob generates.
   (a) the only writable mounts: the step's own workspace, its env file, the
       private whiteout directory over the project directory (slim sandbox),
       and host mounts that the sandbox recipe itself marks "rw". *)
Theorem mount_plan_writable_exact : forall w sp m,
  has_sandbox sp = true -> In m (mount_plan w sp) -> m_rw m = true ->
  m = ws_mount w sp \/
  (exists f, sp.(sp_envfile) = Some f /\ m = envfile_mount w f) \/
  (sp.(sp_fat) = None /\ m = whiteout_mount w) \/
  (exists f hp sbp opts, sp.(sp_fat) = Some f /\ In (hp, sbp, opts) f.(fs_mounts) /\ str_mem s_rw opts = true /\
                         m = mk_mount (w.(w_subst) hp) (w.(w_subst) sbp) true).
Proof. exact writable_mounts_exact_proof. Qed.

(* (b) every declared dependency is mounted read-only at its execution path *)
Theorem mount_plan_deps_readonly : forall w sp d,
  has_sandbox sp = true -> In d sp.(sp_dep_mounts) -> In (dep_mount w d) (mount_plan w sp).
Proof. exact deps_mounted_readonly_proof. Qed.

(* (c) slim sandbox: whatever path below the project directory the step looks
   at, it resolves to the empty private whiteout directory, the step's own
   script/env file/workspace, or a declared dependency — never to the host's
   view of the project directory (other workspaces are invisible). *)
Theorem mount_plan_slim_project_view : forall w sp p m,
  sp.(sp_fat) = None -> sp.(sp_slim) = true ->
  under w.(w_cwd) p = true ->
  resolve (mount_plan w sp) p None = Some m ->
  m = whiteout_mount w \/ m = script_mount w sp \/
  (exists f, sp.(sp_envfile) = Some f /\ m = envfile_mount w f) \/
  m = ws_mount w sp \/ (exists d, In d sp.(sp_dep_mounts) /\ m = dep_mount w d).
Proof. exact slim_project_view_proof. Qed.

(* the whole table, in order (both sandbox kinds) *)
Theorem mount_plan_shape : forall w sp, has_sandbox sp = true ->
  mount_plan w sp =
  flat_map item_mounts (match sp.(sp_fat) with Some f => fat_items w sp.(sp_jenkins) f | None => slim_items w end)
  ++ [script_mount w sp]
  ++ (match sp.(sp_envfile) with Some f => [envfile_mount w f] | None => [] end)
  ++ [ws_mount w sp]
  ++ map (dep_mount w) sp.(sp_dep_mounts).
Proof. exact Proofs.mount_plan_shape. Qed.

(* P1. The dependency mounts are exactly: the valid arguments, tools and the
   sandbox image of the step, plus the valid earlier steps of its own package. *)
Theorem dep_mounts_exact : forall s ts x,
  In x (dep_mounts s ts) <->
  (exists d, In d (st_args s ++ ts) /\ d.(d_valid) = true /\ x = (d.(d_storage), d.(d_exec))) \/
  (exists d, own_chain s d /\ st_valid d = true /\ x = (st_storage d, st_exec d)).
Proof. exact dep_mounts_exact_proof. Qed.

(* ------------------------------------------------------------------ non-vacuity *)
(* it's $HOME "q" \ <newline> é *  *)
Definition nasty : str := [105; 116; 39; 115; 32; 36; 72; 79; 77; 69; 32; 34; 113; 34; 32; 92; 10; 233; 32; 42].

Example quote_roundtrip_nonvacuous :
  quote nasty <> nasty /\ bash_word [] (quote nasty) = Some nasty /\
  bash_word [] (ch_dq :: nasty ++ [ch_dq]) <> Some nasty.      (* naive "..." quoting loses the value *)
Proof. vm_compute. repeat split; discriminate. Qed.

Definition sp0 : spec :=
  {| sp_env := [([65], nasty); ([80; 65; 84; 72], [47; 120])];      (* A=nasty, PATH=/x (overridden) *)
     sp_paths := [[116; 47; 98; 105; 110]];                         (* t/bin *)
     sp_libs := [];
     sp_ws_storage := [119]; sp_ws_exec := [119];                   (* w *)
     sp_args := [[100; 49]; [100; 50]];                             (* d1 d2 *)
     sp_whitelist := [[80; 65; 84; 72]; [87; 76]];                  (* PATH WL *)
     sp_dep_mounts := [([100; 49], [100; 49])];
     sp_slim := true; sp_fat := None; sp_net := false; sp_envfile := None;
     sp_script_hint := None; sp_jenkins := false |}.
Definition environ0 : envmap :=
  [([80; 65; 84; 72], [47; 98; 105; 110]); ([87; 76], [119]); ([83; 69; 67; 82; 69; 84], [108])].  (* PATH=/bin WL=w SECRET=l *)
Definition cwd0 : str := [47; 112].    (* /p *)

Example export_value_nonvacuous :
  exists e', script_env [47; 100] false cwd0 sp0 environ0 = Some e' /\
    lookup e' [65] = Some nasty /\
    lookup e' [83; 69; 67; 82; 69; 84] = None /\
    lookup e' [87; 76] = Some [119] /\
    lookup e' s_PATH = Some [47; 112; 47; 116; 47; 98; 105; 110; 58; 47; 98; 105; 110].   (* /p/t/bin:/bin *)
Proof. eexists. split; [vm_compute; reflexivity|]. vm_compute. repeat split. Qed.

Example args_nonvacuous :
  positional (call_args cwd0 [98] [115] true sp0) = [[47; 112; 47; 100; 49]; [47; 112; 47; 100; 50]].
Proof. vm_compute. reflexivity. Qed.

Definition world0 : world :=
  {| w_cwd := cwd0; w_tmp := [47; 116]; w_root_entries := [[112]; [116; 109; 112]; [117]];
     w_image_entries := []; w_exists := []; w_helper := [104]; w_subst := fun x => x |}.

Example mount_plan_nonvacuous :
  mount_plan world0 sp0 =
  [ mk_mount [47; 112] [47; 112] false;                                   (* /p  ro (host view of the project) *)
    mk_mount [47; 117] [47; 117] false;                                   (* /u  ro *)
    mk_mount [47; 116; 47; 119; 104; 105; 116; 101; 111; 117; 116] [47; 112] true;   (* whiteout over /p *)
    mk_mount [47; 116; 47; 115; 99; 114; 105; 112; 116] [47; 116; 47; 115; 99; 114; 105; 112; 116] false;
    mk_mount [47; 112; 47; 119] [47; 112; 47; 119] true;                  (* /p/w rw: own workspace *)
    mk_mount [47; 112; 47; 100; 49] [47; 112; 47; 100; 49] false ]        (* /p/d1 ro: dependency *)
  /\ resolve (mount_plan world0 sp0) [47; 112; 47; 111] None = Some (whiteout_mount world0)     (* /p/o: other workspace hidden *)
  /\ resolve (mount_plan world0 sp0) [47; 112; 47; 100; 49; 47; 102] None = Some (dep_mount world0 ([100; 49], [100; 49])).
Proof. vm_compute. repeat split. Qed.

Example dep_mounts_nonvacuous :
  let co := SNoArg true true [115] [115] in
  let bu := SArg true false [98] [98] co [{| d_valid := true; d_storage := [108]; d_exec := [108] |};
                                          {| d_valid := false; d_storage := [105]; d_exec := [105] |}] in
  let pk := SArg true false [100] [100] bu [] in
  dep_mounts pk [{| d_valid := true; d_storage := [116]; d_exec := [116] |}] =
  [([98], [98]); ([116], [116]); ([98], [98]); ([115], [115])].
Proof. vm_compute. reflexivity. Qed.

Example step_env_nonvacuous :
  let r := {| rv_checkout := [[65]]; rv_checkout_weak := []; rv_build := [[66]]; rv_build_weak := [[87]];
              rv_package := []; rv_package_weak := [] |} in
  let full := [([65], [49]); ([66], [50]); ([67], [51]); ([87], [52])] in
  step_env full [r] KCheckout = [([65], [49])] /\
  step_env full [r] KBuild = [([65], [49]); ([66], [50]); ([87], [52])] /\
  digest_env full [r] KBuild = [([65], [49]); ([66], [50])].
Proof. vm_compute. repeat split. Qed.

Example fingerprint_env_nonvacuous :
  exists e', fingerprint_env false sp0 environ0 [47; 102] [([65], nasty); ([66], [50])] [[65]] = Some e' /\
    lookup e' [65] = Some nasty /\ lookup e' [66] = None /\ lookup e' [83; 69; 67; 82; 69; 84] = None /\
    lookup e' s_BOB_CWD = Some [47; 102].
Proof. eexists. split; [vm_compute; reflexivity|]. vm_compute. repeat split. Qed.

(* ------------------------------------------------------------------ tools as seen by the consumer *)
(* P1. LD_LIBRARY_PATH / PATH entries are built from the exec path of each used
   tool *as seen by the consuming step* (getExecPath with the consumer as
   referrer): exactly <consumer-view exec path>/<lib> for every lib of every
   used tool, and <consumer-view exec path>/<path> for every used tool. *)
Theorem library_paths_consumer_view : forall self tools p,
  In p (library_paths self tools) <->
  exists n t l, In (n, t) tools /\ In l t.(it_libs) /\ p = os_join (exec_path t.(it_step) (Some self)) l.
Proof. exact library_paths_consumer_view_proof. Qed.

Theorem tool_paths_consumer_view : forall self tools p,
  In p (tool_paths self tools) <->
  exists n t, In (n, t) tools /\ p = os_join (exec_path t.(it_step) (Some self)) t.(it_path).
Proof. exact tool_paths_consumer_view_proof. Qed.

(* ... each such entry lies inside a dependency that the sandbox mounts
   read-only at that very path (ties into mount_plan_deps_readonly) ... *)
Theorem library_path_inside_mounted_tool : forall w sp self tools n t l,
  has_sandbox sp = true ->
  In (n, t) tools -> In l t.(it_libs) -> is_abs l = false ->
  exec_path t.(it_step) (Some self) <> [] ->
  In (tool_mount self t) sp.(sp_dep_mounts) ->
  In (os_join (exec_path t.(it_step) (Some self)) l) (library_paths self tools) /\
  In (dep_mount w (tool_mount self t)) (mount_plan w sp) /\
  under (exec_path t.(it_step) (Some self)) (os_join (exec_path t.(it_step) (Some self)) l) = true.
Proof. exact library_path_inside_mounted_tool_proof. Qed.

(* ... and that is what the script finds in LD_LIBRARY_PATH and at the front of PATH. *)
Theorem ld_library_path_consumer_view : forall dpath preserve cwd sp environ e' self tools,
  spec_ok cwd sp ->
  sp.(sp_libs) = library_paths self tools ->
  sp.(sp_paths) = tool_paths self tools ->
  script_env dpath preserve cwd sp environ = Some e' ->
  lookup e' s_LD = Some (join_with [ch_colon] (map (abspath cwd) (library_paths self tools))) /\
  lookup e' s_PATH = Some (path_value (map (abspath cwd) (tool_paths self tools))
                                      (getenv (bash_init dpath (proc_env preserve sp environ)) s_PATH)).
Proof. exact ld_library_path_consumer_view_proof. Qed.

(* a tool built on the host (not sandboxed), consumed (a) by a step inside a sandbox image with automatic
   stable paths: seen at /bob/ab/workspace; (b) by a host step: seen at its storage path;
   and a tool built inside the image consumed by a host step: seen at its storage path, not under /bob *)
Example consumer_view_nonvacuous :
  let host_tool := {| ir_valid := true; ir_stable := None; ir_sandboxed := false; ir_vid := [97; 98];
                      ir_storage := [100; 47; 116]; ir_name := [116] |} in
  let boxed_tool := {| ir_valid := true; ir_stable := None; ir_sandboxed := true; ir_vid := [99; 100];
                       ir_storage := [100; 47; 98]; ir_name := [98] |} in
  let inside := {| ir_valid := true; ir_stable := None; ir_sandboxed := true; ir_vid := [49]; ir_storage := [119]; ir_name := [105] |} in
  let outside := {| ir_valid := true; ir_stable := None; ir_sandboxed := false; ir_vid := [50]; ir_storage := [120]; ir_name := [111] |} in
  let tl s := [([109], {| it_step := s; it_path := [98; 105; 110]; it_libs := [[108]; [108; 47; 101]] |})] in
  library_paths inside (tl host_tool) =
    [[47; 98; 111; 98; 47; 97; 98; 47; 119; 111; 114; 107; 115; 112; 97; 99; 101; 47; 108];
     [47; 98; 111; 98; 47; 97; 98; 47; 119; 111; 114; 107; 115; 112; 97; 99; 101; 47; 108; 47; 101]] /\
  library_paths outside (tl host_tool) = [[100; 47; 116; 47; 108]; [100; 47; 116; 47; 108; 47; 101]] /\
  library_paths outside (tl boxed_tool) = [[100; 47; 98; 47; 108]; [100; 47; 98; 47; 108; 47; 101]] /\
  exec_path boxed_tool None = [47; 98; 111; 98; 47; 99; 100; 47; 119; 111; 114; 107; 115; 112; 97; 99; 101] /\
  tool_paths inside (tl host_tool) = [[47; 98; 111; 98; 47; 97; 98; 47; 119; 111; 114; 107; 115; 112; 97; 99; 101; 47; 98; 105; 110]].
Proof. vm_compute. repeat split. Qed.
