(* C13 — lemmas. *)
From Coq Require Import List NArith Bool Lia Permutation.
Require Import BobV.C13.Model.
Import ListNotations.
Open Scope N_scope.

(* ------------------------------------------------------------------ strings *)
Lemma str_eqb_refl : forall a, str_eqb a a = true.
Proof. induction a; cbn; [reflexivity|]. rewrite N.eqb_refl. exact IHa. Qed.

Lemma str_eqb_eq : forall a b, str_eqb a b = true <-> a = b.
Proof.
  induction a as [|x a IH]; destruct b as [|y b]; cbn; split; intro H; try reflexivity; try discriminate.
  - apply andb_true_iff in H. destruct H as [H1 H2]. apply N.eqb_eq in H1. apply IH in H2. congruence.
  - inversion H; subst. rewrite N.eqb_refl. apply str_eqb_refl.
Qed.

Lemma str_eqb_neq : forall a b, str_eqb a b = false <-> a <> b.
Proof.
  intros a b. split; intro H.
  - intro E. apply str_eqb_eq in E. congruence.
  - destruct (str_eqb a b) eqn:E; [|reflexivity]. apply str_eqb_eq in E. contradiction.
Qed.

Lemma str_eqb_sym : forall a b, str_eqb a b = str_eqb b a.
Proof.
  intros a b. destruct (str_eqb a b) eqn:E.
  - apply str_eqb_eq in E. subst. symmetry. apply str_eqb_refl.
  - symmetry. apply str_eqb_neq. apply str_eqb_neq in E. congruence.
Qed.

Lemma str_mem_In : forall s l, str_mem s l = true <-> In s l.
Proof.
  induction l as [|x l IH]; cbn; split; intro H; try discriminate; try contradiction.
  - apply orb_true_iff in H. destruct H as [H|H]; [left; apply str_eqb_eq in H; congruence | right; apply IH; exact H].
  - apply orb_true_iff. destruct H as [H|H]; [left; subst; apply str_eqb_refl | right; apply IH; exact H].
Qed.

Lemma mem_In : forall c l, mem c l = true <-> In c l.
Proof.
  induction l as [|x l IH]; cbn; split; intro H; try discriminate; try contradiction.
  - apply orb_true_iff in H. destruct H as [H|H]; [left; apply N.eqb_eq in H; congruence | right; apply IH; exact H].
  - apply orb_true_iff. destruct H as [H|H]; [left; subst; apply N.eqb_refl | right; apply IH; exact H].
Qed.

(* ------------------------------------------------------------------ quoting *)
Lemma no_nul_cons : forall c s, no_nul (c :: s) <-> c <> ch_nul /\ no_nul s.
Proof. unfold no_nul. cbn. intuition. Qed.

Lemma no_nul_app : forall a b, no_nul (a ++ b) <-> no_nul a /\ no_nul b.
Proof. unfold no_nul. intros. rewrite in_app_iff. intuition. Qed.

(* a safe character is appended as it is in unquoted mode *)
Lemma is_safe_u_char : forall acc c, is_safe c = true -> u_char acc c = Cont MU (acc ++ [c]).
Proof.
  intros acc c H. unfold u_char.
  assert (Hc : c <> 0 /\ c <> 39 /\ c <> 34 /\ c <> 92 /\ c <> 36 /\ c <> 32 /\ c <> 9 /\ c <> 10).
  { repeat split; intro E; subst c; vm_compute in H; discriminate. }
  destruct Hc as (H0 & H1 & H2 & H3 & H4 & H5 & H6 & H7).
  unfold ch_nul, ch_sq, ch_dq, ch_bs, ch_dollar, is_term, ch_sp, ch_tab, ch_nl.
  repeat match goal with |- context [?x =? ?y] => let E := fresh in destruct (N.eqb_spec x y) as [E|E]; [contradiction|] end.
  cbn. rewrite H. reflexivity.
Qed.

Lemma lex_safe : forall env s acc rest,
  forallb is_safe s = true -> lex env MU acc (s ++ rest) = lex env MU (acc ++ s) rest.
Proof.
  induction s as [|c s IH]; intros acc rest H; cbn [app].
  - rewrite app_nil_r. reflexivity.
  - cbn [forallb] in H. apply andb_true_iff in H. destruct H as [Hc Hs].
    cbn [lex step]. rewrite (is_safe_u_char acc c Hc). rewrite IH by exact Hs.
    rewrite <- app_assoc. reflexivity.
Qed.

(* inside single quotes: the escaped text followed by the closing quote *)
Lemma lex_sq_body : forall env s acc rest,
  no_nul s -> lex env MS acc (esc_sq s ++ ch_sq :: rest) = lex env MU (acc ++ s) rest.
Proof.
  induction s as [|c s IH]; intros acc rest Hn; cbn [esc_sq app].
  - rewrite app_nil_r. reflexivity.
  - apply no_nul_cons in Hn. destruct Hn as [Hc Hs].
    destruct (N.eqb_spec c ch_sq) as [E|E].
    + subst c. unfold sq_escape. cbn [app].
      (* ' " ' " ' *)
      change (lex env MS acc (39 :: 34 :: 39 :: 34 :: 39 :: esc_sq s ++ ch_sq :: rest))
        with (lex env MS (acc ++ [39]) (esc_sq s ++ ch_sq :: rest)).
      rewrite IH by exact Hs. rewrite <- app_assoc. reflexivity.
    + cbn [app lex step]. destruct (N.eqb_spec c ch_nul) as [E0|E0]; [contradiction|].
      destruct (N.eqb_spec c ch_sq) as [E1|E1]; [contradiction|].
      rewrite IH by exact Hs. rewrite <- app_assoc. reflexivity.
Qed.

(* P1 (context form): a quoted string is consumed exactly and contributes
   exactly its value, whatever precedes and follows it in the word *)
Lemma lex_quote : forall env s acc rest,
  no_nul s -> lex env MU acc (quote s ++ rest) = lex env MU (acc ++ s) rest.
Proof.
  intros env s acc rest Hn. unfold quote. destruct s as [|c s].
  - cbn. rewrite app_nil_r. reflexivity.
  - destruct (forallb is_safe (c :: s)) eqn:Hs.
    + apply lex_safe. exact Hs.
    + change ((ch_sq :: esc_sq (c :: s) ++ [ch_sq]) ++ rest)
        with (ch_sq :: (esc_sq (c :: s) ++ [ch_sq]) ++ rest).
      rewrite <- app_assoc. cbn [app].
      change (lex env MU acc (ch_sq :: esc_sq (c :: s) ++ ch_sq :: rest))
        with (lex env MS acc (esc_sq (c :: s) ++ ch_sq :: rest)).
      apply lex_sq_body. exact Hn.
Qed.

Lemma quote_roundtrip_proof : forall env s, no_nul s -> bash_word env (quote s) = Some s.
Proof.
  intros env s Hn. unfold bash_word.
  rewrite <- (app_nil_r (quote s)). rewrite lex_quote by exact Hn. cbn. reflexivity.
Qed.

(* ------------------------------------------------------------------ environments *)
Lemma lookup_set_same : forall e k v, lookup (set_var e k v) k = Some v.
Proof.
  induction e as [|[k' v'] e IH]; intros k v; cbn.
  - rewrite str_eqb_refl. reflexivity.
  - destruct (str_eqb k k') eqn:E; cbn.
    + rewrite str_eqb_refl. reflexivity.
    + rewrite E. apply IH.
Qed.

Lemma lookup_set_other : forall e k v k', k' <> k -> lookup (set_var e k v) k' = lookup e k'.
Proof.
  induction e as [|[k0 v0] e IH]; intros k v k' Hne; cbn.
  - apply str_eqb_neq in Hne. rewrite Hne. reflexivity.
  - destruct (str_eqb k k0) eqn:E; cbn.
    + apply str_eqb_eq in E. subst k0. apply str_eqb_neq in Hne. rewrite Hne. reflexivity.
    + destruct (str_eqb k' k0); [reflexivity | apply IH; exact Hne].
Qed.

Lemma getenv_set_other : forall e k v k', k' <> k -> getenv (set_var e k v) k' = getenv e k'.
Proof. intros. unfold getenv. rewrite lookup_set_other by assumption. reflexivity. Qed.

Lemma lookup_None_keys : forall e k, lookup e k = None <-> ~ In k (keys e).
Proof.
  induction e as [|[k' v'] e IH]; intros k; cbn.
  - intuition.
  - destruct (str_eqb k k') eqn:E.
    + apply str_eqb_eq in E. subst. split; [discriminate | intro H; exfalso; apply H; left; reflexivity].
    + apply str_eqb_neq in E. rewrite IH. split; intro H; [intros [H1|H1]; [congruence | contradiction] | intro H1; apply H; right; exact H1].
Qed.

Lemma lookup_In : forall e k v, NoDup (keys e) -> In (k, v) e -> lookup e k = Some v.
Proof.
  induction e as [|[k' v'] e IH]; intros k v Hnd Hin; cbn in *; [contradiction|].
  inversion Hnd as [|? ? Hnotin Hnd']; subst.
  destruct Hin as [Hin|Hin].
  - inversion Hin; subst. rewrite str_eqb_refl. reflexivity.
  - destruct (str_eqb k k') eqn:E.
    + apply str_eqb_eq in E. subst k'. exfalso. apply Hnotin. unfold keys. apply in_map_iff. exists (k, v). split; [reflexivity | exact Hin].
    + apply IH; assumption.
Qed.

Lemma lookup_Some_In : forall e k v, lookup e k = Some v -> In (k, v) e.
Proof.
  induction e as [|[k' v'] e IH]; intros k v H; cbn in *; [discriminate|].
  destruct (str_eqb k k') eqn:E.
  - apply str_eqb_eq in E. inversion H; subst. left; reflexivity.
  - right. apply IH. exact H.
Qed.

Lemma keys_set_var : forall e k v k', In k' (keys (set_var e k v)) <-> k' = k \/ In k' (keys e).
Proof.
  induction e as [|[k0 v0] e IH]; intros k v k'; cbn.
  - intuition.
  - destruct (str_eqb k k0) eqn:E; cbn.
    + apply str_eqb_eq in E. subst k0. intuition.
    + rewrite IH. intuition.
Qed.

Lemma NoDup_keys_set_var : forall e k v, NoDup (keys e) -> NoDup (keys (set_var e k v)).
Proof.
  induction e as [|[k0 v0] e IH]; intros k v Hnd; cbn.
  - constructor; [intros [] | constructor].
  - inversion Hnd as [|? ? Hnotin Hnd']; subst.
    destruct (str_eqb k k0) eqn:E; cbn.
    + apply str_eqb_eq in E. subst k0. constructor; assumption.
    + constructor; [| apply IH; exact Hnd'].
      intro H. apply keys_set_var in H. destruct H as [H|H]; [subst; rewrite str_eqb_refl in E; discriminate | contradiction].
Qed.

Lemma In_set_var : forall e k v k' w, NoDup (keys e) ->
  In (k', w) (set_var e k v) -> (k' = k /\ w = v) \/ (k' <> k /\ In (k', w) e).
Proof.
  induction e as [|[k0 v0] e IH]; intros k v k' w Hnd Hin; cbn in *.
  - destruct Hin as [Hin|[]]. inversion Hin; subst. left; split; reflexivity.
  - inversion Hnd as [|? ? Hnotin Hnd']; subst.
    destruct (str_eqb k k0) eqn:E; cbn in Hin.
    + apply str_eqb_eq in E. subst k0. destruct Hin as [Hin|Hin].
      * inversion Hin; subst. left; split; reflexivity.
      * right. split; [| right; exact Hin].
        intro; subst k'. apply Hnotin. unfold keys. apply in_map_iff. exists (k, w). split; [reflexivity | exact Hin].
    + destruct Hin as [Hin|Hin].
      * inversion Hin; subst. right. split; [| left; reflexivity].
        intro; subst. rewrite str_eqb_refl in E. discriminate.
      * destruct (IH _ _ _ _ Hnd' Hin) as [H|[H1 H2]]; [left; exact H | right; split; [exact H1 | right; exact H2]].
Qed.

Lemma In_set_var_new : forall e k v, In (k, v) (set_var e k v).
Proof.
  induction e as [|[k0 v0] e IH]; intros k v; cbn.
  - left; reflexivity.
  - destruct (str_eqb k k0); [left; reflexivity | right; apply IH].
Qed.

Lemma In_set_var_old : forall e k v k' w, k' <> k -> In (k', w) e -> In (k', w) (set_var e k v).
Proof.
  induction e as [|[k0 v0] e IH]; intros k v k' w Hne Hin; cbn in *; [contradiction|].
  destruct (str_eqb k k0) eqn:E.
  - apply str_eqb_eq in E. subst k0. destruct Hin as [Hin|Hin]; [inversion Hin; subst; contradiction | right; exact Hin].
  - destruct Hin as [Hin|Hin]; [left; exact Hin | right; apply IH; assumption].
Qed.

(* filter by key *)
Lemma lookup_filter_key : forall (P : str -> bool) e k,
  lookup (filter (fun kv => P (fst kv)) e) k = if P k then lookup e k else None.
Proof.
  induction e as [|[k' v'] e IH]; intros k; cbn.
  - destruct (P k); reflexivity.
  - destruct (P k') eqn:EP; cbn.
    + destruct (str_eqb k k') eqn:E.
      * apply str_eqb_eq in E. subst. rewrite EP. reflexivity.
      * apply IH.
    + rewrite IH. destruct (str_eqb k k') eqn:E; [|reflexivity].
      apply str_eqb_eq in E. subst. rewrite EP. reflexivity.
Qed.

(* ------------------------------------------------------------------ sorting *)
Lemma insert_kv_perm : forall x l, Permutation (insert_kv x l) (x :: l).
Proof.
  induction l as [|y l IH]; cbn; [apply Permutation_refl|].
  destruct (str_leb (fst x) (fst y)); [apply Permutation_refl|].
  eapply Permutation_trans; [apply perm_skip; exact IH | apply perm_swap].
Qed.

Lemma sort_kv_perm : forall l, Permutation (sort_kv l) l.
Proof.
  induction l as [|x l IH]; cbn; [constructor|].
  eapply Permutation_trans; [apply insert_kv_perm | apply perm_skip; exact IH].
Qed.

(* ------------------------------------------------------------------ running export lists *)
(* value of an entry: independent of the environment, or (the PATH line)
   dependent only on the PATH the interpreter inherited *)
Inductive entry_val (e0 : envmap) : str -> str -> str -> Prop :=
| ev_const : forall k w v, (forall e, bash_word e w = Some v) -> entry_val e0 k w v
| ev_path : forall w v, (forall e, getenv e s_PATH = getenv e0 s_PATH -> bash_word e w = Some v) ->
            entry_val e0 s_PATH w v.

Lemma run_exports_spec : forall e0 l e,
  NoDup (keys l) ->
  (forall k w, In (k, w) l -> exists v, entry_val e0 k w v) ->
  (In s_PATH (keys l) -> getenv e s_PATH = getenv e0 s_PATH) ->
  exists e', run_exports e l = Some e' /\
    (forall k w v, In (k, w) l -> entry_val e0 k w v -> lookup e' k = Some v) /\
    (forall k, ~ In k (keys l) -> lookup e' k = lookup e k).
Proof.
  intros e0. induction l as [|[k w] l IH]; intros e Hnd Hval Hpath; cbn [run_exports].
  - exists e. split; [reflexivity|]. split; [intros ? ? ? []| reflexivity].
  - cbn [keys map fst] in Hnd. inversion Hnd as [|? ? Hnotin Hnd']; subst.
    destruct (Hval k w (or_introl eq_refl)) as [v Hv].
    assert (Hbw : bash_word e w = Some v).
    { inversion Hv as [? ? ? Hc | ? ? Hp]; subst; [apply Hc | apply Hp; apply Hpath; left; reflexivity]. }
    rewrite Hbw.
    destruct (IH (set_var e k v) Hnd') as [e' [Hrun [Hin Hout]]].
    + intros k1 w1 H1. apply Hval. right. exact H1.
    + intro HP. rewrite getenv_set_other; [apply Hpath; right; exact HP|].
      intro; subst k. contradiction.
    + exists e'. split; [exact Hrun|]. split.
      * intros k1 w1 v1 [H1|H1] Hev.
        -- inversion H1; subst k1 w1.
           assert (v1 = v).
           { assert (Hb1 : bash_word e w = Some v1).
             { inversion Hev as [? ? ? Hc | ? ? Hp]; subst; [apply Hc | apply Hp; apply Hpath; left; reflexivity]. }
             congruence. }
           subst v1. rewrite Hout by exact Hnotin. apply lookup_set_same.
        -- eapply Hin; eassumption.
      * intros k1 Hk1. cbn [keys map fst] in Hk1.
        rewrite Hout; [| intro; apply Hk1; right; assumption].
        apply lookup_set_other. intro; subst. apply Hk1. left; reflexivity.
Qed.

(* ------------------------------------------------------------------ words of the prolog *)
Lemma join_cons2 : forall sep (x y : str) r, join_with sep (x :: y :: r) = x ++ sep ++ join_with sep (y :: r).
Proof. reflexivity. Qed.

Lemma lex_colon : forall env acc rest, lex env MU acc (ch_colon :: rest) = lex env MU (acc ++ [ch_colon]) rest.
Proof. reflexivity. Qed.

Lemma lex_dollar_PATH_end : forall env acc,
  lex env MU acc s_dollar_PATH = Some (acc ++ getenv env s_PATH, []).
Proof. reflexivity. Qed.

Lemma lex_dollar_PATH_nl : forall env acc rest,
  lex env MU acc (s_dollar_PATH ++ ch_nl :: rest) = Some (acc ++ getenv env s_PATH, ch_nl :: rest).
Proof. reflexivity. Qed.

(* join of quoted strings *)
Lemma lex_join_quotes : forall env ps acc rest,
  Forall no_nul ps ->
  lex env MU acc (join_with [ch_colon] (map quote ps) ++ rest) =
  lex env MU (acc ++ join_with [ch_colon] ps) rest.
Proof.
  induction ps as [|p ps IH]; intros acc rest Hn.
  - cbn. rewrite app_nil_r. reflexivity.
  - inversion Hn as [|? ? Hp Hps]; subst. destruct ps as [|q ps].
    + cbn [map join_with]. apply lex_quote. exact Hp.
    + cbn [map]. rewrite !join_cons2. rewrite <- !app_assoc.
      rewrite lex_quote by exact Hp. cbn [app]. rewrite lex_colon.
      change (quote q :: map quote ps) with (map quote (q :: ps)).
      rewrite IH by exact Hps. rewrite <- !app_assoc. reflexivity.
Qed.

Lemma join_snoc : forall sep (ps : list str) (x : str), ps <> [] ->
  join_with sep (ps ++ [x]) = join_with sep ps ++ sep ++ x.
Proof.
  induction ps as [|p ps IH]; intros x Hne; [congruence|].
  destruct ps as [|q ps].
  - reflexivity.
  - change ((p :: q :: ps) ++ [x]) with (p :: (q :: ps) ++ [x]).
    change ((q :: ps) ++ [x]) with (q :: ps ++ [x]).
    rewrite !join_cons2. change (q :: ps ++ [x]) with ((q :: ps) ++ [x]).
    rewrite IH by discriminate. rewrite <- !app_assoc. reflexivity.
Qed.

Lemma lex_path_word_gen : forall env ps acc tailw,
  Forall no_nul ps ->
  lex env MU acc (join_with [ch_colon] (map quote ps ++ [s_dollar_PATH]) ++ tailw) =
  lex env MU (acc ++ join_with [ch_colon] (ps ++ [[]])) (s_dollar_PATH ++ tailw).
Proof.
  intros env ps acc tailw Hn. destruct ps as [|p ps].
  - cbn. rewrite app_nil_r. reflexivity.
  - assert (Hm : map quote (p :: ps) <> []) by discriminate.
    rewrite (join_snoc [ch_colon] (map quote (p :: ps)) s_dollar_PATH Hm).
    assert (Hp : p :: ps <> []) by discriminate.
    replace (join_with [ch_colon] ((p :: ps) ++ [[]])) with (join_with [ch_colon] (p :: ps) ++ [ch_colon] ++ [])
      by (symmetry; apply join_snoc; exact Hp).
    rewrite <- !app_assoc. rewrite lex_join_quotes by exact Hn.
    cbn [app]. rewrite lex_colon. rewrite <- !app_assoc. reflexivity.
Qed.

Lemma join_snoc_nil_val : forall (ps : list str) (x : str),
  join_with [ch_colon] (ps ++ [[]]) ++ x = join_with [ch_colon] (ps ++ [x]).
Proof.
  intros ps x. destruct ps as [|p ps].
  - cbn. reflexivity.
  - rewrite !join_snoc by discriminate. rewrite <- !app_assoc. reflexivity.
Qed.

Lemma bash_word_path_word : forall env cwd paths,
  Forall no_nul (map (abspath cwd) paths) ->
  bash_word env (path_word cwd paths) = Some (path_value (map (abspath cwd) paths) (getenv env s_PATH)).
Proof.
  intros env cwd paths Hn. unfold bash_word, path_word, path_value.
  rewrite <- (map_map (abspath cwd) quote).
  rewrite <- (app_nil_r (join_with [ch_colon] (map quote (map (abspath cwd) paths) ++ [s_dollar_PATH]))).
  rewrite lex_path_word_gen by exact Hn. rewrite app_nil_r.
  rewrite lex_dollar_PATH_end. rewrite <- app_assoc. cbn [app]. rewrite join_snoc_nil_val. reflexivity.
Qed.

Lemma bash_word_ld_word : forall env cwd libs,
  Forall no_nul (map (abspath cwd) libs) ->
  bash_word env (ld_word cwd libs) = Some (join_with [ch_colon] (map (abspath cwd) libs)).
Proof.
  intros env cwd libs Hn. unfold bash_word, ld_word.
  rewrite <- (map_map (abspath cwd) quote).
  rewrite <- (app_nil_r (join_with [ch_colon] (map quote (map (abspath cwd) libs)))).
  rewrite lex_join_quotes by exact Hn. cbn. reflexivity.
Qed.

(* ------------------------------------------------------------------ the prolog *)
Lemma keys_map_quote : forall e : envmap, keys (map (fun kv => (fst kv, quote (snd kv))) e) = keys e.
Proof. intros e. unfold keys. rewrite map_map. reflexivity. Qed.

Lemma bob_vars_distinct : s_PATH <> s_LD /\ s_PATH <> s_BOB_CWD /\ s_LD <> s_BOB_CWD.
Proof. repeat split; discriminate. Qed.

Lemma not_bob_var : forall k, ~ In k bob_vars <-> k <> s_PATH /\ k <> s_LD /\ k <> s_BOB_CWD.
Proof. intros k. unfold bob_vars. cbn. intuition. Qed.

Lemma keys_prolog_unsorted : forall cwd sp k,
  In k (keys (prolog_unsorted cwd sp)) <-> In k bob_vars \/ In k (keys sp.(sp_env)).
Proof.
  intros cwd sp k. unfold prolog_unsorted. rewrite !keys_set_var. rewrite keys_map_quote.
  unfold bob_vars. cbn. intuition.
Qed.

Lemma NoDup_prolog_unsorted : forall cwd sp, NoDup (keys sp.(sp_env)) -> NoDup (keys (prolog_unsorted cwd sp)).
Proof.
  intros cwd sp H. unfold prolog_unsorted. repeat apply NoDup_keys_set_var. rewrite keys_map_quote. exact H.
Qed.

Lemma prolog_entries : forall cwd sp k w,
  NoDup (keys sp.(sp_env)) -> In (k, w) (prolog_unsorted cwd sp) ->
  (k = s_BOB_CWD /\ w = quote (abspath cwd sp.(sp_ws_exec))) \/
  (k = s_LD /\ w = ld_word cwd sp.(sp_libs)) \/
  (k = s_PATH /\ w = path_word cwd sp.(sp_paths)) \/
  (~ In k bob_vars /\ exists v, In (k, v) sp.(sp_env) /\ w = quote v).
Proof.
  intros cwd sp k w Hnd Hin. unfold prolog_unsorted in Hin.
  set (base := map (fun kv => (fst kv, quote (snd kv))) sp.(sp_env)) in *.
  assert (Hb : NoDup (keys base)) by (unfold base; rewrite keys_map_quote; exact Hnd).
  apply In_set_var in Hin; [| repeat apply NoDup_keys_set_var; exact Hb].
  destruct Hin as [[H1 H2]|[H1 Hin]]; [left; split; assumption|].
  apply In_set_var in Hin; [| apply NoDup_keys_set_var; exact Hb].
  destruct Hin as [[H3 H4]|[H3 Hin]]; [right; left; split; assumption|].
  apply In_set_var in Hin; [| exact Hb].
  destruct Hin as [[H5 H6]|[H5 Hin]]; [right; right; left; split; assumption|].
  right; right; right. split; [apply not_bob_var; repeat split; assumption|].
  unfold base in Hin. apply in_map_iff in Hin. destruct Hin as [[k0 v0] [Heq Hin]]. cbn in Heq.
  inversion Heq; subst. exists v0. split; [exact Hin | reflexivity].
Qed.

Lemma prolog_has_declared : forall cwd sp k v,
  In (k, v) sp.(sp_env) -> ~ In k bob_vars -> In (k, quote v) (prolog_unsorted cwd sp).
Proof.
  intros cwd sp k v Hin Hnb. apply not_bob_var in Hnb. destruct Hnb as (H1 & H2 & H3).
  unfold prolog_unsorted. repeat (apply In_set_var_old; [assumption|]).
  apply in_map_iff. exists (k, v). split; [reflexivity | exact Hin].
Qed.

Lemma prolog_has_cwd : forall cwd sp, In (s_BOB_CWD, quote (abspath cwd sp.(sp_ws_exec))) (prolog_unsorted cwd sp).
Proof. intros. unfold prolog_unsorted. apply In_set_var_new. Qed.

Lemma prolog_has_ld : forall cwd sp, In (s_LD, ld_word cwd sp.(sp_libs)) (prolog_unsorted cwd sp).
Proof.
  intros. unfold prolog_unsorted. apply In_set_var_old; [discriminate|]. apply In_set_var_new.
Qed.

Lemma prolog_has_path : forall cwd sp, In (s_PATH, path_word cwd sp.(sp_paths)) (prolog_unsorted cwd sp).
Proof.
  intros. unfold prolog_unsorted. apply In_set_var_old; [discriminate|]. apply In_set_var_old; [discriminate|].
  apply In_set_var_new.
Qed.

Lemma keys_perm : forall a b : envmap, Permutation a b -> Permutation (keys a) (keys b).
Proof. intros. unfold keys. apply Permutation_map. assumption. Qed.

Lemma lookup_bash_init_other : forall dpath e k, k <> s_PATH -> lookup (bash_init dpath e) k = lookup e k.
Proof.
  intros. unfold bash_init. destruct (lookup e s_PATH); [reflexivity | apply lookup_set_other; assumption].
Qed.

Lemma script_env_spec : forall dpath preserve cwd sp environ,
  spec_ok cwd sp ->
  exists e', script_env dpath preserve cwd sp environ = Some e' /\
    (forall k v, In (k, v) sp.(sp_env) -> ~ In k bob_vars -> lookup e' k = Some v) /\
    lookup e' s_BOB_CWD = Some (abspath cwd sp.(sp_ws_exec)) /\
    lookup e' s_LD = Some (join_with [ch_colon] (map (abspath cwd) sp.(sp_libs))) /\
    lookup e' s_PATH = Some (path_value (map (abspath cwd) sp.(sp_paths))
                                        (getenv (bash_init dpath (proc_env preserve sp environ)) s_PATH)) /\
    (forall k, ~ In k (keys sp.(sp_env)) -> ~ In k bob_vars ->
               lookup e' k = lookup (proc_env preserve sp environ) k).
Proof.
  intros dpath preserve cwd sp environ (Hnd & Hvals & Hpaths & Hlibs & Hcwd).
  set (h := bash_init dpath (proc_env preserve sp environ)).
  assert (Hperm : Permutation (prolog_exports cwd sp) (prolog_unsorted cwd sp)) by apply sort_kv_perm.
  assert (Hev : forall k w, In (k, w) (prolog_unsorted cwd sp) -> exists v, entry_val h k w v).
  { intros k w Hin. destruct (prolog_entries _ _ _ _ Hnd Hin) as [[H1 H2]|[[H1 H2]|[[H1 H2]|[H1 [v [H2 H3]]]]]]; subst.
    - eexists. apply ev_const. intro e. apply quote_roundtrip_proof. exact Hcwd.
    - eexists. apply ev_const. intro e. apply bash_word_ld_word. exact Hlibs.
    - eexists. apply ev_path. intros e He. rewrite bash_word_path_word by exact Hpaths. rewrite He. reflexivity.
    - eexists. apply ev_const. intro e. apply quote_roundtrip_proof. eapply Hvals; eassumption. }
  destruct (run_exports_spec h (prolog_exports cwd sp) h) as [e' [Hrun [Hin Hout]]].
  - eapply Permutation_NoDup; [apply Permutation_sym; apply keys_perm; exact Hperm|].
    apply NoDup_prolog_unsorted. exact Hnd.
  - intros k w H. apply Hev. eapply Permutation_in; eassumption.
  - reflexivity.
  - exists e'. split; [exact Hrun|].
    assert (Hsorted : forall k w, In (k, w) (prolog_unsorted cwd sp) -> In (k, w) (prolog_exports cwd sp)).
    { intros k w H. eapply Permutation_in; [apply Permutation_sym; exact Hperm | exact H]. }
    split; [|split; [|split; [|split]]].
    + intros k v Hkv Hnb. eapply Hin; [apply Hsorted; apply prolog_has_declared; eassumption|].
      apply ev_const. intro e. apply quote_roundtrip_proof. eapply Hvals; eassumption.
    + eapply Hin; [apply Hsorted; apply prolog_has_cwd|].
      apply ev_const. intro e. apply quote_roundtrip_proof. exact Hcwd.
    + eapply Hin; [apply Hsorted; apply prolog_has_ld|].
      apply ev_const. intro e. apply bash_word_ld_word. exact Hlibs.
    + eapply Hin; [apply Hsorted; apply prolog_has_path|].
      apply ev_path. intros e He. rewrite bash_word_path_word by exact Hpaths. rewrite He. reflexivity.
    + intros k Hk Hnb. rewrite <- (lookup_bash_init_other dpath (proc_env preserve sp environ) k) by (apply not_bob_var in Hnb; tauto). fold h.
      apply Hout. intro Hc.
      assert (Hc' : In k (keys (prolog_unsorted cwd sp))).
      { eapply Permutation_in; [apply keys_perm; exact Hperm | exact Hc]. }
      apply keys_prolog_unsorted in Hc'. destruct Hc'; contradiction.
Qed.

(* P1 export_value_exact *)
Lemma export_value_exact_proof : forall dpath preserve cwd sp environ,
  spec_ok cwd sp ->
  exists e', script_env dpath preserve cwd sp environ = Some e' /\
    forall k v, In (k, v) sp.(sp_env) -> ~ In k bob_vars -> lookup e' k = Some v.
Proof.
  intros. destruct (script_env_spec dpath preserve cwd sp environ H) as [e' [H1 [H2 _]]]. exists e'. split; assumption.
Qed.

(* the host side *)
Lemma lookup_host_env : forall preserve wl environ k,
  lookup (host_env preserve wl environ) k =
  if preserve || str_mem k wl then lookup environ k else None.
Proof.
  intros. unfold host_env. destruct preserve; cbn [orb]; [reflexivity|].
  apply (lookup_filter_key (fun k => str_mem k wl)).
Qed.

Lemma lookup_proc_env_other : forall preserve sp environ k, k <> s_PATH ->
  lookup (proc_env preserve sp environ) k = lookup (host_env preserve sp.(sp_whitelist) environ) k.
Proof.
  intros. unfold proc_env. destruct (sp_fat sp); [apply lookup_set_other; assumption | reflexivity].
Qed.

Lemma lookup_Some_keys : forall e k, (exists v, lookup e k = Some v) <-> In k (keys e).
Proof.
  intros e k. split.
  - intros [v H]. destruct (lookup e k) eqn:E; [|discriminate].
    apply lookup_Some_In in E. unfold keys. apply in_map_iff. exists (k, s). split; [reflexivity|exact E].
  - intro H. destruct (lookup e k) eqn:E; [eexists; reflexivity|].
    apply lookup_None_keys in E. contradiction.
Qed.

(* P1 visible_vars_exact *)
Lemma visible_vars_exact_proof : forall dpath preserve cwd sp environ e',
  spec_ok cwd sp ->
  script_env dpath preserve cwd sp environ = Some e' ->
  forall k, In k (keys e') <->
            (In k (keys sp.(sp_env)) \/ In k bob_vars \/
             host_visible preserve sp.(sp_whitelist) environ k).
Proof.
  intros dpath preserve cwd sp environ e' Hok Hrun k.
  destruct (script_env_spec dpath preserve cwd sp environ Hok) as [e1 [H1 [Hdecl [Hcwd [Hld [Hpath Hother]]]]]].
  rewrite Hrun in H1. inversion H1; subst e1. clear H1.
  rewrite <- lookup_Some_keys.
  destruct (in_dec (list_eq_dec N.eq_dec) k bob_vars) as [Hb|Hb].
  - split; [intro; right; left; exact Hb|]. intros _.
    unfold bob_vars in Hb. cbn in Hb. destruct Hb as [Hb|[Hb|[Hb|[]]]]; subst k; eexists; eassumption.
  - destruct (in_dec (list_eq_dec N.eq_dec) k (keys sp.(sp_env))) as [Hd|Hd].
    + split; [intro; left; exact Hd|]. intros _.
      unfold keys in Hd. apply in_map_iff in Hd. destruct Hd as [[k0 v0] [Hk Hin]]. cbn in Hk. subst k0.
      exists v0. eapply Hdecl; eassumption.
    + rewrite (Hother k Hd Hb).
      assert (Hk : k <> s_PATH) by (apply not_bob_var in Hb; tauto).
      rewrite lookup_proc_env_other by exact Hk. rewrite lookup_host_env.
      unfold host_visible. rewrite <- (str_mem_In k (sp_whitelist sp)).
      destruct preserve; cbn [orb].
      * rewrite lookup_Some_keys. intuition.
      * destruct (str_mem k (sp_whitelist sp)) eqn:Ew.
        -- rewrite lookup_Some_keys. intuition.
        -- split; [intros [v Hv]; discriminate|]. intros [H|[H|[_ [H|H]]]]; try contradiction; discriminate.
Qed.

(* host variables reach the script unchanged *)
Lemma host_passthrough_proof : forall dpath preserve cwd sp environ e',
  spec_ok cwd sp ->
  script_env dpath preserve cwd sp environ = Some e' ->
  forall k, ~ In k (keys sp.(sp_env)) -> ~ In k bob_vars ->
    lookup e' k = if preserve || str_mem k sp.(sp_whitelist) then lookup environ k else None.
Proof.
  intros dpath preserve cwd sp environ e' Hok Hrun k Hd Hb.
  destruct (script_env_spec dpath preserve cwd sp environ Hok) as [e1 [H1 [_ [_ [_ [_ Hother]]]]]].
  rewrite Hrun in H1. inversion H1; subst e1.
  rewrite (Hother k Hd Hb). rewrite lookup_proc_env_other by (apply not_bob_var in Hb; tauto).
  apply lookup_host_env.
Qed.

(* P1 tools_on_path *)
Lemma tools_on_path_proof : forall dpath preserve cwd sp environ e',
  spec_ok cwd sp ->
  script_env dpath preserve cwd sp environ = Some e' ->
  lookup e' s_PATH = Some (path_value (map (abspath cwd) sp.(sp_paths))
                                      (getenv (bash_init dpath (proc_env preserve sp environ)) s_PATH)) /\
  lookup e' s_LD = Some (join_with [ch_colon] (map (abspath cwd) sp.(sp_libs))) /\
  lookup e' s_BOB_CWD = Some (abspath cwd sp.(sp_ws_exec)).
Proof.
  intros dpath preserve cwd sp environ e' Hok Hrun.
  destruct (script_env_spec dpath preserve cwd sp environ Hok) as [e1 [H1 [_ [Hcwd [Hld [Hpath _]]]]]].
  rewrite Hrun in H1. inversion H1; subst e1. repeat split; assumption.
Qed.

(* P1 args_in_declared_order *)
Lemma args_in_declared_order_proof : forall cwd bash script trace sp,
  bash <> s_dashdash ->
  positional (call_args cwd bash script trace sp) = map (abspath cwd) sp.(sp_args).
Proof.
  intros cwd bash script trace sp Hb. unfold call_args. apply str_eqb_neq in Hb.
  destruct trace; cbn [app positional]; rewrite Hb; reflexivity.
Qed.

(* ------------------------------------------------------------------ input.py: prune *)
Lemma In_prune : forall full allowed k v, In (k, v) (prune full allowed) <-> In (k, v) full /\ In k allowed.
Proof.
  intros. unfold prune. rewrite filter_In. cbn [fst]. rewrite str_mem_In. reflexivity.
Qed.

Lemma In_step_vars : forall rs kd k,
  In k (fst (step_vars rs kd) ++ snd (step_vars rs kd)) <->
  exists r, In r rs /\ In k (fst (own_vars r kd) ++ snd (own_vars r kd)).
Proof.
  intros rs kd k. unfold step_vars. cbn [fst snd]. rewrite in_app_iff, !in_flat_map. split.
  - intros [[r [H1 H2]]|[r [H1 H2]]]; exists r; (split; [exact H1|]); rewrite in_app_iff; [left|right]; exact H2.
  - intros [r [H1 H2]]. rewrite in_app_iff in H2. destruct H2; [left|right]; exists r; split; assumption.
Qed.

Lemma step_env_exact_proof : forall full rs kd k v,
  In (k, v) (step_env full rs kd) <->
  In (k, v) full /\ exists r, In r rs /\ In k (fst (own_vars r kd) ++ snd (own_vars r kd)).
Proof. intros. unfold step_env. rewrite In_prune. rewrite In_step_vars. reflexivity. Qed.

Lemma own_vars_mono : forall r k,
  (In k (fst (own_vars r KCheckout) ++ snd (own_vars r KCheckout)) ->
   In k (fst (own_vars r KBuild) ++ snd (own_vars r KBuild))) /\
  (In k (fst (own_vars r KBuild) ++ snd (own_vars r KBuild)) ->
   In k (fst (own_vars r KPackage) ++ snd (own_vars r KPackage))).
Proof.
  intros r k. cbn [own_vars fst snd]. repeat rewrite in_app_iff. tauto.
Qed.

Lemma step_env_chain_proof : forall full rs k v,
  (In (k, v) (step_env full rs KCheckout) -> In (k, v) (step_env full rs KBuild)) /\
  (In (k, v) (step_env full rs KBuild) -> In (k, v) (step_env full rs KPackage)).
Proof.
  intros full rs k v. rewrite !step_env_exact_proof. split; intros [H1 [r [H2 H3]]]; (split; [exact H1|]); exists r; (split; [exact H2|]);
    apply (own_vars_mono r k); exact H3.
Qed.

Lemma NoDup_keys_filter : forall (f : str * str -> bool) e, NoDup (keys e) -> NoDup (keys (filter f e)).
Proof.
  induction e as [|[k v] e IH]; intro H; cbn; [constructor|].
  inversion H as [|? ? Hn Hd]; subst. destruct (f (k, v)); cbn.
  - constructor; [| apply IH; exact Hd].
    intro Hc. apply Hn. unfold keys in *. apply in_map_iff in Hc. destruct Hc as [x [Hx1 Hx2]].
    apply filter_In in Hx2. apply in_map_iff. exists x. tauto.
  - apply IH. exact Hd.
Qed.

(* ------------------------------------------------------------------ fingerprint scripts *)
Lemma fingerprint_env_restricted_proof : forall preserve sp environ fpcwd stepenv varset,
  NoDup (keys stepenv) -> (forall k v, In (k, v) stepenv -> no_nul v) ->
  exists e', fingerprint_env preserve sp environ fpcwd stepenv varset = Some e' /\
    (forall k v, In (k, v) stepenv -> In k varset -> lookup e' k = Some v) /\
    (forall k, ~ (In k (keys stepenv) /\ In k varset) ->
               lookup e' k = lookup (fingerprint_proc_env preserve sp environ fpcwd) k).
Proof.
  intros preserve sp environ fpcwd stepenv varset Hnd Hvals.
  set (h := fingerprint_proc_env preserve sp environ fpcwd).
  set (pr := prune stepenv varset).
  set (q := map (fun kv => (fst kv, quote (snd kv))) pr).
  assert (Hperm : Permutation (fingerprint_exports stepenv varset) q).
  { unfold fingerprint_exports. eapply Permutation_trans; [apply Permutation_sym; apply Permutation_rev|].
    apply sort_kv_perm. }
  assert (Hq : forall k w, In (k, w) q <-> exists v, In (k, v) stepenv /\ In k varset /\ w = quote v).
  { intros k w. unfold q. rewrite in_map_iff. split.
    - intros [[k0 v0] [Heq Hin]]. cbn in Heq. inversion Heq; subst. apply In_prune in Hin. exists v0. tauto.
    - intros [v [H1 [H2 H3]]]. exists (k, v). subst w. split; [reflexivity|]. apply In_prune. tauto. }
  destruct (run_exports_spec h (fingerprint_exports stepenv varset) h) as [e' [Hrun [Hin Hout]]].
  - eapply Permutation_NoDup; [apply Permutation_sym; apply keys_perm; exact Hperm|].
    unfold q. rewrite keys_map_quote. apply NoDup_keys_filter. exact Hnd.
  - intros k w H. apply (Permutation_in _ Hperm) in H. apply Hq in H. destruct H as [v [H1 [H2 H3]]]. subst w.
    exists v. apply ev_const. intro e. apply quote_roundtrip_proof. eapply Hvals; eassumption.
  - reflexivity.
  - exists e'. split; [exact Hrun|]. split.
    + intros k v H1 H2. eapply Hin.
      * eapply Permutation_in; [apply Permutation_sym; exact Hperm|]. apply Hq. exists v. repeat split; assumption.
      * apply ev_const. intro e. apply quote_roundtrip_proof. eapply Hvals; eassumption.
    + intros k Hk. apply Hout. intro Hc.
      assert (Hc' : In k (keys q)) by (eapply Permutation_in; [apply keys_perm; exact Hperm | exact Hc]).
      unfold keys in Hc'. apply in_map_iff in Hc'. destruct Hc' as [[k0 w0] [Hk0 Hin0]]. cbn in Hk0. subst k0.
      apply Hq in Hin0. destruct Hin0 as [v [H1 [H2 _]]]. apply Hk. split; [|exact H2].
      unfold keys. apply in_map_iff. exists (k, v). split; [reflexivity|exact H1].
Qed.

(* ------------------------------------------------------------------ sandbox helper command line *)
Definition item_ok (i : item) : Prop :=
  match i with
  | IFlag c => In c flags_no_arg
  | IArg c _ => In c opts_with_arg
  | IMount _ _ => True
  end.

Lemma helper_mounts_items : forall items pending,
  Forall item_ok items ->
  helper_mounts (flat_map render_item items ++ [s_dashdash]) pending =
  flush pending ++ flat_map item_mounts items.
Proof.
  induction items as [|i items IH]; intros pending Hok.
  - cbn. rewrite app_nil_r. reflexivity.
  - inversion Hok as [|? ? Hi Hr]; subst. cbn [flat_map]. rewrite <- app_assoc.
    destruct i as [c|c x|s [[rw t]|]]; cbn [render_item item_mounts app].
    + (* flag *)
      cbn in Hi. unfold flags_no_arg in Hi. cbn in Hi.
      destruct Hi as [Hc|[Hc|[Hc|[Hc|[Hc|[]]]]]]; subst c; cbn [helper_mounts]; 
        (match goal with |- context [str_eqb ?a ?b] => idtac end);
        vm_compute (str_eqb _ s_dashdash); cbv iota; vm_compute (str_eqb _ oM); cbv iota;
        vm_compute (str_eqb _ om || str_eqb _ ow); cbv iota;
        vm_compute (existsb _ opts_with_arg); cbv iota; apply IH; exact Hr.
    + (* option with argument *)
      cbn in Hi. unfold opts_with_arg in Hi. cbn in Hi.
      destruct Hi as [Hc|[Hc|[Hc|[Hc|[Hc|[Hc|[]]]]]]]; subst c; cbn [helper_mounts];
        vm_compute (str_eqb _ s_dashdash); cbv iota; vm_compute (str_eqb _ oM); cbv iota;
        vm_compute (str_eqb _ om || str_eqb _ ow); cbv iota;
        vm_compute (existsb _ opts_with_arg); cbv iota; apply IH; exact Hr.
    + (* -M s -m/-w t *)
      cbn [helper_mounts]. vm_compute (str_eqb oM s_dashdash). cbv iota. vm_compute (str_eqb oM oM). cbv iota.
      destruct rw.
      * cbn [helper_mounts]. vm_compute (str_eqb ow s_dashdash). cbv iota. vm_compute (str_eqb ow oM). cbv iota.
        vm_compute (str_eqb ow om || str_eqb ow ow). cbv iota. vm_compute (str_eqb ow ow).
        rewrite IH by exact Hr. cbn [flush app]. reflexivity.
      * cbn [helper_mounts]. vm_compute (str_eqb om s_dashdash). cbv iota. vm_compute (str_eqb om oM). cbv iota.
        vm_compute (str_eqb om om || str_eqb om ow). cbv iota. vm_compute (str_eqb om ow).
        rewrite IH by exact Hr. cbn [flush app]. reflexivity.
    + (* -M s alone *)
      cbn [helper_mounts]. vm_compute (str_eqb oM s_dashdash). cbv iota. vm_compute (str_eqb oM oM). cbv iota.
      rewrite IH by exact Hr. cbn [flush app]. reflexivity.
Qed.

Lemma Forall_item_ok_mounts : forall (A : Type) (f : A -> item) l,
  (forall a, item_ok (f a)) -> Forall item_ok (map f l).
Proof. intros. apply Forall_forall. intros x Hx. apply in_map_iff in Hx. destruct Hx as [a [Ha _]]. subst. apply H. Qed.

Lemma host_mount_items_ok : forall w j m, Forall item_ok (host_mount_items w j m).
Proof.
  intros w j [[hp sp] opts]. unfold host_mount_items.
  destruct (str_mem _ opts); [constructor|].
  destruct (str_mem s_nofail opts && _); [constructor|].
  constructor; [exact I | constructor].
Qed.

Lemma Forall_app_intro : forall (A : Type) (P : A -> Prop) a b, Forall P a -> Forall P b -> Forall P (a ++ b).
Proof. intros. apply Forall_app. split; assumption. Qed.

Lemma base_items_ok : forall w sp, Forall item_ok (match sp_fat sp with Some f => fat_items w (sp_jenkins sp) f | None => slim_items w end).
Proof.
  intros w sp. destruct (sp_fat sp) as [f|].
  - unfold fat_items. apply Forall_app_intro; [repeat constructor; cbn; tauto|].
    apply Forall_app_intro; [apply Forall_item_ok_mounts; intro; exact I|].
    apply Forall_app_intro.
    + apply Forall_forall. intros x Hx. apply in_flat_map in Hx. destruct Hx as [m [_ Hm]].
      pose proof (host_mount_items_ok w (sp_jenkins sp) m) as Hf. rewrite Forall_forall in Hf. apply Hf. exact Hm.
    + destruct (str_eqb _ s_root); [repeat constructor; cbn; tauto|].
      destruct (str_eqb _ s_USER); [repeat constructor; cbn; tauto | constructor].
  - unfold slim_items. apply Forall_app_intro; [repeat constructor; cbn; tauto|].
    apply Forall_app_intro; [| repeat constructor].
    apply Forall_forall. intros x Hx. apply in_flat_map in Hx. destruct Hx as [e [_ He]].
    destruct (str_eqb e s_tmp_name); [destruct He | destruct He as [He|[]]; subst; exact I].
Qed.

Lemma sandbox_items_ok : forall w sp, Forall item_ok (sandbox_items w sp).
Proof.
  intros w sp. unfold sandbox_items.
  apply Forall_app_intro; [apply base_items_ok|].
  apply Forall_app_intro; [repeat constructor|].
  apply Forall_app_intro; [destruct (sp_net sp); repeat constructor; cbn; tauto|].
  apply Forall_app_intro; [unfold envfile_items; destruct (sp_envfile sp); repeat constructor|].
  apply Forall_app_intro; [repeat constructor|].
  apply Forall_app_intro; [repeat constructor; cbn; tauto|].
  apply Forall_item_ok_mounts. intro; exact I.
Qed.

Lemma mount_plan_eq : forall w sp, has_sandbox sp = true ->
  mount_plan w sp = flat_map item_mounts (sandbox_items w sp).
Proof.
  intros w sp H. unfold mount_plan, sandbox_argv. rewrite H. cbn [tl].
  rewrite helper_mounts_items by apply sandbox_items_ok. reflexivity.
Qed.

(* mounts of the individual parts *)
Lemma flat_map_item_mounts_app : forall a b, flat_map item_mounts (a ++ b) = flat_map item_mounts a ++ flat_map item_mounts b.
Proof. intros. apply flat_map_app. Qed.

Definition base_items (w : world) (sp : spec) : list item :=
  match sp.(sp_fat) with Some f => fat_items w sp.(sp_jenkins) f | None => slim_items w end.

Lemma mount_plan_shape : forall w sp, has_sandbox sp = true ->
  mount_plan w sp =
  flat_map item_mounts (base_items w sp)
  ++ [script_mount w sp]
  ++ (match sp.(sp_envfile) with Some f => [envfile_mount w f] | None => [] end)
  ++ [ws_mount w sp]
  ++ map (dep_mount w) sp.(sp_dep_mounts).
Proof.
  intros w sp H. rewrite mount_plan_eq by exact H. unfold sandbox_items.
  rewrite !flat_map_item_mounts_app. fold (base_items w sp). f_equal.
  cbn [flat_map item_mounts script_item app]. f_equal.
  assert (Hn : flat_map item_mounts (if sp_net sp then [] else [IFlag 110]) = []) by (destruct (sp_net sp); reflexivity).
  rewrite Hn. cbn [app]. f_equal.
  - unfold envfile_items. destruct (sp_envfile sp); reflexivity.
  - cbn [flat_map item_mounts workspace_item app]. f_equal.
    induction (sp_dep_mounts sp) as [|d l IH]; [reflexivity|]. cbn. f_equal. exact IH.
Qed.

Lemma slim_base_mounts : forall w m, In m (flat_map item_mounts (slim_items w)) ->
  m = whiteout_mount w \/ (m_rw m = false /\ exists e, In e w.(w_root_entries) /\ m = mk_mount (ch_slash :: e) (ch_slash :: e) false).
Proof.
  intros w m H. unfold slim_items in H. rewrite !flat_map_item_mounts_app in H.
  rewrite !in_app_iff in H. destruct H as [H|[H|H]].
  - cbn in H. contradiction.
  - right. apply in_flat_map in H. destruct H as [i [Hi Hm]]. apply in_flat_map in Hi. destruct Hi as [e [He Hi]].
    destruct (str_eqb e s_tmp_name); [destruct Hi|]. destruct Hi as [Hi|[]]. subst i. cbn in Hm.
    destruct Hm as [Hm|[]]. subst m. split; [reflexivity|]. exists e. split; [exact He|reflexivity].
  - left. cbn in H. destruct H as [H|[]]. symmetry. exact H.
Qed.

Lemma fat_base_mounts : forall w j f m, In m (flat_map item_mounts (fat_items w j f)) -> m_rw m = true ->
  exists hp sp opts, In (hp, sp, opts) f.(fs_mounts) /\ str_mem s_rw opts = true /\
                     m = mk_mount (w.(w_subst) hp) (w.(w_subst) sp) true.
Proof.
  intros w j f m H Hrw. unfold fat_items in H. rewrite !flat_map_item_mounts_app in H.
  rewrite !in_app_iff in H. destruct H as [H|[H|[H|H]]].
  - cbn in H. contradiction.
  - apply in_flat_map in H. destruct H as [i [Hi Hm]]. apply in_map_iff in Hi. destruct Hi as [e [He _]]. subst i.
    cbn in Hm. destruct Hm as [Hm|[]]. subst m. discriminate.
  - apply in_flat_map in H. destruct H as [i [Hi Hm]]. apply in_flat_map in Hi. destruct Hi as [[[hp sp] opts] [Hh Hi]].
    unfold host_mount_items in Hi.
    destruct (str_mem _ opts); [destruct Hi|].
    destruct (str_mem s_nofail opts && _); [destruct Hi|].
    destruct Hi as [Hi|[]]. subst i.
    destruct (str_mem s_rw opts) eqn:Erw.
    + cbn in Hm. destruct Hm as [Hm|[]]. subst m. exists hp, sp, opts. repeat split; assumption.
    + destruct (negb (str_eqb (w_subst w hp) (w_subst w sp))); cbn in Hm; destruct Hm as [Hm|[]]; subst m; discriminate.
  - destruct (str_eqb _ s_root); [cbn in H; contradiction|]. destruct (str_eqb _ s_USER); cbn in H; contradiction.
Qed.

(* P1 mount_plan_exact, part 1: the writable mounts *)
Lemma writable_mounts_exact_proof : forall w sp m,
  has_sandbox sp = true -> In m (mount_plan w sp) -> m_rw m = true ->
  m = ws_mount w sp \/
  (exists f, sp.(sp_envfile) = Some f /\ m = envfile_mount w f) \/
  (sp.(sp_fat) = None /\ m = whiteout_mount w) \/
  (exists f hp sbp opts, sp.(sp_fat) = Some f /\ In (hp, sbp, opts) f.(fs_mounts) /\ str_mem s_rw opts = true /\
                         m = mk_mount (w.(w_subst) hp) (w.(w_subst) sbp) true).
Proof.
  intros w sp m Hs Hin Hrw. rewrite mount_plan_shape in Hin by exact Hs.
  rewrite !in_app_iff in Hin. destruct Hin as [H|[H|[H|[H|H]]]].
  - unfold base_items in H. destruct (sp_fat sp) as [f|] eqn:Ef.
    + right; right; right. destruct (fat_base_mounts _ _ _ _ H Hrw) as (hp & sbp & opts & H1 & H2 & H3).
      exists f, hp, sbp, opts. repeat split; assumption.
    + destruct (slim_base_mounts _ _ H) as [H1|[H1 _]]; [right; right; left; split; [reflexivity|exact H1] | congruence].
  - destruct H as [H|[]]. subst m. discriminate.
  - right; left. destruct (sp_envfile sp) as [f|]; [|destruct H]. destruct H as [H|[]]. exists f. split; [reflexivity|symmetry; exact H].
  - left. destruct H as [H|[]]. symmetry. exact H.
  - apply in_map_iff in H. destruct H as [d [Hd _]]. subst m. discriminate.
Qed.

(* part 2: every declared dependency is mounted, read-only *)
Lemma deps_mounted_readonly_proof : forall w sp d,
  has_sandbox sp = true -> In d sp.(sp_dep_mounts) -> In (dep_mount w d) (mount_plan w sp).
Proof.
  intros w sp d Hs Hd. rewrite mount_plan_shape by exact Hs. rewrite !in_app_iff. right; right; right; right.
  apply in_map. exact Hd.
Qed.

(* part 3: in the slim sandbox nothing below the project directory comes from
   the host's root mounts *)
Lemma resolve_app : forall a b p cur, resolve (a ++ b) p cur = resolve b p (resolve a p cur).
Proof. induction a as [|m a IH]; intros; cbn; [reflexivity | apply IH]. Qed.

Lemma resolve_in : forall l p cur m, resolve l p cur = Some m -> cur = Some m \/ In m l.
Proof.
  induction l as [|x l IH]; intros p cur m H; cbn in H; [left; exact H|].
  apply IH in H. destruct H as [H|H]; [|right; right; exact H].
  destruct (under (m_tgt x) p); [inversion H; right; left; reflexivity | left; exact H].
Qed.

Lemma under_refl_prefix : forall d, under d d = true.
Proof. intros. unfold under. rewrite str_eqb_refl. reflexivity. Qed.

Lemma resolve_after_cover : forall pre m0 post p cur m,
  under (m_tgt m0) p = true -> resolve (pre ++ m0 :: post) p cur = Some m -> m = m0 \/ In m post.
Proof.
  intros pre m0 post p cur m Hu Hr. rewrite resolve_app in Hr. cbn [resolve] in Hr. rewrite Hu in Hr.
  apply resolve_in in Hr. destruct Hr as [Hr|Hr]; [left; inversion Hr; reflexivity | right; exact Hr].
Qed.

Lemma slim_project_view_proof : forall w sp p m,
  sp.(sp_fat) = None -> sp.(sp_slim) = true ->
  under w.(w_cwd) p = true ->
  resolve (mount_plan w sp) p None = Some m ->
  m = whiteout_mount w \/ m = script_mount w sp \/
  (exists f, sp.(sp_envfile) = Some f /\ m = envfile_mount w f) \/
  m = ws_mount w sp \/ (exists d, In d sp.(sp_dep_mounts) /\ m = dep_mount w d).
Proof.
  intros w sp p m Hf Hsl Hu Hr.
  assert (Hs : has_sandbox sp = true) by (unfold has_sandbox; rewrite Hf; exact Hsl).
  rewrite mount_plan_shape in Hr by exact Hs. unfold base_items in Hr. rewrite Hf in Hr.
  unfold slim_items in Hr. rewrite !flat_map_item_mounts_app in Hr.
  change (flat_map item_mounts [IMount (pjoin (w_tmp w) s_whiteout) (Some (true, w_cwd w))])
    with [whiteout_mount w] in Hr.
  rewrite <- !app_assoc in Hr. rewrite app_assoc in Hr. cbn [app] in Hr.
  apply resolve_after_cover in Hr; [| exact Hu].
  destruct Hr as [Hr|Hr]; [left; exact Hr|].
  cbn [In] in Hr. rewrite !in_app_iff in Hr. destruct Hr as [H|[H|H]].
  - right; left. symmetry; exact H.
  - right; right; left. destruct (sp_envfile sp) as [f|]; [|destruct H]. destruct H as [H|[]].
    exists f. split; [reflexivity | symmetry; exact H].
  - cbn [In] in H. destruct H as [H|H].
    + right; right; right; left. symmetry; exact H.
    + right; right; right; right. apply in_map_iff in H. destruct H as [d [H1 H2]]. exists d. split; [exact H2 | symmetry; exact H1].
Qed.

(* ------------------------------------------------------------------ StepSpec.fromStep: depMounts *)
Lemma chain_mounts_exact : forall s x,
  In x (chain_mounts s) <-> exists d, own_chain s d /\ st_valid d = true /\ x = (st_storage d, st_exec d).
Proof.
  induction s as [v c p e | v c p e a IH o]; intros x; cbn [chain_mounts].
  - split; [intros [] | intros [d [H _]]; inversion H].
  - destruct v; cbn [andb].
    + destruct c; cbn [negb].
      * split; [intros [] | intros [d [H _]]; inversion H].
      * rewrite in_app_iff. rewrite IH. split.
        -- intros [H|[d [H1 H2]]].
           ++ destruct (st_valid a) eqn:Ea; [|destruct H]. destruct H as [H|[]]. exists a. split; [constructor|]. split; [exact Ea|symmetry; exact H].
           ++ exists d. split; [apply oc_next; exact H1 | exact H2].
        -- intros [d [H1 [H2 H3]]]. inversion H1; subst.
           ++ left. rewrite H2. left. reflexivity.
           ++ right. exists d. repeat split; assumption.
    + split; [intros [] | intros [d [H _]]; inversion H].
Qed.

Lemma dep_mounts_exact_proof : forall s ts x,
  In x (dep_mounts s ts) <->
  (exists d, In d (st_args s ++ ts) /\ d.(d_valid) = true /\ x = (d.(d_storage), d.(d_exec))) \/
  (exists d, own_chain s d /\ st_valid d = true /\ x = (st_storage d, st_exec d)).
Proof.
  intros s ts x. unfold dep_mounts. rewrite in_app_iff. rewrite chain_mounts_exact.
  rewrite in_map_iff. split.
  - intros [[d [H1 H2]]|H]; [left | right; exact H].
    apply filter_In in H2. exists d. repeat split; try tauto. symmetry. exact H1.
  - intros [[d [H1 [H2 H3]]]|H]; [left | right; exact H].
    exists d. split; [symmetry; exact H3|]. apply filter_In. split; assumption.
Qed.

(* ------------------------------------------------------------------ consumer's view of tools *)
Lemma insert_key_perm : forall A (x : str * A) l, Permutation (insert_key x l) (x :: l).
Proof.
  induction l as [|y l IH]; cbn; [apply Permutation_refl|].
  destruct (str_leb (fst x) (fst y)); [apply Permutation_refl|].
  eapply Permutation_trans; [apply perm_skip; exact IH | apply perm_swap].
Qed.

Lemma sort_by_key_perm : forall A (l : list (str * A)), Permutation (sort_by_key l) l.
Proof.
  induction l as [|x l IH]; cbn; [constructor|].
  eapply Permutation_trans; [apply insert_key_perm | apply perm_skip; exact IH].
Qed.

Lemma insert_str_perm : forall x l, Permutation (insert_str x l) (x :: l).
Proof.
  induction l as [|y l IH]; cbn; [apply Permutation_refl|].
  destruct (str_leb x y); [apply Permutation_refl|].
  eapply Permutation_trans; [apply perm_skip; exact IH | apply perm_swap].
Qed.

Lemma sort_str_perm : forall l, Permutation (sort_str l) l.
Proof.
  induction l as [|x l IH]; cbn; [constructor|].
  eapply Permutation_trans; [apply insert_str_perm | apply perm_skip; exact IH].
Qed.

Lemma library_paths_consumer_view_proof : forall self tools p,
  In p (library_paths self tools) <->
  exists n t l, In (n, t) tools /\ In l t.(it_libs) /\ p = os_join (exec_path t.(it_step) (Some self)) l.
Proof.
  intros self tools p. unfold library_paths. rewrite in_flat_map. split.
  - intros [[n t] [Hin Hp]]. cbn [snd] in Hp. apply in_map_iff in Hp. destruct Hp as [l [Hl1 Hl2]].
    exists n, t, l. split; [eapply Permutation_in; [apply sort_by_key_perm | exact Hin]|]. split; [exact Hl2 | symmetry; exact Hl1].
  - intros [n [t [l [H1 [H2 H3]]]]]. exists (n, t). split.
    + eapply Permutation_in; [apply Permutation_sym; apply sort_by_key_perm | exact H1].
    + cbn [snd]. apply in_map_iff. exists l. split; [symmetry; exact H3 | exact H2].
Qed.

Lemma tool_paths_consumer_view_proof : forall self tools p,
  In p (tool_paths self tools) <->
  exists n t, In (n, t) tools /\ p = os_join (exec_path t.(it_step) (Some self)) t.(it_path).
Proof.
  intros self tools p. unfold tool_paths. split.
  - intro H. apply (Permutation_in _ (sort_str_perm _)) in H. apply in_map_iff in H.
    destruct H as [[n t] [H1 H2]]. exists n, t. split; [exact H2 | symmetry; exact H1].
  - intros [n [t [H1 H2]]]. eapply Permutation_in; [apply Permutation_sym; apply sort_str_perm|].
    apply in_map_iff. exists (n, t). split; [symmetry; exact H2 | exact H1].
Qed.

Lemma is_prefix_app : forall a b, is_prefix a (a ++ b) = true.
Proof. induction a; intro b; cbn; [reflexivity|]. rewrite N.eqb_refl. apply IHa. Qed.

Lemma under_os_join : forall e l, e <> [] -> is_abs l = false -> under e (os_join e l) = true.
Proof.
  intros e l He Hl. unfold os_join, under. rewrite Hl. destruct e as [|c e]; [congruence|].
  destruct (last_is_slash (c :: e)); apply orb_true_iff; right.
  - apply is_prefix_app.
  - rewrite app_assoc. apply is_prefix_app.
Qed.

(* every LD_LIBRARY_PATH entry lies inside a dependency that is mounted read-only *)
Lemma library_path_inside_mounted_tool_proof : forall w sp self tools n t l,
  has_sandbox sp = true ->
  In (n, t) tools -> In l t.(it_libs) -> is_abs l = false ->
  exec_path t.(it_step) (Some self) <> [] ->
  In (tool_mount self t) sp.(sp_dep_mounts) ->
  In (os_join (exec_path t.(it_step) (Some self)) l) (library_paths self tools) /\
  In (dep_mount w (tool_mount self t)) (mount_plan w sp) /\
  under (exec_path t.(it_step) (Some self)) (os_join (exec_path t.(it_step) (Some self)) l) = true.
Proof.
  intros w sp self tools n t l Hs Hin Hl Habs Hne Hm. split; [|split].
  - apply library_paths_consumer_view_proof. exists n, t, l. repeat split; assumption.
  - apply deps_mounted_readonly_proof; assumption.
  - apply under_os_join; assumption.
Qed.

Lemma ld_library_path_consumer_view_proof : forall dpath preserve cwd sp environ e' self tools,
  spec_ok cwd sp ->
  sp.(sp_libs) = library_paths self tools ->
  sp.(sp_paths) = tool_paths self tools ->
  script_env dpath preserve cwd sp environ = Some e' ->
  lookup e' s_LD = Some (join_with [ch_colon] (map (abspath cwd) (library_paths self tools))) /\
  lookup e' s_PATH = Some (path_value (map (abspath cwd) (tool_paths self tools))
                                      (getenv (bash_init dpath (proc_env preserve sp environ)) s_PATH)).
Proof.
  intros dpath preserve cwd sp environ e' self tools Hok Hl Hp Hrun.
  destruct (tools_on_path_proof dpath preserve cwd sp environ e' Hok Hrun) as [H1 [H2 _]].
  rewrite <- Hl, <- Hp. split; assumption.
Qed.
