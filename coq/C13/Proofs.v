(* C13 — lemmas. *)
From Coq Require Import List NArith Bool Lia Permutation.
Require Import BobV.C13.Model.
Import ListNotations.
Open Scope N_scope.

(* ------------------------------------------------------------------ strings *)
Lemma str_eqb_refl : forall a, str_eqb a a = true.
Proof. induction a; cbn; [reflexivity|]. rewrite N.eqb_refl. exact IHa. Qed.

Lemma str_eqb_eq : forall a b, str_eqb a b = true <-> a = b.
Proof.
  induction a as [|x a IH]; destruct b as [|y b]; cbn; split; intro H; try reflexivity; try discriminate.
  - apply andb_true_iff in H. destruct H as [H1 H2]. apply N.eqb_eq in H1. apply IH in H2. congruence.
  - inversion H; subst. rewrite N.eqb_refl. apply str_eqb_refl.
Qed.

Lemma str_eqb_neq : forall a b, str_eqb a b = false <-> a <> b.
Proof.
  intros a b. split; intro H.
  - intro E. apply str_eqb_eq in E. congruence.
  - destruct (str_eqb a b) eqn:E; [|reflexivity]. apply str_eqb_eq in E. contradiction.
Qed.

Lemma str_eqb_sym : forall a b, str_eqb a b = str_eqb b a.
Proof.
  intros a b. destruct (str_eqb a b) eqn:E.
  - apply str_eqb_eq in E. subst. symmetry. apply str_eqb_refl.
  - symmetry. apply str_eqb_neq. apply str_eqb_neq in E. congruence.
Qed.

Lemma str_mem_In : forall s l, str_mem s l = true <-> In s l.
Proof.
  induction l as [|x l IH]; cbn; split; intro H; try discriminate; try contradiction.
  - apply orb_true_iff in H. destruct H as [H|H]; [left; apply str_eqb_eq in H; congruence | right; apply IH; exact H].
  - apply orb_true_iff. destruct H as [H|H]; [left; subst; apply str_eqb_refl | right; apply IH; exact H].
Qed.

Lemma mem_In : forall c l, mem c l = true <-> In c l.
Proof.
  induction l as [|x l IH]; cbn; split; intro H; try discriminate; try contradiction.
  - apply orb_true_iff in H. destruct H as [H|H]; [left; apply N.eqb_eq in H; congruence | right; apply IH; exact H].
  - apply orb_true_iff. destruct H as [H|H]; [left; subst; apply N.eqb_refl | right; apply IH; exact H].
Qed.

(* ------------------------------------------------------------------ quoting *)
Definition no_nul (s : str) : Prop := ~ In ch_nul s.

Lemma no_nul_cons : forall c s, no_nul (c :: s) <-> c <> ch_nul /\ no_nul s.
Proof. unfold no_nul. cbn. intuition. Qed.

Lemma no_nul_app : forall a b, no_nul (a ++ b) <-> no_nul a /\ no_nul b.
Proof. unfold no_nul. intros. rewrite in_app_iff. intuition. Qed.

(* a safe character is appended as it is in unquoted mode *)
Lemma is_safe_u_char : forall acc c, is_safe c = true -> u_char acc c = Cont MU (acc ++ [c]).
Proof.
  intros acc c H. unfold u_char.
  assert (Hc : c <> 0 /\ c <> 39 /\ c <> 34 /\ c <> 92 /\ c <> 36 /\ c <> 32 /\ c <> 9 /\ c <> 10).
  { repeat split; intro E; subst c; vm_compute in H; discriminate. }
  destruct Hc as (H0 & H1 & H2 & H3 & H4 & H5 & H6 & H7).
  unfold ch_nul, ch_sq, ch_dq, ch_bs, ch_dollar, is_term, ch_sp, ch_tab, ch_nl.
  repeat match goal with |- context [?x =? ?y] => let E := fresh in destruct (N.eqb_spec x y) as [E|E]; [contradiction|] end.
  cbn. rewrite H. reflexivity.
Qed.

Lemma lex_safe : forall env s acc rest,
  forallb is_safe s = true -> lex env MU acc (s ++ rest) = lex env MU (acc ++ s) rest.
Proof.
  induction s as [|c s IH]; intros acc rest H; cbn [app].
  - rewrite app_nil_r. reflexivity.
  - cbn [forallb] in H. apply andb_true_iff in H. destruct H as [Hc Hs].
    cbn [lex step]. rewrite (is_safe_u_char acc c Hc). rewrite IH by exact Hs.
    rewrite <- app_assoc. reflexivity.
Qed.

(* inside single quotes: the escaped text followed by the closing quote *)
Lemma lex_sq_body : forall env s acc rest,
  no_nul s -> lex env MS acc (esc_sq s ++ ch_sq :: rest) = lex env MU (acc ++ s) rest.
Proof.
  induction s as [|c s IH]; intros acc rest Hn; cbn [esc_sq app].
  - rewrite app_nil_r. reflexivity.
  - apply no_nul_cons in Hn. destruct Hn as [Hc Hs].
    destruct (N.eqb_spec c ch_sq) as [E|E].
    + subst c. unfold sq_escape. cbn [app].
      (* ' " ' " ' *)
      change (lex env MS acc (39 :: 34 :: 39 :: 34 :: 39 :: esc_sq s ++ ch_sq :: rest))
        with (lex env MS (acc ++ [39]) (esc_sq s ++ ch_sq :: rest)).
      rewrite IH by exact Hs. rewrite <- app_assoc. reflexivity.
    + cbn [lex step]. destruct (N.eqb_spec c ch_nul) as [E0|E0]; [contradiction|].
      destruct (N.eqb_spec c ch_sq) as [E1|E1]; [contradiction|].
      rewrite IH by exact Hs. rewrite <- app_assoc. reflexivity.
Qed.

(* P1 (context form): a quoted string is consumed exactly and contributes
   exactly its value, whatever precedes and follows it in the word *)
Lemma lex_quote : forall env s acc rest,
  no_nul s -> lex env MU acc (quote s ++ rest) = lex env MU (acc ++ s) rest.
Proof.
  intros env s acc rest Hn. unfold quote. destruct s as [|c s].
  - cbn. rewrite app_nil_r. reflexivity.
  - destruct (forallb is_safe (c :: s)) eqn:Hs.
    + apply lex_safe. exact Hs.
    + change ((ch_sq :: esc_sq (c :: s) ++ [ch_sq]) ++ rest)
        with (ch_sq :: (esc_sq (c :: s) ++ [ch_sq]) ++ rest).
      rewrite <- app_assoc. cbn [app].
      change (lex env MU acc (ch_sq :: esc_sq (c :: s) ++ ch_sq :: rest))
        with (lex env MS acc (esc_sq (c :: s) ++ ch_sq :: rest)).
      apply lex_sq_body. exact Hn.
Qed.

Lemma quote_roundtrip_proof : forall env s, no_nul s -> bash_word env (quote s) = Some s.
Proof.
  intros env s Hn. unfold bash_word.
  rewrite <- (app_nil_r (quote s)). rewrite lex_quote by exact Hn. cbn. reflexivity.
Qed.
