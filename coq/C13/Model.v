(* C13 — steps run in exactly the declared environment.  Definitions only.

   Models (transliterations of the code as it is, tied by correspondence):
     quote            shlex.quote  (used by pym/bob/languages.py)
     lex / bash_word  bash word evaluation restricted to the fragment Bob emits
                      (plain characters, '...', "...", backslash, $NAME)
     prolog_exports   BashLanguage.__formatProlog  "# Environment:" section
     fingerprint_exports  BashLanguage.mangleFingerprints export lines
     host_env         Invoker.__init__  (whitelist filter / preserve)
     proc_env         environment of the spawned interpreter (executeStep)
     step_vars/prune  Recipe.__init__/resolveClasses var sets, Env.prune (input.py)
     call_args        BashLanguage.__setupExec argument vector
     dep_mounts       StepSpec.fromStep  depMounts
     sandbox_argv     Invoker.__getSlimSandboxCmds/__getFatSandboxCmds/executeStep
     helper_mounts    option semantics of namespace-sandbox.c (-M/-m/-w)
     resolve          which mount a path inside the sandbox resolves to
   Strings are lists of Unicode code points. *)
From Coq Require Import List NArith Bool.
Import ListNotations.
Open Scope N_scope.

Definition str := list N.

Fixpoint str_eqb (a b : str) : bool :=
  match a, b with
  | [], [] => true
  | x :: a', y :: b' => (x =? y) && str_eqb a' b'
  | _, _ => false
  end.

(* Python str comparison: lexicographic on code points *)
Fixpoint str_ltb (a b : str) : bool :=
  match a, b with
  | _, [] => false
  | [], _ :: _ => true
  | x :: a', y :: b' => if x <? y then true else if x =? y then str_ltb a' b' else false
  end.

Definition str_leb (a b : str) : bool := negb (str_ltb b a).

Fixpoint mem (c : N) (l : list N) : bool :=
  match l with [] => false | x :: r => (c =? x) || mem c r end.

Fixpoint str_mem (s : str) (l : list str) : bool :=
  match l with [] => false | x :: r => str_eqb s x || str_mem s r end.

Fixpoint is_prefix (p s : str) : bool :=
  match p, s with
  | [], _ => true
  | x :: p', y :: s' => (x =? y) && is_prefix p' s'
  | _ :: _, [] => false
  end.

(* ---- characters *)
Definition ch_nul : N := 0.
Definition ch_tab : N := 9.
Definition ch_nl : N := 10.
Definition ch_sp : N := 32.
Definition ch_dq : N := 34.
Definition ch_dollar : N := 36.
Definition ch_sq : N := 39.
Definition ch_dot : N := 46.
Definition ch_slash : N := 47.
Definition ch_colon : N := 58.
Definition ch_eq : N := 61.
Definition ch_bs : N := 92.
Definition ch_bt : N := 96.

Definition is_alpha (c : N) : bool := ((65 <=? c) && (c <=? 90)) || ((97 <=? c) && (c <=? 122)).
Definition is_digit (c : N) : bool := (48 <=? c) && (c <=? 57).
Definition name_start (c : N) : bool := is_alpha c || (c =? 95).
Definition name_char (c : N) : bool := name_start c || is_digit c.

(* shlex: _find_unsafe = re.compile(r'[^\w@%+=:,./-]', re.ASCII).search *)
Definition safe_punct : list N := [64; 37; 43; 61; 58; 44; 46; 47; 45].   (* @ % + = : , . / - *)
Definition is_safe (c : N) : bool := name_char c || mem c safe_punct.

(* ---- shlex.quote *)
Definition sq_escape : str := [39; 34; 39; 34; 39].     (* '"'"' *)

Fixpoint esc_sq (s : str) : str :=                       (* s.replace("'", "'\"'\"'") *)
  match s with
  | [] => []
  | c :: r => if c =? ch_sq then sq_escape ++ esc_sq r else c :: esc_sq r
  end.

Definition quote (s : str) : str :=
  match s with
  | [] => [ch_sq; ch_sq]
  | _ => if forallb is_safe s then s else ch_sq :: esc_sq s ++ [ch_sq]
  end.

(* ---- environments: association lists; lookup takes the first binding,
        set_var replaces the first binding in place or appends *)
Definition envmap := list (str * str).

Fixpoint lookup (e : envmap) (k : str) : option str :=
  match e with
  | [] => None
  | (k', v) :: r => if str_eqb k k' then Some v else lookup r k
  end.

Fixpoint set_var (e : envmap) (k v : str) : envmap :=
  match e with
  | [] => [(k, v)]
  | (k', v') :: r => if str_eqb k k' then (k, v) :: r else (k', v') :: set_var r k v
  end.

Definition getenv (e : envmap) (n : str) : str :=
  match lookup e n with Some v => v | None => [] end.

Definition keys (e : envmap) : list str := map fst e.

(* ---- bash word evaluation (assignment context: no word splitting, no
        globbing of expansion results; prolog runs before `set -o nounset`,
        so an unset variable expands to the empty string).  Anything outside
        the modelled fragment evaluates to None. *)
Inductive mode :=
| MU | MS | MD            (* unquoted, inside '...', inside "..." *)
| MUB | MDB               (* after a backslash (unquoted / in "...") *)
| MUD | MDD               (* after a $ *)
| MUV (n : str) | MDV (n : str).   (* inside $NAME *)

Inductive stepres := Cont (m : mode) (acc : str) | Stop (acc : str) | Fail.

Definition is_term (c : N) : bool := (c =? ch_sp) || (c =? ch_tab) || (c =? ch_nl).

(* characters after which an unquoted / double-quoted `$` is literal *)
Definition dollar_lit_u : list N := [32; 9; 10; 37; 43; 61; 58; 44; 46; 47].
Definition dollar_lit_d : list N := [34; 32; 9; 10; 39; 37; 43; 61; 58; 44; 46; 47].

(* `$_` is a special parameter of bash (last argument of the previous command): outside the fragment *)
Definition var_value (env : envmap) (n : str) : option str :=
  if str_eqb n [95] then None else Some (getenv env n).

Definition u_char (acc : str) (c : N) : stepres :=
  if c =? ch_nul then Fail
  else if c =? ch_sq then Cont MS acc
  else if c =? ch_dq then Cont MD acc
  else if c =? ch_bs then Cont MUB acc
  else if c =? ch_dollar then Cont MUD acc
  else if is_term c then Stop acc
  else if is_safe c then Cont MU (acc ++ [c])
  else Fail.

Definition d_char (acc : str) (c : N) : stepres :=
  if c =? ch_nul then Fail
  else if c =? ch_dq then Cont MU acc
  else if c =? ch_bs then Cont MDB acc
  else if c =? ch_dollar then Cont MDD acc
  else if c =? ch_bt then Fail
  else Cont MD (acc ++ [c]).

Definition step (env : envmap) (m : mode) (acc : str) (c : N) : stepres :=
  match m with
  | MU => u_char acc c
  | MS => if c =? ch_nul then Fail else if c =? ch_sq then Cont MU acc else Cont MS (acc ++ [c])
  | MD => d_char acc c
  | MUB => if c =? ch_nul then Fail else if c =? ch_nl then Cont MU acc else Cont MU (acc ++ [c])
  | MDB => if c =? ch_nul then Fail
           else if mem c [ch_dollar; ch_bt; ch_dq; ch_bs] then Cont MD (acc ++ [c])
           else if c =? ch_nl then Cont MD acc
           else Cont MD (acc ++ [ch_bs; c])
  | MUD => if name_start c then Cont (MUV [c]) acc
           else if mem c dollar_lit_u then u_char (acc ++ [ch_dollar]) c
           else Fail
  | MDD => if name_start c then Cont (MDV [c]) acc
           else if mem c dollar_lit_d then d_char (acc ++ [ch_dollar]) c
           else Fail
  | MUV n => if name_char c then Cont (MUV (n ++ [c])) acc
             else match var_value env n with Some v => u_char (acc ++ v) c | None => Fail end
  | MDV n => if name_char c then Cont (MDV (n ++ [c])) acc
             else match var_value env n with Some v => d_char (acc ++ v) c | None => Fail end
  end.

Definition at_end (env : envmap) (m : mode) (acc : str) : option (str * str) :=
  match m with
  | MU => Some (acc, [])
  | MUV n => match var_value env n with Some v => Some (acc ++ v, []) | None => None end
  | MUD => Some (acc ++ [ch_dollar], [])
  | _ => None
  end.

(* returns (value, remaining text); stops in front of an unquoted blank/newline *)
Fixpoint lex (env : envmap) (m : mode) (acc : str) (s : str) {struct s} : option (str * str) :=
  match s with
  | [] => at_end env m acc
  | c :: r =>
      match step env m acc c with
      | Cont m' acc' => lex env m' acc' r
      | Stop acc' => Some (acc', s)
      | Fail => None
      end
  end.

Definition bash_word (env : envmap) (w : str) : option str :=
  match lex env MU [] w with
  | Some (v, []) => Some v
  | _ => None
  end.

(* ---- bash executing a list of `export NAME=WORD` commands *)
Fixpoint run_exports (e : envmap) (l : list (str * str)) : option envmap :=
  match l with
  | [] => Some e
  | (k, w) :: r =>
      match bash_word e w with
      | Some v => run_exports (set_var e k v) r
      | None => None
      end
  end.

(* ... and the same on the text of the script: every command is
   `export NAME=WORD` terminated by a newline *)
Definition s_export : str := [101; 120; 112; 111; 114; 116; 32].    (* "export " *)

Fixpoint strip_prefix (p s : str) : option str :=
  match p, s with
  | [], _ => Some s
  | x :: p', y :: s' => if x =? y then strip_prefix p' s' else None
  | _ :: _, [] => None
  end.

(* NAME= : reads name characters up to `=` *)
Fixpoint split_name (s : str) (acc : str) : option (str * str) :=
  match s with
  | [] => None
  | c :: r => if c =? ch_eq then Some (acc, r)
              else if name_char c then split_name r (acc ++ [c]) else None
  end.

Definition valid_name (k : str) : bool :=
  match k with [] => false | c :: r => name_start c && forallb name_char r end.

Fixpoint run_text (fuel : nat) (e : envmap) (t : str) : option envmap :=
  match t with
  | [] => Some e
  | _ =>
    match fuel with
    | O => None
    | S f =>
      match strip_prefix s_export t with
      | None => None
      | Some t1 =>
        match split_name t1 [] with
        | None => None
        | Some (k, t2) =>
          if valid_name k then
            match lex e MU [] t2 with
            | Some (v, c :: rest) => if c =? ch_nl then run_text f (set_var e k v) rest else None
            | _ => None
            end
          else None
        end
      end
    end
  end.

Definition render_export (kw : str * str) : str :=
  s_export ++ fst kw ++ [ch_eq] ++ snd kw ++ [ch_nl].

Definition render_exports (l : list (str * str)) : str := concat (map render_export l).

(* ---- variable-name validation of input.py (KeyValDefineValidator.VAR_NAME,
        varNameUseSchema): re `^[A-Za-z_][A-Za-z0-9_]*\Z`.  (Before fix 496b939
        the pattern ended in `$`, which also matches in front of a final
        newline: NAME\n was accepted and split the `export` line.) *)
Definition name_ok_impl (k : str) : bool := valid_name k.

(* ---- os.path.normpath / abspath for the absolute result of join(cwd, p) *)
Fixpoint split_slash (s : str) (cur : str) : list str :=
  match s with
  | [] => [cur]
  | c :: r => if c =? ch_slash then cur :: split_slash r [] else split_slash r (cur ++ [c])
  end.

Definition s_dotdot : str := [ch_dot; ch_dot].

(* new_comps is kept reversed *)
Fixpoint norm_comps (abs : bool) (comps : list str) (rev_new : list str) : list str :=
  match comps with
  | [] => rev rev_new
  | c :: r =>
      if str_eqb c [] || str_eqb c [ch_dot] then norm_comps abs r rev_new
      else if negb (str_eqb c s_dotdot) then norm_comps abs r (c :: rev_new)
      else match rev_new with
           | [] => if abs then norm_comps abs r rev_new else norm_comps abs r (c :: rev_new)
           | t :: rn => if str_eqb t s_dotdot then norm_comps abs r (c :: rev_new)
                        else norm_comps abs r rn
           end
  end.

Fixpoint join_with (sep : str) (l : list str) : str :=
  match l with
  | [] => []
  | [x] => x
  | x :: r => x ++ sep ++ join_with sep r
  end.

Definition normpath (p : str) : str :=
  match p with
  | [] => [ch_dot]
  | _ =>
    let slashes : nat :=
      match p with
      | 47 :: 47 :: 47 :: _ => 1%nat
      | 47 :: 47 :: _ => 2%nat
      | 47 :: _ => 1%nat
      | _ => 0%nat
      end in
    let body := join_with [ch_slash] (norm_comps (negb (Nat.eqb slashes 0)) (split_slash p []) []) in
    let r := repeat ch_slash slashes ++ body in
    match r with [] => [ch_dot] | _ => r end
  end.

Definition is_abs (p : str) : bool := match p with c :: _ => c =? ch_slash | [] => false end.

Fixpoint last_is_slash (s : str) : bool :=
  match s with [] => false | [c] => c =? ch_slash | _ :: r => last_is_slash r end.

(* os.path.join(cwd, p) for a relative p, then normpath *)
Definition abspath (cwd p : str) : str :=
  if is_abs p then normpath p
  else normpath (if last_is_slash cwd then cwd ++ p else cwd ++ [ch_slash] ++ p).

(* ---- the step specification handed from StepSpec to the invoker (step.spec) *)
Record fatspec := {
  fs_root : str;                                  (* sandbox.root *)
  fs_paths : list str;                            (* sandbox.paths *)
  fs_mounts : list (str * str * list str);        (* sandbox.hostMounts *)
  fs_user : str                                   (* sandbox.user *)
}.

Record spec := {
  sp_env : envmap;                 (* spec.env (a dict: keys unique) *)
  sp_paths : list str;             (* spec.paths *)
  sp_libs : list str;              (* spec.libraryPaths *)
  sp_ws_storage : str;             (* workspace[0] *)
  sp_ws_exec : str;                (* workspace[1] *)
  sp_args : list str;              (* spec.args *)
  sp_whitelist : list str;         (* spec.envWhiteList *)
  sp_dep_mounts : list (str * str);
  sp_slim : bool;
  sp_fat : option fatspec;
  sp_net : bool;
  sp_envfile : option str;
  sp_script_hint : option str;
  sp_jenkins : bool
}.

Definition s_PATH : str := [80; 65; 84; 72].
Definition s_LD : str := [76; 68; 95; 76; 73; 66; 82; 65; 82; 89; 95; 80; 65; 84; 72].
Definition s_BOB_CWD : str := [66; 79; 66; 95; 67; 87; 68].
Definition bob_vars : list str := [s_PATH; s_LD; s_BOB_CWD].
Definition s_dollar_PATH : str := ch_dollar :: s_PATH.

(* ---- BashLanguage.__formatProlog, "# Environment:" section.
   env = {k: quote(v)}; env.update({PATH:..., LD_LIBRARY_PATH:..., BOB_CWD:...});
   lines sorted by key. *)
Definition path_word (cwd : str) (paths : list str) : str :=
  join_with [ch_colon] (map (fun p => quote (abspath cwd p)) paths ++ [s_dollar_PATH]).

Definition ld_word (cwd : str) (libs : list str) : str :=
  join_with [ch_colon] (map (fun p => quote (abspath cwd p)) libs).

Fixpoint insert_kv (x : str * str) (l : list (str * str)) : list (str * str) :=
  match l with
  | [] => [x]
  | y :: r => if str_leb (fst x) (fst y) then x :: l else y :: insert_kv x r
  end.

Fixpoint sort_kv (l : list (str * str)) : list (str * str) :=
  match l with [] => [] | x :: r => insert_kv x (sort_kv r) end.

Definition prolog_unsorted (cwd : str) (sp : spec) : list (str * str) :=
  let base := map (fun kv => (fst kv, quote (snd kv))) sp.(sp_env) in
  set_var (set_var (set_var base s_PATH (path_word cwd sp.(sp_paths)))
                   s_LD (ld_word cwd sp.(sp_libs)))
          s_BOB_CWD (quote (abspath cwd sp.(sp_ws_exec))).

Definition prolog_exports (cwd : str) (sp : spec) : list (str * str) :=
  sort_kv (prolog_unsorted cwd sp).

(* ---- Invoker.__init__: host environment seen by the spawned interpreter *)
Definition host_env (preserve : bool) (wl : list str) (environ : envmap) : envmap :=
  if preserve then environ else filter (fun kv => str_mem (fst kv) wl) environ.

(* executeStep: specEnv=False; env=None, or {PATH: ":".join(sandboxPaths)} in an image sandbox *)
Definition proc_env (preserve : bool) (sp : spec) (environ : envmap) : envmap :=
  let h := host_env preserve sp.(sp_whitelist) environ in
  match sp.(sp_fat) with
  | Some f => set_var h s_PATH (join_with [ch_colon] f.(fs_paths))
  | None => h
  end.

(* bash start-up: a shell that does not inherit PATH gives the variable its
   compiled-in default value (dpath; read from the real bash by the harness) *)
Definition bash_init (dpath : str) (e : envmap) : envmap :=
  match lookup e s_PATH with Some _ => e | None => set_var e s_PATH dpath end.

(* what the step script finds in its environment after the prolog ran *)
Definition script_env (dpath : str) (preserve : bool) (cwd : str) (sp : spec) (environ : envmap) : option envmap :=
  run_exports (bash_init dpath (proc_env preserve sp environ)) (prolog_exports cwd sp).

(* ---- BashLanguage.__setupExec: argument vector; positional parameters *)
Definition s_dashdash : str := [45; 45].
Definition s_dash_x : str := [45; 120].

Definition call_args (cwd bash script : str) (trace : bool) (sp : spec) : list str :=
  [bash] ++ (if trace then [s_dash_x] else []) ++ [s_dashdash; script] ++ map (abspath cwd) sp.(sp_args).

(* bash [options] -- file args... : $1.. are what follows the file *)
Fixpoint positional (argv : list str) : list str :=
  match argv with
  | [] => []
  | a :: r => if str_eqb a s_dashdash then tl r else positional r
  end.

(* ---- input.py: declared variable sets and Env.prune *)
Record recipe_vars := {
  rv_checkout : list str; rv_checkout_weak : list str;
  rv_build : list str;    rv_build_weak : list str;
  rv_package : list str;  rv_package_weak : list str
}.

Inductive kind := KCheckout | KBuild | KPackage.

(* Recipe.__init__: buildVars |= checkoutVars; packageVars |= buildVars (same for weak) *)
Definition own_vars (r : recipe_vars) (k : kind) : list str * list str :=
  match k with
  | KCheckout => (r.(rv_checkout), r.(rv_checkout_weak))
  | KBuild => (r.(rv_build) ++ r.(rv_checkout), r.(rv_build_weak) ++ r.(rv_checkout_weak))
  | KPackage => (r.(rv_package) ++ r.(rv_build) ++ r.(rv_checkout),
                 r.(rv_package_weak) ++ r.(rv_build_weak) ++ r.(rv_checkout_weak))
  end.

(* resolveClasses: every set is the union over the recipe and all inherited classes *)
Definition step_vars (rs : list recipe_vars) (k : kind) : list str * list str :=
  (flat_map (fun r => fst (own_vars r k)) rs, flat_map (fun r => snd (own_vars r k)) rs).

(* Env.prune(allowed) *)
Definition prune (full : envmap) (allowed : list str) : envmap :=
  filter (fun kv => str_mem (fst kv) allowed) full.

(* coreStep.env = env.prune(vars | weak) if weak else env.prune(vars) *)
Definition step_env (full : envmap) (rs : list recipe_vars) (k : kind) : envmap :=
  let vw := step_vars rs k in prune full (fst vw ++ snd vw).

Definition digest_env (full : envmap) (rs : list recipe_vars) (k : kind) : envmap :=
  prune full (fst (step_vars rs k)).

(* ---- fingerprint scripts: Step._getFingerprintScript + mangleFingerprints.
   exports (sorted ascending, then the whole list reversed) come first. *)
Definition fingerprint_exports (stepenv : envmap) (varset : list str) : list (str * str) :=
  rev (sort_kv (map (fun kv => (fst kv, quote (snd kv))) (prune stepenv varset))).

(* executeFingerprint: env = {BOB_CWD: tmpdir} (+ PATH in an image sandbox), specEnv=False *)
Definition fingerprint_proc_env (preserve : bool) (sp : spec) (environ : envmap) (fpcwd : str) : envmap :=
  let h := set_var (host_env preserve sp.(sp_whitelist) environ) s_BOB_CWD fpcwd in
  match sp.(sp_fat) with
  | Some f => set_var h s_PATH (join_with [ch_colon] f.(fs_paths))
  | None => h
  end.

Definition fingerprint_env (preserve : bool) (sp : spec) (environ : envmap) (fpcwd : str)
           (stepenv : envmap) (varset : list str) : option envmap :=
  run_exports (fingerprint_proc_env preserve sp environ fpcwd) (fingerprint_exports stepenv varset).

(* ---- StepSpec.fromStep: depMounts *)
Record dep := { d_valid : bool; d_storage : str; d_exec : str }.

(* a step with its first argument (the previous step of the same package for
   build/package steps) and its other dependencies *)
Inductive stepT :=
| SNoArg (valid checkout : bool) (storage exec : str)
| SArg (valid checkout : bool) (storage exec : str) (first : stepT) (others : list dep).

Definition st_valid (s : stepT) := match s with SNoArg v _ _ _ => v | SArg v _ _ _ _ _ => v end.
Definition st_checkout (s : stepT) := match s with SNoArg _ c _ _ => c | SArg _ c _ _ _ _ => c end.
Definition st_storage (s : stepT) := match s with SNoArg _ _ p _ => p | SArg _ _ p _ _ _ => p end.
Definition st_exec (s : stepT) := match s with SNoArg _ _ _ p => p | SArg _ _ _ p _ _ => p end.
Definition st_dep (s : stepT) : dep := {| d_valid := st_valid s; d_storage := st_storage s; d_exec := st_exec s |}.
Definition st_args (s : stepT) : list dep :=
  match s with SNoArg _ _ _ _ => [] | SArg _ _ _ _ f o => st_dep f :: o end.

(* extra = step
   while extra.isValid() and not extra.isCheckoutStep() and len(extra.getArguments()) > 0:
       extra = extra.getArguments()[0]
       if extra.isValid(): depMounts.append(...) *)
Fixpoint chain_mounts (s : stepT) : list (str * str) :=
  match s with
  | SNoArg _ _ _ _ => []
  | SArg valid checkout _ _ a _ =>
      if valid && negb checkout then
        (if st_valid a then [(st_storage a, st_exec a)] else []) ++ chain_mounts a
      else []
  end.

(* step.getAllDepSteps() = arguments ++ tools (sorted by name) ++ [sandbox] *)
Definition dep_mounts (s : stepT) (tools_and_sandbox : list dep) : list (str * str) :=
  map (fun d => (d.(d_storage), d.(d_exec))) (filter d_valid (st_args s ++ tools_and_sandbox))
  ++ chain_mounts s.

(* ---- the sandbox helper command line *)
Record world := {
  w_cwd : str;                    (* os.getcwd(): the project directory *)
  w_tmp : str;                    (* tempfile.mkdtemp() *)
  w_root_entries : list str;      (* os.listdir("/") *)
  w_image_entries : list str;     (* os.listdir(sandbox root) *)
  w_exists : list str;            (* host mount sources that exist (nofail) *)
  w_helper : str;                 (* path of bob-namespace-sandbox *)
  w_subst : str -> str            (* Env(host env).substitute on mount paths *)
}.

Definition o (c : N) : str := [45; c].
Definition oS := o 83. Definition oH := o 72. Definition od := o 100. Definition oM := o 77.
Definition om := o 109. Definition ow := o 119. Definition oW := o 87. Definition oi := o 105.
Definition or_ := o 114. Definition on := o 110.
Definition s_tmp : str := [47; 116; 109; 112].            (* /tmp *)
Definition s_bob : str := [98; 111; 98].                  (* bob *)
Definition s_sandbox : str := [115; 97; 110; 100; 98; 111; 120].
Definition s_whiteout : str := [119; 104; 105; 116; 101; 111; 117; 116].
Definition s_bob_env : str := [47; 98; 111; 98; 47; 101; 110; 118].   (* /bob/env *)
Definition s_dot_script : str := [47; 46; 115; 99; 114; 105; 112; 116].   (* /.script *)
Definition s_script : str := [115; 99; 114; 105; 112; 116].
Definition s_root : str := [114; 111; 111; 116].
Definition s_USER : str := [36; 85; 83; 69; 82].          (* $USER *)
Definition s_rw : str := [114; 119].
Definition s_nofail : str := [110; 111; 102; 97; 105; 108].
Definition s_nolocal : str := [110; 111; 108; 111; 99; 97; 108].
Definition s_nojenkins : str := [110; 111; 106; 101; 110; 107; 105; 110; 115].

Definition pjoin (a b : str) : str := if last_is_slash a then a ++ b else a ++ [ch_slash] ++ b.

(* the helper command line as a list of items *)
Inductive item :=
| IFlag (c : N)                                   (* -c *)
| IArg (c : N) (x : str)                          (* -c x *)
| IMount (src : str) (tgt : option (bool * str)). (* -M src [-m tgt | -w tgt] *)

Definition render_item (i : item) : list str :=
  match i with
  | IFlag c => [o c]
  | IArg c x => [o c; x]
  | IMount s None => [oM; s]
  | IMount s (Some (rw, t)) => [oM; s; if rw then ow else om; t]
  end.

Definition host_mount_items (w : world) (jenkins : bool) (m : str * str * list str) : list item :=
  let '(hostp, sbp, opts) := m in
  if str_mem (if jenkins then s_nojenkins else s_nolocal) opts then []
  else
    let hp := w.(w_subst) hostp in
    if str_mem s_nofail opts && negb (str_mem hp w.(w_exists)) then []
    else
      let sp := w.(w_subst) sbp in
      [IMount hp (if str_mem s_rw opts then Some (true, sp)
                  else if negb (str_eqb hp sp) then Some (false, sp) else None)].

Definition fat_items (w : world) (jenkins : bool) (f : fatspec) : list item :=
  [IArg 83 w.(w_tmp); IArg 72 s_bob; IArg 100 s_tmp]
  ++ map (fun e => IMount (pjoin (abspath w.(w_cwd) f.(fs_root)) e) (Some (false, ch_slash :: e))) w.(w_image_entries)
  ++ flat_map (host_mount_items w jenkins) f.(fs_mounts)
  ++ (if str_eqb f.(fs_user) s_root then [IFlag 114] else if str_eqb f.(fs_user) s_USER then [IFlag 105] else []).

Definition s_tmp_name : str := [116; 109; 112].   (* tmp *)

Definition slim_items (w : world) : list item :=
  [IArg 83 (pjoin w.(w_tmp) s_sandbox); IFlag 105; IArg 100 s_tmp]
  ++ flat_map (fun e => if str_eqb e s_tmp_name then [] else [IMount (ch_slash :: e) (Some (false, ch_slash :: e))]) w.(w_root_entries)
  ++ [IMount (pjoin w.(w_tmp) s_whiteout) (Some (true, w.(w_cwd)))].

(* BashLanguage.__scriptFilePaths *)
Definition script_paths (w : world) (sp : spec) : str * str :=
  let cwd := w.(w_cwd) in
  match sp.(sp_fat) with
  | Some _ => (abspath cwd (match sp.(sp_script_hint) with Some h => h | None => pjoin w.(w_tmp) s_dot_script end),
               s_dot_script)
  | None => let e := abspath cwd (match sp.(sp_script_hint) with Some h => h | None => pjoin w.(w_tmp) s_script end)
            in (e, e)
  end.

Definition has_sandbox (sp : spec) : bool :=
  match sp.(sp_fat) with Some _ => true | None => sp.(sp_slim) end.

Definition script_item (w : world) (sp : spec) : item :=
  IMount (fst (script_paths w sp)) (Some (false, snd (script_paths w sp))).
Definition envfile_items (w : world) (sp : spec) : list item :=
  match sp.(sp_envfile) with Some f => [IMount (abspath w.(w_cwd) f) (Some (true, s_bob_env))] | None => [] end.
Definition workspace_item (w : world) (sp : spec) : item :=
  IMount (abspath w.(w_cwd) sp.(sp_ws_storage)) (Some (true, abspath w.(w_cwd) sp.(sp_ws_exec))).
Definition dep_item (w : world) (d : str * str) : item :=
  IMount (abspath w.(w_cwd) (fst d)) (Some (false, abspath w.(w_cwd) (snd d))).

(* executeStep: options of the wrapper in front of the interpreter call *)
Definition sandbox_items (w : world) (sp : spec) : list item :=
  (match sp.(sp_fat) with Some f => fat_items w sp.(sp_jenkins) f | None => slim_items w end)
  ++ [script_item w sp]
  ++ (if sp.(sp_net) then [] else [IFlag 110])
  ++ envfile_items w sp
  ++ [workspace_item w sp]
  ++ [IArg 87 (abspath w.(w_cwd) sp.(sp_ws_exec))]
  ++ map (dep_item w) sp.(sp_dep_mounts).

Definition sandbox_argv (w : world) (sp : spec) : list str :=
  if has_sandbox sp then w.(w_helper) :: flat_map render_item (sandbox_items w sp) ++ [s_dashdash]
  else [].

(* ---- namespace-sandbox.c option semantics for the mount table:
   -M src opens a pending source (a still pending one is mounted read-only on
   its own path); -m tgt = read-only bind, -w tgt = writable bind; options
   with an argument consume it; parsing stops at `--`. *)
Record mount := { m_src : str; m_tgt : str; m_rw : bool }.

Definition flush (pending : option str) : list mount :=
  match pending with Some s => [{| m_src := s; m_tgt := s; m_rw := false |}] | None => [] end.

Definition opts_with_arg : list N := [83; 72; 100; 87; 108; 76].    (* S H d W l L *)
Definition flags_no_arg : list N := [67; 68; 105; 110; 114].         (* C D i n r *)

Fixpoint helper_mounts (argv : list str) (pending : option str) {struct argv} : list mount :=
  match argv with
  | [] => flush pending
  | a :: r =>
      if str_eqb a s_dashdash then flush pending
      else if str_eqb a oM then
        match r with
        | s :: r' => flush pending ++ helper_mounts r' (Some s)
        | [] => flush pending
        end
      else if str_eqb a om || str_eqb a ow then
        match r, pending with
        | t :: r', Some s => {| m_src := s; m_tgt := t; m_rw := str_eqb a ow |} :: helper_mounts r' None
        | _, _ => []         (* usage error: the helper exits *)
        end
      else if existsb (fun c => str_eqb a (o c)) opts_with_arg then
        match r with _ :: r' => helper_mounts r' pending | [] => flush pending end
      else helper_mounts r pending
  end.

(* the mount table of a sandboxed step (argv[0] is the helper itself) *)
Definition mount_plan (w : world) (sp : spec) : list mount :=
  helper_mounts (tl (sandbox_argv w sp)) None.

(* the mounts requested by a list of items, in order *)
Definition item_mounts (i : item) : list mount :=
  match i with
  | IMount s None => [{| m_src := s; m_tgt := s; m_rw := false |}]
  | IMount s (Some (rw, t)) => [{| m_src := s; m_tgt := t; m_rw := rw |}]
  | _ => []
  end.

(* ---- which mount a path inside the sandbox resolves to: the last mount
   whose target is the path itself or one of its ancestors *)
Definition under (dir p : str) : bool :=
  str_eqb dir p || is_prefix (if last_is_slash dir then dir else dir ++ [ch_slash]) p.

Fixpoint resolve (plan : list mount) (p : str) (cur : option mount) : option mount :=
  match plan with
  | [] => cur
  | m :: r => resolve r p (if under m.(m_tgt) p then Some m else cur)
  end.

(* ------------------------------------------------------------------
   predicates and abbreviations used in the theorem statements *)
Definition no_nul (s : str) : Prop := ~ In ch_nul s.

(* what the theorems assume about a step specification: the dict has unique
   keys and no string contains a NUL character (not representable in a
   process environment or in a bash word) *)
Definition spec_ok (cwd : str) (sp : spec) : Prop :=
  NoDup (keys sp.(sp_env)) /\
  (forall k v, In (k, v) sp.(sp_env) -> no_nul v) /\
  Forall no_nul (map (abspath cwd) sp.(sp_paths)) /\
  Forall no_nul (map (abspath cwd) sp.(sp_libs)) /\
  no_nul (abspath cwd sp.(sp_ws_exec)).

Definition path_value (ps : list str) (inherited : str) : str := join_with [ch_colon] (ps ++ [inherited]).

(* the host variable k reaches the interpreter *)
Definition host_visible (preserve : bool) (wl : list str) (environ : envmap) (k : str) : Prop :=
  In k (keys environ) /\ (preserve = true \/ In k wl).

Definition mk_mount (s t : str) (rw : bool) : mount := {| m_src := s; m_tgt := t; m_rw := rw |}.
Definition ws_mount (w : world) (sp : spec) : mount :=
  mk_mount (abspath w.(w_cwd) sp.(sp_ws_storage)) (abspath w.(w_cwd) sp.(sp_ws_exec)) true.
Definition dep_mount (w : world) (d : str * str) : mount :=
  mk_mount (abspath w.(w_cwd) (fst d)) (abspath w.(w_cwd) (snd d)) false.
Definition whiteout_mount (w : world) : mount := mk_mount (pjoin w.(w_tmp) s_whiteout) w.(w_cwd) true.
Definition script_mount (w : world) (sp : spec) : mount :=
  mk_mount (fst (script_paths w sp)) (snd (script_paths w sp)) false.
Definition envfile_mount (w : world) (f : str) : mount := mk_mount (abspath w.(w_cwd) f) s_bob_env true.

(* d is an earlier step of the same package reached from s by following the
   first argument through valid non-checkout steps *)
Inductive own_chain : stepT -> stepT -> Prop :=
| oc_here : forall p e a o, own_chain (SArg true false p e a o) a
| oc_next : forall p e a o d, own_chain a d -> own_chain (SArg true false p e a o) d.

(* ------------------------------------------------------------------
   intermediate.py: StepIR.getExecPath(referrer) / getPaths / getLibraryPaths.
   A dependency is addressed from the point of view of the step that consumes
   it (the referrer): with automatic stable paths (pathsConfig.stablePaths is
   None) it is seen under /bob/<variant-id>/workspace iff the *consumer* runs
   in a sandbox image, otherwise at its storage path. *)
Record irstep := {
  ir_valid : bool;
  ir_stable : option bool;        (* stablePaths(): None = automatic, Some = forced by the sandbox mode *)
  ir_sandboxed : bool;            (* getSandbox() is not None *)
  ir_vid : str;                   (* asHexStr(getVariantId()) *)
  ir_storage : str;               (* getStoragePath() *)
  ir_name : str                   (* getPackage().getName() *)
}.

Definition s_bob_dir : str := [47; 98; 111; 98].                                   (* /bob *)
Definition s_workspace : str := [119; 111; 114; 107; 115; 112; 97; 99; 101].        (* workspace *)
Definition s_invalid_exec : str :=                                                   (* /invalid/exec/path/of/ *)
  [47; 105; 110; 118; 97; 108; 105; 100; 47; 101; 120; 101; 99; 47; 112; 97; 116; 104; 47; 111; 102; 47].

(* os.path.join(a, b) *)
Definition os_join (a b : str) : str :=
  if is_abs b then b
  else match a with
       | [] => b
       | _ => if last_is_slash a then a ++ b else a ++ [ch_slash] ++ b
       end.

Definition exec_path (s : irstep) (referrer : option irstep) : str :=
  if s.(ir_valid) then
    let stable := match s.(ir_stable) with
                  | Some b => b
                  | None => (match referrer with Some r => r | None => s end).(ir_sandboxed)
                  end in
    if stable then os_join (os_join s_bob_dir s.(ir_vid)) s_workspace else s.(ir_storage)
  else s_invalid_exec ++ s.(ir_name).

Record irtool := { it_step : irstep; it_path : str; it_libs : list str }.

Fixpoint insert_key {A} (x : str * A) (l : list (str * A)) : list (str * A) :=
  match l with
  | [] => [x]
  | y :: r => if str_leb (fst x) (fst y) then x :: l else y :: insert_key x r
  end.
Fixpoint sort_by_key {A} (l : list (str * A)) : list (str * A) :=
  match l with [] => [] | x :: r => insert_key x (sort_by_key r) end.

Fixpoint insert_str (x : str) (l : list str) : list str :=
  match l with
  | [] => [x]
  | y :: r => if str_leb x y then x :: l else y :: insert_str x r
  end.
Fixpoint sort_str (l : list str) : list str :=
  match l with [] => [] | x :: r => insert_str x (sort_str r) end.

(* sorted([ join(tool.getStep().getExecPath(self), tool.getPath()) for tool in tools.values() ]) *)
Definition tool_paths (self : irstep) (tools : list (str * irtool)) : list str :=
  sort_str (map (fun nt => os_join (exec_path (snd nt).(it_step) (Some self)) (snd nt).(it_path)) tools).

(* for (name, tool) in sorted(tools.items()): [ join(tool.getStep().getExecPath(self), l) for l in tool.getLibs() ] *)
Definition library_paths (self : irstep) (tools : list (str * irtool)) : list str :=
  flat_map (fun nt => map (os_join (exec_path (snd nt).(it_step) (Some self))) (snd nt).(it_libs))
           (sort_by_key tools).

(* the depMounts entry of a tool as computed for the consumer *)
Definition tool_mount (self : irstep) (t : irtool) : str * str :=
  (t.(it_step).(ir_storage), exec_path t.(it_step) (Some self)).
