(* C12 — Bob's switch-or-attic loop: path order, AtticTracker consistency
   (attic_nested_consistent) and the project level monotonicity of user objects. *)
From Coq Require Import List NArith Bool Lia Sorted Permutation PeanoNat Arith.
Require Import BobV.Common.Cases BobV.C12.Model BobV.C12.Proofs BobV.C12.Clean.
Import ListNotations.
Open Scope N_scope.

(* ------------------------------------------------------------------ *)
(* the order of checkoutsFromState puts a directory before everything below it *)

Lemma path_leb_refl : forall p, path_leb p p = true.
Proof. induction p as [|x p IH]; simpl; auto. rewrite N.ltb_irrefl, N.eqb_refl. auto. Qed.

Lemma path_leb_total : forall p q, path_leb p q = true \/ path_leb q p = true.
Proof.
  induction p as [|x p IH]; intros [|y q]; simpl; auto.
  destruct (x <? y) eqn:L1; auto. destruct (y <? x) eqn:L2; auto.
  apply N.ltb_ge in L1. apply N.ltb_ge in L2. assert (x = y) by lia. subst.
  rewrite N.eqb_refl. apply IH.
Qed.

Lemma path_leb_trans : forall p q r, path_leb p q = true -> path_leb q r = true -> path_leb p r = true.
Proof.
  induction p as [|x p IH]; intros [|y q] [|z r] H1 H2; simpl in *; auto; try discriminate.
  destruct (x <? y) eqn:L1.
  - apply N.ltb_lt in L1. destruct (y <? z) eqn:L2.
    + apply N.ltb_lt in L2. assert (x < z) by lia. apply N.ltb_lt in H. rewrite H. auto.
    + destruct (y =? z) eqn:E2; try discriminate. apply N.eqb_eq in E2. subst.
      apply N.ltb_lt in L1. rewrite L1. auto.
  - destruct (x =? y) eqn:E1; try discriminate. apply N.eqb_eq in E1. subst.
    destruct (y <? z); auto. destruct (y =? z); try discriminate. eapply IH; eauto.
Qed.

Lemma path_leb_antisym : forall p q, path_leb p q = true -> path_leb q p = true -> p = q.
Proof.
  induction p as [|x p IH]; intros [|y q] H1 H2; simpl in *; auto; try discriminate.
  destruct (x <? y) eqn:L1.
  - apply N.ltb_lt in L1. destruct (y <? x) eqn:L2.
    + apply N.ltb_lt in L2. lia.
    + destruct (y =? x) eqn:E; try discriminate. apply N.eqb_eq in E. lia.
  - destruct (x =? y) eqn:E1; try discriminate. apply N.eqb_eq in E1. subst.
    rewrite N.ltb_irrefl, N.eqb_refl in H2. f_equal. auto.
Qed.

Lemma prefix_leb : forall p q, is_prefix p q = true -> path_leb p q = true.
Proof.
  induction p as [|x p IH]; intros [|y q] H; simpl in *; auto; try discriminate.
  apply andb_true_iff in H. destruct H as [E H]. apply N.eqb_eq in E. subst.
  rewrite N.ltb_irrefl, N.eqb_refl. auto.
Qed.

Lemma prefix_refl : forall p, is_prefix p p = true.
Proof. induction p; simpl; auto. rewrite N.eqb_refl. auto. Qed.

Lemma prefix_trans : forall p q r, is_prefix p q = true -> is_prefix q r = true -> is_prefix p r = true.
Proof.
  induction p as [|x p IH]; intros [|y q] [|z r] H1 H2; simpl in *; auto; try discriminate.
  apply andb_true_iff in H1. apply andb_true_iff in H2. destruct H1 as [E1 H1]. destruct H2 as [E2 H2].
  apply N.eqb_eq in E1. apply N.eqb_eq in E2. subst. rewrite N.eqb_refl. simpl. eapply IH; eauto.
Qed.

Lemma prefix_comparable : forall p q d, is_prefix p d = true -> is_prefix q d = true ->
  is_prefix p q = true \/ is_prefix q p = true.
Proof.
  induction p as [|x p IH]; intros [|y q] [|z d] H1 H2; simpl in *; auto; try discriminate.
  apply andb_true_iff in H1. apply andb_true_iff in H2. destruct H1 as [E1 H1]. destruct H2 as [E2 H2].
  apply N.eqb_eq in E1. apply N.eqb_eq in E2. subst. rewrite N.eqb_refl. simpl. eapply IH; eauto.
Qed.

Lemma prefix_antisym : forall p q, is_prefix p q = true -> is_prefix q p = true -> p = q.
Proof. intros. apply path_leb_antisym; apply prefix_leb; auto. Qed.

Lemma prefix_app_skipn : forall p q, is_prefix p q = true -> q = p ++ skipn (length p) q.
Proof.
  induction p as [|x p IH]; intros [|y q] H; simpl in *; auto; try discriminate.
  apply andb_true_iff in H. destruct H as [E H]. apply N.eqb_eq in E. subst. f_equal. auto.
Qed.

Lemma prefix_app : forall p q, is_prefix p (p ++ q) = true.
Proof. induction p; simpl; auto. intros. rewrite N.eqb_refl. simpl. auto. Qed.

Definition key_leb {V} (a b : path * V) : Prop := path_leb (fst a) (fst b) = true.

Lemma insert_sorted_In : forall V (x : path * V) l y, In y (insert_sorted x l) <-> y = x \/ In y l.
Proof.
  induction l as [|z l IH]; intros y; simpl.
  - split; intros [H|H]; auto; contradiction.
  - destruct (path_leb (fst x) (fst z)); simpl.
    + split; intros [H|H]; auto.
    + rewrite IH. split; intros [H|[H|H]]; auto.
Qed.

Lemma insert_sorted_sorted : forall V (x : path * V) l,
  StronglySorted key_leb l -> StronglySorted key_leb (insert_sorted x l).
Proof.
  induction l as [|z l IH]; intros S; simpl.
  - constructor; constructor.
  - inversion S; subst. destruct (path_leb (fst x) (fst z)) eqn:E.
    + constructor; auto. constructor; auto.
      rewrite Forall_forall in *. intros y I. unfold key_leb. eapply path_leb_trans; [exact E|]. apply H2. auto.
    + constructor; auto. rewrite Forall_forall in *. intros y I. apply insert_sorted_In in I.
      destruct I as [->|I]; auto. unfold key_leb. destruct (path_leb_total (fst z) (fst x)); auto. congruence.
Qed.

Lemma sort_paths_In : forall V (l : list (path * V)) y, In y (sort_paths l) <-> In y l.
Proof.
  induction l as [|x l IH]; intros y; simpl; [tauto|].
  rewrite insert_sorted_In, IH. split; intros [H|H]; auto.
Qed.

Lemma sort_paths_sorted : forall V (l : list (path * V)), StronglySorted key_leb (sort_paths l).
Proof. induction l; simpl; [constructor|]. apply insert_sorted_sorted. auto. Qed.

Lemma insert_sorted_keys_perm : forall V (x : path * V) l,
  Permutation (map fst (insert_sorted x l)) (fst x :: map fst l).
Proof.
  induction l as [|z l IH]; simpl; auto.
  destruct (path_leb (fst x) (fst z)); simpl; auto.
  eapply perm_trans; [apply perm_skip; exact IH|]. apply perm_swap.
Qed.

Lemma sort_paths_keys_perm : forall V (l : list (path * V)), Permutation (map fst (sort_paths l)) (map fst l).
Proof.
  induction l as [|x l IH]; simpl; auto.
  eapply perm_trans; [apply insert_sorted_keys_perm|]. apply perm_skip. auto.
Qed.

Lemma sort_paths_nodup : forall V (l : list (path * V)), NoDup (map fst l) -> NoDup (map fst (sort_paths l)).
Proof. intros. eapply Permutation_NoDup; [apply Permutation_sym; apply sort_paths_keys_perm|]. auto. Qed.

(* ------------------------------------------------------------------ *)
(* one iteration of the loop, by cases                                 *)

Lemma pget_pdel_same : forall V (l : list (path * V)) k, pget (pdel l k) k = None.
Proof. intros. apply (kget_kdel_same path_eqb). Qed.
Lemma pget_pdel_other : forall V (l : list (path * V)) k k', k <> k' -> pget (pdel l k) k' = pget l k'.
Proof. intros. apply (kget_kdel_other path_eqb path_eqb_spec); auto. Qed.
Lemma pget_pset_same : forall V (l : list (path * V)) k v, pget (pset l k v) k = Some v.
Proof. intros. apply (kget_kset_same path_eqb path_eqb_spec). Qed.
Lemma pget_pset_other : forall V (l : list (path * V)) k v k', k <> k' -> pget (pset l k v) k' = pget l k'.
Proof. intros. apply (kget_kset_other path_eqb path_eqb_spec); auto. Qed.

Lemma tracker_match_some : forall tr d r k,
  tracker_match tr d = Some (r, k) -> In (r, k) tr /\ is_prefix r d = true.
Proof. intros tr d r k H. unfold tracker_match in H. apply find_some in H. simpl in H. auto. Qed.

Lemma tracker_match_none : forall tr d r k,
  tracker_match tr d = None -> In (r, k) tr -> is_prefix r d = false.
Proof. intros tr d r k H I. unfold tracker_match in H. apply (find_none _ _ H (r, k) I). Qed.

(* the nodes the attic decision is taken on: the loop's nodes, or what a failed switch left *)
Definition nodes_before_attic (st : store) (up : upstream) (newmap : list (path * scm)) (L : loopst)
           (d : path) (e : dsentry) (nsX : nodes) (decX : list (N * path)) : Prop :=
  (nsX = l_nodes L /\ decX = l_dec L) \/
  (exists snew sold, pget newmap d = Some snew /\ de_spec e = Some sold /\ can_switch snew sold = true /\
                     do_switch st up (l_nodes L) d snew sold = (nsX, false) /\ decX = l_dec L ++ [(1, d)]).

Inductive step_case (st : store) (up : upstream) (newmap : list (path * scm)) (L : loopst)
          (d : path) (e : dsentry) (L' : loopst) : Prop :=
| SC_affected : forall r k,
    tracker_match (l_tracker L) d = Some (r, k) ->
    L' = mkL (l_exists L) (l_nodes L) (pdel (l_ds L) d) (l_attic L)
             (l_astate L ++ [((k, skipn (length r) d), de_spec e)]) (l_tracker L) (l_dec L) ->
    step_case st up newmap L d e L'
| SC_same :
    tracker_match (l_tracker L) d = None -> L' = L ->
    odg_eqb (de_dig e) (match pget newmap d with Some s => Some (digest s) | None => None end) = true ->
    step_case st up newmap L d e L'
| SC_switched : forall snew sold ns1,
    tracker_match (l_tracker L) d = None ->
    pget newmap d = Some snew -> de_spec e = Some sold -> can_switch snew sold = true ->
    do_switch st up (l_nodes L) d snew sold = (ns1, true) ->
    L' = mkL (l_exists L) ns1 (pset (l_ds L) d (mkDE (Some (digest snew)) (Some snew))) (l_attic L)
             (l_astate L) (l_tracker L) (l_dec L ++ [(1, d)]) ->
    step_case st up newmap L d e L'
| SC_gone : forall nsX decX,
    tracker_match (l_tracker L) d = None ->
    nodes_before_attic st up newmap L d e nsX decX ->
    (match d with [] => l_exists L | _ => path_exists nsX d end) = false ->
    L' = mkL (l_exists L) nsX (pdel (l_ds L) d) (l_attic L) (l_astate L) (l_tracker L) decX ->
    step_case st up newmap L d e L'
| SC_attic : forall nsX decX,
    tracker_match (l_tracker L) d = None ->
    nodes_before_attic st up newmap L d e nsX decX ->
    L' = mkL (match d with [] => false | _ => l_exists L end)
             (filter (fun pn => negb (under d pn)) nsX)
             (pdel (l_ds L) d)
             (l_attic L ++ [map (rebase_path d) (filter (under d) nsX)])
             (l_astate L ++ [((N.of_nat (length (l_attic L)), []), de_spec e)])
             (l_tracker L ++ [(d, N.of_nat (length (l_attic L)))])
             (decX ++ [(2, d)]) ->
    step_case st up newmap L d e L'.

Lemma loop_step_cases : forall st up newmap L d e,
  step_case st up newmap L d e (loop_step st up newmap L (d, e)).
Proof.
  intros st up newmap L d e. unfold loop_step. cbn [fst snd].
  destruct (tracker_match (l_tracker L) d) as [[r k]|] eqn:T.
  { eapply SC_affected; eauto. }
  destruct (odg_eqb (de_dig e) match pget newmap d with Some s => Some (digest s) | None => None end) eqn:E.
  { apply SC_same; auto. }
  assert (NOSW : step_case st up newmap L d e
                   (if dir_exists L d then move_to_attic L d (de_spec e) else with_ds L (pdel (l_ds L) d))).
  { destruct (dir_exists L d) eqn:X.
    - eapply (SC_attic st up newmap L d e _ (l_nodes L) (l_dec L)); auto. left. auto.
    - eapply (SC_gone st up newmap L d e _ (l_nodes L) (l_dec L)); auto; try (left; auto; fail). }
  destruct (pget newmap d) as [snew|] eqn:NM; [|exact NOSW].
  destruct (de_dig e) as [dg0|] eqn:DG; [|exact NOSW].
  destruct (de_spec e) as [sold|] eqn:SP; [|exact NOSW].
  destruct (can_switch snew sold && dir_exists L d) eqn:CS; [|exact NOSW].
  apply andb_true_iff in CS. destruct CS as [CS X].
  destruct (do_switch st up (l_nodes L) d snew sold) as [ns1 did] eqn:DS.
  destruct did.
  - eapply SC_switched; eauto.
  - assert (NB : nodes_before_attic st up newmap L d e ns1 (l_dec L ++ [(1, d)])).
    { right. exists snew, sold. repeat split; auto. }
    destruct (dir_exists (with_nodes_dec L ns1 (l_dec L ++ [(1, d)])) d) eqn:X1.
    + eapply (SC_attic st up newmap L d e _ ns1 _); eauto. rewrite SP. reflexivity.
    + eapply (SC_gone st up newmap L d e _ ns1 _); eauto.
Qed.

(* ------------------------------------------------------------------ *)
(* attic_nested_consistent                                             *)

Record tinv (L : loopst) (done : list (path * dsentry)) : Prop := mkTI {
  ti_roots : forall r k, In (r, k) (l_tracker L) -> In r (map fst done);
  ti_homed : forall r k d e, In (r, k) (l_tracker L) -> In (d, e) done -> is_prefix r d = true ->
             pget (l_ds L) d = None /\ In ((k, skipn (length r) d), de_spec e) (l_astate L);
  ti_apart : forall r1 k1 r2 k2, In (r1, k1) (l_tracker L) -> In (r2, k2) (l_tracker L) ->
             is_prefix r1 r2 = true -> (r1, k1) = (r2, k2)
}.

Lemma skipn_self : forall A (l : list A), skipn (length l) l = [].
Proof. induction l; simpl; auto. Qed.

Lemma tinv_step : forall st up newmap L done d e,
  tinv L done ->
  (forall x, In x done -> path_leb (fst x) d = true) ->
  ~ In d (map fst done) ->
  tinv (loop_step st up newmap L (d, e)) (done ++ [(d, e)]).
Proof.
  intros st up newmap L done d e [I1 I2 I3] SRT ND.
  assert (NEQ : forall d0 e0, In (d0, e0) done -> d <> d0).
  { intros d0 e0 I E. subst. apply ND. apply in_map_iff. exists (d0, e0). auto. }
  assert (KEEP : forall L', l_tracker L' = l_tracker L ->
            (forall q, q <> d -> pget (l_ds L') q = pget (l_ds L) q) ->
            (forall x, In x (l_astate L) -> In x (l_astate L')) ->
            (forall r k, In (r, k) (l_tracker L) -> is_prefix r d = true ->
                         pget (l_ds L') d = None /\ In ((k, skipn (length r) d), de_spec e) (l_astate L')) ->
            tinv L' (done ++ [(d, e)])).
  { intros L' ET ED EA ENEW. constructor; rewrite ET.
    - intros r k I. rewrite map_app. apply in_or_app. left. eauto.
    - intros r k d0 e0 I ID P. apply in_app_or in ID. destruct ID as [ID|[ID|[]]].
      + destruct (I2 _ _ _ _ I ID P) as [A B]. split; auto. rewrite ED; auto.
        intro. subst. eapply NEQ; eauto.
      + inversion ID. subst. auto.
    - exact I3. }
  destruct (loop_step_cases st up newmap L d e) as [r k T E | T E _ | snew sold ns1 T _ _ _ _ E | nsX decX T _ _ E | nsX decX T _ E];
    rewrite E; clear E.
  - (* affected *)
    destruct (tracker_match_some _ _ _ _ T) as [IT PT].
    apply KEEP; simpl; auto.
    + intros. apply pget_pdel_other. auto.
    + intros. apply in_or_app. auto.
    + intros r' k' I' P'. split; [apply pget_pdel_same|].
      assert ((r', k') = (r, k)).
      { destruct (prefix_comparable _ _ _ P' PT) as [C|C]; [|symmetry]; eapply I3; eauto. }
      inversion H. subst. apply in_or_app. right. left. auto.
  - apply KEEP; auto. intros r k I P. rewrite (tracker_match_none _ _ _ _ T I) in P. discriminate.
  - apply KEEP; simpl; auto.
    + intros. apply pget_pset_other. auto.
    + intros r k I P. rewrite (tracker_match_none _ _ _ _ T I) in P. discriminate.
  - apply KEEP; simpl; auto.
    + intros. apply pget_pdel_other. auto.
    + intros r k I P. rewrite (tracker_match_none _ _ _ _ T I) in P. discriminate.
  - (* moved to the attic: d becomes a tracked root *)
    set (k := N.of_nat (length (l_attic L))).
    constructor; simpl.
    + intros r k0 I. rewrite map_app. apply in_or_app. apply in_app_or in I. destruct I as [I|[I|[]]].
      * left. eauto.
      * inversion I. subst. right. simpl. auto.
    + intros r k0 d0 e0 I ID P.
      apply in_app_or in I. apply in_app_or in ID.
      destruct I as [I|[I|[]]]; destruct ID as [ID|[ID|[]]].
      * destruct (I2 _ _ _ _ I ID P) as [A B]. split.
        -- rewrite pget_pdel_other; auto. eapply NEQ; eauto.
        -- apply in_or_app. auto.
      * inversion ID. subst. rewrite (tracker_match_none _ _ _ _ T I) in P. discriminate.
      * inversion I. subst. exfalso.
        (* an already processed directory below the new root would sort after it *)
        assert (d0 = r).
        { apply path_leb_antisym; [apply (SRT (d0, e0) ID)|apply prefix_leb; auto]. }
        subst. eapply NEQ; eauto.
      * inversion I. inversion ID. subst. split; [apply pget_pdel_same|].
        rewrite skipn_self. apply in_or_app. right. left. auto.
    + intros r1 k1 r2 k2 J1 J2 P.
      apply in_app_or in J1. apply in_app_or in J2.
      destruct J1 as [J1|[J1|[]]]; destruct J2 as [J2|[J2|[]]].
      * eapply I3; eauto.
      * inversion J2. subst. rewrite (tracker_match_none _ _ _ _ T J1) in P. discriminate.
      * inversion J1. subst. exfalso.
        pose proof (I1 _ _ J2) as IR. apply in_map_iff in IR. destruct IR as [[d0 e0] [E0 ID]]. simpl in E0. subst d0.
        assert (r2 = r1).
        { apply path_leb_antisym; [apply (SRT (r2, e0) ID)|apply prefix_leb; auto]. }
        subst. eapply NEQ; eauto.
      * inversion J1. inversion J2. subst. auto.
Qed.

Lemma tinv_fold : forall st up newmap rest done L,
  tinv L done ->
  StronglySorted key_leb (done ++ rest) -> NoDup (map fst (done ++ rest)) ->
  tinv (fold_left (loop_step st up newmap) rest L) (done ++ rest).
Proof.
  induction rest as [|[d e] rest IH]; intros done L TI S ND; simpl.
  - rewrite app_nil_r. auto.
  - replace (done ++ (d, e) :: rest) with ((done ++ [(d, e)]) ++ rest) in * by (rewrite <- app_assoc; auto).
    apply IH; auto.
    apply tinv_step; auto.
    + intros x I. clear - S I.
      induction done as [|y done IHd]; simpl in *; [contradiction|].
      inversion S; subst. destruct I as [->|I]; auto.
      rewrite Forall_forall in H2. apply (H2 (d, e)). apply in_or_app. left. apply in_or_app. right. left. auto.
    + clear - ND. rewrite map_app in ND. rewrite map_app in ND. simpl in ND.
      rewrite <- app_assoc in ND. simpl in ND. apply NoDup_remove_2 in ND.
      intro I. apply ND. apply in_or_app. auto.
Qed.

Theorem attic_nested_consistent_proof : forall st up newmap ds L0 L r k d e,
  NoDup (map fst ds) -> l_tracker L0 = [] -> l_ds L0 = ds ->
  L = fold_left (loop_step st up newmap) (sort_paths ds) L0 ->
  In (r, k) (l_tracker L) -> In (d, e) ds -> is_prefix r d = true ->
  pget (l_ds L) d = None /\ In ((k, skipn (length r) d), de_spec e) (l_astate L).
Proof.
  intros st up newmap ds L0 L r k d e ND T0 D0 EL IT ID P.
  assert (TI : tinv L (sort_paths ds)).
  { rewrite EL. apply (tinv_fold st up newmap (sort_paths ds) [] L0).
    - constructor; rewrite T0; simpl; intros; contradiction.
    - apply sort_paths_sorted.
    - simpl. apply sort_paths_nodup. auto. }
  destruct TI as [_ I2 _]. eapply I2; eauto. apply sort_paths_In. auto.
Qed.

(* ------------------------------------------------------------------ *)
(* user objects of a project; facts about put_node                     *)

Definition git_in_nodes (ns : nodes) (g : gitws) : Prop := exists p, pget ns p = Some (NGit g).
Definition git_in_w (w : wstate) (g : gitws) : Prop :=
  git_in_nodes (w_nodes w) g \/ exists a, In a (w_attic w) /\ git_in_nodes a g.
Definition holds_w (st : store) (w : wstate) (o : uobj) : Prop := exists g, git_in_w w g /\ holds_g st g o.
Definition holds_P (st : store) (P : proj) (o : uobj) : Prop :=
  exists k w, aget P k = Some w /\ holds_w st w o.

Definition scm_ok (st : store) (s : scm) : Prop :=
  match s with SGit _ r _ => rev_ok st r | _ => True end.

Lemma ensure_dir_get : forall ns q p,
  pget (ensure_dir ns q) p = pget ns p \/
  (pget ns p = None /\ pget (ensure_dir ns q) p = Some (NPlain []) /\ p = q).
Proof.
  intros ns q p. unfold ensure_dir. destruct (is_some (pget ns q)) eqn:E; auto.
  unfold pget in *. rewrite (kget_app path_eqb).
  destruct (kget path_eqb ns p) eqn:G; auto. simpl.
  destruct (path_eqb q p) eqn:Q; auto. apply path_eqb_spec in Q. subst. right. auto.
Qed.

Lemma ensure_dirs_get : forall qs ns p,
  pget (fold_left ensure_dir qs ns) p = pget ns p \/
  (pget ns p = None /\ pget (fold_left ensure_dir qs ns) p = Some (NPlain []) /\ In p qs).
Proof.
  induction qs as [|q qs IH]; intros ns p; simpl; auto.
  destruct (IH (ensure_dir ns q) p) as [H|(H1 & H2 & H3)].
  - rewrite H. destruct (ensure_dir_get ns q p) as [K|(K1 & K2 & K3)]; auto.
  - destruct (ensure_dir_get ns q p) as [K|(K1 & K2 & K3)].
    + right. rewrite <- K. auto.
    + rewrite K2 in H1. discriminate.
Qed.

Lemma put_node_other : forall ns d n p, p <> d ->
  pget (put_node ns d n) p = pget ns p \/
  (pget ns p = None /\ pget (put_node ns d n) p = Some (NPlain []) /\ In p (proper_prefixes d)).
Proof.
  intros ns d n p NE. unfold put_node. cbv zeta.
  set (ns1 := fold_left ensure_dir (proper_prefixes d) ns).
  assert (E : pget (if is_some (pget ns1 d)
                    then map (fun pn => if path_eqb (fst pn) d then (d, n) else pn) ns1
                    else ns1 ++ [(d, n)]) p = pget ns1 p).
  { destruct (is_some (pget ns1 d)).
    - unfold pget. rewrite (kget_map_replace path_eqb path_eqb_spec).
      destruct (kget path_eqb ns1 p); auto.
      destruct (path_eqb p d) eqn:Q; auto. apply path_eqb_spec in Q. contradiction.
    - unfold pget. rewrite (kget_app path_eqb). destruct (kget path_eqb ns1 p); auto. simpl.
      destruct (path_eqb d p) eqn:Q; auto. apply path_eqb_spec in Q. subst. contradiction. }
  pose proof (ensure_dirs_get (proper_prefixes d) ns p) as G. fold ns1 in G.
  destruct G as [K|(K1 & K2 & K3)].
  - left. exact (eq_trans E K).
  - right. repeat split; auto. exact (eq_trans E K2).
Qed.

Lemma proper_prefixes_from_spec : forall p acc q, In q (proper_prefixes_from acc p) ->
  exists a b, p = a ++ b /\ q = acc ++ a /\ b <> [] /\ a <> [].
Proof.
  induction p as [|x p IH]; intros acc q H; simpl in H; [contradiction|].
  destruct p as [|y p]; [contradiction|].
  destruct H as [H|H].
  - exists [x], (y :: p). subst. repeat split; auto; discriminate.
  - destruct (IH _ _ H) as (a & b & E1 & E2 & E3 & E4).
    exists (x :: a), b. rewrite E1. repeat split; auto.
    + rewrite E2. rewrite <- app_assoc. auto.
    + discriminate.
Qed.

Lemma proper_prefix_spec : forall d q, In q (proper_prefixes d) -> is_prefix q d = true /\ q <> d /\ q <> [].
Proof.
  intros d q H. unfold proper_prefixes in H.
  destruct (proper_prefixes_from_spec _ _ _ H) as (a & b & E1 & E2 & E3 & E4). simpl in E2. subst.
  repeat split; auto.
  - apply prefix_app.
  - intro E. apply E3. rewrite <- (app_nil_r a) in E at 1. apply app_inv_head in E. auto.
Qed.

(* git nodes after put_node d (NGit g'): the new one at d, or an old one elsewhere *)
Lemma put_node_git : forall ns d n p g,
  pget (put_node ns d n) p = Some (NGit g) -> (p = d /\ n = NGit g) \/ (p <> d /\ pget ns p = Some (NGit g)).
Proof.
  intros ns d n p g H. destruct (list_eq_dec N.eq_dec p d) as [->|NE].
  - rewrite pget_put_node_same in H. inversion H. auto.
  - right. split; auto. destruct (put_node_other ns d n p NE) as [K|(K1 & K2 & K3)].
    + rewrite <- K. auto.
    + rewrite K2 in H. discriminate.
Qed.

Lemma put_node_keeps : forall ns d n p x, p <> d -> pget ns p = Some x -> pget (put_node ns d n) p = Some x.
Proof.
  intros ns d n p x NE H. destruct (put_node_other ns d n p NE) as [K|(K1 & K2 & K3)].
  - rewrite K. auto.
  - rewrite K1 in H. discriminate.
Qed.

(* a path that becomes occupied by put_node is d or a proper prefix of d *)
Lemma put_node_new : forall ns d n p, pget ns p = None -> pget (put_node ns d n) p <> None ->
  is_prefix p d = true.
Proof.
  intros ns d n p H K. destruct (list_eq_dec N.eq_dec p d) as [->|NE]; [apply prefix_refl|].
  destruct (put_node_other ns d n p NE) as [E|(_ & _ & I)].
  - rewrite E in K. contradiction.
  - apply proper_prefix_spec in I. tauto.
Qed.

(* nodes under / not under a directory *)
Lemma pget_not_under : forall (ns : nodes) d p,
  pget (filter (fun pn => negb (under d pn)) ns) p = if is_prefix d p then None else pget ns p.
Proof.
  intros. unfold pget, under.
  rewrite (kget_filter_key path_eqb path_eqb_spec (fun q => negb (is_prefix d q)) ns p).
  destruct (is_prefix d p); auto.
Qed.

Lemma pget_rebased : forall (ns : nodes) d q,
  pget (map (rebase_path d) (filter (under d) ns)) q = pget ns (d ++ q).
Proof.
  intros ns d q. induction ns as [|[p n] ns IH]; simpl; auto.
  unfold under at 1. simpl. destruct (is_prefix d p) eqn:P; simpl.
  - unfold pget in *. simpl. rewrite IH.
    destruct (path_eqb (skipn (length d) p) q) eqn:E1; destruct (path_eqb p (d ++ q)) eqn:E2; auto.
    + apply path_eqb_spec in E1. subst q. rewrite <- (prefix_app_skipn _ _ P) in E2.
      rewrite (proj2 (path_eqb_spec p p) eq_refl) in E2. discriminate.
    + apply path_eqb_spec in E2. subst p. rewrite skipn_app in E1. rewrite skipn_self in E1.
      rewrite Nat.sub_diag in E1. simpl in E1. rewrite (proj2 (path_eqb_spec q q) eq_refl) in E1. discriminate.
  - unfold pget in *. simpl. rewrite IH.
    destruct (path_eqb p (d ++ q)) eqn:E2; auto.
    apply path_eqb_spec in E2. subst p. rewrite prefix_app in P. discriminate.
Qed.

(* ------------------------------------------------------------------ *)
(* more list facts for path keyed lists                                *)

Lemma In_pdel : forall V (l : list (path * V)) k x, In x (map fst (pdel l k)) -> In x (map fst l) /\ x <> k.
Proof.
  induction l as [|[k' v] l IH]; intros k x H; simpl in *; try contradiction.
  unfold pdel in *. simpl in H. destruct (path_eqb k' k) eqn:E.
  - destruct (IH _ _ H). split; auto.
  - simpl in H. destruct H as [H|H].
    + subst. split; auto. intro. subst. rewrite (proj2 (path_eqb_spec k k) eq_refl) in E. discriminate.
    + destruct (IH _ _ H). split; auto.
Qed.

Lemma NoDup_pdel : forall V (l : list (path * V)) k, NoDup (map fst l) -> NoDup (map fst (pdel l k)).
Proof.
  induction l as [|[k' v] l IH]; intros k H; simpl in *; auto.
  inversion H; subst. unfold pdel in *. simpl. destruct (path_eqb k' k); auto.
  simpl. constructor; auto. intro J. apply In_pdel in J. tauto.
Qed.

Lemma NoDup_pset : forall V (l : list (path * V)) k v, NoDup (map fst l) -> NoDup (map fst (pset l k v)).
Proof.
  intros. unfold pset, kset. simpl. constructor.
  - intro J. apply (In_pdel V l k k) in J. tauto.
  - apply NoDup_pdel. auto.
Qed.

Lemma In_pget_nodup : forall V (l : list (path * V)) k v, NoDup (map fst l) -> In (k, v) l -> pget l k = Some v.
Proof.
  induction l as [|[k' v'] l IH]; intros k v ND H; simpl in *; try contradiction.
  inversion ND; subst. unfold pget. simpl. destruct H as [H|H].
  - inversion H. subst. rewrite (proj2 (path_eqb_spec k k) eq_refl). auto.
  - destruct (path_eqb k' k) eqn:E.
    + apply path_eqb_spec in E. subst. exfalso. apply H2. apply in_map_iff. exists (k, v). auto.
    + apply IH; auto.
Qed.

Lemma pget_In : forall V (l : list (path * V)) k v, pget l k = Some v -> In (k, v) l.
Proof. intros. apply (kget_In path_eqb path_eqb_spec). auto. Qed.

Lemma pget_In_fst : forall V (l : list (path * V)) k v, pget l k = Some v -> In k (map fst l).
Proof. intros. apply in_map_iff. exists (k, v). split; auto. apply pget_In. auto. Qed.

Lemma digest_kind : forall s s', digest s = digest s' -> is_git s = is_git s'.
Proof.
  intros s s' H. destruct s as [u r d|u g d|src pr d]; destruct s' as [u' r' d'|u' g' d'|src' pr' d']; simpl in *; auto;
    try (destruct r; discriminate); try (destruct r'; discriminate).
Qed.

Lemma dg_eqb_eq : forall a b, dg_eqb a b = true -> a = b.
Proof.
  intros a b H. destruct a; destruct b; simpl in H; try discriminate;
    repeat (apply andb_true_iff in H; destruct H as [H ?]);
    repeat match goal with
           | X : (_ =? _) = true |- _ => apply N.eqb_eq in X
           | X : path_eqb _ _ = true |- _ => apply path_eqb_spec in X
           | X : oeqb _ _ = true |- _ => apply oeqb_spec in X
           end; subst; auto.
Qed.

Lemma odg_eqb_eq : forall a b, odg_eqb a b = true -> a = b.
Proof.
  intros [a|] [b|] H; simpl in H; try discriminate; auto. apply dg_eqb_eq in H. subst. auto.
Qed.

(* what __runScmSwitch does to the nodes *)
Lemma do_switch_facts : forall st up ns d snew sold ns1 ok,
  store_wf st -> up_ok' st up -> scm_ok st snew -> scm_ok st sold ->
  (forall g, pget ns d = Some (NGit g) -> ginv st g) ->
  do_switch st up ns d snew sold = (ns1, ok) ->
  ns1 = ns \/
  (exists g g', pget ns d = Some (NGit g) /\ ns1 = put_node ns d (NGit g') /\
                gpres st g g' /\ ginv st g' /\ is_git snew = true /\ is_git sold = true).
Proof.
  intros st up ns d snew sold ns1 ok W UO OKN OKO GI H. unfold do_switch in H.
  destruct snew as [u r dn|? ? ?|? ? ?]; destruct sold as [uo ro do_|? ? ?|? ? ?];
    try (inversion H; subst; auto; fail).
  destruct (pget ns d) as [[g|f]|] eqn:P; try (inversion H; subst; auto; fail).
  destruct (git_switch st up g ro u r) as [g' ok'] eqn:S.
  inversion H; subst. right. exists g, g'.
  destruct (git_switch_pres _ _ _ _ _ _ _ _ W UO (GI g eq_refl) OKO OKN S) as [P1 P2].
  split; [reflexivity|]. split; [reflexivity|]. split; [exact P1|]. split; [exact P2|]. split; reflexivity.
Qed.

Lemma can_switch_kind : forall a b, can_switch a b = true -> is_git a = is_git b.
Proof. intros [? ? ?|? ? ?|? ? ?] [? ? ?|? ? ?|? ? ?] H; simpl in *; auto; discriminate. Qed.

Lemma dg_eqb_refl : forall a, dg_eqb a a = true.
Proof.
  destruct a; simpl; repeat rewrite N.eqb_refl; simpl;
    try rewrite (proj2 (path_eqb_spec d d) eq_refl); auto.
  rewrite (proj2 (oeqb_spec dig dig) eq_refl). auto.
Qed.

Lemma pget_some_exists : forall (ns : nodes) p x, pget ns p = Some x -> path_exists ns p = true.
Proof.
  intros ns p x H. unfold path_exists. apply existsb_exists. exists (p, x). split.
  - apply pget_In. auto.
  - unfold under. simpl. apply prefix_refl.
Qed.

(* ------------------------------------------------------------------ *)
(* the loop invariant                                                  *)

Section Loop.
  Variable st : store.
  Variable up : upstream.
  Variable newmap : list (path * scm).
  Hypothesis W : store_wf st.
  Hypothesis UO : up_ok' st up.
  Hypothesis NEWOK : forall d s, pget newmap d = Some s -> scm_ok st s.
  Variable ds1 : list (path * dsentry).
  Variable attic0 : list nodes.
  Variable astate0 : list ((N * path) * option scm).

  Definition newd (p : path) : option dg :=
    match pget newmap p with Some s => Some (digest s) | None => None end.

  (* the recorded directory state while the loop runs *)
  Record dinv (ds : list (path * dsentry)) (done rest : list (path * dsentry)) : Prop := mkDI {
    di_ent : forall p e, pget ds p = Some e ->
             exists s, de_spec e = Some s /\ scm_ok st s /\
                       (de_dig e = Some (digest s) \/ (de_dig e = None /\ pget newmap p <> None));
    di_settled : forall p e, In p (map fst done) -> pget ds p = Some e -> odg_eqb (de_dig e) (newd p) = true;
    di_keys : forall p e, pget ds p = Some e -> In p (map fst done) \/ In p (map fst rest);
    di_rest : forall d e, In (d, e) rest -> pget ds d = Some e;
    di_nodup : NoDup (map fst ds)
  }.

  Record linv (L : loopst) (done rest : list (path * dsentry)) : Prop := mkLI {
    li_ginv : forall p g, pget (l_nodes L) p = Some (NGit g) -> ginv st g;
    li_rec : forall p g, pget (l_nodes L) p = Some (NGit g) ->
             exists e s, pget (l_ds L) p = Some e /\ de_spec e = Some s /\ is_git s = true;
    li_d : dinv (l_ds L) done rest;
    li_clear : forall r k p, In (r, k) (l_tracker L) -> is_prefix r p = true -> pget (l_nodes L) p = None;
    li_ex : l_exists L = false -> exists k, In ([], k) (l_tracker L);
    li_attic_old : exists newa, l_attic L = attic0 ++ newa /\ length newa = length (l_tracker L) /\
                   map snd (l_tracker L) = map N.of_nat (seq (length attic0) (length newa));
    li_attic_new : forall r k a p g, In (r, k) (l_tracker L) ->
                   nth_error (l_attic L) (N.to_nat k) = Some a -> pget a p = Some (NGit g) ->
                   ginv st g /\ exists e s, In (r ++ p, e) ds1 /\ de_spec e = Some s /\ is_git s = true;
    li_astate : forall x, In x (l_astate L) ->
                In x astate0 \/
                exists r k d e, x = ((k, skipn (length r) d), de_spec e) /\ In (r, k) (l_tracker L) /\
                                In (d, e) ds1 /\ is_prefix r d = true;
    li_astate_mono : forall x, In x astate0 -> In x (l_astate L)
  }.

  Lemma in_done' : forall (done : list (path * dsentry)) d e p,
    In p (map fst (done ++ [(d, e)])) <-> In p (map fst done) \/ p = d.
  Proof.
    intros. rewrite map_app. simpl. split; intro H.
    - apply in_app_or in H. destruct H as [H|[H|[]]]; auto.
    - apply in_or_app. destruct H as [H|H]; auto. right. left. auto.
  Qed.

  (* the entry of the current directory is removed *)
  Lemma dinv_pdel : forall ds done rest d e,
    dinv ds done ((d, e) :: rest) -> ~ In d (map fst rest) ->
    dinv (pdel ds d) (done ++ [(d, e)]) rest.
  Proof.
    intros ds done rest d e [E S K R N] NR. constructor.
    - intros p e' H. destruct (list_eq_dec N.eq_dec d p) as [->|NE].
      + rewrite pget_pdel_same in H. discriminate.
      + rewrite pget_pdel_other in H; auto.
    - intros p e' I H. destruct (list_eq_dec N.eq_dec d p) as [->|NE].
      + rewrite pget_pdel_same in H. discriminate.
      + rewrite pget_pdel_other in H; auto. apply in_done' in I. destruct I as [I|I]; [eauto|congruence].
    - intros p e' H. destruct (list_eq_dec N.eq_dec d p) as [->|NE].
      + rewrite pget_pdel_same in H. discriminate.
      + rewrite pget_pdel_other in H; auto. destruct (K _ _ H) as [I|I].
        * left. apply in_done'. auto.
        * simpl in I. destruct I as [I|I]; [contradiction|auto].
    - intros d0 e0 I. rewrite pget_pdel_other.
      + apply R. right. auto.
      + intro. subst. apply NR. apply in_map_iff. exists (d0, e0). auto.
    - apply NoDup_pdel. auto.
  Qed.

  (* the entry of the current directory already has the new digest *)
  Lemma dinv_same : forall ds done rest d e,
    dinv ds done ((d, e) :: rest) -> odg_eqb (de_dig e) (newd d) = true ->
    dinv ds (done ++ [(d, e)]) rest.
  Proof.
    intros ds done rest d e [E S K R N] Q. constructor; auto.
    - intros p e' I H. apply in_done' in I. destruct I as [I| ->]; [eauto|].
      rewrite (R d e) in H by (left; auto). inversion H. subst. auto.
    - intros p e' H. destruct (K _ _ H) as [I|I].
      + left. apply in_done'. auto.
      + simpl in I. destruct I as [I|I]; auto. left. apply in_done'. auto.
    - intros d0 e0 I. apply R. right. auto.
  Qed.

  (* the entry of the current directory is replaced by the new spec *)
  Lemma dinv_pset : forall ds done rest d e snew,
    dinv ds done ((d, e) :: rest) -> ~ In d (map fst rest) -> pget newmap d = Some snew ->
    dinv (pset ds d (mkDE (Some (digest snew)) (Some snew))) (done ++ [(d, e)]) rest.
  Proof.
    intros ds done rest d e snew [E S K R N] NR NM. constructor.
    - intros p e' H. destruct (list_eq_dec N.eq_dec d p) as [->|NE].
      + rewrite pget_pset_same in H. inversion H. subst. exists snew. simpl. repeat split; eauto.
      + rewrite pget_pset_other in H; auto.
    - intros p e' I H. destruct (list_eq_dec N.eq_dec d p) as [->|NE].
      + rewrite pget_pset_same in H. inversion H. subst. simpl. unfold newd. rewrite NM. simpl. apply dg_eqb_refl.
      + rewrite pget_pset_other in H; auto. apply in_done' in I. destruct I as [I|I]; [eauto|congruence].
    - intros p e' H. destruct (list_eq_dec N.eq_dec d p) as [->|NE].
      + left. apply in_done'. auto.
      + rewrite pget_pset_other in H; auto. destruct (K _ _ H) as [I|I].
        * left. apply in_done'. auto.
        * simpl in I. destruct I as [I|I]; [contradiction|auto].
    - intros d0 e0 I. rewrite pget_pset_other.
      + apply R. right. auto.
      + intro. subst. apply NR. apply in_map_iff. exists (d0, e0). auto.
    - apply NoDup_pset. auto.
  Qed.

  (* user objects: every git work space of L is found, possibly advanced, in L' *)
  Definition git_in_L (L : loopst) (g : gitws) : Prop :=
    git_in_nodes (l_nodes L) g \/ exists a, In a (l_attic L) /\ git_in_nodes a g.
  Definition lpres (L L' : loopst) : Prop :=
    forall g, git_in_L L g -> exists g', git_in_L L' g' /\ gpres st g g'.

  Lemma lpres_refl : forall L, lpres L L.
  Proof. intros L g H. exists g. split; auto. apply gpres_refl. Qed.

  (* the nodes after a (successful or failed) switch attempt at d *)
  Lemma after_switch : forall L done rest d e snew sold ns1 ok,
    linv L done rest ->
    tracker_match (l_tracker L) d = None ->
    pget newmap d = Some snew -> pget (l_ds L) d = Some e -> de_spec e = Some sold ->
    can_switch snew sold = true ->
    do_switch st up (l_nodes L) d snew sold = (ns1, ok) ->
    (forall p g, pget ns1 p = Some (NGit g) -> ginv st g) /\
    (forall p g, pget ns1 p = Some (NGit g) ->
       exists e' s, pget (l_ds L) p = Some e' /\ de_spec e' = Some s /\ is_git s = true) /\
    (forall r k p, In (r, k) (l_tracker L) -> is_prefix r p = true -> pget ns1 p = None) /\
    (forall p g, pget (l_nodes L) p = Some (NGit g) -> exists g', pget ns1 p = Some (NGit g') /\ gpres st g g') /\
    (forall g, pget ns1 d = Some (NGit g) -> is_git snew = true).
  Proof.
    intros L done rest d e snew sold ns1 ok LI T NM HD SP CS DS.
    assert (OKO : scm_ok st sold).
    { destruct (di_ent _ _ _ (li_d _ _ _ LI) _ _ HD) as (s & E1 & E2 & _). rewrite SP in E1. inversion E1. subst. auto. }
    destruct (do_switch_facts _ _ _ _ _ _ _ _ W UO (NEWOK _ _ NM) OKO
                (fun g H => li_ginv _ _ _ LI d g H) DS) as [E|(g & g' & P & E & GP & GI & K1 & K2)].
    - subst ns1. split; [|split; [|split; [|split]]].
      + apply (li_ginv _ _ _ LI).
      + apply (li_rec _ _ _ LI).
      + apply (li_clear _ _ _ LI).
      + intros p g H. exists g. split; auto. apply gpres_refl.
      + intros g H. destruct (li_rec _ _ _ LI _ _ H) as (e' & s & E1 & E2 & E3).
        rewrite HD in E1. inversion E1. subst e'. rewrite SP in E2. inversion E2. subst s.
        rewrite (can_switch_kind _ _ CS). auto.
    - subst ns1. split; [|split; [|split; [|split]]].
      + intros p x H. apply put_node_git in H. destruct H as [[-> H]|[_ H]].
        * inversion H. subst. auto.
        * eapply (li_ginv _ _ _ LI); eauto.
      + intros p x H. apply put_node_git in H. destruct H as [[-> H]|[_ H]].
        * eapply (li_rec _ _ _ LI); eauto.
        * eapply (li_rec _ _ _ LI); eauto.
      + intros r k p I PR.
        destruct (pget (put_node (l_nodes L) d (NGit g')) p) eqn:Q; auto. exfalso.
        assert (PD : is_prefix p d = true).
        { eapply put_node_new; [eapply (li_clear _ _ _ LI); eauto|]. rewrite Q. discriminate. }
        pose proof (tracker_match_none _ _ _ _ T I) as F. rewrite (prefix_trans _ _ _ PR PD) in F. discriminate.
      + intros p x H. destruct (list_eq_dec N.eq_dec p d) as [->|NE].
        * rewrite P in H. inversion H as [HX]. rewrite <- HX. exists g'. split; auto. apply pget_put_node_same.
        * exists x. split; [|apply gpres_refl]. apply put_node_keeps; auto.
      + intros g0 _. auto.
  Qed.

  Lemma nth_error_app_l : forall A (l l' : list A) n, (n < length l)%nat -> nth_error (l ++ l') n = nth_error l n.
  Proof. intros. apply nth_error_app1. auto. Qed.

  Lemma tracker_index_lt : forall L done rest r k,
    linv L done rest -> In (r, k) (l_tracker L) -> (N.to_nat k < length (l_attic L))%nat.
  Proof.
    intros L done rest r k LI I. destruct (li_attic_old _ _ _ LI) as (newa & E1 & E2 & E3).
    assert (In k (map snd (l_tracker L))) by (apply in_map_iff; exists (r, k); auto).
    rewrite E3 in H. apply in_map_iff in H. destruct H as (i & E & Hi). apply in_seq in Hi.
    subst k. rewrite Nat2N.id. rewrite E1, app_length. lia.
  Qed.

  (* nodes the attic decision is taken on *)
  Lemma before_attic_facts : forall L done rest d e nsX decX,
    linv L done ((d, e) :: rest) ->
    tracker_match (l_tracker L) d = None ->
    nodes_before_attic st up newmap L d e nsX decX ->
    (forall p g, pget nsX p = Some (NGit g) -> ginv st g) /\
    (forall p g, pget nsX p = Some (NGit g) ->
       exists e' s, pget (l_ds L) p = Some e' /\ de_spec e' = Some s /\ is_git s = true) /\
    (forall r k p, In (r, k) (l_tracker L) -> is_prefix r p = true -> pget nsX p = None) /\
    (forall p g, pget (l_nodes L) p = Some (NGit g) -> exists g', pget nsX p = Some (NGit g') /\ gpres st g g').
  Proof.
    intros L done rest d e nsX decX LI T [[-> _]|(snew & sold & NM & SP & CS & DS & _)].
    - split; [|split; [|split]].
      + apply (li_ginv _ _ _ LI).
      + apply (li_rec _ _ _ LI).
      + apply (li_clear _ _ _ LI).
      + intros p g H. exists g. split; auto. apply gpres_refl.
    - assert (HD : pget (l_ds L) d = Some e) by (apply (di_rest _ _ _ (li_d _ _ _ LI)); left; auto).
      destruct (after_switch _ _ _ _ _ _ _ _ _ LI T NM HD SP CS DS) as (A1 & A2 & A3 & A4 & _). auto.
  Qed.

  Lemma linv_step : forall L done rest d e,
    linv L done ((d, e) :: rest) ->
    (forall x, In x done -> path_leb (fst x) d = true) ->
    ~ In d (map fst done) -> ~ In d (map fst rest) ->
    (forall x, In x ((d, e) :: rest) -> In x ds1) ->
    linv (loop_step st up newmap L (d, e)) (done ++ [(d, e)]) rest /\
    lpres L (loop_step st up newmap L (d, e)).
  Proof.
    intros L done rest d e LI SRT NDd NDr SUB.
    pose proof (li_d _ _ _ LI) as DI.
    assert (HD : pget (l_ds L) d = Some e) by (apply (di_rest _ _ _ DI); left; auto).
    assert (INDS : In (d, e) ds1) by (apply SUB; left; auto).
    destruct (loop_step_cases st up newmap L d e)
      as [r k T E | T E Q | snew sold ns1 T NM SP CS DS E | nsX decX T NB X E | nsX decX T NB E]; rewrite E; clear E.
    - (* ---- affected by a directory moved earlier *)
      destruct (tracker_match_some _ _ _ _ T) as [IT PT].
      assert (NOD : pget (l_nodes L) d = None) by (eapply (li_clear _ _ _ LI); eauto).
      split.
      + constructor; simpl.
        * apply (li_ginv _ _ _ LI).
        * intros p g H. destruct (li_rec _ _ _ LI _ _ H) as (e' & s & E1 & E2 & E3).
          exists e', s. split; auto. rewrite pget_pdel_other; auto. intro. subst. congruence.
        * apply dinv_pdel; auto.
        * apply (li_clear _ _ _ LI).
        * apply (li_ex _ _ _ LI).
        * apply (li_attic_old _ _ _ LI).
        * apply (li_attic_new _ _ _ LI).
        * intros x I. apply in_app_or in I. destruct I as [I|[I|[]]].
          -- apply (li_astate _ _ _ LI). auto.
          -- right. exists r, k, d, e. auto.
        * intros x I. apply in_or_app. left. apply (li_astate_mono _ _ _ LI). auto.
      + intros g [H|H]; exists g; (split; [|apply gpres_refl]); [left|right]; auto.
    - (* ---- unchanged *)
      split; [|apply lpres_refl].
      constructor; try apply LI. apply dinv_same; auto.
    - (* ---- switched in place *)
      destruct (after_switch _ _ _ _ _ _ _ _ _ LI T NM HD SP CS DS) as (A1 & A2 & A3 & A4 & A5).
      split.
      + constructor; simpl; try apply LI; auto.
        * intros p g H. destruct (list_eq_dec N.eq_dec d p) as [->|NE].
          -- rewrite pget_pset_same. eexists. exists snew. split; [reflexivity|]. split; auto. simpl. eauto.
          -- rewrite pget_pset_other; auto. eapply A2; eauto.
        * apply dinv_pset; auto.
      + intros g [[p H]|H].
        * destruct (A4 _ _ H) as (g' & H' & GP). exists g'. split; auto. left. exists p. auto.
        * exists g. split; [right; auto|apply gpres_refl].
    - (* ---- the directory does not exist (any more) *)
      destruct (before_attic_facts _ _ _ _ _ _ _ LI T NB) as (A1 & A2 & A3 & A4).
      assert (NOD : pget nsX d = None).
      { destruct d as [|x d'].
        - exfalso. destruct (li_ex _ _ _ LI X) as [k I].
          pose proof (tracker_match_none _ _ _ _ T I) as F. simpl in F. discriminate.
        - destruct (pget nsX (x :: d')) eqn:G; auto. apply pget_some_exists in G. congruence. }
      split.
      + constructor; simpl; try apply LI; auto.
        * intros p g H. destruct (A2 _ _ H) as (e' & s & E1 & E2 & E3).
          exists e', s. split; auto. rewrite pget_pdel_other; auto. intro. subst. congruence.
        * apply dinv_pdel; auto.
      + intros g [[p H]|H].
        * destruct (A4 _ _ H) as (g' & H' & GP). exists g'. split; auto. left. exists p. auto.
        * exists g. split; [right; auto|apply gpres_refl].
    - (* ---- moved to the attic *)
      destruct (before_attic_facts _ _ _ _ _ _ _ LI T NB) as (A1 & A2 & A3 & A4).
      set (k := N.of_nat (length (l_attic L))).
      set (moved := map (rebase_path d) (filter (under d) nsX)).
      destruct (li_attic_old _ _ _ LI) as (newa & EA1 & EA2 & EA3).
      split.
      + constructor; simpl.
        * intros p g H. rewrite pget_not_under in H. destruct (is_prefix d p); [discriminate|eauto].
        * intros p g H. rewrite pget_not_under in H. destruct (is_prefix d p) eqn:PD; [discriminate|].
          destruct (A2 _ _ H) as (e' & s & E1 & E2 & E3). exists e', s. split; auto.
          rewrite pget_pdel_other; auto. intro. subst. rewrite prefix_refl in PD. discriminate.
        * apply dinv_pdel; auto.
        * intros r k0 p I PR. rewrite pget_not_under. destruct (is_prefix d p) eqn:PD; auto.
          apply in_app_or in I. destruct I as [I|[I|[]]].
          -- eapply A3; eauto.
          -- inversion I. subst. congruence.
        * intros EX. destruct d as [|x d'].
          -- exists k. apply in_or_app. right. left. auto.
          -- destruct (li_ex _ _ _ LI EX) as [k0 I]. exists k0. apply in_or_app. auto.
        * exists (newa ++ [moved]). rewrite EA1. rewrite <- app_assoc. split; auto.
          rewrite !app_length. simpl. split; [lia|].
          rewrite map_app. simpl. rewrite EA3. rewrite Nat.add_1_r. rewrite seq_S. rewrite map_app. simpl.
          unfold k. rewrite EA1, app_length. auto.
        * intros r k0 a p g I NT PG. apply in_app_or in I. destruct I as [I|[I|[]]].
          -- rewrite nth_error_app_l in NT by (eapply tracker_index_lt; eauto).
             eapply (li_attic_new _ _ _ LI); eauto.
          -- inversion I. subst r k0. unfold k in NT. rewrite Nat2N.id in NT.
             rewrite nth_error_app2 in NT by lia. rewrite Nat.sub_diag in NT. simpl in NT. inversion NT. subst a.
             unfold moved in PG. rewrite pget_rebased in PG.
             split; [eauto|].
             destruct (A2 _ _ PG) as (e' & s & E1 & E2 & E3). exists e', s. split; auto.
             destruct p as [|y p'].
             ++ rewrite app_nil_r in *. rewrite HD in E1. inversion E1. subst. auto.
             ++ destruct (di_keys _ _ _ DI _ _ E1) as [ID|IR].
                ** exfalso. apply in_map_iff in ID. destruct ID as [[d0 e0] [E0 ID]]. simpl in E0. subst d0.
                   pose proof (SRT _ ID) as LE. simpl in LE.
                   assert (d ++ y :: p' = d).
                   { apply path_leb_antisym; auto. apply prefix_leb. apply prefix_app. }
                   rewrite <- (app_nil_r d) in H at 2. apply app_inv_head in H. discriminate.
                ** simpl in IR. destruct IR as [IR|IR].
                   --- exfalso. rewrite <- (app_nil_r d) in IR at 1. apply app_inv_head in IR. discriminate.
                   --- apply in_map_iff in IR. destruct IR as [[d0 e0] [E0 IR]]. simpl in E0. subst d0.
                       pose proof (di_rest _ _ _ DI _ _ (or_intror IR)) as G. rewrite G in E1. inversion E1. subst e0.
                       apply SUB. right. auto.
        * intros x I. apply in_app_or in I. destruct I as [I|[I|[]]].
          -- destruct (li_astate _ _ _ LI _ I) as [O|(r & k0 & d0 & e0 & E0 & I0 & J0 & P0)]; auto.
             right. exists r, k0, d0, e0. repeat split; auto. apply in_or_app. auto.
          -- right. exists d, k, d, e. rewrite skipn_self. repeat split; auto.
             ++ apply in_or_app. right. left. auto.
             ++ apply prefix_refl.
        * intros x I. apply in_or_app. left. apply (li_astate_mono _ _ _ LI). auto.
      + intros g [[p H]|[a [IA H]]].
        * destruct (A4 _ _ H) as (g' & H' & GP). exists g'. split; auto.
          destruct (is_prefix d p) eqn:PD.
          -- right. exists moved. simpl. split; [apply in_or_app; right; left; auto|].
             exists (skipn (length d) p). unfold moved. rewrite pget_rebased. rewrite <- prefix_app_skipn; auto.
          -- left. exists p. simpl. rewrite pget_not_under. rewrite PD. auto.
        * exists g. split; [|apply gpres_refl]. right. exists a. simpl. split; auto. apply in_or_app. auto.
  Qed.

  Lemma lpres_trans : forall A B C, lpres A B -> lpres B C -> lpres A C.
  Proof.
    intros A B C H1 H2 g G. destruct (H1 g G) as (g1 & G1 & P1). destruct (H2 g1 G1) as (g2 & G2 & P2).
    exists g2. split; auto. eapply gpres_trans; eauto.
  Qed.

  Lemma linv_fold : forall rest done L,
    linv L done rest ->
    StronglySorted key_leb (done ++ rest) -> NoDup (map fst (done ++ rest)) ->
    (forall x, In x rest -> In x ds1) ->
    linv (fold_left (loop_step st up newmap) rest L) (done ++ rest) [] /\
    lpres L (fold_left (loop_step st up newmap) rest L).
  Proof.
    induction rest as [|[d e] rest IH]; intros done L LI S ND SUB; simpl.
    - rewrite app_nil_r. split; auto. apply lpres_refl.
    - assert (SRT : forall x, In x done -> path_leb (fst x) d = true).
      { intros x I. clear - S I.
        induction done as [|y done IHd]; simpl in *; [contradiction|].
        inversion S; subst. destruct I as [->|I]; auto.
        rewrite Forall_forall in H2. apply (H2 (d, e)). apply in_or_app. right. left. auto. }
      assert (NDd : ~ In d (map fst done) /\ ~ In d (map fst rest)).
      { clear - ND. rewrite map_app in ND. simpl in ND. apply NoDup_remove_2 in ND.
        split; intro I; apply ND; apply in_or_app; auto. }
      destruct NDd as [NDd NDr].
      destruct (linv_step _ _ _ _ _ LI SRT NDd NDr SUB) as [LI' LP].
      replace (done ++ (d, e) :: rest) with ((done ++ [(d, e)]) ++ rest) in * by (rewrite <- app_assoc; auto).
      destruct (IH _ _ LI' S ND (fun x I => SUB x (or_intror I))) as [LI'' LP'].
      split; auto. eapply lpres_trans; eauto.
  Qed.
End Loop.

(* ------------------------------------------------------------------ *)
(* invariant of a source workspace between Bob runs                    *)

Definition attic_key_git (astate : list ((N * path) * option scm)) (k : nat) (p : path) : Prop :=
  (exists os, In ((N.of_nat k, p), os) astate) /\
  (forall os, In ((N.of_nat k, p), os) astate -> os = None \/ exists s, os = Some s /\ is_git s = true).

Record winv (st : store) (w : wstate) : Prop := mkWI {
  wi_ginv : forall p g, pget (w_nodes w) p = Some (NGit g) -> ginv st g;
  wi_rec : forall p g, pget (w_nodes w) p = Some (NGit g) ->
           exists e s, pget (w_ds w) p = Some e /\ de_spec e = Some s /\ is_git s = true;
  wi_ent : forall p e, pget (w_ds w) p = Some e ->
           exists s, de_spec e = Some s /\ scm_ok st s /\ de_dig e = Some (digest s);
  wi_nodup : NoDup (map fst (w_ds w));
  wi_gone : w_exists w = false -> forall p, pget (w_nodes w) p = None;
  wi_attic : forall k a p g, nth_error (w_attic w) k = Some a -> pget a p = Some (NGit g) ->
             ginv st g /\ attic_key_git (w_astate w) k p;
  wi_aidx : forall k p os, In ((k, p), os) (w_astate w) -> (N.to_nat k < length (w_attic w))%nat
}.

Definition wpres (st : store) (w w' : wstate) : Prop :=
  forall g, git_in_w w g -> exists g', git_in_w w' g' /\ gpres st g g'.

Lemma wpres_refl : forall st w, wpres st w w.
Proof. intros st w g H. exists g. split; auto. apply gpres_refl. Qed.

Lemma wpres_trans : forall st a b c, wpres st a b -> wpres st b c -> wpres st a c.
Proof.
  intros st a b c H1 H2 g G. destruct (H1 g G) as (g1 & G1 & P1). destruct (H2 g1 G1) as (g2 & G2 & P2).
  exists g2. split; auto. eapply gpres_trans; eauto.
Qed.

Lemma wpres_holds : forall st w w' o, wpres st w w' -> holds_w st w o -> holds_w st w' o.
Proof.
  intros st w w' o P (g & G & H). destruct (P g G) as (g' & G' & GP). exists g'. split; auto.
Qed.

Lemma winv_empty : forall st, winv st w_empty.
Proof.
  intro st. constructor; simpl; intros; try discriminate; try contradiction; auto.
  - constructor.
  - destruct k; discriminate.
Qed.

(* what the loop leaves behind *)
Lemma skipn_app_self : forall A (a b : list A), skipn (length a) (a ++ b) = b.
Proof. induction a; simpl; auto. Qed.

Lemma seq_snd_nodup : forall (tr : list (path * N)) n0 m,
  map snd tr = map N.of_nat (seq n0 m) ->
  forall r1 r2 k, In (r1, k) tr -> In (r2, k) tr -> r1 = r2.
Proof.
  induction tr as [|[r k0] tr IH]; intros n0 m E r1 r2 k I1 I2; [contradiction|].
  destruct m as [|m]; [discriminate|]. simpl in E. inversion E as [[E1 E2]].
  assert (FRESH : forall r', In (r', k0) tr -> False).
  { intros r' I. assert (In k0 (map snd tr)) by (apply in_map_iff; exists (r', k0); auto).
    rewrite E2 in H. apply in_map_iff in H. destruct H as (i & Ei & Hi). apply in_seq in Hi.
    rewrite E1 in Ei. apply Nat2N.inj in Ei. lia. }
  destruct I1 as [I1|I1]; destruct I2 as [I2|I2].
  - congruence.
  - inversion I1 as [[J1 J2]]. rewrite <- J2 in I2. exfalso. eauto.
  - inversion I2 as [[J1 J2]]. rewrite <- J2 in I1. exfalso. eauto.
  - eapply IH; eauto.
Qed.

Lemma loop_end_attic : forall st newmap ds1 attic0 astate0 L done,
  linv st newmap ds1 attic0 astate0 L done [] -> tinv L done ->
  NoDup (map fst ds1) -> (forall x, In x done <-> In x ds1) ->
  (forall k a p g, nth_error attic0 k = Some a -> pget a p = Some (NGit g) ->
                   ginv st g /\ attic_key_git astate0 k p) ->
  (forall k p os, In ((k, p), os) astate0 -> (N.to_nat k < length attic0)%nat) ->
  (forall k a p g, nth_error (l_attic L) k = Some a -> pget a p = Some (NGit g) ->
                   ginv st g /\ attic_key_git (l_astate L) k p) /\
  (forall k p os, In ((k, p), os) (l_astate L) -> (N.to_nat k < length (l_attic L))%nat).
Proof.
  intros st newmap ds1 attic0 astate0 L done LI TI ND DONE OLD IDX.
  destruct (li_attic_old _ _ _ _ _ _ _ _ LI) as (newa & EA1 & EA2 & EA3).
  assert (TIDX : forall r k, In (r, k) (l_tracker L) ->
            (length attic0 <= N.to_nat k < length (l_attic L))%nat).
  { intros r k I. assert (In k (map snd (l_tracker L))) by (apply in_map_iff; exists (r, k); auto).
    rewrite EA3 in H. apply in_map_iff in H. destruct H as (i & E & Hi). apply in_seq in Hi.
    subst k. rewrite Nat2N.id. rewrite EA1, app_length. lia. }
  assert (NEWIDX : forall x, In x (l_astate L) -> In x astate0 \/
            exists r k d e, x = ((k, skipn (length r) d), de_spec e) /\ In (r, k) (l_tracker L) /\
                            In (d, e) ds1 /\ is_prefix r d = true) by (apply (li_astate _ _ _ _ _ _ _ _ LI)).
  split.
  - intros k a p g NT PG.
    destruct (Nat.lt_ge_cases k (length attic0)) as [LT|GE].
    + (* an attic directory of an earlier run *)
      rewrite EA1 in NT. rewrite nth_error_app1 in NT by auto.
      destruct (OLD _ _ _ _ NT PG) as [GI [[os IO] ALL]]. split; auto. split.
      * exists os. apply (li_astate_mono _ _ _ _ _ _ _ _ LI). auto.
      * intros os' I'. destruct (NEWIDX _ I') as [O|(r & k' & d & e & E & IT & ID & PR)]; auto.
        inversion E. subst k'. destruct (TIDX _ _ IT). rewrite Nat2N.id in *. lia.
    + (* moved in this run: index k belongs to one tracked root r *)
      assert (exists r, In (r, N.of_nat k) (l_tracker L)) as [r IT].
      { assert (In (N.of_nat k) (map snd (l_tracker L))).
        { rewrite EA3. apply in_map. apply in_seq. split; auto.
          assert (k < length (l_attic L))%nat by (apply nth_error_Some; congruence).
          rewrite EA1, app_length in H. lia. }
        apply in_map_iff in H. destruct H as [[r k'] [E I]]. simpl in E. subst. eauto. }
      assert (NT' : nth_error (l_attic L) (N.to_nat (N.of_nat k)) = Some a) by (rewrite Nat2N.id; auto).
      destruct (li_attic_new _ _ _ _ _ _ _ _ LI _ _ _ _ _ IT NT' PG) as [GI (e & s & IE & SP & GS)].
      split; auto. split.
      * exists (de_spec e).
        destruct (ti_homed _ _ TI r (N.of_nat k) (r ++ p) e IT) as [_ H].
        -- apply DONE. auto.
        -- apply prefix_app.
        -- rewrite skipn_app_self in H. auto.
      * intros os' I'. destruct (NEWIDX _ I') as [O|(r' & k' & d & e' & E & IT' & ID & PR)].
        -- exfalso. apply IDX in O. rewrite Nat2N.id in O. lia.
        -- inversion E. subst k'.
           assert (r' = r) by (eapply seq_snd_nodup; eauto). subst r'.
           assert (d = r ++ p).
           { rewrite (prefix_app_skipn _ _ PR). f_equal. auto. }
           subst d.
           assert (e' = e).
           { pose proof (In_pget_nodup _ _ _ _ ND ID) as G1. pose proof (In_pget_nodup _ _ _ _ ND IE) as G2. congruence. }
           subst. right. exists s. auto.
  - intros k p os I. destruct (NEWIDX _ I) as [O|(r & k' & d & e & E & IT & ID & PR)].
    + apply IDX in O. rewrite EA1, app_length. lia.
    + inversion E. subst. apply (TIDX _ _ IT).
Qed.

(* ------------------------------------------------------------------ *)
(* recipe validation (input.py) and what it gives                      *)

Definition spec_rel (x y : scm) : Prop :=
  is_prefix (scm_dir y) (scm_dir x) = false /\
  (is_prefix (scm_dir x) (scm_dir y) && is_git y && negb (is_git x)) = false.

Lemma spec_ok_from_pairs : forall l known,
  spec_ok_from known l = true ->
  (forall s kn, In s l -> In kn known ->
     is_prefix (scm_dir s) (fst kn) = false /\ (is_prefix (fst kn) (scm_dir s) && is_git s && negb (snd kn)) = false) /\
  ForallOrdPairs spec_rel l.
Proof.
  induction l as [|s l IH]; intros known H; simpl in H.
  - split; [intros; contradiction|constructor].
  - apply andb_true_iff in H. destruct H as [H1 H2]. rewrite forallb_forall in H1.
    destruct (IH _ H2) as [K1 K2]. split.
    + intros s0 kn [->|I] IK.
      * specialize (H1 _ IK). apply andb_true_iff in H1. destruct H1 as [A B].
        apply negb_true_iff in A. apply negb_true_iff in B. auto.
      * apply K1; auto. apply in_or_app. auto.
    + constructor; auto. rewrite Forall_forall. intros y I.
      destruct (K1 y (scm_dir s, is_git s) I) as [A B]; [apply in_or_app; right; left; auto|].
      simpl in *. split; auto.
Qed.

Lemma spec_ok_rel : forall spec s s', spec_ok spec = true -> In s spec -> In s' spec ->
  s = s' \/ spec_rel s s' \/ spec_rel s' s.
Proof.
  intros spec s s' H I I'. destruct (spec_ok_from_pairs _ _ H) as [_ P].
  apply (ForallOrdPairs_In P); auto.
Qed.

Lemma spec_ok_no_git_below : forall spec s s', spec_ok spec = true -> In s spec -> In s' spec ->
  is_git s = false -> is_git s' = true -> is_prefix (scm_dir s) (scm_dir s') = false.
Proof.
  intros spec s s' H I I' G G'. destruct (spec_ok_rel _ _ _ H I I') as [E|[[A B]|[A B]]].
  - subst. congruence.
  - rewrite G, G' in B. simpl in B. rewrite andb_true_r in B. rewrite andb_true_r in B. auto.
  - auto.
Qed.

Lemma spec_ok_dirs_nodup : forall spec, spec_ok spec = true -> NoDup (map scm_dir spec).
Proof.
  intros spec H. destruct (spec_ok_from_pairs _ _ H) as [_ P]. clear H.
  induction P as [|s l F P IH]; simpl; constructor; auto.
  intro I. apply in_map_iff in I. destruct I as [s' [E I]]. rewrite Forall_forall in F.
  destruct (F _ I) as [A _]. rewrite E in A. rewrite prefix_refl in A. discriminate.
Qed.

Lemma pget_spec_map : forall spec s, NoDup (map scm_dir spec) -> In s spec ->
  pget (spec_map spec) (scm_dir s) = Some s.
Proof.
  intros spec s ND I. apply In_pget_nodup.
  - unfold spec_map. rewrite map_map. simpl. auto.
  - unfold spec_map. apply in_map_iff. exists s. auto.
Qed.

Lemma pget_spec_map_inv : forall spec p s, pget (spec_map spec) p = Some s -> In s spec /\ scm_dir s = p.
Proof.
  intros spec p s H. apply pget_In in H. unfold spec_map in H. apply in_map_iff in H.
  destruct H as [s' [E I]]. inversion E. subst. auto.
Qed.

Lemma pget_new_ds : forall spec p,
  pget (new_ds spec) p = match pget (spec_map spec) p with
                         | Some s => Some (mkDE (Some (digest s)) (Some s))
                         | None => None
                         end.
Proof.
  induction spec as [|s spec IH]; intros p; simpl; auto.
  unfold pget in *. simpl. destruct (path_eqb (scm_dir s) p); auto.
Qed.

(* ------------------------------------------------------------------ *)
(* running the SCMs: every git node is (and stays) one of the recipe's git SCMs *)

Section Invoke.
  Variable st : store.
  Variable up : upstream.
  Variable spec : list scm.
  Hypothesis W : store_wf st.
  Hypothesis UO : up_ok' st up.
  Hypothesis SOK : spec_ok spec = true.
  Hypothesis SCMOK : forall s, In s spec -> scm_ok st s.

  Definition jinv (ns : nodes) : Prop :=
    forall p g, pget ns p = Some (NGit g) ->
      ginv st g /\ exists s, pget (spec_map spec) p = Some s /\ is_git s = true.

  Definition npres (ns ns' : nodes) : Prop :=
    forall p g, pget ns p = Some (NGit g) -> exists g', pget ns' p = Some (NGit g') /\ gpres st g g'.

  Lemma npres_refl : forall ns, npres ns ns.
  Proof. intros ns p g H. exists g. split; auto. apply gpres_refl. Qed.

  Lemma npres_trans : forall a b c, npres a b -> npres b c -> npres a c.
  Proof.
    intros a b c H1 H2 p g G. destruct (H1 p g G) as (g1 & G1 & P1). destruct (H2 p g1 G1) as (g2 & G2 & P2).
    exists g2. split; auto. eapply gpres_trans; eauto.
  Qed.

  Lemma ginv_init : forall u f, ginv st (g_init u f).
  Proof. intros. repeat split; simpl; intros; try contradiction; constructor. Qed.

  (* a non-git SCM of the recipe never sits on or above a git node *)
  Lemma nongit_not_above : forall ns s p g, jinv ns -> In s spec -> is_git s = false ->
    pget ns p = Some (NGit g) -> is_prefix (scm_dir s) p = false.
  Proof.
    intros ns s p g J I G H. destruct (J _ _ H) as [_ (s' & NM & GS)].
    destruct (pget_spec_map_inv _ _ _ NM) as [I' D]. rewrite <- D.
    eapply spec_ok_no_git_below; eauto.
  Qed.

  Lemma put_plain_pres : forall ns d n, jinv ns ->
    (forall g, n <> NGit g) -> (forall g, pget ns d <> Some (NGit g)) ->
    jinv (put_node ns d n) /\ npres ns (put_node ns d n).
  Proof.
    intros ns d n J NG ND. split.
    - intros p g H. apply put_node_git in H. destruct H as [[_ E]|[_ H]].
      + exfalso. eapply NG; eauto.
      + apply J. auto.
    - intros p g H. exists g. split; [|apply gpres_refl].
      destruct (list_eq_dec N.eq_dec p d) as [->|NE].
      + exfalso. eapply ND; eauto.
      + apply put_node_keeps; auto.
  Qed.

  Lemma node_with_files_plain : forall n f, (forall g, n <> NGit g) -> forall g, node_with_files n f <> NGit g.
  Proof. intros n f H g. destruct n; simpl; [exfalso; eapply H; eauto|discriminate]. Qed.

  Lemma invoke_scm_pres : forall ns s ns' ok,
    jinv ns -> In s spec -> invoke_scm st up ns s = (ns', ok) ->
    jinv ns' /\ npres ns ns'.
  Proof.
    intros ns s ns' ok J I H.
    pose proof (spec_ok_dirs_nodup _ SOK) as NDS.
    destruct s as [u r d|u dig d|src prune d]; simpl in H.
    - (* git *)
      set (g := match pget ns d with Some (NGit g) => g | Some (NPlain f) => g_init u f | None => g_init u [] end) in *.
      destruct (git_invoke st up g u r false) as [g' ok'] eqn:GI. inversion H; subst. clear H.
      assert (GINV : ginv st g).
      { unfold g. destruct (pget ns d) as [[g0|f]|] eqn:P; try apply ginv_init. apply (J _ _ P). }
      destruct (git_invoke_pres _ _ _ _ _ _ _ _ W UO GINV (fun E => False_ind _ (Bool.diff_false_true E)) GI) as [GP GI'].
      split.
      + intros p x H. apply put_node_git in H. destruct H as [[-> E]|[_ H]].
        * inversion E. subst x. split; auto. exists (SGit u r d). split; auto.
          apply (pget_spec_map spec (SGit u r d) NDS I).
        * apply J. auto.
      + intros p x H. destruct (list_eq_dec N.eq_dec p d) as [->|NE].
        * exists g'. split; [apply pget_put_node_same|]. unfold g in GP. rewrite H in GP. auto.
        * exists x. split; [apply put_node_keeps; auto|apply gpres_refl].
    - (* url *)
      assert (NG : forall g, pget ns d <> Some (NGit g)).
      { intros g P. pose proof (nongit_not_above ns (SUrl u dig d) d g J I eq_refl P) as F.
        simpl in F. rewrite prefix_refl in F. discriminate. }
      set (n := match pget ns d with Some n => n | None => NPlain [] end) in *.
      assert (NP : forall g, n <> NGit g).
      { intros g E. unfold n in E. destruct (pget ns d) eqn:P; [subst; eapply NG; eauto|discriminate]. }
      match type of H with (match ?f with _ => _ end) = _ => destruct f as [files'|] end.
      + inversion H; subst. apply put_plain_pres; auto. apply node_with_files_plain. auto.
      + inversion H; subst. apply put_plain_pres; auto.
    - (* import *)
      assert (NG : forall p g, pget ns p = Some (NGit g) -> is_prefix d p = false).
      { intros p g P. apply (nongit_not_above ns (SImport src prune d) p g J I eq_refl P). }
      set (n := match pget ns d with Some n => n | None => NPlain [] end) in *.
      assert (NP : forall g, n <> NGit g).
      { intros g E. unfold n in E. destruct (pget ns d) eqn:P; [|discriminate]. subst.
        pose proof (NG _ _ P) as F. rewrite prefix_refl in F. discriminate. }
      set (ns1 := if prune then filter (fun pn => negb (strict_prefix d (fst pn))) ns else ns) in *.
      set (n1 := if prune then NPlain [] else n) in *.
      assert (G1 : forall p, pget ns1 p = if prune && strict_prefix d p then None else pget ns p).
      { intro p. unfold ns1. destruct prune; simpl; auto. unfold pget.
        rewrite (kget_filter_key path_eqb path_eqb_spec (fun q => negb (strict_prefix d q)) ns p).
        destruct (strict_prefix d p); auto. }
      assert (J1 : jinv ns1).
      { intros p g P. rewrite G1 in P. destruct (prune && strict_prefix d p); [discriminate|]. apply J. auto. }
      assert (P1 : npres ns ns1).
      { intros p g P. exists g. split; [|apply gpres_refl]. rewrite G1.
        unfold strict_prefix. rewrite (NG _ _ P). simpl. rewrite andb_false_r. auto. }
      assert (NG1 : forall g, pget ns1 d <> Some (NGit g)).
      { intros g P. rewrite G1 in P. destruct (prune && strict_prefix d d); [discriminate|].
        pose proof (NG _ _ P) as F. rewrite prefix_refl in F. discriminate. }
      assert (NP1 : forall g, n1 <> NGit g).
      { intros g. unfold n1. destruct prune; [discriminate|apply NP]. }
      destruct (aget (up_imp up) src) as [srcf|]; inversion H; subst.
      + destruct (put_plain_pres ns1 d (node_with_files n1
                    (fold_left (fun acc fb => aset acc (fst fb) (snd fb)) srcf (node_files n1))) J1
                    (node_with_files_plain _ _ NP1) NG1) as [A B].
        split; auto. eapply npres_trans; eauto.
      + destruct (put_plain_pres ns1 d n1 J1 NP1 NG1) as [A B].
        split; auto. eapply npres_trans; eauto.
  Qed.

  Lemma invoke_all_pres : forall l ns ns' ok,
    jinv ns -> (forall s, In s l -> In s spec) -> invoke_all st up ns l = (ns', ok) ->
    jinv ns' /\ npres ns ns'.
  Proof.
    induction l as [|s l IH]; intros ns ns' ok J SUB H; simpl in H.
    - inversion H; subst. split; auto. apply npres_refl.
    - destruct (invoke_scm st up ns s) as [ns1 ok1] eqn:E.
      destruct (invoke_scm_pres _ _ _ _ J (SUB s (or_introl eq_refl)) E) as [J1 P1].
      destruct ok1.
      + destruct (IH _ _ _ J1 (fun x I => SUB x (or_intror I)) H) as [J2 P2].
        split; auto. eapply npres_trans; eauto.
      + inversion H; subst. auto.
  Qed.
End Invoke.

(* ------------------------------------------------------------------ *)
(* _cookCheckoutStep keeps the workspace invariant and every user object *)

Lemma invalidate_facts : forall st ns newmap ds0,
  map fst (map (invalidate_dirty st ns newmap) ds0) = map fst ds0 /\
  forall p e1, pget (map (invalidate_dirty st ns newmap) ds0) p = Some e1 ->
    exists e0, pget ds0 p = Some e0 /\ de_spec e1 = de_spec e0 /\
               (de_dig e1 = de_dig e0 \/ (de_dig e1 = None /\ pget newmap p <> None)).
Proof.
  intros st ns newmap ds0. induction ds0 as [|[d e] l [IH1 IH2]]; simpl.
  - split; auto. intros. discriminate.
  - assert (F : fst (invalidate_dirty st ns newmap (d, e)) = d).
    { unfold invalidate_dirty. simpl. destruct (pget newmap d); auto.
      match goal with |- fst (if ?c then _ else _) = _ => destruct c end; auto. }
    split.
    + rewrite F, IH1. auto.
    + intros p e1 H. unfold pget in *. simpl in H.
      destruct (invalidate_dirty st ns newmap (d, e)) as [d' e'] eqn:INV. simpl in F. subst d'. simpl in H.
      destruct (path_eqb d p) eqn:Q.
      * inversion H. subst e'. apply path_eqb_spec in Q. subst p. exists e.
        split; [simpl; rewrite (proj2 (path_eqb_spec d d) eq_refl); auto|].
        unfold invalidate_dirty in INV. simpl in INV.
        destruct (kget path_eqb newmap d) as [s|] eqn:NM.
        -- unfold pget in INV. rewrite NM in INV.
           match type of INV with (if ?c then _ else _) = _ => destruct c end; inversion INV; subst; simpl; auto.
           split; auto. right. split; auto. congruence.
        -- unfold pget in INV. rewrite NM in INV. inversion INV. subst. auto.
      * simpl. rewrite Q. apply IH2. auto.
Qed.

Lemma linv_init : forall st newmap ds1 (w : wstate),
  winv st w ->
  NoDup (map fst ds1) ->
  (forall p e1, pget ds1 p = Some e1 ->
     exists e0, pget (w_ds w) p = Some e0 /\ de_spec e1 = de_spec e0 /\
                (de_dig e1 = de_dig e0 \/ (de_dig e1 = None /\ pget newmap p <> None))) ->
  (forall p g, pget (w_nodes w) p = Some (NGit g) -> exists e s, pget ds1 p = Some e /\ de_spec e = Some s /\ is_git s = true) ->
  linv st newmap ds1 (w_attic w) (w_astate w)
       (mkL true (w_nodes w) ds1 (w_attic w) (w_astate w) [] []) [] (sort_paths ds1).
Proof.
  intros st newmap ds1 w WI ND ENT REC. constructor; simpl.
  - apply (wi_ginv _ _ WI).
  - exact REC.
  - constructor.
    + intros p e H. destruct (ENT _ _ H) as (e0 & H0 & S & D).
      destruct (wi_ent _ _ WI _ _ H0) as (s & S0 & OK & DG). exists s. rewrite S. repeat split; auto.
      destruct D as [D|D]; [left; congruence|right; auto].
    + intros p e I. contradiction.
    + intros p e H. right. apply pget_In_fst in H.
      eapply Permutation_in; [apply Permutation_sym; apply sort_paths_keys_perm|]. auto.
    + intros d e I. apply (proj1 (sort_paths_In _ ds1 (d, e))) in I. apply In_pget_nodup; auto.
    + exact ND.
  - intros r k p I. contradiction.
  - discriminate.
  - exists []. rewrite app_nil_r. auto.
  - intros r k a p g I. contradiction.
  - intros x I. auto.
  - auto.
Qed.

(* after the loop every remaining entry carries the digest of the new recipe *)
Lemma loop_end_ent : forall st newmap ds1 attic0 astate0 L done p e,
  linv st newmap ds1 attic0 astate0 L done [] -> pget (l_ds L) p = Some e ->
  exists s, de_spec e = Some s /\ scm_ok st s /\ de_dig e = Some (digest s) /\ de_dig e = newd newmap p.
Proof.
  intros st newmap ds1 attic0 astate0 L done p e LI H.
  pose proof (li_d _ _ _ _ _ _ _ _ LI) as DI.
  destruct (di_ent _ _ _ _ _ DI _ _ H) as (s & S & OK & D).
  assert (ID : In p (map fst done)).
  { destruct (di_keys _ _ _ _ _ DI _ _ H) as [I|I]; auto. contradiction. }
  pose proof (di_settled _ _ _ _ _ DI _ _ ID H) as Q. apply odg_eqb_eq in Q.
  exists s. repeat split; auto.
  destruct D as [D|[D1 D2]]; auto. exfalso. rewrite D1 in Q. unfold newd in Q.
  destruct (pget newmap p); [discriminate|]. apply D2. auto.
Qed.

Lemma cook_pres : forall st up cc spec w w' o,
  store_wf st -> up_ok' st up -> spec_ok spec = true -> (forall s, In s spec -> scm_ok st s) ->
  winv st w -> cook st up cc spec w = (w', o) ->
  winv st w' /\ wpres st w w'.
Proof.
  intros st up cc spec w w' o W UO SOK SCMOK WI H. unfold cook in H.
  set (created := negb (w_exists w)) in *.
  set (ds0 := if created then [] else w_ds w) in *.
  set (vid0 := if created then None else w_vid w) in *.
  set (newmap := spec_map spec) in *.
  set (ds1 := if cc then map (invalidate_dirty st (w_nodes w) newmap) ds0 else ds0) in *.
  match type of H with (if negb ?r then _ else _) = _ => destruct r eqn:REASON end; cbn [negb] in H.
  2:{ (* skipped *)
    inversion H; subst. clear H.
    assert (created = false).
    { destruct created; auto; try (simpl in REASON; discriminate). }
    unfold ds0, vid0. rewrite H. split.
    - destruct WI. constructor; simpl; auto. discriminate.
    - intros g G. exists g. split; [exact G|apply gpres_refl]. }
  assert (NEWOK : forall d s, pget newmap d = Some s -> scm_ok st s).
  { intros d s NM. apply SCMOK. apply (pget_spec_map_inv _ _ _ NM). }
  (* facts about the (possibly invalidated) old state *)
  assert (DS0 : (forall p e, pget ds0 p = Some e -> pget (w_ds w) p = Some e) /\ NoDup (map fst ds0) /\
                (forall p g, pget (w_nodes w) p = Some (NGit g) ->
                   exists e s, pget ds0 p = Some e /\ de_spec e = Some s /\ is_git s = true)).
  { unfold ds0. destruct created eqn:C.
    - split; [intros; discriminate|]. split; [constructor|].
      intros p g P. unfold created in C. apply negb_true_iff in C.
      rewrite (wi_gone _ _ WI C p) in P. discriminate.
    - split; auto. split; [apply (wi_nodup _ _ WI)|apply (wi_rec _ _ WI)]. }
  destruct DS0 as (DS0a & DS0b & DS0c).
  assert (DS1 : NoDup (map fst ds1) /\
                (forall p e1, pget ds1 p = Some e1 ->
                   exists e0, pget (w_ds w) p = Some e0 /\ de_spec e1 = de_spec e0 /\
                              (de_dig e1 = de_dig e0 \/ (de_dig e1 = None /\ pget newmap p <> None))) /\
                (forall p g, pget (w_nodes w) p = Some (NGit g) ->
                   exists e s, pget ds1 p = Some e /\ de_spec e = Some s /\ is_git s = true)).
  { unfold ds1. destruct cc.
    - destruct (invalidate_facts st (w_nodes w) newmap ds0) as [F1 F2]. split; [rewrite F1; auto|]. split.
      + intros p e1 P. destruct (F2 _ _ P) as (e0 & P0 & S & D). exists e0. split; auto.
      + intros p g P. destruct (DS0c _ _ P) as (e & s & P0 & S & G).
        assert (exists e1, pget (map (invalidate_dirty st (w_nodes w) newmap) ds0) p = Some e1) as [e1 P1].
        { assert (In p (map fst (map (invalidate_dirty st (w_nodes w) newmap) ds0))).
          { rewrite F1. eapply pget_In_fst; eauto. }
          apply in_map_iff in H0. destruct H0 as [[p' e1] [E I]]. simpl in E. subst p'.
          exists e1. apply In_pget_nodup; auto. rewrite F1. auto. }
        destruct (F2 _ _ P1) as (e0 & P0' & S' & _). rewrite P0 in P0'. inversion P0'. subst e0.
        exists e1, s. rewrite S'. auto.
    - split; auto. split; auto.
      intros p e1 P. exists e1. split; auto. }
  destruct DS1 as (DS1a & DS1b & DS1c).
  set (L0 := mkL true (w_nodes w) ds1 (w_attic w) (w_astate w) [] []) in *.
  pose proof (linv_init st newmap ds1 w WI DS1a DS1b DS1c) as LI0. fold L0 in LI0.
  set (L := fold_left (loop_step st up newmap) (sort_paths ds1) L0) in *.
  destruct (linv_fold st up newmap W UO NEWOK ds1 (w_attic w) (w_astate w) (sort_paths ds1) [] L0 LI0
              (sort_paths_sorted _ ds1) (sort_paths_nodup _ ds1 DS1a)
              (fun x I => proj1 (sort_paths_In _ ds1 x) I)) as [LI LP].
  fold L in LI, LP. simpl in LI.
  assert (TI : tinv L (sort_paths ds1)).
  { apply (tinv_fold st up newmap (sort_paths ds1) [] L0).
    - constructor; simpl; intros; contradiction.
    - apply sort_paths_sorted.
    - apply sort_paths_nodup. auto. }
  destruct (loop_end_attic st newmap ds1 (w_attic w) (w_astate w) L (sort_paths ds1) LI TI DS1a
              (sort_paths_In _ ds1) (wi_attic _ _ WI) (wi_aidx _ _ WI)) as [ATT AIDX].
  assert (WP0 : forall g, git_in_w w g -> exists g', git_in_L L g' /\ gpres st g g').
  { intros g G. apply LP. exact G. }
  match type of H with (if ?c then _ else _) = _ => destruct c eqn:COLL end.
  - (* collision *)
    inversion H; subst. clear H. split.
    + constructor; simpl; auto.
      * apply (li_ginv _ _ _ _ _ _ _ _ LI).
      * apply (li_rec _ _ _ _ _ _ _ _ LI).
      * intros p e P. destruct (loop_end_ent _ _ _ _ _ _ _ _ _ LI P) as (s & S & OK & D & _). eauto.
      * apply (di_nodup _ _ _ _ _ (li_d _ _ _ _ _ _ _ _ LI)).
      * intros EX p. destruct (li_ex _ _ _ _ _ _ _ _ LI EX) as [k I].
        eapply (li_clear _ _ _ _ _ _ _ _ LI); eauto.
    + intros g G. destruct (WP0 g G) as (g' & G' & GP). exists g'. split; auto.
  - (* the SCMs run *)
    destruct (invoke_all st up (l_nodes L) spec) as [ns2 ok] eqn:INV. inversion H; subst. clear H.
    assert (J : jinv st spec (l_nodes L)).
    { intros p g P. split; [apply (li_ginv _ _ _ _ _ _ _ _ LI _ _ P)|].
      destruct (li_rec _ _ _ _ _ _ _ _ LI _ _ P) as (e & s & PE & S & G).
      destruct (loop_end_ent _ _ _ _ _ _ _ _ _ LI PE) as (s' & S' & _ & D & DN).
      rewrite S in S'. inversion S'. subst s'. rewrite D in DN. unfold newd in DN. fold newmap.
      destruct (pget newmap p) as [sn|]; [|discriminate]. exists sn. split; auto.
      inversion DN as [DD]. rewrite <- (digest_kind _ _ DD). auto. }
    destruct (invoke_all_pres st up spec W UO SOK spec _ _ _ J (fun s I => I) INV) as [J2 NP].
    pose proof (spec_ok_dirs_nodup _ SOK) as NDS.
    split.
    + constructor; simpl; auto.
      * intros p g P. apply (J2 _ _ P).
      * intros p g P. destruct (J2 _ _ P) as [_ (s & NM & G)].
        rewrite pget_new_ds. rewrite NM. eexists. exists s. split; [reflexivity|]. simpl. auto.
      * intros p e P. rewrite pget_new_ds in P. destruct (pget (spec_map spec) p) as [s|] eqn:NM; [|discriminate].
        inversion P. subst e. exists s. simpl. repeat split; auto. apply SCMOK. apply (pget_spec_map_inv _ _ _ NM).
      * unfold new_ds. rewrite map_map. simpl. exact NDS.
      * discriminate.
    + intros g G. destruct (WP0 g G) as (g1 & [[p P]|A] & GP).
      * destruct (NP _ _ P) as (g2 & P2 & GP2). exists g2. split.
        -- left. exists p. auto.
        -- eapply gpres_trans; eauto.
      * exists g1. split; auto. right. auto.
Qed.

(* ------------------------------------------------------------------ *)
(* bob clean -s / --attic keep the invariant and every user object     *)

Lemma winv_up_refs : forall st g, ginv st g -> up_refs st g.
Proof. intros st g [U _]. exact U. Qed.

Lemma clean_src_pres : forall st used w,
  store_wf st -> winv st w ->
  winv st (clean_src_one st used w) /\ (forall o, holds_w st w o -> holds_w st (clean_src_one st used w) o).
Proof.
  intros st used w W WI. unfold clean_src_one.
  destruct (negb used && w_exists w && all_expendable st w) eqn:C; [|split; auto].
  apply andb_true_iff in C. destruct C as [_ A]. unfold all_expendable in A. rewrite forallb_forall in A.
  split.
  - destruct WI. constructor; simpl; auto; try (intros; discriminate). constructor.
  - intros o (g & [[p P]|G] & H).
    + exfalso. destruct (wi_rec _ _ WI _ _ P) as (e & s & PE & S & GS).
      specialize (A _ (pget_In _ _ _ _ PE)). simpl in A. unfold entry_expendable in A. rewrite S in A.
      destruct s as [u r d|? ? ?|? ? ?]; try discriminate. simpl in A. rewrite P in A.
      eapply expendable_no_user_objects; eauto. apply winv_up_refs. apply (wi_ginv _ _ WI _ _ P).
    + exists g. split; auto. right. exact G.
Qed.

Lemma clean_attic_length : forall st w, length (w_attic (clean_attic_one st w)) = length (w_attic w).
Proof.
  intros. unfold clean_attic_one. simpl. rewrite map_length, combine_length, map_length, seq_length.
  apply Nat.min_id.
Qed.

Lemma clean_attic_nth : forall st w k a',
  nth_error (w_attic (clean_attic_one st w)) k = Some a' ->
  exists a, nth_error (w_attic w) k = Some a /\
    forall p, pget a' p =
      if existsb (fun ae => (fst (fst ae) =? N.of_nat k) && is_prefix (snd (fst ae)) p)
                 (filter (attic_deletable st w) (w_astate w))
      then None else pget a p.
Proof.
  intros st w k a' H.
  assert (LT : (k < length (w_attic w))%nat).
  { rewrite <- (clean_attic_length st w). apply nth_error_Some. congruence. }
  destruct (nth_error (w_attic w) k) as [a|] eqn:NT; [|apply nth_error_None in NT; lia].
  exists a. split; auto.
  unfold clean_attic_one in H. simpl in H.
  rewrite (map_nth_error _ _ _ (nth_combine_seq _ _ _ _ NT)) in H. inversion H. subst a'. clear H.
  intro p. unfold pget. cbn [fst snd].
  rewrite (kget_filter_key path_eqb path_eqb_spec
      (fun q => negb (existsb (fun ae => (fst (fst ae) =? N.of_nat k) && is_prefix (snd (fst ae)) q)
                              (filter (attic_deletable st w) (w_astate w)))) a p).
  destruct (existsb _ _); auto.
Qed.

Lemma nth_error_nth' : forall A (l : list A) k a d, nth_error l k = Some a -> nth k l d = a.
Proof. intros. apply nth_error_nth. auto. Qed.

Lemma clean_attic_pres : forall st w,
  store_wf st -> winv st w ->
  winv st (clean_attic_one st w) /\ (forall o, holds_w st w o -> holds_w st (clean_attic_one st w) o).
Proof.
  intros st w W WI.
  (* a git node covered by a deletable recorded directory holds nothing of the user *)
  assert (DEAD : forall k a p g ae o,
            nth_error (w_attic w) k = Some a -> pget a p = Some (NGit g) ->
            In ae (w_astate w) -> attic_deletable st w ae = true ->
            fst (fst ae) = N.of_nat k -> is_prefix (snd (fst ae)) p = true ->
            ~ holds_g st g o).
  { intros k a p g [[k' q] os] o NT PG IA DEL EK PR. simpl in EK, PR. subst k'.
    destruct (wi_attic _ _ WI _ _ _ _ NT PG) as [GI [[os' IO'] ALL]].
    destruct (clean_attic_requires_expendable_proof _ _ _ DEL) as [EXP NEST].
    assert (STAT : forall os0, In ((N.of_nat k, p), os0) (w_astate w) ->
                     attic_expendable st w ((N.of_nat k, p), os0) = true -> ~ holds_g st g o).
    { intros os0 I0 E0. unfold attic_expendable in E0. simpl in E0. rewrite Nat2N.id in E0.
      replace (nth k (w_attic w) []) with a in E0 by (symmetry; apply nth_error_nth; auto).
      destruct (ALL _ I0) as [->|(s & -> & GS)]; [discriminate|].
      destruct s as [u r d|? ? ?|? ? ?]; try discriminate. simpl in E0. rewrite PG in E0.
      eapply expendable_no_user_objects; eauto. apply winv_up_refs. auto. }
    destruct (list_eq_dec N.eq_dec q p) as [->|NE].
    - apply (STAT os); auto.
    - apply (STAT os'); auto. apply (NEST _ IO'); simpl; auto.
      + unfold strict_prefix. rewrite PR. simpl. apply negb_true_iff.
        destruct (path_eqb q p) eqn:Q; auto. apply path_eqb_spec in Q. contradiction.
      + unfold attic_exists. simpl. rewrite Nat2N.id.
        replace (nth k (w_attic w) []) with a by (symmetry; apply nth_error_nth; auto).
        eapply pget_some_exists; eauto. }
  split.
  - constructor; try (destruct WI; simpl; auto; fail).
    + intros k a' p g NT PG. destruct (clean_attic_nth _ _ _ _ NT) as (a & NT0 & GET).
      rewrite GET in PG. destruct (existsb _ _) eqn:X; [discriminate|].
      destruct (wi_attic _ _ WI _ _ _ _ NT0 PG) as [GI [[os IO] ALL]]. split; auto. split.
      * exists os. unfold clean_attic_one. simpl. apply filter_In. split; auto.
        unfold attic_exists. simpl. rewrite Nat2N.id.
        fold (w_attic (clean_attic_one st w)).
        assert (nth k (w_attic (clean_attic_one st w)) [] = a') by (apply nth_error_nth; auto).
        unfold clean_attic_one in H. simpl in H. rewrite H.
        eapply pget_some_exists. rewrite GET. rewrite X. eauto.
      * intros os' I'. unfold clean_attic_one in I'. simpl in I'. apply filter_In in I'. destruct I' as [I' _]. auto.
    + intros k p os I. rewrite clean_attic_length. unfold clean_attic_one in I. simpl in I.
      apply filter_In in I. destruct I as [I _]. apply (wi_aidx _ _ WI _ _ _ I).
  - intros o (g & [G|(a & IA & [p PG])] & H).
    + exists g. split; auto. left. exact G.
    + apply In_nth_error in IA. destruct IA as [k NT].
      destruct (existsb (fun ae => (fst (fst ae) =? N.of_nat k) && is_prefix (snd (fst ae)) p)
                        (filter (attic_deletable st w) (w_astate w))) eqn:X.
      * exfalso. apply existsb_exists in X. destruct X as [ae [IF B]]. apply filter_In in IF. destruct IF as [IA DEL].
        apply andb_true_iff in B. destruct B as [B1 B2]. apply N.eqb_eq in B1.
        eapply DEAD; eauto.
      * destruct (clean_attic_keeps_other_nodes st w k a p (NGit g) NT PG) as (a' & NT' & PG').
        { intros ae IA DEL EK. destruct (is_prefix (snd (fst ae)) p) eqn:PR; auto. exfalso.
          assert (existsb (fun ae0 => (fst (fst ae0) =? N.of_nat k) && is_prefix (snd (fst ae0)) p)
                          (filter (attic_deletable st w) (w_astate w)) = true).
          { apply existsb_exists. exists ae. split; [apply filter_In; auto|].
            rewrite EK, N.eqb_refl, PR. auto. }
          congruence. }
        exists g. split; auto. right. exists a'. split; [eapply nth_error_In; eauto|exists p; auto].
Qed.

(* user actions keep the invariant (they may of course destroy the user's own objects) *)
Lemma user_op_ginv : forall st g u, ginv st g -> ginv st (user_op st g u).
Proof.
  intros st g u GI. apply (frame_ginv st g); auto.
  destruct u as [f b|c|b|b|[c|]]; unfold user_op.
  - apply frame_with_co_same.
  - destruct (g_head g); [apply frame_with_co_aset|apply frame_with_co_same].
  - destruct (head_commit g); [apply frame_with_co_aset|apply frame_refl].
  - destruct (aget (g_branches g) b).
    + destruct (co_branch st g b) eqn:E. simpl. eapply co_branch_frame; eauto.
    + destruct (co_new_branch st g b (aget (g_remotes g) b)) eqn:E. simpl. eapply co_new_branch_frame; eauto.
  - destruct (co_detach st g (Some c)) eqn:E. simpl. eapply co_detach_frame; eauto.
  - destruct (head_commit g); [apply frame_with_co_same|apply frame_refl].
Qed.

(* ------------------------------------------------------------------ *)
(* projects                                                            *)

Definition P_inv (st : store) (P : proj) : Prop := forall k w, aget P k = Some w -> winv st w.

Definition op_ok (st : store) (o : op) : Prop :=
  match o with
  | OBuild _ up specs =>
      up_ok' st up /\
      forall k spec, In (k, spec) specs -> spec_ok spec = true /\ forall s, In s spec -> scm_ok st s
  | _ => True
  end.

Definition bob_op (o : op) : Prop := match o with OUser _ _ _ => False | _ => True end.

Lemma getw_inv : forall st P k, P_inv st P -> winv st (getw P k).
Proof. intros st P k PI. unfold getw. destruct (aget P k) eqn:E; [eauto|apply winv_empty]. Qed.

Lemma aget_map_val : forall (P : proj) (f : N -> wstate -> wstate) k,
  aget (map (fun kw => (fst kw, f (fst kw) (snd kw))) P) k =
  match aget P k with Some w => Some (f k w) | None => None end.
Proof.
  induction P as [|[k' w] P IH]; intros f k; simpl; auto.
  unfold aget in *. simpl. destruct (k' =? k) eqn:E; auto. apply N.eqb_eq in E. subst. auto.
Qed.

Lemma build_all_pres : forall st up cc specs P P' os,
  store_wf st -> up_ok' st up ->
  (forall k spec, In (k, spec) specs -> spec_ok spec = true /\ forall s, In s spec -> scm_ok st s) ->
  P_inv st P -> build_all st up cc specs P = (P', os) ->
  P_inv st P' /\ forall o, holds_P st P o -> holds_P st P' o.
Proof.
  intros st up cc specs. induction specs as [|[k spec] specs IH]; intros P P' os W UO OK PI H; simpl in H.
  - inversion H; subst. auto.
  - assert (OK' : forall k0 spec0, In (k0, spec0) specs -> spec_ok spec0 = true /\ forall s, In s spec0 -> scm_ok st s).
    { intros k0 spec1 I0. apply (OK k0 spec1). right. auto. }
    destruct spec as [|s0 spec0].
    + eapply IH; eauto.
    + destruct (cook st up cc (s0 :: spec0) (getw P k)) as [w' o] eqn:C.
      destruct (OK k (s0 :: spec0) (or_introl eq_refl)) as [SOK SCM].
      destruct (cook_pres _ _ _ _ _ _ _ W UO SOK SCM (getw_inv st P k PI) C) as [WI' WP].
      destruct (build_all st up cc specs (aset P k w')) as [P'' os'] eqn:B.
      inversion H; subst. clear H.
      assert (PI' : P_inv st (aset P k w')).
      { intros k0 w0 A. destruct (N.eq_dec k k0) as [->|NE].
        - rewrite aget_aset_same in A. inversion A. subst. auto.
        - rewrite aget_aset_other in A; eauto. }
      destruct (IH _ _ _ W UO OK' PI' B) as [PI'' HP]. split; auto.
      intros x (k0 & w0 & A & HW). apply HP.
      destruct (N.eq_dec k k0) as [->|NE].
      * exists k0, w'. split; [apply aget_aset_same|].
        eapply wpres_holds; eauto. unfold getw. rewrite A. auto.
      * exists k0, w0. split; auto. rewrite aget_aset_other; auto.
Qed.

Lemma run_op_inv : forall st P o, store_wf st -> op_ok st o -> P_inv st P -> P_inv st (fst (run_op st P o)).
Proof.
  intros st P o W OK PI. destruct o as [cc up specs|used| |k d u]; simpl in *.
  - destruct OK as [UO OK]. destruct (build_all st up cc specs P) as [P' os] eqn:B. simpl.
    eapply build_all_pres; eauto.
  - intros k w A. rewrite (aget_map_val P (fun k w => clean_src_one st (memN k used) w)) in A.
    destruct (aget P k) eqn:E; inversion A. subst. apply clean_src_pres; eauto.
  - intros k w A. rewrite (aget_map_val P (fun _ w => clean_attic_one st w)) in A.
    destruct (aget P k) eqn:E; inversion A. subst. apply clean_attic_pres; eauto.
  - destruct (pget (w_nodes (getw P k)) d) as [[g|f]|] eqn:PG; simpl; auto.
    pose proof (getw_inv st P k PI) as WI.
    intros k0 w0 A. destruct (N.eq_dec k k0) as [->|NE]; [|rewrite aget_aset_other in A; eauto].
    rewrite aget_aset_same in A. inversion A. subst w0. clear A.
    set (w := getw P k0) in *.
    assert (GET : forall p, pget (map (fun pn => if path_eqb (fst pn) d then (d, NGit (user_op st g u)) else pn) (w_nodes w)) p =
                            match pget (w_nodes w) p with
                            | Some v => if path_eqb p d then Some (NGit (user_op st g u)) else Some v
                            | None => None
                            end).
    { intro p. unfold pget. apply (kget_map_replace path_eqb path_eqb_spec). }
    destruct WI. constructor; simpl; auto.
    + intros p x H. rewrite GET in H. destruct (pget (w_nodes w) p) eqn:E; [|discriminate].
      destruct (path_eqb p d) eqn:Q.
      * inversion H. subst. apply user_op_ginv. apply path_eqb_spec in Q. subst. eauto.
      * inversion H. subst n. eauto.
    + intros p x H. rewrite GET in H. destruct (pget (w_nodes w) p) eqn:E; [|discriminate].
      destruct (path_eqb p d) eqn:Q.
      * apply path_eqb_spec in Q. subst p. eapply wi_rec0. exact PG.
      * inversion H. subst n. eauto.
    + intros EX p. rewrite GET. rewrite (wi_gone0 EX p). auto.
Qed.

Lemma run_op_holds : forall st P o x,
  store_wf st -> op_ok st o -> bob_op o -> P_inv st P ->
  holds_P st P x -> holds_P st (fst (run_op st P o)) x.
Proof.
  intros st P o x W OK BO PI H. destruct o as [cc up specs|used| |k d u]; simpl in *.
  - destruct OK as [UO OK]. destruct (build_all st up cc specs P) as [P' os] eqn:B. simpl.
    eapply build_all_pres; eauto.
  - destruct H as (k & w & A & HW). exists k, (clean_src_one st (memN k used) w). split.
    + rewrite (aget_map_val P (fun k w => clean_src_one st (memN k used) w)). rewrite A. auto.
    + apply clean_src_pres; eauto.
  - destruct H as (k & w & A & HW). exists k, (clean_attic_one st w). split.
    + rewrite (aget_map_val P (fun _ w => clean_attic_one st w)). rewrite A. auto.
    + apply clean_attic_pres; eauto.
  - contradiction.
Qed.

Lemma run_ops_app : forall st ops1 ops2 P, run_ops st P (ops1 ++ ops2) = run_ops st (run_ops st P ops1) ops2.
Proof. induction ops1; simpl; auto. Qed.

Lemma run_ops_inv : forall st ops P, store_wf st -> Forall (op_ok st) ops -> P_inv st P -> P_inv st (run_ops st P ops).
Proof.
  induction ops as [|o ops IH]; intros P W F PI; simpl; auto.
  inversion F; subst. apply IH; auto. apply run_op_inv; auto.
Qed.

Theorem user_objects_monotone_proof : forall st ops1 ops2 o,
  store_wf st -> Forall (op_ok st) (ops1 ++ ops2) -> Forall bob_op ops2 ->
  holds_P st (run_ops st [] ops1) o -> holds_P st (run_ops st [] (ops1 ++ ops2)) o.
Proof.
  intros st ops1 ops2 o W F B H. rewrite run_ops_app.
  apply Forall_app in F. destruct F as [F1 F2].
  assert (PI : P_inv st (run_ops st [] ops1)).
  { apply run_ops_inv; auto. intros k w A. discriminate. }
  revert PI H. generalize (run_ops st [] ops1). clear F1.
  induction ops2 as [|x ops2 IH]; intros P PI H; simpl; auto.
  inversion F2; subst. inversion B; subst.
  apply IH; auto.
  - apply run_op_inv; auto.
  - apply run_op_holds; auto.
Qed.
