(* C12 — Bob's switch-or-attic loop: path order, AtticTracker consistency
   (attic_nested_consistent) and the project level monotonicity of user objects. *)
From Coq Require Import List NArith Bool Lia Sorted Permutation PeanoNat Arith.
Require Import BobV.Common.Cases BobV.C12.Model BobV.C12.Proofs BobV.C12.Clean.
Import ListNotations.
Open Scope N_scope.

(* ------------------------------------------------------------------ *)
(* the order of checkoutsFromState puts a directory before everything below it *)

Lemma path_leb_refl : forall p, path_leb p p = true.
Proof. induction p as [|x p IH]; simpl; auto. rewrite N.ltb_irrefl, N.eqb_refl. auto. Qed.

Lemma path_leb_total : forall p q, path_leb p q = true \/ path_leb q p = true.
Proof.
  induction p as [|x p IH]; intros [|y q]; simpl; auto.
  destruct (x <? y) eqn:L1; auto. destruct (y <? x) eqn:L2; auto.
  apply N.ltb_ge in L1. apply N.ltb_ge in L2. assert (x = y) by lia. subst.
  rewrite N.eqb_refl. apply IH.
Qed.

Lemma path_leb_trans : forall p q r, path_leb p q = true -> path_leb q r = true -> path_leb p r = true.
Proof.
  induction p as [|x p IH]; intros [|y q] [|z r] H1 H2; simpl in *; auto; try discriminate.
  destruct (x <? y) eqn:L1.
  - apply N.ltb_lt in L1. destruct (y <? z) eqn:L2.
    + apply N.ltb_lt in L2. assert (x < z) by lia. apply N.ltb_lt in H. rewrite H. auto.
    + destruct (y =? z) eqn:E2; try discriminate. apply N.eqb_eq in E2. subst.
      apply N.ltb_lt in L1. rewrite L1. auto.
  - destruct (x =? y) eqn:E1; try discriminate. apply N.eqb_eq in E1. subst.
    destruct (y <? z); auto. destruct (y =? z); try discriminate. eapply IH; eauto.
Qed.

Lemma path_leb_antisym : forall p q, path_leb p q = true -> path_leb q p = true -> p = q.
Proof.
  induction p as [|x p IH]; intros [|y q] H1 H2; simpl in *; auto; try discriminate.
  destruct (x <? y) eqn:L1.
  - apply N.ltb_lt in L1. destruct (y <? x) eqn:L2.
    + apply N.ltb_lt in L2. lia.
    + destruct (y =? x) eqn:E; try discriminate. apply N.eqb_eq in E. lia.
  - destruct (x =? y) eqn:E1; try discriminate. apply N.eqb_eq in E1. subst.
    rewrite N.ltb_irrefl, N.eqb_refl in H2. f_equal. auto.
Qed.

Lemma prefix_leb : forall p q, is_prefix p q = true -> path_leb p q = true.
Proof.
  induction p as [|x p IH]; intros [|y q] H; simpl in *; auto; try discriminate.
  apply andb_true_iff in H. destruct H as [E H]. apply N.eqb_eq in E. subst.
  rewrite N.ltb_irrefl, N.eqb_refl. auto.
Qed.

Lemma prefix_refl : forall p, is_prefix p p = true.
Proof. induction p; simpl; auto. rewrite N.eqb_refl. auto. Qed.

Lemma prefix_trans : forall p q r, is_prefix p q = true -> is_prefix q r = true -> is_prefix p r = true.
Proof.
  induction p as [|x p IH]; intros [|y q] [|z r] H1 H2; simpl in *; auto; try discriminate.
  apply andb_true_iff in H1. apply andb_true_iff in H2. destruct H1 as [E1 H1]. destruct H2 as [E2 H2].
  apply N.eqb_eq in E1. apply N.eqb_eq in E2. subst. rewrite N.eqb_refl. simpl. eapply IH; eauto.
Qed.

Lemma prefix_comparable : forall p q d, is_prefix p d = true -> is_prefix q d = true ->
  is_prefix p q = true \/ is_prefix q p = true.
Proof.
  induction p as [|x p IH]; intros [|y q] [|z d] H1 H2; simpl in *; auto; try discriminate.
  apply andb_true_iff in H1. apply andb_true_iff in H2. destruct H1 as [E1 H1]. destruct H2 as [E2 H2].
  apply N.eqb_eq in E1. apply N.eqb_eq in E2. subst. rewrite N.eqb_refl. simpl. eapply IH; eauto.
Qed.

Lemma prefix_antisym : forall p q, is_prefix p q = true -> is_prefix q p = true -> p = q.
Proof. intros. apply path_leb_antisym; apply prefix_leb; auto. Qed.

Lemma prefix_app_skipn : forall p q, is_prefix p q = true -> q = p ++ skipn (length p) q.
Proof.
  induction p as [|x p IH]; intros [|y q] H; simpl in *; auto; try discriminate.
  apply andb_true_iff in H. destruct H as [E H]. apply N.eqb_eq in E. subst. f_equal. auto.
Qed.

Lemma prefix_app : forall p q, is_prefix p (p ++ q) = true.
Proof. induction p; simpl; auto. intros. rewrite N.eqb_refl. simpl. auto. Qed.

Definition key_leb {V} (a b : path * V) : Prop := path_leb (fst a) (fst b) = true.

Lemma insert_sorted_In : forall V (x : path * V) l y, In y (insert_sorted x l) <-> y = x \/ In y l.
Proof.
  induction l as [|z l IH]; intros y; simpl.
  - split; intros [H|H]; auto; contradiction.
  - destruct (path_leb (fst x) (fst z)); simpl.
    + split; intros [H|H]; auto.
    + rewrite IH. split; intros [H|[H|H]]; auto.
Qed.

Lemma insert_sorted_sorted : forall V (x : path * V) l,
  StronglySorted key_leb l -> StronglySorted key_leb (insert_sorted x l).
Proof.
  induction l as [|z l IH]; intros S; simpl.
  - constructor; constructor.
  - inversion S; subst. destruct (path_leb (fst x) (fst z)) eqn:E.
    + constructor; auto. constructor; auto.
      rewrite Forall_forall in *. intros y I. unfold key_leb. eapply path_leb_trans; [exact E|]. apply H2. auto.
    + constructor; auto. rewrite Forall_forall in *. intros y I. apply insert_sorted_In in I.
      destruct I as [->|I]; auto. unfold key_leb. destruct (path_leb_total (fst z) (fst x)); auto. congruence.
Qed.

Lemma sort_paths_In : forall V (l : list (path * V)) y, In y (sort_paths l) <-> In y l.
Proof.
  induction l as [|x l IH]; intros y; simpl; [tauto|].
  rewrite insert_sorted_In, IH. split; intros [H|H]; auto.
Qed.

Lemma sort_paths_sorted : forall V (l : list (path * V)), StronglySorted key_leb (sort_paths l).
Proof. induction l; simpl; [constructor|]. apply insert_sorted_sorted. auto. Qed.

Lemma insert_sorted_keys_perm : forall V (x : path * V) l,
  Permutation (map fst (insert_sorted x l)) (fst x :: map fst l).
Proof.
  induction l as [|z l IH]; simpl; auto.
  destruct (path_leb (fst x) (fst z)); simpl; auto.
  eapply perm_trans; [apply perm_skip; exact IH|]. apply perm_swap.
Qed.

Lemma sort_paths_keys_perm : forall V (l : list (path * V)), Permutation (map fst (sort_paths l)) (map fst l).
Proof.
  induction l as [|x l IH]; simpl; auto.
  eapply perm_trans; [apply insert_sorted_keys_perm|]. apply perm_skip. auto.
Qed.

Lemma sort_paths_nodup : forall V (l : list (path * V)), NoDup (map fst l) -> NoDup (map fst (sort_paths l)).
Proof. intros. eapply Permutation_NoDup; [apply Permutation_sym; apply sort_paths_keys_perm|]. auto. Qed.

(* ------------------------------------------------------------------ *)
(* one iteration of the loop, by cases                                 *)

Lemma pget_pdel_same : forall V (l : list (path * V)) k, pget (pdel l k) k = None.
Proof. intros. apply (kget_kdel_same path_eqb). Qed.
Lemma pget_pdel_other : forall V (l : list (path * V)) k k', k <> k' -> pget (pdel l k) k' = pget l k'.
Proof. intros. apply (kget_kdel_other path_eqb path_eqb_spec); auto. Qed.
Lemma pget_pset_same : forall V (l : list (path * V)) k v, pget (pset l k v) k = Some v.
Proof. intros. apply (kget_kset_same path_eqb path_eqb_spec). Qed.
Lemma pget_pset_other : forall V (l : list (path * V)) k v k', k <> k' -> pget (pset l k v) k' = pget l k'.
Proof. intros. apply (kget_kset_other path_eqb path_eqb_spec); auto. Qed.

Lemma tracker_match_some : forall tr d r k,
  tracker_match tr d = Some (r, k) -> In (r, k) tr /\ is_prefix r d = true.
Proof. intros tr d r k H. unfold tracker_match in H. apply find_some in H. simpl in H. auto. Qed.

Lemma tracker_match_none : forall tr d r k,
  tracker_match tr d = None -> In (r, k) tr -> is_prefix r d = false.
Proof. intros tr d r k H I. unfold tracker_match in H. apply (find_none _ _ H (r, k) I). Qed.

(* the nodes the attic decision is taken on: the loop's nodes, or what a failed switch left *)
Definition nodes_before_attic (st : store) (up : upstream) (newmap : list (path * scm)) (L : loopst)
           (d : path) (e : dsentry) (nsX : nodes) (decX : list (N * path)) : Prop :=
  (nsX = l_nodes L /\ decX = l_dec L) \/
  (exists snew sold, pget newmap d = Some snew /\ de_spec e = Some sold /\ can_switch snew sold = true /\
                     do_switch st up (l_nodes L) d snew sold = (nsX, false) /\ decX = l_dec L ++ [(1, d)]).

Inductive step_case (st : store) (up : upstream) (newmap : list (path * scm)) (L : loopst)
          (d : path) (e : dsentry) (L' : loopst) : Prop :=
| SC_affected : forall r k,
    tracker_match (l_tracker L) d = Some (r, k) ->
    L' = mkL (l_exists L) (l_nodes L) (pdel (l_ds L) d) (l_attic L)
             (l_astate L ++ [((k, skipn (length r) d), de_spec e)]) (l_tracker L) (l_dec L) ->
    step_case st up newmap L d e L'
| SC_same :
    tracker_match (l_tracker L) d = None -> L' = L ->
    odg_eqb (de_dig e) (match pget newmap d with Some s => Some (digest s) | None => None end) = true ->
    step_case st up newmap L d e L'
| SC_switched : forall snew sold ns1,
    tracker_match (l_tracker L) d = None ->
    pget newmap d = Some snew -> de_spec e = Some sold -> can_switch snew sold = true ->
    do_switch st up (l_nodes L) d snew sold = (ns1, true) ->
    L' = mkL (l_exists L) ns1 (pset (l_ds L) d (mkDE (Some (digest snew)) (Some snew))) (l_attic L)
             (l_astate L) (l_tracker L) (l_dec L ++ [(1, d)]) ->
    step_case st up newmap L d e L'
| SC_gone : forall nsX decX,
    tracker_match (l_tracker L) d = None ->
    nodes_before_attic st up newmap L d e nsX decX ->
    (match d with [] => l_exists L | _ => path_exists nsX d end) = false ->
    L' = mkL (l_exists L) nsX (pdel (l_ds L) d) (l_attic L) (l_astate L) (l_tracker L) decX ->
    step_case st up newmap L d e L'
| SC_attic : forall nsX decX,
    tracker_match (l_tracker L) d = None ->
    nodes_before_attic st up newmap L d e nsX decX ->
    L' = mkL (match d with [] => false | _ => l_exists L end)
             (filter (fun pn => negb (under d pn)) nsX)
             (pdel (l_ds L) d)
             (l_attic L ++ [map (rebase_path d) (filter (under d) nsX)])
             (l_astate L ++ [((N.of_nat (length (l_attic L)), []), de_spec e)])
             (l_tracker L ++ [(d, N.of_nat (length (l_attic L)))])
             (decX ++ [(2, d)]) ->
    step_case st up newmap L d e L'.

Lemma loop_step_cases : forall st up newmap L d e,
  step_case st up newmap L d e (loop_step st up newmap L (d, e)).
Proof.
  intros st up newmap L d e. unfold loop_step. cbn [fst snd].
  destruct (tracker_match (l_tracker L) d) as [[r k]|] eqn:T.
  { eapply SC_affected; eauto. }
  destruct (odg_eqb (de_dig e) match pget newmap d with Some s => Some (digest s) | None => None end) eqn:E.
  { apply SC_same; auto. }
  assert (NOSW : step_case st up newmap L d e
                   (if dir_exists L d then move_to_attic L d (de_spec e) else with_ds L (pdel (l_ds L) d))).
  { destruct (dir_exists L d) eqn:X.
    - eapply (SC_attic st up newmap L d e _ (l_nodes L) (l_dec L)); auto. left. auto.
    - eapply (SC_gone st up newmap L d e _ (l_nodes L) (l_dec L)); auto; try (left; auto; fail). }
  destruct (pget newmap d) as [snew|] eqn:NM; [|exact NOSW].
  destruct (de_dig e) as [dg0|] eqn:DG; [|exact NOSW].
  destruct (de_spec e) as [sold|] eqn:SP; [|exact NOSW].
  destruct (can_switch snew sold && dir_exists L d) eqn:CS; [|exact NOSW].
  apply andb_true_iff in CS. destruct CS as [CS X].
  destruct (do_switch st up (l_nodes L) d snew sold) as [ns1 did] eqn:DS.
  destruct did.
  - eapply SC_switched; eauto.
  - assert (NB : nodes_before_attic st up newmap L d e ns1 (l_dec L ++ [(1, d)])).
    { right. exists snew, sold. repeat split; auto. }
    destruct (dir_exists (with_nodes_dec L ns1 (l_dec L ++ [(1, d)])) d) eqn:X1.
    + eapply (SC_attic st up newmap L d e _ ns1 _); eauto. rewrite SP. reflexivity.
    + eapply (SC_gone st up newmap L d e _ ns1 _); eauto.
Qed.

(* ------------------------------------------------------------------ *)
(* attic_nested_consistent                                             *)

Record tinv (L : loopst) (done : list (path * dsentry)) : Prop := mkTI {
  ti_roots : forall r k, In (r, k) (l_tracker L) -> In r (map fst done);
  ti_homed : forall r k d e, In (r, k) (l_tracker L) -> In (d, e) done -> is_prefix r d = true ->
             pget (l_ds L) d = None /\ In ((k, skipn (length r) d), de_spec e) (l_astate L);
  ti_apart : forall r1 k1 r2 k2, In (r1, k1) (l_tracker L) -> In (r2, k2) (l_tracker L) ->
             is_prefix r1 r2 = true -> (r1, k1) = (r2, k2)
}.

Lemma skipn_self : forall A (l : list A), skipn (length l) l = [].
Proof. induction l; simpl; auto. Qed.

Lemma tinv_step : forall st up newmap L done d e,
  tinv L done ->
  (forall x, In x done -> path_leb (fst x) d = true) ->
  ~ In d (map fst done) ->
  tinv (loop_step st up newmap L (d, e)) (done ++ [(d, e)]).
Proof.
  intros st up newmap L done d e [I1 I2 I3] SRT ND.
  assert (NEQ : forall d0 e0, In (d0, e0) done -> d <> d0).
  { intros d0 e0 I E. subst. apply ND. apply in_map_iff. exists (d0, e0). auto. }
  assert (KEEP : forall L', l_tracker L' = l_tracker L ->
            (forall q, q <> d -> pget (l_ds L') q = pget (l_ds L) q) ->
            (forall x, In x (l_astate L) -> In x (l_astate L')) ->
            (forall r k, In (r, k) (l_tracker L) -> is_prefix r d = true ->
                         pget (l_ds L') d = None /\ In ((k, skipn (length r) d), de_spec e) (l_astate L')) ->
            tinv L' (done ++ [(d, e)])).
  { intros L' ET ED EA ENEW. constructor; rewrite ET.
    - intros r k I. rewrite map_app. apply in_or_app. left. eauto.
    - intros r k d0 e0 I ID P. apply in_app_or in ID. destruct ID as [ID|[ID|[]]].
      + destruct (I2 _ _ _ _ I ID P) as [A B]. split; auto. rewrite ED; auto.
        intro. subst. eapply NEQ; eauto.
      + inversion ID. subst. auto.
    - exact I3. }
  destruct (loop_step_cases st up newmap L d e) as [r k T E | T E _ | snew sold ns1 T _ _ _ _ E | nsX decX T _ _ E | nsX decX T _ E];
    rewrite E; clear E.
  - (* affected *)
    destruct (tracker_match_some _ _ _ _ T) as [IT PT].
    apply KEEP; simpl; auto.
    + intros. apply pget_pdel_other. auto.
    + intros. apply in_or_app. auto.
    + intros r' k' I' P'. split; [apply pget_pdel_same|].
      assert ((r', k') = (r, k)).
      { destruct (prefix_comparable _ _ _ P' PT) as [C|C]; [|symmetry]; eapply I3; eauto. }
      inversion H. subst. apply in_or_app. right. left. auto.
  - apply KEEP; auto. intros r k I P. rewrite (tracker_match_none _ _ _ _ T I) in P. discriminate.
  - apply KEEP; simpl; auto.
    + intros. apply pget_pset_other. auto.
    + intros r k I P. rewrite (tracker_match_none _ _ _ _ T I) in P. discriminate.
  - apply KEEP; simpl; auto.
    + intros. apply pget_pdel_other. auto.
    + intros r k I P. rewrite (tracker_match_none _ _ _ _ T I) in P. discriminate.
  - (* moved to the attic: d becomes a tracked root *)
    set (k := N.of_nat (length (l_attic L))).
    constructor; simpl.
    + intros r k0 I. rewrite map_app. apply in_or_app. apply in_app_or in I. destruct I as [I|[I|[]]].
      * left. eauto.
      * inversion I. subst. right. simpl. auto.
    + intros r k0 d0 e0 I ID P.
      apply in_app_or in I. apply in_app_or in ID.
      destruct I as [I|[I|[]]]; destruct ID as [ID|[ID|[]]].
      * destruct (I2 _ _ _ _ I ID P) as [A B]. split.
        -- rewrite pget_pdel_other; auto. eapply NEQ; eauto.
        -- apply in_or_app. auto.
      * inversion ID. subst. rewrite (tracker_match_none _ _ _ _ T I) in P. discriminate.
      * inversion I. subst. exfalso.
        (* an already processed directory below the new root would sort after it *)
        assert (d0 = r).
        { apply path_leb_antisym; [apply (SRT (d0, e0) ID)|apply prefix_leb; auto]. }
        subst. eapply NEQ; eauto.
      * inversion I. inversion ID. subst. split; [apply pget_pdel_same|].
        rewrite skipn_self. apply in_or_app. right. left. auto.
    + intros r1 k1 r2 k2 J1 J2 P.
      apply in_app_or in J1. apply in_app_or in J2.
      destruct J1 as [J1|[J1|[]]]; destruct J2 as [J2|[J2|[]]].
      * eapply I3; eauto.
      * inversion J2. subst. rewrite (tracker_match_none _ _ _ _ T J1) in P. discriminate.
      * inversion J1. subst. exfalso.
        pose proof (I1 _ _ J2) as IR. apply in_map_iff in IR. destruct IR as [[d0 e0] [E0 ID]]. simpl in E0. subst d0.
        assert (r2 = r1).
        { apply path_leb_antisym; [apply (SRT (r2, e0) ID)|apply prefix_leb; auto]. }
        subst. eapply NEQ; eauto.
      * inversion J1. inversion J2. subst. auto.
Qed.

Lemma tinv_fold : forall st up newmap rest done L,
  tinv L done ->
  StronglySorted key_leb (done ++ rest) -> NoDup (map fst (done ++ rest)) ->
  tinv (fold_left (loop_step st up newmap) rest L) (done ++ rest).
Proof.
  induction rest as [|[d e] rest IH]; intros done L TI S ND; simpl.
  - rewrite app_nil_r. auto.
  - replace (done ++ (d, e) :: rest) with ((done ++ [(d, e)]) ++ rest) in * by (rewrite <- app_assoc; auto).
    apply IH; auto.
    apply tinv_step; auto.
    + intros x I. clear - S I.
      induction done as [|y done IHd]; simpl in *; [contradiction|].
      inversion S; subst. destruct I as [->|I]; auto.
      rewrite Forall_forall in H2. apply (H2 (d, e)). apply in_or_app. left. apply in_or_app. right. left. auto.
    + clear - ND. rewrite map_app in ND. rewrite map_app in ND. simpl in ND.
      rewrite <- app_assoc in ND. simpl in ND. apply NoDup_remove_2 in ND.
      intro I. apply ND. apply in_or_app. auto.
Qed.

Theorem attic_nested_consistent_proof : forall st up newmap ds L0 L r k d e,
  NoDup (map fst ds) -> l_tracker L0 = [] -> l_ds L0 = ds ->
  L = fold_left (loop_step st up newmap) (sort_paths ds) L0 ->
  In (r, k) (l_tracker L) -> In (d, e) ds -> is_prefix r d = true ->
  pget (l_ds L) d = None /\ In ((k, skipn (length r) d), de_spec e) (l_astate L).
Proof.
  intros st up newmap ds L0 L r k d e ND T0 D0 EL IT ID P.
  assert (TI : tinv L (sort_paths ds)).
  { rewrite EL. apply (tinv_fold st up newmap (sort_paths ds) [] L0).
    - constructor; rewrite T0; simpl; intros; contradiction.
    - apply sort_paths_sorted.
    - simpl. apply sort_paths_nodup. auto. }
  destruct TI as [_ I2 _]. eapply I2; eauto. apply sort_paths_In. auto.
Qed.

(* ------------------------------------------------------------------ *)
(* user objects of a project; facts about put_node                     *)

Definition git_in_nodes (ns : nodes) (g : gitws) : Prop := exists p, pget ns p = Some (NGit g).
Definition git_in_w (w : wstate) (g : gitws) : Prop :=
  git_in_nodes (w_nodes w) g \/ exists a, In a (w_attic w) /\ git_in_nodes a g.
Definition holds_w (st : store) (w : wstate) (o : uobj) : Prop := exists g, git_in_w w g /\ holds_g st g o.
Definition holds_P (st : store) (P : proj) (o : uobj) : Prop :=
  exists k w, aget P k = Some w /\ holds_w st w o.

Definition scm_ok (st : store) (s : scm) : Prop :=
  match s with SGit _ r _ => rev_ok st r | _ => True end.

Lemma ensure_dir_get : forall ns q p,
  pget (ensure_dir ns q) p = pget ns p \/
  (pget ns p = None /\ pget (ensure_dir ns q) p = Some (NPlain []) /\ p = q).
Proof.
  intros ns q p. unfold ensure_dir. destruct (is_some (pget ns q)) eqn:E; auto.
  unfold pget in *. rewrite (kget_app path_eqb).
  destruct (kget path_eqb ns p) eqn:G; auto. simpl.
  destruct (path_eqb q p) eqn:Q; auto. apply path_eqb_spec in Q. subst. right. auto.
Qed.

Lemma ensure_dirs_get : forall qs ns p,
  pget (fold_left ensure_dir qs ns) p = pget ns p \/
  (pget ns p = None /\ pget (fold_left ensure_dir qs ns) p = Some (NPlain []) /\ In p qs).
Proof.
  induction qs as [|q qs IH]; intros ns p; simpl; auto.
  destruct (IH (ensure_dir ns q) p) as [H|(H1 & H2 & H3)].
  - rewrite H. destruct (ensure_dir_get ns q p) as [K|(K1 & K2 & K3)]; auto.
  - destruct (ensure_dir_get ns q p) as [K|(K1 & K2 & K3)].
    + right. rewrite <- K. auto.
    + rewrite K2 in H1. discriminate.
Qed.

Lemma put_node_other : forall ns d n p, p <> d ->
  pget (put_node ns d n) p = pget ns p \/
  (pget ns p = None /\ pget (put_node ns d n) p = Some (NPlain []) /\ In p (proper_prefixes d)).
Proof.
  intros ns d n p NE. unfold put_node. cbv zeta.
  set (ns1 := fold_left ensure_dir (proper_prefixes d) ns).
  assert (E : pget (if is_some (pget ns1 d)
                    then map (fun pn => if path_eqb (fst pn) d then (d, n) else pn) ns1
                    else ns1 ++ [(d, n)]) p = pget ns1 p).
  { destruct (is_some (pget ns1 d)).
    - unfold pget. rewrite (kget_map_replace path_eqb path_eqb_spec).
      destruct (kget path_eqb ns1 p); auto.
      destruct (path_eqb p d) eqn:Q; auto. apply path_eqb_spec in Q. contradiction.
    - unfold pget. rewrite (kget_app path_eqb). destruct (kget path_eqb ns1 p); auto. simpl.
      destruct (path_eqb d p) eqn:Q; auto. apply path_eqb_spec in Q. subst. contradiction. }
  pose proof (ensure_dirs_get (proper_prefixes d) ns p) as G. fold ns1 in G.
  destruct G as [K|(K1 & K2 & K3)].
  - left. exact (eq_trans E K).
  - right. repeat split; auto. exact (eq_trans E K2).
Qed.

Lemma proper_prefixes_from_spec : forall p acc q, In q (proper_prefixes_from acc p) ->
  exists a b, p = a ++ b /\ q = acc ++ a /\ b <> [] /\ a <> [].
Proof.
  induction p as [|x p IH]; intros acc q H; simpl in H; [contradiction|].
  destruct p as [|y p]; [contradiction|].
  destruct H as [H|H].
  - exists [x], (y :: p). subst. repeat split; auto; discriminate.
  - destruct (IH _ _ H) as (a & b & E1 & E2 & E3 & E4).
    exists (x :: a), b. rewrite E1. repeat split; auto.
    + rewrite E2. rewrite <- app_assoc. auto.
    + discriminate.
Qed.

Lemma proper_prefix_spec : forall d q, In q (proper_prefixes d) -> is_prefix q d = true /\ q <> d /\ q <> [].
Proof.
  intros d q H. unfold proper_prefixes in H.
  destruct (proper_prefixes_from_spec _ _ _ H) as (a & b & E1 & E2 & E3 & E4). simpl in E2. subst.
  repeat split; auto.
  - apply prefix_app.
  - intro E. apply E3. rewrite <- (app_nil_r a) in E at 1. apply app_inv_head in E. auto.
Qed.

(* git nodes after put_node d (NGit g'): the new one at d, or an old one elsewhere *)
Lemma put_node_git : forall ns d n p g,
  pget (put_node ns d n) p = Some (NGit g) -> (p = d /\ n = NGit g) \/ (p <> d /\ pget ns p = Some (NGit g)).
Proof.
  intros ns d n p g H. destruct (list_eq_dec N.eq_dec p d) as [->|NE].
  - rewrite pget_put_node_same in H. inversion H. auto.
  - right. split; auto. destruct (put_node_other ns d n p NE) as [K|(K1 & K2 & K3)].
    + rewrite <- K. auto.
    + rewrite K2 in H. discriminate.
Qed.

Lemma put_node_keeps : forall ns d n p x, p <> d -> pget ns p = Some x -> pget (put_node ns d n) p = Some x.
Proof.
  intros ns d n p x NE H. destruct (put_node_other ns d n p NE) as [K|(K1 & K2 & K3)].
  - rewrite K. auto.
  - rewrite K1 in H. discriminate.
Qed.

(* a path that becomes occupied by put_node is d or a proper prefix of d *)
Lemma put_node_new : forall ns d n p, pget ns p = None -> pget (put_node ns d n) p <> None ->
  is_prefix p d = true.
Proof.
  intros ns d n p H K. destruct (list_eq_dec N.eq_dec p d) as [->|NE]; [apply prefix_refl|].
  destruct (put_node_other ns d n p NE) as [E|(_ & _ & I)].
  - rewrite E in K. contradiction.
  - apply proper_prefix_spec in I. tauto.
Qed.

(* nodes under / not under a directory *)
Lemma pget_not_under : forall (ns : nodes) d p,
  pget (filter (fun pn => negb (under d pn)) ns) p = if is_prefix d p then None else pget ns p.
Proof.
  intros. unfold pget, under.
  rewrite (kget_filter_key path_eqb path_eqb_spec (fun q => negb (is_prefix d q)) ns p).
  destruct (is_prefix d p); auto.
Qed.

Lemma pget_rebased : forall (ns : nodes) d q,
  pget (map (rebase_path d) (filter (under d) ns)) q = pget ns (d ++ q).
Proof.
  intros ns d q. induction ns as [|[p n] ns IH]; simpl; auto.
  unfold under at 1. simpl. destruct (is_prefix d p) eqn:P; simpl.
  - unfold pget in *. simpl. rewrite IH.
    destruct (path_eqb (skipn (length d) p) q) eqn:E1; destruct (path_eqb p (d ++ q)) eqn:E2; auto.
    + apply path_eqb_spec in E1. subst q. rewrite <- (prefix_app_skipn _ _ P) in E2.
      rewrite (proj2 (path_eqb_spec p p) eq_refl) in E2. discriminate.
    + apply path_eqb_spec in E2. subst p. rewrite skipn_app in E1. rewrite skipn_self in E1.
      rewrite Nat.sub_diag in E1. simpl in E1. rewrite (proj2 (path_eqb_spec q q) eq_refl) in E1. discriminate.
  - unfold pget in *. simpl. rewrite IH.
    destruct (path_eqb p (d ++ q)) eqn:E2; auto.
    apply path_eqb_spec in E2. subst p. rewrite prefix_app in P. discriminate.
Qed.

(* ------------------------------------------------------------------ *)
(* more list facts for path keyed lists                                *)

Lemma In_pdel : forall V (l : list (path * V)) k x, In x (map fst (pdel l k)) -> In x (map fst l) /\ x <> k.
Proof.
  induction l as [|[k' v] l IH]; intros k x H; simpl in *; try contradiction.
  unfold pdel in *. simpl in H. destruct (path_eqb k' k) eqn:E.
  - destruct (IH _ _ H). split; auto.
  - simpl in H. destruct H as [H|H].
    + subst. split; auto. intro. subst. rewrite (proj2 (path_eqb_spec k k) eq_refl) in E. discriminate.
    + destruct (IH _ _ H). split; auto.
Qed.

Lemma NoDup_pdel : forall V (l : list (path * V)) k, NoDup (map fst l) -> NoDup (map fst (pdel l k)).
Proof.
  induction l as [|[k' v] l IH]; intros k H; simpl in *; auto.
  inversion H; subst. unfold pdel in *. simpl. destruct (path_eqb k' k); auto.
  simpl. constructor; auto. intro J. apply In_pdel in J. tauto.
Qed.

Lemma NoDup_pset : forall V (l : list (path * V)) k v, NoDup (map fst l) -> NoDup (map fst (pset l k v)).
Proof.
  intros. unfold pset, kset. simpl. constructor.
  - intro J. apply (In_pdel V l k k) in J. tauto.
  - apply NoDup_pdel. auto.
Qed.

Lemma In_pget_nodup : forall V (l : list (path * V)) k v, NoDup (map fst l) -> In (k, v) l -> pget l k = Some v.
Proof.
  induction l as [|[k' v'] l IH]; intros k v ND H; simpl in *; try contradiction.
  inversion ND; subst. unfold pget. simpl. destruct H as [H|H].
  - inversion H. subst. rewrite (proj2 (path_eqb_spec k k) eq_refl). auto.
  - destruct (path_eqb k' k) eqn:E.
    + apply path_eqb_spec in E. subst. exfalso. apply H2. apply in_map_iff. exists (k, v). auto.
    + apply IH; auto.
Qed.

Lemma pget_In : forall V (l : list (path * V)) k v, pget l k = Some v -> In (k, v) l.
Proof. intros. apply (kget_In path_eqb path_eqb_spec). auto. Qed.

Lemma pget_In_fst : forall V (l : list (path * V)) k v, pget l k = Some v -> In k (map fst l).
Proof. intros. apply in_map_iff. exists (k, v). split; auto. apply pget_In. auto. Qed.

Lemma digest_kind : forall s s', digest s = digest s' -> is_git s = is_git s'.
Proof.
  intros s s' H. destruct s as [u r d|u g d|src pr d]; destruct s' as [u' r' d'|u' g' d'|src' pr' d']; simpl in *; auto;
    try (destruct r; discriminate); try (destruct r'; discriminate).
Qed.

Lemma dg_eqb_eq : forall a b, dg_eqb a b = true -> a = b.
Proof.
  intros a b H. destruct a; destruct b; simpl in H; try discriminate;
    repeat (apply andb_true_iff in H; destruct H as [H ?]);
    repeat match goal with
           | X : (_ =? _) = true |- _ => apply N.eqb_eq in X
           | X : path_eqb _ _ = true |- _ => apply path_eqb_spec in X
           | X : oeqb _ _ = true |- _ => apply oeqb_spec in X
           end; subst; auto.
Qed.

Lemma odg_eqb_eq : forall a b, odg_eqb a b = true -> a = b.
Proof.
  intros [a|] [b|] H; simpl in H; try discriminate; auto. apply dg_eqb_eq in H. subst. auto.
Qed.

(* what __runScmSwitch does to the nodes *)
Lemma do_switch_facts : forall st up ns d snew sold ns1 ok,
  store_wf st -> up_ok' st up -> scm_ok st snew -> scm_ok st sold ->
  (forall g, pget ns d = Some (NGit g) -> ginv st g) ->
  do_switch st up ns d snew sold = (ns1, ok) ->
  ns1 = ns \/
  (exists g g', pget ns d = Some (NGit g) /\ ns1 = put_node ns d (NGit g') /\
                gpres st g g' /\ ginv st g' /\ is_git snew = true /\ is_git sold = true).
Proof.
  intros st up ns d snew sold ns1 ok W UO OKN OKO GI H. unfold do_switch in H.
  destruct snew as [u r dn|? ? ?|? ? ?]; destruct sold as [uo ro do_|? ? ?|? ? ?];
    try (inversion H; subst; auto; fail).
  destruct (pget ns d) as [[g|f]|] eqn:P; try (inversion H; subst; auto; fail).
  destruct (git_switch st up g ro u r) as [g' ok'] eqn:S.
  inversion H; subst. right. exists g, g'.
  destruct (git_switch_pres _ _ _ _ _ _ _ _ W UO (GI g eq_refl) OKO OKN S) as [P1 P2].
  split; [reflexivity|]. split; [reflexivity|]. split; [exact P1|]. split; [exact P2|]. split; reflexivity.
Qed.

Lemma can_switch_kind : forall a b, can_switch a b = true -> is_git a = is_git b.
Proof. intros [? ? ?|? ? ?|? ? ?] [? ? ?|? ? ?|? ? ?] H; simpl in *; auto; discriminate. Qed.

Lemma dg_eqb_refl : forall a, dg_eqb a a = true.
Proof.
  destruct a; simpl; repeat rewrite N.eqb_refl; simpl;
    try rewrite (proj2 (path_eqb_spec d d) eq_refl); auto.
  rewrite (proj2 (oeqb_spec dig dig) eq_refl). auto.
Qed.

Lemma pget_some_exists : forall (ns : nodes) p x, pget ns p = Some x -> path_exists ns p = true.
Proof.
  intros ns p x H. unfold path_exists. apply existsb_exists. exists (p, x). split.
  - apply pget_In. auto.
  - unfold under. simpl. apply prefix_refl.
Qed.

(* ------------------------------------------------------------------ *)
(* the loop invariant                                                  *)

Section Loop.
  Variable st : store.
  Variable up : upstream.
  Variable newmap : list (path * scm).
  Hypothesis W : store_wf st.
  Hypothesis UO : up_ok' st up.
  Hypothesis NEWOK : forall d s, pget newmap d = Some s -> scm_ok st s.
  Variable ds1 : list (path * dsentry).
  Variable attic0 : list nodes.
  Variable astate0 : list ((N * path) * option scm).

  Definition newd (p : path) : option dg :=
    match pget newmap p with Some s => Some (digest s) | None => None end.

  (* the recorded directory state while the loop runs *)
  Record dinv (ds : list (path * dsentry)) (done rest : list (path * dsentry)) : Prop := mkDI {
    di_ent : forall p e, pget ds p = Some e ->
             exists s, de_spec e = Some s /\ scm_ok st s /\
                       (de_dig e = Some (digest s) \/ (de_dig e = None /\ pget newmap p <> None));
    di_settled : forall p e, In p (map fst done) -> pget ds p = Some e -> odg_eqb (de_dig e) (newd p) = true;
    di_keys : forall p e, pget ds p = Some e -> In p (map fst done) \/ In p (map fst rest);
    di_rest : forall d e, In (d, e) rest -> pget ds d = Some e;
    di_nodup : NoDup (map fst ds)
  }.

  Record linv (L : loopst) (done rest : list (path * dsentry)) : Prop := mkLI {
    li_ginv : forall p g, pget (l_nodes L) p = Some (NGit g) -> ginv st g;
    li_rec : forall p g, pget (l_nodes L) p = Some (NGit g) ->
             exists e s, pget (l_ds L) p = Some e /\ de_spec e = Some s /\ is_git s = true;
    li_d : dinv (l_ds L) done rest;
    li_clear : forall r k p, In (r, k) (l_tracker L) -> is_prefix r p = true -> pget (l_nodes L) p = None;
    li_ex : l_exists L = false -> exists k, In ([], k) (l_tracker L);
    li_attic_old : exists newa, l_attic L = attic0 ++ newa /\ length newa = length (l_tracker L) /\
                   map snd (l_tracker L) = map N.of_nat (seq (length attic0) (length newa));
    li_attic_new : forall r k a p g, In (r, k) (l_tracker L) ->
                   nth_error (l_attic L) (N.to_nat k) = Some a -> pget a p = Some (NGit g) ->
                   ginv st g /\ exists e s, In (r ++ p, e) ds1 /\ de_spec e = Some s /\ is_git s = true;
    li_astate : forall x, In x (l_astate L) ->
                In x astate0 \/
                exists r k d e, x = ((k, skipn (length r) d), de_spec e) /\ In (r, k) (l_tracker L) /\
                                In (d, e) ds1 /\ is_prefix r d = true
  }.

  Lemma in_done' : forall (done : list (path * dsentry)) d e p,
    In p (map fst (done ++ [(d, e)])) <-> In p (map fst done) \/ p = d.
  Proof.
    intros. rewrite map_app. simpl. split; intro H.
    - apply in_app_or in H. destruct H as [H|[H|[]]]; auto.
    - apply in_or_app. destruct H as [H|H]; auto. right. left. auto.
  Qed.

  (* the entry of the current directory is removed *)
  Lemma dinv_pdel : forall ds done rest d e,
    dinv ds done ((d, e) :: rest) -> ~ In d (map fst rest) ->
    dinv (pdel ds d) (done ++ [(d, e)]) rest.
  Proof.
    intros ds done rest d e [E S K R N] NR. constructor.
    - intros p e' H. destruct (list_eq_dec N.eq_dec d p) as [->|NE].
      + rewrite pget_pdel_same in H. discriminate.
      + rewrite pget_pdel_other in H; auto.
    - intros p e' I H. destruct (list_eq_dec N.eq_dec d p) as [->|NE].
      + rewrite pget_pdel_same in H. discriminate.
      + rewrite pget_pdel_other in H; auto. apply in_done' in I. destruct I as [I|I]; [eauto|congruence].
    - intros p e' H. destruct (list_eq_dec N.eq_dec d p) as [->|NE].
      + rewrite pget_pdel_same in H. discriminate.
      + rewrite pget_pdel_other in H; auto. destruct (K _ _ H) as [I|I].
        * left. apply in_done'. auto.
        * simpl in I. destruct I as [I|I]; [contradiction|auto].
    - intros d0 e0 I. rewrite pget_pdel_other.
      + apply R. right. auto.
      + intro. subst. apply NR. apply in_map_iff. exists (d0, e0). auto.
    - apply NoDup_pdel. auto.
  Qed.

  (* the entry of the current directory already has the new digest *)
  Lemma dinv_same : forall ds done rest d e,
    dinv ds done ((d, e) :: rest) -> odg_eqb (de_dig e) (newd d) = true ->
    dinv ds (done ++ [(d, e)]) rest.
  Proof.
    intros ds done rest d e [E S K R N] Q. constructor; auto.
    - intros p e' I H. apply in_done' in I. destruct I as [I| ->]; [eauto|].
      rewrite (R d e) in H by (left; auto). inversion H. subst. auto.
    - intros p e' H. destruct (K _ _ H) as [I|I].
      + left. apply in_done'. auto.
      + simpl in I. destruct I as [I|I]; auto. left. apply in_done'. auto.
    - intros d0 e0 I. apply R. right. auto.
  Qed.

  (* the entry of the current directory is replaced by the new spec *)
  Lemma dinv_pset : forall ds done rest d e snew,
    dinv ds done ((d, e) :: rest) -> ~ In d (map fst rest) -> pget newmap d = Some snew ->
    dinv (pset ds d (mkDE (Some (digest snew)) (Some snew))) (done ++ [(d, e)]) rest.
  Proof.
    intros ds done rest d e snew [E S K R N] NR NM. constructor.
    - intros p e' H. destruct (list_eq_dec N.eq_dec d p) as [->|NE].
      + rewrite pget_pset_same in H. inversion H. subst. exists snew. simpl. repeat split; eauto.
      + rewrite pget_pset_other in H; auto.
    - intros p e' I H. destruct (list_eq_dec N.eq_dec d p) as [->|NE].
      + rewrite pget_pset_same in H. inversion H. subst. simpl. unfold newd. rewrite NM. simpl. apply dg_eqb_refl.
      + rewrite pget_pset_other in H; auto. apply in_done' in I. destruct I as [I|I]; [eauto|congruence].
    - intros p e' H. destruct (list_eq_dec N.eq_dec d p) as [->|NE].
      + left. apply in_done'. auto.
      + rewrite pget_pset_other in H; auto. destruct (K _ _ H) as [I|I].
        * left. apply in_done'. auto.
        * simpl in I. destruct I as [I|I]; [contradiction|auto].
    - intros d0 e0 I. rewrite pget_pset_other.
      + apply R. right. auto.
      + intro. subst. apply NR. apply in_map_iff. exists (d0, e0). auto.
    - apply NoDup_pset. auto.
  Qed.

  (* user objects: every git work space of L is found, possibly advanced, in L' *)
  Definition git_in_L (L : loopst) (g : gitws) : Prop :=
    git_in_nodes (l_nodes L) g \/ exists a, In a (l_attic L) /\ git_in_nodes a g.
  Definition lpres (L L' : loopst) : Prop :=
    forall g, git_in_L L g -> exists g', git_in_L L' g' /\ gpres st g g'.

  Lemma lpres_refl : forall L, lpres L L.
  Proof. intros L g H. exists g. split; auto. apply gpres_refl. Qed.

  (* the nodes after a (successful or failed) switch attempt at d *)
  Lemma after_switch : forall L done rest d e snew sold ns1 ok,
    linv L done rest ->
    tracker_match (l_tracker L) d = None ->
    pget newmap d = Some snew -> pget (l_ds L) d = Some e -> de_spec e = Some sold ->
    can_switch snew sold = true ->
    do_switch st up (l_nodes L) d snew sold = (ns1, ok) ->
    (forall p g, pget ns1 p = Some (NGit g) -> ginv st g) /\
    (forall p g, pget ns1 p = Some (NGit g) ->
       exists e' s, pget (l_ds L) p = Some e' /\ de_spec e' = Some s /\ is_git s = true) /\
    (forall r k p, In (r, k) (l_tracker L) -> is_prefix r p = true -> pget ns1 p = None) /\
    (forall p g, pget (l_nodes L) p = Some (NGit g) -> exists g', pget ns1 p = Some (NGit g') /\ gpres st g g') /\
    (forall g, pget ns1 d = Some (NGit g) -> is_git snew = true).
  Proof.
    intros L done rest d e snew sold ns1 ok LI T NM HD SP CS DS.
    assert (OKO : scm_ok st sold).
    { destruct (di_ent _ _ _ (li_d _ _ _ LI) _ _ HD) as (s & E1 & E2 & _). rewrite SP in E1. inversion E1. subst. auto. }
    destruct (do_switch_facts _ _ _ _ _ _ _ _ W UO (NEWOK _ _ NM) OKO
                (fun g H => li_ginv _ _ _ LI d g H) DS) as [E|(g & g' & P & E & GP & GI & K1 & K2)].
    - subst ns1. split; [|split; [|split; [|split]]].
      + apply (li_ginv _ _ _ LI).
      + apply (li_rec _ _ _ LI).
      + apply (li_clear _ _ _ LI).
      + intros p g H. exists g. split; auto. apply gpres_refl.
      + intros g H. destruct (li_rec _ _ _ LI _ _ H) as (e' & s & E1 & E2 & E3).
        rewrite HD in E1. inversion E1. subst e'. rewrite SP in E2. inversion E2. subst s.
        rewrite (can_switch_kind _ _ CS). auto.
    - subst ns1. split; [|split; [|split; [|split]]].
      + intros p x H. apply put_node_git in H. destruct H as [[-> H]|[_ H]].
        * inversion H. subst. auto.
        * eapply (li_ginv _ _ _ LI); eauto.
      + intros p x H. apply put_node_git in H. destruct H as [[-> H]|[_ H]].
        * eapply (li_rec _ _ _ LI); eauto.
        * eapply (li_rec _ _ _ LI); eauto.
      + intros r k p I PR.
        destruct (pget (put_node (l_nodes L) d (NGit g')) p) eqn:Q; auto. exfalso.
        assert (PD : is_prefix p d = true).
        { eapply put_node_new; [eapply (li_clear _ _ _ LI); eauto|]. rewrite Q. discriminate. }
        pose proof (tracker_match_none _ _ _ _ T I) as F. rewrite (prefix_trans _ _ _ PR PD) in F. discriminate.
      + intros p x H. destruct (list_eq_dec N.eq_dec p d) as [->|NE].
        * rewrite P in H. inversion H as [HX]. rewrite <- HX. exists g'. split; auto. apply pget_put_node_same.
        * exists x. split; [|apply gpres_refl]. apply put_node_keeps; auto.
      + intros g0 _. auto.
  Qed.

  Lemma nth_error_app_l : forall A (l l' : list A) n, (n < length l)%nat -> nth_error (l ++ l') n = nth_error l n.
  Proof. intros. apply nth_error_app1. auto. Qed.

  Lemma tracker_index_lt : forall L done rest r k,
    linv L done rest -> In (r, k) (l_tracker L) -> (N.to_nat k < length (l_attic L))%nat.
  Proof.
    intros L done rest r k LI I. destruct (li_attic_old _ _ _ LI) as (newa & E1 & E2 & E3).
    assert (In k (map snd (l_tracker L))) by (apply in_map_iff; exists (r, k); auto).
    rewrite E3 in H. apply in_map_iff in H. destruct H as (i & E & Hi). apply in_seq in Hi.
    subst k. rewrite Nat2N.id. rewrite E1, app_length. lia.
  Qed.

  (* nodes the attic decision is taken on *)
  Lemma before_attic_facts : forall L done rest d e nsX decX,
    linv L done ((d, e) :: rest) ->
    tracker_match (l_tracker L) d = None ->
    nodes_before_attic st up newmap L d e nsX decX ->
    (forall p g, pget nsX p = Some (NGit g) -> ginv st g) /\
    (forall p g, pget nsX p = Some (NGit g) ->
       exists e' s, pget (l_ds L) p = Some e' /\ de_spec e' = Some s /\ is_git s = true) /\
    (forall r k p, In (r, k) (l_tracker L) -> is_prefix r p = true -> pget nsX p = None) /\
    (forall p g, pget (l_nodes L) p = Some (NGit g) -> exists g', pget nsX p = Some (NGit g') /\ gpres st g g').
  Proof.
    intros L done rest d e nsX decX LI T [[-> _]|(snew & sold & NM & SP & CS & DS & _)].
    - split; [|split; [|split]].
      + apply (li_ginv _ _ _ LI).
      + apply (li_rec _ _ _ LI).
      + apply (li_clear _ _ _ LI).
      + intros p g H. exists g. split; auto. apply gpres_refl.
    - assert (HD : pget (l_ds L) d = Some e) by (apply (di_rest _ _ _ (li_d _ _ _ LI)); left; auto).
      destruct (after_switch _ _ _ _ _ _ _ _ _ LI T NM HD SP CS DS) as (A1 & A2 & A3 & A4 & _). auto.
  Qed.

  Lemma linv_step : forall L done rest d e,
    linv L done ((d, e) :: rest) ->
    (forall x, In x done -> path_leb (fst x) d = true) ->
    ~ In d (map fst done) -> ~ In d (map fst rest) ->
    (forall x, In x ((d, e) :: rest) -> In x ds1) ->
    linv (loop_step st up newmap L (d, e)) (done ++ [(d, e)]) rest /\
    lpres L (loop_step st up newmap L (d, e)).
  Proof.
    intros L done rest d e LI SRT NDd NDr SUB.
    pose proof (li_d _ _ _ LI) as DI.
    assert (HD : pget (l_ds L) d = Some e) by (apply (di_rest _ _ _ DI); left; auto).
    assert (INDS : In (d, e) ds1) by (apply SUB; left; auto).
    destruct (loop_step_cases st up newmap L d e)
      as [r k T E | T E Q | snew sold ns1 T NM SP CS DS E | nsX decX T NB X E | nsX decX T NB E]; rewrite E; clear E.
    - (* ---- affected by a directory moved earlier *)
      destruct (tracker_match_some _ _ _ _ T) as [IT PT].
      assert (NOD : pget (l_nodes L) d = None) by (eapply (li_clear _ _ _ LI); eauto).
      split.
      + constructor; simpl.
        * apply (li_ginv _ _ _ LI).
        * intros p g H. destruct (li_rec _ _ _ LI _ _ H) as (e' & s & E1 & E2 & E3).
          exists e', s. split; auto. rewrite pget_pdel_other; auto. intro. subst. congruence.
        * apply dinv_pdel; auto.
        * apply (li_clear _ _ _ LI).
        * apply (li_ex _ _ _ LI).
        * apply (li_attic_old _ _ _ LI).
        * apply (li_attic_new _ _ _ LI).
        * intros x I. apply in_app_or in I. destruct I as [I|[I|[]]].
          -- apply (li_astate _ _ _ LI). auto.
          -- right. exists r, k, d, e. auto.
      + intros g [H|H]; exists g; (split; [|apply gpres_refl]); [left|right]; auto.
    - (* ---- unchanged *)
      split; [|apply lpres_refl].
      constructor; try apply LI. apply dinv_same; auto.
    - (* ---- switched in place *)
      destruct (after_switch _ _ _ _ _ _ _ _ _ LI T NM HD SP CS DS) as (A1 & A2 & A3 & A4 & A5).
      split.
      + constructor; simpl; try apply LI; auto.
        * intros p g H. destruct (list_eq_dec N.eq_dec d p) as [->|NE].
          -- rewrite pget_pset_same. eexists. exists snew. split; [reflexivity|]. split; auto. simpl. eauto.
          -- rewrite pget_pset_other; auto. eapply A2; eauto.
        * apply dinv_pset; auto.
      + intros g [[p H]|H].
        * destruct (A4 _ _ H) as (g' & H' & GP). exists g'. split; auto. left. exists p. auto.
        * exists g. split; [right; auto|apply gpres_refl].
    - (* ---- the directory does not exist (any more) *)
      destruct (before_attic_facts _ _ _ _ _ _ _ LI T NB) as (A1 & A2 & A3 & A4).
      assert (NOD : pget nsX d = None).
      { destruct d as [|x d'].
        - exfalso. destruct (li_ex _ _ _ LI X) as [k I].
          pose proof (tracker_match_none _ _ _ _ T I) as F. simpl in F. discriminate.
        - destruct (pget nsX (x :: d')) eqn:G; auto. apply pget_some_exists in G. congruence. }
      split.
      + constructor; simpl; try apply LI; auto.
        * intros p g H. destruct (A2 _ _ H) as (e' & s & E1 & E2 & E3).
          exists e', s. split; auto. rewrite pget_pdel_other; auto. intro. subst. congruence.
        * apply dinv_pdel; auto.
      + intros g [[p H]|H].
        * destruct (A4 _ _ H) as (g' & H' & GP). exists g'. split; auto. left. exists p. auto.
        * exists g. split; [right; auto|apply gpres_refl].
    - (* ---- moved to the attic *)
      destruct (before_attic_facts _ _ _ _ _ _ _ LI T NB) as (A1 & A2 & A3 & A4).
      set (k := N.of_nat (length (l_attic L))).
      set (moved := map (rebase_path d) (filter (under d) nsX)).
      destruct (li_attic_old _ _ _ LI) as (newa & EA1 & EA2 & EA3).
      split.
      + constructor; simpl.
        * intros p g H. rewrite pget_not_under in H. destruct (is_prefix d p); [discriminate|eauto].
        * intros p g H. rewrite pget_not_under in H. destruct (is_prefix d p) eqn:PD; [discriminate|].
          destruct (A2 _ _ H) as (e' & s & E1 & E2 & E3). exists e', s. split; auto.
          rewrite pget_pdel_other; auto. intro. subst. rewrite prefix_refl in PD. discriminate.
        * apply dinv_pdel; auto.
        * intros r k0 p I PR. rewrite pget_not_under. destruct (is_prefix d p) eqn:PD; auto.
          apply in_app_or in I. destruct I as [I|[I|[]]].
          -- eapply A3; eauto.
          -- inversion I. subst. congruence.
        * intros EX. destruct d as [|x d'].
          -- exists k. apply in_or_app. right. left. auto.
          -- destruct (li_ex _ _ _ LI EX) as [k0 I]. exists k0. apply in_or_app. auto.
        * exists (newa ++ [moved]). rewrite EA1. rewrite <- app_assoc. split; auto.
          rewrite !app_length. simpl. split; [lia|].
          rewrite map_app. simpl. rewrite EA3. rewrite Nat.add_1_r. rewrite seq_S. rewrite map_app. simpl.
          unfold k. rewrite EA1, app_length. auto.
        * intros r k0 a p g I NT PG. apply in_app_or in I. destruct I as [I|[I|[]]].
          -- rewrite nth_error_app_l in NT by (eapply tracker_index_lt; eauto).
             eapply (li_attic_new _ _ _ LI); eauto.
          -- inversion I. subst r k0. unfold k in NT. rewrite Nat2N.id in NT.
             rewrite nth_error_app2 in NT by lia. rewrite Nat.sub_diag in NT. simpl in NT. inversion NT. subst a.
             unfold moved in PG. rewrite pget_rebased in PG.
             split; [eauto|].
             destruct (A2 _ _ PG) as (e' & s & E1 & E2 & E3). exists e', s. split; auto.
             destruct p as [|y p'].
             ++ rewrite app_nil_r in *. rewrite HD in E1. inversion E1. subst. auto.
             ++ destruct (di_keys _ _ _ DI _ _ E1) as [ID|IR].
                ** exfalso. apply in_map_iff in ID. destruct ID as [[d0 e0] [E0 ID]]. simpl in E0. subst d0.
                   pose proof (SRT _ ID) as LE. simpl in LE.
                   assert (d ++ y :: p' = d).
                   { apply path_leb_antisym; auto. apply prefix_leb. apply prefix_app. }
                   rewrite <- (app_nil_r d) in H at 2. apply app_inv_head in H. discriminate.
                ** simpl in IR. destruct IR as [IR|IR].
                   --- exfalso. rewrite <- (app_nil_r d) in IR at 1. apply app_inv_head in IR. discriminate.
                   --- apply in_map_iff in IR. destruct IR as [[d0 e0] [E0 IR]]. simpl in E0. subst d0.
                       pose proof (di_rest _ _ _ DI _ _ (or_intror IR)) as G. rewrite G in E1. inversion E1. subst e0.
                       apply SUB. right. auto.
        * intros x I. apply in_app_or in I. destruct I as [I|[I|[]]].
          -- destruct (li_astate _ _ _ LI _ I) as [O|(r & k0 & d0 & e0 & E0 & I0 & J0 & P0)]; auto.
             right. exists r, k0, d0, e0. repeat split; auto. apply in_or_app. auto.
          -- right. exists d, k, d, e. rewrite skipn_self. repeat split; auto.
             ++ apply in_or_app. right. left. auto.
             ++ apply prefix_refl.
      + intros g [[p H]|[a [IA H]]].
        * destruct (A4 _ _ H) as (g' & H' & GP). exists g'. split; auto.
          destruct (is_prefix d p) eqn:PD.
          -- right. exists moved. split; [apply in_or_app; right; left; auto|].
             exists (skipn (length d) p). unfold moved. rewrite pget_rebased. rewrite <- prefix_app_skipn; auto.
          -- left. exists p. rewrite pget_not_under. rewrite PD. auto.
        * exists g. split; [|apply gpres_refl]. right. exists a. split; auto. apply in_or_app. auto.
  Qed.
End Loop.
