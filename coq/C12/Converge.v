(* C12 — convergence of an untouched git directory: after a successful
   GitScm.switch / invoke the work tree is the tree of HEAD, and HEAD is the
   commit a fresh checkout would select, except in the named shapes. *)
From Coq Require Import List NArith Bool Lia.
Require Import BobV.Common.Cases BobV.C12.Model BobV.C12.Proofs.
Import ListNotations.
Open Scope N_scope.

(* the work tree has no modification and no untracked file *)
Definition gclean (st : store) (g : gitws) : Prop := tree_equiv (g_wt g) (head_tree st g).

(* what a fresh checkout of (url, rev) selects *)
Definition fresh_target (up : upstream) (url : N) (r : gitrev) : option cid :=
  match aget (up_git up) url with
  | None => None
  | Some ur =>
      match r with
      | RBranch b => aget (u_branches ur) b
      | RTag t | RTagOn _ t => aget (u_tags ur) t
      | RCommit c | RCommitOn _ c => Some c
      end
  end.

Lemma same_local_clean : forall st g g', same_local g g' -> gclean st g -> gclean st g'.
Proof.
  intros st g g' (B & H & W) C f. unfold gclean, tree_equiv, head_tree, head_commit in *.
  rewrite B, H, W. apply C.
Qed.

Lemma move_clean : forall st g t wt' br h,
  gclean st g -> move_wt st g t = Some wt' ->
  (match h with HBranch b => aget br b | HDetached c => Some c end) = Some t ->
  gclean st (with_co g br h wt').
Proof.
  intros st g t wt' br h C M Hh. unfold gclean. rewrite head_tree_with_co, Hh. simpl.
  unfold move_wt in M. eapply checkout_wt_clean; eauto.
Qed.

Lemma co_new_branch_clean : forall st g b s g' ok,
  gclean st g -> co_new_branch st g b s = (g', ok) ->
  gclean st g' /\ (ok = true -> g_head g' = HBranch b /\ head_commit g' = s /\ g_remotes g' = g_remotes g).
Proof.
  intros st g b s g' ok C H. unfold co_new_branch in H.
  destruct s as [c|]; [|inversion H; subst; split; auto; discriminate].
  destruct (aget (g_branches g) b) eqn:B; [inversion H; subst; split; auto; discriminate|].
  destruct (move_wt st g c) as [wt'|] eqn:M; [|inversion H; subst; split; auto; discriminate].
  inversion H; subst. split.
  - eapply move_clean; eauto. simpl. apply aget_aset_same.
  - intros _. unfold head_commit. simpl. rewrite aget_aset_same. auto.
Qed.

Lemma co_branch_clean : forall st g b g' ok,
  gclean st g -> co_branch st g b = (g', ok) ->
  gclean st g' /\ (ok = true -> g_head g' = HBranch b /\ g_branches g' = g_branches g /\ g_remotes g' = g_remotes g
                               /\ g_tags g' = g_tags g /\ g_objs g' = g_objs g).
Proof.
  intros st g b g' ok C H. unfold co_branch in H.
  destruct (aget (g_branches g) b) as [c|] eqn:B; [|inversion H; subst; split; auto; discriminate].
  destruct (move_wt st g c) as [wt'|] eqn:M; [|inversion H; subst; split; auto; discriminate].
  inversion H; subst. split.
  - eapply move_clean; eauto.
  - intros _. simpl. auto.
Qed.

Lemma co_detach_clean : forall st g oc g' ok,
  gclean st g -> co_detach st g oc = (g', ok) ->
  gclean st g' /\ (ok = true -> head_commit g' = oc).
Proof.
  intros st g oc g' ok C H. unfold co_detach in H.
  destruct oc as [c|]; [|inversion H; subst; split; auto; discriminate].
  destruct (move_wt st g c) as [wt'|] eqn:M; [|inversion H; subst; split; auto; discriminate].
  inversion H; subst. split.
  - eapply move_clean; eauto.
  - intros _. reflexivity.
Qed.

(* after a successful fast-forward merge HEAD is the remote tip, or already contained it *)
Lemma merge_ff_clean : forall st g b g' ok,
  gclean st g -> merge_ff st g b = (g', ok) ->
  gclean st g' /\
  (ok = true -> exists t h, aget (g_remotes g) b = Some t /\ head_commit g' = Some h /\ g_head g' = g_head g /\
                            (h = t \/ (head_commit g = Some h /\ is_anc st t h = true))).
Proof.
  intros st g b g' ok C H. unfold merge_ff in H.
  destruct (aget (g_remotes g) b) as [t|] eqn:R; [|inversion H; subst; split; auto; discriminate].
  destruct (g_head g) as [hb|d] eqn:Hd; [|inversion H; subst; split; auto; discriminate].
  destruct (aget (g_branches g) hb) as [h|] eqn:B; [|inversion H; subst; split; auto; discriminate].
  destruct (is_anc st t h) eqn:A1.
  { inversion H; subst. split; auto. intros _. exists t, h. repeat split; auto.
    - unfold head_commit. rewrite Hd. auto.
    - right. split; auto. unfold head_commit. rewrite Hd. auto. }
  destruct (is_anc st h t) eqn:A2; [|inversion H; subst; split; auto; discriminate].
  destruct (move_wt st g t) as [wt'|] eqn:M; [|inversion H; subst; split; auto; discriminate].
  inversion H; subst. split.
  - eapply move_clean; eauto. simpl. apply aget_aset_same.
  - intros _. exists t, t. repeat split; auto. unfold head_commit. simpl. apply aget_aset_same.
Qed.

Lemma reset_keep_clean : forall st g c g' ok,
  gclean st g -> reset_keep st g c = (g', ok) ->
  gclean st g' /\ (ok = true -> head_commit g' = Some c).
Proof.
  intros st g c g' ok C H. unfold reset_keep in H.
  destruct (g_head g) as [hb|d] eqn:Hd; [|inversion H; subst; split; auto; discriminate].
  destruct (move_wt st g c) as [wt'|] eqn:M; [|inversion H; subst; split; auto; discriminate].
  inversion H; subst. split.
  - eapply move_clean; eauto. simpl. apply aget_aset_same.
  - intros _. unfold head_commit. simpl. apply aget_aset_same.
Qed.

(* what a successful fetch leaves in the remote tracking refs and tags *)
Lemma follow_tags_keeps : forall st objs rtags tags t c,
  aget tags t = Some c -> aget (follow_tags st objs rtags tags) t = Some c.
Proof.
  induction rtags as [|[t0 c0] r IH]; intros tags t c H; simpl; auto.
  destruct (is_some (aget (follow_tags st objs r tags) t0)) eqn:S; auto.
  destruct (has_obj st objs c0); auto.
  destruct (N.eq_dec t0 t) as [->|N].
  - rewrite (IH _ _ _ H) in S. discriminate.
  - rewrite aget_aset_other; auto.
Qed.

Lemma fetch_ok_facts : forall st up g tag g1,
  fetch st up g tag = (g1, true) ->
  same_local g g1 /\ g_url g1 = g_url g /\
  exists ur, aget (up_git up) (g_url g) = Some ur /\ g_remotes g1 = u_branches ur /\
    (forall t, tag = Some t -> exists c, aget (u_tags ur) t = Some c /\ aget (g_tags g1) t = Some c) /\
    (forall t c, aget (g_tags g) t = Some c -> aget (g_tags g1) t = Some c).
Proof.
  intros st up g tag g1 H. unfold fetch in H.
  destruct (aget (up_git up) (g_url g)) as [ur|] eqn:R; [|inversion H].
  destruct tag as [t|].
  - destruct (aget (u_tags ur) t) as [c|] eqn:T; [|inversion H].
    destruct (aget (g_tags g) t) as [c'|] eqn:T'.
    + inversion H as [[E1 E2]]. apply N.eqb_eq in E2. subst c'.
      repeat split; auto. exists ur. repeat split; auto.
      * intros t0 E. inversion E. subst. exists c. split; auto. simpl. apply follow_tags_keeps. auto.
      * intros. simpl. apply follow_tags_keeps. auto.
    + inversion H. subst. repeat split; auto. exists ur. repeat split; auto.
      * intros t0 E. inversion E. subst. exists c. split; auto. simpl. apply follow_tags_keeps.
        apply aget_aset_same.
      * intros t0 c0 A. simpl. apply follow_tags_keeps. rewrite aget_aset_other; auto.
        intro. subst. congruence.
  - inversion H. subst. repeat split; auto. exists ur. repeat split; auto.
    + intros t E. discriminate.
    + intros. simpl. apply follow_tags_keeps. auto.
Qed.

(* the named shapes in which an untouched directory does not end up on the
   commit [tgt] a fresh checkout selects *)
Definition ahead_of_upstream (st : store) (r : gitrev) (tgt : cid) (g' : gitws) : Prop :=
  exists b h, r = RBranch b /\ head_commit g' = Some h /\ h <> tgt /\ is_anc st tgt h = true.
Definition stale_local_tag (r : gitrev) (tgt : cid) (g : gitws) : Prop :=
  exists b t c, r = RTagOn b t /\ aget (g_tags g) t = Some c /\ c <> tgt.

Definition converged (st : store) (tgt : cid) (g' : gitws) : Prop :=
  head_commit g' = Some tgt /\ tree_equiv (g_wt g') (tree_of st (Some tgt)).

Lemma clean_converged : forall st g' c, gclean st g' -> head_commit g' = Some c -> converged st c g'.
Proof.
  intros st g' c C H. split; auto. unfold gclean, head_tree in C. rewrite H in C. exact C.
Qed.

Lemma with_url_clean : forall st g u, gclean st g -> gclean st (with_url g u).
Proof. intros. eapply same_local_clean; eauto. apply (with_url_facts st g u). Qed.

(* checkout of a branch, switching *)
Lemma checkout_branch_conv : forall st up g b url g' tgt,
  gclean st g -> g_url g = url -> fresh_target up url (RBranch b) = Some tgt ->
  checkout_branch st up g b true = (g', true) ->
  gclean st g' /\ (converged st tgt g' \/ ahead_of_upstream st (RBranch b) tgt g').
Proof.
  intros st up g b url g' tgt C U FT H. unfold checkout_branch in H.
  destruct (fetch st up g None) as [g1 ok1] eqn:F. destruct ok1; cbn [negb] in H; [|inversion H].
  destruct (fetch_ok_facts _ _ _ _ _ F) as (SL & U1 & ur & UR & RM & _ & _).
  assert (C1 : gclean st g1) by (eapply same_local_clean; eauto).
  assert (FT1 : aget (g_remotes g1) b = Some tgt).
  { unfold fresh_target in FT. rewrite <- U, UR in FT. rewrite RM. auto. }
  assert (NEW : forall g2, co_new_branch st g1 b (aget (g_remotes g1) b) = (g2, true) ->
                gclean st g2 /\ (converged st tgt g2 \/ ahead_of_upstream st (RBranch b) tgt g2)).
  { intros g2 H2. destruct (co_new_branch_clean _ _ _ _ _ _ C1 H2) as [C2 K]. split; auto.
    destruct (K eq_refl) as (_ & HC & _). left. apply clean_converged; auto. congruence. }
  destruct (head_valid g1).
  2:{ cbn [negb] in H. apply NEW. auto. }
  cbn [negb] in H.
  destruct (aget (g_branches g1) b) eqn:B; [|apply NEW; auto].
  destruct (co_branch st g1 b) as [g2 ok2] eqn:CB. destruct ok2; [|inversion H].
  destruct (co_branch_clean _ _ _ _ _ C1 CB) as [C2 K]. destruct (K eq_refl) as (_ & _ & RM2 & _).
  destruct (merge_ff_clean _ _ _ _ _ C2 H) as [C3 K3]. split; auto.
  destruct (K3 eq_refl) as (t & h & R & HC & _ & D).
  rewrite RM2, FT1 in R. inversion R. subst t.
  destruct (N.eq_dec h tgt) as [->|NE].
  - left. apply clean_converged; auto.
  - right. destruct D as [D|[_ D]]; [contradiction|].
    exists b, h. repeat split; auto.
Qed.

Lemma resolve_target : forall st up g g1 url r c tgt,
  g_url g = url -> fetch st up g (rev_tag r) = (g1, true) ->
  (match r with RBranch _ => False | _ => True end) ->
  fresh_target up url r = Some tgt ->
  resolve_rev st g1 r = Some c -> c = tgt.
Proof.
  intros st up g g1 url r c tgt U F NB FT R.
  destruct (fetch_ok_facts _ _ _ _ _ F) as (_ & _ & ur & UR & _ & TG & _).
  unfold fresh_target in FT. rewrite <- U, UR in FT.
  destruct r; simpl in *; try contradiction.
  - destruct (TG t eq_refl) as [c' [T1 T2]]. congruence.
  - destruct (has_obj st (g_objs g1) c0); inversion R. congruence.
  - destruct (TG t eq_refl) as [c' [T1 T2]]. congruence.
  - destruct (has_obj st (g_objs g1) c0); inversion R. congruence.
Qed.

Lemma checkout_tag_conv : forall st up g r url g' tgt,
  gclean st g -> g_url g = url -> (match r with RBranch _ => False | _ => True end) ->
  fresh_target up url r = Some tgt ->
  checkout_tag st up g r true = (g', true) ->
  gclean st g' /\ converged st tgt g'.
Proof.
  intros st up g r url g' tgt C U NB FT H. unfold checkout_tag in H.
  rewrite orb_true_r in H.
  destruct (fetch st up g (rev_tag r)) as [g1 ok1] eqn:F. destruct ok1; cbn [negb] in H; [|inversion H].
  destruct (fetch_ok_facts _ _ _ _ _ F) as (SL & _).
  assert (C1 : gclean st g1) by (eapply same_local_clean; eauto).
  destruct (co_detach_clean _ _ _ _ _ C1 H) as [C2 K]. split; auto.
  specialize (K eq_refl).
  destruct (resolve_rev st g1 r) as [c|] eqn:R.
  - apply clean_converged; auto. rewrite K. f_equal. eapply resolve_target; eauto.
  - unfold co_detach in H. inversion H.
Qed.

Definition on_branch_rev (b : N) (r : gitrev) : Prop :=
  (exists t, r = RTagOn b t) \/ (exists c, r = RCommitOn b c).

Lemma checkout_tag_on_branch_conv : forall st up g b r url g' tgt,
  gclean st g -> g_url g = url -> on_branch_rev b r ->
  fresh_target up url r = Some tgt ->
  checkout_tag_on_branch st up g b r true = (g', true) ->
  gclean st g' /\ (converged st tgt g' \/ stale_local_tag r tgt g).
Proof.
  intros st up g b r url g' tgt C U SH FT H. unfold checkout_tag_on_branch in H.
  rewrite andb_false_r in H.
  assert (NB : match r with RBranch _ => False | _ => True end).
  { destruct SH as [[t E]|[c E]]; rewrite E; exact I. }
  match type of H with (if ?hv && ?c then _ else _) = _ => destruct (hv && c) eqn:AT end.
  - (* HEAD already at the commit / at what the LOCAL tag names *)
    inversion H. subst g'. split; auto.
    apply andb_true_iff in AT. destruct AT as [_ AT].
    destruct SH as [[t E]|[c E]]; subst r.
    + destruct (aget (g_tags g) t) as [c|] eqn:T; [|discriminate]. apply oeqb_spec in AT.
      destruct (N.eq_dec c tgt) as [->|NE].
      * left. apply clean_converged; auto.
      * right. exists b, t, c. auto.
    + apply oeqb_spec in AT. left. apply clean_converged; auto.
      unfold fresh_target in FT. destruct (aget (up_git up) url); inversion FT. subst. auto.
  - destruct (fetch st up g (rev_tag r)) as [g1 ok1] eqn:F. destruct ok1; cbn [negb] in H; [|inversion H].
    destruct (fetch_ok_facts _ _ _ _ _ F) as (SL & _).
    assert (C1 : gclean st g1) by (eapply same_local_clean; eauto).
    destruct (resolve_rev st g1 r) as [c|] eqn:R; [|inversion H].
    assert (c = tgt) by (eapply resolve_target; eauto). subst c.
    destruct (aget (g_remotes g1) b) as [rb|]; [|inversion H].
    destruct (negb (is_anc st tgt rb)); [inversion H|].
    match type of H with (if ?c then _ else _) = _ => destruct c end.
    + destruct (co_new_branch_clean _ _ _ _ _ _ C1 H) as [C2 K]. split; auto.
      destruct (K eq_refl) as (_ & HC & _). left. apply clean_converged; auto.
    + destruct (co_branch st g1 b) as [g2 ok2] eqn:CB. destruct ok2; cbn [negb] in H; [|inversion H].
      destruct (co_branch_clean _ _ _ _ _ C1 CB) as [C2 _].
      destruct (contains_other st g2); cbn [negb] in H; [|inversion H].
      destruct (reset_keep_clean _ _ _ _ _ C2 H) as [C3 K]. split; auto.
      left. apply clean_converged; auto.
Qed.

(* GitScm.switch on an untouched directory *)
Theorem git_switch_converges : forall st up g oldr url newr g' tgt,
  gclean st g -> fresh_target up url newr = Some tgt ->
  git_switch st up g oldr url newr = (g', true) ->
  gclean st g' /\
  (converged st tgt g' \/ ahead_of_upstream st newr tgt g' \/ stale_local_tag newr tgt g).
Proof.
  intros st up g oldr url newr g' tgt C FT H. unfold git_switch in H.
  destruct (switch_guard g oldr newr); [|inversion H].
  unfold git_invoke in H.
  assert (C0 : gclean st (with_url g url)) by (apply with_url_clean; auto).
  assert (U0 : g_url (with_url g url) = url) by reflexivity.
  destruct newr.
  - destruct (checkout_branch_conv _ _ _ _ _ _ _ C0 U0 FT H) as [C' [K|K]]; auto.
  - destruct (checkout_tag_conv st up _ (RTag t) url g' tgt C0 U0 I FT H) as [C' K]; auto.
  - destruct (checkout_tag_conv st up _ (RCommit c) url g' tgt C0 U0 I FT H) as [C' K]; auto.
  - assert (SH : on_branch_rev b (RTagOn b t)) by (left; eauto).
    destruct (checkout_tag_on_branch_conv _ _ _ _ _ _ _ _ C0 U0 SH FT H) as [C' [K|K]]; auto.
  - assert (SH : on_branch_rev b (RCommitOn b c)) by (right; eauto).
    destruct (checkout_tag_on_branch_conv _ _ _ _ _ _ _ _ C0 U0 SH FT H) as [C' [K|K]]; auto.
Qed.

(* the regular update of an untouched directory that is on the configured branch *)
Theorem git_update_converges : forall st up g url b g' tgt,
  gclean st g -> g_url g = url -> g_head g = HBranch b -> head_valid g = true ->
  fresh_target up url (RBranch b) = Some tgt ->
  git_invoke st up g url (RBranch b) false = (g', true) ->
  gclean st g' /\ (converged st tgt g' \/ ahead_of_upstream st (RBranch b) tgt g').
Proof.
  intros st up g url b g' tgt C U HB HV FT H. unfold git_invoke, checkout_branch in H.
  destruct (fetch st up (with_url g url) None) as [g1 ok1] eqn:F. destruct ok1; cbn [negb] in H; [|inversion H].
  destruct (fetch_ok_facts _ _ _ _ _ F) as (SL & U1 & ur & UR & RM & _ & _).
  assert (C1 : gclean st g1).
  { apply (same_local_clean st (with_url g url) g1 SL). apply with_url_clean. auto. }
  assert (HV1 : head_valid g1 = true).
  { rewrite (same_local_head_valid _ _ SL). rewrite (same_local_head_valid g (with_url g url)); auto.
    apply (with_url_facts st g url). }
  rewrite HV1 in H. cbn [negb] in H.
  assert (HB1 : g_head g1 = HBranch b).
  { destruct SL as (_ & E & _). rewrite E. simpl. auto. }
  rewrite HB1 in H. rewrite N.eqb_refl in H.
  destruct (merge_ff_clean _ _ _ _ _ C1 H) as [C3 K3]. split; auto.
  destruct (K3 eq_refl) as (t & h & R & HC & _ & D).
  assert (t = tgt).
  { unfold fresh_target in FT. simpl in UR. rewrite UR in FT. rewrite RM in R. congruence. }
  subst t.
  destruct (N.eq_dec h tgt) as [->|NE].
  - left. apply clean_converged; auto.
  - right. destruct D as [D|[_ D]]; [contradiction|]. exists b, h. repeat split; auto.
Qed.

(* a fresh checkout into an empty directory ends on the target *)
Theorem git_fresh_checkout : forall st up url r g' tgt,
  fresh_target up url r = Some tgt ->
  git_invoke st up (g_init url []) url r false = (g', true) ->
  converged st tgt g'.
Proof.
  intros st up url r g' tgt FT H.
  assert (C : gclean st (g_init url [])) by (intro f; reflexivity).
  assert (C0 : gclean st (with_url (g_init url []) url)) by (apply with_url_clean; auto).
  unfold git_invoke in H. destruct r.
  - unfold checkout_branch in H.
    destruct (fetch st up (with_url (g_init url []) url) None) as [g1 ok1] eqn:F.
    destruct ok1; cbn [negb] in H; [|inversion H].
    destruct (fetch_ok_facts _ _ _ _ _ F) as (SL & U1 & ur & UR & RM & _ & _).
    assert (HV1 : head_valid g1 = false) by (rewrite (same_local_head_valid _ _ SL); reflexivity).
    rewrite HV1 in H. cbn [negb] in H.
    assert (C1 : gclean st g1) by (eapply same_local_clean; eauto).
    destruct (co_new_branch_clean _ _ _ _ _ _ C1 H) as [C2 K]. destruct (K eq_refl) as (_ & HC & _).
    apply clean_converged; auto. rewrite HC. unfold fresh_target in FT. simpl in UR. rewrite UR in FT.
    rewrite RM. auto.
  - unfold checkout_tag in H. cbn in H.
    assert (H' : checkout_tag st up (with_url (g_init url []) url) (RTag t) true = (g', true)).
    { unfold checkout_tag. rewrite orb_true_r. exact H. }
    eapply (checkout_tag_conv st up _ (RTag t) url g' tgt C0 eq_refl I FT H').
  - unfold checkout_tag in H. cbn in H.
    assert (H' : checkout_tag st up (with_url (g_init url []) url) (RCommit c) true = (g', true)).
    { unfold checkout_tag. rewrite orb_true_r. exact H. }
    eapply (checkout_tag_conv st up _ (RCommit c) url g' tgt C0 eq_refl I FT H').
  - assert (SH : on_branch_rev b (RTagOn b t)) by (left; eauto).
    assert (H' : checkout_tag_on_branch st up (with_url (g_init url []) url) b (RTagOn b t) true = (g', true)).
    { unfold checkout_tag_on_branch in *. cbn in *. exact H. }
    destruct (checkout_tag_on_branch_conv _ _ _ _ _ _ _ _ C0 eq_refl SH FT H') as [_ [K|K]]; auto.
    destruct K as (b0 & t0 & c0 & _ & T & _). cbn in T. discriminate.
  - assert (SH : on_branch_rev b (RCommitOn b c)) by (right; eauto).
    assert (H' : checkout_tag_on_branch st up (with_url (g_init url []) url) b (RCommitOn b c) true = (g', true)).
    { unfold checkout_tag_on_branch in *. cbn in *. exact H. }
    destruct (checkout_tag_on_branch_conv _ _ _ _ _ _ _ _ C0 eq_refl SH FT H') as [_ [K|K]]; auto.
    destruct K as (b0 & t0 & c0 & E & _). discriminate.
Qed.
