(* C12 — property theorems (statements only) and non-vacuity / refutation
   witnesses.  Git itself is modelled (Model.v) and validated differentially;
   what is proved here are the consequences of Bob's decisions on top. *)
From Coq Require Import List NArith Bool.
Require Import BobV.C12.Model BobV.C12.Proofs BobV.C12.Converge BobV.C12.Clean BobV.C12.Builder.
Import ListNotations.
Open Scope N_scope.

(* ---- user_objects_monotone -------------------------------------------- *)

(* Project level: whatever user commit (reachable from a local branch or a
   detached HEAD) or uncommitted file content exists in some git directory of
   some source workspace or attic after the history [ops1], still exists after
   any further sequence [ops2] of bob dev / bob dev --clean-checkout /
   bob clean -s / bob clean --attic runs with arbitrary recipes (valid per
   input.py) and arbitrary upstream states in between. *)
Theorem user_objects_monotone : forall st ops1 ops2 o,
  store_wf st -> Forall (op_ok st) (ops1 ++ ops2) -> Forall bob_op ops2 ->
  holds_P st (run_ops st [] ops1) o -> holds_P st (run_ops st [] (ops1 ++ ops2)) o.
Proof. exact user_objects_monotone_proof. Qed.

(* GitScm.invoke (update / creation of a checkout) keeps every user commit
   reachable from a local ref and every uncommitted file, whatever the upstream
   state and whether or not it succeeds. *)
Theorem git_invoke_keeps_user_objects : forall st up g url r g' ok,
  store_wf st -> up_ok' st up -> ginv st g ->
  git_invoke st up g url r false = (g', ok) ->
  (forall o, holds_g st g o -> holds_g st g' o) /\ ginv st g'.
Proof. intros. eapply git_invoke_pres; eauto. discriminate. Qed.

(* GitScm.switch (inline switch after a recipe change), including the partial
   effects of a switch that fails half way (detached-HEAD rule, ff-only merge,
   the "contains" guard of reset --keep). *)
Theorem git_switch_keeps_user_objects : forall st up g oldr url newr g' ok,
  store_wf st -> up_ok' st up -> ginv st g -> rev_ok st oldr -> rev_ok st newr ->
  git_switch st up g oldr url newr = (g', ok) ->
  (forall o, holds_g st g o -> holds_g st g' o) /\ ginv st g'.
Proof. exact git_switch_pres. Qed.

(* ---- attic_nested_consistent ------------------------------------------- *)

(* After the switch-or-attic loop over the recorded directories in
   checkoutsFromState order: every recorded directory at or below a directory
   that was moved to the attic is gone from the workspace state and is recorded
   as attic directory at the re-homed location with its old spec. *)
Theorem attic_nested_consistent : forall st up newmap ds L0 L r k d e,
  NoDup (map fst ds) -> l_tracker L0 = [] -> l_ds L0 = ds ->
  L = fold_left (loop_step st up newmap) (sort_paths ds) L0 ->
  In (r, k) (l_tracker L) -> In (d, e) ds -> is_prefix r d = true ->
  pget (l_ds L) d = None /\ In ((k, skipn (length r) d), de_spec e) (l_astate L).
Proof. exact attic_nested_consistent_proof. Qed.

(* ---- clean_requires_expendable ------------------------------------------ *)

Theorem clean_requires_expendable : forall st used w,
  w_exists w = true -> w_exists (clean_src_one st used w) = false ->
  used = false /\
  forall d e, In (d, e) (w_ds w) ->
    exists s, de_spec e = Some s /\ s_expendable (scm_status st (w_nodes w) d s) = true.
Proof. exact clean_src_requires_expendable_proof. Qed.

Theorem clean_attic_requires_expendable : forall st w ae,
  attic_deletable st w ae = true ->
  attic_expendable st w ae = true /\
  forall other, In other (w_astate w) ->
    fst (fst other) = fst (fst ae) -> strict_prefix (snd (fst ae)) (snd (fst other)) = true ->
    attic_exists w (fst other) = true -> attic_expendable st w other = true.
Proof. exact clean_attic_requires_expendable_proof. Qed.

(* ScmStatus.expendable implies that the directory holds no user object. *)
Theorem expendable_holds_nothing : forall st g nv url r o,
  store_wf st -> up_refs st g ->
  s_expendable (git_status st g nv url r) = true -> ~ holds_g st g o.
Proof. exact expendable_no_user_objects. Qed.

(* ---- untouched_converges (partial) -------------------------------------- *)

(* FULL STATEMENT (false of the faithful model, see the _refuted witnesses):
     forall untouched git directory g (clean work tree), after a successful
     inline switch / update to (url, rev): HEAD is the commit a fresh checkout
     selects and the work tree is its tree.
   PROVED: the same with the two named exceptions [ahead_of_upstream]
   (known finding inline-switch-leaves-branch-ahead-of-new-upstream, also the
   rewind half of untouched-not-converged-after-upstream-history-rewrite) and
   [stale_local_tag] (finding tag-on-branch-switch-trusts-stale-local-tag);
   the failing cases (non fast-forward rewrite, url digest change for the same
   url) are the _refuted / _stuck statements below. *)
Theorem untouched_converges_partial : forall st up g oldr url newr g' tgt,
  gclean st g -> fresh_target up url newr = Some tgt ->
  git_switch st up g oldr url newr = (g', true) ->
  gclean st g' /\
  (converged st tgt g' \/ ahead_of_upstream st newr tgt g' \/ stale_local_tag newr tgt g).
Proof. exact git_switch_converges. Qed.

Theorem untouched_update_converges_partial : forall st up g url b g' tgt,
  gclean st g -> g_url g = url -> g_head g = HBranch b -> head_valid g = true ->
  fresh_target up url (RBranch b) = Some tgt ->
  git_invoke st up g url (RBranch b) false = (g', true) ->
  gclean st g' /\ (converged st tgt g' \/ ahead_of_upstream st (RBranch b) tgt g').
Proof. exact git_update_converges. Qed.

Theorem fresh_checkout_reaches_target : forall st up url r g' tgt,
  fresh_target up url r = Some tgt ->
  git_invoke st up (g_init url []) url r false = (g', true) ->
  converged st tgt g'.
Proof. exact git_fresh_checkout. Qed.

Theorem url_invoke_verified : forall st up ns u dig d ns',
  invoke_scm st up ns (SUrl u dig d) = (ns', true) ->
  exists n b, pget ns' d = Some n /\ aget (node_files n) (url_fname u) = Some b /\
    match dig with Some dd => b = dd | None => aget (up_url up) u = Some b end.
Proof. exact url_invoke_result. Qed.

(* known finding url-digest-change-same-url-never-converges: the stale file stays, every run fails *)
Theorem url_digest_change_stuck : forall st up ns u dd d n x,
  pget ns d = Some n -> aget (node_files n) (url_fname u) = Some x -> x <> dd ->
  exists ns', invoke_scm st up ns (SUrl u (Some dd) d) = (ns', false) /\
    exists n', pget ns' d = Some n' /\ aget (node_files n') (url_fname u) = Some x.
Proof. exact url_digest_mismatch_is_stuck. Qed.

(* ---- witnesses ----------------------------------------------------------- *)

Definition ex_store : store :=
  [(1, mkC None [(0, 21)] false);
   (2, mkC (Some 1) [(0, 21); (1, 22)] false);
   (3, mkC (Some 2) [(0, 23); (1, 22)] false);
   (4, mkC (Some 3) [(0, 23); (1, 22); (10, 30)] true);      (* a local commit of the user *)
   (5, mkC (Some 1) [(0, 24)] false)].                       (* rewritten upstream history *)
Definition ex_up : upstream :=
  mkUp [(0, mkU [(0, 3)] [(0, 1)]); (1, mkU [(0, 2)] [(0, 2)]); (2, mkU [(0, 5)] [])] [(0, 40)] [].
Definition ex_g0 : gitws := fst (git_invoke ex_store ex_up (g_init 0 []) 0 (RBranch 0) false).
Definition ex_guser : gitws :=          (* user: local commit 4, then an uncommitted file *)
  user_op ex_store (user_op ex_store ex_g0 (UCommit 4)) (UWrite 11 31).

(* the inline switch to the repository that is behind succeeds and stays ahead *)
Example untouched_converges_refuted_ahead :
  gclean ex_store ex_g0 /\ fresh_target ex_up 1 (RBranch 0) = Some 2 /\
  exists g', git_switch ex_store ex_up ex_g0 (RBranch 0) 1 (RBranch 0) = (g', true) /\
             head_commit g' = Some 3.
Proof.
  split; [intro f; reflexivity|]. split; [reflexivity|].
  eexists. split; vm_compute; reflexivity.
Qed.

(* branch+tag: the local tag of the old repository is trusted *)
Definition ex_gtag : gitws := fst (git_invoke ex_store ex_up (g_init 0 []) 0 (RTagOn 0 0) false).
Example untouched_converges_refuted_stale_tag :
  gclean ex_store ex_gtag /\ fresh_target ex_up 1 (RTagOn 0 0) = Some 2 /\
  exists g', git_switch ex_store ex_up ex_gtag (RTagOn 0 0) 1 (RTagOn 0 0) = (g', true) /\
             head_commit g' = Some 1.
Proof.
  split; [intro f; reflexivity|]. split; [reflexivity|].
  eexists. split; vm_compute; reflexivity.
Qed.

(* upstream history rewrite: the update of the untouched directory fails, a fresh checkout works *)
Definition ex_up_rewritten : upstream := mkUp [(0, mkU [(0, 5)] [(0, 1)])] [] [].
Example untouched_converges_refuted_rewrite :
  snd (git_invoke ex_store ex_up_rewritten ex_g0 0 (RBranch 0) false) = false /\
  snd (git_invoke ex_store ex_up_rewritten (g_init 0 []) 0 (RBranch 0) false) = true.
Proof. split; vm_compute; reflexivity. Qed.

(* non-vacuity: convergence does happen (switch master -> commit 2, tag, other repo ahead) *)
Example untouched_converges_nonvacuous :
  exists g', git_switch ex_store ex_up ex_g0 (RBranch 0) 0 (RCommitOn 0 2) = (g', true) /\
             head_commit g' = Some 2 /\ g_wt g' = [(0, 21); (1, 22)].
Proof. eexists. split; [|split]; vm_compute; reflexivity. Qed.

(* non-vacuity of user_objects: a user commit on master and a dirty file; the switch to the
   pinned older commit is refused by the "contains" guard (nothing else holds commit 4), the
   directory keeps both objects (and then goes to the attic as a whole) *)
Example user_objects_nonvacuous :
  holds_g ex_store ex_guser (OCommit 4) /\ holds_g ex_store ex_guser (OFile 11 31) /\
  exists g', git_switch ex_store ex_up ex_guser (RBranch 0) 0 (RCommitOn 0 2) = (g', false) /\
             aget (g_branches g') 0 = Some 4 /\ aget (g_wt g') 11 = Some 31.
Proof.
  split; [|split].
  - split.
    + exists (mkC (Some 3) [(0, 23); (1, 22); (10, 30)] true). split; reflexivity.
    + exists 4. split; [left; exists 0; vm_compute; reflexivity | apply R_refl].
  - split; vm_compute; [reflexivity | discriminate].
  - eexists. split; [|split]; vm_compute; reflexivity.
Qed.

(* an expendable directory exists (fresh checkout), and the user's directory is not expendable *)
Example expendable_nonvacuous :
  s_expendable (git_status ex_store ex_g0 false 0 (RBranch 0)) = true /\
  s_expendable (git_status ex_store ex_guser false 0 (RBranch 0)) = false.
Proof. split; vm_compute; reflexivity. Qed.

(* project level non-vacuity: build, user commit + dirty file; the recipe then pins an older commit on
   the branch (switch refused by the reset --keep guard -> attic), followed by clean --attic, clean -s
   and a --clean-checkout build from another repository: both objects are in the attic directory *)
Definition ex_ops1 : list op :=
  [OBuild false ex_up [(0, [SGit 0 (RBranch 0) [1]])]; OUser 0 [1] (UCommit 4); OUser 0 [1] (UWrite 11 31)].
Definition ex_ops2 : list op :=
  [OBuild false ex_up [(0, [SGit 0 (RCommitOn 0 2) [1]])]; OCleanAttic; OCleanSrc []; OBuild true ex_up [(0, [SGit 1 (RBranch 0) [1]])]].
Example user_objects_monotone_nonvacuous :
  holds_P ex_store (run_ops ex_store [] ex_ops1) (OCommit 4) /\
  holds_P ex_store (run_ops ex_store [] ex_ops1) (OFile 11 31) /\
  exists w a g, aget (run_ops ex_store [] (ex_ops1 ++ ex_ops2)) 0 = Some w /\ w_attic w = [a] /\
                pget a [] = Some (NGit g) /\ aget (g_branches g) 0 = Some 4 /\ aget (g_wt g) 11 = Some 31.
Proof.
  split; [|split].
  - exists 0. eexists. split; [vm_compute; reflexivity|].
    eexists. split; [left; exists [1]; vm_compute; reflexivity|].
    split.
    + exists (mkC (Some 3) [(0, 23); (1, 22); (10, 30)] true). split; reflexivity.
    + exists 4. split; [left; exists 0; vm_compute; reflexivity|apply R_refl].
  - exists 0. eexists. split; [vm_compute; reflexivity|].
    eexists. split; [left; exists [1]; vm_compute; reflexivity|].
    split; vm_compute; [reflexivity|discriminate].
  - eexists. eexists. eexists. split; [vm_compute; reflexivity|]. split; [reflexivity|].
    split; [vm_compute; reflexivity|]. split; vm_compute; reflexivity.
Qed.
