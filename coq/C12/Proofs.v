(* C12 — proofs.  Part 1: association lists, reachability, the modelled git
   operations preserve user objects.  Part 2: Bob's decisions. *)
From Coq Require Import List NArith Bool Lia.
Require Import BobV.Common.Cases BobV.C12.Model.
Import ListNotations.
Open Scope N_scope.

(* ------------------------------------------------------------------ *)
(* generic association list facts                                      *)

Section Assoc.
  Context {K V : Type} (e : K -> K -> bool).
  Hypothesis e_spec : forall a b, e a b = true <-> a = b.

  Lemma e_refl : forall a, e a a = true.
  Proof. intro a. apply e_spec. reflexivity. Qed.

  Lemma e_neq : forall a b, a <> b -> e a b = false.
  Proof. intros a b H. destruct (e a b) eqn:E; auto. apply e_spec in E. contradiction. Qed.

  Lemma kget_kdel_same : forall (l : list (K * V)) k, kget e (kdel e l k) k = None.
  Proof.
    induction l as [|[k' v] l IH]; intros k; simpl; auto.
    destruct (e k' k) eqn:E; auto. simpl. rewrite E. auto.
  Qed.

  Lemma kget_kdel_other : forall (l : list (K * V)) k k', k <> k' -> kget e (kdel e l k) k' = kget e l k'.
  Proof.
    induction l as [|[k0 v] l IH]; intros k k' N; simpl; auto.
    destruct (e k0 k) eqn:E.
    - apply e_spec in E. subst k0. rewrite (e_neq _ _ N). auto.
    - simpl. destruct (e k0 k'); auto.
  Qed.

  Lemma kget_kset_same : forall (l : list (K * V)) k v, kget e (kset e l k v) k = Some v.
  Proof. intros. unfold kset. simpl. rewrite e_refl. reflexivity. Qed.

  Lemma kget_kset_other : forall (l : list (K * V)) k v k', k <> k' -> kget e (kset e l k v) k' = kget e l k'.
  Proof. intros. unfold kset. simpl. rewrite (e_neq _ _ H). apply kget_kdel_other; auto. Qed.

  Lemma kget_In : forall (l : list (K * V)) k v, kget e l k = Some v -> In (k, v) l.
  Proof.
    induction l as [|[k' v'] l IH]; intros k v H; simpl in *; try discriminate.
    destruct (e k' k) eqn:E.
    - apply e_spec in E. inversion H. subst. auto.
    - right. auto.
  Qed.

  Lemma kget_filter_key : forall (F : K -> bool) (l : list (K * V)) k,
    kget e (filter (fun kv => F (fst kv)) l) k = if F k then kget e l k else None.
  Proof.
    induction l as [|[k' v] l IH]; intros k; simpl.
    - destruct (F k); auto.
    - destruct (F k') eqn:Fk'; simpl.
      + destruct (e k' k) eqn:E.
        * apply e_spec in E. subst. rewrite Fk'. auto.
        * apply IH.
      + destruct (e k' k) eqn:E.
        * apply e_spec in E. subst. rewrite IH. rewrite Fk'. auto.
        * apply IH.
  Qed.

  Lemma kget_map_replace : forall (l : list (K * V)) d n k,
    kget e (map (fun pn => if e (fst pn) d then (d, n) else pn) l) k =
    match kget e l k with
    | Some v => if e k d then Some n else Some v
    | None => None
    end.
  Proof.
    induction l as [|[k' v] l IH]; intros d n k; simpl; auto.
    destruct (e k' d) eqn:E1; simpl.
    - apply e_spec in E1. subst k'. destruct (e d k) eqn:E2.
      + apply e_spec in E2. subst. rewrite e_refl. auto.
      + apply IH.
    - destruct (e k' k) eqn:E2.
      + apply e_spec in E2. subst. rewrite E1. auto.
      + apply IH.
  Qed.

  Lemma kget_app : forall (l1 l2 : list (K * V)) k,
    kget e (l1 ++ l2) k = match kget e l1 k with Some v => Some v | None => kget e l2 k end.
  Proof.
    induction l1 as [|[k' v] l1 IH]; intros; simpl; auto.
    destruct (e k' k); auto.
  Qed.
End Assoc.

Lemma Neqb_spec : forall a b : N, (a =? b) = true <-> a = b.
Proof. intros. apply N.eqb_eq. Qed.

Lemma eqb_list_N_spec : forall a b : list N, eqb_list N.eqb a b = true <-> a = b.
Proof.
  induction a as [|x a IH]; destruct b as [|y b]; simpl; split; intro H; try discriminate; auto.
  - apply andb_true_iff in H. destruct H as [H1 H2]. apply N.eqb_eq in H1. apply IH in H2. subst. auto.
  - inversion H. subst. rewrite N.eqb_refl. simpl. apply IH. auto.
Qed.

Lemma path_eqb_spec : forall a b : path, path_eqb a b = true <-> a = b.
Proof. exact eqb_list_N_spec. Qed.

Lemma oeqb_spec : forall a b : option N, oeqb a b = true <-> a = b.
Proof.
  intros [a|] [b|]; simpl; split; intro H; try discriminate; auto.
  - apply N.eqb_eq in H. subst. auto.
  - inversion H. apply N.eqb_refl.
Qed.

Lemma aget_aset_same : forall V (l : list (N * V)) k v, aget (aset l k v) k = Some v.
Proof. intros. apply (kget_kset_same N.eqb Neqb_spec). Qed.

Lemma aget_aset_other : forall V (l : list (N * V)) k v k', k <> k' -> aget (aset l k v) k' = aget l k'.
Proof. intros. apply (kget_kset_other N.eqb Neqb_spec); auto. Qed.

Lemma memN_In : forall x l, memN x l = true <-> In x l.
Proof.
  induction l as [|y l IH]; simpl; split; intro H; try discriminate; try contradiction.
  - apply orb_true_iff in H. destruct H as [H|H].
    + apply N.eqb_eq in H. auto.
    + right. apply IH. auto.
  - apply orb_true_iff. destruct H as [H|H].
    + left. subst. apply N.eqb_refl.
    + right. apply IH. auto.
Qed.

Lemma nodupN_In : forall x l, In x (nodupN l) <-> In x l.
Proof.
  induction l as [|y l IH]; simpl; [tauto|].
  destruct (memN y l) eqn:M.
  - rewrite IH. split; auto. intros [H|H]; auto. subst. apply memN_In. auto.
  - simpl. rewrite IH. tauto.
Qed.

Lemma aget_In_fst : forall V (l : list (N * V)) k v, aget l k = Some v -> In k (map fst l).
Proof.
  intros. apply (kget_In N.eqb Neqb_spec) in H. apply in_map_iff. exists (k, v). auto.
Qed.

(* ------------------------------------------------------------------ *)
(* reachability in the commit graph                                    *)

Inductive Reach (st : store) : cid -> cid -> Prop :=
| R_refl : forall c, Reach st c c
| R_step : forall c cm p a, getc st c = Some cm -> c_parent cm = Some p -> Reach st p a -> Reach st c a.

Lemma Reach_trans : forall st a b c, Reach st a b -> Reach st b c -> Reach st a c.
Proof.
  intros st a b c H. induction H; intros; auto.
  eapply R_step; eauto.
Qed.

Lemma is_anc_f_sound : forall st fuel a c, is_anc_f st fuel a c = true -> Reach st c a.
Proof.
  induction fuel as [|k IH]; intros a c H; simpl in H.
  - destruct (a =? c) eqn:E; try discriminate. apply N.eqb_eq in E. subst. constructor.
  - destruct (a =? c) eqn:E.
    + apply N.eqb_eq in E. subst. constructor.
    + destruct (getc st c) as [cm|] eqn:G; try discriminate.
      destruct (c_parent cm) as [p|] eqn:P; try discriminate.
      eapply R_step; eauto.
Qed.

Lemma is_anc_sound : forall st a c, is_anc st a c = true -> Reach st c a.
Proof. intros. eapply is_anc_f_sound. exact H. Qed.

(* commits of the upstream world / commits the user made locally *)
Definition upc (st : store) (c : cid) : Prop := exists cm, getc st c = Some cm /\ c_user cm = false.
Definition userc (st : store) (c : cid) : Prop := exists cm, getc st c = Some cm /\ c_user cm = true.

(* the history of an upstream commit consists of upstream commits *)
Definition store_wf (st : store) : Prop :=
  forall c cm p, getc st c = Some cm -> c_user cm = false -> c_parent cm = Some p -> upc st p.

Lemma upc_not_userc : forall st c, upc st c -> userc st c -> False.
Proof.
  intros st c [cm [G U]] [cm' [G' U']]. rewrite G in G'. inversion G'. subst. congruence.
Qed.

Lemma reach_upc : forall st, store_wf st -> forall c a, Reach st c a -> upc st c -> upc st a.
Proof.
  intros st W c a H. induction H; intros U; auto.
  apply IHReach. destruct U as [cm' [G' U']]. rewrite H in G'. inversion G'. subst. eapply W; eauto.
Qed.

(* ------------------------------------------------------------------ *)
(* the work tree update keeps every uncommitted file                   *)

Lemma co_files_deleted : forall ta tb wt f fs t,
  file_step ta tb wt f = Some None -> co_files ta tb wt fs = Some t -> aget t f = None.
Proof.
  intros ta tb wt f. induction fs as [|h fs IH]; intros t Sg C; simpl in C.
  - inversion C. auto.
  - destruct (file_step ta tb wt h) as [rh|] eqn:Sh; try discriminate.
    destruct (co_files ta tb wt fs) as [t''|] eqn:C'; [|destruct rh; discriminate].
    destruct rh as [c|]; inversion C; subst.
    + unfold aget. simpl. destruct (h =? f) eqn:E.
      * apply N.eqb_eq in E. subst. congruence.
      * apply IH; auto.
    + apply IH; auto.
Qed.

Lemma co_files_get : forall ta tb wt fs t f,
  co_files ta tb wt fs = Some t -> In f fs ->
  exists r, file_step ta tb wt f = Some r /\ aget t f = r.
Proof.
  induction fs as [|g fs IH]; intros t f H I; simpl in *; try contradiction.
  destruct (file_step ta tb wt g) as [rg|] eqn:Sg; try discriminate.
  destruct (co_files ta tb wt fs) as [t'|] eqn:C; [|destruct rg; discriminate].
  destruct (N.eq_dec g f) as [->|N].
  - exists rg. split; auto. destruct rg as [c|]; inversion H; subst.
    + unfold aget. simpl. rewrite N.eqb_refl. auto.
    + eapply co_files_deleted; eauto.
  - destruct I as [I|I]; [contradiction|].
    destruct (IH t' f eq_refl I) as [r [S A]].
    exists r. split; auto.
    destruct rg as [c|]; inversion H; subst; auto.
    unfold aget. simpl. apply N.eqb_neq in N. rewrite N. auto.
Qed.

Lemma checkout_wt_keeps : forall ta tb wt wt' f b,
  checkout_wt ta tb wt = Some wt' ->
  aget wt f = Some b -> aget ta f <> Some b ->
  aget wt' f = Some b /\ aget tb f <> Some b.
Proof.
  intros ta tb wt wt' f b H W A.
  assert (I : In f (names3 ta tb wt)).
  { unfold names3. apply nodupN_In. apply in_or_app. right. apply in_or_app. right.
    eapply aget_In_fst. eauto. }
  destruct (co_files_get _ _ _ _ _ _ H I) as [r [S G]].
  unfold file_step in S. rewrite W in S.
  destruct (oeqb (aget ta f) (aget tb f)) eqn:E1.
  - apply oeqb_spec in E1. inversion S. subst. split; auto. rewrite <- E1. auto.
  - destruct (oeqb (Some b) (aget ta f)) eqn:E2; try discriminate.
    apply oeqb_spec in E2. symmetry in E2. contradiction.
Qed.

(* on a clean work tree the update produces exactly the target tree *)
Definition tree_equiv (a b : tree) : Prop := forall f, aget a f = aget b f.

Lemma co_files_notin : forall ta tb wt fs t f,
  co_files ta tb wt fs = Some t -> ~ In f fs -> aget t f = None.
Proof.
  induction fs as [|g fs IH]; intros t f H I; simpl in *.
  - inversion H. auto.
  - destruct (file_step ta tb wt g) as [rg|]; try discriminate.
    destruct (co_files ta tb wt fs) as [t'|] eqn:C; [|destruct rg; discriminate].
    assert (g <> f) by tauto. assert (~ In f fs) by tauto.
    destruct rg as [c|]; inversion H; subst; auto.
    unfold aget. simpl. apply N.eqb_neq in H0. rewrite H0. apply IH; auto.
Qed.

Lemma aget_None_notin : forall V (l : list (N * V)) k, ~ In k (map fst l) -> aget l k = None.
Proof.
  induction l as [|[k' v] l IH]; intros k H; simpl in *; auto.
  unfold aget. simpl. destruct (k' =? k) eqn:E.
  - apply N.eqb_eq in E. subst. tauto.
  - apply IH. tauto.
Qed.

Lemma checkout_wt_clean : forall ta tb wt wt',
  checkout_wt ta tb wt = Some wt' -> tree_equiv wt ta -> tree_equiv wt' tb.
Proof.
  intros ta tb wt wt' H Q f.
  destruct (in_dec N.eq_dec f (names3 ta tb wt)) as [I|I].
  - destruct (co_files_get _ _ _ _ _ _ H I) as [r [S G]].
    unfold file_step in S. rewrite (Q f) in S.
    destruct (oeqb (aget ta f) (aget tb f)) eqn:E1.
    + apply oeqb_spec in E1. inversion S as [S']. rewrite G, <- S'. auto.
    + assert (E2 : oeqb (aget ta f) (aget ta f) = true) by (apply oeqb_spec; auto).
      rewrite E2 in S. inversion S as [S']. rewrite G, <- S'. auto.
  - rewrite (co_files_notin _ _ _ _ _ _ H I).
    symmetry. apply aget_None_notin. intro J. apply I. unfold names3. apply nodupN_In.
    apply in_or_app. right. apply in_or_app. left. auto.
Qed.

(* ------------------------------------------------------------------ *)
(* user objects of a git work space                                    *)

Definition local_ref (g : gitws) (r : cid) : Prop :=
  (exists b, aget (g_branches g) b = Some r) \/ g_head g = HDetached r.

Inductive uobj := OCommit (c : cid) | OFile (f b : N).

(* a user commit is held when a local branch or the detached HEAD reaches it; a
   file content is held when it is in the work tree and not what HEAD has there *)
Definition holds_g (st : store) (g : gitws) (o : uobj) : Prop :=
  match o with
  | OCommit c => userc st c /\ exists r, local_ref g r /\ Reach st r c
  | OFile f b => aget (g_wt g) f = Some b /\ aget (head_tree st g) f <> Some b
  end.

Definition gpres (st : store) (g g' : gitws) : Prop := forall o, holds_g st g o -> holds_g st g' o.

Lemma gpres_refl : forall st g, gpres st g g.
Proof. intros st g o H. exact H. Qed.

Lemma gpres_trans : forall st a b c, gpres st a b -> gpres st b c -> gpres st a c.
Proof. intros st a b c H1 H2 o H. auto. Qed.

(* remote tracking refs and tags name upstream commits only *)
Definition up_refs (st : store) (g : gitws) : Prop :=
  (forall b c, In (b, c) (g_remotes g) -> upc st c) /\
  (forall t c, In (t, c) (g_tags g) -> upc st c).

(* the detached HEAD, if any, is an upstream commit *)
Definition hsafe (st : store) (g : gitws) : Prop :=
  match g_head g with HDetached d => upc st d | HBranch _ => True end.

Definition up_ok (st : store) (up : upstream) : Prop :=
  forall u r, aget (up_git up) u = Some r ->
    (forall b c, aget (u_branches r) b = Some c -> upc st c) /\
    (forall t c, aget (u_tags r) t = Some c -> upc st c).

Definition rev_ok (st : store) (r : gitrev) : Prop :=
  match rev_commit r with Some c => upc st c | None => True end.

(* a held user commit is held by a branch when HEAD is safe *)
Lemma held_by_branch : forall st g c,
  store_wf st -> hsafe st g -> userc st c ->
  (exists r, local_ref g r /\ Reach st r c) ->
  exists b r, aget (g_branches g) b = Some r /\ Reach st r c.
Proof.
  intros st g c W S U [r [[[b B]|D] R]].
  - exists b, r. auto.
  - unfold hsafe in S. rewrite D in S. exfalso.
    apply (upc_not_userc st c); [eapply (reach_upc st W r c); eauto | exact U].
Qed.

Lemma head_tree_with_co : forall st g br h wt,
  head_tree st (with_co g br h wt) =
  tree_of st (match h with HBranch b => aget br b | HDetached c => Some c end).
Proof. intros. unfold head_tree, head_commit. simpl. destruct h; auto. Qed.

(* generic step: new head commit t, work tree moved, branches extended/advanced *)
Lemma move_pres : forall st g t wt' br h,
  store_wf st -> hsafe st g ->
  move_wt st g t = Some wt' ->
  (match h with HBranch b => aget br b | HDetached c => Some c end) = Some t ->
  (forall b r, aget (g_branches g) b = Some r -> exists r', aget br b = Some r' /\ Reach st r' r) ->
  gpres st g (with_co g br h wt').
Proof.
  intros st g t wt' br h W S M Hh Hb o Ho. destruct o as [c|f b]; simpl in *.
  - destruct Ho as [U Hr]. split; auto.
    destruct (held_by_branch _ _ _ W S U Hr) as [b [r [B R]]].
    destruct (Hb _ _ B) as [r' [B' R']].
    exists r'. split.
    + left. exists b. auto.
    + eapply Reach_trans; eauto.
  - destruct Ho as [A N]. rewrite head_tree_with_co. rewrite Hh.
    unfold move_wt in M. eapply checkout_wt_keeps; eauto.
Qed.

Lemma co_new_branch_pres : forall st g b start g' ok,
  store_wf st -> hsafe st g -> co_new_branch st g b start = (g', ok) ->
  gpres st g g' /\ (ok = true -> exists c, start = Some c /\ g_head g' = HBranch b /\ head_commit g' = Some c).
Proof.
  intros st g b start g' ok W S H. unfold co_new_branch in H.
  destruct start as [c|]; [|inversion H; subst; split; [apply gpres_refl|discriminate]].
  destruct (aget (g_branches g) b) eqn:B; [inversion H; subst; split; [apply gpres_refl|discriminate]|].
  destruct (move_wt st g c) as [wt'|] eqn:M; [|inversion H; subst; split; [apply gpres_refl|discriminate]].
  inversion H; subst. split.
  - eapply move_pres; eauto.
    + simpl. apply aget_aset_same.
    + intros b0 r B0. exists r. split; [|constructor].
      rewrite aget_aset_other; auto. intro; subst. congruence.
  - intros _. exists c. unfold head_commit. simpl. rewrite aget_aset_same. auto.
Qed.

Lemma co_branch_pres : forall st g b g' ok,
  store_wf st -> hsafe st g -> co_branch st g b = (g', ok) ->
  gpres st g g' /\ (ok = true -> g_head g' = HBranch b /\ g_branches g' = g_branches g /\ is_some (aget (g_branches g) b) = true).
Proof.
  intros st g b g' ok W S H. unfold co_branch in H.
  destruct (aget (g_branches g) b) as [c|] eqn:B; [|inversion H; subst; split; [apply gpres_refl|discriminate]].
  destruct (move_wt st g c) as [wt'|] eqn:M; [|inversion H; subst; split; [apply gpres_refl|discriminate]].
  inversion H; subst. split.
  - eapply move_pres; eauto. intros b0 r B0. exists r. split; auto. constructor.
  - intros _. simpl. auto.
Qed.

Lemma co_detach_pres : forall st g oc g' ok,
  store_wf st -> hsafe st g -> co_detach st g oc = (g', ok) ->
  gpres st g g' /\ (ok = true -> exists c, oc = Some c /\ g_head g' = HDetached c).
Proof.
  intros st g oc g' ok W S H. unfold co_detach in H.
  destruct oc as [c|]; [|inversion H; subst; split; [apply gpres_refl|discriminate]].
  destruct (move_wt st g c) as [wt'|] eqn:M; [|inversion H; subst; split; [apply gpres_refl|discriminate]].
  inversion H; subst. split.
  - eapply move_pres; eauto. intros b0 r B0. exists r. split; auto. constructor.
  - intros _. exists c. auto.
Qed.

Lemma hbranch_safe : forall st g b, g_head g = HBranch b -> hsafe st g.
Proof. intros. unfold hsafe. rewrite H. exact I. Qed.

Lemma merge_ff_pres : forall st g b g' ok,
  store_wf st -> merge_ff st g b = (g', ok) ->
  gpres st g g' /\ g_head g' = g_head g /\ g_remotes g' = g_remotes g /\ g_tags g' = g_tags g.
Proof.
  intros st g b g' ok W H. unfold merge_ff in H.
  destruct (aget (g_remotes g) b) as [t|] eqn:R; [|inversion H; subst; repeat split; apply gpres_refl].
  destruct (g_head g) as [hb|d] eqn:Hd; [|inversion H; subst; repeat split; auto; apply gpres_refl].
  destruct (aget (g_branches g) hb) as [h|] eqn:B; [|inversion H; subst; repeat split; auto; apply gpres_refl].
  destruct (is_anc st t h) eqn:A1; [inversion H; subst; repeat split; auto; apply gpres_refl|].
  destruct (is_anc st h t) eqn:A2; [|inversion H; subst; repeat split; auto; apply gpres_refl].
  destruct (move_wt st g t) as [wt'|] eqn:M; [|inversion H; subst; repeat split; auto; apply gpres_refl].
  inversion H; subst. repeat split; auto.
  eapply move_pres; eauto.
  - eapply hbranch_safe; eauto.
  - simpl. apply aget_aset_same.
  - intros b0 r B0. destruct (N.eq_dec hb b0) as [->|N].
    + rewrite aget_aset_same. exists t. split; auto. rewrite B in B0. inversion B0. subst.
      apply is_anc_sound. auto.
    + rewrite aget_aset_other; auto. exists r. split; auto. constructor.
Qed.

Lemma existsb_ex : forall A (f : A -> bool) l, existsb f l = true -> exists x, In x l /\ f x = true.
Proof. intros. apply existsb_exists. auto. Qed.

Lemma In_aget_weak : forall (l : list (N * cid)) b c, In (b, c) l -> exists c', aget l b = Some c'.
Proof.
  induction l as [|[k v] l IH]; intros b c H; simpl in *; try contradiction.
  unfold aget. simpl. destruct (k =? b) eqn:E; eauto.
  destruct H as [H|H].
  - inversion H. subst. rewrite N.eqb_refl in E. discriminate.
  - eapply IH. eauto.
Qed.

(* reset --keep behind the "contains" guard: the guard is evaluated on refs as
   listed (all entries); an entry that is shadowed cannot occur in a state that
   git can be in, so we ask the key lists to be duplicate free. *)
Definition refs_nodup (g : gitws) : Prop :=
  NoDup (map fst (g_branches g)) /\ NoDup (map fst (g_remotes g)).

Lemma In_aget_nodup : forall (l : list (N * cid)) b c, NoDup (map fst l) -> In (b, c) l -> aget l b = Some c.
Proof.
  induction l as [|[k v] l IH]; intros b c ND H; simpl in *; try contradiction.
  inversion ND; subst. unfold aget. simpl. destruct H as [H|H].
  - inversion H. subst. rewrite N.eqb_refl. auto.
  - destruct (k =? b) eqn:E.
    + apply N.eqb_eq in E. subst. exfalso. apply H2. apply in_map_iff. exists (b, c). auto.
    + apply IH; auto.
Qed.

Lemma reset_keep_pres : forall st g c g' ok,
  store_wf st -> up_refs st g -> refs_nodup g ->
  contains_other st g = true -> reset_keep st g c = (g', ok) ->
  gpres st g g'.
Proof.
  intros st g c g' ok W U ND G H. unfold reset_keep in H.
  destruct (g_head g) as [hb|d] eqn:Hd; [|inversion H; subst; apply gpres_refl].
  destruct (move_wt st g c) as [wt'|] eqn:M; [|inversion H; subst; apply gpres_refl].
  inversion H; subst. clear H.
  intros o Ho. destruct o as [uc|f b].
  - simpl in *. destruct Ho as [Uc Hr]. split; auto.
    assert (S : hsafe st g) by (eapply hbranch_safe; eauto).
    destruct (held_by_branch _ _ _ W S Uc Hr) as [b [r [B R]]].
    destruct (N.eq_dec hb b) as [->|N].
    + (* the commit hangs on the branch being reset: another ref contains HEAD *)
      unfold contains_other in G. rewrite Hd in G. unfold head_commit in G. rewrite Hd in G. rewrite B in G.
      apply orb_true_iff in G. destruct G as [G|G].
      * apply existsb_ex in G. destruct G as [[b' c'] [I G]]. simpl in G.
        apply andb_true_iff in G. destruct G as [G1 G2].
        apply negb_true_iff in G1. apply N.eqb_neq in G1.
        exists c'. split.
        -- left. exists b'. simpl. rewrite aget_aset_other; auto.
           apply In_aget_nodup; auto. apply ND.
        -- eapply Reach_trans; [apply is_anc_sound; eauto|]. auto.
      * apply existsb_ex in G. destruct G as [[b' c'] [I G]]. simpl in G.
        exfalso. eapply upc_not_userc; [|exact Uc].
        eapply reach_upc; [auto| |].
        -- eapply Reach_trans; [apply is_anc_sound; eauto|]. exact R.
        -- destruct U as [U1 _]. eapply U1. eauto.
    + exists r. split; auto. left. exists b. simpl. rewrite aget_aset_other; auto.
  - simpl in *. destruct Ho as [A N]. rewrite head_tree_with_co. rewrite aget_aset_same.
    unfold move_wt in M. eapply checkout_wt_keeps; eauto.
Qed.

(* ------------------------------------------------------------------ *)
(* frame facts of the local operations and of fetch                    *)

Lemma In_kdel : forall V (l : list (N * V)) k x, In x (map fst (adel l k)) -> In x (map fst l) /\ x <> k.
Proof.
  induction l as [|[k' v] l IH]; intros k x H; simpl in *; try contradiction.
  unfold adel in *. simpl in H. destruct (k' =? k) eqn:E.
  - destruct (IH _ _ H). split; auto.
  - simpl in H. destruct H as [H|H].
    + subst. split; auto. apply N.eqb_neq in E. auto.
    + destruct (IH _ _ H). split; auto.
Qed.

Lemma NoDup_kdel : forall V (l : list (N * V)) k, NoDup (map fst l) -> NoDup (map fst (adel l k)).
Proof.
  induction l as [|[k' v] l IH]; intros k H; simpl in *; auto.
  inversion H; subst. unfold adel in *. simpl. destruct (k' =? k); auto.
  simpl. constructor; auto. intro J. apply In_kdel in J. tauto.
Qed.

Lemma NoDup_aset : forall V (l : list (N * V)) k v, NoDup (map fst l) -> NoDup (map fst (aset l k v)).
Proof.
  intros. unfold aset, kset. simpl. constructor.
  - intro J. apply (In_kdel V l k k) in J. tauto.
  - apply NoDup_kdel. auto.
Qed.

(* g' differs from g only in branches / HEAD / work tree *)
Definition frame (g g' : gitws) : Prop :=
  g_remotes g' = g_remotes g /\ g_tags g' = g_tags g /\ g_url g' = g_url g /\ g_objs g' = g_objs g /\
  (NoDup (map fst (g_branches g)) -> NoDup (map fst (g_branches g'))).

Lemma frame_refl : forall g, frame g g.
Proof. intro. repeat split; auto. Qed.

Lemma frame_trans : forall a b c, frame a b -> frame b c -> frame a c.
Proof.
  intros a b c (A1 & A2 & A3 & A4 & A5) (B1 & B2 & B3 & B4 & B5).
  repeat split; try congruence. auto.
Qed.

Lemma frame_with_co_same : forall g h wt, frame g (with_co g (g_branches g) h wt).
Proof. intros. repeat split; auto. Qed.

Lemma frame_with_co_aset : forall g b c h wt, frame g (with_co g (aset (g_branches g) b c) h wt).
Proof. intros. repeat split; auto. intro. exact (NoDup_aset _ (g_branches g) b c H). Qed.

Ltac frame_op H :=
  repeat match type of H with
  | (match ?x with _ => _ end) = _ => destruct x eqn:?
  | (if ?x then _ else _) = _ => destruct x eqn:?
  end;
  inversion H; subst;
  try apply frame_refl; try apply frame_with_co_same; try apply frame_with_co_aset.

Lemma co_new_branch_frame : forall st g b s g' ok, co_new_branch st g b s = (g', ok) -> frame g g'.
Proof. intros st g b s g' ok H. unfold co_new_branch in H. frame_op H. Qed.

Lemma co_branch_frame : forall st g b g' ok, co_branch st g b = (g', ok) -> frame g g'.
Proof. intros st g b g' ok H. unfold co_branch in H. frame_op H. Qed.

Lemma co_detach_frame : forall st g oc g' ok, co_detach st g oc = (g', ok) -> frame g g'.
Proof. intros st g oc g' ok H. unfold co_detach in H. frame_op H. Qed.

Lemma merge_ff_frame : forall st g b g' ok, merge_ff st g b = (g', ok) -> frame g g'.
Proof. intros st g b g' ok H. unfold merge_ff in H. frame_op H. Qed.

Lemma reset_keep_frame : forall st g c g' ok, reset_keep st g c = (g', ok) -> frame g g'.
Proof. intros st g c g' ok H. unfold reset_keep in H. frame_op H. Qed.

Definition ginv (st : store) (g : gitws) : Prop := up_refs st g /\ refs_nodup g.

Lemma frame_ginv : forall st g g', frame g g' -> ginv st g -> ginv st g'.
Proof.
  intros st g g' (F1 & F2 & F3 & F4 & F5) [[U1 U2] [N1 N2]]. unfold ginv, up_refs, refs_nodup.
  rewrite F1, F2. repeat split; auto.
Qed.

(* g' has the same branches, HEAD and work tree *)
Definition same_local (g g' : gitws) : Prop :=
  g_branches g' = g_branches g /\ g_head g' = g_head g /\ g_wt g' = g_wt g.

Lemma same_local_gpres : forall st g g', same_local g g' -> gpres st g g'.
Proof.
  intros st g g' (B & H & W) o Ho. destruct o; simpl in *.
  - destruct Ho as [U [r [L R]]]. split; auto. exists r. split; auto.
    unfold local_ref in *. rewrite B, H. auto.
  - unfold head_tree, head_commit in *. rewrite B, H, W. auto.
Qed.

Lemma same_local_hsafe : forall st g g', same_local g g' -> hsafe st g -> hsafe st g'.
Proof. intros st g g' (B & H & W) S. unfold hsafe in *. rewrite H. auto. Qed.

Definition up_ok' (st : store) (up : upstream) : Prop :=
  forall u r, aget (up_git up) u = Some r ->
    (forall b c, In (b, c) (u_branches r) -> upc st c) /\
    (forall t c, In (t, c) (u_tags r) -> upc st c) /\
    NoDup (map fst (u_branches r)).

Lemma In_adel : forall V (l : list (N * V)) k x, In x (adel l k) -> In x l.
Proof.
  induction l as [|[k' v] l IH]; intros k x H; simpl in *; try contradiction.
  unfold adel in *. simpl in H. destruct (k' =? k).
  - right. eapply IH. eauto.
  - simpl in H. destruct H as [H|H]; auto. right. eapply IH. eauto.
Qed.

Lemma In_aset : forall V (l : list (N * V)) k v x, In x (aset l k v) -> x = (k, v) \/ In x l.
Proof.
  intros. unfold aset, kset in H. simpl in H. destruct H as [H|H]; auto.
  right. eapply In_adel. exact H.
Qed.

Lemma follow_tags_upc : forall st objs rtags tags,
  (forall t c, In (t, c) rtags -> upc st c) ->
  (forall t c, In (t, c) tags -> upc st c) ->
  forall t c, In (t, c) (follow_tags st objs rtags tags) -> upc st c.
Proof.
  induction rtags as [|[t0 c0] r IH]; intros tags HR HT t c H; simpl in H.
  - eauto.
  - assert (IH' : forall t c, In (t, c) (follow_tags st objs r tags) -> upc st c).
    { apply IH; auto. intros. apply (HR t1 c1). right. auto. }
    destruct (is_some (aget (follow_tags st objs r tags) t0)); eauto.
    destruct (has_obj st objs c0); eauto.
    apply In_aset in H. destruct H as [H|H]; eauto.
    inversion H. subst. apply (HR t0 c0). left. auto.
Qed.

Lemma fetch_pres : forall st up g tag g' ok,
  up_ok' st up -> ginv st g -> fetch st up g tag = (g', ok) ->
  same_local g g' /\ ginv st g' /\ g_url g' = g_url g.
Proof.
  intros st up g tag g' ok UO [[U1 U2] [N1 N2]] H. unfold fetch in H.
  destruct (aget (up_git up) (g_url g)) as [r|] eqn:R.
  2:{ inversion H; subst. repeat split; auto. }
  destruct (UO _ _ R) as (UB & UT & UN).
  assert (G : forall objs tags, (forall t c, In (t, c) tags -> upc st c) ->
              same_local g (with_fetch g objs (u_branches r) (follow_tags st objs (u_tags r) tags)) /\
              ginv st (with_fetch g objs (u_branches r) (follow_tags st objs (u_tags r) tags)) /\
              g_url (with_fetch g objs (u_branches r) (follow_tags st objs (u_tags r) tags)) = g_url g).
  { intros objs tags HT. repeat split; simpl; auto.
    apply follow_tags_upc; auto. }
  destruct tag as [t|].
  - destruct (aget (u_tags r) t) as [c|] eqn:T.
    2:{ inversion H; subst. repeat split; auto. }
    destruct (aget (g_tags g) t) as [c'|] eqn:T'; inversion H; subst; apply G; auto.
    intros t0 c0 A. apply In_aset in A. destruct A as [A|A]; eauto.
    inversion A. subst. apply (UT t c). apply (kget_In N.eqb Neqb_spec). exact T.
  - inversion H; subst. apply G; auto.
Qed.

(* ------------------------------------------------------------------ *)
(* GitScm.invoke / GitScm.switch keep every user object                *)

Lemma unborn_hsafe : forall st g, head_valid g = false -> hsafe st g.
Proof.
  intros st g H. unfold hsafe. unfold head_valid, head_commit in H.
  destruct (g_head g); auto. simpl in H. discriminate.
Qed.

Lemma same_local_head_valid : forall g g', same_local g g' -> head_valid g' = head_valid g.
Proof. intros g g' (B & H & W). unfold head_valid, head_commit. rewrite B, H. auto. Qed.

Lemma checkout_branch_pres : forall st up g b switch g' ok,
  store_wf st -> up_ok' st up -> ginv st g -> (switch = true -> hsafe st g) ->
  checkout_branch st up g b switch = (g', ok) ->
  gpres st g g' /\ ginv st g'.
Proof.
  intros st up g b switch g' ok W UO GI HS H. unfold checkout_branch in H.
  destruct (fetch st up g None) as [g1 ok1] eqn:F.
  destruct (fetch_pres _ _ _ _ _ _ UO GI F) as (SL & GI1 & _).
  assert (P1 : gpres st g g1) by (apply same_local_gpres; auto).
  destruct ok1; cbn [negb] in H.
  2:{ inversion H; subst. auto. }
  destruct (head_valid g1) eqn:HV; cbn [negb] in H.
  - destruct switch.
    + assert (S1 : hsafe st g1) by (eapply same_local_hsafe; eauto).
      destruct (aget (g_branches g1) b) eqn:B.
      * destruct (co_branch st g1 b) as [g2 ok2] eqn:C.
        destruct (co_branch_pres _ _ _ _ _ W S1 C) as [P2 HB].
        pose proof (co_branch_frame _ _ _ _ _ C) as F2.
        destruct ok2.
        -- destruct (merge_ff_pres _ _ _ _ _ W H) as [P3 _].
           pose proof (merge_ff_frame _ _ _ _ _ H) as F3.
           split.
           ++ eapply gpres_trans; [exact P1|]. eapply gpres_trans; eauto.
           ++ eapply frame_ginv; [exact F3|]. eapply frame_ginv; eauto.
        -- inversion H; subst. split.
           ++ eapply gpres_trans; eauto.
           ++ eapply frame_ginv; eauto.
      * destruct (co_new_branch_pres _ _ _ _ _ _ W S1 H) as [P2 _].
        pose proof (co_new_branch_frame _ _ _ _ _ _ H) as F2.
        split; [eapply gpres_trans; eauto | eapply frame_ginv; eauto].
    + destruct (g_head g1) as [hb|d] eqn:Hd.
      * destruct (hb =? b).
        -- destruct (merge_ff_pres _ _ _ _ _ W H) as [P3 _].
           pose proof (merge_ff_frame _ _ _ _ _ H) as F3.
           split; [eapply gpres_trans; eauto | eapply frame_ginv; eauto].
        -- inversion H; subst. auto.
      * inversion H; subst. auto.
  - assert (S1 : hsafe st g1) by (apply unborn_hsafe; auto).
    destruct (co_new_branch_pres _ _ _ _ _ _ W S1 H) as [P2 _].
    pose proof (co_new_branch_frame _ _ _ _ _ _ H) as F2.
    split; [eapply gpres_trans; eauto | eapply frame_ginv; eauto].
Qed.

Lemma checkout_tag_pres : forall st up g r switch g' ok,
  store_wf st -> up_ok' st up -> ginv st g -> (switch = true -> hsafe st g) ->
  checkout_tag st up g r switch = (g', ok) ->
  gpres st g g' /\ ginv st g'.
Proof.
  intros st up g r switch g' ok W UO GI HS H. unfold checkout_tag in H.
  destruct (negb (head_valid g) || switch) eqn:C.
  2:{ inversion H; subst. split; auto. apply gpres_refl. }
  assert (S : hsafe st g).
  { apply orb_true_iff in C. destruct C as [C|C]; auto.
    apply unborn_hsafe. apply negb_true_iff in C. auto. }
  destruct (fetch st up g (rev_tag r)) as [g1 ok1] eqn:F.
  destruct (fetch_pres _ _ _ _ _ _ UO GI F) as (SL & GI1 & _).
  assert (P1 : gpres st g g1) by (apply same_local_gpres; auto).
  assert (S1 : hsafe st g1) by (eapply same_local_hsafe; eauto).
  destruct ok1; cbn [negb] in H.
  2:{ inversion H; subst. auto. }
  destruct (co_detach_pres _ _ _ _ _ W S1 H) as [P2 _].
  pose proof (co_detach_frame _ _ _ _ _ H) as F2.
  split; [eapply gpres_trans; eauto | eapply frame_ginv; eauto].
Qed.

Lemma checkout_tag_on_branch_pres : forall st up g b r switch g' ok,
  store_wf st -> up_ok' st up -> ginv st g -> (switch = true -> hsafe st g) ->
  checkout_tag_on_branch st up g b r switch = (g', ok) ->
  gpres st g g' /\ ginv st g'.
Proof.
  intros st up g b r switch g' ok W UO GI HS H. unfold checkout_tag_on_branch in H.
  destruct (head_valid g && negb switch) eqn:C0.
  { inversion H; subst. split; auto. apply gpres_refl. }
  assert (S : hsafe st g).
  { destruct (head_valid g) eqn:HV.
    - destruct switch; simpl in C0; try discriminate. auto.
    - apply unborn_hsafe. auto. }
  match type of H with (if ?c then _ else _) = _ => destruct c end.
  { inversion H; subst. split; auto. apply gpres_refl. }
  destruct (fetch st up g (rev_tag r)) as [g1 ok1] eqn:F.
  destruct (fetch_pres _ _ _ _ _ _ UO GI F) as (SL & GI1 & _).
  assert (P1 : gpres st g g1) by (apply same_local_gpres; auto).
  assert (S1 : hsafe st g1) by (eapply same_local_hsafe; eauto).
  destruct ok1; cbn [negb] in H.
  2:{ inversion H; subst. auto. }
  destruct (resolve_rev st g1 r) as [c|].
  2:{ inversion H; subst. auto. }
  destruct (aget (g_remotes g1) b) as [rb|].
  2:{ inversion H; subst. auto. }
  destruct (negb (is_anc st c rb)).
  { inversion H; subst. auto. }
  match type of H with (if ?c then _ else _) = _ => destruct c end.
  - destruct (co_new_branch_pres _ _ _ _ _ _ W S1 H) as [P2 _].
    pose proof (co_new_branch_frame _ _ _ _ _ _ H) as F2.
    split; [eapply gpres_trans; eauto | eapply frame_ginv; eauto].
  - destruct (co_branch st g1 b) as [g2 ok2] eqn:CB.
    destruct (co_branch_pres _ _ _ _ _ W S1 CB) as [P2 _].
    pose proof (co_branch_frame _ _ _ _ _ CB) as F2.
    assert (GI2 : ginv st g2) by (eapply frame_ginv; eauto).
    destruct ok2; cbn [negb] in H.
    2:{ inversion H; subst. split; auto. eapply gpres_trans; eauto. }
    destruct (contains_other st g2) eqn:CO; cbn [negb] in H.
    2:{ inversion H; subst. split; auto. eapply gpres_trans; eauto. }
    destruct GI2 as [U2 N2].
    pose proof (reset_keep_pres _ _ _ _ _ W U2 N2 CO H) as P3.
    pose proof (reset_keep_frame _ _ _ _ _ H) as F3.
    split.
    + eapply gpres_trans; [exact P1|]. eapply gpres_trans; eauto.
    + eapply frame_ginv; [exact F3|]. split; auto.
Qed.

Lemma with_url_facts : forall st g u,
  same_local g (with_url g u) /\ (ginv st g -> ginv st (with_url g u)).
Proof. intros. split; [repeat split; auto | intros [[U1 U2] [N1 N2]]; repeat split; auto]. Qed.

Theorem git_invoke_pres : forall st up g url r switch g' ok,
  store_wf st -> up_ok' st up -> ginv st g -> (switch = true -> hsafe st g) ->
  git_invoke st up g url r switch = (g', ok) ->
  gpres st g g' /\ ginv st g'.
Proof.
  intros st up g url r switch g' ok W UO GI HS H. unfold git_invoke in H.
  destruct (with_url_facts st g url) as [SL GI0]. specialize (GI0 GI).
  assert (P0 : gpres st g (with_url g url)) by (apply same_local_gpres; auto).
  assert (HS0 : switch = true -> hsafe st (with_url g url)).
  { intro E. eapply same_local_hsafe; eauto. }
  destruct r.
  - destruct (checkout_branch_pres _ _ _ _ _ _ _ W UO GI0 HS0 H) as [Q1 Q2]. split; [exact (gpres_trans _ _ _ _ P0 Q1)|exact Q2].
  - destruct (checkout_tag_pres _ _ _ _ _ _ _ W UO GI0 HS0 H) as [Q1 Q2]. split; [exact (gpres_trans _ _ _ _ P0 Q1)|exact Q2].
  - destruct (checkout_tag_pres _ _ _ _ _ _ _ W UO GI0 HS0 H) as [Q1 Q2]. split; [exact (gpres_trans _ _ _ _ P0 Q1)|exact Q2].
  - destruct (checkout_tag_on_branch_pres _ _ _ _ _ _ _ _ W UO GI0 HS0 H) as [Q1 Q2]. split; [exact (gpres_trans _ _ _ _ P0 Q1)|exact Q2].
  - destruct (checkout_tag_on_branch_pres _ _ _ _ _ _ _ _ W UO GI0 HS0 H) as [Q1 Q2]. split; [exact (gpres_trans _ _ _ _ P0 Q1)|exact Q2].
Qed.

Lemma switch_guard_safe : forall st g oldr newr,
  up_refs st g -> rev_ok st oldr -> rev_ok st newr -> switch_guard g oldr newr = true -> hsafe st g.
Proof.
  intros st g oldr newr [U1 U2] RO RN H. unfold switch_guard in H. unfold hsafe.
  destruct (g_head g) as [b|cur]; auto.
  unfold rev_ok in *.
  destruct (rev_commit oldr) as [c|] eqn:RC.
  - apply orb_true_iff in H. destruct H as [H|H]; apply oeqb_spec in H.
    + inversion H. subst. auto.
    + destruct (rev_commit newr); inversion H. subst. auto.
  - destruct (rev_tag oldr) as [t|]; try discriminate.
    destruct (aget (g_tags g) t) as [c|] eqn:T; try discriminate.
    apply orb_true_iff in H. destruct H as [H|H]; apply oeqb_spec in H.
    + inversion H. subst. apply (U2 t c). apply (kget_In N.eqb Neqb_spec). exact T.
    + destruct (rev_commit newr); inversion H. subst. auto.
Qed.

Theorem git_switch_pres : forall st up g oldr url newr g' ok,
  store_wf st -> up_ok' st up -> ginv st g -> rev_ok st oldr -> rev_ok st newr ->
  git_switch st up g oldr url newr = (g', ok) ->
  gpres st g g' /\ ginv st g'.
Proof.
  intros st up g oldr url newr g' ok W UO GI RO RN H. unfold git_switch in H.
  destruct (switch_guard g oldr newr) eqn:SG.
  - eapply git_invoke_pres; eauto. intros _. exact (switch_guard_safe st g oldr newr (proj1 GI) RO RN SG).
  - inversion H; subst. split; auto. apply gpres_refl.
Qed.

(* ------------------------------------------------------------------ *)
(* ScmStatus.expendable: nothing of the user is in an expendable git directory *)

Lemma forallb_false_ex : forall A (f : A -> bool) l, existsb f l = false -> forall x, In x l -> f x = false.
Proof.
  intros A f l H x I. destruct (f x) eqn:E; auto.
  assert (existsb f l = true) by (apply existsb_exists; eauto). congruence.
Qed.

Lemma wt_clean_of_status : forall st g f b,
  wt_modified st g = false -> aget (g_wt g) f = Some b -> aget (head_tree st g) f = Some b.
Proof.
  intros st g f b M A. unfold wt_modified in M.
  assert (I : In f (names3 (head_tree st g) [] (g_wt g))).
  { unfold names3. apply nodupN_In. apply in_or_app. right. simpl. eapply aget_In_fst. eauto. }
  pose proof (forallb_false_ex _ _ _ M f I) as E. simpl in E.
  apply negb_false_iff in E. apply oeqb_spec in E. congruence.
Qed.

Theorem expendable_no_user_objects : forall st g nv url r o,
  store_wf st -> up_refs st g ->
  s_expendable (git_status st g nv url r) = true ->
  ~ holds_g st g o.
Proof.
  intros st g nv url r o W [U1 U2] E Ho. unfold git_status in E.
  destruct (head_commit g) as [h|] eqn:HC; [|simpl in E; discriminate].
  set (q := match r with
            | RBranch b =>
                match g_head g with
                | HBranch hb =>
                    if negb (hb =? b) then (false, true, false, false)
                    else match aget (g_remotes g) b with
                         | Some rb => (false, false, negb (is_anc st h rb), true)
                         | None => (true, false, false, false)
                         end
                | HDetached _ => (false, true, false, false)
                end
            | RTag t | RTagOn _ t => (false, negb (oeqb (Some h) (aget (g_tags g) t)), false, false)
            | RCommit c | RCommitOn _ c => (false, negb (h =? c), false, false)
            end) in *.
  destruct q as [[[err sw] um] onb] eqn:Q.
  destruct err; [simpl in E; discriminate|].
  simpl in E. apply andb_true_iff in E. destruct E as [E1 E2].
  apply negb_true_iff in E1. apply negb_true_iff in E2.
  apply orb_false_iff in E1. destruct E1 as [E1 Eum].
  apply orb_false_iff in E1. destruct E1 as [E1 Esw].
  apply orb_false_iff in E1. destruct E1 as [Emod Eurl].
  apply orb_false_iff in Emod. destruct Emod as [Emod _].
  destruct o as [c|f b].
  - (* commits *)
    destruct Ho as [Uc [tip [L R]]].
    assert (T : In tip (local_tips g)).
    { unfold local_tips. apply in_or_app. destruct L as [[b B]|D].
      - left. apply in_map_iff. exists (b, tip). split; auto. apply (kget_In N.eqb Neqb_spec). exact B.
      - right. rewrite HC. unfold head_commit in HC. rewrite D in HC. inversion HC. simpl. auto. }
    pose proof (forallb_false_ex _ _ _ E2 tip T) as C. simpl in C. apply negb_false_iff in C.
    unfold covered in C. apply existsb_exists in C. destruct C as [x [Ix Ax]].
    apply is_anc_sound in Ax.
    assert (Ux : upc st x).
    { apply in_app_or in Ix. destruct Ix as [Ix|Ix].
      - apply in_map_iff in Ix. destruct Ix as [[b' c'] [Eq I']]. simpl in Eq. subst. eauto.
      - apply in_app_or in Ix. destruct Ix as [Ix|Ix].
        + apply in_map_iff in Ix. destruct Ix as [[b' c'] [Eq I']]. simpl in Eq. subst. eauto.
        + destruct onb; simpl in Ix; [|contradiction]. destruct Ix as [Ix|[]]. subst x.
          (* HEAD of the configured branch: no unpushed commits on it *)
          destruct r; try (inversion Q; fail).
          destruct (g_head g) as [hb|d]; [|inversion Q].
          destruct (negb (hb =? b)); [inversion Q|].
          destruct (aget (g_remotes g) b) as [rb|] eqn:RB; [|inversion Q].
          unfold q in Q. inversion Q as [[Q1 Q2]]. rewrite <- Q2 in Eum. apply negb_false_iff in Eum. apply is_anc_sound in Eum.
          eapply reach_upc; [exact W|exact Eum|].
          apply (U1 b rb). apply (kget_In N.eqb Neqb_spec). exact RB. }
    apply (upc_not_userc st c); auto.
    eapply reach_upc; [exact W| |exact Ux]. eapply Reach_trans; eauto.
  - (* files *)
    destruct Ho as [A N]. apply N. eapply wt_clean_of_status; eauto.
Qed.
