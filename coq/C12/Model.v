(* C12 — executable model: abstract git workspace with the operations Bob
   issues, Bob's SCM decisions on top (switch / attic / collision / clean).
   Definitions only.  Git semantics are MODELLED (validated differentially by
   harness/props/c12.py against git 2.39); Bob's decisions follow
   pym/bob/builder.py:_cookCheckoutStep, scm/git.py, scm/url.py, scm/imp.py,
   cmds/build/clean.py line by line. *)
From Coq Require Import List NArith Bool.
Require Import BobV.Common.Cases.
Import ListNotations.
Open Scope N_scope.

(* ------------------------------------------------------------------ *)
(* association lists keyed by N and by paths                           *)

Definition cid := N.
Definition path := list N.          (* normalised relative path, component ids; [] is "." *)
Definition tree := list (N * N).    (* file name id -> blob id *)

Fixpoint kget {K V} (e : K -> K -> bool) (l : list (K * V)) (k : K) : option V :=
  match l with
  | [] => None
  | (k', v) :: r => if e k' k then Some v else kget e r k
  end.

Fixpoint kdel {K V} (e : K -> K -> bool) (l : list (K * V)) (k : K) : list (K * V) :=
  match l with
  | [] => []
  | (k', v) :: r => if e k' k then kdel e r k else (k', v) :: kdel e r k
  end.

Definition kset {K V} (e : K -> K -> bool) (l : list (K * V)) (k : K) (v : V) : list (K * V) :=
  (k, v) :: kdel e l k.

Definition aget {V} := @kget N V N.eqb.
Definition adel {V} := @kdel N V N.eqb.
Definition aset {V} := @kset N V N.eqb.

Definition path_eqb (p q : path) : bool := eqb_list N.eqb p q.
Definition pget {V} := @kget path V path_eqb.
Definition pdel {V} := @kdel path V path_eqb.
Definition pset {V} := @kset path V path_eqb.

Fixpoint is_prefix (p q : path) : bool :=
  match p, q with
  | [], _ => true
  | x :: p', y :: q' => (x =? y) && is_prefix p' q'
  | _ :: _, [] => false
  end.

Definition strict_prefix (p q : path) : bool := is_prefix p q && negb (path_eqb p q).

(* order of checkoutsFromState: string order of the normalised path; component
   ids are chosen by the harness in string order of the names *)
Fixpoint path_leb (p q : path) : bool :=
  match p, q with
  | [], _ => true
  | _ :: _, [] => false
  | x :: p', y :: q' => if x <? y then true else if x =? y then path_leb p' q' else false
  end.

Fixpoint insert_sorted {V} (x : path * V) (l : list (path * V)) : list (path * V) :=
  match l with
  | [] => [x]
  | y :: r => if path_leb (fst x) (fst y) then x :: y :: r else y :: insert_sorted x r
  end.

Fixpoint sort_paths {V} (l : list (path * V)) : list (path * V) :=
  match l with
  | [] => []
  | x :: r => insert_sorted x (sort_paths r)
  end.

Definition oeqb (a b : option N) : bool := eqb_option N.eqb a b.
Definition is_some {A} (o : option A) : bool := match o with Some _ => true | None => false end.

Fixpoint memN (x : N) (l : list N) : bool :=
  match l with [] => false | y :: r => (x =? y) || memN x r end.

Fixpoint nodupN (l : list N) : list N :=
  match l with
  | [] => []
  | x :: r => if memN x r then nodupN r else x :: nodupN r
  end.

(* ------------------------------------------------------------------ *)
(* commit store (global, append only; contains upstream and user commits) *)

Record commit := mkC { c_parent : option cid; c_tree : tree; c_user : bool }.
Definition store := list (cid * commit).

Definition getc (st : store) (c : cid) : option commit := aget st c.

(* [is_anc st a c]: a is c or an ancestor of c *)
Fixpoint is_anc_f (st : store) (fuel : nat) (a c : cid) : bool :=
  if a =? c then true else
  match fuel with
  | O => false
  | S k => match getc st c with
           | Some cm => match c_parent cm with
                        | Some p => is_anc_f st k a p
                        | None => false
                        end
           | None => false
           end
  end.

Definition is_anc (st : store) (a c : cid) : bool := is_anc_f st (length st) a c.

Definition tree_of (st : store) (oc : option cid) : tree :=
  match oc with
  | Some c => match getc st c with Some cm => c_tree cm | None => [] end
  | None => []
  end.

(* ------------------------------------------------------------------ *)
(* working tree update shared by checkout / merge --ff-only / reset --keep:
   paths whose content differs between the two trees must be unmodified
   (and not obstructed by an untracked file); everything else is kept. *)

Definition file_step (ta tb wt : tree) (f : N) : option (option N) :=
  let a := aget ta f in
  let b := aget tb f in
  let w := aget wt f in
  if oeqb a b then Some w else if oeqb w a then Some b else None.

Fixpoint co_files (ta tb wt : tree) (fs : list N) : option tree :=
  match fs with
  | [] => Some []
  | f :: r =>
      match file_step ta tb wt f, co_files ta tb wt r with
      | Some (Some c), Some t => Some ((f, c) :: t)
      | Some None, Some t => Some t
      | _, _ => None
      end
  end.

Definition names3 (ta tb wt : tree) : list N :=
  nodupN (map fst ta ++ map fst tb ++ map fst wt).

Definition checkout_wt (ta tb wt : tree) : option tree :=
  co_files ta tb wt (names3 ta tb wt).

(* ------------------------------------------------------------------ *)
(* upstream universe                                                   *)

Record urepo := mkU { u_branches : list (N * cid); u_tags : list (N * cid) }.
Record upstream := mkUp {
  up_git : list (N * urepo);     (* repository id -> refs *)
  up_url : list (N * N);         (* url file id -> current blob *)
  up_imp : list (N * tree)       (* import source dir id -> current files *)
}.

(* ------------------------------------------------------------------ *)
(* abstract git workspace                                              *)

Inductive head := HBranch (b : N) | HDetached (c : cid).

Record gitws := mkG {
  g_url : N;                       (* remote.origin.url *)
  g_objs : list cid;               (* tips ever fetched; objects present = their ancestors *)
  g_remotes : list (N * cid);      (* refs/remotes/origin/* *)
  g_tags : list (N * cid);
  g_branches : list (N * cid);     (* refs/heads/* *)
  g_head : head;
  g_wt : tree                      (* regular files in the work tree (tracked or not) *)
}.

Definition g_init (url : N) (files : tree) : gitws := mkG url [] [] [] [] (HBranch 0) files.

Definition head_commit (g : gitws) : option cid :=
  match g_head g with
  | HBranch b => aget (g_branches g) b
  | HDetached c => Some c
  end.

Definition head_valid (g : gitws) : bool := is_some (head_commit g).
Definition head_tree (st : store) (g : gitws) : tree := tree_of st (head_commit g).

Definition has_obj (st : store) (objs : list cid) (c : cid) : bool :=
  is_some (getc st c) && existsb (fun t => is_anc st c t) objs.

Definition with_url (g : gitws) (u : N) : gitws :=
  mkG u (g_objs g) (g_remotes g) (g_tags g) (g_branches g) (g_head g) (g_wt g).
Definition with_fetch (g : gitws) (objs : list cid) (rem tags : list (N * cid)) : gitws :=
  mkG (g_url g) objs rem tags (g_branches g) (g_head g) (g_wt g).
Definition with_co (g : gitws) (br : list (N * cid)) (h : head) (wt : tree) : gitws :=
  mkG (g_url g) (g_objs g) (g_remotes g) (g_tags g) br h wt.

(* tag auto-following: tags of the remote we do not have and whose commit is present *)
Fixpoint follow_tags (st : store) (objs : list cid) (rtags tags : list (N * cid)) : list (N * cid) :=
  match rtags with
  | [] => tags
  | (t, c) :: r =>
      let tags' := follow_tags st objs r tags in
      if is_some (aget tags' t) then tags'
      else if has_obj st objs c then aset tags' t c else tags'
  end.

(* git fetch -p origin +refs/heads/*:refs/remotes/origin/* [refs/tags/T:refs/tags/T] *)
Definition fetch (st : store) (up : upstream) (g : gitws) (tag : option N) : gitws * bool :=
  match aget (up_git up) (g_url g) with
  | None => (g, false)
  | Some r =>
      let rem := u_branches r in
      let objs1 := map snd rem ++ g_objs g in
      match tag with
      | None => (with_fetch g objs1 rem (follow_tags st objs1 (u_tags r) (g_tags g)), true)
      | Some t =>
          match aget (u_tags r) t with
          | None => (g, false)                      (* couldn't find remote ref *)
          | Some c =>
              match aget (g_tags g) t with
              | None =>
                  let objs2 := c :: objs1 in
                  (with_fetch g objs2 rem (follow_tags st objs2 (u_tags r) (aset (g_tags g) t c)), true)
              | Some c' =>
                  (with_fetch g objs1 rem (follow_tags st objs1 (u_tags r) (g_tags g)), c' =? c)
                                                    (* would clobber existing tag: rejected, exit 1 *)
              end
          end
      end
  end.

Definition move_wt (st : store) (g : gitws) (target : cid) : option tree :=
  checkout_wt (head_tree st g) (tree_of st (Some target)) (g_wt g).

(* git checkout -b b <start> *)
Definition co_new_branch (st : store) (g : gitws) (b : N) (start : option cid) : gitws * bool :=
  match start with
  | None => (g, false)
  | Some c =>
      match aget (g_branches g) b with
      | Some _ => (g, false)
      | None =>
          match move_wt st g c with
          | None => (g, false)
          | Some wt' => (with_co g (aset (g_branches g) b c) (HBranch b) wt', true)
          end
      end
  end.

(* git checkout b   (local branch exists) *)
Definition co_branch (st : store) (g : gitws) (b : N) : gitws * bool :=
  match aget (g_branches g) b with
  | None => (g, false)
  | Some c =>
      match move_wt st g c with
      | None => (g, false)
      | Some wt' => (with_co g (g_branches g) (HBranch b) wt', true)
      end
  end.

(* git checkout -q <commit>  *)
Definition co_detach (st : store) (g : gitws) (oc : option cid) : gitws * bool :=
  match oc with
  | None => (g, false)
  | Some c =>
      match move_wt st g c with
      | None => (g, false)
      | Some wt' => (with_co g (g_branches g) (HDetached c) wt', true)
      end
  end.

(* git merge --ff-only refs/remotes/origin/b   (HEAD on a local branch) *)
Definition merge_ff (st : store) (g : gitws) (b : N) : gitws * bool :=
  match aget (g_remotes g) b, g_head g with
  | Some t, HBranch hb =>
      match aget (g_branches g) hb with
      | None => (g, false)
      | Some h =>
          if is_anc st t h then (g, true)                       (* already up to date *)
          else if is_anc st h t then
            match move_wt st g t with
            | None => (g, false)
            | Some wt' => (with_co g (aset (g_branches g) hb t) (HBranch hb) wt', true)
            end
          else (g, false)
      end
  | _, _ => (g, false)
  end.

(* git reset --keep <commit>   (HEAD on a local branch) *)
Definition reset_keep (st : store) (g : gitws) (c : cid) : gitws * bool :=
  match g_head g with
  | HBranch hb =>
      match move_wt st g c with
      | None => (g, false)
      | Some wt' => (with_co g (aset (g_branches g) hb c) (HBranch hb) wt', true)
      end
  | HDetached _ => (g, false)
  end.

(* git branch -a --contains HEAD lists a name different from the current branch *)
Definition contains_other (st : store) (g : gitws) : bool :=
  match g_head g, head_commit g with
  | HBranch hb, Some h =>
      existsb (fun bc => negb (fst bc =? hb) && is_anc st h (snd bc)) (g_branches g)
      || existsb (fun bc => is_anc st h (snd bc)) (g_remotes g)
  | _, _ => false
  end.

(* ------------------------------------------------------------------ *)
(* GitScm.invoke / switch                                              *)

Inductive gitrev :=
| RBranch (b : N)
| RTag (t : N)
| RCommit (c : cid)
| RTagOn (b t : N)            (* branch + tag, useBranchAndCommit *)
| RCommitOn (b : N) (c : cid).

Definition rev_tag (r : gitrev) : option N :=
  match r with RTag t | RTagOn _ t => Some t | _ => None end.
Definition rev_commit (r : gitrev) : option cid :=
  match r with RCommit c | RCommitOn _ c => Some c | _ => None end.

Definition resolve_rev (st : store) (g : gitws) (r : gitrev) : option cid :=
  match r with
  | RTag t | RTagOn _ t => aget (g_tags g) t
  | RCommit c | RCommitOn _ c => if has_obj st (g_objs g) c then Some c else None
  | RBranch _ => None
  end.

(* __checkoutBranch (rebase off) *)
Definition checkout_branch (st : store) (up : upstream) (g : gitws) (b : N) (switch : bool) : gitws * bool :=
  let '(g1, ok) := fetch st up g None in
  if negb ok then (g1, false) else
  if negb (head_valid g1) then co_new_branch st g1 b (aget (g_remotes g1) b)
  else if switch then
    match aget (g_branches g1) b with
    | None => co_new_branch st g1 b (aget (g_remotes g1) b)
    | Some _ =>
        let '(g2, ok2) := co_branch st g1 b in
        if ok2 then merge_ff st g2 b else (g2, false)
    end
  else
    match g_head g1 with
    | HBranch hb => if hb =? b then merge_ff st g1 b else (g1, true)   (* "branch was changed manually" *)
    | HDetached _ => (g1, true)
    end.

(* __checkoutTag *)
Definition checkout_tag (st : store) (up : upstream) (g : gitws) (r : gitrev) (switch : bool) : gitws * bool :=
  if negb (head_valid g) || switch then
    let '(g1, ok) := fetch st up g (rev_tag r) in
    if negb ok then (g1, false) else co_detach st g1 (resolve_rev st g1 r)
  else (g, true).

(* __checkoutTagOnBranch *)
Definition checkout_tag_on_branch (st : store) (up : upstream) (g : gitws) (b : N) (r : gitrev)
           (switch : bool) : gitws * bool :=
  let hv := head_valid g in
  if hv && negb switch then (g, true) else
  let at_target :=
    match r with
    | RCommitOn _ c => oeqb (head_commit g) (Some c)
    | RTagOn _ t => match aget (g_tags g) t with
                    | Some c => oeqb (head_commit g) (Some c)
                    | None => false
                    end
    | _ => false
    end in
  if hv && at_target then (g, true) else
  let '(g1, ok) := fetch st up g (rev_tag r) in
  if negb ok then (g1, false) else
  match resolve_rev st g1 r with
  | None => (g1, false)                                  (* cat-file -e *)
  | Some c =>
      match aget (g_remotes g1) b with
      | None => (g1, false)
      | Some rb =>
          if negb (is_anc st c rb) then (g1, false)      (* merge-base --is-ancestor *)
          else
            let branchExists := hv && is_some (aget (g_branches g1) b) in
            if negb hv || negb branchExists then co_new_branch st g1 b (Some c)
            else
              let '(g2, ok2) := co_branch st g1 b in
              if negb ok2 then (g2, false) else
              if negb (contains_other st g2) then (g2, false)   (* "Current state would be lost" *)
              else reset_keep st g2 c
      end
  end.

Definition git_invoke (st : store) (up : upstream) (g : gitws) (url : N) (r : gitrev) (switch : bool)
  : gitws * bool :=
  let g0 := with_url g url in
  match r with
  | RBranch b => checkout_branch st up g0 b switch
  | RTag _ | RCommit _ => checkout_tag st up g0 r switch
  | RTagOn b _ | RCommitOn b _ => checkout_tag_on_branch st up g0 b r switch
  end.

(* the detached-HEAD rule of GitScm.switch *)
Definition switch_guard (g : gitws) (oldr newr : gitrev) : bool :=
  match g_head g with
  | HBranch _ => true
  | HDetached cur =>
      let old : option (option cid) :=       (* None: fail *)
        match rev_commit oldr with
        | Some c => Some (Some c)
        | None =>
            match rev_tag oldr with
            | Some t => match aget (g_tags g) t with Some c => Some (Some c) | None => None end
            | None => None                   (* moved from branch to detached HEAD *)
            end
        end in
      match old with
      | None => false
      | Some oc => oeqb (Some cur) oc || oeqb (Some cur) (rev_commit newr)
      end
  end.

Definition git_switch (st : store) (up : upstream) (g : gitws) (oldr : gitrev) (url : N) (newr : gitrev)
  : gitws * bool :=
  if switch_guard g oldr newr then git_invoke st up g url newr true else (g, false).

(* ------------------------------------------------------------------ *)
(* GitScm.status -> (dirty, expendable)                                *)

Definition wt_modified (st : store) (g : gitws) : bool :=
  let ht := head_tree st g in
  existsb (fun f => negb (oeqb (aget (g_wt g) f) (aget ht f))) (names3 ht [] (g_wt g)).

Definition covered (st : store) (excl : list cid) (tip : cid) : bool :=
  existsb (fun x => is_anc st tip x) excl.

Definition local_tips (g : gitws) : list cid :=
  map snd (g_branches g) ++ match head_commit g with Some h => [h] | None => [] end.

Record gstatus := mkS { s_dirty : bool; s_expendable : bool }.

Definition git_status (st : store) (g : gitws) (nested_visible : bool) (url : N) (r : gitrev) : gstatus :=
  match head_commit g with
  | None => mkS true false                       (* rev-parse HEAD fails: error *)
  | Some h =>
      let sw_url := negb (g_url g =? url) in
      (* (error, switched, unpushed_main, onCorrectBranch) *)
      let '(err, sw, um, onb) :=
        match r with
        | RCommit c | RCommitOn _ c => (false, negb (h =? c), false, false)
        | RTag t | RTagOn _ t => (false, negb (oeqb (Some h) (aget (g_tags g) t)), false, false)
        | RBranch b =>
            match g_head g with
            | HDetached _ => (false, true, false, false)
            | HBranch hb =>
                if negb (hb =? b) then (false, true, false, false)
                else match aget (g_remotes g) b with
                     | None => (true, false, false, false)
                     | Some rb => (false, false, negb (is_anc st h rb), true)
                     end
            end
        end in
      if err then mkS true false else
      let modified := wt_modified st g || nested_visible in
      let excl := map snd (g_remotes g) ++ map snd (g_tags g) ++ (if onb then [h] else []) in
      let ul := existsb (fun tip => negb (covered st excl tip)) (local_tips g) in
      let dirty := modified || sw_url || sw || um in
      mkS dirty (negb dirty && negb ul)
  end.

(* ------------------------------------------------------------------ *)
(* SCM specifications and their digests (asDigestScript)               *)

Inductive scm :=
| SGit (url : N) (r : gitrev) (dir : path)
| SUrl (url : N) (dig : option N) (dir : path)          (* file name = basename of url, distinct per url *)
| SImport (src : N) (prune : bool) (dir : path).

Definition scm_dir (s : scm) : path :=
  match s with SGit _ _ d | SUrl _ _ d | SImport _ _ d => d end.

Inductive dg :=
| DCommit (c : cid) (d : path)
| DTag (url t : N) (d : path)
| DBranch (url b : N) (d : path)
| DUrl (dig : option N) (url : N) (d : path)
| DImport (src : N) (d : path).

Definition digest (s : scm) : dg :=
  match s with
  | SGit u r d =>
      match r with
      | RCommit c | RCommitOn _ c => DCommit c d
      | RTag t | RTagOn _ t => DTag u t d
      | RBranch b => DBranch u b d
      end
  | SUrl u g d => DUrl g u d
  | SImport src _ d => DImport src d
  end.

Definition dg_eqb (a b : dg) : bool :=
  match a, b with
  | DCommit c d, DCommit c' d' => (c =? c') && path_eqb d d'
  | DTag u t d, DTag u' t' d' => (u =? u') && (t =? t') && path_eqb d d'
  | DBranch u t d, DBranch u' t' d' => (u =? u') && (t =? t') && path_eqb d d'
  | DUrl g u d, DUrl g' u' d' => oeqb g g' && (u =? u') && path_eqb d d'
  | DImport s d, DImport s' d' => (s =? s') && path_eqb d d'
  | _, _ => false
  end.

Definition odg_eqb (a b : option dg) : bool := eqb_option dg_eqb a b.

Definition deterministic (s : scm) : bool :=
  match s with
  | SGit _ (RBranch _) _ => false
  | SGit _ _ _ => true
  | SUrl _ g _ => is_some g
  | SImport _ _ _ => false
  end.

Definition is_git (s : scm) : bool := match s with SGit _ _ _ => true | _ => false end.

(* Scm.canSwitch (git: only branch/tag/commit/url differ; url: same url and dir) *)
Definition can_switch (snew sold : scm) : bool :=
  match snew, sold with
  | SGit _ _ d1, SGit _ _ d2 => path_eqb d1 d2
  | SUrl u1 _ d1, SUrl u2 _ d2 => path_eqb d1 d2 && (u1 =? u2)
  | _, _ => false
  end.

(* recipe validation of input.py: deeper paths later, no native (git) SCM
   below an earlier non-native one, no directory twice *)
Fixpoint spec_ok_from (known : list (path * bool)) (l : list scm) : bool :=
  match l with
  | [] => true
  | s :: r =>
      let p := scm_dir s in
      forallb (fun kn => negb (is_prefix p (fst kn))
                         && negb (is_prefix (fst kn) p && is_git s && negb (snd kn))) known
      && spec_ok_from (known ++ [(p, is_git s)]) r
  end.
Definition spec_ok (l : list scm) : bool := spec_ok_from [] l.

(* ------------------------------------------------------------------ *)
(* directories of a source workspace                                   *)

Inductive node := NGit (g : gitws) | NPlain (files : tree).
Definition nodes := list (path * node).

Definition node_files (n : node) : tree := match n with NGit g => g_wt g | NPlain f => f end.
Definition node_with_files (n : node) (f : tree) : node :=
  match n with
  | NGit g => NGit (with_co g (g_branches g) (g_head g) f)
  | NPlain _ => NPlain f
  end.

Definition under (d : path) (pn : path * node) : bool := is_prefix d (fst pn).

Definition path_exists (ns : nodes) (d : path) : bool := existsb (under d) ns.

(* all proper, non-root prefixes of a path, shortest first *)
Fixpoint proper_prefixes_from (acc : path) (p : path) : list path :=
  match p with
  | [] => []
  | x :: r => match r with
              | [] => []
              | _ => (acc ++ [x]) :: proper_prefixes_from (acc ++ [x]) r
              end
  end.
Definition proper_prefixes (p : path) : list path := proper_prefixes_from [] p.

Definition ensure_dir (ns : nodes) (d : path) : nodes :=
  if is_some (pget ns d) then ns else ns ++ [(d, NPlain [])].

Definition put_node (ns : nodes) (d : path) (n : node) : nodes :=
  let ns1 := fold_left ensure_dir (proper_prefixes d) ns in
  if is_some (pget ns1 d) then map (fun pn => if path_eqb (fst pn) d then (d, n) else pn) ns1
  else ns1 ++ [(d, n)].

Definition FGITIGNORE : N := 99.
Definition COMP_IGNORED : N := 5.     (* the directory name listed in .gitignore ("n") *)

Definition node_nonempty (n : node) : bool :=
  match n with NGit _ => true | NPlain f => negb (match f with [] => true | _ => false end) end.

(* an untracked, not ignored directory below the git work tree at d shows up in status *)
Definition nested_visible (ns : nodes) (d : path) (wt : tree) : bool :=
  existsb (fun pn => strict_prefix d (fst pn) && node_nonempty (snd pn)
                     && negb ((nth (length d) (fst pn) 0 =? COMP_IGNORED) && is_some (aget wt FGITIGNORE))) ns.

Definition rebase_path (d : path) (pn : path * node) : path * node := (skipn (length d) (fst pn), snd pn).

(* ------------------------------------------------------------------ *)
(* recorded state of one source workspace                              *)

Record dsentry := mkDE { de_dig : option dg; de_spec : option scm }.

Record wstate := mkW {
  w_exists : bool;                                  (* the workspace directory exists *)
  w_nodes : nodes;
  w_ds : list (path * dsentry);                     (* BobState directory state, SCM entries *)
  w_vid : option (list dg);                         (* CHECKOUT_STATE_VARIANT_ID entry *)
  w_attic : list nodes;                             (* attic directories in creation order *)
  w_astate : list ((N * path) * option scm)         (* BobState attic directory states *)
}.

Definition w_empty : wstate := mkW false [] [] None [] [].

(* status of the SCM recorded/configured for directory d *)
Definition scm_status (st : store) (ns : nodes) (d : path) (s : scm) : gstatus :=
  match s with
  | SGit u r _ =>
      match pget ns d with
      | Some (NGit g) => git_status st g (nested_visible ns d (g_wt g)) u r
      | _ => mkS true false                          (* git error *)
      end
  | _ => mkS false true
  end.

Definition entry_expendable (st : store) (ns : nodes) (d : path) (e : dsentry) : bool :=
  match de_spec e with
  | Some s => s_expendable (scm_status st ns d s)
  | None => false                                    (* UNKNOWN *)
  end.

(* ------------------------------------------------------------------ *)
(* running the SCMs of a checkout step (invoker: preRunCmds in list order) *)

Definition url_fname (u : N) : N := 100 + u.

Definition invoke_scm (st : store) (up : upstream) (ns : nodes) (s : scm) : nodes * bool :=
  match s with
  | SGit u r d =>
      let g := match pget ns d with
               | Some (NGit g) => g
               | Some (NPlain f) => g_init u f
               | None => g_init u []
               end in
      let '(g', ok) := git_invoke st up g u r false in
      (put_node ns d (NGit g'), ok)
  | SUrl u dig d =>
      let n := match pget ns d with Some n => n | None => NPlain [] end in
      let files := node_files n in
      let fn := url_fname u in
      let fetched : option tree :=
        if negb (is_some dig) || negb (is_some (aget files fn)) then
          match aget (up_url up) u with
          | Some b => Some (aset files fn b)
          | None => None
          end
        else Some files in
      match fetched with
      | None => (put_node ns d n, false)
      | Some files' =>
          let ok := match dig with
                    | Some dd => oeqb (aget files' fn) (Some dd)
                    | None => true
                    end in
          (put_node ns d (node_with_files n files'), ok)
      end
  | SImport src prune d =>
      let n := match pget ns d with Some n => n | None => NPlain [] end in
      let ns1 := if prune then filter (fun pn => negb (strict_prefix d (fst pn))) ns else ns in
      let n1 := if prune then NPlain [] else n in
      match aget (up_imp up) src with
      | None => (put_node ns1 d n1, false)
      | Some srcf =>
          let files' := fold_left (fun acc fb => aset acc (fst fb) (snd fb)) srcf (node_files n1) in
          (put_node ns1 d (node_with_files n1 files'), true)
      end
  end.

Fixpoint invoke_all (st : store) (up : upstream) (ns : nodes) (l : list scm) : nodes * bool :=
  match l with
  | [] => (ns, true)
  | s :: r =>
      let '(ns1, ok) := invoke_scm st up ns s in
      if ok then invoke_all st up ns1 r else (ns1, false)
  end.

(* ------------------------------------------------------------------ *)
(* the switch-or-attic loop of _cookCheckoutStep                       *)

Record loopst := mkL {
  l_exists : bool;
  l_nodes : nodes;
  l_ds : list (path * dsentry);
  l_attic : list nodes;
  l_astate : list ((N * path) * option scm);
  l_tracker : list (path * N);          (* AtticTracker: moved directory -> attic index *)
  l_dec : list (N * path)               (* 1 = SWITCH attempted, 2 = ATTIC *)
}.

Definition tracker_match (tr : list (path * N)) (d : path) : option (path * N) :=
  find (fun rk => is_prefix (fst rk) d) tr.

Definition dir_exists (L : loopst) (d : path) : bool :=
  match d with [] => l_exists L | _ => path_exists (l_nodes L) d end.

Definition move_to_attic (L : loopst) (d : path) (spec : option scm) : loopst :=
  let k := N.of_nat (length (l_attic L)) in
  let moved := map (rebase_path d) (filter (under d) (l_nodes L)) in
  mkL (match d with [] => false | _ => l_exists L end)
      (filter (fun pn => negb (under d pn)) (l_nodes L))
      (pdel (l_ds L) d)
      (l_attic L ++ [moved])
      (l_astate L ++ [((k, []), spec)])
      (l_tracker L ++ [(d, k)])
      (l_dec L ++ [(2, d)]).

Definition with_nodes_dec (L : loopst) (ns : nodes) (dec : list (N * path)) : loopst :=
  mkL (l_exists L) ns (l_ds L) (l_attic L) (l_astate L) (l_tracker L) dec.
Definition with_ds (L : loopst) (ds : list (path * dsentry)) : loopst :=
  mkL (l_exists L) (l_nodes L) ds (l_attic L) (l_astate L) (l_tracker L) (l_dec L).

(* __runScmSwitch *)
Definition do_switch (st : store) (up : upstream) (ns : nodes) (d : path) (snew sold : scm) : nodes * bool :=
  match snew, sold with
  | SGit u r _, SGit _ oldr _ =>
      match pget ns d with
      | Some (NGit g) =>
          let '(g', ok) := git_switch st up g oldr u r in
          (put_node ns d (NGit g'), ok)
      | _ => (ns, false)
      end
  | SUrl _ _ _, SUrl _ _ _ => (ns, true)       (* UrlScm.switch: nothing to do (fileMode unchanged) *)
  | _, _ => (ns, false)
  end.

Definition loop_step (st : store) (up : upstream) (newmap : list (path * scm)) (L : loopst)
           (de : path * dsentry) : loopst :=
  let d := fst de in
  let e := snd de in
  match tracker_match (l_tracker L) d with
  | Some (r, k) =>
      (* a directory above was moved to the attic: re-home the recorded state *)
      mkL (l_exists L) (l_nodes L) (pdel (l_ds L) d) (l_attic L)
          (l_astate L ++ [((k, skipn (length r) d), de_spec e)]) (l_tracker L) (l_dec L)
  | None =>
      let newd := match pget newmap d with Some s => Some (digest s) | None => None end in
      if odg_eqb (de_dig e) newd then L else
      let ex := dir_exists L d in
      let sw := match pget newmap d, de_dig e, de_spec e with
                | Some snew, Some _, Some sold => if can_switch snew sold && ex then Some (snew, sold) else None
                | _, _, _ => None
                end in
      match sw with
      | Some (snew, sold) =>
          let '(ns1, did) := do_switch st up (l_nodes L) d snew sold in
          let L1 := with_nodes_dec L ns1 (l_dec L ++ [(1, d)]) in
          if did then with_ds L1 (pset (l_ds L1) d (mkDE (Some (digest snew)) (Some snew)))
          else if dir_exists L1 d then move_to_attic L1 d (de_spec e)
          else with_ds L1 (pdel (l_ds L1) d)
      | None =>
          if ex then move_to_attic L d (de_spec e) else with_ds L (pdel (l_ds L) d)
      end
  end.

Inductive result := RSkipped | ROk | RCollision | RFailed.

Definition spec_map (spec : list scm) : list (path * scm) := map (fun s => (scm_dir s, s)) spec.
Definition new_ds (spec : list scm) : list (path * dsentry) :=
  map (fun s => (scm_dir s, mkDE (Some (digest s)) (Some s))) spec.

(* compareDirectoryState *)
Definition same_state (spec : list scm) (ds : list (path * dsentry)) (vid : option (list dg)) : bool :=
  eqb_option (eqb_list dg_eqb) vid (Some (map digest spec))
  && Nat.eqb (length ds) (length spec)
  && forallb (fun s => match pget ds (scm_dir s) with
                       | Some e => odg_eqb (de_dig e) (Some (digest s))
                       | None => false
                       end) spec.

(* --clean-checkout: invalidate the digest of dirty, otherwise unchanged SCM directories *)
Definition invalidate_dirty (st : store) (ns : nodes) (newmap : list (path * scm)) (de : path * dsentry)
  : path * dsentry :=
  let d := fst de in
  match pget newmap d with
  | Some s =>
      if odg_eqb (de_dig (snd de)) (Some (digest s)) && path_exists ns d
         && s_dirty (scm_status st ns d s)
      then (d, mkDE None (de_spec (snd de))) else de
  | None => de
  end.

Definition cook (st : store) (up : upstream) (cc : bool) (spec : list scm) (w : wstate)
  : wstate * (list (N * path) * result) :=
  let created := negb (w_exists w) in
  let ds0 := if created then [] else w_ds w in
  let vid0 := if created then None else w_vid w in
  let newmap := spec_map spec in
  let ds1 := if cc then map (invalidate_dirty st (w_nodes w) newmap) ds0 else ds0 in
  let reason := created || negb (forallb deterministic spec) || negb (same_state spec ds1 vid0) in
  if negb reason then (mkW true (w_nodes w) ds0 vid0 (w_attic w) (w_astate w), ([], RSkipped)) else
  let L0 := mkL true (w_nodes w) ds1 (w_attic w) (w_astate w) [] [] in
  let L := fold_left (loop_step st up newmap) (sort_paths ds1) L0 in
  let collide := existsb (fun ds => negb (match fst ds with [] => true | _ => false end)
                                    && negb (is_some (pget (l_ds L) (fst ds)))
                                    && path_exists (l_nodes L) (fst ds)) (sort_paths newmap) in
  if collide then
    (mkW (l_exists L) (l_nodes L) (l_ds L) vid0 (l_attic L) (l_astate L), (l_dec L, RCollision))
  else
    let '(ns2, ok) := invoke_all st up (l_nodes L) spec in
    (mkW true ns2 (new_ds spec) (if ok then Some (map digest spec) else None) (l_attic L) (l_astate L),
     (l_dec L, if ok then ROk else RFailed)).

(* ------------------------------------------------------------------ *)
(* bob clean -s / bob clean --attic (non-forced)                       *)

Definition all_expendable (st : store) (w : wstate) : bool :=
  forallb (fun de => entry_expendable st (w_nodes w) (fst de) (snd de)) (w_ds w).

Definition clean_src_one (st : store) (used : bool) (w : wstate) : wstate :=
  if negb used && w_exists w && all_expendable st w
  then mkW false [] [] None (w_attic w) (w_astate w) else w.

Definition attic_exists (w : wstate) (kp : N * path) : bool :=
  path_exists (nth (N.to_nat (fst kp)) (w_attic w) []) (snd kp).

Definition attic_expendable (st : store) (w : wstate) (ae : (N * path) * option scm) : bool :=
  let ns := nth (N.to_nat (fst (fst ae))) (w_attic w) [] in
  match snd ae with
  | Some s => s_expendable (scm_status st ns (snd (fst ae)) s)
  | None => false
  end.

(* an attic directory is deleted iff it and every recorded attic directory below it is expendable *)
Definition attic_deletable (st : store) (w : wstate) (ae : (N * path) * option scm) : bool :=
  attic_exists w (fst ae) && attic_expendable st w ae
  && forallb (fun other => negb ((fst (fst other) =? fst (fst ae))
                                 && strict_prefix (snd (fst ae)) (snd (fst other))
                                 && attic_exists w (fst other))
                           || attic_expendable st w other) (w_astate w).

Definition clean_attic_one (st : store) (w : wstate) : wstate :=
  let del := filter (attic_deletable st w) (w_astate w) in
  let doomed (k : N) (p : path) : bool :=
    existsb (fun ae => (fst (fst ae) =? k) && is_prefix (snd (fst ae)) p) del in
  let attic' := map (fun kn => filter (fun pn => negb (doomed (fst kn) (fst pn))) (snd kn))
                    (combine (map N.of_nat (seq 0 (length (w_attic w)))) (w_attic w)) in
  let w' := mkW (w_exists w) (w_nodes w) (w_ds w) (w_vid w) attic' (w_astate w) in
  mkW (w_exists w) (w_nodes w) (w_ds w) (w_vid w) attic'
      (filter (fun ae => attic_exists w' (fst ae)) (w_astate w)).

(* ------------------------------------------------------------------ *)
(* user actions inside a git directory (modelled git semantics, used to keep
   the model in step with the generated histories)                      *)

Inductive uop :=
| UWrite (f b : N)                 (* modify a tracked file / create an untracked file *)
| UCommit (c : cid)                (* git add -A; git commit: c is in the store with tree = work tree *)
| UNewBranch (b : N)               (* git checkout -b b *)
| UCheckout (b : N)                (* git checkout b (local, or created from origin/b) *)
| UDetach (oc : option cid).       (* git checkout --detach [commit] *)

Definition user_op (st : store) (g : gitws) (u : uop) : gitws :=
  match u with
  | UWrite f b => with_co g (g_branches g) (g_head g) (aset (g_wt g) f b)
  | UCommit c =>
      match g_head g with
      | HBranch hb => with_co g (aset (g_branches g) hb c) (g_head g) (g_wt g)
      | HDetached _ => with_co g (g_branches g) (HDetached c) (g_wt g)
      end
  | UNewBranch b =>
      match head_commit g with
      | Some h => with_co g (aset (g_branches g) b h) (HBranch b) (g_wt g)
      | None => g
      end
  | UCheckout b =>
      match aget (g_branches g) b with
      | Some _ => fst (co_branch st g b)
      | None => fst (co_new_branch st g b (aget (g_remotes g) b))
      end
  | UDetach None =>
      match head_commit g with
      | Some h => with_co g (g_branches g) (HDetached h) (g_wt g)
      | None => g
      end
  | UDetach (Some c) => fst (co_detach st g (Some c))
  end.

(* ------------------------------------------------------------------ *)
(* projects and histories                                              *)

Definition proj := list (N * wstate).      (* package id -> its source workspace *)

Definition getw (P : proj) (k : N) : wstate := match aget P k with Some w => w | None => w_empty end.

Inductive op :=
| OBuild (cc : bool) (up : upstream) (specs : list (N * list scm))   (* bob dev [--clean-checkout] *)
| OCleanSrc (used : list N)                                          (* bob clean -s *)
| OCleanAttic                                                        (* bob clean --attic *)
| OUser (pkg : N) (d : path) (u : uop).

Definition stepobs := list (N * (list (N * path) * result)).

(* packages are cooked in dependency order (bob dev -k: a failing checkout
   does not stop the checkouts of the other packages) *)
Fixpoint build_all (st : store) (up : upstream) (cc : bool) (specs : list (N * list scm)) (P : proj)
  : proj * stepobs :=
  match specs with
  | [] => (P, [])
  | (k, spec) :: r =>
      match spec with
      | [] => build_all st up cc r P            (* no checkout step *)
      | _ =>
          let '(w', o) := cook st up cc spec (getw P k) in
          let '(P'', os) := build_all st up cc r (aset P k w') in
          (P'', (k, o) :: os)
      end
  end.

Definition run_op (st : store) (P : proj) (o : op) : proj * stepobs :=
  match o with
  | OBuild cc up specs => build_all st up cc specs P
  | OCleanSrc used => (map (fun kw => (fst kw, clean_src_one st (memN (fst kw) used) (snd kw))) P, [])
  | OCleanAttic => (map (fun kw => (fst kw, clean_attic_one st (snd kw))) P, [])
  | OUser k d u =>
      let w := getw P k in
      match pget (w_nodes w) d with
      | Some (NGit g) =>
          let ns := map (fun pn => if path_eqb (fst pn) d then (d, NGit (user_op st g u)) else pn) (w_nodes w) in
          (aset P k (mkW (w_exists w) ns (w_ds w) (w_vid w) (w_attic w) (w_astate w)), [])
      | _ => (P, [])
      end
  end.

Fixpoint run_ops (st : store) (P : proj) (ops : list op) : proj :=
  match ops with
  | [] => P
  | o :: r => run_ops st (fst (run_op st P o)) r
  end.

(* ------------------------------------------------------------------ *)
(* observations compared with the implementation                       *)

Definition gitobs := (N * (N * N) * (list (N * cid) * list (N * cid) * list (N * cid)))%type.
                      (* url, (head kind, value), (branches, remotes, tags) *)
Definition dirobs := (path * option gitobs * tree)%type.
Definition wsobs := (bool * list dirobs * list (list dirobs))%type.
Definition obs := (stepobs * list (N * wsobs))%type.

Definition git_obs (g : gitws) : gitobs :=
  (g_url g,
   match g_head g with
   | HBranch b => (if is_some (aget (g_branches g) b) then 0 else 2, b)     (* 2 = unborn *)
   | HDetached c => (1, c)
   end,
   (g_branches g, g_remotes g, g_tags g)).

Definition dir_obs (pn : path * node) : dirobs :=
  match snd pn with
  | NGit g => (fst pn, Some (git_obs g), g_wt g)
  | NPlain f => (fst pn, None, f)
  end.

Definition ws_obs (w : wstate) : wsobs :=
  let ns := if w_exists w && negb (is_some (pget (w_nodes w) [])) then ([], NPlain []) :: w_nodes w
            else w_nodes w in
  (w_exists w, map dir_obs ns,
   map (map dir_obs) (filter (fun a => match a with [] => false | _ => true end) (w_attic w))).

Definition last_obs (st : store) (ops : list op) : obs :=
  match rev ops with
  | [] => ([], [])
  | o :: before =>
      let '(P, so) := run_op st (run_ops st [] (rev before)) o in
      (so, map (fun k => (k, ws_obs (getw P k))) [0; 1])
  end.

(* order-insensitive comparison of observations *)
Definition set_eqb {A} (e : A -> A -> bool) (a b : list A) : bool :=
  Nat.eqb (length a) (length b) && forallb (fun x => existsb (e x) b) a && forallb (fun y => existsb (fun x => e x y) a) b.

Definition nn_eqb (a b : N * N) : bool := (fst a =? fst b) && (snd a =? snd b).
Definition refs_eqb := set_eqb nn_eqb.

Definition gitobs_eqb (a b : gitobs) : bool :=
  let '(u, h, (br, rm, tg)) := a in
  let '(u', h', (br', rm', tg')) := b in
  (u =? u') && nn_eqb h h' && refs_eqb br br' && refs_eqb rm rm' && refs_eqb tg tg'.

Definition dirobs_eqb (a b : dirobs) : bool :=
  let '(p, g, f) := a in
  let '(p', g', f') := b in
  path_eqb p p' && eqb_option gitobs_eqb g g' && refs_eqb f f'.

Definition result_eqb (a b : result) : bool :=
  match a, b with
  | RSkipped, RSkipped | ROk, ROk | RCollision, RCollision | RFailed, RFailed => true
  | _, _ => false
  end.

Definition dec_eqb (a b : N * path) : bool := (fst a =? fst b) && path_eqb (snd a) (snd b).

Definition stepobs_eqb (a b : stepobs) : bool :=
  eqb_list (fun x y => (fst x =? fst y) && eqb_list dec_eqb (fst (snd x)) (fst (snd y))
                       && result_eqb (snd (snd x)) (snd (snd y))) a b.

Definition wsobs_eqb (a b : wsobs) : bool :=
  let '(e, ds, at_) := a in
  let '(e', ds', at') := b in
  Bool.eqb e e' && set_eqb dirobs_eqb ds ds' && eqb_list (set_eqb dirobs_eqb) at_ at'.

Definition obs_eqb (a b : obs) : bool :=
  stepobs_eqb (fst a) (fst b)
  && set_eqb (fun x y => (fst x =? fst y) && wsobs_eqb (snd x) (snd y)) (snd a) (snd b).
