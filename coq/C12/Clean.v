(* C12 — bob clean -s / --attic delete only what every recorded SCM calls
   expendable; url digest rule. *)
From Coq Require Import List NArith Bool Lia PeanoNat Arith.
Require Import BobV.Common.Cases BobV.C12.Model BobV.C12.Proofs.
Import ListNotations.
Open Scope N_scope.

(* bob clean -s: a source workspace disappears only if it is unused and every
   recorded SCM directory has a recorded spec and reports expendable *)
Theorem clean_src_requires_expendable_proof : forall st used w,
  w_exists w = true -> w_exists (clean_src_one st used w) = false ->
  used = false /\
  forall d e, In (d, e) (w_ds w) ->
    exists s, de_spec e = Some s /\ s_expendable (scm_status st (w_nodes w) d s) = true.
Proof.
  intros st used w E H. unfold clean_src_one in H.
  destruct (negb used && w_exists w && all_expendable st w) eqn:C.
  - apply andb_true_iff in C. destruct C as [C A]. apply andb_true_iff in C. destruct C as [U _].
    apply negb_true_iff in U. split; auto.
    intros d e I. unfold all_expendable in A. rewrite forallb_forall in A.
    specialize (A _ I). simpl in A. unfold entry_expendable in A.
    destruct (de_spec e) as [s|]; [|discriminate]. eauto.
  - rewrite E in H. discriminate.
Qed.

(* otherwise nothing changes at all *)
Theorem clean_src_else_unchanged : forall st used w,
  (used = true \/ all_expendable st w = false) -> clean_src_one st used w = w.
Proof.
  intros st used w [H|H]; unfold clean_src_one; rewrite H; simpl; auto.
  rewrite andb_false_r. auto.
Qed.

(* bob clean --attic: a recorded attic directory is deleted only if it is
   expendable and so is every recorded attic directory below it *)
Theorem clean_attic_requires_expendable_proof : forall st w ae,
  attic_deletable st w ae = true ->
  attic_expendable st w ae = true /\
  forall other, In other (w_astate w) ->
    fst (fst other) = fst (fst ae) -> strict_prefix (snd (fst ae)) (snd (fst other)) = true ->
    attic_exists w (fst other) = true -> attic_expendable st w other = true.
Proof.
  intros st w ae H. unfold attic_deletable in H.
  apply andb_true_iff in H. destruct H as [H N]. apply andb_true_iff in H. destruct H as [_ E].
  split; auto. intros other I K S X. rewrite forallb_forall in N. specialize (N _ I).
  apply orb_true_iff in N. destruct N as [N|N]; auto.
  apply negb_true_iff in N. rewrite K, N.eqb_refl, S, X in N. discriminate.
Qed.

(* nodes survive clean --attic unless they lie in (or below) a deletable recorded directory *)
Lemma nth_combine_seq : forall (A : Type) (l : list A) k a,
  nth_error l k = Some a ->
  nth_error (combine (map N.of_nat (seq 0 (length l))) l) k = Some (N.of_nat k, a).
Proof.
  intros A l. assert (G : forall s k a, nth_error l k = Some a ->
    nth_error (combine (map N.of_nat (seq s (length l))) l) k = Some (N.of_nat (s + k), a)).
  { induction l as [|x l IH]; intros s k a H; destruct k; simpl in *; try discriminate.
    - inversion H. subst. rewrite Nat.add_0_r. auto.
    - rewrite (IH (S s) k a H). replace (S s + k)%nat with (s + S k)%nat by lia. reflexivity. }
  intros. apply (G 0%nat). auto.
Qed.

Theorem clean_attic_keeps_other_nodes : forall st w k a p n,
  nth_error (w_attic w) k = Some a -> pget a p = Some n ->
  (forall ae, In ae (w_astate w) -> attic_deletable st w ae = true ->
              fst (fst ae) = N.of_nat k -> is_prefix (snd (fst ae)) p = false) ->
  exists a', nth_error (w_attic (clean_attic_one st w)) k = Some a' /\ pget a' p = Some n.
Proof.
  intros st w k a p n HN HP HD. unfold clean_attic_one. simpl.
  pose proof (nth_combine_seq _ _ _ _ HN) as HC.
  eexists. split.
  - apply (map_nth_error _ _ _ HC).
  - unfold pget in *. cbn [fst snd].
    rewrite (kget_filter_key path_eqb path_eqb_spec
      (fun q => negb (existsb (fun ae => (fst (fst ae) =? N.of_nat k) && is_prefix (snd (fst ae)) q)
                              (filter (attic_deletable st w) (w_astate w)))) a p).
    destruct (existsb _ _) eqn:X; simpl; auto.
    apply existsb_exists in X. destruct X as [ae [I B]]. apply filter_In in I. destruct I as [I D].
    apply andb_true_iff in B. destruct B as [B1 B2]. apply N.eqb_eq in B1.
    rewrite (HD ae I D B1) in B2. discriminate.
Qed.

(* url SCM: a successful invoke leaves the verified content; with the digest of
   the current upstream file that is the upstream content *)
Lemma pget_put_node_same : forall ns d n, pget (put_node ns d n) d = Some n.
Proof.
  intros. unfold put_node.
  set (ns1 := fold_left ensure_dir (proper_prefixes d) ns).
  destruct (pget ns1 d) eqn:E; simpl.
  - unfold pget. rewrite (kget_map_replace path_eqb path_eqb_spec). unfold pget in E. rewrite E.
    assert (path_eqb d d = true) by (apply path_eqb_spec; auto). rewrite H. auto.
  - unfold pget. rewrite (kget_app path_eqb). unfold pget in E. rewrite E. simpl.
    assert (path_eqb d d = true) by (apply path_eqb_spec; auto). rewrite H. auto.
Qed.

Theorem url_invoke_result : forall st up ns u dig d ns',
  invoke_scm st up ns (SUrl u dig d) = (ns', true) ->
  exists n b, pget ns' d = Some n /\ aget (node_files n) (url_fname u) = Some b /\
    match dig with
    | Some dd => b = dd
    | None => aget (up_url up) u = Some b
    end.
Proof.
  intros st up ns u dig d ns' H. simpl in H.
  set (n := match pget ns d with Some n => n | None => NPlain [] end) in *.
  destruct dig as [dd|]; simpl in H.
  - destruct (negb (is_some (aget (node_files n) (url_fname u)))) eqn:M.
    + destruct (aget (up_url up) u) as [b|] eqn:U; [|inversion H].
      inversion H as [[E1 E2]]. apply oeqb_spec in E2. rewrite aget_aset_same in E2. inversion E2. subst b.
      eexists. exists dd. split; [apply pget_put_node_same|]. split; auto.
      destruct n; simpl; apply aget_aset_same.
    + inversion H as [[E1 E2]]. apply oeqb_spec in E2.
      eexists. exists dd. split; [apply pget_put_node_same|]. split; auto.
      destruct n; simpl; auto.
  - destruct (aget (up_url up) u) as [b|] eqn:U; [|inversion H].
    inversion H. eexists. exists b. split; [apply pget_put_node_same|]. split; auto.
    destruct n; simpl; apply aget_aset_same.
Qed.

(* ... and a failing digest check leaves the stale file in place: the next run fails again *)
Theorem url_digest_mismatch_is_stuck : forall st up ns u dd d n x,
  pget ns d = Some n -> aget (node_files n) (url_fname u) = Some x -> x <> dd ->
  exists ns', invoke_scm st up ns (SUrl u (Some dd) d) = (ns', false) /\
    exists n', pget ns' d = Some n' /\ aget (node_files n') (url_fname u) = Some x.
Proof.
  intros st up ns u dd d n x P A NE. simpl. rewrite P. rewrite A. simpl.
  assert (oeqb (Some x) (Some dd) = false).
  { destruct (oeqb (Some x) (Some dd)) eqn:E; auto. apply oeqb_spec in E. inversion E. contradiction. }
  rewrite A, H. eexists. split; [reflexivity|].
  exists (node_with_files n (node_files n)). split; [apply pget_put_node_same|].
  destruct n; simpl in *; auto.
Qed.
