(* C11 — model of pym/bob/utils.py: DirHasher (hashDirectory), DirHasher.FileIndex
   (the persistent hash cache "cache.bin") and DirHasher.NullIndex.
   Definitions only.

   Bytes are [list N].  A directory tree is what lstat/scandir/read/readlink
   show: every node carries the stat fields that the code looks at.  The hash
   function (SHA-1) is a parameter [H] of every definition that hashes.

   Transliteration map
     bytes_ltb                     Python  bytes < bytes
     keep / key / sort_entries     __hashDir: the scandir loop and sorted(..., key=f)
     norm                          every directory as __hashDir sees it (filtered, sorted)
     walk / walk_entries           __hashEntry / the dirList comprehension of __hashDir
     null_chk                      NullIndex.check
     open_index                    FileIndex.open
     unpack_entry, read_entry      FileIndex.__readEntry: struct.unpack of the fixed part, then the name
     parse_entries                 all __readEntry calls of a run (the file is read lazily there; it is
                                   not modified during a run, so reading ahead is the same)
     advance, rec_matches          FileIndex.__match
     check_full / index_chk        FileIndex.check + __writeEntry (pack_entry, ser_rec = struct.pack + name)
     close_index                   FileIndex.close (content of the replaced cache file)
   [hash_cached_traced] is the same run with a log of index decisions and SHA-1 inputs;
   the specification predicates used by Properties.v are at the end. *)
From Coq Require Import List NArith Bool Arith Sorted.
Require Import BobV.Gen.ConstsC11.
Import ListNotations.
Open Scope N_scope.

(* ------------------------------------------------------------------ bytes *)

Fixpoint bytes_eqb (a b : list N) : bool :=
  match a, b with
  | [], [] => true
  | x :: a', y :: b' => (x =? y) && bytes_eqb a' b'
  | _, _ => false
  end.

(* Python: a < b on bytes objects (lexicographic, unsigned, prefix is smaller) *)
Fixpoint bytes_ltb (a b : list N) : bool :=
  match a, b with
  | _, [] => false
  | [], _ :: _ => true
  | x :: a', y :: b' => if x <? y then true else if y <? x then false else bytes_ltb a' b'
  end.

Definition bytes_leb (a b : list N) : bool := negb (bytes_ltb b a).

Fixpoint bytes_mem (x : list N) (l : list (list N)) : bool :=
  match l with [] => false | y :: r => bytes_eqb x y || bytes_mem x r end.

(* struct.pack little endian, fixed width (values are in range in the
   implementation, otherwise struct.error; see node_wf / node_packable below) *)
Fixpoint le_enc (w : nat) (n : N) : list N :=
  match w with O => [] | S w' => (n mod 256) :: le_enc w' (n / 256) end.

Fixpoint le_dec (l : list N) : N :=
  match l with [] => 0 | b :: r => b + 256 * le_dec r end.

Definition SLASH : N := 47.

(* ------------------------------------------------------------------ trees *)

Record stat := mkstat {
  st_ctime : N;   (* st_ctime_ns *)
  st_mtime : N;   (* st_mtime_ns *)
  st_dev : N;
  st_ino : N;
  st_mode : N;
  st_size : N
}.

Inductive tree :=
| File (st : stat) (data : list N)
| Dir (st : stat) (entries : list (list N * tree))     (* in scandir order *)
| Link (st : stat) (target : list N)
| Dev (st : stat) (rdev : N)                          (* S_ISBLK or S_ISCHR *)
| Fifo (st : stat)
| Other (st : stat).                                  (* sockets, ... *)

Definition entries := list (list N * tree).

Definition node_stat (t : tree) : stat :=
  match t with
  | File s _ | Dir s _ | Link s _ | Dev s _ | Fifo s | Other s => s
  end.

Definition is_dir (t : tree) : bool := match t with Dir _ _ => true | _ => false end.

(* f of __hashDir: the name, with a trailing '/' for directories *)
Definition key (e : list N * tree) : list N :=
  if is_dir (snd e) then fst e ++ [SLASH] else fst e.

(* the two `continue`s of the scandir loop; [ign] = IGNORE_DIRS | ignoreDirs *)
Definition keep (ign : list (list N)) (e : list N * tree) : bool :=
  if is_dir (snd e) then negb (bytes_mem (fst e) ign) else negb (bytes_mem (fst e) IGNORE_FILES).

(* sorted(entries, key=lambda x: x[1]) — a stable sort *)
Fixpoint insert_entry (x : list N * tree) (l : entries) : entries :=
  match l with
  | [] => [x]
  | y :: r => if bytes_leb (key x) (key y) then x :: y :: r else y :: insert_entry x r
  end.

Fixpoint sort_entries (l : entries) : entries :=
  match l with [] => [] | x :: r => insert_entry x (sort_entries r) end.

(* Every directory filtered and sorted, as __hashDir sees it. *)
Fixpoint norm (ign : list (list N)) (t : tree) : tree :=
  match t with
  | Dir st es => Dir st (sort_entries (filter (keep ign) (map (fun e => (fst e, norm ign (snd e))) es)))
  | _ => t
  end.

Definition norm_entries (ign : list (list N)) (es : entries) : entries :=
  sort_entries (filter (keep ign) (map (fun e => (fst e, norm ign (snd e))) es)).

(* os.path.join(path, f) for a relative path and a plain name *)
Definition pjoin (p n : list N) : list N :=
  match p with [] => n | _ => p ++ SLASH :: n end.

(* struct.pack("=L", s.st_mode) *)
Definition pack_mode (t : tree) : list N := le_enc 4 (st_mode (node_stat t)).

(* ------------------------------------------------------------------ the walk *)

Section Walk.
  Context {St : Type}.
  (* index.check(prefix, name, st, process): name, stat, the bytes that
     [process] would hash (file content / link target), state *)
  Variable chk : list N -> stat -> list N -> St -> list N * St.
  (* hashing of a directory blob *)
  Variable hdir : list N -> St -> list N * St.

  (* __hashEntry; for directories the body of __hashDir after sorting *)
  Fixpoint walk (p : list N) (t : tree) (s : St) {struct t} : list N * St :=
    match t with
    | File st d => chk p st d s
    | Link st tg => chk p st tg s
    | Dev _ rdev => (le_enc 4 rdev, s)          (* struct.pack("<L", s.st_rdev) *)
    | Fifo _ => ([], s)
    | Other _ => ([], s)
    | Dir _ es =>
        let '(blob, s') :=
          (fix go (l : entries) (s : St) {struct l} : list N * St :=
             match l with
             | [] => ([], s)
             | e :: tl =>
                 let '(d, s1) := walk (pjoin p (fst e)) (snd e) s in
                 let '(rest, s2) := go tl s1 in
                 (pack_mode (snd e) ++ d ++ key e ++ rest, s2)
             end) es s in
        hdir blob s'
    end.

  Fixpoint walk_entries (p : list N) (l : entries) (s : St) {struct l} : list N * St :=
    match l with
    | [] => ([], s)
    | e :: tl =>
        let '(d, s1) := walk (pjoin p (fst e)) (snd e) s in
        let '(rest, s2) := walk_entries p tl s1 in
        (pack_mode (snd e) ++ d ++ key e ++ rest, s2)
    end.

  (* __hashDir(prefix) for the root (path = b'') on already normalised entries *)
  Definition walk_root (es : entries) (s : St) : list N * St :=
    let '(blob, s') := walk_entries [] es s in hdir blob s'.
End Walk.

(* ------------------------------------------------------------------ no index *)

Section Hash.
  Variable H : list N -> list N.

  Definition null_chk (p : list N) (st : stat) (blob : list N) (s : unit) : list N * unit := (H blob, s).
  Definition null_hdir (blob : list N) (s : unit) : list N * unit := (H blob, s).

  (* hashDirectory(path) *)
  Definition hash_dir (ign : list (list N)) (es : entries) : list N :=
    fst (walk_root null_chk null_hdir (norm_entries ign es) tt).

  (* the same thing written as plain recursion: digest of one entry, directory blob *)
  Fixpoint dig (t : tree) : list N :=
    match t with
    | File _ d => H d
    | Link _ tg => H tg
    | Dev _ rdev => le_enc 4 rdev
    | Fifo _ => []
    | Other _ => []
    | Dir _ es =>
        H ((fix go (l : entries) : list N :=
              match l with [] => [] | e :: tl => pack_mode (snd e) ++ dig (snd e) ++ key e ++ go tl end) es)
    end.

  Fixpoint blob_of (l : entries) : list N :=
    match l with [] => [] | e :: tl => pack_mode (snd e) ++ dig (snd e) ++ key e ++ blob_of tl end.

  (* all byte strings given to H while hashing (post-order, as the code does) *)
  Fixpoint hashed (t : tree) : list (list N) :=
    match t with
    | File _ d => [d]
    | Link _ tg => [tg]
    | Dir _ es =>
        (fix go (l : entries) : list (list N) :=
           match l with [] => [] | e :: tl => hashed (snd e) ++ go tl end) es
        ++ [(fix go (l : entries) : list N :=
              match l with [] => [] | e :: tl => pack_mode (snd e) ++ dig (snd e) ++ key e ++ go tl end) es]
    | _ => []
    end.

  Fixpoint hashed_entries (l : entries) : list (list N) :=
    match l with [] => [] | e :: tl => hashed (snd e) ++ hashed_entries tl end.

  Definition hashed_dir (ign : list (list N)) (es : entries) : list (list N) :=
    hashed_entries (norm_entries ign es) ++ [blob_of (norm_entries ign es)].

  (* ---------------------------------------------------------------- canon *)
  (* What the hash is a function of: names, types, mode bits, contents, link
     targets (device numbers), below the root, without ignored directories and
     files, in an order that does not depend on the directory order. *)
  Definition only_mode (s : stat) : stat := mkstat 0 0 0 0 (st_mode s) 0.

  Fixpoint erase (t : tree) : tree :=
    match t with
    | File s d => File (only_mode s) d
    | Link s g => Link (only_mode s) g
    | Dev s r => Dev (only_mode s) r
    | Fifo s => Fifo (only_mode s)
    | Other s => Other (only_mode s)
    | Dir s es => Dir (only_mode s) (map (fun e => (fst e, erase (snd e))) es)
    end.

  Definition erase_entries (l : entries) : entries := map (fun e => (fst e, erase (snd e))) l.

  Definition canon (ign : list (list N)) (es : entries) : entries := erase_entries (norm_entries ign es).

  (* ---------------------------------------------------------------- index file *)

  Record rec := mkrec {
    r_name : list N;
    r_ctime : N; r_mtime : N; r_dev : N; r_ino : N; r_mode : N; r_size : N;
    r_digest : list N
  }.

  (* FileIndex.Stat() *)
  Definition rec0 : rec := mkrec [] 0 0 0 0 0 0 [].

  Definition mask_ino (ino : N) : N := N.land (N.lxor ino (N.shiftr ino 64)) 18446744073709551615.

  Definition ENTRY_SIZE : nat := 66.   (* struct.calcsize('=qqQQLQ20sH'); tied by consts_ok *)

  (* '20s' *)
  Definition fit20 (d : list N) : list N := firstn 20 (d ++ repeat 0 20).

  (* struct.pack(CACHE_ENTRY_FMT, ctime, mtime, dev, ino, mode, size, digest, len(name)) *)
  Definition pack_entry (r : rec) : list N :=
    le_enc 8 (r_ctime r) ++ le_enc 8 (r_mtime r) ++ le_enc 8 (r_dev r) ++ le_enc 8 (r_ino r) ++
    le_enc 4 (r_mode r) ++ le_enc 8 (r_size r) ++ fit20 (r_digest r) ++
    le_enc 2 (N.of_nat (length (r_name r))).

  Definition ser_rec (r : rec) : list N := pack_entry r ++ r_name r.

  (* struct.unpack(CACHE_ENTRY_FMT, raw): the record still lacking its name, and nameLen.
     (ctime/mtime are 'q' (signed) in the file; time stamps are < 2^63 so the
     unsigned reading compares equal to st_*time_ns exactly when the signed one does) *)
  Definition unpack_entry (raw : list N) : (list N -> rec) * N :=
    let ct := le_dec (firstn 8 raw) in            let raw := skipn 8 raw in
    let mt := le_dec (firstn 8 raw) in            let raw := skipn 8 raw in
    let dv := le_dec (firstn 8 raw) in            let raw := skipn 8 raw in
    let ino := le_dec (firstn 8 raw) in           let raw := skipn 8 raw in
    let md := le_dec (firstn 4 raw) in            let raw := skipn 4 raw in
    let sz := le_dec (firstn 8 raw) in            let raw := skipn 8 raw in
    let dg := firstn 20 raw in                    let raw := skipn 20 raw in
    let nl := le_dec (firstn 2 raw) in
    (fun nm => mkrec nm ct mt dv ino md sz dg, nl).

  (* one __readEntry at a position where [b] is the rest of the file:
     the record, the amount by which __inPos advances, and the rest of the
     file after it; None = short read of the fixed part. *)
  Definition read_entry (b : list N) : option (rec * N * list N) :=
    let raw := firstn ENTRY_SIZE b in
    if (length raw <? ENTRY_SIZE)%nat then None else
      let b := skipn ENTRY_SIZE b in
      let '(mk, nl) := unpack_entry raw in
      Some (mk (firstn (N.to_nat nl) b), N.of_nat ENTRY_SIZE + nl, skipn (N.to_nat nl) b).

  (* all records of a file body with their start offsets *)
  Fixpoint parse_entries (fuel : nat) (pos : N) (b : list N) : list (N * rec) :=
    match fuel with
    | O => []
    | Datatypes.S f =>
        match read_entry b with
        | None => []
        | Some (r, len, rest) => (pos, r) :: parse_entries f (pos + len) rest
        end
    end.

  Definition parse_body (pos : N) (b : list N) : list (N * rec) := parse_entries (length b) pos b.

  Record ist := mkist {
    i_cur : rec;                 (* __current *)
    i_rest : list (N * rec);     (* what __readEntry will deliver *)
    i_posold : N;                (* __inPosOld: offset of __current in the old file *)
    i_mism : bool;               (* __mismatch *)
    i_out : option (N * list rec)   (* __outFile: length of the copied prefix, entries written *)
  }.

  (* FileIndex.open: [f] = content of cache.bin if it exists.
     Result: the input file if it is used (exists, signature ok), initial state. *)
  Definition open_index (f : option (list N)) : option (list N) * ist :=
    match f with
    | Some b =>
        if bytes_eqb (firstn 4 b) SIGNATURE then
          match parse_body 4 (skipn 4 b) with
          | [] => (Some b, mkist rec0 [] 4 false None)
          | (o, r) :: tl => (Some b, mkist r tl o false None)
          end
        else (None, mkist rec0 [] 0 true None)
    | None => (None, mkist rec0 [] 0 true None)
    end.

  (* while self.__current.name < name: if not self.__readEntry(): break *)
  Fixpoint advance (name : list N) (cur : rec) (off : N) (rest : list (N * rec)) {struct rest}
    : rec * N * list (N * rec) :=
    match rest with
    | [] => (cur, off, [])
    | (o, r) :: tl => if bytes_ltb (r_name cur) name then advance name r o tl else (cur, off, rest)
    end.

  Definition rec_matches (e : rec) (name : list N) (st : stat) : bool :=
    bytes_eqb (r_name e) name && (r_ctime e =? st_ctime st) && (r_mtime e =? st_mtime st) &&
    (r_dev e =? st_dev st) && (r_ino e =? mask_ino (st_ino st)) && (r_mode e =? st_mode st) &&
    (r_size e =? st_size st).

  Definition new_rec (name : list N) (st : stat) (digest : list N) : rec :=
    mkrec name (st_ctime st) (st_mtime st) (st_dev st) (mask_ino (st_ino st)) (st_mode st) (st_size st) digest.

  (* FileIndex.check; also says whether it was a hit *)
  Definition check_full (name : list N) (st : stat) (blob : list N) (s : ist) : bool * list N * ist :=
    let '(cur, off, rest) := advance name (i_cur s) (i_posold s) (i_rest s) in
    let hit := rec_matches cur name st in
    let digest := if hit then r_digest cur else H blob in
    let mism := i_mism s || negb hit in
    let out :=
      if mism then
        match i_out s with
        | None => Some (off, [new_rec name st digest])
        | Some (cut, es) => Some (cut, es ++ [new_rec name st digest])
        end
      else i_out s in
    (hit, digest, mkist cur rest off mism out).

  Definition index_chk (name : list N) (st : stat) (blob : list N) (s : ist) : list N * ist :=
    let '(_, d, s') := check_full name st blob s in (d, s').

  Definition index_hdir (blob : list N) (s : ist) : list N * ist := (H blob, s).

  (* FileIndex.close: the new content of cache.bin, None = file left alone *)
  Definition close_index (inb : option (list N)) (s : ist) : option (list N) :=
    match i_out s with
    | None => None
    | Some (cut, es) =>
        Some ((match inb with Some b => firstn (N.to_nat cut) b | None => SIGNATURE end)
              ++ flat_map ser_rec es)
    end.

  (* hashDirectory(path, index): digest and new cache file *)
  Definition hash_cached (ign : list (list N)) (f : option (list N)) (es : entries)
    : list N * option (list N) :=
    let '(inb, s0) := open_index f in
    let '(d, s) := walk_root index_chk index_hdir (norm_entries ign es) s0 in
    (d, close_index inb s).

  (* cache file seen by the next run *)
  Definition next_file (f f' : option (list N)) : option (list N) :=
    match f' with Some b => Some b | None => f end.

  (* a history: every state of the tree is hashed with the cache left by the previous run *)
  Fixpoint run_history (ign : list (list N)) (f : option (list N)) (ts : list entries) : list (list N) :=
    match ts with
    | [] => []
    | t :: r => let '(d, f') := hash_cached ign f t in d :: run_history ign (next_file f f') r
    end.

  (* names given to index.check, in call order *)
  Fixpoint checked (p : list N) (t : tree) : list (list N) :=
    match t with
    | File _ _ | Link _ _ => [p]
    | Dir _ es =>
        (fix go (l : entries) : list (list N) :=
           match l with [] => [] | e :: tl => checked (pjoin p (fst e)) (snd e) ++ go tl end) es
    | _ => []
    end.

  Fixpoint checked_entries (p : list N) (l : entries) : list (list N) :=
    match l with [] => [] | e :: tl => checked (pjoin p (fst e)) (snd e) ++ checked_entries p tl end.

  (* ---------------------------------------------------------------- traced variant
     Same walk, the state additionally logs what an observer of the
     implementation sees: index decisions and every blob given to sha1
     (newest first). *)
  Inductive event :=
  | EvCheck (name : list N) (hit : bool)
  | EvHash (blob : list N).

  Definition trace_chk (name : list N) (st : stat) (blob : list N) (s : ist * list event)
    : list N * (ist * list event) :=
    let '(hit, d, s') := check_full name st blob (fst s) in
    (d, (s', (if hit then [] else [EvHash blob]) ++ EvCheck name hit :: snd s)).

  Definition trace_hdir (blob : list N) (s : ist * list event) : list N * (ist * list event) :=
    (H blob, (fst s, EvHash blob :: snd s)).

  Definition hash_cached_traced (ign : list (list N)) (f : option (list N)) (es : entries)
    : list N * option (list N) * list event :=
    let '(inb, s0) := open_index f in
    let '(d, s) := walk_root trace_chk trace_hdir (norm_entries ign es) (s0, []) in
    (d, close_index inb (fst s), rev (snd s)).
End Hash.

(* ------------------------------------------------------------------ specification predicates
   (used in the statements of Properties.v) *)

Section Spec.
  (* P path name node  holds for every node below (and including) a node *)
  Variable P : list N -> list N -> tree -> Prop.

  Fixpoint tree_all (p n : list N) (t : tree) {struct t} : Prop :=
    P p n t /\
    match t with
    | Dir _ es =>
        (fix go (l : entries) : Prop :=
           match l with
           | [] => True
           | e :: tl => tree_all (pjoin p (fst e)) (fst e) (snd e) /\ go tl
           end) es
    | _ => True
    end.

  (* for the entries of the directory with path p ([] = the hashed root) *)
  Fixpoint entries_all (p : list N) (l : entries) : Prop :=
    match l with
    | [] => True
    | e :: tl => tree_all (pjoin p (fst e)) (fst e) (snd e) /\ entries_all p tl
    end.
End Spec.

(* the stat data compared by FileIndex.__match *)
Definition statkey := (N * N * N * N * N * N)%type.
Definition skey (st : stat) : statkey :=
  (st_ctime st, st_mtime st, st_dev st, mask_ino (st_ino st), st_mode st, st_size st).
Definition rkey (r : rec) : statkey :=
  (r_ctime r, r_mtime r, r_dev r, r_ino r, r_mode r, r_size r).

(* "every modification changes the file's stat data": within a history the
   name and stat data of a file or symlink determine its content *)
Definition node_consistent (content_of : list N -> statkey -> list N) (p n : list N) (t : tree) : Prop :=
  match t with
  | File st d => d = content_of p (skey st)
  | Link st g => g = content_of p (skey st)
  | _ => True
  end.
Definition consistent content_of (es : entries) : Prop := entries_all (node_consistent content_of) [] es.

(* a cache record is truthful: its digest is the hash of what its name and stat data denote *)
Definition rec_ok (H : list N -> list N) (content_of : list N -> statkey -> list N) (r : rec) : Prop :=
  r_digest r = H (content_of (r_name r) (rkey r)).
Definition file_records (b : list N) : list rec := map snd (parse_body 4 (skipn 4 b)).
Definition file_ok H content_of (f : option (list N)) : Prop :=
  match f with None => True | Some b => Forall (rec_ok H content_of) (file_records b) end.

(* directory entries have non-empty names *)
Definition node_named (p n : list N) (t : tree) : Prop := n <> [].
Definition named (es : entries) : Prop := entries_all node_named [] es.

(* type bits of st_mode agree with the kind of node (S_ISREG, S_ISDIR, ...) *)
Definition kind_ok (t : tree) (k : N) : Prop :=
  match t with
  | File _ _ => k = 8
  | Dir _ _ => k = 4
  | Link _ _ => k = 10
  | Dev _ _ => k = 2 \/ k = 6
  | Fifo _ => k = 1
  | Other _ => k <> 0 /\ k <> 1 /\ k <> 2 /\ k <> 4 /\ k <> 6 /\ k <> 8 /\ k <> 10
  end.
Definition node_wf (p n : list N) (t : tree) : Prop :=
  ~ In 0 n /\ st_mode (node_stat t) < 65536 /\ kind_ok t (st_mode (node_stat t) / 4096) /\
  match t with Dev _ r => r < 4294967296 | _ => True end.
Definition wf (es : entries) : Prop := entries_all node_wf [] es.

(* what a directory listing guarantees: names non-empty, without '/', pairwise different *)
Definition node_listing (p n : list N) (t : tree) : Prop :=
  n <> [] /\ ~ In SLASH n /\ match t with Dir _ es => NoDup (map fst es) | _ => True end.
Definition listing (es : entries) : Prop := NoDup (map fst es) /\ entries_all node_listing [] es.

(* values that struct.pack accepts in a cache entry *)
Definition node_packable (p n : list N) (t : tree) : Prop :=
  let s := node_stat t in
  st_ctime s < 18446744073709551616 /\ st_mtime s < 18446744073709551616 /\ st_dev s < 18446744073709551616 /\
  st_mode s < 4294967296 /\ st_size s < 18446744073709551616 /\ N.of_nat (length p) < 65536.
Definition packable (es : entries) : Prop := entries_all node_packable [] es.

(* an explicit collision of H between two lists of hashed byte strings *)
Definition collision (H : list N -> list N) (l1 l2 : list (list N)) : Prop :=
  exists x y, In x l1 /\ In y l2 /\ x <> y /\ H x = H y.

Definition bytes_lt (a b : list N) : Prop := bytes_ltb a b = true.

(* a walk that only records the names handed to index.check, in call order *)
Definition log_chk (H : list N -> list N) (p : list N) (st : stat) (b : list N) (l : list (list N)) :
  list N * list (list N) := (H b, l ++ [p]).
Definition log_hdir (H : list N -> list N) (b : list N) (l : list (list N)) :
  list N * list (list N) := (H b, l).
Definition check_sequence (H : list N -> list N) (ign : list (list N)) (es : entries) : list (list N) :=
  snd (walk_root (log_chk H) (log_hdir H) (norm_entries ign es) []).

(* ------------------------------------------------------------------ ties and test instances *)

Definition nlist_eqb (a b : list N) : bool := bytes_eqb a b.

(* the struct formats the model was written for (Gen/ConstsC11.v is regenerated on every run) *)
Definition consts_ok : bool :=
  nlist_eqb CACHE_ENTRY_FMT [61;113;113;81;81;76;81;50;48;115;72] &&     (* '=qqQQLQ20sH' *)
  nlist_eqb CACHE_ENTRY_WIDTHS [8;8;8;8;4;8;20;2] &&
  nlist_eqb DIRENT_MODE_FMT [61;76] &&                                    (* '=L' *)
  nlist_eqb DEV_FMT [60;76] &&                                            (* '<L' *)
  Nat.eqb (length SIGNATURE) 4 &&
  HOST_LITTLE_ENDIAN.

(* H for running the model against the implementation: a table of the real
   SHA-1 digests (computed by hashlib) of the blobs that occur in the case; a
   blob outside the table gets a value that is not a byte string. *)
Fixpoint H_table (tab : list (list N * list N)) (x : list N) : list N :=
  match tab with
  | [] => [999]
  | (k, d) :: r => if bytes_eqb k x then d else H_table r x
  end.

(* a toy H for closed examples (NOT SHA-1): 20 bytes, length and a position-weighted sum *)
Fixpoint toy_sum (l : list N) (i acc : N) : N :=
  match l with [] => acc | x :: r => toy_sum r (i + 1) ((acc * 131 + x + i) mod 1000000007) end.
Definition H_toy (x : list N) : list N :=
  le_enc 8 (toy_sum x 1 7) ++ le_enc 8 (N.of_nat (length x)) ++ le_enc 4 (toy_sum x 3 1).

(* result comparison for generated cases *)
Definition event_eqb (a b : event) : bool :=
  match a, b with
  | EvCheck n h, EvCheck n' h' => bytes_eqb n n' && Bool.eqb h h'
  | EvHash x, EvHash y => bytes_eqb x y
  | _, _ => false
  end.

(* ------------------------------------------------------------------ closed instances for the non-vacuity examples *)

Definition ex_st (t ino mode size : N) : stat := mkstat (1790000000000000000 + t) (1790000000000000000 + t) 65024 ino mode size.

(* b "hi" | a/ {x "!" (0755), l -> x} | a.b "" | .git/H (ignored), in some directory order *)
Definition ex_tree1 : entries :=
  [ ([98], File (ex_st 1 11 33188 2) [104;105]);
    ([97], Dir (ex_st 2 12 16877 4096) [ ([120], File (ex_st 3 13 33261 1) [33]);
                                         ([108], Link (ex_st 4 14 41471 1) [120]) ]);
    ([97;46;98], File (ex_st 5 15 33188 0) []);
    ([46;103;105;116], Dir (ex_st 6 16 16877 4096) [ ([72], File (ex_st 7 17 33188 1) [1]) ]) ].

(* the same visible tree: other order, times, inodes, no .git, a BaseDirList.txt *)
Definition ex_tree1b : entries :=
  [ ([97;46;98], File (ex_st 50 95 33188 0) []);
    ([66;97;115;101;68;105;114;76;105;115;116;46;116;120;116], File (ex_st 51 96 33188 1) [9]);
    ([97], Dir (ex_st 52 92 16877 60) [ ([108], Link (ex_st 54 94 41471 1) [120]);
                                        ([120], File (ex_st 53 93 33261 1) [33]) ]);
    ([98], File (ex_st 55 91 33188 2) [104;105]) ].

(* ex_tree1 after: a/x rewritten with the same size (stat changes), c created *)
Definition ex_tree2 : entries :=
  [ ([98], File (ex_st 1 11 33188 2) [104;105]);
    ([99], File (ex_st 9 18 33188 3) [110;101;119]);
    ([97], Dir (ex_st 8 12 16877 4096) [ ([120], File (ex_st 8 13 33261 1) [63]);
                                         ([108], Link (ex_st 4 14 41471 1) [120]) ]);
    ([97;46;98], File (ex_st 5 15 33188 0) []);
    ([46;103;105;116], Dir (ex_st 6 16 16877 4096) [ ([72], File (ex_st 7 17 33188 1) [1]) ]) ].

(* cache.bin left by hashing ex_tree1 without a cache *)
Definition ex_cache1 : option (list N) := snd (hash_cached H_toy IGNORE_DIRS None ex_tree1).

Definition check_events (l : list event) : list (list N * bool) :=
  flat_map (fun e => match e with EvCheck n h => [(n, h)] | EvHash _ => [] end) l.

(* the contents that name + stat data denote in the history ex_tree1, ex_tree2 *)
Definition ex_content_of (p : list N) (k : statkey) : list N :=
  let '(ct, _, _, _, _, _) := k in
  if bytes_eqb p [98] then [104;105]
  else if bytes_eqb p [99] then [110;101;119]
  else if bytes_eqb p [97;47;120] then (if ct =? 1790000000000000003 then [33] else [63])
  else if bytes_eqb p [97;47;108] then [120]
  else if bytes_eqb p [46;103;105;116;47;72] then [1]
  else [].

(* without the "no NUL in names" side condition the directory blob is ambiguous:
   one file whose name contains a packed mode, a digest and another name ... *)
Definition ex_nul_name : list N := [120] ++ le_enc 4 33188 ++ H_toy [50] ++ [121].
Definition ex_amb1 : entries := [ (ex_nul_name, File (ex_st 1 1 33188 1) [49]) ].
(* ... hashes like two files x and y *)
Definition ex_amb2 : entries := [ ([120], File (ex_st 1 1 33188 1) [49]); ([121], File (ex_st 1 2 33188 1) [50]) ].

(* ... and without the bound on st_mode, '=L' cannot tell these two apart
   (struct.pack raises in the implementation) *)
Definition ex_mode1 : entries := [ ([120], File (ex_st 1 1 33188 1) [49]) ].
Definition ex_mode2 : entries := [ ([120], File (ex_st 1 1 (33188 + 4294967296) 1) [49]) ].

(* a, b, c  then  a, c, d (b deleted, d created; a and c untouched) *)
Definition ex_abc : entries :=
  [ ([97], File (ex_st 1 21 33188 1) [65]); ([98], File (ex_st 2 22 33188 1) [66]); ([99], File (ex_st 3 23 33188 1) [67]) ].
Definition ex_acd : entries :=
  [ ([97], File (ex_st 1 21 33188 1) [65]); ([99], File (ex_st 3 23 33188 1) [67]); ([100], File (ex_st 4 24 33188 1) [68]) ].
Definition ex_cache_abc : option (list N) := snd (hash_cached H_toy IGNORE_DIRS None ex_abc).
Definition names_in_file (f : option (list N)) : list (list N) :=
  match f with Some b => map r_name (file_records b) | None => [] end.
(* the records of a cache file are strictly sorted by name *)
Definition file_sorted (f : option (list N)) : Prop := StronglySorted bytes_lt (names_in_file f).
