From Coq Require Import List NArith Bool.
Require Import BobV.Gen.ConstsC11 BobV.C11.Model BobV.C11.Proofs.
Import ListNotations.
Open Scope N_scope.
Example consts_tie : consts_ok = true.
Proof. vm_compute. reflexivity. Qed.
