(* C11 — property theorems.  Only statements (each closed by [exact] of a
   lemma of Proofs.v) and non-vacuity examples on closed instances.

   H is SHA-1 (any function in the theorems; injectivity is never assumed).
   [ign] is the set of ignored directory names (IGNORE_DIRS | ignoreDirs).
   An [entries] value is the listing of the hashed root directory. *)
From Coq Require Import List NArith Bool Sorted Permutation.
Require Import BobV.Gen.ConstsC11 BobV.C11.Model BobV.C11.Proofs.
Import ListNotations.
Open Scope N_scope.

(* The struct formats and constants the model was written for are the ones in utils.py now. *)
Example consts_tie : consts_ok = true.
Proof. vm_compute. reflexivity. Qed.

(* ---- content exactness, direction 1: the hash is a function of the canonical
   form (names, types, mode bits, contents, link targets, device numbers below
   the root; no times, owners, inodes, sizes, ignored directories/files) ... *)
Theorem hash_dir_canon : forall H ign es1 es2,
  canon ign es1 = canon ign es2 -> hash_dir H ign es1 = hash_dir H ign es2.
Proof. exact hash_dir_canon_proof. Qed.

(* ... and the canonical form does not depend on the order in which the
   directory was listed. *)
Theorem canon_order_irrelevant : forall ign es1 es2,
  NoDup (map fst es1) -> (forall e, In e es1 -> ~ In SLASH (fst e)) ->
  Permutation es1 es2 -> canon ign es1 = canon ign es2.
Proof. exact canon_order_irrelevant_proof. Qed.

(* ---- content exactness, direction 2: equal hashes give equal canonical forms,
   or an explicit SHA-1 collision between two byte strings that were hashed for
   the two trees.  Side conditions: names without NUL, 16 bit modes whose type
   bits agree with the node, 32 bit device numbers, 20 byte digests. *)
Theorem hash_dir_injective : forall H ign es1 es2,
  (forall x, length (H x) = 20%nat) ->
  wf es1 -> wf es2 ->
  hash_dir H ign es1 = hash_dir H ign es2 ->
  canon ign es1 = canon ign es2 \/ collision H (hashed_dir H ign es1) (hashed_dir H ign es2).
Proof. exact hash_dir_injective_proof. Qed.

(* ---- the index is consulted with strictly increasing names (byte order of
   FileIndex.__match), for every directory listing: why a merge walk over the
   sorted cache file can work at all. *)
Theorem dfs_order_sorted : forall H ign es,
  listing es -> StronglySorted bytes_lt (check_sequence H ign es).
Proof. exact check_sequence_sorted_proof. Qed.

(* ---- cache transparency, one run: with ANY cache file whose records are
   truthful (sorted or not, truncated, stale, from another state of the history)
   the cached hash is the uncached hash.  [content_of] is the property's premise
   "every modification changes the stat data": name and stat data determine the
   content, history-wide. *)
Theorem cache_transparent : forall H content_of ign f es,
  file_ok H content_of f -> consistent content_of es -> named es ->
  fst (hash_cached H ign f es) = hash_dir H ign es.
Proof. exact cache_transparent_proof. Qed.

(* ---- ... the cache file left behind is truthful again (so the premise of
   cache_transparent is re-established for the next run) ... *)
Theorem cache_file_truthful : forall H, (forall x, length (H x) = 20%nat) ->
  forall content_of ign f es,
  file_ok H content_of f -> consistent content_of es -> named es -> packable es ->
  file_ok H content_of (next_file f (snd (hash_cached H ign f es))).
Proof. exact cache_file_truthful_proof. Qed.

(* ---- ... hence for every history of states of the tree, each hashed with the
   cache.bin left by the runs before it (starting from any truthful file or
   none), every cached hash equals the uncached hash.  This includes the byte
   level of cache.bin: what __writeEntry writes after the copied prefix is read
   back by __readEntry as the same records. *)
Theorem cache_transparent_history : forall H, (forall x, length (H x) = 20%nat) ->
  forall content_of ign ts f,
  file_ok H content_of f ->
  Forall (fun es => consistent content_of es /\ named es /\ packable es) ts ->
  run_history H ign f ts = map (hash_dir H ign) ts.
Proof. exact cache_transparent_history_proof. Qed.

(* ---- a sorted cache file stays sorted (what makes the merge walk effective
   from run to run; not needed for correctness, see cache_transparent). *)
Theorem index_sorted_preserved : forall H, (forall x, length (H x) = 20%nat) ->
  forall ign f es,
  listing es -> packable es -> file_sorted f ->
  file_sorted (next_file f (snd (hash_cached H ign f es))).
Proof. exact index_sorted_preserved_proof. Qed.

(* ================================================================== non-vacuity *)

Example hash_dir_canon_nonvacuous :
  canon IGNORE_DIRS ex_tree1 = canon IGNORE_DIRS ex_tree1b /\
  map fst ex_tree1 <> map fst ex_tree1b /\
  hash_dir H_toy IGNORE_DIRS ex_tree1 = hash_dir H_toy IGNORE_DIRS ex_tree1b /\
  hash_dir H_toy IGNORE_DIRS ex_tree1 <> hash_dir H_toy IGNORE_DIRS ex_tree2.
Proof. repeat split; vm_compute; congruence. Qed.

Example hash_dir_injective_nonvacuous :
  wf ex_tree1 /\ wf ex_tree2 /\ (forall x, length (H_toy x) = 20%nat) /\
  canon IGNORE_DIRS ex_tree1 <> canon IGNORE_DIRS ex_tree2.
Proof.
  split; [|split; [|split]].
  - unfold wf, ex_tree1, node_wf; simpl; unfold node_wf; simpl; intuition (try discriminate; try reflexivity).
  - unfold wf, ex_tree2, node_wf; simpl; unfold node_wf; simpl; intuition (try discriminate; try reflexivity).
  - intros. unfold H_toy. rewrite !app_length, !le_enc_length. reflexivity.
  - vm_compute. congruence.
Qed.

(* the side condition on names is needed: same hash (even the same blob), different trees *)
Example hash_dir_injective_needs_nul_free_names :
  hash_dir H_toy [] ex_amb1 = hash_dir H_toy [] ex_amb2 /\
  hashed_dir H_toy [] ex_amb1 = [[49]; blob_of H_toy (norm_entries [] ex_amb2)] /\
  canon [] ex_amb1 <> canon [] ex_amb2 /\ In 0 ex_nul_name.
Proof. repeat split; vm_compute; try congruence. do 3 right. left. reflexivity. Qed.

(* ... and so is the bound on the mode *)
Example hash_dir_injective_needs_mode_range :
  hash_dir H_toy [] ex_mode1 = hash_dir H_toy [] ex_mode2 /\
  hashed_dir H_toy [] ex_mode1 = hashed_dir H_toy [] ex_mode2 /\
  canon [] ex_mode1 <> canon [] ex_mode2.
Proof. repeat split; vm_compute; congruence. Qed.

Example dfs_order_sorted_nonvacuous :
  listing ex_tree2 /\
  check_sequence H_toy IGNORE_DIRS ex_tree2 = [[97;46;98]; [97;47;108]; [97;47;120]; [98]; [99]].
Proof.
  split; [|vm_compute; reflexivity].
  unfold listing, ex_tree2, node_listing; simpl; unfold node_listing; simpl.
  repeat split; try discriminate; try (repeat constructor; simpl; intuition discriminate);
    unfold SLASH; simpl; intuition discriminate.
Qed.

(* a cached run with hits (a.b, a/l, b) and misses (a/x rewritten with the same size, c new) *)
Example cache_transparent_nonvacuous :
  file_ok H_toy ex_content_of ex_cache1 /\ consistent ex_content_of ex_tree2 /\ named ex_tree2 /\
  ex_cache1 <> None /\
  check_events (snd (hash_cached_traced H_toy IGNORE_DIRS ex_cache1 ex_tree2)) =
    [([97;46;98], true); ([97;47;108], true); ([97;47;120], false); ([98], true); ([99], false)] /\
  fst (hash_cached H_toy IGNORE_DIRS ex_cache1 ex_tree2) = hash_dir H_toy IGNORE_DIRS ex_tree2.
Proof.
  split; [|split; [|split; [|split; [|split]]]].
  - vm_compute. repeat constructor.
  - vm_compute. repeat split.
  - vm_compute. intuition discriminate.
  - vm_compute. discriminate.
  - vm_compute. reflexivity.
  - vm_compute. reflexivity.
Qed.

Example cache_transparent_history_nonvacuous :
  Forall (fun es => consistent ex_content_of es /\ named es /\ packable es) [ex_tree1; ex_tree2; ex_tree2] /\
  run_history H_toy IGNORE_DIRS None [ex_tree1; ex_tree2; ex_tree2] =
    map (hash_dir H_toy IGNORE_DIRS) [ex_tree1; ex_tree2; ex_tree2] /\
  names_in_file (next_file ex_cache1 (snd (hash_cached H_toy IGNORE_DIRS ex_cache1 ex_tree2))) =
    [[97;46;98]; [97;47;108]; [97;47;120]; [98]; [99]].
Proof.
  split; [|split; vm_compute; reflexivity].
  repeat constructor; try (vm_compute; repeat split; congruence).
Qed.

(* Not claimed, and false: "records of unchanged files survive a rewrite".  With
   a, b, c cached and b deleted, d created, the rewrite starts at the last
   record read (c): the stale b stays, the valid c is dropped (it is re-hashed
   next time).  A performance wart only: the hashes are still right. *)
Example index_keeps_valid_records_refuted :
  names_in_file ex_cache_abc = [[97]; [98]; [99]] /\
  check_events (snd (hash_cached_traced H_toy IGNORE_DIRS ex_cache_abc ex_acd)) =
    [([97], true); ([99], true); ([100], false)] /\
  names_in_file (snd (hash_cached H_toy IGNORE_DIRS ex_cache_abc ex_acd)) = [[97]; [98]; [100]] /\
  fst (hash_cached H_toy IGNORE_DIRS ex_cache_abc ex_acd) = hash_dir H_toy IGNORE_DIRS ex_acd.
Proof. repeat split; vm_compute; reflexivity. Qed.

Example index_sorted_preserved_nonvacuous :
  listing ex_acd /\ packable ex_acd /\ file_sorted ex_cache_abc /\ ex_cache_abc <> None /\
  snd (hash_cached H_toy IGNORE_DIRS ex_cache_abc ex_acd) <> None.
Proof.
  split; [|split; [|split; [|split]]].
  - unfold listing, ex_acd, node_listing; simpl; unfold node_listing; simpl.
    repeat split; try discriminate; try (repeat constructor; simpl; intuition discriminate);
      unfold SLASH; simpl; intuition discriminate.
  - vm_compute. repeat split.
  - unfold file_sorted. vm_compute. repeat constructor.
  - vm_compute. discriminate.
  - vm_compute. discriminate.
Qed.
