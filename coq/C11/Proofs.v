(* C11 — proofs about the model of DirHasher / FileIndex (Model.v).
   Sections: bytes order and little-endian packing; induction over trees;
   the uncached walk is [dig]; sorting; injectivity up to collisions;
   normalisation preserves the side conditions; order of index look-ups;
   transparency of the cache; byte level of cache.bin; histories. *)
From Coq Require Import List NArith Bool Arith Lia Permutation Sorted.
Require Import BobV.Gen.ConstsC11 BobV.C11.Model.
Import ListNotations.
Open Scope N_scope.

(* ================================================================== bytes *)

Lemma bytes_eqb_refl : forall a, bytes_eqb a a = true.
Proof. induction a; simpl; auto. rewrite N.eqb_refl. auto. Qed.

Lemma bytes_eqb_eq : forall a b, bytes_eqb a b = true <-> a = b.
Proof.
  induction a; destruct b; simpl; split; intros; try congruence; auto.
  - apply andb_true_iff in H as [H1 H2]. apply N.eqb_eq in H1. apply IHa in H2. congruence.
  - inversion H; subst. rewrite N.eqb_refl. simpl. apply IHa. reflexivity.
Qed.

Lemma bytes_mem_In : forall x l, bytes_mem x l = true <-> In x l.
Proof.
  induction l; simpl; split; intros; try congruence; try tauto.
  - apply orb_true_iff in H as [H|H].
    + apply bytes_eqb_eq in H. auto.
    + right. apply IHl. auto.
  - apply orb_true_iff. destruct H.
    + left. subst. apply bytes_eqb_refl.
    + right. apply IHl. auto.
Qed.

Lemma bytes_ltb_irrefl : forall a, bytes_ltb a a = false.
Proof. induction a; simpl; auto. rewrite N.ltb_irrefl. auto. Qed.

Lemma bytes_ltb_trans : forall a b c, bytes_ltb a b = true -> bytes_ltb b c = true -> bytes_ltb a c = true.
Proof.
  induction a; destruct b, c; simpl; intros; try congruence; auto.
  destruct (a <? n) eqn:E1.
  - destruct (n <? n0) eqn:E2.
    + apply N.ltb_lt in E1, E2. assert (a <? n0 = true) by (apply N.ltb_lt; lia). rewrite H1. auto.
    + destruct (n0 <? n) eqn:E3; try congruence.
      apply N.ltb_lt in E1. apply N.ltb_ge in E2, E3. assert (n = n0) by lia. subst.
      assert (a <? n0 = true) by (apply N.ltb_lt; lia). rewrite H1. auto.
  - destruct (n <? a) eqn:E2; try congruence.
    apply N.ltb_ge in E1, E2. assert (a = n) by lia. subst.
    destruct (n <? n0) eqn:E3; auto.
    destruct (n0 <? n) eqn:E4; try congruence.
    eapply IHa; eauto.
Qed.

Lemma bytes_ltb_total : forall a b, bytes_ltb a b = true \/ a = b \/ bytes_ltb b a = true.
Proof.
  induction a; destruct b; simpl; auto.
  destruct (a <? n) eqn:E1; auto.
  destruct (n <? a) eqn:E2; auto.
  apply N.ltb_ge in E1, E2. assert (a = n) by lia. subst.
  destruct (IHa b) as [H|[H|H]]; auto. subst; auto.
Qed.

Lemma bytes_ltb_asym : forall a b, bytes_ltb a b = true -> bytes_ltb b a = false.
Proof.
  intros. destruct (bytes_ltb b a) eqn:E; auto.
  pose proof (bytes_ltb_trans _ _ _ H E). rewrite bytes_ltb_irrefl in H0. congruence.
Qed.

Lemma bytes_leb_total : forall a b, bytes_leb a b = true \/ bytes_leb b a = true.
Proof.
  unfold bytes_leb. intros. destruct (bytes_ltb_total a b) as [H|[H|H]].
  - left. rewrite (bytes_ltb_asym _ _ H). auto.
  - subst. rewrite bytes_ltb_irrefl. auto.
  - right. rewrite (bytes_ltb_asym _ _ H). auto.
Qed.

Lemma bytes_leb_trans : forall a b c, bytes_leb a b = true -> bytes_leb b c = true -> bytes_leb a c = true.
Proof.
  unfold bytes_leb. intros a b c H1 H2. apply negb_true_iff in H1, H2. apply negb_true_iff.
  destruct (bytes_ltb c a) eqn:E; auto.
  destruct (bytes_ltb_total b c) as [H|[H|H]]; try congruence.
  pose proof (bytes_ltb_trans _ _ _ H E). congruence.
Qed.

Lemma bytes_leb_neq_ltb : forall a b, bytes_leb a b = true -> a <> b -> bytes_ltb a b = true.
Proof.
  unfold bytes_leb. intros a b H Hn. apply negb_true_iff in H.
  destruct (bytes_ltb_total a b) as [H1|[H1|H1]]; congruence.
Qed.

Lemma bytes_ltb_leb : forall a b, bytes_ltb a b = true -> bytes_leb a b = true.
Proof. unfold bytes_leb. intros. rewrite (bytes_ltb_asym _ _ H). auto. Qed.

Lemma bytes_ltb_app_l : forall p a b, bytes_ltb (p ++ a) (p ++ b) = bytes_ltb a b.
Proof. induction p; simpl; auto. intros. rewrite N.ltb_irrefl. auto. Qed.

(* a < b: either they differ at a first position, or a is a proper prefix of b *)
Lemma bytes_ltb_cases : forall a b, bytes_ltb a b = true ->
  (exists c x y ta tb, a = c ++ x :: ta /\ b = c ++ y :: tb /\ x < y) \/
  (exists y tb, b = a ++ y :: tb).
Proof.
  induction a; destruct b; simpl; intros; try congruence.
  - right. exists n, b. reflexivity.
  - destruct (a <? n) eqn:E1.
    + left. exists [], a, n, a0, b. apply N.ltb_lt in E1. auto.
    + destruct (n <? a) eqn:E2; try congruence.
      apply N.ltb_ge in E1, E2. assert (a = n) by lia. subst.
      destruct (IHa _ H) as [(c & x & y & ta & tb & Ha & Hb & Hxy)|(y & tb & Hb)].
      * left. exists (n :: c), x, y, ta, tb. subst. auto.
      * right. exists y, tb. subst. auto.
Qed.

Lemma bytes_ltb_diff : forall c x y ta tb, x < y -> bytes_ltb (c ++ x :: ta) (c ++ y :: tb) = true.
Proof.
  intros. rewrite bytes_ltb_app_l. simpl. apply N.ltb_lt in H. rewrite H. auto.
Qed.

Lemma bytes_ltb_prefix : forall a y tb, bytes_ltb a (a ++ y :: tb) = true.
Proof. induction a; simpl; auto. intros. rewrite N.ltb_irrefl. auto. Qed.

(* ================================================================== little endian *)

Lemma le_enc_length : forall w n, length (le_enc w n) = w.
Proof. induction w; simpl; auto. Qed.

Lemma le_dec_enc : forall w n, n < 256 ^ N.of_nat w -> le_dec (le_enc w n) = n.
Proof.
  induction w; intros.
  - simpl in *. lia.
  - cbn [le_enc le_dec]. rewrite IHw.
    + pose proof (N.div_mod n 256). lia.
    + rewrite Nat2N.inj_succ, N.pow_succ_r' in H.
      apply N.div_lt_upper_bound; lia.
Qed.

Lemma le_enc_inj : forall w a b, a < 256 ^ N.of_nat w -> b < 256 ^ N.of_nat w -> le_enc w a = le_enc w b -> a = b.
Proof. intros. rewrite <- (le_dec_enc w a), <- (le_dec_enc w b); auto. congruence. Qed.

Lemma le_enc_bytes : forall w n x, In x (le_enc w n) -> x < 256.
Proof.
  induction w; simpl; intros; try tauto. destruct H.
  - subst. apply N.mod_lt. lia.
  - eauto.
Qed.

Lemma le_dec_bound : forall l, (forall x, In x l -> x < 256) -> le_dec l < 256 ^ N.of_nat (length l).
Proof.
  induction l; intros.
  - simpl. lia.
  - cbn [length le_dec]. rewrite Nat2N.inj_succ, N.pow_succ_r'.
    assert (a < 256) by (apply H; simpl; auto).
    assert (le_dec l < 256 ^ N.of_nat (length l)) by (apply IHl; intros; apply H; simpl; auto).
    nia.
Qed.

(* the four bytes of a 16 bit mode *)
Lemma le_enc4_mode : forall m, m < 65536 -> le_enc 4 m = [m mod 256; m / 256; 0; 0].
Proof.
  intros. cbn [le_enc].
  assert (m / 256 < 256) by (apply N.div_lt_upper_bound; lia).
  rewrite (N.mod_small (m / 256) 256) by lia.
  rewrite (N.div_small (m / 256) 256) by lia.
  reflexivity.
Qed.

Arguments pack_mode : simpl never.
Arguments key : simpl never.
Arguments le_enc : simpl never.

(* ================================================================== induction over trees *)

Section TreeInd.
  Variable P : tree -> Prop.
  Hypothesis HFile : forall s d, P (File s d).
  Hypothesis HDir : forall s es, Forall (fun e => P (snd e)) es -> P (Dir s es).
  Hypothesis HLink : forall s g, P (Link s g).
  Hypothesis HDev : forall s r, P (Dev s r).
  Hypothesis HFifo : forall s, P (Fifo s).
  Hypothesis HOther : forall s, P (Other s).

  Fixpoint tree_ind2 (t : tree) : P t :=
    match t with
    | File s d => HFile s d
    | Dir s es =>
        HDir s es ((fix go (l : entries) : Forall (fun e => P (snd e)) l :=
                      match l with
                      | [] => Forall_nil _
                      | e :: tl => Forall_cons e (tree_ind2 (snd e)) (go tl)
                      end) es)
    | Link s g => HLink s g
    | Dev s r => HDev s r
    | Fifo s => HFifo s
    | Other s => HOther s
    end.
End TreeInd.

(* ================================================================== unfolding of the nested fixpoints *)

Lemma dig_dir : forall H s es, dig H (Dir s es) = H (blob_of H es).
Proof. reflexivity. Qed.

Lemma hashed_dir_node : forall H s es, hashed H (Dir s es) = hashed_entries H es ++ [blob_of H es].
Proof. reflexivity. Qed.

Lemma checked_dir : forall p s es, checked p (Dir s es) = checked_entries p es.
Proof. intros. simpl. induction es; simpl; auto. rewrite IHes. reflexivity. Qed.

Lemma walk_dir : forall St (chk : list N -> stat -> list N -> St -> list N * St) hdir p s es st,
  walk chk hdir p (Dir s es) st = let '(blob, s') := walk_entries chk hdir p es st in hdir blob s'.
Proof.
  intros. cbn [walk].
  match goal with |- (let '(_, _) := ?f es st in _) = _ => assert (E : forall l s0, f l s0 = walk_entries chk hdir p l s0) end.
  { induction l; intros; simpl; auto. destruct (walk chk hdir (pjoin p (fst a)) (snd a) s0). rewrite IHl. reflexivity. }
  rewrite E. reflexivity.
Qed.

Lemma tree_all_dir : forall P p n s es,
  tree_all P p n (Dir s es) <-> (P p n (Dir s es) /\ entries_all P p es).
Proof.
  intros. cbn [tree_all].
  match goal with |- (_ /\ ?f es) <-> _ => assert (E : forall l, f l <-> entries_all P p l) end.
  { induction l; simpl; tauto. }
  rewrite E. tauto.
Qed.

Lemma tree_all_node : forall P p n t, tree_all P p n t -> P p n t.
Proof. intros. destruct t; simpl in H; tauto. Qed.

Lemma entries_all_Forall : forall P p l,
  entries_all P p l <-> Forall (fun e => tree_all P (pjoin p (fst e)) (fst e) (snd e)) l.
Proof.
  induction l; simpl; split; intros; auto.
  - destruct H. constructor; auto. apply IHl; auto.
  - inversion H; subst. split; auto. apply IHl; auto.
Qed.

Lemma norm_dir : forall ign s es, norm ign (Dir s es) = Dir s (norm_entries ign es).
Proof. reflexivity. Qed.

Lemma erase_dir : forall s es, erase (Dir s es) = Dir (only_mode s) (erase_entries es).
Proof. reflexivity. Qed.

(* ================================================================== the walk without index is [dig] *)

Lemma walk_null_dig : forall H t p s, walk (null_chk H) (null_hdir H) p t s = (dig H t, s).
Proof.
  intros H t. induction t using tree_ind2; intros; try reflexivity.
  rewrite walk_dir, dig_dir.
  assert (E : forall p s0, walk_entries (null_chk H) (null_hdir H) p es s0 = (blob_of H es, s0)).
  { clear p s0. induction H0; intros; simpl; auto.
    rewrite H0. rewrite IHForall. reflexivity. }
  rewrite E. reflexivity.
Qed.

Lemma walk_entries_null : forall H l p s,
  walk_entries (null_chk H) (null_hdir H) p l s = (blob_of H l, s).
Proof.
  induction l; intros; simpl; auto.
  rewrite walk_null_dig, IHl. reflexivity.
Qed.

Lemma hash_dir_blob : forall H ign es, hash_dir H ign es = H (blob_of H (norm_entries ign es)).
Proof.
  intros. unfold hash_dir, walk_root. rewrite walk_entries_null. reflexivity.
Qed.

(* ================================================================== the hash only sees what [erase] keeps *)

Lemma is_dir_erase : forall t, is_dir (erase t) = is_dir t.
Proof. destruct t; reflexivity. Qed.

Lemma pack_mode_erase : forall t, pack_mode (erase t) = pack_mode t.
Proof. destruct t; reflexivity. Qed.

Lemma key_erase : forall n t, key (n, erase t) = key (n, t).
Proof. intros. unfold key. simpl. rewrite is_dir_erase. reflexivity. Qed.

Lemma dig_erase : forall H t, dig H (erase t) = dig H t.
Proof.
  intros H t. induction t using tree_ind2; try reflexivity.
  rewrite erase_dir, !dig_dir. f_equal.
  induction H0; cbn [blob_of erase_entries map fst snd]; auto.
  fold (erase_entries l). rewrite pack_mode_erase, H0, key_erase, IHForall. destruct x; reflexivity.
Qed.

Lemma blob_of_erase : forall H l, blob_of H (erase_entries l) = blob_of H l.
Proof.
  induction l; cbn [blob_of erase_entries map fst snd]; auto.
  fold (erase_entries l). rewrite pack_mode_erase, dig_erase, key_erase, IHl. destruct a; reflexivity.
Qed.

Lemma hash_dir_canon_proof : forall H ign es1 es2,
  canon ign es1 = canon ign es2 -> hash_dir H ign es1 = hash_dir H ign es2.
Proof.
  intros. rewrite !hash_dir_blob. f_equal.
  rewrite <- (blob_of_erase H (norm_entries ign es1)), <- (blob_of_erase H (norm_entries ign es2)).
  unfold canon in H0. rewrite H0. reflexivity.
Qed.

(* ================================================================== sorting *)

Definition key_le (a b : list N * tree) : Prop := bytes_leb (key a) (key b) = true.
Definition key_lt (a b : list N * tree) : Prop := bytes_ltb (key a) (key b) = true.

Lemma insert_perm : forall x l, Permutation (insert_entry x l) (x :: l).
Proof.
  induction l; simpl; auto.
  destruct (bytes_leb (key x) (key a)); auto.
  eapply perm_trans. apply perm_skip. apply IHl. apply perm_swap.
Qed.

Lemma sort_perm : forall l, Permutation (sort_entries l) l.
Proof.
  induction l; simpl; auto.
  eapply perm_trans. apply insert_perm. auto.
Qed.

Lemma sort_In : forall x l, In x (sort_entries l) <-> In x l.
Proof.
  intros. split; intros.
  - eapply Permutation_in. apply sort_perm. auto.
  - eapply Permutation_in. apply Permutation_sym, sort_perm. auto.
Qed.

Lemma insert_sorted : forall x l, StronglySorted key_le l -> StronglySorted key_le (insert_entry x l).
Proof.
  induction l; intros; simpl.
  - constructor; auto.
  - inversion H; subst.
    destruct (bytes_leb (key x) (key a)) eqn:E.
    + constructor; auto. constructor; auto.
      eapply Forall_impl; [|apply H3]. intros. unfold key_le in *. eapply bytes_leb_trans; eauto.
    + constructor; auto.
      assert (Hax : key_le a x).
      { unfold key_le. destruct (bytes_leb_total (key a) (key x)); auto. congruence. }
      apply Forall_forall. intros y Hy.
      eapply Permutation_in in Hy; [|apply insert_perm].
      destruct Hy; subst; auto.
      rewrite Forall_forall in H3. auto.
Qed.

Lemma sort_sorted : forall l, StronglySorted key_le (sort_entries l).
Proof.
  induction l; simpl.
  - constructor.
  - apply insert_sorted. auto.
Qed.

Lemma sorted_strict : forall l, StronglySorted key_le l -> NoDup (map key l) -> StronglySorted key_lt l.
Proof.
  induction 1; intros; simpl in *.
  - constructor.
  - inversion H1; subst. constructor; auto.
    apply Forall_forall. intros y Hy. rewrite Forall_forall in H0.
    unfold key_lt. apply bytes_leb_neq_ltb. apply H0; auto.
    intro E. apply H4. rewrite E. apply in_map. auto.
Qed.

(* ================================================================== injectivity up to collisions *)

Lemma app_eq_len : forall (A : Type) (a b x y : list A), length a = length b -> a ++ x = b ++ y -> a = b /\ x = y.
Proof.
  induction a; destruct b; simpl; intros; try discriminate; auto.
  inversion H0; subst. destruct (IHa b x y) as [E1 E2]; auto. subst. auto.
Qed.

(* the start of the next entry in a directory blob: a packed 16 bit mode with non-zero type bits *)
Definition modehead (R : list N) : Prop :=
  R = [] \/ exists b0 b1 r, R = b0 :: b1 :: 0 :: 0 :: r /\ b1 <> 0.

Lemma key_split_nil : forall k R1 R2, ~ In 0 k -> k <> [] -> modehead R1 -> modehead R2 -> R1 = k ++ R2 -> False.
Proof.
  intros k R1 R2 Hk Hne H1 H2 E.
  destruct k as [|c k]; [congruence|]. clear Hne.
  destruct H1 as [H1|(b0 & b1 & r & H1 & Hb1)]; subst R1; [discriminate|].
  simpl in E. inversion E; subst. clear E.
  destruct k as [|d k].
  - simpl in H1. destruct H2 as [H2|(c0 & c1 & r' & H2 & Hc1)]; subst R2; [discriminate|].
    inversion H1; subst. congruence.
  - simpl in H1. inversion H1; subst. clear H1.
    destruct k as [|e k].
    + simpl in H3. destruct H2 as [H2|(c0 & c1 & r' & H2 & Hc1)]; subst R2; [discriminate|].
      inversion H3; subst. congruence.
    + simpl in H3. inversion H3; subst. apply Hk. simpl. auto.
Qed.

Lemma key_split : forall k1 k2 R1 R2, ~ In 0 k1 -> ~ In 0 k2 -> modehead R1 -> modehead R2 ->
  k1 ++ R1 = k2 ++ R2 -> k1 = k2 /\ R1 = R2.
Proof.
  induction k1; destruct k2; intros R1 R2 Hk1 Hk2 H1 H2 E.
  - auto.
  - exfalso. simpl in E. eapply (key_split_nil (n :: k2) R1 R2); eauto. discriminate.
  - exfalso. simpl in E. eapply (key_split_nil (a :: k1) R2 R1); eauto. discriminate.
  - simpl in E. inversion E; subst.
    destruct (IHk1 k2 R1 R2) as [E1 E2]; auto.
    + intro. apply Hk1. simpl. auto.
    + intro. apply Hk2. simpl. auto.
    + subst. auto.
Qed.

Definition ctor (t : tree) : nat :=
  match t with File _ _ => 0 | Dir _ _ => 1 | Link _ _ => 2 | Dev _ _ => 3 | Fifo _ => 4 | Other _ => 5 end%nat.

Lemma kind_ok_ctor : forall t1 t2 k, kind_ok t1 k -> kind_ok t2 k -> ctor t1 = ctor t2.
Proof.
  destruct t1, t2; simpl; intros; try reflexivity; exfalso.
  all: try (intuition (try congruence; try lia); fail).
Qed.

Lemma wf_same_ctor : forall t1 t2 p1 n1 p2 n2, node_wf p1 n1 t1 -> node_wf p2 n2 t2 ->
  st_mode (node_stat t1) = st_mode (node_stat t2) -> ctor t1 = ctor t2.
Proof.
  intros t1 t2 p1 n1 p2 n2 (_ & _ & K1 & _) (_ & _ & K2 & _) Em. rewrite Em in K1. eapply kind_ok_ctor; eauto.
Qed.

Section Inj.
  Variable H : list N -> list N.
  Hypothesis Hlen : forall x, length (H x) = 20%nat.

  Lemma dig_length : forall t,
    length (dig H t) = match ctor t with 0 | 1 | 2 => 20 | 3 => 4 | _ => 0 end%nat.
  Proof.
    destruct t; simpl; auto; try apply le_enc_length.
  Qed.

  Lemma pack_mode_length : forall t, length (pack_mode t) = 4%nat.
  Proof. intros. apply le_enc_length. Qed.

  Lemma pack_mode_shape : forall p n t, node_wf p n t ->
    exists b0 b1, pack_mode t = [b0; b1; 0; 0] /\ b1 <> 0.
  Proof.
    intros p n t (Hn & Hm & Hk & _). unfold pack_mode.
    rewrite le_enc4_mode by auto.
    exists (st_mode (node_stat t) mod 256), (st_mode (node_stat t) / 256). split; auto.
    assert (st_mode (node_stat t) / 4096 <> 0).
    { destruct t; simpl in *; intuition lia. }
    intro E. apply H0.
    assert (st_mode (node_stat t) < 256).
    { pose proof (N.div_mod (st_mode (node_stat t)) 256). pose proof (N.mod_lt (st_mode (node_stat t)) 256). lia. }
    apply N.div_small. lia.
  Qed.

  Lemma blob_modehead : forall p l, entries_all node_wf p l -> modehead (blob_of H l).
  Proof.
    destruct l; intros.
    - left. reflexivity.
    - right. simpl in H0. destruct H0 as [H0 _]. apply tree_all_node in H0.
      destruct (pack_mode_shape _ _ _ H0) as (b0 & b1 & E & Hb).
      cbn [blob_of]. rewrite E. simpl. eauto.
  Qed.

  Lemma key_no_nul : forall n t, ~ In 0 n -> ~ In 0 (key (n, t)).
  Proof.
    intros. unfold key. simpl. destruct (is_dir t); auto.
    intro. apply in_app_or in H1. destruct H1; auto. simpl in H1. unfold SLASH in H1. intuition lia.
  Qed.

  Lemma key_inj : forall n1 t1 n2 t2, ctor t1 = ctor t2 -> key (n1, t1) = key (n2, t2) -> n1 = n2.
  Proof.
    intros. unfold key in H1. simpl in H1.
    destruct t1, t2; simpl in *; try discriminate; auto.
    apply app_inv_tail in H1. auto.
  Qed.

  Definition inj_tree (t1 : tree) : Prop :=
    forall t2 p1 n1 p2 n2,
      tree_all node_wf p1 n1 t1 -> tree_all node_wf p2 n2 t2 ->
      st_mode (node_stat t1) = st_mode (node_stat t2) ->
      dig H t1 = dig H t2 ->
      erase t1 = erase t2 \/ collision H (hashed H t1) (hashed H t2).

  Lemma collision_app : forall a1 b1 a2 b2,
    collision H a1 a2 \/ collision H b1 b2 -> collision H (a1 ++ b1) (a2 ++ b2).
  Proof.
    intros. destruct H0 as [(x & y & ? & ? & ? & ?)|(x & y & ? & ? & ? & ?)]; exists x, y;
      repeat split; auto; apply in_or_app; auto.
  Qed.

  Lemma inj_entries : forall l1, Forall (fun e => inj_tree (snd e)) l1 ->
    forall l2 p1 p2, entries_all node_wf p1 l1 -> entries_all node_wf p2 l2 ->
      blob_of H l1 = blob_of H l2 ->
      erase_entries l1 = erase_entries l2 \/ collision H (hashed_entries H l1) (hashed_entries H l2).
  Proof.
    induction 1 as [|[n1 c1] r1 Hc1 Hr1 IH]; intros l2 p1 p2 W1 W2 E.
    - destruct l2 as [|[n2 c2] r2]; auto.
      exfalso. cbn [blob_of] in E.
      pose proof (pack_mode_length (snd (n2, c2))). destruct (pack_mode (snd (n2, c2))); simpl in *; discriminate.
    - destruct l2 as [|[n2 c2] r2].
      { exfalso. cbn [blob_of] in E.
        pose proof (pack_mode_length (snd (n1, c1))). destruct (pack_mode (snd (n1, c1))); simpl in *; discriminate. }
      cbn [entries_all fst snd] in W1, W2. destruct W1 as [W1 W1r], W2 as [W2 W2r].
      cbn [blob_of fst snd] in E.
      apply app_eq_len in E; [|rewrite !pack_mode_length; reflexivity].
      destruct E as [Em E].
      pose proof (tree_all_node _ _ _ _ W1) as N1. pose proof (tree_all_node _ _ _ _ W2) as N2.
      assert (Emode : st_mode (node_stat c1) = st_mode (node_stat c2)).
      { destruct N1 as (_ & M1 & _), N2 as (_ & M2 & _). unfold pack_mode in Em.
        apply le_enc_inj in Em; auto; simpl; lia. }
      pose proof (wf_same_ctor _ _ _ _ _ _ N1 N2 Emode) as Ector.
      apply app_eq_len in E; [|rewrite !dig_length, Ector; reflexivity].
      destruct E as [Ed E].
      apply key_split in E.
      + destruct E as [Ek Er].
        assert (n1 = n2) by (eapply key_inj; eauto). subst n2.
        specialize (Hc1 c2 _ _ _ _ W1 W2 Emode Ed). cbn [snd] in Hc1.
        specialize (IH r2 _ _ W1r W2r Er).
        cbn [hashed_entries snd]. 
        destruct Hc1 as [Hc1|Hc1]; [|right; apply collision_app; auto].
        destruct IH as [IH|IH]; [|right; apply collision_app; auto].
        left. cbn [erase_entries map fst snd]. fold (erase_entries r1). fold (erase_entries r2). congruence.
      + apply key_no_nul. apply N1.
      + apply key_no_nul. apply N2.
      + eapply blob_modehead; eauto.
      + eapply blob_modehead; eauto.
  Qed.

  Lemma inj_all : forall t, inj_tree t.
  Proof.
    induction t using tree_ind2; intros t2 p1 n1 p2 n2 W1 W2 Em Ed;
      pose proof (tree_all_node _ _ _ _ W1) as N1; pose proof (tree_all_node _ _ _ _ W2) as N2;
      pose proof (wf_same_ctor _ _ _ _ _ _ N1 N2 Em) as Ector;
      destruct t2; simpl in Ector; try discriminate; clear Ector.
    - (* File *) simpl in Ed, Em. simpl.
      destruct (list_eq_dec N.eq_dec d data) as [E|E].
      + left. subst. unfold only_mode. rewrite Em. reflexivity.
      + right. exists d, data. simpl. auto.
    - (* Dir *)
      rewrite !dig_dir in Ed. rewrite !erase_dir, !hashed_dir_node. simpl in Em.
      apply tree_all_dir in W1, W2. destruct W1 as [_ W1], W2 as [_ W2].
      destruct (list_eq_dec N.eq_dec (blob_of H es) (blob_of H entries)) as [E|E].
      + destruct (inj_entries es H0 entries _ _ W1 W2 E) as [E2|E2].
        * left. unfold only_mode. rewrite Em, E2. reflexivity.
        * right. apply collision_app. auto.
      + right. exists (blob_of H es), (blob_of H entries).
        repeat split; auto; apply in_or_app; right; simpl; auto.
    - (* Link *) simpl in Ed, Em. simpl.
      destruct (list_eq_dec N.eq_dec g target) as [E|E].
      + left. subst. unfold only_mode. rewrite Em. reflexivity.
      + right. exists g, target. simpl. auto.
    - (* Dev *) simpl in Ed, Em. left. simpl. unfold only_mode. rewrite Em.
      destruct N1 as (_ & _ & _ & R1), N2 as (_ & _ & _ & R2).
      apply le_enc_inj in Ed; simpl; try lia. subst. reflexivity.
    - simpl in Em. left. simpl. unfold only_mode. rewrite Em. reflexivity.
    - simpl in Em. left. simpl. unfold only_mode. rewrite Em. reflexivity.
  Qed.
End Inj.

(* ================================================================== predicates survive normalisation *)

Lemma norm_entries_In : forall ign es x, In x (norm_entries ign es) ->
  exists e, In e es /\ x = (fst e, norm ign (snd e)) /\ keep ign x = true.
Proof.
  unfold norm_entries. intros. apply (proj1 (sort_In _ _)) in H. apply filter_In in H. destruct H as [H K].
  apply in_map_iff in H. destruct H as (e & E & I). exists e. auto.
Qed.

Section NormAll.
  Variable P : list N -> list N -> tree -> Prop.
  Hypothesis Pdir : forall p n s es es', P p n (Dir s es) -> P p n (Dir s es').
  Variable ign : list (list N).

  Lemma tree_all_norm : forall t p n, tree_all P p n t -> tree_all P p n (norm ign t).
  Proof.
    induction t using tree_ind2; intros; auto.
    rewrite norm_dir. apply tree_all_dir in H0. destruct H0 as [H0 H1]. apply tree_all_dir. split.
    - eapply Pdir; eauto.
    - apply entries_all_Forall. apply Forall_forall. intros x Hx.
      apply norm_entries_In in Hx. destruct Hx as (e & Ie & Ex & _). subst x. simpl.
      rewrite Forall_forall in H. apply H; auto.
      apply entries_all_Forall in H1. rewrite Forall_forall in H1. apply H1. auto.
  Qed.

  Lemma entries_all_norm : forall p es, entries_all P p es -> entries_all P p (norm_entries ign es).
  Proof.
    intros. apply entries_all_Forall. apply Forall_forall. intros x Hx.
    apply norm_entries_In in Hx. destruct Hx as (e & Ie & Ex & _). subst x. simpl.
    apply tree_all_norm. apply entries_all_Forall in H. rewrite Forall_forall in H. apply H. auto.
  Qed.
End NormAll.

Lemma wf_norm : forall ign es, wf es -> entries_all node_wf [] (norm_entries ign es).
Proof.
  intros. apply entries_all_norm; auto.
Qed.

Theorem hash_dir_injective_proof : forall H ign es1 es2,
  (forall x, length (H x) = 20%nat) ->
  wf es1 -> wf es2 ->
  hash_dir H ign es1 = hash_dir H ign es2 ->
  canon ign es1 = canon ign es2 \/ collision H (hashed_dir H ign es1) (hashed_dir H ign es2).
Proof.
  intros H ign es1 es2 Hlen W1 W2 E. rewrite !hash_dir_blob in E.
  unfold canon, hashed_dir.
  destruct (list_eq_dec N.eq_dec (blob_of H (norm_entries ign es1)) (blob_of H (norm_entries ign es2))) as [Eb|Eb].
  - destruct (inj_entries H Hlen (norm_entries ign es1)) with (l2 := norm_entries ign es2) (p1 := @nil N) (p2 := @nil N)
      as [E2|E2]; auto using wf_norm.
    + apply Forall_forall. intros. apply inj_all; auto.
    + right. apply collision_app. auto.
  - right. exists (blob_of H (norm_entries ign es1)), (blob_of H (norm_entries ign es2)).
    repeat split; auto; apply in_or_app; right; simpl; auto.
Qed.

(* ================================================================== the order of the directory listing does not matter *)

Lemma sorted_perm_eq : forall l1 l2 : entries,
  StronglySorted key_lt l1 -> StronglySorted key_lt l2 -> Permutation l1 l2 -> l1 = l2.
Proof.
  induction l1 as [|a r1 IH]; intros l2 S1 S2 Pm.
  - apply Permutation_nil in Pm. auto.
  - destruct l2 as [|b r2]. { apply Permutation_sym, Permutation_nil in Pm. discriminate. }
    inversion S1; subst. inversion S2; subst.
    assert (a = b).
    { assert (Ia : In a (b :: r2)) by (eapply Permutation_in; eauto; simpl; auto).
      assert (Ib : In b (a :: r1)) by (eapply Permutation_in; [apply Permutation_sym; eauto|]; simpl; auto).
      destruct Ia as [Ia|Ia]; auto. destruct Ib as [Ib|Ib]; auto.
      rewrite Forall_forall in H2, H4. pose proof (H2 _ Ib) as Lab. pose proof (H4 _ Ia) as Lba.
      unfold key_lt in Lab, Lba. pose proof (bytes_ltb_trans _ _ _ Lab Lba) as Laa.
      rewrite bytes_ltb_irrefl in Laa. discriminate. }
    subst b. f_equal. apply IH; auto. eapply Permutation_cons_inv; eauto.
Qed.

Lemma key_norm : forall ign e, key (fst e, norm ign (snd e)) = key e.
Proof. intros ign [n t]. unfold key. simpl. destruct t; reflexivity. Qed.

Lemma keep_norm : forall ign e, keep ign (fst e, norm ign (snd e)) = keep ign e.
Proof. intros ign [n t]. unfold keep. simpl. destruct t; reflexivity. Qed.

Lemma key_names_NoDup : forall l : entries,
  NoDup (map fst l) -> (forall e, In e l -> ~ In SLASH (fst e)) -> NoDup (map key l).
Proof.
  induction l as [|a l IH]; simpl; intros ND NS. { constructor. }
  inversion ND; subst. constructor.
  - intro I. apply in_map_iff in I. destruct I as (b & Eb & Ib).
    assert (fst a <> fst b) by (intro E; apply H1; rewrite E; apply in_map; auto).
    unfold key in Eb. destruct (is_dir (snd b)), (is_dir (snd a)).
    + apply app_inv_tail in Eb. congruence.
    + apply (NS a); auto. rewrite <- Eb. apply in_or_app. right. simpl. auto.
    + apply (NS b); auto. rewrite Eb. apply in_or_app. right. simpl. auto.
    + congruence.
  - apply IH; auto.
Qed.

Lemma norm_entries_perm : forall ign es1 es2, Permutation es1 es2 ->
  Permutation (norm_entries ign es1) (norm_entries ign es2).
Proof.
  intros. unfold norm_entries.
  eapply perm_trans. apply sort_perm. eapply perm_trans; [|apply Permutation_sym, sort_perm].
  induction H; simpl.
  - constructor.
  - destruct (keep ign (fst x, norm ign (snd x))); auto.
  - destruct (keep ign (fst x, norm ign (snd x))), (keep ign (fst y, norm ign (snd y))); auto. apply perm_swap.
  - eapply perm_trans; eauto.
Qed.

Lemma norm_entries_keys_NoDup : forall ign es,
  NoDup (map fst es) -> (forall e, In e es -> ~ In SLASH (fst e)) -> NoDup (map key (norm_entries ign es)).
Proof.
  intros. apply key_names_NoDup.
  - unfold norm_entries.
    eapply Permutation_NoDup. { apply Permutation_map. apply Permutation_sym. apply sort_perm. }
    clear H0. induction es as [|a es IH]; simpl. { constructor. }
    inversion H; subst.
    destruct (keep ign (fst a, norm ign (snd a))); auto. simpl. constructor; auto.
    intro I. apply H2. apply in_map_iff in I. destruct I as (x & Ex & Ix). apply filter_In in Ix. destruct Ix as [Ix _].
    apply in_map_iff in Ix. destruct Ix as (y & Ey & Iy). subst x. simpl in Ex. rewrite <- Ex. apply in_map. auto.
  - intros e Ie. apply norm_entries_In in Ie. destruct Ie as (x & Ix & Ex & _). subst e. simpl. auto.
Qed.

Lemma norm_entries_sorted : forall ign es,
  NoDup (map fst es) -> (forall e, In e es -> ~ In SLASH (fst e)) -> StronglySorted key_lt (norm_entries ign es).
Proof.
  intros. apply sorted_strict.
  - apply sort_sorted.
  - apply norm_entries_keys_NoDup; auto.
Qed.

(* two listings of the same directory in different orders have the same canonical form *)
Theorem canon_order_irrelevant_proof : forall ign es1 es2,
  NoDup (map fst es1) -> (forall e, In e es1 -> ~ In SLASH (fst e)) ->
  Permutation es1 es2 -> canon ign es1 = canon ign es2.
Proof.
  intros. unfold canon. f_equal. apply sorted_perm_eq.
  - apply norm_entries_sorted; auto.
  - apply norm_entries_sorted.
    + eapply Permutation_NoDup; [|eauto]. apply Permutation_map. auto.
    + intros. apply H0. eapply Permutation_in; [apply Permutation_sym|]; eauto.
  - apply norm_entries_perm. auto.
Qed.

(* ================================================================== the walk visits names in increasing order *)

(* what normalisation guarantees for a listing: names ok, every directory strictly sorted by key *)
Definition node_srt (p n : list N) (t : tree) : Prop :=
  n <> [] /\ ~ In SLASH n /\ match t with Dir _ es => StronglySorted key_lt es | _ => True end.

Lemma entries_all_In : forall P p l e, entries_all P p l -> In e l -> tree_all P (pjoin p (fst e)) (fst e) (snd e).
Proof.
  intros. apply entries_all_Forall in H. rewrite Forall_forall in H. auto.
Qed.

Lemma norm_srt : forall ign t p n, tree_all node_listing p n t -> tree_all node_srt p n (norm ign t).
Proof.
  intros ign t. induction t using tree_ind2; intros p n A;
    try (simpl in *; unfold node_listing, node_srt in *; tauto).
  rewrite norm_dir. apply tree_all_dir in A. destruct A as [(Hn & Hs & ND) A]. apply tree_all_dir. split.
  - split; auto. split; auto.
    apply norm_entries_sorted; auto.
    intros e Ie. pose proof (entries_all_In _ _ _ _ A Ie) as T. apply tree_all_node in T. apply T.
  - apply entries_all_Forall. apply Forall_forall. intros x Hx.
    apply norm_entries_In in Hx. destruct Hx as (e & Ie & Ex & _). subst x. simpl.
    rewrite Forall_forall in H. apply H; auto. eapply entries_all_In; eauto.
Qed.

Lemma norm_entries_srt : forall ign es, listing es ->
  entries_all node_srt [] (norm_entries ign es) /\ StronglySorted key_lt (norm_entries ign es).
Proof.
  intros ign es [ND A]. split.
  - apply entries_all_Forall. apply Forall_forall. intros x Hx.
    apply norm_entries_In in Hx. destruct Hx as (e & Ie & Ex & _). subst x. simpl.
    apply norm_srt. exact (entries_all_In _ _ _ _ A Ie).
  - apply norm_entries_sorted; auto.
    intros e Ie. pose proof (entries_all_In _ _ _ _ A Ie) as T. apply tree_all_node in T. apply T.
Qed.

Lemma In_checked_entries : forall q p l,
  In q (checked_entries p l) <-> exists e, In e l /\ In q (checked (pjoin p (fst e)) (snd e)).
Proof.
  induction l; simpl; split; intros.
  - tauto.
  - destruct H as (e & [] & _).
  - apply in_app_or in H. destruct H.
    + exists a. auto.
    + apply IHl in H. destruct H as (e & I & Q). exists e. auto.
  - destruct H as (e & [E|I] & Q); apply in_or_app.
    + subst. auto.
    + right. apply IHl. eauto.
Qed.

Lemma pjoin_nonempty : forall p n, n <> [] -> pjoin p n <> [].
Proof. intros. unfold pjoin. destruct p; auto. simpl. discriminate. Qed.

(* every checked name extends the path of the entry; below a directory by '/'... *)
Lemma checked_form : forall t P q, In q (checked P t) ->
  exists r, q = P ++ r /\ (is_dir t = false -> r = []) /\ (is_dir t = true -> P <> [] -> exists r', r = SLASH :: r').
Proof.
  induction t using tree_ind2; intros P q I; try (simpl in I; tauto).
  - simpl in I. destruct I as [I|[]]. subst. exists []. rewrite app_nil_r. repeat split; auto. simpl. discriminate.
  - rewrite checked_dir in I. apply In_checked_entries in I. destruct I as (e & Ie & Q).
    rewrite Forall_forall in H. destruct (H e Ie _ _ Q) as (r & Er & _ & _).
    unfold pjoin in Er. destruct P as [|x P].
    + exists q. simpl. repeat split; auto; try discriminate. congruence.
    + exists (SLASH :: fst e ++ r). repeat split; try discriminate.
      * rewrite Er. rewrite <- app_assoc. reflexivity.
      * eauto.
  - simpl in I. destruct I as [I|[]]. subst. exists []. rewrite app_nil_r. repeat split; auto. simpl. discriminate.
Qed.

Definition base (p : list N) : list N := match p with [] => [] | _ => p ++ [SLASH] end.

Lemma pjoin_base : forall p n, pjoin p n = base p ++ n.
Proof. destruct p; simpl; auto. intros. rewrite <- app_assoc. reflexivity. Qed.

(* a checked name below entry e of directory p is  base p ++ key e ++ r  (r empty unless e is a directory) *)
Lemma checked_key_form : forall p e q, fst e <> [] -> In q (checked (pjoin p (fst e)) (snd e)) ->
  exists r, q = base p ++ key e ++ r /\ (is_dir (snd e) = false -> r = []).
Proof.
  intros p [n t] q Hn I. simpl in *.
  destruct (checked_form _ _ _ I) as (r & Er & Hf & Hd).
  unfold key. simpl. destruct (is_dir t) eqn:D.
  - destruct (Hd eq_refl (pjoin_nonempty p n Hn)) as (r' & Er'). subst r.
    exists r'. split; try discriminate. rewrite Er, pjoin_base. rewrite <- !app_assoc. reflexivity.
  - exists []. rewrite (Hf eq_refl) in Er. rewrite Er, pjoin_base, !app_nil_r. auto.
Qed.

Lemma SS_app : forall (A : Type) (R : A -> A -> Prop) a b,
  StronglySorted R a -> StronglySorted R b -> (forall x y, In x a -> In y b -> R x y) -> StronglySorted R (a ++ b).
Proof.
  induction a; simpl; intros; auto.
  inversion H; subst. constructor.
  - apply IHa; auto.
  - apply Forall_forall. intros y Iy. apply in_app_or in Iy. destruct Iy.
    + rewrite Forall_forall in H5. auto.
    + apply H1; auto.
Qed.

Lemma key_ext_lt : forall e1 e2 r1 r2,
  key_lt e1 e2 -> ~ In SLASH (fst e2) -> (is_dir (snd e1) = false -> r1 = []) ->
  bytes_ltb (key e1 ++ r1) (key e2 ++ r2) = true.
Proof.
  intros e1 e2 r1 r2 L NS Hr. unfold key_lt in L.
  destruct (bytes_ltb_cases _ _ L) as [(c & x & y & ta & tb & E1 & E2 & Lt)|(y & tb & E2)].
  - rewrite E1, E2, <- !app_assoc. simpl. apply bytes_ltb_diff. auto.
  - destruct (is_dir (snd e1)) eqn:D1.
    + exfalso. apply NS. unfold key in E2. rewrite D1 in E2.
      destruct (is_dir (snd e2)).
      * destruct (exists_last (l := y :: tb)) as (w & z & Ew); [discriminate|]. rewrite Ew in E2.
        rewrite <- app_assoc in E2. simpl in E2.
        replace (fst e1 ++ SLASH :: w ++ [z]) with ((fst e1 ++ SLASH :: w) ++ [z]) in E2
          by (rewrite <- app_assoc; reflexivity).
        apply app_inj_tail in E2. destruct E2 as [E2 _]. rewrite E2. apply in_or_app. right. simpl. auto.
      * rewrite E2. rewrite <- app_assoc. apply in_or_app. right. simpl. auto.
    + rewrite (Hr eq_refl), app_nil_r, E2, <- app_assoc. simpl. apply bytes_ltb_prefix.
Qed.

Lemma checked_entries_sorted : forall l p,
  Forall (fun e => forall P, P <> [] -> forall p' n', tree_all node_srt p' n' (snd e) ->
                   StronglySorted bytes_lt (checked P (snd e))) l ->
  entries_all node_srt p l -> StronglySorted key_lt l ->
  StronglySorted bytes_lt (checked_entries p l).
Proof.
  induction l as [|e tl IH]; intros p F A S; simpl.
  - constructor.
  - inversion F; subst. inversion S; subst. destruct A as [Ae Atl].
    pose proof (tree_all_node _ _ _ _ Ae) as (Hn & Hs & _).
    apply SS_app.
    + eapply H1; eauto. apply pjoin_nonempty; auto.
    + apply IH; auto.
    + intros x y Ix Iy. apply In_checked_entries in Iy. destruct Iy as (e2 & Ie2 & Iy).
      pose proof (entries_all_In _ _ _ _ Atl Ie2) as A2. apply tree_all_node in A2. destruct A2 as (Hn2 & Hs2 & _).
      destruct (checked_key_form _ _ _ Hn Ix) as (r1 & Ex & Hr1).
      destruct (checked_key_form _ _ _ Hn2 Iy) as (r2 & Ey & _).
      unfold bytes_lt. rewrite Ex, Ey, bytes_ltb_app_l.
      apply key_ext_lt; auto. rewrite Forall_forall in H4. auto.
Qed.

(* node_srt does not look at the path *)
Lemma srt_path_indep : forall t p1 p2 n, tree_all node_srt p1 n t -> tree_all node_srt p2 n t.
Proof.
  induction t using tree_ind2; intros p1 p2 n T; try (simpl in *; tauto).
  apply tree_all_dir in T. destruct T as [T1 T2]. apply tree_all_dir. split; auto.
  apply entries_all_Forall. apply Forall_forall. intros x Ix.
  rewrite Forall_forall in H. apply (H x Ix (pjoin p1 (fst x))). exact (entries_all_In _ _ _ _ T2 Ix).
Qed.

Lemma checked_sorted : forall t P, P <> [] -> forall p n, tree_all node_srt p n t ->
  StronglySorted bytes_lt (checked P t).
Proof.
  induction t using tree_ind2; intros P HP p n A; try (simpl; repeat constructor; fail).
  rewrite checked_dir. apply tree_all_dir in A. destruct A as [(_ & _ & S) A].
  eapply checked_entries_sorted; eauto.
  apply entries_all_Forall. apply Forall_forall. intros e Ie.
  apply (srt_path_indep _ (pjoin p (fst e))). exact (entries_all_In _ _ _ _ A Ie).
Qed.

Theorem dfs_order_sorted_proof : forall ign es, listing es ->
  StronglySorted bytes_lt (checked_entries [] (norm_entries ign es)).
Proof.
  intros. destruct (norm_entries_srt ign es H) as [A S].
  apply checked_entries_sorted; auto.
  apply Forall_forall. intros e _ P HP p' n' T. eapply checked_sorted; eauto.
Qed.

(* [checked] really is the sequence of names that the walk hands to the index *)

Lemma walk_calls_entries : forall H l,
  Forall (fun e => forall p l0, snd (walk (log_chk H) (log_hdir H) p (snd e) l0) = l0 ++ checked p (snd e)) l ->
  forall p l0, snd (walk_entries (log_chk H) (log_hdir H) p l l0) = l0 ++ checked_entries p l.
Proof.
  induction 1 as [|x tl Hx HF IH]; intros p l0; simpl.
  - rewrite app_nil_r. auto.
  - specialize (Hx (pjoin p (fst x)) l0).
    destruct (walk (log_chk H) (log_hdir H) (pjoin p (fst x)) (snd x) l0) as [d s1]. simpl in Hx. subst s1.
    specialize (IH p (l0 ++ checked (pjoin p (fst x)) (snd x))).
    destruct (walk_entries (log_chk H) (log_hdir H) p tl (l0 ++ checked (pjoin p (fst x)) (snd x))) as [r s2].
    simpl in *. rewrite IH, app_assoc. reflexivity.
Qed.

Lemma walk_calls_checked_tree : forall H t p l,
  snd (walk (log_chk H) (log_hdir H) p t l) = l ++ checked p t.
Proof.
  intros H t. induction t using tree_ind2; intros; try (simpl; rewrite ?app_nil_r; reflexivity).
  rewrite walk_dir, checked_dir.
  pose proof (walk_calls_entries H es H0 p l) as E.
  destruct (walk_entries (log_chk H) (log_hdir H) p es l). simpl in *. auto.
Qed.

Theorem walk_calls_checked_proof : forall H ign es,
  check_sequence H ign es = checked_entries [] (norm_entries ign es).
Proof.
  intros. unfold check_sequence, walk_root.
  pose proof (walk_calls_entries H (norm_entries ign es)) as E.
  specialize (E ltac:(apply Forall_forall; intros; apply walk_calls_checked_tree) [] []).
  destruct (walk_entries (log_chk H) (log_hdir H) [] (norm_entries ign es) []). simpl in *. auto.
Qed.

Theorem check_sequence_sorted_proof : forall H ign es, listing es ->
  StronglySorted bytes_lt (check_sequence H ign es).
Proof. intros. rewrite walk_calls_checked_proof. apply dfs_order_sorted_proof. auto. Qed.

(* ================================================================== the cache is transparent *)

Section Transp.
  Variable H : list N -> list N.
  Variable content_of : list N -> statkey -> list N.
  Let ROK := rec_ok H content_of.

  Definition cur_ok (r : rec) : Prop := r = rec0 \/ ROK r.
  Definition out_ok (o : option (N * list rec)) : Prop :=
    match o with None => True | Some (_, es) => Forall ROK es end.
  Definition st_inv (s : ist) : Prop :=
    cur_ok (i_cur s) /\ Forall ROK (map snd (i_rest s)) /\ out_ok (i_out s).

  Lemma advance_inv : forall name rest cur off,
    cur_ok cur -> Forall ROK (map snd rest) ->
    cur_ok (fst (fst (advance name cur off rest))) /\ Forall ROK (map snd (snd (advance name cur off rest))).
  Proof.
    induction rest as [|[o r] tl IH]; intros cur off Hc Hr; simpl.
    - auto.
    - simpl in Hr. inversion Hr; subst.
      destruct (bytes_ltb (r_name cur) name).
      + apply IH; auto. right. auto.
      + simpl. auto.
  Qed.

  Lemma rec_matches_spec : forall e name st, rec_matches e name st = true ->
    r_name e = name /\ rkey e = skey st.
  Proof.
    unfold rec_matches, rkey, skey. intros.
    repeat (apply andb_true_iff in H0; destruct H0 as [H0 ?]).
    apply bytes_eqb_eq in H0.
    repeat match goal with E : (_ =? _) = true |- _ => apply N.eqb_eq in E end.
    split; congruence.
  Qed.

  Lemma check_ok : forall name st blob s,
    st_inv s -> name <> [] -> blob = content_of name (skey st) ->
    snd (fst (check_full H name st blob s)) = H blob /\ st_inv (snd (check_full H name st blob s)).
  Proof.
    intros name st blob s (Hc & Hr & Ho) Hn Hb. unfold check_full.
    pose proof (advance_inv name (i_rest s) (i_cur s) (i_posold s) Hc Hr) as [Ac Ar].
    destruct (advance name (i_cur s) (i_posold s) (i_rest s)) as [[cur off] rest]. simpl in Ac, Ar.
    assert (D : (if rec_matches cur name st then r_digest cur else H blob) = H blob).
    { destruct (rec_matches cur name st) eqn:M; auto.
      apply rec_matches_spec in M. destruct M as [Mn Mk].
      destruct Ac as [Ac|Ac].
      - subst cur. simpl in Mn. congruence.
      - unfold ROK, rec_ok in Ac. rewrite Ac, Mn, Mk, Hb. reflexivity. }
    simpl. split; auto.
    split; [|split]; simpl; auto.
    assert (N : ROK (new_rec name st (if rec_matches cur name st then r_digest cur else H blob))).
    { rewrite D. unfold ROK, rec_ok, new_rec, rkey. simpl. rewrite Hb. reflexivity. }
    destruct (i_mism s || negb (rec_matches cur name st)); auto.
    destruct (i_out s) as [[cut es]|]; simpl in *.
    - apply Forall_app. auto.
    - auto.
  Qed.

  Lemma index_chk_ok : forall name st blob s,
    st_inv s -> name <> [] -> blob = content_of name (skey st) ->
    fst (index_chk H name st blob s) = H blob /\ st_inv (snd (index_chk H name st blob s)).
  Proof.
    intros. unfold index_chk. pose proof (check_ok name st blob s H0 H1 H2).
    destruct (check_full H name st blob s) as [[hit d] s']. simpl in *. auto.
  Qed.

  Definition walk_ok (t : tree) : Prop :=
    forall p n s, st_inv s -> p <> [] ->
      tree_all (node_consistent content_of) p n t -> tree_all node_named p n t ->
      fst (walk (index_chk H) (index_hdir H) p t s) = dig H t /\
      st_inv (snd (walk (index_chk H) (index_hdir H) p t s)).

  Lemma walk_entries_ok : forall l, Forall (fun e => walk_ok (snd e)) l ->
    forall p s, st_inv s ->
      entries_all (node_consistent content_of) p l -> entries_all node_named p l ->
      fst (walk_entries (index_chk H) (index_hdir H) p l s) = blob_of H l /\
      st_inv (snd (walk_entries (index_chk H) (index_hdir H) p l s)).
  Proof.
    induction 1 as [|e tl He HF IH]; intros p s Hs Hc Hn; simpl.
    - auto.
    - destruct Hc as [Hc Hcr]. destruct Hn as [Hn Hnr].
      assert (pjoin p (fst e) <> []).
      { apply pjoin_nonempty. apply tree_all_node in Hn. exact Hn. }
      destruct (He (pjoin p (fst e)) (fst e) s Hs H0 Hc Hn) as [Ed Es].
      destruct (walk (index_chk H) (index_hdir H) (pjoin p (fst e)) (snd e) s) as [d s1]. simpl in Ed, Es.
      destruct (IH p s1 Es Hcr Hnr) as [Eb Es2].
      destruct (walk_entries (index_chk H) (index_hdir H) p tl s1) as [rest s2]. simpl in *.
      subst. auto.
  Qed.

  Lemma walk_all_ok : forall t, walk_ok t.
  Proof.
    induction t using tree_ind2; intros p n s0 Hs Hp Hc Hn; try (simpl; auto; fail).
    - simpl in Hc. destruct Hc as [Hc _]. simpl. apply index_chk_ok; auto.
    - rewrite walk_dir, dig_dir.
      apply tree_all_dir in Hc, Hn. destruct Hc as [_ Hc], Hn as [_ Hn].
      destruct (walk_entries_ok es H0 p s0 Hs Hc Hn) as [Eb Es].
      destruct (walk_entries (index_chk H) (index_hdir H) p es s0) as [blob s1]. simpl in *.
      subst. auto.
    - simpl in Hc. destruct Hc as [Hc _]. simpl. apply index_chk_ok; auto.
  Qed.

  Lemma open_index_inv : forall f, file_ok H content_of f -> st_inv (snd (open_index f)).
  Proof.
    assert (Z : st_inv (mkist rec0 [] 0 true None)).
    { repeat split; simpl; auto. left. auto. }
    intros [b|] Hf; unfold open_index; auto.
    destruct (bytes_eqb (firstn 4 b) SIGNATURE); auto.
    unfold file_ok, file_records in Hf.
    destruct (parse_body 4 (skipn 4 b)) as [|[o r] tl]; simpl in *.
    - repeat split; simpl; auto. left. auto.
    - inversion Hf; subst. repeat split; simpl; auto. right. auto.
  Qed.

  Lemma cached_run_ok : forall ign f es,
    file_ok H content_of f -> consistent content_of es -> named es ->
    forall s0, st_inv s0 ->
      fst (walk_root (index_chk H) (index_hdir H) (norm_entries ign es) s0) = hash_dir H ign es /\
      st_inv (snd (walk_root (index_chk H) (index_hdir H) (norm_entries ign es) s0)).
  Proof.
    intros ign f es Hf Hc Hn s0 Hs. unfold walk_root. rewrite hash_dir_blob.
    assert (Hc' : entries_all (node_consistent content_of) [] (norm_entries ign es)).
    { apply entries_all_norm; auto. }
    assert (Hn' : entries_all node_named [] (norm_entries ign es)).
    { apply entries_all_norm; auto. }
    destruct (walk_entries_ok (norm_entries ign es)) with (p := @nil N) (s := s0) as [Eb Es]; auto.
    { apply Forall_forall. intros. apply walk_all_ok. }
    destruct (walk_entries (index_chk H) (index_hdir H) [] (norm_entries ign es) s0) as [blob s1].
    simpl in *. subst. auto.
  Qed.

  Theorem cache_transparent_proof : forall ign f es,
    file_ok H content_of f -> consistent content_of es -> named es ->
    fst (hash_cached H ign f es) = hash_dir H ign es.
  Proof.
    intros ign f es Hf Hc Hn. unfold hash_cached.
    pose proof (open_index_inv f Hf) as Hs.
    destruct (open_index f) as [inb s0]. simpl in Hs.
    destruct (cached_run_ok ign f es Hf Hc Hn s0 Hs) as [E _].
    destruct (walk_root (index_chk H) (index_hdir H) (norm_entries ign es) s0) as [d s]. simpl in *. auto.
  Qed.
End Transp.

(* ================================================================== byte level of cache.bin *)

Lemma firstn_len_app : forall (A : Type) (a b : list A) n, length a = n -> firstn n (a ++ b) = a.
Proof. intros. subst. rewrite firstn_app, Nat.sub_diag, firstn_all. simpl. apply app_nil_r. Qed.

Lemma skipn_len_app : forall (A : Type) (a b : list A) n, length a = n -> skipn n (a ++ b) = b.
Proof. intros. subst. rewrite skipn_app, Nat.sub_diag, skipn_all. reflexivity. Qed.

Definition rec_packable (r : rec) : Prop :=
  r_ctime r < 18446744073709551616 /\ r_mtime r < 18446744073709551616 /\ r_dev r < 18446744073709551616 /\
  r_ino r < 18446744073709551616 /\ r_mode r < 4294967296 /\ r_size r < 18446744073709551616 /\
  length (r_digest r) = 20%nat /\ N.of_nat (length (r_name r)) < 65536.

Lemma fit20_id : forall d, length d = 20%nat -> fit20 d = d.
Proof. intros. unfold fit20. apply firstn_len_app. auto. Qed.

Lemma fit20_length : forall d, length (fit20 d) = 20%nat.
Proof.
  intros. unfold fit20. rewrite firstn_length, app_length, repeat_length. lia.
Qed.

Lemma pack_entry_length : forall r, length (pack_entry r) = 66%nat.
Proof.
  intros. unfold pack_entry. rewrite !app_length, !le_enc_length, fit20_length. reflexivity.
Qed.

Lemma unpack_fields : forall f1 f2 f3 f4 f5 f6 dg f8,
  length f1 = 8%nat -> length f2 = 8%nat -> length f3 = 8%nat -> length f4 = 8%nat ->
  length f5 = 4%nat -> length f6 = 8%nat -> length dg = 20%nat -> length f8 = 2%nat ->
  unpack_entry (f1 ++ f2 ++ f3 ++ f4 ++ f5 ++ f6 ++ dg ++ f8) =
  (fun nm => mkrec nm (le_dec f1) (le_dec f2) (le_dec f3) (le_dec f4) (le_dec f5) (le_dec f6) dg, le_dec f8).
Proof.
  intros. unfold unpack_entry.
  repeat (rewrite ?(firstn_len_app _ f1), ?(skipn_len_app _ f1),
                  ?(firstn_len_app _ f2), ?(skipn_len_app _ f2),
                  ?(firstn_len_app _ f3), ?(skipn_len_app _ f3),
                  ?(firstn_len_app _ f4), ?(skipn_len_app _ f4),
                  ?(firstn_len_app _ f5), ?(skipn_len_app _ f5),
                  ?(firstn_len_app _ f6), ?(skipn_len_app _ f6),
                  ?(firstn_len_app _ dg), ?(skipn_len_app _ dg) by assumption).
  rewrite firstn_all2 by lia. reflexivity.
Qed.

Lemma unpack_pack : forall r, rec_packable r ->
  unpack_entry (pack_entry r) =
  (fun nm => mkrec nm (r_ctime r) (r_mtime r) (r_dev r) (r_ino r) (r_mode r) (r_size r) (r_digest r),
   N.of_nat (length (r_name r))).
Proof.
  intros r (H1 & H2 & H3 & H4 & H5 & H6 & H7 & H8). unfold pack_entry.
  rewrite unpack_fields; try apply le_enc_length; try apply fit20_length.
  rewrite !le_dec_enc, fit20_id; auto; simpl; lia.
Qed.

Lemma read_entry_ser : forall r rest, rec_packable r ->
  read_entry (ser_rec r ++ rest) = Some (r, 66 + N.of_nat (length (r_name r)), rest).
Proof.
  intros r rest Hp. unfold read_entry, ser_rec, ENTRY_SIZE.
  rewrite <- app_assoc.
  rewrite (firstn_len_app _ (pack_entry r)) by apply pack_entry_length.
  rewrite (skipn_len_app _ (pack_entry r)) by apply pack_entry_length.
  rewrite pack_entry_length. simpl (66 <? 66)%nat. cbv iota.
  rewrite unpack_pack by auto.
  rewrite Nat2N.id.
  rewrite (firstn_len_app _ (r_name r)) by reflexivity.
  rewrite (skipn_len_app _ (r_name r)) by reflexivity.
  destruct r; reflexivity.
Qed.

(* a record that is followed by more bytes is complete; reading it does not depend on what follows *)
Lemma read_entry_complete : forall b r len rest,
  read_entry b = Some (r, len, rest) -> rest <> [] ->
  exists chunk, b = chunk ++ rest /\ N.of_nat (length chunk) = len /\
                forall tail, read_entry (chunk ++ tail) = Some (r, len, tail).
Proof.
  unfold read_entry, ENTRY_SIZE. intros b r len rest E Hr.
  assert (Eb : b = firstn 66 b ++ skipn 66 b) by (symmetry; apply firstn_skipn).
  remember (firstn 66 b) as raw. remember (skipn 66 b) as b66.
  destruct (length raw <? 66)%nat eqn:L; [discriminate|].
  apply Nat.ltb_ge in L.
  assert (L66 : length raw = 66%nat).
  { pose proof (firstn_le_length 66 b). subst raw. lia. }
  destruct (unpack_entry raw) as [mk nl] eqn:U.
  assert (E1 : mk (firstn (N.to_nat nl) b66) = r) by congruence.
  assert (E2 : N.of_nat 66 + nl = len) by congruence.
  assert (E3 : skipn (N.to_nat nl) b66 = rest) by congruence.
  clear E.
  assert (Ln : length (firstn (N.to_nat nl) b66) = N.to_nat nl).
  { rewrite firstn_length. destruct (Nat.le_gt_cases (N.to_nat nl) (length b66)) as [C|C]; [lia|].
    exfalso. apply Hr. rewrite <- E3. apply skipn_all2. lia. }
  exists (raw ++ firstn (N.to_nat nl) b66). split; [|split].
  - rewrite <- app_assoc, <- E3. rewrite (firstn_skipn (N.to_nat nl) b66). auto.
  - rewrite app_length, L66, Ln, Nat2N.inj_add, N2Nat.id. exact E2.
  - intros tail. rewrite <- app_assoc.
    rewrite (firstn_len_app _ raw) by auto.
    rewrite (skipn_len_app _ raw) by auto.
    rewrite L66. simpl (66 <? 66)%nat. cbv iota. rewrite U.
    rewrite (firstn_len_app _ (firstn (N.to_nat nl) b66)) by auto.
    rewrite (skipn_len_app _ (firstn (N.to_nat nl) b66)) by auto.
    rewrite E1, E2. reflexivity.
Qed.

Lemma read_entry_shrink : forall b r len rest,
  read_entry b = Some (r, len, rest) -> (length rest + 66 <= length b)%nat /\ 66 <= len.
Proof.
  unfold read_entry, ENTRY_SIZE. intros b r len rest E.
  destruct (length (firstn 66 b) <? 66)%nat eqn:L; [discriminate|].
  apply Nat.ltb_ge in L. rewrite firstn_length in L.
  destruct (unpack_entry (firstn 66 b)) as [mk nl].
  assert (E2 : N.of_nat 66 + nl = len) by congruence.
  assert (E3 : skipn (N.to_nat nl) (skipn 66 b) = rest) by congruence.
  assert (N.of_nat 66 = 66) by reflexivity.
  subst. rewrite !skipn_length. lia.
Qed.

Lemma read_entry_digest : forall b r len rest,
  read_entry b = Some (r, len, rest) -> length (r_digest r) = 20%nat.
Proof.
  unfold read_entry, ENTRY_SIZE. intros b r len rest E.
  destruct (length (firstn 66 b) <? 66)%nat eqn:L; [discriminate|].
  apply Nat.ltb_ge in L.
  rewrite firstn_length in L.
  unfold unpack_entry in E.
  match type of E with Some (?x, _, _) = _ => assert (E1 : x = r) by congruence end.
  subst r. cbn [r_digest].
  rewrite firstn_length, !skipn_length, firstn_length. lia.
Qed.

Lemma parse_fuel_gen : forall f1 f2 b pos, (length b <= f1)%nat -> (length b <= f2)%nat ->
  parse_entries f1 pos b = parse_entries f2 pos b.
Proof.
  induction f1; destruct f2; intros b pos L1 L2; simpl; auto.
  - destruct b; simpl in *; try lia. reflexivity.
  - destruct b; simpl in *; try lia. reflexivity.
  - destruct (read_entry b) as [[[r len] rest]|] eqn:E; auto.
    apply read_entry_shrink in E. f_equal. apply IHf1; lia.
Qed.

Lemma parse_fuel : forall f b pos, (length b <= f)%nat -> parse_entries f pos b = parse_body pos b.
Proof. intros. unfold parse_body. apply parse_fuel_gen; lia. Qed.

Lemma parse_body_step : forall pos b,
  parse_body pos b = match read_entry b with
                     | None => []
                     | Some (r, len, rest) => (pos, r) :: parse_body (pos + len) rest
                     end.
Proof.
  intros. unfold parse_body at 1. destruct b.
  - reflexivity.
  - cbn [length parse_entries].
    destruct (read_entry (n :: b)) as [[[r len] rest]|] eqn:E; auto.
    f_equal. apply parse_fuel. apply read_entry_shrink in E. simpl in E. lia.
Qed.

Lemma parse_offsets_ge : forall f pos b o r, In (o, r) (parse_entries f pos b) -> pos <= o.
Proof.
  induction f; simpl; intros; try tauto.
  destruct (read_entry b) as [[[r0 len] rest]|] eqn:E; simpl in H; try tauto.
  destruct H.
  - inversion H; subst. lia.
  - apply IHf in H. lia.
Qed.

Lemma parse_digests : forall f pos b, Forall (fun x => length (r_digest (snd x)) = 20%nat) (parse_entries f pos b).
Proof.
  induction f; simpl; intros; auto.
  destruct (read_entry b) as [[[r0 len] rest]|] eqn:E; auto.
  constructor; auto. simpl. eapply read_entry_digest; eauto.
Qed.

Definition before (cut : N) (x : N * rec) : bool := fst x <? cut.

Lemma filter_before_none : forall cut l, (forall o r, In (o, r) l -> cut <= o) -> filter (before cut) l = [].
Proof.
  induction l as [|[o r] l IH]; simpl; intros; auto.
  unfold before at 1. simpl. assert (cut <= o) by (eapply H; eauto).
  destruct (o <? cut) eqn:E. { apply N.ltb_lt in E. lia. }
  apply IH. intros. eapply H; eauto.
Qed.

(* cutting the file at the start of a record and appending something else *)
Lemma parse_cut : forall f body pos cut tail,
  In cut (pos :: map fst (parse_entries f pos body)) ->
  parse_body pos (firstn (N.to_nat (cut - pos)) body ++ tail) =
  filter (before cut) (parse_entries f pos body) ++ parse_body cut tail.
Proof.
  induction f; intros body pos cut tail I.
  - simpl in I. destruct I as [I|[]]. subst. rewrite N.sub_diag. simpl. reflexivity.
  - destruct (N.eq_dec cut pos) as [E|NE].
    + subst. rewrite N.sub_diag.
      rewrite filter_before_none by (intros o r Ho; eapply parse_offsets_ge; eauto). reflexivity.
    + destruct I as [I|I]; [congruence|].
      cbn [parse_entries] in *.
      destruct (read_entry body) as [[[r len] rest]|] eqn:E; [|simpl in I; tauto].
      simpl in I. destruct I as [I|I]; [congruence|].
      assert (Hge : pos + len <= cut).
      { apply in_map_iff in I. destruct I as ([o r'] & Eo & Io). simpl in Eo. subst o.
        eapply parse_offsets_ge; eauto. }
      assert (Hr : rest <> []).
      { intro. subst rest. destruct f; simpl in I; tauto. }
      destruct (read_entry_complete _ _ _ _ E Hr) as (chunk & Eb & Lc & Rd).
      pose proof (read_entry_shrink _ _ _ _ E) as [_ L66].
      assert (F : firstn (N.to_nat (cut - pos)) body = chunk ++ firstn (N.to_nat (cut - (pos + len))) rest).
      { rewrite Eb. rewrite firstn_app.
        rewrite firstn_all2 by lia. f_equal. f_equal. lia. }
      rewrite F, <- app_assoc. rewrite parse_body_step, Rd.
      rewrite (IHf rest (pos + len) cut tail) by (right; auto).
      simpl. unfold before. simpl.
      assert (pos <? cut = true) by (apply N.ltb_lt; lia). rewrite H. reflexivity.
Qed.

Lemma parse_ser : forall es pos, Forall rec_packable es ->
  map snd (parse_body pos (flat_map ser_rec es)) = es.
Proof.
  induction es; intros pos F; cbn [flat_map].
  - reflexivity.
  - inversion F; subst. rewrite parse_body_step, read_entry_ser by auto. cbn [map snd]. f_equal. apply IHes. auto.
Qed.

Lemma SIGNATURE_length : length SIGNATURE = 4%nat.
Proof. reflexivity. Qed.

(* records of the new cache file = kept records of the old one ++ the entries written *)
Lemma new_file_records_in : forall b cut es,
  bytes_eqb (firstn 4 b) SIGNATURE = true ->
  In cut (4 :: map fst (parse_body 4 (skipn 4 b))) ->
  Forall rec_packable es ->
  file_records (firstn (N.to_nat cut) b ++ flat_map ser_rec es) =
  map snd (filter (before cut) (parse_body 4 (skipn 4 b))) ++ es.
Proof.
  intros b cut es Hs Hc Hp. apply bytes_eqb_eq in Hs.
  assert (L4 : length (firstn 4 b) = 4%nat) by (rewrite Hs; apply SIGNATURE_length).
  assert (Hge : 4 <= cut).
  { destruct Hc as [Hc|Hc]; [lia|]. apply in_map_iff in Hc. destruct Hc as ([o r] & Eo & Io). simpl in Eo. subst.
    eapply parse_offsets_ge; eauto. }
  unfold file_records.
  assert (E : skipn 4 (firstn (N.to_nat cut) b ++ flat_map ser_rec es) =
              firstn (N.to_nat (cut - 4)) (skipn 4 b) ++ flat_map ser_rec es).
  { rewrite <- (firstn_skipn 4 b) at 1. rewrite firstn_app, L4.
    rewrite firstn_all2 by (rewrite firstn_length; lia).
    rewrite <- app_assoc. rewrite (skipn_len_app _ (firstn 4 b)) by auto.
    f_equal. f_equal. lia. }
  rewrite E. unfold parse_body at 1 in Hc.
  rewrite (parse_cut (length (skipn 4 b)) (skipn 4 b) 4 cut) by auto.
  rewrite map_app. f_equal. apply parse_ser. auto.
Qed.

Lemma new_file_records_none : forall es, Forall rec_packable es ->
  file_records (SIGNATURE ++ flat_map ser_rec es) = es.
Proof.
  intros. unfold file_records. rewrite (skipn_len_app _ SIGNATURE) by apply SIGNATURE_length.
  apply parse_ser. auto.
Qed.

Arguments SIGNATURE : simpl never.

(* ================================================================== invariants carried by any walk *)

Section WalkInv.
  Context {St : Type}.
  Variable chk : list N -> stat -> list N -> St -> list N * St.
  Variable hdir : list N -> St -> list N * St.
  Variable Inv : St -> Prop.
  Variable Q : list N -> list N -> tree -> Prop.
  Hypothesis Hfile : forall p n st d s, Inv s -> Q p n (File st d) -> Inv (snd (chk p st d s)).
  Hypothesis Hlink : forall p n st d s, Inv s -> Q p n (Link st d) -> Inv (snd (chk p st d s)).
  Hypothesis Hhdir : forall b s, Inv s -> Inv (snd (hdir b s)).

  Lemma walk_entries_inv_gen : forall l,
    Forall (fun e => forall p n s, Inv s -> tree_all Q p n (snd e) -> Inv (snd (walk chk hdir p (snd e) s))) l ->
    forall p s, Inv s -> entries_all Q p l -> Inv (snd (walk_entries chk hdir p l s)).
  Proof.
    induction 1 as [|e tl He HF IH]; intros p s Hs A; simpl; auto.
    destruct A as [A1 A2].
    specialize (He _ _ s Hs A1).
    destruct (walk chk hdir (pjoin p (fst e)) (snd e) s) as [d s1]. simpl in He.
    specialize (IH p s1 He A2).
    destruct (walk_entries chk hdir p tl s1) as [r s2]. simpl in *. auto.
  Qed.

  Lemma walk_inv : forall t p n s, Inv s -> tree_all Q p n t -> Inv (snd (walk chk hdir p t s)).
  Proof.
    induction t using tree_ind2; intros p n s0 Hs A; try (simpl; auto; fail).
    - simpl in A. destruct A as [A _]. simpl. eapply Hfile; eauto.
    - rewrite walk_dir. apply tree_all_dir in A. destruct A as [_ A].
      pose proof (walk_entries_inv_gen es H p s0 Hs A) as W.
      destruct (walk_entries chk hdir p es s0) as [blob s1]. simpl in *. auto.
    - simpl in A. destruct A as [A _]. simpl. eapply Hlink; eauto.
  Qed.

  Lemma walk_entries_inv : forall l p s, Inv s -> entries_all Q p l -> Inv (snd (walk_entries chk hdir p l s)).
  Proof.
    intros. apply walk_entries_inv_gen; auto.
    apply Forall_forall. intros. eapply walk_inv; eauto.
  Qed.
End WalkInv.

(* ================================================================== what is written to cache.bin parses back *)

Lemma advance_spec : forall name rest cur off,
  exists skipped,
    rest = skipped ++ snd (advance name cur off rest) /\
    In (snd (fst (advance name cur off rest)), fst (fst (advance name cur off rest))) ((off, cur) :: skipped).
Proof.
  induction rest as [|[o r] tl IH]; intros cur off; simpl.
  - exists []. simpl. auto.
  - destruct (bytes_ltb (r_name cur) name).
    + destruct (IH r o) as (sk & E & I). exists ((o, r) :: sk). split.
      * simpl. congruence.
      * right. exact I.
    + exists []. simpl. auto.
Qed.

Lemma mask_ino_bound : forall i, mask_ino i < 18446744073709551616.
Proof.
  intros. unfold mask_ino. change 18446744073709551615 with (N.ones 64).
  rewrite N.land_ones. apply N.mod_lt. discriminate.
Qed.

(* the node predicate used below: packable values and a non-empty path *)
Definition node_pk (p n : list N) (t : tree) : Prop := node_packable p n t /\ p <> [].

Lemma tree_all_pk : forall t p n, p <> [] ->
  tree_all node_packable p n t -> tree_all node_named p n t -> tree_all node_pk p n t.
Proof.
  induction t using tree_ind2; intros p n Hp A B; try (simpl in *; unfold node_pk; tauto).
  apply tree_all_dir in A, B. destruct A as [A1 A2], B as [B1 B2]. apply tree_all_dir. split.
  - split; auto.
  - apply entries_all_Forall. apply Forall_forall. intros e Ie.
    rewrite Forall_forall in H. apply H; auto.
    + apply pjoin_nonempty. pose proof (entries_all_In _ _ _ _ B2 Ie) as T. apply tree_all_node in T. exact T.
    + eapply entries_all_In; eauto.
    + eapply entries_all_In; eauto.
Qed.

Lemma entries_all_pk : forall l,
  entries_all node_packable [] l -> entries_all node_named [] l -> entries_all node_pk [] l.
Proof.
  intros. apply entries_all_Forall. apply Forall_forall. intros e Ie.
  pose proof (entries_all_In _ _ _ _ H Ie) as A. pose proof (entries_all_In _ _ _ _ H0 Ie) as B.
  apply tree_all_pk; auto.
  apply pjoin_nonempty. apply tree_all_node in B. exact B.
Qed.

Section Bytes.
  Variable H : list N -> list N.
  Hypothesis Hlen : forall x, length (H x) = 20%nat.
  Variable has_in : bool.
  Variable orig : list (N * rec).
  Hypothesis orig_dig : Forall (fun x => length (r_digest (snd x)) = 20%nat) orig.

  Definition cut_ok (c : N) : Prop := has_in = true -> In c (4 :: map fst orig).

  Definition binv (s : ist) : Prop :=
    (exists pre, orig = pre ++ i_rest s) /\
    cut_ok (i_posold s) /\
    (i_cur s = rec0 \/ length (r_digest (i_cur s)) = 20%nat) /\
    match i_out s with
    | Some (cut, es) => cut_ok cut /\ Forall rec_packable es
    | None => True
    end.

  Lemma check_binv : forall name st blob s,
    binv s -> name <> [] -> N.of_nat (length name) < 65536 ->
    st_ctime st < 18446744073709551616 -> st_mtime st < 18446744073709551616 ->
    st_dev st < 18446744073709551616 -> st_mode st < 4294967296 -> st_size st < 18446744073709551616 ->
    binv (snd (check_full H name st blob s)).
  Proof.
    intros name st blob s ((pre & Epre) & Hpos & Hcur & Hout) Hn Hl R1 R2 R3 R4 R5.
    unfold check_full.
    destruct (advance_spec name (i_rest s) (i_cur s) (i_posold s)) as (sk & Esk & Isk).
    destruct (advance name (i_cur s) (i_posold s) (i_rest s)) as [[cur off] rest]. simpl in Esk, Isk.
    assert (Hoff : cut_ok off).
    { intro Hi. destruct Isk as [Isk|Isk].
      - inversion Isk; subst. auto.
      - right. rewrite Epre, Esk. rewrite !map_app. apply in_or_app. right. apply in_or_app. left.
        apply in_map_iff. exists (off, cur). auto. }
    assert (Hcur' : cur = rec0 \/ length (r_digest cur) = 20%nat).
    { destruct Isk as [Isk|Isk].
      - inversion Isk; subst. auto.
      - right. rewrite Forall_forall in orig_dig. apply (orig_dig (off, cur)).
        rewrite Epre, Esk. apply in_or_app. right. apply in_or_app. left. auto. }
    assert (Hnew : rec_packable (new_rec name st (if rec_matches cur name st then r_digest cur else H blob))).
    { unfold rec_packable, new_rec. simpl. repeat split; auto using mask_ino_bound.
      destruct (rec_matches cur name st) eqn:M; auto.
      apply rec_matches_spec in M. destruct M as [M _].
      destruct Hcur' as [C|C]; auto. subst cur. simpl in M. congruence. }
    simpl. split; [|split; [|split]]; simpl; auto.
    - exists (pre ++ sk). rewrite <- app_assoc. congruence.
    - destruct (i_mism s || negb (rec_matches cur name st)); auto.
      destruct (i_out s) as [[cut es]|].
      + destruct Hout. split; auto. apply Forall_app. auto.
      + split; auto.
  Qed.

  Lemma index_chk_binv : forall p n st d s, binv s ->
    node_pk p n (File st d) \/ node_pk p n (Link st d) ->
    binv (snd (index_chk H p st d s)).
  Proof.
    intros p n st d s B Q.
    assert (R : node_packable p n (File st d) /\ p <> []).
    { destruct Q as [Q|Q]; exact Q. }
    destruct R as ((R1 & R2 & R3 & R4 & R5 & R6) & Hp). simpl in *.
    pose proof (check_binv p st d s B Hp R6 R1 R2 R3 R4 R5) as C.
    unfold index_chk. destruct (check_full H p st d s) as [[hit dg] s']. simpl in *. auto.
  Qed.

  Lemma walk_root_binv : forall l s, binv s -> entries_all node_pk [] l ->
    binv (snd (walk_root (index_chk H) (index_hdir H) l s)).
  Proof.
    intros l s B A. unfold walk_root.
    pose proof (walk_entries_inv (index_chk H) (index_hdir H) binv node_pk) as W.
    assert (W1 : forall p n st d s0, binv s0 -> node_pk p n (File st d) -> binv (snd (index_chk H p st d s0))).
    { intros p n st d s0 B0 Q0. apply (index_chk_binv p n st d s0 B0). left. exact Q0. }
    assert (W2 : forall p n st d s0, binv s0 -> node_pk p n (Link st d) -> binv (snd (index_chk H p st d s0))).
    { intros p n st d s0 B0 Q0. apply (index_chk_binv p n st d s0 B0). right. exact Q0. }
    specialize (W W1 W2 ltac:(intros; simpl; auto) l [] s B A).
    destruct (walk_entries (index_chk H) (index_hdir H) [] l s) as [blob s1]. simpl in *. auto.
  Qed.
End Bytes.

Section Truthful.
  Variable H : list N -> list N.
  Hypothesis Hlen : forall x, length (H x) = 20%nat.
  Variable content_of : list N -> statkey -> list N.

  Theorem cache_file_truthful_proof : forall ign f es,
    file_ok H content_of f -> consistent content_of es -> named es -> packable es ->
    file_ok H content_of (next_file f (snd (hash_cached H ign f es))).
  Proof.
    intros ign f es Hf Hc Hn Hp. unfold hash_cached.
    pose proof (open_index_inv H content_of f Hf) as Hs.
    assert (Apk : entries_all node_pk [] (norm_entries ign es)).
    { apply entries_all_pk; apply entries_all_norm; auto. }
    destruct f as [b|].
    - (* there is a cache file *)
      unfold open_index in *.
      destruct (bytes_eqb (firstn 4 b) SIGNATURE) eqn:Sig.
      + set (orig := parse_body 4 (skipn 4 b)) in *.
        assert (OD : Forall (fun x => length (r_digest (snd x)) = 20%nat) orig) by apply parse_digests.
        assert (B0 : binv true orig (snd (match orig with
                                          | [] => (Some b, mkist rec0 [] 4 false None)
                                          | (o, r) :: tl => (Some b, mkist r tl o false None)
                                          end))).
        { destruct orig as [|[o r] tl] eqn:EO; simpl.
          - repeat split; simpl; auto. exists []. reflexivity. intro. simpl. auto.
          - inversion OD; subst. repeat split; simpl; auto. exists [(o, r)]. reflexivity. intro. simpl. auto. }
        assert (INB : fst (match orig with
                           | [] => (Some b, mkist rec0 [] 4 false None)
                           | (o, r) :: tl => (Some b, mkist r tl o false None)
                           end) = Some b) by (destruct orig as [|[o r] tl]; reflexivity).
        destruct (match orig with
                  | [] => (Some b, mkist rec0 [] 4 false None)
                  | (o, r) :: tl => (Some b, mkist r tl o false None)
                  end) as [inb s0]. simpl in INB, B0, Hs. subst inb.
        destruct (cached_run_ok H content_of ign (Some b) es Hf Hc Hn s0 Hs) as [_ S1].
        pose proof (walk_root_binv H Hlen true orig OD (norm_entries ign es) s0 B0 Apk) as B1.
        destruct (walk_root (index_chk H) (index_hdir H) (norm_entries ign es) s0) as [d s]. simpl in *.
        unfold close_index. destruct S1 as (_ & _ & So). destruct B1 as (_ & _ & _ & Bo).
        destruct (i_out s) as [[cut es']|]; simpl; auto.
        destruct Bo as [Bc Bp]. simpl in So.
        rewrite new_file_records_in; auto.
        apply Forall_app. split; auto.
        unfold file_records in Hf. fold orig in Hf.
        rewrite Forall_forall in *. intros r Ir. apply in_map_iff in Ir. destruct Ir as (x & Ex & Ix).
        apply filter_In in Ix. destruct Ix as [Ix _]. apply Hf. subst r. apply in_map. auto.
      + (* wrong signature: ignored, rewritten from scratch *)
        simpl in Hs.
        destruct (cached_run_ok H content_of ign (Some b) es Hf Hc Hn _ Hs) as [_ S1].
        assert (B0 : binv false [] (mkist rec0 [] 0 true None)).
        { repeat split; simpl; auto. exists []. reflexivity. intro. discriminate. }
        pose proof (walk_root_binv H Hlen false [] (Forall_nil _) (norm_entries ign es) _ B0 Apk) as B1.
        destruct (walk_root (index_chk H) (index_hdir H) (norm_entries ign es) (mkist rec0 [] 0 true None)) as [d s].
        cbn [fst snd] in *. unfold close_index. destruct S1 as (_ & _ & So). destruct B1 as (_ & _ & _ & Bo).
        destruct (i_out s) as [[cut es']|]; cbn [next_file file_ok]; auto.
        destruct Bo as [_ Bp]. simpl in So. rewrite new_file_records_none; auto.
    - (* no cache file *)
      simpl in Hs.
      destruct (cached_run_ok H content_of ign None es Hf Hc Hn _ Hs) as [_ S1].
      assert (B0 : binv false [] (mkist rec0 [] 0 true None)).
      { repeat split; simpl; auto. exists []. reflexivity. intro. discriminate. }
      pose proof (walk_root_binv H Hlen false [] (Forall_nil _) (norm_entries ign es) _ B0 Apk) as B1.
      simpl.
      destruct (walk_root (index_chk H) (index_hdir H) (norm_entries ign es) (mkist rec0 [] 0 true None)) as [d s].
      cbn [fst snd] in *. unfold close_index. destruct S1 as (_ & _ & So). destruct B1 as (_ & _ & _ & Bo).
      destruct (i_out s) as [[cut es']|]; cbn [next_file file_ok]; auto.
      destruct Bo as [_ Bp]. simpl in So. rewrite new_file_records_none; auto.
  Qed.

  (* every state of a history hashes the same with the cache left by the runs before *)
  Theorem cache_transparent_history_proof : forall ign ts f,
    file_ok H content_of f ->
    Forall (fun es => consistent content_of es /\ named es /\ packable es) ts ->
    run_history H ign f ts = map (hash_dir H ign) ts.
  Proof.
    induction ts as [|es ts IH]; intros f Hf F; simpl; auto.
    inversion F as [|? ? (Hc & Hn & Hp) F']; subst.
    pose proof (cache_transparent_proof H content_of ign f es Hf Hc Hn) as E.
    pose proof (cache_file_truthful_proof ign f es Hf Hc Hn Hp) as T.
    destruct (hash_cached H ign f es) as [d f']. simpl in *. subst d. f_equal. apply IH; auto.
  Qed.
End Truthful.

(* ================================================================== a sorted cache file stays sorted *)

(* the index operations of a walk, as a list *)
Definition item := (list N * stat * list N)%type.

Fixpoint items (p : list N) (t : tree) : list item :=
  match t with
  | File st d => [(p, st, d)]
  | Link st g => [(p, st, g)]
  | Dir _ es =>
      (fix go (l : entries) : list item :=
         match l with [] => [] | e :: tl => items (pjoin p (fst e)) (snd e) ++ go tl end) es
  | _ => []
  end.

Fixpoint items_entries (p : list N) (l : entries) : list item :=
  match l with [] => [] | e :: tl => items (pjoin p (fst e)) (snd e) ++ items_entries p tl end.

Lemma items_dir : forall p s es, items p (Dir s es) = items_entries p es.
Proof. intros. simpl. induction es; simpl; auto. rewrite IHes. reflexivity. Qed.

Definition item_name (it : item) : list N := fst (fst it).

Lemma items_names : forall t p, map item_name (items p t) = checked p t.
Proof.
  induction t using tree_ind2; intros; try reflexivity.
  rewrite items_dir, checked_dir. induction H; simpl; auto.
  rewrite map_app, H, IHForall. reflexivity.
Qed.

Lemma items_entries_names : forall l p, map item_name (items_entries p l) = checked_entries p l.
Proof. induction l; intros; simpl; auto. rewrite map_app, items_names, IHl. reflexivity. Qed.

Definition istep (H : list N -> list N) (s : ist) (it : item) : ist :=
  snd (index_chk H (fst (fst it)) (snd (fst it)) (snd it) s).

Lemma walk_fold_entries : forall H l,
  Forall (fun e => forall p s, snd (walk (index_chk H) (index_hdir H) p (snd e) s) = fold_left (istep H) (items p (snd e)) s) l ->
  forall p s, snd (walk_entries (index_chk H) (index_hdir H) p l s) = fold_left (istep H) (items_entries p l) s.
Proof.
  induction 1 as [|e tl He HF IH]; intros p s; simpl; auto.
  specialize (He (pjoin p (fst e)) s).
  destruct (walk (index_chk H) (index_hdir H) (pjoin p (fst e)) (snd e) s) as [d s1]. simpl in He.
  specialize (IH p s1).
  destruct (walk_entries (index_chk H) (index_hdir H) p tl s1) as [r s2]. simpl in *.
  rewrite fold_left_app, <- He. auto.
Qed.

Lemma walk_fold : forall H t p s,
  snd (walk (index_chk H) (index_hdir H) p t s) = fold_left (istep H) (items p t) s.
Proof.
  intros H t. induction t using tree_ind2; intros; try reflexivity.
  rewrite walk_dir, items_dir.
  pose proof (walk_fold_entries H es H0 p s0) as E.
  destruct (walk_entries (index_chk H) (index_hdir H) p es s0). simpl in *. auto.
Qed.

Lemma walk_root_fold : forall H l s,
  snd (walk_root (index_chk H) (index_hdir H) l s) = fold_left (istep H) (items_entries [] l) s.
Proof.
  intros. unfold walk_root.
  pose proof (walk_fold_entries H l) as E.
  specialize (E ltac:(apply Forall_forall; intros; apply walk_fold) [] s).
  destruct (walk_entries (index_chk H) (index_hdir H) [] l s). simpl in *. auto.
Qed.

Definition rname (x : N * rec) : list N := r_name (snd x).
Definition le_name (a b : list N) : Prop := bytes_lt a b \/ a = b.

Lemma bytes_lt_trans : forall a b c, bytes_lt a b -> bytes_lt b c -> bytes_lt a c.
Proof. unfold bytes_lt. intros. eapply bytes_ltb_trans; eauto. Qed.

Lemma le_lt_name : forall a b c, le_name a b -> bytes_lt b c -> bytes_lt a c.
Proof. intros a b c [L|E] L2. eapply bytes_lt_trans; eauto. subst. auto. Qed.

Lemma SS_snoc : forall l x, StronglySorted bytes_lt l -> Forall (fun y => bytes_lt y x) l ->
  StronglySorted bytes_lt (l ++ [x]).
Proof.
  intros. apply SS_app; auto.
  - repeat constructor.
  - intros a b Ia Ib. destruct Ib as [Ib|[]]. subst. rewrite Forall_forall in H0. auto.
Qed.

Lemma SS_app_inv_l : forall (A : Type) (R : A -> A -> Prop) a b, StronglySorted R (a ++ b) -> StronglySorted R a.
Proof.
  induction a; simpl; intros. constructor.
  inversion H; subst. constructor; eauto.
  rewrite Forall_forall in *. intros. apply H3. apply in_or_app. auto.
Qed.

Lemma SS_map : forall (A B : Type) (f : A -> B) (R : B -> B -> Prop) l,
  StronglySorted (fun a b => R (f a) (f b)) l <-> StronglySorted R (map f l).
Proof.
  induction l; simpl; split; intros; try constructor.
  - inversion H; subst. apply IHl. auto.
  - inversion H; subst. rewrite Forall_forall in *. intros y Iy. apply in_map_iff in Iy. destruct Iy as (z & Ez & Iz). subst. auto.
  - inversion H; subst. apply IHl. auto.
  - inversion H; subst. rewrite Forall_forall in *. intros. apply H3. apply in_map. auto.
Qed.

(* with strictly increasing offsets, "offset < cut" selects exactly the records before the one at cut *)
Lemma filter_before_split : forall pre cut c rest,
  StronglySorted (fun a b : N * rec => fst a < fst b) (pre ++ (cut, c) :: rest) ->
  filter (before cut) (pre ++ (cut, c) :: rest) = pre.
Proof.
  induction pre as [|a pre IH]; simpl; intros cut c rest S.
  - unfold before at 1. simpl. rewrite N.ltb_irrefl.
    inversion S; subst. apply filter_before_none. intros o r I.
    rewrite Forall_forall in H2. specialize (H2 _ I). simpl in H2. lia.
  - inversion S; subst. rewrite IH by auto.
    unfold before. rewrite Forall_forall in H2.
    assert (fst a < cut) by (apply (H2 (cut, c)); apply in_or_app; right; simpl; auto).
    apply N.ltb_lt in H. rewrite H. reflexivity.
Qed.

Lemma advance_pos : forall name rest cur off,
  exists moved,
    (off, cur) :: rest =
      moved ++ (snd (fst (advance name cur off rest)), fst (fst (advance name cur off rest)))
            :: snd (advance name cur off rest) /\
    Forall (fun x => bytes_lt (rname x) name) moved.
Proof.
  induction rest as [|[o r] tl IH]; intros cur off; simpl.
  - exists []. auto.
  - destruct (bytes_ltb (r_name cur) name) eqn:L.
    + destruct (IH r o) as (mv & E & F). exists ((off, cur) :: mv). split.
      * simpl. rewrite <- E. reflexivity.
      * constructor; auto.
    + exists []. auto.
Qed.

Section Sorted.
  Variable H : list N -> list N.
  Variable orig : list (N * rec).
  Hypothesis off_sorted : StronglySorted (fun a b : N * rec => fst a < fst b) orig.
  Hypothesis name_sorted : StronglySorted (fun a b => bytes_lt (rname a) (rname b)) orig.

  Definition pos_ok (s : ist) (pre : list (N * rec)) : Prop :=
    (orig = [] /\ pre = [] /\ i_rest s = []) \/ orig = pre ++ (i_posold s, i_cur s) :: i_rest s.

  Definition out_names (s : ist) : option (list (list N)) :=
    match i_out s with
    | None => None
    | Some (cut, es) => Some (map rname (filter (before cut) orig) ++ map r_name es)
    end.

  Definition out_sorted (s : ist) (n : list N) : Prop :=
    match out_names s with
    | None => True
    | Some names => StronglySorted bytes_lt names /\ Forall (fun y => le_name y n) names
    end.

  Definition K (s : ist) (last : option (list N)) : Prop :=
    exists pre, pos_ok s pre /\
      match last with
      | None => pre = [] /\ i_out s = None
      | Some n => Forall (fun x => bytes_lt (rname x) n) pre /\ out_sorted s n
      end.

  Lemma K_step : forall s last it,
    K s last -> (forall n, last = Some n -> bytes_lt n (item_name it)) ->
    K (istep H s it) (Some (item_name it)).
  Proof.
    intros s last [[name st] blob] (pre & Hpos & Hlast) Hlt. unfold item_name in *. simpl in Hlt.
    unfold istep, index_chk, check_full. simpl fst. simpl snd.
    destruct (advance_pos name (i_rest s) (i_cur s) (i_posold s)) as (mv & Emv & Fmv).
    destruct (advance name (i_cur s) (i_posold s) (i_rest s)) as [[cur off] rest] eqn:EA. simpl in Emv.
    (* the new prefix *)
    assert (Hpre : Forall (fun x => bytes_lt (rname x) name) pre).
    { destruct last as [n|].
      - destruct Hlast as [F _]. eapply Forall_impl; [|apply F]. intros. simpl in H0.
        eapply bytes_lt_trans; eauto.
      - destruct Hlast as [E _]. subst. constructor. }
    assert (Hpos' : (orig = [] /\ pre ++ mv = [] /\ rest = []) \/ orig = (pre ++ mv) ++ (off, cur) :: rest).
    { destruct Hpos as [(O & P & R)|O].
      - left. rewrite R in Emv.
        destruct mv as [|m mv]; simpl in Emv.
        + inversion Emv. subst. rewrite app_nil_r. auto.
        + exfalso. inversion Emv. destruct mv; discriminate.
      - right. rewrite O, Emv, <- app_assoc. reflexivity. }
    assert (Hpre' : Forall (fun x => bytes_lt (rname x) name) (pre ++ mv)) by (apply Forall_app; auto).
    assert (Hkept : forall c, c = off -> filter (before c) orig = pre ++ mv).
    { intros c Ec. subst c. destruct Hpos' as [(O & P & R)|O].
      - rewrite O, P. reflexivity.
      - pose proof off_sorted as OS. rewrite O in OS. rewrite O. apply filter_before_split. exact OS. }
    assert (Hsorted_pre : StronglySorted bytes_lt (map rname (pre ++ mv))).
    { apply (proj1 (SS_map _ _ rname bytes_lt _)). destruct Hpos' as [(O & P & R)|O].
      - rewrite P. constructor.
      - pose proof name_sorted as NS. rewrite O in NS. exact (SS_app_inv_l _ _ _ _ NS). }
    exists (pre ++ mv). split.
    - unfold pos_ok. simpl. exact Hpos'.
    - split; auto.
      unfold out_sorted, out_names. simpl.
      set (dg := if rec_matches cur name st then r_digest cur else H blob).
      destruct (i_mism s || negb (rec_matches cur name st)).
      + destruct (i_out s) as [[cut es]|] eqn:EO.
        * (* append to an existing output *)
          destruct last as [n|]; [|destruct Hlast; congruence].
          destruct Hlast as [_ Hs]. unfold out_sorted, out_names in Hs. rewrite EO in Hs. destruct Hs as [S1 S2].
          rewrite map_app, app_assoc. simpl. split.
          -- apply SS_snoc; auto. eapply Forall_impl; [|apply S2]. intros. simpl in H0.
             eapply le_lt_name; eauto.
          -- apply Forall_app. split.
             ++ eapply Forall_impl; [|apply S2]. intros. simpl in H0. left. eapply le_lt_name; eauto.
             ++ constructor; auto. right. reflexivity.
        * (* first write: the copied prefix is what lies before the current record *)
          rewrite (Hkept off eq_refl). simpl. split.
          -- apply SS_snoc; auto. rewrite Forall_forall in *. intros y Iy. apply in_map_iff in Iy.
             destruct Iy as (x & Ex & Ix). subst. auto.
          -- apply Forall_app. split.
             ++ rewrite Forall_forall in *. intros y Iy. apply in_map_iff in Iy.
                destruct Iy as (x & Ex & Ix). subst. left. auto.
             ++ constructor; auto. right. reflexivity.
      + (* nothing written *)
        destruct (i_out s) as [[cut es]|] eqn:EO; auto.
        destruct last as [n|]; [|destruct Hlast; congruence].
        destruct Hlast as [_ Hs]. unfold out_sorted, out_names in Hs. rewrite EO in Hs. destruct Hs as [S1 S2].
        split; auto. eapply Forall_impl; [|apply S2]. intros. simpl in H0. left. eapply le_lt_name; eauto.
  Qed.

  Lemma K_fold : forall its s last,
    K s last -> StronglySorted bytes_lt (map item_name its) ->
    (forall n, last = Some n -> Forall (bytes_lt n) (map item_name its)) ->
    exists last', K (fold_left (istep H) its s) last'.
  Proof.
    induction its as [|it its IH]; intros s last HK S HL; simpl.
    - eauto.
    - simpl in S. inversion S; subst.
      apply (IH (istep H s it) (Some (item_name it))); auto.
      + eapply K_step; eauto. intros n En. specialize (HL n En). simpl in HL. inversion HL; auto.
      + intros n En. inversion En; subst. auto.
  Qed.
End Sorted.

Lemma parse_offsets_sorted : forall f pos b,
  StronglySorted (fun a b : N * rec => fst a < fst b) (parse_entries f pos b).
Proof.
  induction f; simpl; intros. constructor.
  destruct (read_entry b) as [[[r len] rest]|] eqn:E; [|constructor].
  constructor; auto.
  apply Forall_forall. intros [o r'] I. simpl.
  apply parse_offsets_ge in I. apply read_entry_shrink in E. lia.
Qed.

Definition orig_of (f : option (list N)) : list (N * rec) :=
  match f with
  | Some b => if bytes_eqb (firstn 4 b) SIGNATURE then parse_body 4 (skipn 4 b) else []
  | None => []
  end.

Lemma tree_all_impl : forall (P Q : list N -> list N -> tree -> Prop),
  (forall p n t, P p n t -> Q p n t) -> forall t p n, tree_all P p n t -> tree_all Q p n t.
Proof.
  intros P Q PQ. induction t using tree_ind2; intros p n A; try (simpl in *; intuition; fail).
  apply tree_all_dir in A. destruct A as [A1 A2]. apply tree_all_dir. split; auto.
  apply entries_all_Forall. apply Forall_forall. intros e Ie.
  rewrite Forall_forall in H. apply H; auto. eapply entries_all_In; eauto.
Qed.

Lemma entries_all_impl : forall (P Q : list N -> list N -> tree -> Prop),
  (forall p n t, P p n t -> Q p n t) -> forall l p, entries_all P p l -> entries_all Q p l.
Proof.
  intros P Q PQ l p A. apply entries_all_Forall. apply Forall_forall. intros e Ie.
  eapply tree_all_impl; eauto. eapply entries_all_In; eauto.
Qed.

Lemma listing_named : forall es, listing es -> named es.
Proof.
  intros es [_ A]. unfold named. eapply entries_all_impl; [|apply A].
  intros p n t (Hn & _). exact Hn.
Qed.

Section Shape.
  Variable H : list N -> list N.
  Hypothesis Hlen : forall x, length (H x) = 20%nat.

  (* what the new cache file contains, in terms of the final index state *)
  Lemma hash_cached_shape : forall ign f es, named es -> packable es ->
    match i_out (snd (walk_root (index_chk H) (index_hdir H) (norm_entries ign es) (snd (open_index f)))) with
    | None => snd (hash_cached H ign f es) = None
    | Some (cut, es') =>
        exists b', snd (hash_cached H ign f es) = Some b' /\
                   file_records b' = map snd (filter (before cut) (orig_of f)) ++ es'
    end.
  Proof.
    intros ign f es Hn Hp. unfold hash_cached.
    assert (Apk : entries_all node_pk [] (norm_entries ign es)).
    { apply entries_all_pk; apply entries_all_norm; auto. }
    assert (B00 : binv false [] (mkist rec0 [] 0 true None)).
    { repeat split; simpl; auto. exists []. reflexivity. intro. discriminate. }
    destruct f as [b|]; unfold open_index, orig_of.
    - destruct (bytes_eqb (firstn 4 b) SIGNATURE) eqn:Sig.
      + set (orig := parse_body 4 (skipn 4 b)).
        assert (OD : Forall (fun x => length (r_digest (snd x)) = 20%nat) orig) by apply parse_digests.
        assert (B0 : binv true orig (snd (match orig with
                                          | [] => (Some b, mkist rec0 [] 4 false None)
                                          | (o, r) :: tl => (Some b, mkist r tl o false None)
                                          end))).
        { destruct orig as [|[o r] tl] eqn:EO; simpl.
          - repeat split; simpl; auto. exists []. reflexivity. intro. simpl. auto.
          - inversion OD; subst. repeat split; simpl; auto. exists [(o, r)]. reflexivity. intro. simpl. auto. }
        assert (INB : fst (match orig with
                           | [] => (Some b, mkist rec0 [] 4 false None)
                           | (o, r) :: tl => (Some b, mkist r tl o false None)
                           end) = Some b) by (destruct orig as [|[o r] tl]; reflexivity).
        destruct (match orig with
                  | [] => (Some b, mkist rec0 [] 4 false None)
                  | (o, r) :: tl => (Some b, mkist r tl o false None)
                  end) as [inb s0]. cbn [fst snd] in *. subst inb.
        pose proof (walk_root_binv H Hlen true orig OD (norm_entries ign es) s0 B0 Apk) as B1.
        destruct (walk_root (index_chk H) (index_hdir H) (norm_entries ign es) s0) as [d s]. cbn [fst snd] in *.
        unfold close_index. destruct B1 as (_ & _ & _ & Bo).
        destruct (i_out s) as [[cut es']|]; auto.
        destruct Bo as [Bc Bp]. eexists. split; [reflexivity|].
        apply new_file_records_in; auto.
      + cbn [fst snd].
        pose proof (walk_root_binv H Hlen false [] (Forall_nil _) (norm_entries ign es) _ B00 Apk) as B1.
        destruct (walk_root (index_chk H) (index_hdir H) (norm_entries ign es) (mkist rec0 [] 0 true None)) as [d s].
        cbn [fst snd] in *. unfold close_index. destruct B1 as (_ & _ & _ & Bo).
        destruct (i_out s) as [[cut es']|]; auto.
        destruct Bo as [_ Bp]. eexists. split; [reflexivity|]. simpl. apply new_file_records_none; auto.
    - cbn [fst snd].
      pose proof (walk_root_binv H Hlen false [] (Forall_nil _) (norm_entries ign es) _ B00 Apk) as B1.
      destruct (walk_root (index_chk H) (index_hdir H) (norm_entries ign es) (mkist rec0 [] 0 true None)) as [d s].
      cbn [fst snd] in *. unfold close_index. destruct B1 as (_ & _ & _ & Bo).
      destruct (i_out s) as [[cut es']|]; auto.
      destruct Bo as [_ Bp]. eexists. split; [reflexivity|]. simpl. apply new_file_records_none; auto.
  Qed.

  Lemma open_index_K : forall f, K (orig_of f) (snd (open_index f)) None.
  Proof.
    intros f. exists []. unfold pos_ok, orig_of, open_index.
    destruct f as [b|]; [destruct (bytes_eqb (firstn 4 b) SIGNATURE);
                         [destruct (parse_body 4 (skipn 4 b)) as [|[o r] tl]|]|];
      cbn [fst snd i_rest i_posold i_cur i_out app]; auto.
  Qed.

  Theorem index_sorted_preserved_proof : forall ign f es,
    listing es -> packable es -> file_sorted f ->
    file_sorted (next_file f (snd (hash_cached H ign f es))).
  Proof.
    intros ign f es Hl Hp Hs.
    pose proof (listing_named es Hl) as Hn.
    pose proof (hash_cached_shape ign f es Hn Hp) as Sh.
    rewrite walk_root_fold in Sh.
    (* the fold keeps the output sorted *)
    assert (OS : StronglySorted (fun a b : N * rec => fst a < fst b) (orig_of f)).
    { unfold orig_of. destruct f as [b|]; [|constructor].
      destruct (bytes_eqb (firstn 4 b) SIGNATURE); [|constructor]. apply parse_offsets_sorted. }
    assert (NS : StronglySorted (fun a b => bytes_lt (rname a) (rname b)) (orig_of f)).
    { unfold orig_of. destruct f as [b|]; [|constructor].
      destruct (bytes_eqb (firstn 4 b) SIGNATURE); [|constructor].
      unfold file_sorted, names_in_file, file_records in Hs. rewrite map_map in Hs.
      apply (proj2 (SS_map _ _ rname bytes_lt _)). exact Hs. }
    destruct (K_fold H (orig_of f) OS NS (items_entries [] (norm_entries ign es)) (snd (open_index f)) None
                (open_index_K f)) as (last' & pre & _ & HK).
    { rewrite items_entries_names. apply dfs_order_sorted_proof. auto. }
    { intros n En. discriminate. }
    set (s := fold_left (istep H) (items_entries [] (norm_entries ign es)) (snd (open_index f))) in *.
    destruct (i_out s) as [[cut es']|] eqn:EO.
    - destruct Sh as (b' & Eb & Er). rewrite Eb. cbn [next_file]. unfold file_sorted, names_in_file. rewrite Er.
      destruct last' as [n|]; [|destruct HK; congruence].
      destruct HK as [_ HK]. unfold out_sorted, out_names in HK. rewrite EO in HK. destruct HK as [S _].
      rewrite map_app, map_map. exact S.
    - rewrite Sh. cbn [next_file]. exact Hs.
  Qed.
End Shape.
