(* C11 — proofs about the model of DirHasher / FileIndex (Model.v).
   Sections: bytes order and little-endian packing; induction over trees;
   the uncached walk is [dig]; sorting; injectivity up to collisions;
   normalisation preserves the side conditions; order of index look-ups;
   transparency of the cache; byte level of cache.bin; histories. *)
From Coq Require Import List NArith Bool Arith Lia Permutation Sorted.
Require Import BobV.Gen.ConstsC11 BobV.C11.Model.
Import ListNotations.
Open Scope N_scope.

(* ================================================================== bytes *)

Lemma bytes_eqb_refl : forall a, bytes_eqb a a = true.
Proof. induction a; simpl; auto. rewrite N.eqb_refl. auto. Qed.

Lemma bytes_eqb_eq : forall a b, bytes_eqb a b = true <-> a = b.
Proof.
  induction a; destruct b; simpl; split; intros; try congruence; auto.
  - apply andb_true_iff in H as [H1 H2]. apply N.eqb_eq in H1. apply IHa in H2. congruence.
  - inversion H; subst. rewrite N.eqb_refl. simpl. apply IHa. reflexivity.
Qed.

Lemma bytes_mem_In : forall x l, bytes_mem x l = true <-> In x l.
Proof.
  induction l; simpl; split; intros; try congruence; try tauto.
  - apply orb_true_iff in H as [H|H].
    + apply bytes_eqb_eq in H. auto.
    + right. apply IHl. auto.
  - apply orb_true_iff. destruct H.
    + left. subst. apply bytes_eqb_refl.
    + right. apply IHl. auto.
Qed.

Lemma bytes_ltb_irrefl : forall a, bytes_ltb a a = false.
Proof. induction a; simpl; auto. rewrite N.ltb_irrefl. auto. Qed.

Lemma bytes_ltb_trans : forall a b c, bytes_ltb a b = true -> bytes_ltb b c = true -> bytes_ltb a c = true.
Proof.
  induction a; destruct b, c; simpl; intros; try congruence; auto.
  destruct (a <? n) eqn:E1.
  - destruct (n <? n0) eqn:E2.
    + apply N.ltb_lt in E1, E2. assert (a <? n0 = true) by (apply N.ltb_lt; lia). rewrite H1. auto.
    + destruct (n0 <? n) eqn:E3; try congruence.
      apply N.ltb_lt in E1. apply N.ltb_ge in E2, E3. assert (n = n0) by lia. subst.
      assert (a <? n0 = true) by (apply N.ltb_lt; lia). rewrite H1. auto.
  - destruct (n <? a) eqn:E2; try congruence.
    apply N.ltb_ge in E1, E2. assert (a = n) by lia. subst.
    destruct (n <? n0) eqn:E3; auto.
    destruct (n0 <? n) eqn:E4; try congruence.
    eapply IHa; eauto.
Qed.

Lemma bytes_ltb_total : forall a b, bytes_ltb a b = true \/ a = b \/ bytes_ltb b a = true.
Proof.
  induction a; destruct b; simpl; auto.
  destruct (a <? n) eqn:E1; auto.
  destruct (n <? a) eqn:E2; auto.
  apply N.ltb_ge in E1, E2. assert (a = n) by lia. subst.
  destruct (IHa b) as [H|[H|H]]; auto. subst; auto.
Qed.

Lemma bytes_ltb_asym : forall a b, bytes_ltb a b = true -> bytes_ltb b a = false.
Proof.
  intros. destruct (bytes_ltb b a) eqn:E; auto.
  pose proof (bytes_ltb_trans _ _ _ H E). rewrite bytes_ltb_irrefl in H0. congruence.
Qed.

Lemma bytes_leb_total : forall a b, bytes_leb a b = true \/ bytes_leb b a = true.
Proof.
  unfold bytes_leb. intros. destruct (bytes_ltb_total a b) as [H|[H|H]].
  - left. rewrite (bytes_ltb_asym _ _ H). auto.
  - subst. rewrite bytes_ltb_irrefl. auto.
  - right. rewrite (bytes_ltb_asym _ _ H). auto.
Qed.

Lemma bytes_leb_trans : forall a b c, bytes_leb a b = true -> bytes_leb b c = true -> bytes_leb a c = true.
Proof.
  unfold bytes_leb. intros a b c H1 H2. apply negb_true_iff in H1, H2. apply negb_true_iff.
  destruct (bytes_ltb c a) eqn:E; auto.
  destruct (bytes_ltb_total b c) as [H|[H|H]]; try congruence.
  pose proof (bytes_ltb_trans _ _ _ H E). congruence.
Qed.

Lemma bytes_leb_neq_ltb : forall a b, bytes_leb a b = true -> a <> b -> bytes_ltb a b = true.
Proof.
  unfold bytes_leb. intros a b H Hn. apply negb_true_iff in H.
  destruct (bytes_ltb_total a b) as [H1|[H1|H1]]; congruence.
Qed.

Lemma bytes_ltb_leb : forall a b, bytes_ltb a b = true -> bytes_leb a b = true.
Proof. unfold bytes_leb. intros. rewrite (bytes_ltb_asym _ _ H). auto. Qed.

Lemma bytes_ltb_app_l : forall p a b, bytes_ltb (p ++ a) (p ++ b) = bytes_ltb a b.
Proof. induction p; simpl; auto. intros. rewrite N.ltb_irrefl. auto. Qed.

(* a < b: either they differ at a first position, or a is a proper prefix of b *)
Lemma bytes_ltb_cases : forall a b, bytes_ltb a b = true ->
  (exists c x y ta tb, a = c ++ x :: ta /\ b = c ++ y :: tb /\ x < y) \/
  (exists y tb, b = a ++ y :: tb).
Proof.
  induction a; destruct b; simpl; intros; try congruence.
  - right. exists n, b. reflexivity.
  - destruct (a <? n) eqn:E1.
    + left. exists [], a, n, a0, b. apply N.ltb_lt in E1. auto.
    + destruct (n <? a) eqn:E2; try congruence.
      apply N.ltb_ge in E1, E2. assert (a = n) by lia. subst.
      destruct (IHa _ H) as [(c & x & y & ta & tb & Ha & Hb & Hxy)|(y & tb & Hb)].
      * left. exists (n :: c), x, y, ta, tb. subst. auto.
      * right. exists y, tb. subst. auto.
Qed.

Lemma bytes_ltb_diff : forall c x y ta tb, x < y -> bytes_ltb (c ++ x :: ta) (c ++ y :: tb) = true.
Proof.
  intros. rewrite bytes_ltb_app_l. simpl. apply N.ltb_lt in H. rewrite H. auto.
Qed.

Lemma bytes_ltb_prefix : forall a y tb, bytes_ltb a (a ++ y :: tb) = true.
Proof. induction a; simpl; auto. intros. rewrite N.ltb_irrefl. auto. Qed.

(* ================================================================== little endian *)

Lemma le_enc_length : forall w n, length (le_enc w n) = w.
Proof. induction w; simpl; auto. Qed.

Lemma le_dec_enc : forall w n, n < 256 ^ N.of_nat w -> le_dec (le_enc w n) = n.
Proof.
  induction w; intros.
  - simpl in *. lia.
  - cbn [le_enc le_dec]. rewrite IHw.
    + pose proof (N.div_mod n 256). lia.
    + rewrite Nat2N.inj_succ, N.pow_succ_r' in H.
      apply N.div_lt_upper_bound; lia.
Qed.

Lemma le_enc_inj : forall w a b, a < 256 ^ N.of_nat w -> b < 256 ^ N.of_nat w -> le_enc w a = le_enc w b -> a = b.
Proof. intros. rewrite <- (le_dec_enc w a), <- (le_dec_enc w b); auto. congruence. Qed.

Lemma le_enc_bytes : forall w n x, In x (le_enc w n) -> x < 256.
Proof.
  induction w; simpl; intros; try tauto. destruct H.
  - subst. apply N.mod_lt. lia.
  - eauto.
Qed.

Lemma le_dec_bound : forall l, (forall x, In x l -> x < 256) -> le_dec l < 256 ^ N.of_nat (length l).
Proof.
  induction l; intros.
  - simpl. lia.
  - cbn [length le_dec]. rewrite Nat2N.inj_succ, N.pow_succ_r'.
    assert (a < 256) by (apply H; simpl; auto).
    assert (le_dec l < 256 ^ N.of_nat (length l)) by (apply IHl; intros; apply H; simpl; auto).
    nia.
Qed.

(* the four bytes of a 16 bit mode *)
Lemma le_enc4_mode : forall m, m < 65536 -> le_enc 4 m = [m mod 256; m / 256; 0; 0].
Proof.
  intros. cbn [le_enc].
  assert (m / 256 < 256) by (apply N.div_lt_upper_bound; lia).
  rewrite (N.mod_small (m / 256) 256) by lia.
  rewrite (N.div_small (m / 256) 256) by lia.
  reflexivity.
Qed.

Arguments pack_mode : simpl never.
Arguments key : simpl never.
Arguments le_enc : simpl never.

(* ================================================================== induction over trees *)

Section TreeInd.
  Variable P : tree -> Prop.
  Hypothesis HFile : forall s d, P (File s d).
  Hypothesis HDir : forall s es, Forall (fun e => P (snd e)) es -> P (Dir s es).
  Hypothesis HLink : forall s g, P (Link s g).
  Hypothesis HDev : forall s r, P (Dev s r).
  Hypothesis HFifo : forall s, P (Fifo s).
  Hypothesis HOther : forall s, P (Other s).

  Fixpoint tree_ind2 (t : tree) : P t :=
    match t with
    | File s d => HFile s d
    | Dir s es =>
        HDir s es ((fix go (l : entries) : Forall (fun e => P (snd e)) l :=
                      match l with
                      | [] => Forall_nil _
                      | e :: tl => Forall_cons e (tree_ind2 (snd e)) (go tl)
                      end) es)
    | Link s g => HLink s g
    | Dev s r => HDev s r
    | Fifo s => HFifo s
    | Other s => HOther s
    end.
End TreeInd.

(* ================================================================== unfolding of the nested fixpoints *)

Lemma dig_dir : forall H s es, dig H (Dir s es) = H (blob_of H es).
Proof. reflexivity. Qed.

Lemma hashed_dir_node : forall H s es, hashed H (Dir s es) = hashed_entries H es ++ [blob_of H es].
Proof. reflexivity. Qed.

Lemma checked_dir : forall p s es, checked p (Dir s es) = checked_entries p es.
Proof. intros. simpl. induction es; simpl; auto. rewrite IHes. reflexivity. Qed.

Lemma walk_dir : forall St (chk : list N -> stat -> list N -> St -> list N * St) hdir p s es st,
  walk chk hdir p (Dir s es) st = let '(blob, s') := walk_entries chk hdir p es st in hdir blob s'.
Proof.
  intros. cbn [walk].
  match goal with |- (let '(_, _) := ?f es st in _) = _ => assert (E : forall l s0, f l s0 = walk_entries chk hdir p l s0) end.
  { induction l; intros; simpl; auto. destruct (walk chk hdir (pjoin p (fst a)) (snd a) s0). rewrite IHl. reflexivity. }
  rewrite E. reflexivity.
Qed.

Lemma tree_all_dir : forall P p n s es,
  tree_all P p n (Dir s es) <-> (P p n (Dir s es) /\ entries_all P p es).
Proof.
  intros. cbn [tree_all].
  match goal with |- (_ /\ ?f es) <-> _ => assert (E : forall l, f l <-> entries_all P p l) end.
  { induction l; simpl; tauto. }
  rewrite E. tauto.
Qed.

Lemma tree_all_node : forall P p n t, tree_all P p n t -> P p n t.
Proof. intros. destruct t; simpl in H; tauto. Qed.

Lemma entries_all_Forall : forall P p l,
  entries_all P p l <-> Forall (fun e => tree_all P (pjoin p (fst e)) (fst e) (snd e)) l.
Proof.
  induction l; simpl; split; intros; auto.
  - destruct H. constructor; auto. apply IHl; auto.
  - inversion H; subst. split; auto. apply IHl; auto.
Qed.

Lemma norm_dir : forall ign s es, norm ign (Dir s es) = Dir s (norm_entries ign es).
Proof. reflexivity. Qed.

Lemma erase_dir : forall s es, erase (Dir s es) = Dir (only_mode s) (erase_entries es).
Proof. reflexivity. Qed.

(* ================================================================== the walk without index is [dig] *)

Lemma walk_null_dig : forall H t p s, walk (null_chk H) (null_hdir H) p t s = (dig H t, s).
Proof.
  intros H t. induction t using tree_ind2; intros; try reflexivity.
  rewrite walk_dir, dig_dir.
  assert (E : forall p s0, walk_entries (null_chk H) (null_hdir H) p es s0 = (blob_of H es, s0)).
  { clear p s0. induction H0; intros; simpl; auto.
    rewrite H0. rewrite IHForall. reflexivity. }
  rewrite E. reflexivity.
Qed.

Lemma walk_entries_null : forall H l p s,
  walk_entries (null_chk H) (null_hdir H) p l s = (blob_of H l, s).
Proof.
  induction l; intros; simpl; auto.
  rewrite walk_null_dig, IHl. reflexivity.
Qed.

Lemma hash_dir_blob : forall H ign es, hash_dir H ign es = H (blob_of H (norm_entries ign es)).
Proof.
  intros. unfold hash_dir, walk_root. rewrite walk_entries_null. reflexivity.
Qed.

(* ================================================================== the hash only sees what [erase] keeps *)

Lemma is_dir_erase : forall t, is_dir (erase t) = is_dir t.
Proof. destruct t; reflexivity. Qed.

Lemma pack_mode_erase : forall t, pack_mode (erase t) = pack_mode t.
Proof. destruct t; reflexivity. Qed.

Lemma key_erase : forall n t, key (n, erase t) = key (n, t).
Proof. intros. unfold key. simpl. rewrite is_dir_erase. reflexivity. Qed.

Lemma dig_erase : forall H t, dig H (erase t) = dig H t.
Proof.
  intros H t. induction t using tree_ind2; try reflexivity.
  rewrite erase_dir, !dig_dir. f_equal.
  induction H0; cbn [blob_of erase_entries map fst snd]; auto.
  fold (erase_entries l). rewrite pack_mode_erase, H0, key_erase, IHForall. destruct x; reflexivity.
Qed.

Lemma blob_of_erase : forall H l, blob_of H (erase_entries l) = blob_of H l.
Proof.
  induction l; cbn [blob_of erase_entries map fst snd]; auto.
  fold (erase_entries l). rewrite pack_mode_erase, dig_erase, key_erase, IHl. destruct a; reflexivity.
Qed.

Lemma hash_dir_canon_proof : forall H ign es1 es2,
  canon ign es1 = canon ign es2 -> hash_dir H ign es1 = hash_dir H ign es2.
Proof.
  intros. rewrite !hash_dir_blob. f_equal.
  rewrite <- (blob_of_erase H (norm_entries ign es1)), <- (blob_of_erase H (norm_entries ign es2)).
  unfold canon in H0. rewrite H0. reflexivity.
Qed.

(* ================================================================== sorting *)

Definition key_le (a b : list N * tree) : Prop := bytes_leb (key a) (key b) = true.
Definition key_lt (a b : list N * tree) : Prop := bytes_ltb (key a) (key b) = true.

Lemma insert_perm : forall x l, Permutation (insert_entry x l) (x :: l).
Proof.
  induction l; simpl; auto.
  destruct (bytes_leb (key x) (key a)); auto.
  eapply perm_trans. apply perm_skip. apply IHl. apply perm_swap.
Qed.

Lemma sort_perm : forall l, Permutation (sort_entries l) l.
Proof.
  induction l; simpl; auto.
  eapply perm_trans. apply insert_perm. auto.
Qed.

Lemma sort_In : forall x l, In x (sort_entries l) <-> In x l.
Proof.
  intros. split; intros.
  - eapply Permutation_in. apply sort_perm. auto.
  - eapply Permutation_in. apply Permutation_sym, sort_perm. auto.
Qed.

Lemma insert_sorted : forall x l, StronglySorted key_le l -> StronglySorted key_le (insert_entry x l).
Proof.
  induction l; intros; simpl.
  - constructor; auto.
  - inversion H; subst.
    destruct (bytes_leb (key x) (key a)) eqn:E.
    + constructor; auto. constructor; auto.
      eapply Forall_impl; [|apply H3]. intros. unfold key_le in *. eapply bytes_leb_trans; eauto.
    + constructor; auto.
      assert (Hax : key_le a x).
      { unfold key_le. destruct (bytes_leb_total (key a) (key x)); auto. congruence. }
      apply Forall_forall. intros y Hy.
      eapply Permutation_in in Hy; [|apply insert_perm].
      destruct Hy; subst; auto.
      rewrite Forall_forall in H3. auto.
Qed.

Lemma sort_sorted : forall l, StronglySorted key_le (sort_entries l).
Proof.
  induction l; simpl.
  - constructor.
  - apply insert_sorted. auto.
Qed.

Lemma sorted_strict : forall l, StronglySorted key_le l -> NoDup (map key l) -> StronglySorted key_lt l.
Proof.
  induction 1; intros; simpl in *.
  - constructor.
  - inversion H1; subst. constructor; auto.
    apply Forall_forall. intros y Hy. rewrite Forall_forall in H0.
    unfold key_lt. apply bytes_leb_neq_ltb. apply H0; auto.
    intro E. apply H4. rewrite E. apply in_map. auto.
Qed.

(* ================================================================== injectivity up to collisions *)

Lemma app_eq_len : forall (A : Type) (a b x y : list A), length a = length b -> a ++ x = b ++ y -> a = b /\ x = y.
Proof.
  induction a; destruct b; simpl; intros; try discriminate; auto.
  inversion H0; subst. destruct (IHa b x y) as [E1 E2]; auto. subst. auto.
Qed.

(* the start of the next entry in a directory blob: a packed 16 bit mode with non-zero type bits *)
Definition modehead (R : list N) : Prop :=
  R = [] \/ exists b0 b1 r, R = b0 :: b1 :: 0 :: 0 :: r /\ b1 <> 0.

Lemma key_split_nil : forall k R1 R2, ~ In 0 k -> k <> [] -> modehead R1 -> modehead R2 -> R1 = k ++ R2 -> False.
Proof.
  intros k R1 R2 Hk Hne H1 H2 E.
  destruct k as [|c k]; [congruence|]. clear Hne.
  destruct H1 as [H1|(b0 & b1 & r & H1 & Hb1)]; subst R1; [discriminate|].
  simpl in E. inversion E; subst. clear E.
  destruct k as [|d k].
  - simpl in H1. destruct H2 as [H2|(c0 & c1 & r' & H2 & Hc1)]; subst R2; [discriminate|].
    inversion H1; subst. congruence.
  - simpl in H1. inversion H1; subst. clear H1.
    destruct k as [|e k].
    + simpl in H3. destruct H2 as [H2|(c0 & c1 & r' & H2 & Hc1)]; subst R2; [discriminate|].
      inversion H3; subst. congruence.
    + simpl in H3. inversion H3; subst. apply Hk. simpl. auto.
Qed.

Lemma key_split : forall k1 k2 R1 R2, ~ In 0 k1 -> ~ In 0 k2 -> modehead R1 -> modehead R2 ->
  k1 ++ R1 = k2 ++ R2 -> k1 = k2 /\ R1 = R2.
Proof.
  induction k1; destruct k2; intros R1 R2 Hk1 Hk2 H1 H2 E.
  - auto.
  - exfalso. simpl in E. eapply (key_split_nil (n :: k2) R1 R2); eauto. discriminate.
  - exfalso. simpl in E. eapply (key_split_nil (a :: k1) R2 R1); eauto. discriminate.
  - simpl in E. inversion E; subst.
    destruct (IHk1 k2 R1 R2) as [E1 E2]; auto.
    + intro. apply Hk1. simpl. auto.
    + intro. apply Hk2. simpl. auto.
    + subst. auto.
Qed.

Definition ctor (t : tree) : nat :=
  match t with File _ _ => 0 | Dir _ _ => 1 | Link _ _ => 2 | Dev _ _ => 3 | Fifo _ => 4 | Other _ => 5 end%nat.

Lemma kind_ok_ctor : forall t1 t2 k, kind_ok t1 k -> kind_ok t2 k -> ctor t1 = ctor t2.
Proof.
  destruct t1, t2; simpl; intros; try reflexivity; exfalso.
  all: try (intuition (try congruence; try lia); fail).
Qed.

Lemma wf_same_ctor : forall t1 t2 p1 n1 p2 n2, node_wf p1 n1 t1 -> node_wf p2 n2 t2 ->
  st_mode (node_stat t1) = st_mode (node_stat t2) -> ctor t1 = ctor t2.
Proof.
  intros t1 t2 p1 n1 p2 n2 (_ & _ & K1 & _) (_ & _ & K2 & _) Em. rewrite Em in K1. eapply kind_ok_ctor; eauto.
Qed.

Section Inj.
  Variable H : list N -> list N.
  Hypothesis Hlen : forall x, length (H x) = 20%nat.

  Lemma dig_length : forall t,
    length (dig H t) = match ctor t with 0 | 1 | 2 => 20 | 3 => 4 | _ => 0 end%nat.
  Proof.
    destruct t; simpl; auto; try apply le_enc_length.
  Qed.

  Lemma pack_mode_length : forall t, length (pack_mode t) = 4%nat.
  Proof. intros. apply le_enc_length. Qed.

  Lemma pack_mode_shape : forall p n t, node_wf p n t ->
    exists b0 b1, pack_mode t = [b0; b1; 0; 0] /\ b1 <> 0.
  Proof.
    intros p n t (Hn & Hm & Hk & _). unfold pack_mode.
    rewrite le_enc4_mode by auto.
    exists (st_mode (node_stat t) mod 256), (st_mode (node_stat t) / 256). split; auto.
    assert (st_mode (node_stat t) / 4096 <> 0).
    { destruct t; simpl in *; intuition lia. }
    intro E. apply H0.
    assert (st_mode (node_stat t) < 256).
    { pose proof (N.div_mod (st_mode (node_stat t)) 256). pose proof (N.mod_lt (st_mode (node_stat t)) 256). lia. }
    apply N.div_small. lia.
  Qed.

  Lemma blob_modehead : forall p l, entries_all node_wf p l -> modehead (blob_of H l).
  Proof.
    destruct l; intros.
    - left. reflexivity.
    - right. simpl in H0. destruct H0 as [H0 _]. apply tree_all_node in H0.
      destruct (pack_mode_shape _ _ _ H0) as (b0 & b1 & E & Hb).
      cbn [blob_of]. rewrite E. simpl. eauto.
  Qed.

  Lemma key_no_nul : forall n t, ~ In 0 n -> ~ In 0 (key (n, t)).
  Proof.
    intros. unfold key. simpl. destruct (is_dir t); auto.
    intro. apply in_app_or in H1. destruct H1; auto. simpl in H1. unfold SLASH in H1. intuition lia.
  Qed.

  Lemma key_inj : forall n1 t1 n2 t2, ctor t1 = ctor t2 -> key (n1, t1) = key (n2, t2) -> n1 = n2.
  Proof.
    intros. unfold key in H1. simpl in H1.
    destruct t1, t2; simpl in *; try discriminate; auto.
    apply app_inv_tail in H1. auto.
  Qed.

  Definition inj_tree (t1 : tree) : Prop :=
    forall t2 p1 n1 p2 n2,
      tree_all node_wf p1 n1 t1 -> tree_all node_wf p2 n2 t2 ->
      st_mode (node_stat t1) = st_mode (node_stat t2) ->
      dig H t1 = dig H t2 ->
      erase t1 = erase t2 \/ collision H (hashed H t1) (hashed H t2).

  Lemma collision_app : forall a1 b1 a2 b2,
    collision H a1 a2 \/ collision H b1 b2 -> collision H (a1 ++ b1) (a2 ++ b2).
  Proof.
    intros. destruct H0 as [(x & y & ? & ? & ? & ?)|(x & y & ? & ? & ? & ?)]; exists x, y;
      repeat split; auto; apply in_or_app; auto.
  Qed.

  Lemma inj_entries : forall l1, Forall (fun e => inj_tree (snd e)) l1 ->
    forall l2 p1 p2, entries_all node_wf p1 l1 -> entries_all node_wf p2 l2 ->
      blob_of H l1 = blob_of H l2 ->
      erase_entries l1 = erase_entries l2 \/ collision H (hashed_entries H l1) (hashed_entries H l2).
  Proof.
    induction 1 as [|[n1 c1] r1 Hc1 Hr1 IH]; intros l2 p1 p2 W1 W2 E.
    - destruct l2 as [|[n2 c2] r2]; auto.
      exfalso. cbn [blob_of] in E.
      pose proof (pack_mode_length (snd (n2, c2))). destruct (pack_mode (snd (n2, c2))); simpl in *; discriminate.
    - destruct l2 as [|[n2 c2] r2].
      { exfalso. cbn [blob_of] in E.
        pose proof (pack_mode_length (snd (n1, c1))). destruct (pack_mode (snd (n1, c1))); simpl in *; discriminate. }
      cbn [entries_all fst snd] in W1, W2. destruct W1 as [W1 W1r], W2 as [W2 W2r].
      cbn [blob_of fst snd] in E.
      apply app_eq_len in E; [|rewrite !pack_mode_length; reflexivity].
      destruct E as [Em E].
      pose proof (tree_all_node _ _ _ _ W1) as N1. pose proof (tree_all_node _ _ _ _ W2) as N2.
      assert (Emode : st_mode (node_stat c1) = st_mode (node_stat c2)).
      { destruct N1 as (_ & M1 & _), N2 as (_ & M2 & _). unfold pack_mode in Em.
        apply le_enc_inj in Em; auto; simpl; lia. }
      pose proof (wf_same_ctor _ _ _ _ _ _ N1 N2 Emode) as Ector.
      apply app_eq_len in E; [|rewrite !dig_length, Ector; reflexivity].
      destruct E as [Ed E].
      apply key_split in E.
      + destruct E as [Ek Er].
        assert (n1 = n2) by (eapply key_inj; eauto). subst n2.
        specialize (Hc1 c2 _ _ _ _ W1 W2 Emode Ed). cbn [snd] in Hc1.
        specialize (IH r2 _ _ W1r W2r Er).
        cbn [hashed_entries snd]. 
        destruct Hc1 as [Hc1|Hc1]; [|right; apply collision_app; auto].
        destruct IH as [IH|IH]; [|right; apply collision_app; auto].
        left. cbn [erase_entries map fst snd]. fold (erase_entries r1). fold (erase_entries r2). congruence.
      + apply key_no_nul. apply N1.
      + apply key_no_nul. apply N2.
      + eapply blob_modehead; eauto.
      + eapply blob_modehead; eauto.
  Qed.

  Lemma inj_all : forall t, inj_tree t.
  Proof.
    induction t using tree_ind2; intros t2 p1 n1 p2 n2 W1 W2 Em Ed;
      pose proof (tree_all_node _ _ _ _ W1) as N1; pose proof (tree_all_node _ _ _ _ W2) as N2;
      pose proof (wf_same_ctor _ _ _ _ _ _ N1 N2 Em) as Ector;
      destruct t2; simpl in Ector; try discriminate; clear Ector.
    - (* File *) simpl in Ed, Em. simpl.
      destruct (list_eq_dec N.eq_dec d data) as [E|E].
      + left. subst. unfold only_mode. rewrite Em. reflexivity.
      + right. exists d, data. simpl. auto.
    - (* Dir *)
      rewrite !dig_dir in Ed. rewrite !erase_dir, !hashed_dir_node. simpl in Em.
      apply tree_all_dir in W1, W2. destruct W1 as [_ W1], W2 as [_ W2].
      destruct (list_eq_dec N.eq_dec (blob_of H es) (blob_of H entries)) as [E|E].
      + destruct (inj_entries es H0 entries _ _ W1 W2 E) as [E2|E2].
        * left. unfold only_mode. rewrite Em, E2. reflexivity.
        * right. apply collision_app. auto.
      + right. exists (blob_of H es), (blob_of H entries).
        repeat split; auto; apply in_or_app; right; simpl; auto.
    - (* Link *) simpl in Ed, Em. simpl.
      destruct (list_eq_dec N.eq_dec g target) as [E|E].
      + left. subst. unfold only_mode. rewrite Em. reflexivity.
      + right. exists g, target. simpl. auto.
    - (* Dev *) simpl in Ed, Em. left. simpl. unfold only_mode. rewrite Em.
      destruct N1 as (_ & _ & _ & R1), N2 as (_ & _ & _ & R2).
      apply le_enc_inj in Ed; simpl; try lia. subst. reflexivity.
    - simpl in Em. left. simpl. unfold only_mode. rewrite Em. reflexivity.
    - simpl in Em. left. simpl. unfold only_mode. rewrite Em. reflexivity.
  Qed.
End Inj.

(* ================================================================== predicates survive normalisation *)

Lemma norm_entries_In : forall ign es x, In x (norm_entries ign es) ->
  exists e, In e es /\ x = (fst e, norm ign (snd e)) /\ keep ign x = true.
Proof.
  unfold norm_entries. intros. apply (proj1 (sort_In _ _)) in H. apply filter_In in H. destruct H as [H K].
  apply in_map_iff in H. destruct H as (e & E & I). exists e. auto.
Qed.

Section NormAll.
  Variable P : list N -> list N -> tree -> Prop.
  Hypothesis Pdir : forall p n s es es', P p n (Dir s es) -> P p n (Dir s es').
  Variable ign : list (list N).

  Lemma tree_all_norm : forall t p n, tree_all P p n t -> tree_all P p n (norm ign t).
  Proof.
    induction t using tree_ind2; intros; auto.
    rewrite norm_dir. apply tree_all_dir in H0. destruct H0 as [H0 H1]. apply tree_all_dir. split.
    - eapply Pdir; eauto.
    - apply entries_all_Forall. apply Forall_forall. intros x Hx.
      apply norm_entries_In in Hx. destruct Hx as (e & Ie & Ex & _). subst x. simpl.
      rewrite Forall_forall in H. apply H; auto.
      apply entries_all_Forall in H1. rewrite Forall_forall in H1. apply H1. auto.
  Qed.

  Lemma entries_all_norm : forall p es, entries_all P p es -> entries_all P p (norm_entries ign es).
  Proof.
    intros. apply entries_all_Forall. apply Forall_forall. intros x Hx.
    apply norm_entries_In in Hx. destruct Hx as (e & Ie & Ex & _). subst x. simpl.
    apply tree_all_norm. apply entries_all_Forall in H. rewrite Forall_forall in H. apply H. auto.
  Qed.
End NormAll.

Lemma wf_norm : forall ign es, wf es -> entries_all node_wf [] (norm_entries ign es).
Proof.
  intros. apply entries_all_norm; auto.
Qed.

Theorem hash_dir_injective_proof : forall H ign es1 es2,
  (forall x, length (H x) = 20%nat) ->
  wf es1 -> wf es2 ->
  hash_dir H ign es1 = hash_dir H ign es2 ->
  canon ign es1 = canon ign es2 \/ collision H (hashed_dir H ign es1) (hashed_dir H ign es2).
Proof.
  intros H ign es1 es2 Hlen W1 W2 E. rewrite !hash_dir_blob in E.
  unfold canon, hashed_dir.
  destruct (list_eq_dec N.eq_dec (blob_of H (norm_entries ign es1)) (blob_of H (norm_entries ign es2))) as [Eb|Eb].
  - destruct (inj_entries H Hlen (norm_entries ign es1)) with (l2 := norm_entries ign es2) (p1 := @nil N) (p2 := @nil N)
      as [E2|E2]; auto using wf_norm.
    + apply Forall_forall. intros. apply inj_all; auto.
    + right. apply collision_app. auto.
  - right. exists (blob_of H (norm_entries ign es1)), (blob_of H (norm_entries ign es2)).
    repeat split; auto; apply in_or_app; right; simpl; auto.
Qed.

(* ================================================================== the order of the directory listing does not matter *)

Lemma sorted_perm_eq : forall l1 l2 : entries,
  StronglySorted key_lt l1 -> StronglySorted key_lt l2 -> Permutation l1 l2 -> l1 = l2.
Proof.
  induction l1 as [|a r1 IH]; intros l2 S1 S2 Pm.
  - apply Permutation_nil in Pm. auto.
  - destruct l2 as [|b r2]. { apply Permutation_sym, Permutation_nil in Pm. discriminate. }
    inversion S1; subst. inversion S2; subst.
    assert (a = b).
    { assert (Ia : In a (b :: r2)) by (eapply Permutation_in; eauto; simpl; auto).
      assert (Ib : In b (a :: r1)) by (eapply Permutation_in; [apply Permutation_sym; eauto|]; simpl; auto).
      destruct Ia as [Ia|Ia]; auto. destruct Ib as [Ib|Ib]; auto.
      rewrite Forall_forall in H2, H4. pose proof (H2 _ Ib) as Lab. pose proof (H4 _ Ia) as Lba.
      unfold key_lt in Lab, Lba. pose proof (bytes_ltb_trans _ _ _ Lab Lba) as Laa.
      rewrite bytes_ltb_irrefl in Laa. discriminate. }
    subst b. f_equal. apply IH; auto. eapply Permutation_cons_inv; eauto.
Qed.

Lemma key_norm : forall ign e, key (fst e, norm ign (snd e)) = key e.
Proof. intros ign [n t]. unfold key. simpl. destruct t; reflexivity. Qed.

Lemma keep_norm : forall ign e, keep ign (fst e, norm ign (snd e)) = keep ign e.
Proof. intros ign [n t]. unfold keep. simpl. destruct t; reflexivity. Qed.

Lemma key_names_NoDup : forall l : entries,
  NoDup (map fst l) -> (forall e, In e l -> ~ In SLASH (fst e)) -> NoDup (map key l).
Proof.
  induction l as [|a l IH]; simpl; intros ND NS. { constructor. }
  inversion ND; subst. constructor.
  - intro I. apply in_map_iff in I. destruct I as (b & Eb & Ib).
    assert (fst a <> fst b) by (intro E; apply H1; rewrite E; apply in_map; auto).
    unfold key in Eb. destruct (is_dir (snd b)), (is_dir (snd a)).
    + apply app_inv_tail in Eb. congruence.
    + apply (NS a); auto. rewrite <- Eb. apply in_or_app. right. simpl. auto.
    + apply (NS b); auto. rewrite Eb. apply in_or_app. right. simpl. auto.
    + congruence.
  - apply IH; auto.
Qed.

Lemma norm_entries_perm : forall ign es1 es2, Permutation es1 es2 ->
  Permutation (norm_entries ign es1) (norm_entries ign es2).
Proof.
  intros. unfold norm_entries.
  eapply perm_trans. apply sort_perm. eapply perm_trans; [|apply Permutation_sym, sort_perm].
  induction H; simpl.
  - constructor.
  - destruct (keep ign (fst x, norm ign (snd x))); auto.
  - destruct (keep ign (fst x, norm ign (snd x))), (keep ign (fst y, norm ign (snd y))); auto. apply perm_swap.
  - eapply perm_trans; eauto.
Qed.

Lemma norm_entries_keys_NoDup : forall ign es,
  NoDup (map fst es) -> (forall e, In e es -> ~ In SLASH (fst e)) -> NoDup (map key (norm_entries ign es)).
Proof.
  intros. apply key_names_NoDup.
  - unfold norm_entries.
    eapply Permutation_NoDup. { apply Permutation_map. apply Permutation_sym. apply sort_perm. }
    clear H0. induction es as [|a es IH]; simpl. { constructor. }
    inversion H; subst.
    destruct (keep ign (fst a, norm ign (snd a))); auto. simpl. constructor; auto.
    intro I. apply H2. apply in_map_iff in I. destruct I as (x & Ex & Ix). apply filter_In in Ix. destruct Ix as [Ix _].
    apply in_map_iff in Ix. destruct Ix as (y & Ey & Iy). subst x. simpl in Ex. rewrite <- Ex. apply in_map. auto.
  - intros e Ie. apply norm_entries_In in Ie. destruct Ie as (x & Ix & Ex & _). subst e. simpl. auto.
Qed.

Lemma norm_entries_sorted : forall ign es,
  NoDup (map fst es) -> (forall e, In e es -> ~ In SLASH (fst e)) -> StronglySorted key_lt (norm_entries ign es).
Proof.
  intros. apply sorted_strict.
  - apply sort_sorted.
  - apply norm_entries_keys_NoDup; auto.
Qed.

(* two listings of the same directory in different orders have the same canonical form *)
Theorem canon_order_irrelevant_proof : forall ign es1 es2,
  NoDup (map fst es1) -> (forall e, In e es1 -> ~ In SLASH (fst e)) ->
  Permutation es1 es2 -> canon ign es1 = canon ign es2.
Proof.
  intros. unfold canon. f_equal. apply sorted_perm_eq.
  - apply norm_entries_sorted; auto.
  - apply norm_entries_sorted.
    + eapply Permutation_NoDup; [|eauto]. apply Permutation_map. auto.
    + intros. apply H0. eapply Permutation_in; [apply Permutation_sym|]; eauto.
  - apply norm_entries_perm. auto.
Qed.

(* ================================================================== the walk visits names in increasing order *)

(* what normalisation guarantees for a listing: names ok, every directory strictly sorted by key *)
Definition node_srt (p n : list N) (t : tree) : Prop :=
  n <> [] /\ ~ In SLASH n /\ match t with Dir _ es => StronglySorted key_lt es | _ => True end.

Lemma entries_all_In : forall P p l e, entries_all P p l -> In e l -> tree_all P (pjoin p (fst e)) (fst e) (snd e).
Proof.
  intros. apply entries_all_Forall in H. rewrite Forall_forall in H. auto.
Qed.

Lemma norm_srt : forall ign t p n, tree_all node_listing p n t -> tree_all node_srt p n (norm ign t).
Proof.
  intros ign t. induction t using tree_ind2; intros p n A;
    try (simpl in *; unfold node_listing, node_srt in *; tauto).
  rewrite norm_dir. apply tree_all_dir in A. destruct A as [(Hn & Hs & ND) A]. apply tree_all_dir. split.
  - split; auto. split; auto.
    apply norm_entries_sorted; auto.
    intros e Ie. pose proof (entries_all_In _ _ _ _ A Ie) as T. apply tree_all_node in T. apply T.
  - apply entries_all_Forall. apply Forall_forall. intros x Hx.
    apply norm_entries_In in Hx. destruct Hx as (e & Ie & Ex & _). subst x. simpl.
    rewrite Forall_forall in H. apply H; auto. eapply entries_all_In; eauto.
Qed.

Lemma norm_entries_srt : forall ign es, listing es ->
  entries_all node_srt [] (norm_entries ign es) /\ StronglySorted key_lt (norm_entries ign es).
Proof.
  intros ign es [ND A]. split.
  - apply entries_all_Forall. apply Forall_forall. intros x Hx.
    apply norm_entries_In in Hx. destruct Hx as (e & Ie & Ex & _). subst x. simpl.
    apply norm_srt. exact (entries_all_In _ _ _ _ A Ie).
  - apply norm_entries_sorted; auto.
    intros e Ie. pose proof (entries_all_In _ _ _ _ A Ie) as T. apply tree_all_node in T. apply T.
Qed.

Lemma In_checked_entries : forall q p l,
  In q (checked_entries p l) <-> exists e, In e l /\ In q (checked (pjoin p (fst e)) (snd e)).
Proof.
  induction l; simpl; split; intros.
  - tauto.
  - destruct H as (e & [] & _).
  - apply in_app_or in H. destruct H.
    + exists a. auto.
    + apply IHl in H. destruct H as (e & I & Q). exists e. auto.
  - destruct H as (e & [E|I] & Q); apply in_or_app.
    + subst. auto.
    + right. apply IHl. eauto.
Qed.

Lemma pjoin_nonempty : forall p n, n <> [] -> pjoin p n <> [].
Proof. intros. unfold pjoin. destruct p; auto. simpl. discriminate. Qed.

(* every checked name extends the path of the entry; below a directory by '/'... *)
Lemma checked_form : forall t P q, In q (checked P t) ->
  exists r, q = P ++ r /\ (is_dir t = false -> r = []) /\ (is_dir t = true -> P <> [] -> exists r', r = SLASH :: r').
Proof.
  induction t using tree_ind2; intros P q I; try (simpl in I; tauto).
  - simpl in I. destruct I as [I|[]]. subst. exists []. rewrite app_nil_r. repeat split; auto. simpl. discriminate.
  - rewrite checked_dir in I. apply In_checked_entries in I. destruct I as (e & Ie & Q).
    rewrite Forall_forall in H. destruct (H e Ie _ _ Q) as (r & Er & _ & _).
    unfold pjoin in Er. destruct P as [|x P].
    + exists q. simpl. repeat split; auto; try discriminate. congruence.
    + exists (SLASH :: fst e ++ r). repeat split; try discriminate.
      * rewrite Er. rewrite <- app_assoc. reflexivity.
      * eauto.
  - simpl in I. destruct I as [I|[]]. subst. exists []. rewrite app_nil_r. repeat split; auto. simpl. discriminate.
Qed.

Definition base (p : list N) : list N := match p with [] => [] | _ => p ++ [SLASH] end.

Lemma pjoin_base : forall p n, pjoin p n = base p ++ n.
Proof. destruct p; simpl; auto. intros. rewrite <- app_assoc. reflexivity. Qed.

(* a checked name below entry e of directory p is  base p ++ key e ++ r  (r empty unless e is a directory) *)
Lemma checked_key_form : forall p e q, fst e <> [] -> In q (checked (pjoin p (fst e)) (snd e)) ->
  exists r, q = base p ++ key e ++ r /\ (is_dir (snd e) = false -> r = []).
Proof.
  intros p [n t] q Hn I. simpl in *.
  destruct (checked_form _ _ _ I) as (r & Er & Hf & Hd).
  unfold key. simpl. destruct (is_dir t) eqn:D.
  - destruct (Hd eq_refl (pjoin_nonempty p n Hn)) as (r' & Er'). subst r.
    exists r'. split; try discriminate. rewrite Er, pjoin_base. rewrite <- !app_assoc. reflexivity.
  - exists []. rewrite (Hf eq_refl) in Er. rewrite Er, pjoin_base, !app_nil_r. auto.
Qed.

Lemma SS_app : forall (A : Type) (R : A -> A -> Prop) a b,
  StronglySorted R a -> StronglySorted R b -> (forall x y, In x a -> In y b -> R x y) -> StronglySorted R (a ++ b).
Proof.
  induction a; simpl; intros; auto.
  inversion H; subst. constructor.
  - apply IHa; auto.
  - apply Forall_forall. intros y Iy. apply in_app_or in Iy. destruct Iy.
    + rewrite Forall_forall in H5. auto.
    + apply H1; auto.
Qed.

Lemma key_ext_lt : forall e1 e2 r1 r2,
  key_lt e1 e2 -> ~ In SLASH (fst e2) -> (is_dir (snd e1) = false -> r1 = []) ->
  bytes_ltb (key e1 ++ r1) (key e2 ++ r2) = true.
Proof.
  intros e1 e2 r1 r2 L NS Hr. unfold key_lt in L.
  destruct (bytes_ltb_cases _ _ L) as [(c & x & y & ta & tb & E1 & E2 & Lt)|(y & tb & E2)].
  - rewrite E1, E2, <- !app_assoc. simpl. apply bytes_ltb_diff. auto.
  - destruct (is_dir (snd e1)) eqn:D1.
    + exfalso. apply NS. unfold key in E2. rewrite D1 in E2.
      destruct (is_dir (snd e2)).
      * destruct (exists_last (l := y :: tb)) as (w & z & Ew); [discriminate|]. rewrite Ew in E2.
        rewrite <- app_assoc in E2. simpl in E2.
        replace (fst e1 ++ SLASH :: w ++ [z]) with ((fst e1 ++ SLASH :: w) ++ [z]) in E2
          by (rewrite <- app_assoc; reflexivity).
        apply app_inj_tail in E2. destruct E2 as [E2 _]. rewrite E2. apply in_or_app. right. simpl. auto.
      * rewrite E2. rewrite <- app_assoc. apply in_or_app. right. simpl. auto.
    + rewrite (Hr eq_refl), app_nil_r, E2, <- app_assoc. simpl. apply bytes_ltb_prefix.
Qed.

Lemma checked_entries_sorted : forall l p,
  Forall (fun e => forall P, P <> [] -> forall p' n', tree_all node_srt p' n' (snd e) ->
                   StronglySorted bytes_lt (checked P (snd e))) l ->
  entries_all node_srt p l -> StronglySorted key_lt l ->
  StronglySorted bytes_lt (checked_entries p l).
Proof.
  induction l as [|e tl IH]; intros p F A S; simpl.
  - constructor.
  - inversion F; subst. inversion S; subst. destruct A as [Ae Atl].
    pose proof (tree_all_node _ _ _ _ Ae) as (Hn & Hs & _).
    apply SS_app.
    + eapply H1; eauto. apply pjoin_nonempty; auto.
    + apply IH; auto.
    + intros x y Ix Iy. apply In_checked_entries in Iy. destruct Iy as (e2 & Ie2 & Iy).
      pose proof (entries_all_In _ _ _ _ Atl Ie2) as A2. apply tree_all_node in A2. destruct A2 as (Hn2 & Hs2 & _).
      destruct (checked_key_form _ _ _ Hn Ix) as (r1 & Ex & Hr1).
      destruct (checked_key_form _ _ _ Hn2 Iy) as (r2 & Ey & _).
      unfold bytes_lt. rewrite Ex, Ey, bytes_ltb_app_l.
      apply key_ext_lt; auto. rewrite Forall_forall in H4. auto.
Qed.

(* node_srt does not look at the path *)
Lemma srt_path_indep : forall t p1 p2 n, tree_all node_srt p1 n t -> tree_all node_srt p2 n t.
Proof.
  induction t using tree_ind2; intros p1 p2 n T; try (simpl in *; tauto).
  apply tree_all_dir in T. destruct T as [T1 T2]. apply tree_all_dir. split; auto.
  apply entries_all_Forall. apply Forall_forall. intros x Ix.
  rewrite Forall_forall in H. apply (H x Ix (pjoin p1 (fst x))). exact (entries_all_In _ _ _ _ T2 Ix).
Qed.

Lemma checked_sorted : forall t P, P <> [] -> forall p n, tree_all node_srt p n t ->
  StronglySorted bytes_lt (checked P t).
Proof.
  induction t using tree_ind2; intros P HP p n A; try (simpl; repeat constructor; fail).
  rewrite checked_dir. apply tree_all_dir in A. destruct A as [(_ & _ & S) A].
  eapply checked_entries_sorted; eauto.
  apply entries_all_Forall. apply Forall_forall. intros e Ie.
  apply (srt_path_indep _ (pjoin p (fst e))). exact (entries_all_In _ _ _ _ A Ie).
Qed.

Theorem dfs_order_sorted_proof : forall ign es, listing es ->
  StronglySorted bytes_lt (checked_entries [] (norm_entries ign es)).
Proof.
  intros. destruct (norm_entries_srt ign es H) as [A S].
  apply checked_entries_sorted; auto.
  apply Forall_forall. intros e _ P HP p' n' T. eapply checked_sorted; eauto.
Qed.

(* [checked] really is the sequence of names that the walk hands to the index *)

Lemma walk_calls_entries : forall H l,
  Forall (fun e => forall p l0, snd (walk (log_chk H) (log_hdir H) p (snd e) l0) = l0 ++ checked p (snd e)) l ->
  forall p l0, snd (walk_entries (log_chk H) (log_hdir H) p l l0) = l0 ++ checked_entries p l.
Proof.
  induction 1 as [|x tl Hx HF IH]; intros p l0; simpl.
  - rewrite app_nil_r. auto.
  - specialize (Hx (pjoin p (fst x)) l0).
    destruct (walk (log_chk H) (log_hdir H) (pjoin p (fst x)) (snd x) l0) as [d s1]. simpl in Hx. subst s1.
    specialize (IH p (l0 ++ checked (pjoin p (fst x)) (snd x))).
    destruct (walk_entries (log_chk H) (log_hdir H) p tl (l0 ++ checked (pjoin p (fst x)) (snd x))) as [r s2].
    simpl in *. rewrite IH, app_assoc. reflexivity.
Qed.

Lemma walk_calls_checked_tree : forall H t p l,
  snd (walk (log_chk H) (log_hdir H) p t l) = l ++ checked p t.
Proof.
  intros H t. induction t using tree_ind2; intros; try (simpl; rewrite ?app_nil_r; reflexivity).
  rewrite walk_dir, checked_dir.
  pose proof (walk_calls_entries H es H0 p l) as E.
  destruct (walk_entries (log_chk H) (log_hdir H) p es l). simpl in *. auto.
Qed.

Theorem walk_calls_checked_proof : forall H ign es,
  check_sequence H ign es = checked_entries [] (norm_entries ign es).
Proof.
  intros. unfold check_sequence, walk_root.
  pose proof (walk_calls_entries H (norm_entries ign es)) as E.
  specialize (E ltac:(apply Forall_forall; intros; apply walk_calls_checked_tree) [] []).
  destruct (walk_entries (log_chk H) (log_hdir H) [] (norm_entries ign es) []). simpl in *. auto.
Qed.

Theorem check_sequence_sorted_proof : forall H ign es, listing es ->
  StronglySorted bytes_lt (check_sequence H ign es).
Proof. intros. rewrite walk_calls_checked_proof. apply dfs_order_sorted_proof. auto. Qed.

(* ================================================================== the cache is transparent *)

Section Transp.
  Variable H : list N -> list N.
  Variable content_of : list N -> statkey -> list N.
  Let ROK := rec_ok H content_of.

  Definition cur_ok (r : rec) : Prop := r = rec0 \/ ROK r.
  Definition out_ok (o : option (N * list rec)) : Prop :=
    match o with None => True | Some (_, es) => Forall ROK es end.
  Definition st_inv (s : ist) : Prop :=
    cur_ok (i_cur s) /\ Forall ROK (map snd (i_rest s)) /\ out_ok (i_out s).

  Lemma advance_inv : forall name rest cur off,
    cur_ok cur -> Forall ROK (map snd rest) ->
    cur_ok (fst (fst (advance name cur off rest))) /\ Forall ROK (map snd (snd (advance name cur off rest))).
  Proof.
    induction rest as [|[o r] tl IH]; intros cur off Hc Hr; simpl.
    - auto.
    - simpl in Hr. inversion Hr; subst.
      destruct (bytes_ltb (r_name cur) name).
      + apply IH; auto. right. auto.
      + simpl. auto.
  Qed.

  Lemma rec_matches_spec : forall e name st, rec_matches e name st = true ->
    r_name e = name /\ rkey e = skey st.
  Proof.
    unfold rec_matches, rkey, skey. intros.
    repeat (apply andb_true_iff in H0; destruct H0 as [H0 ?]).
    apply bytes_eqb_eq in H0.
    repeat match goal with E : (_ =? _) = true |- _ => apply N.eqb_eq in E end.
    split; congruence.
  Qed.

  Lemma check_ok : forall name st blob s,
    st_inv s -> name <> [] -> blob = content_of name (skey st) ->
    snd (fst (check_full H name st blob s)) = H blob /\ st_inv (snd (check_full H name st blob s)).
  Proof.
    intros name st blob s (Hc & Hr & Ho) Hn Hb. unfold check_full.
    pose proof (advance_inv name (i_rest s) (i_cur s) (i_posold s) Hc Hr) as [Ac Ar].
    destruct (advance name (i_cur s) (i_posold s) (i_rest s)) as [[cur off] rest]. simpl in Ac, Ar.
    assert (D : (if rec_matches cur name st then r_digest cur else H blob) = H blob).
    { destruct (rec_matches cur name st) eqn:M; auto.
      apply rec_matches_spec in M. destruct M as [Mn Mk].
      destruct Ac as [Ac|Ac].
      - subst cur. simpl in Mn. congruence.
      - unfold ROK, rec_ok in Ac. rewrite Ac, Mn, Mk, Hb. reflexivity. }
    simpl. split; auto.
    split; [|split]; simpl; auto.
    assert (N : ROK (new_rec name st (if rec_matches cur name st then r_digest cur else H blob))).
    { rewrite D. unfold ROK, rec_ok, new_rec, rkey. simpl. rewrite Hb. reflexivity. }
    destruct (i_mism s || negb (rec_matches cur name st)); auto.
    destruct (i_out s) as [[cut es]|]; simpl in *.
    - apply Forall_app. auto.
    - auto.
  Qed.

  Lemma index_chk_ok : forall name st blob s,
    st_inv s -> name <> [] -> blob = content_of name (skey st) ->
    fst (index_chk H name st blob s) = H blob /\ st_inv (snd (index_chk H name st blob s)).
  Proof.
    intros. unfold index_chk. pose proof (check_ok name st blob s H0 H1 H2).
    destruct (check_full H name st blob s) as [[hit d] s']. simpl in *. auto.
  Qed.

  Definition walk_ok (t : tree) : Prop :=
    forall p n s, st_inv s -> p <> [] ->
      tree_all (node_consistent content_of) p n t -> tree_all node_named p n t ->
      fst (walk (index_chk H) (index_hdir H) p t s) = dig H t /\
      st_inv (snd (walk (index_chk H) (index_hdir H) p t s)).

  Lemma walk_entries_ok : forall l, Forall (fun e => walk_ok (snd e)) l ->
    forall p s, st_inv s ->
      entries_all (node_consistent content_of) p l -> entries_all node_named p l ->
      fst (walk_entries (index_chk H) (index_hdir H) p l s) = blob_of H l /\
      st_inv (snd (walk_entries (index_chk H) (index_hdir H) p l s)).
  Proof.
    induction 1 as [|e tl He HF IH]; intros p s Hs Hc Hn; simpl.
    - auto.
    - destruct Hc as [Hc Hcr]. destruct Hn as [Hn Hnr].
      assert (pjoin p (fst e) <> []).
      { apply pjoin_nonempty. apply tree_all_node in Hn. exact Hn. }
      destruct (He (pjoin p (fst e)) (fst e) s Hs H0 Hc Hn) as [Ed Es].
      destruct (walk (index_chk H) (index_hdir H) (pjoin p (fst e)) (snd e) s) as [d s1]. simpl in Ed, Es.
      destruct (IH p s1 Es Hcr Hnr) as [Eb Es2].
      destruct (walk_entries (index_chk H) (index_hdir H) p tl s1) as [rest s2]. simpl in *.
      subst. auto.
  Qed.

  Lemma walk_all_ok : forall t, walk_ok t.
  Proof.
    induction t using tree_ind2; intros p n s0 Hs Hp Hc Hn; try (simpl; auto; fail).
    - simpl in Hc. destruct Hc as [Hc _]. simpl. apply index_chk_ok; auto.
    - rewrite walk_dir, dig_dir.
      apply tree_all_dir in Hc, Hn. destruct Hc as [_ Hc], Hn as [_ Hn].
      destruct (walk_entries_ok es H0 p s0 Hs Hc Hn) as [Eb Es].
      destruct (walk_entries (index_chk H) (index_hdir H) p es s0) as [blob s1]. simpl in *.
      subst. auto.
    - simpl in Hc. destruct Hc as [Hc _]. simpl. apply index_chk_ok; auto.
  Qed.

  Lemma open_index_inv : forall f, file_ok H content_of f -> st_inv (snd (open_index f)).
  Proof.
    assert (Z : st_inv (mkist rec0 [] 0 true None)).
    { repeat split; simpl; auto. left. auto. }
    intros [b|] Hf; unfold open_index; auto.
    destruct (bytes_eqb (firstn 4 b) SIGNATURE); auto.
    unfold file_ok, file_records in Hf.
    destruct (parse_body 4 (skipn 4 b)) as [|[o r] tl]; simpl in *.
    - repeat split; simpl; auto. left. auto.
    - inversion Hf; subst. repeat split; simpl; auto. right. auto.
  Qed.

  Lemma cached_run_ok : forall ign f es,
    file_ok H content_of f -> consistent content_of es -> named es ->
    forall s0, st_inv s0 ->
      fst (walk_root (index_chk H) (index_hdir H) (norm_entries ign es) s0) = hash_dir H ign es /\
      st_inv (snd (walk_root (index_chk H) (index_hdir H) (norm_entries ign es) s0)).
  Proof.
    intros ign f es Hf Hc Hn s0 Hs. unfold walk_root. rewrite hash_dir_blob.
    assert (Hc' : entries_all (node_consistent content_of) [] (norm_entries ign es)).
    { apply entries_all_norm; auto. }
    assert (Hn' : entries_all node_named [] (norm_entries ign es)).
    { apply entries_all_norm; auto. }
    destruct (walk_entries_ok (norm_entries ign es)) with (p := @nil N) (s := s0) as [Eb Es]; auto.
    { apply Forall_forall. intros. apply walk_all_ok. }
    destruct (walk_entries (index_chk H) (index_hdir H) [] (norm_entries ign es) s0) as [blob s1].
    simpl in *. subst. auto.
  Qed.

  Theorem cache_transparent_proof : forall ign f es,
    file_ok H content_of f -> consistent content_of es -> named es ->
    fst (hash_cached H ign f es) = hash_dir H ign es.
  Proof.
    intros ign f es Hf Hc Hn. unfold hash_cached.
    pose proof (open_index_inv f Hf) as Hs.
    destruct (open_index f) as [inb s0]. simpl in Hs.
    destruct (cached_run_ok ign f es Hf Hc Hn s0 Hs) as [E _].
    destruct (walk_root (index_chk H) (index_hdir H) (norm_entries ign es) s0) as [d s]. simpl in *. auto.
  Qed.
End Transp.
