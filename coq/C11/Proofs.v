From Coq Require Import List NArith Bool Arith Lia.
Require Import BobV.Gen.ConstsC11 BobV.C11.Model.
Import ListNotations.
Open Scope N_scope.
