(* C08 — proofs.  Part 1: strings, prefixes, the directory tree. *)
From Coq Require Import List NArith Bool Arith Lia.
Require Import BobV.Gen.ConstsC08 BobV.C08.Model.
Import ListNotations.
Open Scope N_scope.

Lemma str_eqb_refl : forall a, str_eqb a a = true.
Proof. induction a; simpl; auto. rewrite N.eqb_refl; auto. Qed.

Lemma str_eqb_eq : forall a b, str_eqb a b = true <-> a = b.
Proof.
  induction a; destruct b; simpl; split; intros Hh; try discriminate; auto.
  - apply andb_true_iff in Hh as [H1 H2]. apply N.eqb_eq in H1. apply IHa in H2. subst; auto.
  - inversion Hh; subst. rewrite N.eqb_refl. simpl. apply IHa; auto.
Qed.

Lemma str_eqb_neq : forall a b, str_eqb a b = false <-> a <> b.
Proof.
  intros a b. split; intros Hh.
  - intros E. apply str_eqb_eq in E. congruence.
  - destruct (str_eqb a b) eqn:E; auto. apply str_eqb_eq in E. contradiction.
Qed.

Lemma path_eqb_eq : forall a b, path_eqb a b = true <-> a = b.
Proof.
  induction a; destruct b; simpl; split; intros Hh; try discriminate; auto.
  - apply andb_true_iff in Hh as [H1 H2]. apply str_eqb_eq in H1. apply IHa in H2. subst; auto.
  - inversion Hh; subst. rewrite str_eqb_refl. simpl. apply IHa; auto.
Qed.

Lemma is_prefix_refl : forall p, is_prefix p p = true.
Proof. induction p; simpl; auto. rewrite str_eqb_refl; auto. Qed.

Lemma is_prefix_app : forall d p, is_prefix d p = true <-> exists r, p = d ++ r.
Proof.
  induction d; simpl; intros p.
  - split; eauto.
  - destruct p; split; intros Hh; try discriminate.
    + destruct Hh as [r Hr]. discriminate.
    + apply andb_true_iff in Hh as [H1 H2]. apply str_eqb_eq in H1. apply IHd in H2 as [r ->]. subst. eauto.
    + destruct Hh as [r Hr]. inversion Hr; subst. rewrite str_eqb_refl. simpl. apply IHd. eauto.
Qed.

Lemma is_prefix_trans : forall a b c, is_prefix a b = true -> is_prefix b c = true -> is_prefix a c = true.
Proof.
  intros a b c H1 H2. apply is_prefix_app in H1 as [r1 ->]. apply is_prefix_app in H2 as [r2 ->].
  apply is_prefix_app. exists (r1 ++ r2). rewrite app_assoc. reflexivity.
Qed.

Lemma is_prefix_app_r : forall d p r, is_prefix d p = true -> is_prefix d (p ++ r) = true.
Proof. intros d p r Hh. apply is_prefix_app in Hh as [x ->]. apply is_prefix_app. exists (x ++ r). rewrite app_assoc; auto. Qed.

(* two prefixes of the same path are comparable *)
Lemma is_prefix_comparable : forall a b p, is_prefix a p = true -> is_prefix b p = true ->
  is_prefix a b = true \/ is_prefix b a = true.
Proof.
  induction a; simpl; intros b p Ha Hb; auto.
  destruct b; simpl; auto. destruct p; try discriminate. simpl in Hb.
  apply andb_true_iff in Ha as [A1 A2]. apply andb_true_iff in Hb as [B1 B2].
  apply str_eqb_eq in A1. apply str_eqb_eq in B1. subst. rewrite str_eqb_refl. simpl. eauto.
Qed.

(* ---- association lists *)
Lemma assoc_set_other : forall A n n' (v : option A) es,
  str_eqb n' n = false -> assoc n' (assoc_set n v es) = assoc n' es.
Proof.
  induction es as [|[k w] r IH]; simpl; intros Hne.
  - destruct v; simpl; auto. rewrite Hne; auto.
  - destruct (str_eqb n k) eqn:E.
    + apply str_eqb_eq in E. subst k. rewrite Hne.
      destruct v; simpl; auto. rewrite Hne; auto.
    + simpl. destruct (str_eqb n' k); auto.
Qed.

Lemma assoc_set_same_some : forall A n (x : A) es, assoc n (assoc_set n (Some x) es) = Some x.
Proof.
  induction es as [|[k w] r IH]; simpl.
  - rewrite str_eqb_refl; auto.
  - destruct (str_eqb n k) eqn:E; simpl; rewrite E; auto.
Qed.

(* ---- the tree: a change at p is invisible at every location that is not p or below p *)
Lemma t_stat_put_other : forall p t v q,
  is_prefix p q = false -> t_stat (t_put t p v) q = t_stat t q.
Proof.
  unfold t_stat.
  induction p as [|n r IH]; intros t v q Hq.
  - simpl in Hq. discriminate.
  - destruct t as [m es|i]; [|reflexivity].
    destruct q as [|n' q'].
    + simpl. destruct r; [reflexivity|]. destruct (assoc n es); reflexivity.
    + simpl in Hq.
      destruct (str_eqb n n') eqn:En.
      * apply str_eqb_eq in En. subst n'. simpl in Hq.
        destruct r as [|n2 r2].
        { simpl in Hq. discriminate. }
        cbn [t_put]. destruct (assoc n es) as [c|] eqn:Ea; [|reflexivity].
        cbn [t_get]. rewrite assoc_set_same_some. rewrite Ea. apply IH. exact Hq.
      * assert (Hn : str_eqb n' n = false).
        { apply str_eqb_neq. apply str_eqb_neq in En. congruence. }
        destruct r as [|n2 r2]; cbn [t_put].
        { cbn [t_get]. rewrite assoc_set_other by exact Hn. reflexivity. }
        destruct (assoc n es) as [c|] eqn:Ea; [|reflexivity].
        cbn [t_get]. rewrite assoc_set_other by exact Hn. reflexivity.
Qed.
