(* C08 — proofs.  Part 1: strings, prefixes, the directory tree. *)
From Coq Require Import List NArith Bool Arith Lia.
Require Import BobV.Gen.ConstsC08 BobV.C08.Model.
Import ListNotations.
Open Scope N_scope.

Lemma str_eqb_refl : forall a, str_eqb a a = true.
Proof. induction a; simpl; auto. rewrite N.eqb_refl; auto. Qed.

Lemma str_eqb_eq : forall a b, str_eqb a b = true <-> a = b.
Proof.
  induction a; destruct b; simpl; split; intros Hh; try discriminate; auto.
  - apply andb_true_iff in Hh as [H1 H2]. apply N.eqb_eq in H1. apply IHa in H2. subst; auto.
  - inversion Hh; subst. rewrite N.eqb_refl. simpl. apply IHa; auto.
Qed.

Lemma str_eqb_neq : forall a b, str_eqb a b = false <-> a <> b.
Proof.
  intros a b. split; intros Hh.
  - intros E. apply str_eqb_eq in E. congruence.
  - destruct (str_eqb a b) eqn:E; auto. apply str_eqb_eq in E. contradiction.
Qed.

Lemma path_eqb_eq : forall a b, path_eqb a b = true <-> a = b.
Proof.
  induction a; destruct b; simpl; split; intros Hh; try discriminate; auto.
  - apply andb_true_iff in Hh as [H1 H2]. apply str_eqb_eq in H1. apply IHa in H2. subst; auto.
  - inversion Hh; subst. rewrite str_eqb_refl. simpl. apply IHa; auto.
Qed.

Lemma is_prefix_refl : forall p, is_prefix p p = true.
Proof. induction p; simpl; auto. rewrite str_eqb_refl; auto. Qed.

Lemma is_prefix_app : forall d p, is_prefix d p = true <-> exists r, p = d ++ r.
Proof.
  induction d; simpl; intros p.
  - split; eauto.
  - destruct p; split; intros Hh; try discriminate.
    + destruct Hh as [r Hr]. discriminate.
    + apply andb_true_iff in Hh as [H1 H2]. apply str_eqb_eq in H1. apply IHd in H2 as [r ->]. subst. eauto.
    + destruct Hh as [r Hr]. inversion Hr; subst. rewrite str_eqb_refl. simpl. apply IHd. eauto.
Qed.

Lemma is_prefix_trans : forall a b c, is_prefix a b = true -> is_prefix b c = true -> is_prefix a c = true.
Proof.
  intros a b c H1 H2. apply is_prefix_app in H1 as [r1 ->]. apply is_prefix_app in H2 as [r2 ->].
  apply is_prefix_app. exists (r1 ++ r2). rewrite app_assoc. reflexivity.
Qed.

Lemma is_prefix_app_r : forall d p r, is_prefix d p = true -> is_prefix d (p ++ r) = true.
Proof. intros d p r Hh. apply is_prefix_app in Hh as [x ->]. apply is_prefix_app. exists (x ++ r). rewrite app_assoc; auto. Qed.

(* two prefixes of the same path are comparable *)
Lemma is_prefix_comparable : forall a b p, is_prefix a p = true -> is_prefix b p = true ->
  is_prefix a b = true \/ is_prefix b a = true.
Proof.
  induction a; simpl; intros b p Ha Hb; auto.
  destruct b; simpl; auto. destruct p; try discriminate. simpl in Hb.
  apply andb_true_iff in Ha as [A1 A2]. apply andb_true_iff in Hb as [B1 B2].
  apply str_eqb_eq in A1. apply str_eqb_eq in B1. subst. rewrite str_eqb_refl. simpl. eauto.
Qed.

(* ---- association lists *)
Lemma assoc_del_other : forall A n n' (es : list (name * A)),
  str_eqb n' n = false -> assoc n' (assoc_del n es) = assoc n' es.
Proof.
  induction es as [|[k w] r IH]; simpl; intros Hne; auto.
  destruct (str_eqb n k) eqn:E.
  - apply str_eqb_eq in E. subst k. rewrite Hne. auto.
  - simpl. destruct (str_eqb n' k); auto.
Qed.

Lemma assoc_del_same : forall A n (es : list (name * A)), assoc n (assoc_del n es) = None.
Proof.
  induction es as [|[k w] r IH]; simpl; auto.
  destruct (str_eqb n k) eqn:E; auto. simpl. rewrite E. auto.
Qed.

Lemma assoc_set_other : forall A n n' (v : option A) es,
  str_eqb n' n = false -> assoc n' (assoc_set n v es) = assoc n' es.
Proof.
  induction es as [|[k w] r IH]; simpl; intros Hne.
  - destruct v; simpl; auto. rewrite Hne; auto.
  - destruct (str_eqb n k) eqn:E.
    + apply str_eqb_eq in E. subst k. rewrite Hne.
      destruct v; simpl; [rewrite Hne|]; apply assoc_del_other; exact Hne.
    + simpl. destruct (str_eqb n' k); auto.
Qed.

Lemma assoc_set_same : forall A n (v : option A) es, assoc n (assoc_set n v es) = v.
Proof.
  induction es as [|[k w] r IH]; simpl.
  - destruct v; simpl; auto. rewrite str_eqb_refl; auto.
  - destruct (str_eqb n k) eqn:E.
    + destruct v; simpl; [rewrite E; auto|apply assoc_del_same].
    + simpl. rewrite E. auto.
Qed.

Lemma assoc_set_same_some : forall A n (x : A) es, assoc n (assoc_set n (Some x) es) = Some x.
Proof. intros. apply assoc_set_same. Qed.

(* ---- the tree: a change at p is invisible at every location that is not p or below p *)
Lemma t_stat_put_other : forall p t v q,
  is_prefix p q = false -> t_stat (t_put t p v) q = t_stat t q.
Proof.
  unfold t_stat.
  induction p as [|n r IH]; intros t v q Hq.
  - simpl in Hq. discriminate.
  - destruct t as [m es|i]; [|reflexivity].
    destruct q as [|n' q'].
    + simpl. destruct r; [reflexivity|]. destruct (assoc n es); reflexivity.
    + simpl in Hq.
      destruct (str_eqb n n') eqn:En.
      * apply str_eqb_eq in En. subst n'. simpl in Hq.
        destruct r as [|n2 r2].
        { simpl in Hq. discriminate. }
        cbn [t_put]. destruct (assoc n es) as [c|] eqn:Ea; [|reflexivity].
        cbn [t_get]. rewrite assoc_set_same_some. rewrite Ea. apply IH. exact Hq.
      * assert (Hn : str_eqb n' n = false).
        { apply str_eqb_neq. apply str_eqb_neq in En. congruence. }
        destruct r as [|n2 r2]; cbn [t_put].
        { cbn [t_get]. rewrite assoc_set_other by exact Hn. reflexivity. }
        destruct (assoc n es) as [c|] eqn:Ea; [|reflexivity].
        cbn [t_get]. rewrite assoc_set_other by exact Hn. reflexivity.
Qed.

(* ================================================================== Part 2: path resolution *)
(* what the kernel resolves (following the last component) is what realpath computes *)
Lemma kgo_pygo : forall (kr : kres_t) (pr : pyres_t) fs,
  (forall st c cs q, kr st c cs = Some q -> pr st c cs = Some (q, true)) ->
  forall cs st cur L, kgo kr fs st true cs cur = Some L -> pygo pr fs st cs cur = Some (L, true).
Proof.
  intros kr pr fs Hrec. induction cs as [|c rest IH]; intros st cur L Hk; simpl in *.
  - inversion Hk; reflexivity.
  - destruct (skip_comp c); [apply IH; exact Hk|].
    destruct (is_dotdot c); [apply IH; exact Hk|].
    destruct (sym_at fs (cur ++ [c])) as [tgt|] eqn:Es.
    + rewrite andb_false_r in Hk.
      destruct (mem_path (cur ++ [c]) st); [discriminate|].
      destruct (kr ((cur ++ [c]) :: st) (link_base tgt cur) (comps_of tgt)) as [q|] eqn:Er; [|discriminate].
      rewrite (Hrec _ _ _ _ Er).
      destruct rest as [|c2 r2].
      * inversion Hk; subst. reflexivity.
      * destruct (is_dir fs q); [|discriminate]. apply IH; exact Hk.
    + destruct (stat fs (cur ++ [c])) as [[m|i]|].
      * apply IH; exact Hk.
      * destruct rest; [|discriminate]. inversion Hk; subst. reflexivity.
      * destruct rest; [|discriminate]. inversion Hk; subst. reflexivity.
Qed.

Lemma kres_pyreal : forall fuel fs st cur cs L,
  kres fuel fs st true cur cs = Some L -> pyreal fuel fs st cur cs = Some (L, true).
Proof.
  induction fuel as [|f IH]; intros fs st cur cs L Hk; simpl in *; [discriminate|].
  eapply kgo_pygo; [|exact Hk]. intros st' c cs' q Hq. apply IH. exact Hq.
Qed.

(* without following the last component: same location unless it is a symbolic link *)
Lemma kgo_nofollow : forall kr fs cs st cur L,
  kgo kr fs st false cs cur = Some L -> sym_at fs L = None -> kgo kr fs st true cs cur = Some L.
Proof.
  intros kr fs. induction cs as [|c rest IH]; intros st cur L Hk Hs; simpl in *; [exact Hk|].
  destruct (skip_comp c); [apply IH; assumption|].
  destruct (is_dotdot c); [apply IH; assumption|].
  destruct (sym_at fs (cur ++ [c])) as [tgt|] eqn:Es.
  - destruct rest as [|c2 r2]; simpl in *.
    + inversion Hk; subst. congruence.
    + destruct (mem_path (cur ++ [c]) st); [discriminate|].
      destruct (kr ((cur ++ [c]) :: st) (link_base tgt cur) (comps_of tgt)) as [q|]; [|discriminate].
      destruct (is_dir fs q); [|discriminate]. apply IH; assumption.
  - destruct (stat fs (cur ++ [c])) as [[m|i]|]; try exact Hk. apply IH; assumption.
Qed.

Lemma kres_nofollow : forall fuel fs st cur cs L,
  kres fuel fs st false cur cs = Some L -> sym_at fs L = None -> kres fuel fs st true cur cs = Some L.
Proof. destruct fuel; simpl; intros; [discriminate|]. apply kgo_nofollow; assumption. Qed.

Lemma kgo_nofollow_none : forall kr fs cs st cur,
  kgo kr fs st false cs cur = None -> kgo kr fs st true cs cur = None.
Proof.
  intros kr fs. induction cs as [|c rest IH]; intros st cur Hk; simpl in *; [discriminate|].
  destruct (skip_comp c); [apply IH; assumption|].
  destruct (is_dotdot c); [apply IH; assumption|].
  destruct (sym_at fs (cur ++ [c])) as [tgt|] eqn:Es.
  - destruct rest as [|c2 r2]; simpl in *; [discriminate|].
    destruct (mem_path (cur ++ [c]) st); [reflexivity|].
    destruct (kr ((cur ++ [c]) :: st) (link_base tgt cur) (comps_of tgt)) as [q|]; [|reflexivity].
    destruct (is_dir fs q); [|reflexivity]. apply IH; assumption.
  - destruct (stat fs (cur ++ [c])) as [[m|i]|]; try exact Hk. apply IH; assumption.
Qed.

Lemma kres_nofollow_none : forall fuel fs st cur cs,
  kres fuel fs st false cur cs = None -> kres fuel fs st true cur cs = None.
Proof. destruct fuel; simpl; intros; [reflexivity|]. apply kgo_nofollow_none; assumption. Qed.

(* realpath only looks at which locations are symbolic links *)
Lemma pygo_ext : forall (pr pr' : pyres_t) fs fs',
  (forall q, sym_at fs' q = sym_at fs q) ->
  (forall st c cs, pr' st c cs = pr st c cs) ->
  forall cs st cur, pygo pr' fs' st cs cur = pygo pr fs st cs cur.
Proof.
  intros pr pr' fs fs' Hs Hr. induction cs as [|c rest IH]; intros st cur; simpl; [reflexivity|].
  destruct (skip_comp c); [apply IH|].
  destruct (is_dotdot c); [apply IH|].
  rewrite Hs. destruct (sym_at fs (cur ++ [c])) as [tgt|]; [|apply IH].
  destruct (mem_path (cur ++ [c]) st); [reflexivity|].
  rewrite Hr. destruct (pr ((cur ++ [c]) :: st) (link_base tgt cur) (comps_of tgt)) as [[q [|]]|]; auto.
Qed.

Lemma pyreal_ext : forall fuel fs fs',
  (forall q, sym_at fs' q = sym_at fs q) ->
  forall st cur cs, pyreal fuel fs' st cur cs = pyreal fuel fs st cur cs.
Proof.
  induction fuel as [|f IH]; intros fs fs' Hs st cur cs; simpl; [reflexivity|].
  apply pygo_ext; [exact Hs|]. intros. apply IH. exact Hs.
Qed.

Lemma realpath_ext : forall fuel fs fs' cs,
  (forall q, sym_at fs' q = sym_at fs q) -> realpath fuel fs' cs = realpath fuel fs cs.
Proof. intros. unfold realpath. rewrite (pyreal_ext fuel fs fs') by assumption. reflexivity. Qed.

(* the filter's verdict about a path bounds where system calls on it act *)
Lemma realpath_kres_follow : forall fuel fs cs L,
  kres fuel fs [] true [] cs = Some L -> realpath fuel fs cs = Some L.
Proof. intros. unfold realpath. rewrite (kres_pyreal _ _ _ _ _ _ H). reflexivity. Qed.

(* ================================================================== Part 3: more about the tree *)
Lemma t_get_none_below : forall p t r, t_get t p = None -> t_get t (p ++ r) = None.
Proof.
  induction p as [|n p IH]; intros t r Hn; simpl in *; [discriminate|].
  destruct t as [m es|i]; auto. destruct (assoc n es); auto.
Qed.

Lemma t_get_leaf_below : forall p t r i, t_get t p = Some (TLeaf i) -> r <> [] -> t_get t (p ++ r) = None.
Proof.
  induction p as [|n p IH]; intros t r i Hn Hr; simpl in *.
  - inversion Hn; subst. destruct r; [contradiction|reflexivity].
  - destruct t as [m es|j]; auto. destruct (assoc n es); auto. eapply IH; eauto.
Qed.

Lemma t_stat_none_below : forall t p r, t_stat t p = None -> t_stat t (p ++ r) = None.
Proof.
  unfold t_stat. intros t p r Hn. destruct (t_get t p) eqn:E; [discriminate|].
  rewrite (t_get_none_below _ _ r E). reflexivity.
Qed.

(* an existing location has existing ancestors, and they are directories *)
Lemma t_stat_ancestor_dir : forall p t r, r <> [] -> t_stat t (p ++ r) <> None ->
  exists m, t_stat t p = Some (SDir m).
Proof.
  unfold t_stat. intros p t r Hr Hs.
  destruct (t_get t p) as [[m es|i]|] eqn:E.
  - eexists; reflexivity.
  - rewrite (t_get_leaf_below _ _ _ _ E Hr) in Hs. contradiction.
  - rewrite (t_get_none_below _ _ r E) in Hs. contradiction.
Qed.

(* a leaf seen after a change at p is an old leaf or the one just put *)
Lemma t_stat_put_leaf : forall p t v q i,
  t_stat (t_put t p v) q = Some (SLeaf i) -> t_stat t q = Some (SLeaf i) \/ v = Some (SLeaf i).
Proof.
  unfold t_stat.
  induction p as [|n r IH]; intros t v q i Hq.
  - destruct t as [m es|j]; simpl in Hq.
    + destruct v as [[m'|j]|]; auto.
      destruct q; simpl in *; auto.
    + auto.
  - destruct t as [m es|j]; [|auto].
    destruct q as [|n' q'].
    + simpl in Hq. destruct r; [discriminate|]. destruct (assoc n es); discriminate.
    + destruct (str_eqb n' n) eqn:En.
      * apply str_eqb_eq in En. subst n'.
        destruct r as [|n2 r2]; cbn [t_put] in Hq.
        { cbn [t_get] in Hq. rewrite assoc_set_same in Hq. cbn [t_get].
          destruct v as [[m'|j]|]; simpl in Hq.
          - destruct (assoc n es) as [[m0 ces|j0]|] eqn:Ea.
            + left. destruct q'; simpl in *; [discriminate|exact Hq].
            + destruct q'; simpl in Hq; discriminate.
            + destruct q'; simpl in Hq; discriminate.
          - destruct q'; simpl in Hq; [|discriminate]. inversion Hq; subst. auto.
          - discriminate. }
        destruct (assoc n es) as [c|] eqn:Ea; [|auto].
        cbn [t_get] in *. rewrite assoc_set_same in Hq. rewrite Ea. eapply IH. exact Hq.
      * destruct r as [|n2 r2]; cbn [t_put] in Hq.
        { cbn [t_get] in *. rewrite assoc_set_other in Hq by exact En. auto. }
        destruct (assoc n es) as [c|] eqn:Ea; [|auto].
        cbn [t_get] in *. rewrite assoc_set_other in Hq by exact En. auto.
Qed.

(* below a removed or newly created node there is nothing; at the node there is what was put or nothing *)
Lemma t_stat_put_at_below : forall p t v q,
  p <> [] -> is_prefix p q = true ->
  (v = None \/ t_get t p = None) ->
  (q = p /\ (t_stat (t_put t p v) q = v \/ t_stat (t_put t p v) q = None))
  \/ (q <> p /\ t_stat (t_put t p v) q = None).
Proof.
  unfold t_stat.
  induction p as [|n r IH]; intros t v q Hp Hq Hv; [contradiction|].
  destruct q as [|n' q']; [discriminate|]. simpl in Hq.
  apply andb_true_iff in Hq as [En Hq']. apply str_eqb_eq in En. subst n'.
  destruct t as [m es|j].
  - destruct r as [|n2 r2].
    + cbn [t_put t_get]. rewrite assoc_set_same.
      destruct q' as [|c q''].
      * left. split; [reflexivity|]. destruct v as [[m'|i]|]; simpl; auto.
        destruct Hv as [Hv|Hv]; [discriminate|]. simpl in Hv.
        destruct (assoc n es); [discriminate|]. simpl. auto.
      * right. split; [intros E; inversion E|].
        destruct v as [[m'|i]|]; simpl; auto.
        destruct Hv as [Hv|Hv]; [discriminate|]. simpl in Hv.
        destruct (assoc n es); [discriminate|]. simpl. reflexivity.
    + cbn [t_put]. destruct (assoc n es) as [c|] eqn:Ea.
      * cbn [t_get]. rewrite assoc_set_same.
        assert (Hv' : v = None \/ t_get c (n2 :: r2) = None).
        { destruct Hv as [Hv|Hv]; [auto|]. right. simpl in Hv. rewrite Ea in Hv. exact Hv. }
        destruct (IH c v q' ltac:(discriminate) Hq' Hv') as [[E H1]|[E H1]].
        { left. split; [subst; reflexivity|exact H1]. }
        { right. split; [intros E2; inversion E2; contradiction|exact H1]. }
      * cbn [t_get]. rewrite Ea.
        destruct (path_eqb q' (n2 :: r2)) eqn:Eq.
        { apply path_eqb_eq in Eq. subst q'. left. split; [reflexivity|]. right. reflexivity. }
        { right. split; [|reflexivity]. intros E. inversion E; subst.
          rewrite (proj2 (path_eqb_eq _ _) eq_refl) in Eq. discriminate. }
  - cbn [t_put t_get].
    destruct (path_eqb q' r) eqn:Eq.
    + apply path_eqb_eq in Eq. subst. left. split; [reflexivity|]. right. reflexivity.
    + right. split; [|reflexivity]. intros E. inversion E; subst.
      rewrite (proj2 (path_eqb_eq _ _) eq_refl) in Eq. discriminate.
Qed.

(* ================================================================== Part 4: the confinement invariant *)
Lemma ino_get_set_same : forall tab i v, ino_get (ino_set tab i v) i = Some v.
Proof.
  induction tab as [|[k w] r IH]; intros i v; simpl.
  - rewrite N.eqb_refl. reflexivity.
  - destruct (k =? i) eqn:E; simpl; rewrite E; auto.
Qed.

Lemma ino_get_set_other : forall tab i j v, i <> j -> ino_get (ino_set tab i v) j = ino_get tab j.
Proof.
  induction tab as [|[k w] r IH]; intros i j v Hne; simpl.
  - destruct (i =? j) eqn:E; [apply N.eqb_eq in E; contradiction|reflexivity].
  - destruct (k =? i) eqn:E; simpl.
    + apply N.eqb_eq in E. subst k. destruct (i =? j) eqn:E2; [apply N.eqb_eq in E2; contradiction|reflexivity].
    + destruct (k =? j); auto.
Qed.

Section Confine.
  Variable ok : path -> bool.
  Hypothesis ok_ext : forall p r, ok p = true -> ok (p ++ r) = true.

  Lemma ok_not_below : forall l q, ok l = true -> ok q = false -> is_prefix l q = false.
  Proof.
    intros l q Hl Hq. destruct (is_prefix l q) eqn:E; auto.
    apply is_prefix_app in E as [r ->]. rewrite (ok_ext _ r Hl) in Hq. discriminate.
  Qed.

  Record inv (fs0 fs : fsys) : Prop := mkInv {
    inv_out : same_outside ok fs0 fs;
    inv_fresh : forall p i, stat fs p = Some (SLeaf i) -> i < f_next fs;
    inv_sep : forall p q i, ok p = true -> ok q = false ->
              stat fs p = Some (SLeaf i) -> stat fs q = Some (SLeaf i) -> False;
    inv_nosym : forall q, ok q = false -> sym_at fs q = None
  }.

  Lemma sym_at_outside_eq : forall fs fs' q,
    stat fs' q = stat fs q ->
    (forall i, stat fs q = Some (SLeaf i) -> inode_of fs' i = inode_of fs i) ->
    sym_at fs' q = sym_at fs q.
  Proof.
    intros fs fs' q Hs Hi. unfold sym_at. rewrite Hs.
    destruct (stat fs q) as [[m|i]|]; auto. rewrite (Hi i eq_refl). reflexivity.
  Qed.

  (* a step that leaves every not-ok location and the inodes named there alone *)
  Lemma inv_step : forall fs0 fs fs',
    inv fs0 fs ->
    (forall q, ok q = false -> stat fs' q = stat fs q) ->
    (forall q i, ok q = false -> stat fs q = Some (SLeaf i) -> inode_of fs' i = inode_of fs i) ->
    (forall p i, stat fs' p = Some (SLeaf i) -> i < f_next fs') ->
    (forall p q i, ok p = true -> ok q = false ->
       stat fs' p = Some (SLeaf i) -> stat fs q = Some (SLeaf i) -> False) ->
    inv fs0 fs'.
  Proof.
    intros fs0 fs fs' [Ho Hf Hs Hn] H1 H2 H3 H4. constructor.
    - intros q Hq. destruct (Ho q Hq) as [Ha Hb]. split.
      + rewrite H1 by exact Hq. exact Ha.
      + intros i Hi. rewrite <- Ha in Hi. rewrite (H2 q i Hq Hi). apply Hb. rewrite <- Ha. exact Hi.
    - exact H3.
    - intros p q i Hp Hq Sp Sq. rewrite H1 in Sq by exact Hq. eapply H4; eauto.
    - intros q Hq. rewrite <- (Hn q Hq). apply sym_at_outside_eq; [apply H1; exact Hq|].
      intros i Hi. eapply H2; eauto.
  Qed.

  (* a directory made, re-moded, or anything removed, at an ok location *)
  Lemma inv_put_nonleaf : forall fs0 fs l v,
    inv fs0 fs -> ok l = true -> (forall i, v <> Some (SLeaf i)) -> inv fs0 (put fs l v).
  Proof.
    intros fs0 fs l v Hi Hl Hv. apply (inv_step fs0 fs); auto.
    - intros q Hq. unfold stat, put; simpl. apply t_stat_put_other. apply ok_not_below; assumption.
    - intros p i Hp. unfold stat, put in Hp; simpl in Hp.
      apply t_stat_put_leaf in Hp as [Hp|Hp]; [|exfalso; eapply Hv; eauto].
      simpl. eapply inv_fresh; eauto.
    - intros p q i Hp Hq Sp Sq. unfold stat, put in Sp; simpl in Sp.
      apply t_stat_put_leaf in Sp as [Sp|Sp]; [|eapply Hv; eauto].
      eapply inv_sep; eauto.
  Qed.

  (* another name for an inode that already has an ok name *)
  Lemma inv_put_link : forall fs0 fs l ls i,
    inv fs0 fs -> ok l = true -> ok ls = true -> stat fs ls = Some (SLeaf i) ->
    inv fs0 (put fs l (Some (SLeaf i))).
  Proof.
    intros fs0 fs l ls i Hi Hl Hls Hs. apply (inv_step fs0 fs); auto.
    - intros q Hq. unfold stat, put; simpl. apply t_stat_put_other. apply ok_not_below; assumption.
    - intros p j Hp. unfold stat, put in Hp; simpl in Hp.
      apply t_stat_put_leaf in Hp as [Hp|Hp]; simpl.
      + eapply inv_fresh; eauto.
      + inversion Hp; subst. eapply inv_fresh; eauto.
    - intros p q j Hp Hq Sp Sq. unfold stat, put in Sp; simpl in Sp.
      apply t_stat_put_leaf in Sp as [Sp|Sp].
      + eapply inv_sep; eauto.
      + inversion Sp; subst. eapply (inv_sep _ _ Hi ls q); eauto.
  Qed.

  (* a new inode at an ok location *)
  Lemma inv_create : forall fs0 fs l v,
    inv fs0 fs -> ok l = true -> inv fs0 (create fs l v).
  Proof.
    intros fs0 fs l v Hi Hl. apply (inv_step fs0 fs); auto.
    - intros q Hq. unfold stat, create; simpl. apply t_stat_put_other. apply ok_not_below; assumption.
    - intros q i Hq Sq. unfold inode_of, create; simpl. apply ino_get_set_other.
      pose proof (inv_fresh _ _ Hi q i Sq). lia.
    - intros p i Hp. unfold stat, create in Hp; simpl in Hp.
      apply t_stat_put_leaf in Hp as [Hp|Hp]; simpl.
      + pose proof (inv_fresh _ _ Hi p i Hp). lia.
      + inversion Hp; subst. lia.
    - intros p q i Hp Hq Sp Sq. unfold stat, create in Sp; simpl in Sp.
      apply t_stat_put_leaf in Sp as [Sp|Sp].
      + eapply inv_sep; eauto.
      + inversion Sp; subst. pose proof (inv_fresh _ _ Hi q _ Sq). lia.
  Qed.

  (* new content or mode for an inode that has an ok name *)
  Lemma inv_set_inode : forall fs0 fs l i v,
    inv fs0 fs -> ok l = true -> stat fs l = Some (SLeaf i) -> inv fs0 (set_inode fs i v).
  Proof.
    intros fs0 fs l i v Hi Hl Hs. apply (inv_step fs0 fs); auto.
    - intros q j Hq Sq. unfold inode_of, set_inode; simpl. apply ino_get_set_other.
      intros E. subst j. eapply (inv_sep _ _ Hi l q); eauto.
    - intros p j Hp. simpl. eapply inv_fresh; eauto.
    - intros p q j Hp Hq Sp Sq. eapply inv_sep; eauto.
  Qed.
End Confine.

(* ================================================================== Part 5: steps that do not change which locations are symbolic links *)
Definition sym_ext (fs fs' : fsys) : Prop := forall q, sym_at fs' q = sym_at fs q.

Lemma sym_ext_refl : forall fs, sym_ext fs fs.
Proof. intros fs q. reflexivity. Qed.

Lemma sym_ext_trans : forall a b c, sym_ext a b -> sym_ext b c -> sym_ext a c.
Proof. intros a b c H1 H2 q. rewrite H2. apply H1. Qed.


Lemma stat_root_some : forall fs, stat fs [] <> None.
Proof. intros fs. unfold stat, t_stat. simpl. discriminate. Qed.

Lemma sym_at_put_newdir : forall fs l m, stat fs l = None -> sym_ext fs (put fs l (Some (SDir m))).
Proof.
  intros fs l m Hn q. unfold sym_at.
  destruct (is_prefix l q) eqn:Ep.
  - assert (Hl : l <> []) by (intros E; subst; apply (stat_root_some fs); exact Hn).
    assert (Hg : t_get (f_root fs) l = None).
    { unfold stat, t_stat in Hn. destruct (t_get (f_root fs) l); [discriminate|reflexivity]. }
    assert (Hold : stat fs q = None).
    { apply is_prefix_app in Ep as [r ->]. apply t_stat_none_below. exact Hn. }
    rewrite Hold.
    destruct (t_stat_put_at_below l (f_root fs) (Some (SDir m)) q Hl Ep (or_intror Hg)) as [[E [H1|H1]]|[E H1]];
      unfold stat, put; simpl; rewrite H1; reflexivity.
  - unfold stat, put; simpl. rewrite t_stat_put_other by exact Ep. reflexivity.
Qed.

Lemma sym_at_create_nonsym : forall fs l v,
  fresh_ok fs -> stat fs l = None -> i_kind v <> KSym -> sym_ext fs (create fs l v).
Proof.
  intros fs l v Hf Hn Hk q. unfold sym_at.
  destruct (is_prefix l q) eqn:Ep.
  - assert (Hl : l <> []) by (intros E; subst; apply (stat_root_some fs); exact Hn).
    assert (Hg : t_get (f_root fs) l = None).
    { unfold stat, t_stat in Hn. destruct (t_get (f_root fs) l); [discriminate|reflexivity]. }
    assert (Hold : stat fs q = None).
    { apply is_prefix_app in Ep as [r ->]. apply t_stat_none_below. exact Hn. }
    rewrite Hold.
    destruct (t_stat_put_at_below l (f_root fs) (Some (SLeaf (f_next fs))) q Hl Ep (or_intror Hg)) as [[E [H1|H1]]|[E H1]];
      unfold stat, create; simpl; rewrite H1; try reflexivity.
    unfold inode_of; simpl. rewrite ino_get_set_same. destruct v as [[] d m]; simpl in *; congruence.
  - unfold stat, create; simpl. rewrite t_stat_put_other by exact Ep.
    destruct (t_stat (f_root fs) q) as [[m|i]|] eqn:Es; auto.
    unfold inode_of; simpl. rewrite ino_get_set_other; [reflexivity|].
    pose proof (Hf q i Es). lia.
Qed.

Lemma sym_at_set_inode_nonsym : forall fs i v w,
  inode_of fs i = Some w -> i_kind w <> KSym -> i_kind v <> KSym -> sym_ext fs (set_inode fs i v).
Proof.
  intros fs i v w Hw Hkw Hkv q. unfold sym_at, stat, set_inode; simpl.
  destruct (t_stat (f_root fs) q) as [[m|j]|]; auto.
  unfold inode_of; simpl. destruct (N.eq_dec i j) as [E|E].
  - subst j. rewrite ino_get_set_same. unfold inode_of in Hw. rewrite Hw.
    destruct v as [[] d m]; destruct w as [[] d' m']; simpl in *; congruence.
  - rewrite ino_get_set_other by exact E. reflexivity.
Qed.

Lemma sys_mkdir_symext : forall fuel fs cs m, sym_ext fs (fst (sys_mkdir fuel fs cs m)).
Proof.
  intros. unfold sys_mkdir. destruct (kres fuel fs [] false [] cs) as [l|]; [|apply sym_ext_refl].
  destruct (stat fs l) eqn:E; [apply sym_ext_refl|]. simpl. apply sym_at_put_newdir. exact E.
Qed.

Lemma sys_write_symext : forall fuel fs cs d, fresh_ok fs -> sym_ext fs (fst (sys_write fuel fs cs d)).
Proof.
  intros fuel fs cs d Hf. unfold sys_write. destruct (kres fuel fs [] true [] cs) as [l|]; [|apply sym_ext_refl].
  destruct (stat fs l) as [[m|i]|] eqn:E; simpl.
  - apply sym_ext_refl.
  - destruct (inode_of fs i) as [[[] dd mm]|] eqn:Ei; simpl; try apply sym_ext_refl.
    eapply sym_at_set_inode_nonsym; eauto; simpl; discriminate.
  - apply sym_at_create_nonsym; auto. simpl. discriminate.
Qed.

Lemma sys_mknode_symext : forall fuel fs cs v,
  fresh_ok fs -> i_kind v <> KSym -> sym_ext fs (fst (sys_mknode fuel fs cs v)).
Proof.
  intros fuel fs cs v Hf Hk. unfold sys_mknode. destruct (kres fuel fs [] false [] cs) as [l|]; [|apply sym_ext_refl].
  destruct (stat fs l) eqn:E; [apply sym_ext_refl|]. simpl. apply sym_at_create_nonsym; auto.
Qed.

(* ================================================================== Part 6: system calls on a path the filter accepted *)
Section Ops.
  Variable ok : path -> bool.
  Hypothesis ok_ext : forall p r, ok p = true -> ok (p ++ r) = true.
  Variable dest : path.
  Hypothesis ok_dest : forall q, is_prefix dest q = true -> ok q = true.
  Variable fuel : nat.

  (* the verdict of _tarExtractFilter about the path cs in state fs *)
  Definition guard (fs : fsys) (cs : list name) : Prop := inside dest (realpath fuel fs cs) = true.

  Lemma guard_ext : forall fs fs' cs, sym_ext fs fs' -> guard fs cs -> guard fs' cs.
  Proof. intros fs fs' cs He Hg. unfold guard in *. rewrite (realpath_ext fuel fs fs' cs He). exact Hg. Qed.

  Lemma loc_follow : forall fs cs l, guard fs cs -> kres fuel fs [] true [] cs = Some l -> ok l = true.
  Proof.
    intros fs cs l Hg Hk. unfold guard in Hg. rewrite (realpath_kres_follow _ _ _ _ Hk) in Hg.
    simpl in Hg. apply ok_dest. exact Hg.
  Qed.

  Lemma loc_nofollow : forall fs0 fs cs l,
    inv ok fs0 fs -> guard fs cs -> kres fuel fs [] false [] cs = Some l -> ok l = true.
  Proof.
    intros fs0 fs cs l Hi Hg Hk. destruct (sym_at fs l) eqn:Es.
    - destruct (ok l) eqn:Eo; auto. rewrite (inv_nosym _ _ _ Hi l Eo) in Es. discriminate.
    - eapply loc_follow; eauto. apply kres_nofollow; assumption.
  Qed.

  Lemma sys_write_inv : forall fs0 fs cs d,
    inv ok fs0 fs -> guard fs cs -> inv ok fs0 (fst (sys_write fuel fs cs d)).
  Proof.
    intros fs0 fs cs d Hi Hg. unfold sys_write.
    destruct (kres fuel fs [] true [] cs) as [l|] eqn:Ek; [|exact Hi].
    pose proof (loc_follow _ _ _ Hg Ek) as Hl.
    destruct (stat fs l) as [[m|i]|] eqn:Es; simpl; auto.
    - destruct (inode_of fs i) as [[[] dd mm]|]; simpl; auto. eapply inv_set_inode; eauto.
    - apply inv_create; auto.
  Qed.

  Lemma sys_chmod_inv : forall fs0 fs cs m,
    inv ok fs0 fs -> guard fs cs -> inv ok fs0 (fst (sys_chmod fuel fs cs m)).
  Proof.
    intros fs0 fs cs m Hi Hg. unfold sys_chmod.
    destruct (kres fuel fs [] true [] cs) as [l|] eqn:Ek; [|exact Hi].
    pose proof (loc_follow _ _ _ Hg Ek) as Hl.
    destruct (stat fs l) as [[m0|i]|] eqn:Es; simpl; auto.
    - apply inv_put_nonleaf; auto. intros i. discriminate.
    - destruct (inode_of fs i) as [[k dd mm]|]; simpl; auto. eapply inv_set_inode; eauto.
  Qed.

  Lemma sys_mkdir_inv : forall fs0 fs cs m,
    inv ok fs0 fs -> guard fs cs -> inv ok fs0 (fst (sys_mkdir fuel fs cs m)).
  Proof.
    intros fs0 fs cs m Hi Hg. unfold sys_mkdir.
    destruct (kres fuel fs [] false [] cs) as [l|] eqn:Ek; [|exact Hi].
    pose proof (loc_nofollow _ _ _ _ Hi Hg Ek) as Hl.
    destruct (stat fs l); simpl; auto. apply inv_put_nonleaf; auto. intros i. discriminate.
  Qed.

  Lemma sys_mknode_inv : forall fs0 fs cs v,
    inv ok fs0 fs -> guard fs cs -> inv ok fs0 (fst (sys_mknode fuel fs cs v)).
  Proof.
    intros fs0 fs cs v Hi Hg. unfold sys_mknode.
    destruct (kres fuel fs [] false [] cs) as [l|] eqn:Ek; [|exact Hi].
    pose proof (loc_nofollow _ _ _ _ Hi Hg Ek) as Hl.
    destruct (stat fs l); simpl; auto. apply inv_create; auto.
  Qed.

  Lemma sys_unlink_inv : forall fs0 fs cs,
    inv ok fs0 fs -> guard fs cs -> inv ok fs0 (fst (sys_unlink fuel fs cs)).
  Proof.
    intros fs0 fs cs Hi Hg. unfold sys_unlink.
    destruct (kres fuel fs [] false [] cs) as [l|] eqn:Ek; [|exact Hi].
    pose proof (loc_nofollow _ _ _ _ Hi Hg Ek) as Hl.
    destruct (stat fs l) as [[m|i]|]; simpl; auto. apply inv_put_nonleaf; auto. intros j. discriminate.
  Qed.

  (* hard link: source and destination both accepted by the filter *)
  Lemma sys_link_inv : forall fs0 fs src dst,
    inv ok fs0 fs -> guard fs src -> guard fs dst -> inv ok fs0 (fst (sys_link fuel fs src dst)).
  Proof.
    intros fs0 fs src dst Hi Hs Hd. unfold sys_link.
    destruct (kres fuel fs [] false [] src) as [ls|] eqn:Eks; [|exact Hi].
    pose proof (loc_nofollow _ _ _ _ Hi Hs Eks) as Hls.
    destruct (stat fs ls) as [[m|i]|] eqn:Ess; simpl; auto.
    destruct (kres fuel fs [] false [] dst) as [ld|] eqn:Ekd; [|exact Hi].
    pose proof (loc_nofollow _ _ _ _ Hi Hd Ekd) as Hld.
    destruct (stat fs ld); simpl; auto. apply (inv_put_link ok ok_ext fs0 fs ld ls i); auto.
  Qed.
End Ops.

(* ================================================================== Part 7: the destination stays a directory *)
Lemma t_get_put_chmod : forall p t m' m es r,
  t_get t p = Some (TDir m es) ->
  t_get (t_put t p (Some (SDir m'))) (p ++ r) =
  match r with [] => Some (TDir m' es) | _ :: _ => t_get t (p ++ r) end.
Proof.
  induction p as [|n p' IH]; intros t m' m es r Hg.
  - simpl in Hg. inversion Hg; subst. simpl. destruct r; reflexivity.
  - destruct t as [m0 es0|j]; [|discriminate]. simpl in Hg.
    destruct (assoc n es0) as [c|] eqn:Ea; [|discriminate].
    destruct p' as [|n2 p2].
    + simpl in Hg. inversion Hg; subst c. cbn [t_put app t_get]. rewrite assoc_set_same. rewrite Ea. simpl.
      destruct r; reflexivity.
    + cbn [t_put]. rewrite Ea. cbn [app t_get]. rewrite assoc_set_same. rewrite Ea.
      apply (IH c m' m es r Hg).
Qed.

Lemma is_dir_put : forall fs l v d,
  is_dir fs d = true ->
  match v with
  | None => exists i, stat fs l = Some (SLeaf i)
  | Some (SLeaf _) => stat fs l = None
  | Some (SDir _) => stat fs l = None \/ is_dir fs l = true
  end ->
  is_dir (put fs l v) d = true.
Proof.
  intros fs l v d Hd Hv. unfold is_dir, stat, put in *. simpl.
  destruct (is_prefix l d) eqn:Ep.
  - apply is_prefix_app in Ep as [r ->].
    assert (Hne : t_stat (f_root fs) l <> None).
    { intros E. rewrite (t_stat_none_below _ _ r E) in Hd. discriminate. }
    destruct v as [[m'|i]|].
    + destruct Hv as [Hv|Hv]; [contradiction|].
      unfold t_stat in *. destruct (t_get (f_root fs) l) as [[m es|j]|] eqn:Eg; try discriminate.
      rewrite (t_get_put_chmod _ _ m' m es r Eg).
      destruct r; [reflexivity|]. exact Hd.
    + contradiction.
    + destruct Hv as [i Hv]. unfold t_stat in *.
      destruct (t_get (f_root fs) l) as [[m es|j]|] eqn:Eg; try discriminate.
      destruct r.
      * rewrite app_nil_r in Hd. rewrite Eg in Hd. discriminate.
      * rewrite (t_get_leaf_below _ _ (n :: r) _ Eg) in Hd by discriminate. discriminate.
  - rewrite t_stat_put_other by exact Ep. exact Hd.
Qed.

Lemma is_dir_create : forall fs l v d, is_dir fs d = true -> stat fs l = None -> is_dir (create fs l v) d = true.
Proof.
  intros fs l v d Hd Hn.
  pose proof (is_dir_put fs l (Some (SLeaf (f_next fs))) d Hd Hn) as H. unfold is_dir, stat, put, create in *. simpl in *. exact H.
Qed.

Lemma is_dir_set_inode : forall fs i v d, is_dir (set_inode fs i v) d = is_dir fs d.
Proof. reflexivity. Qed.

Lemma sys_mkdir_dir : forall fuel fs cs m d, is_dir fs d = true -> is_dir (fst (sys_mkdir fuel fs cs m)) d = true.
Proof.
  intros. unfold sys_mkdir. destruct (kres fuel fs [] false [] cs) as [l|]; auto.
  destruct (stat fs l) eqn:E; auto. simpl. apply is_dir_put; auto.
Qed.

Lemma sys_mknode_dir : forall fuel fs cs v d, is_dir fs d = true -> is_dir (fst (sys_mknode fuel fs cs v)) d = true.
Proof.
  intros. unfold sys_mknode. destruct (kres fuel fs [] false [] cs) as [l|]; auto.
  destruct (stat fs l) eqn:E; auto. simpl. apply is_dir_create; auto.
Qed.

Lemma sys_unlink_dir : forall fuel fs cs d, is_dir fs d = true -> is_dir (fst (sys_unlink fuel fs cs)) d = true.
Proof.
  intros. unfold sys_unlink. destruct (kres fuel fs [] false [] cs) as [l|]; auto.
  destruct (stat fs l) as [[m|i]|] eqn:E; auto. simpl. apply is_dir_put; eauto.
Qed.

Lemma sys_link_dir : forall fuel fs a b d, is_dir fs d = true -> is_dir (fst (sys_link fuel fs a b)) d = true.
Proof.
  intros. unfold sys_link. destruct (kres fuel fs [] false [] a) as [ls|]; auto.
  destruct (stat fs ls) as [[m|i]|]; auto.
  destruct (kres fuel fs [] false [] b) as [ld|]; auto.
  destruct (stat fs ld) eqn:E; auto. simpl. apply is_dir_put; auto.
Qed.

Lemma sys_write_dir : forall fuel fs cs x d, is_dir fs d = true -> is_dir (fst (sys_write fuel fs cs x)) d = true.
Proof.
  intros. unfold sys_write. destruct (kres fuel fs [] true [] cs) as [l|]; auto.
  destruct (stat fs l) as [[m|i]|] eqn:E; auto.
  - destruct (inode_of fs i) as [[[] dd mm]|]; auto.
  - simpl. apply is_dir_create; auto.
Qed.

Lemma sys_chmod_dir : forall fuel fs cs m d, is_dir fs d = true -> is_dir (fst (sys_chmod fuel fs cs m)) d = true.
Proof.
  intros. unfold sys_chmod. destruct (kres fuel fs [] true [] cs) as [l|]; auto.
  destruct (stat fs l) as [[m0|i]|] eqn:E; auto.
  - simpl. apply is_dir_put; auto. right. unfold is_dir. rewrite E. reflexivity.
  - destruct (inode_of fs i) as [[k dd mm]|]; auto.
Qed.

(* ================================================================== Part 8: os.makedirs below an accepted path *)
Definition nodd (cs : list name) : Prop := existsb is_dotdot cs = false.

Lemma nodd_app : forall a b, nodd (a ++ b) -> nodd a /\ nodd b.
Proof. unfold nodd. intros a b H. rewrite existsb_app in H. apply orb_false_iff in H. exact H. Qed.

Lemma pygo_app : forall (rec : pyres_t) fs st a b cur,
  pygo rec fs st (a ++ b) cur =
  match pygo rec fs st a cur with
  | Some (q, true) => pygo rec fs st b q
  | Some (q, false) => Some (q ++ b, false)
  | None => None
  end.
Proof.
  intros rec fs st. induction a as [|c a IH]; intros b cur; simpl; [reflexivity|].
  destruct (skip_comp c); [apply IH|].
  destruct (is_dotdot c); [apply IH|].
  destruct (sym_at fs (cur ++ [c])) as [tgt|]; [|apply IH].
  destruct (mem_path (cur ++ [c]) st).
  - f_equal. f_equal. rewrite <- !app_assoc. reflexivity.
  - destruct (rec ((cur ++ [c]) :: st) (link_base tgt cur) (comps_of tgt)) as [[q [|]]|]; auto.
    f_equal. f_equal. rewrite <- !app_assoc. reflexivity.
Qed.

Definition nonskip (cs : list name) : list name := filter (fun c => negb (skip_comp c)) cs.

(* below a missing location realpath is purely lexical *)
Lemma pygo_below_missing : forall (rec : pyres_t) fs st b n,
  stat fs n = None -> nodd b -> pygo rec fs st b n = Some (n ++ nonskip b, true).
Proof.
  intros rec fs st. induction b as [|c b IH]; intros n Hn Hd; simpl.
  - rewrite app_nil_r. reflexivity.
  - unfold nodd in Hd. simpl in Hd. apply orb_false_iff in Hd as [Hc Hb].
    destruct (skip_comp c) eqn:Es; simpl; [apply IH; assumption|].
    rewrite Hc.
    assert (Hp : stat fs (n ++ [c]) = None) by (apply t_stat_none_below; exact Hn).
    unfold sym_at. rewrite Hp. rewrite IH by assumption. rewrite <- app_assoc. reflexivity.
Qed.

Section Makedirs.
  Variable ok : path -> bool.
  Hypothesis ok_ext : forall p r, ok p = true -> ok (p ++ r) = true.
  Variable dest : path.
  Hypothesis ok_dest : forall q, is_prefix dest q = true -> ok q = true.
  Variable fuel : nat.

  (* a directory that mkdir would create on the way to an accepted path t lies below the destination *)
  Lemma mkdir_loc_ok : forall fs t nm rest n,
    guard dest fuel fs t -> is_dir fs dest = true -> t = nm ++ rest -> nodd rest ->
    kres fuel fs [] false [] nm = Some n -> stat fs n = None -> ok n = true.
  Proof.
    intros fs t nm rest n Hg Hd Ht Hr Hk Hn.
    assert (Hs : sym_at fs n = None) by (unfold sym_at; rewrite Hn; reflexivity).
    pose proof (kres_pyreal _ _ _ _ _ _ (kres_nofollow _ _ _ _ _ _ Hk Hs)) as Hp.
    destruct fuel as [|f]; [discriminate|].
    unfold guard, realpath in Hg. subst t. simpl in Hg, Hp. rewrite pygo_app in Hg. rewrite Hp in Hg.
    rewrite (pygo_below_missing _ _ _ _ _ Hn Hr) in Hg. simpl in Hg.
    apply ok_dest.
    destruct (is_prefix_comparable dest n (n ++ nonskip rest) Hg) as [H|H]; auto.
    { apply is_prefix_app. eexists; reflexivity. }
    apply is_prefix_app in H as [x ->]. unfold is_dir in Hd.
    unfold stat in *. rewrite (t_stat_none_below _ _ x Hn) in Hd. discriminate.
  Qed.

  Record good (fs0 fs : fsys) (t : list name) : Prop := mkGood {
    g_inv : inv ok fs0 fs;
    g_guard : guard dest fuel fs t;
    g_dir : is_dir fs dest = true
  }.

  Lemma good_fresh : forall fs0 fs t, good fs0 fs t -> fresh_ok fs.
  Proof. intros fs0 fs t [Hi _ _]. intros p i. apply (inv_fresh _ _ _ Hi). Qed.

  Lemma mkdir_prefix_good : forall fs0 fs t nm rest m,
    good fs0 fs t -> t = nm ++ rest -> nodd rest -> good fs0 (fst (sys_mkdir fuel fs nm m)) t.
  Proof.
    intros fs0 fs t nm rest m [Hi Hg Hd] Ht Hr. constructor.
    - unfold sys_mkdir. destruct (kres fuel fs [] false [] nm) as [l|] eqn:Ek; [|exact Hi].
      destruct (stat fs l) eqn:Es; [exact Hi|]. simpl.
      apply inv_put_nonleaf; auto; [|intros i; discriminate].
      eapply mkdir_loc_ok; eauto.
    - eapply guard_ext; [apply sys_mkdir_symext|exact Hg].
    - apply sys_mkdir_dir. exact Hd.
  Qed.

  Lemma makedirs_rev_good : forall r fs0 fs t,
    good fs0 fs t -> nodd t -> (exists rest, t = rev r ++ rest) ->
    good fs0 (fst (makedirs_rev fuel fs r)) t.
  Proof.
    induction r as [|tail rh IH]; intros fs0 fs t Hg Hn [rest Ht]; simpl; [exact Hg|].
    assert (Hrh : exists rest', t = rev rh ++ rest').
    { exists (tail :: rest). rewrite Ht. simpl. rewrite <- app_assoc. reflexivity. }
    assert (Hrest : nodd rest) by (rewrite Ht in Hn; apply nodd_app in Hn; tauto).
    destruct (is_nil tail); [apply IH; assumption|].
    destruct (sys_exists fuel fs (rev (drop_empty_front rh))); simpl.
    - eapply mkdir_prefix_good; eauto.
    - pose proof (IH fs0 fs t Hg Hn Hrh) as H1.
      destruct (makedirs_rev fuel fs rh) as [fs1 [[|]|]]; simpl in *; auto.
      + destruct (str_eqb tail n_dot); [exact H1|].
        eapply mkdir_prefix_good; eauto.
      + destruct (str_eqb tail n_dot); [exact H1|].
        eapply mkdir_prefix_good; eauto.
  Qed.
End Makedirs.

(* ================================================================== Part 9: resolving again after a leaf was unlinked *)
Lemma is_prefix_snoc : forall l cur c,
  is_prefix l (cur ++ [c]) = true -> is_prefix l cur = false -> l = cur ++ [c].
Proof.
  induction l as [|x l IH]; intros cur c H1 H2; simpl in *; [discriminate|].
  destruct cur as [|y cur]; simpl in *.
  - apply andb_true_iff in H1 as [E H1]. apply str_eqb_eq in E. subst.
    destruct l; [reflexivity|discriminate].
  - apply andb_true_iff in H1 as [E H1]. rewrite E in H2. simpl in H2.
    apply str_eqb_eq in E. subst. f_equal. apply IH; assumption.
Qed.

Lemma is_prefix_removelast : forall l cur, is_prefix l cur = false -> is_prefix l (removelast cur) = false.
Proof.
  intros l cur H. destruct (is_prefix l (removelast cur)) eqn:E; auto.
  destruct cur as [|x cur'] eqn:Ec; [simpl in E; congruence|].
  rewrite (app_removelast_last x (l:=x :: cur')) in H by discriminate.
  rewrite (is_prefix_app_r _ _ _ E) in H. discriminate.
Qed.

Section Removed.
  Variable fs : fsys.
  Variable l : path.
  Variable i0 : N.
  Hypothesis Hleaf : stat fs l = Some (SLeaf i0).
  Hypothesis Hl : l <> [].
  Let fs1 := put fs l None.

  Lemma removed_other : forall q, is_prefix l q = false -> stat fs1 q = stat fs q /\ sym_at fs1 q = sym_at fs q.
  Proof.
    intros q Hq. assert (E : stat fs1 q = stat fs q).
    { unfold stat, fs1, put; simpl. apply t_stat_put_other. exact Hq. }
    split; [exact E|]. unfold sym_at. rewrite E. reflexivity.
  Qed.

  Lemma removed_below : forall q, is_prefix l q = true -> stat fs1 q = None.
  Proof.
    intros q Hq. unfold stat, fs1, put; simpl.
    destruct (t_stat_put_at_below l (f_root fs) None q Hl Hq (or_introl eq_refl)) as [[E [H|H]]|[E H]]; exact H.
  Qed.

  Lemma kgo_removed : forall (kr kr1 : kres_t),
    (forall st c cs x, is_prefix l c = false -> kr1 st c cs = Some x -> x = l \/ kr st c cs = Some x) ->
    forall cs st fw cur x, is_prefix l cur = false ->
      kgo kr1 fs1 st fw cs cur = Some x -> x = l \/ kgo kr fs st fw cs cur = Some x.
  Proof.
    intros kr kr1 Hrec. induction cs as [|c rest IH]; intros st fw cur x Hc Hk; simpl in *; [auto|].
    destruct (skip_comp c); [apply IH; assumption|].
    destruct (is_dotdot c); [apply IH; [apply is_prefix_removelast|]; assumption|].
    destruct (is_prefix l (cur ++ [c])) eqn:Ep.
    - pose proof (removed_below _ Ep) as Hn.
      assert (Hs : sym_at fs1 (cur ++ [c]) = None) by (unfold sym_at; rewrite Hn; reflexivity).
      rewrite Hs, Hn in Hk. destruct rest; [|discriminate]. inversion Hk; subst.
      left. symmetry. apply is_prefix_snoc; assumption.
    - destruct (removed_other _ Ep) as [Es Ey]. rewrite Ey, Es in Hk.
      destruct (sym_at fs (cur ++ [c])) as [tgt|].
      + destruct (is_nil rest && negb fw); [auto|].
        destruct (mem_path (cur ++ [c]) st); [discriminate|].
        destruct (kr1 ((cur ++ [c]) :: st) (link_base tgt cur) (comps_of tgt)) as [q|] eqn:Er; [|discriminate].
        assert (Hb : is_prefix l (link_base tgt cur) = false).
        { unfold link_base. destruct (is_abs tgt); [|exact Hc]. destruct l; [contradiction|reflexivity]. }
        destruct (Hrec _ _ _ _ Hb Er) as [E|E].
        * subst q. destruct rest as [|c2 r2]; [inversion Hk; auto|].
          unfold is_dir in Hk. rewrite (removed_below l (is_prefix_refl l)) in Hk. discriminate.
        * rewrite E. destruct rest as [|c2 r2]; [auto|].
          destruct (is_dir fs1 q) eqn:Ed; [|discriminate].
          assert (Hq : is_prefix l q = false).
          { destruct (is_prefix l q) eqn:Eq; auto. unfold is_dir in Ed. rewrite (removed_below _ Eq) in Ed. discriminate. }
          unfold is_dir in *. rewrite (proj1 (removed_other _ Hq)) in Ed. rewrite Ed.
          apply IH; assumption.
      + destruct (stat fs (cur ++ [c])) as [[m|i]|]; auto.
  Qed.

  Lemma kres_removed : forall fuel st fw cur cs x, is_prefix l cur = false ->
    kres fuel fs1 st fw cur cs = Some x -> x = l \/ kres fuel fs st fw cur cs = Some x.
  Proof.
    induction fuel as [|f IH]; intros st fw cur cs x Hc Hk; simpl in *; [discriminate|].
    eapply kgo_removed; eauto. intros st' c cs' y Hc' Hy. apply IH; assumption.
  Qed.
End Removed.

(* ================================================================== Part 10: one archive member *)
Lemma makedirs_rev_symext : forall fuel r fs, sym_ext fs (fst (makedirs_rev fuel fs r)).
Proof.
  intros fuel. induction r as [|tail rh IH]; intros fs; simpl; [apply sym_ext_refl|].
  destruct (is_nil tail); [apply IH|].
  destruct (sys_exists fuel fs (rev (drop_empty_front rh))); simpl; [apply sys_mkdir_symext|].
  pose proof (IH fs) as H1.
  destruct (makedirs_rev fuel fs rh) as [fs1 [[|]|]]; simpl in *; auto;
    (destruct (str_eqb tail n_dot); [exact H1|]; eapply sym_ext_trans; [exact H1|apply sys_mkdir_symext]).
Qed.

Lemma drop_empty_front_suffix : forall r, exists e, r = e ++ drop_empty_front r.
Proof.
  induction r as [|c r IH]; simpl; [exists []; reflexivity|].
  destruct (is_nil c); [|exists []; reflexivity].
  destruct IH as [e He]. exists (c :: e). simpl. f_equal. exact He.
Qed.

Lemma rstrip_empty_prefix : forall cs, exists e, cs = rstrip_empty cs ++ e.
Proof.
  intros cs. unfold rstrip_empty. destruct (drop_empty_front_suffix (rev cs)) as [e He].
  exists (rev e). rewrite <- rev_app_distr. rewrite <- He. rewrite rev_involutive. reflexivity.
Qed.

Lemma upper_prefix : forall t, exists rest, t = rstrip_empty (removelast t) ++ rest.
Proof.
  intros t. destruct (rstrip_empty_prefix (removelast t)) as [e He].
  destruct t as [|x t'] eqn:Et; [exists []; reflexivity|].
  exists (e ++ [last (x :: t') x]). rewrite app_assoc. rewrite <- He.
  apply app_removelast_last. discriminate.
Qed.

Section Member.
  Variable ok : path -> bool.
  Hypothesis ok_ext : forall p r, ok p = true -> ok (p ++ r) = true.
  Variable dest : path.
  Hypothesis ok_dest : forall q, is_prefix dest q = true -> ok q = true.
  Variable fuel : nat.
  Variable fs0 : fsys.
  Variable t : list name.
  Hypothesis t_nodd : nodd t.

  Definition goodA (fs : fsys) : Prop := good ok dest fuel fs0 fs t.
  Definition goodB (fs : fsys) : Prop :=
    inv ok fs0 fs /\ is_dir fs dest = true /\ kres fuel fs [] false [] t = None.
  Definition safe (fs : fsys) : Prop := inv ok fs0 fs /\ is_dir fs dest = true.

  Lemma goodA_safe : forall fs, goodA fs -> safe fs.
  Proof. intros fs [H1 H2 H3]. split; assumption. Qed.
  Lemma goodB_safe : forall fs, goodB fs -> safe fs.
  Proof. intros fs [H1 [H2 H3]]. split; assumption. Qed.

  Lemma attrs_safe : forall fs m sa, goodA fs -> safe (fst (apply_attrs fuel fs t m sa)).
  Proof.
    intros fs m sa [Hi Hg Hd]. unfold apply_attrs.
    destruct (sa && negb (is_sym (m_kind m))); [|split; assumption].
    pose proof (sys_chmod_inv ok ok_ext dest ok_dest fuel fs0 fs t (m_mode m) Hi Hg) as H1.
    pose proof (sys_chmod_dir fuel fs t (m_mode m) dest Hd) as H2.
    destruct (sys_chmod fuel fs t (m_mode m)) as [fs1 [e|]]; simpl in *; split; assumption.
  Qed.

  Lemma finish_safeA : forall m sa fs st c k,
    goodA fs -> safe (x_fs (finish fuel t m sa (mkX fs st c k))).
  Proof.
    intros m sa fs st c k Hg. unfold finish. simpl.
    destruct st; simpl; try (apply goodA_safe; exact Hg).
    pose proof (attrs_safe fs m sa Hg) as H.
    destruct (apply_attrs fuel fs t m sa) as [fs2 [|]]; simpl in *; exact H.
  Qed.

  (* no attributes are applied through links: symlink members never, hard link members since 07fa59b *)
  Lemma finish_noattrs : forall m sa r,
    (is_sym (m_kind m) = true \/ sa = false) -> x_fs (finish fuel t m sa r) = x_fs r /\ x_nmk (finish fuel t m sa r) = x_nmk r.
  Proof.
    intros m sa r H. unfold finish, apply_attrs.
    assert (E : sa && negb (is_sym (m_kind m)) = false).
    { destruct H as [H|H]; rewrite H; [apply andb_false_r|reflexivity]. }
    rewrite E. destruct (x_st r); simpl; auto.
  Qed.

  Lemma goodA_ext : forall fs fs', goodA fs -> sym_ext fs fs' -> safe fs' -> goodA fs'.
  Proof.
    intros fs fs' [Hi Hg Hd] He [Hi' Hd']. constructor; auto. eapply guard_ext; eauto.
  Qed.

  Section Body.
    Variable rec : fsys -> member -> xres.
    Hypothesis rec_safe : forall fsx fm,
      (goodA fsx \/ goodB fsx) -> x_nmk (rec fsx fm) = false -> safe (x_fs (rec fsx fm)).

    Definition fb (fsx : fsys) (found : option member) (caught : bool) : xres :=
      match found with
      | None => mkX fsx (if caught then MNonfatal else MFatal) true false
      | Some fm => let r := rec fsx fm in mkX (x_fs r) (x_st r) true (x_nmk r)
      end.

    Lemma fb_safe : forall fsx found caught,
      (goodA fsx \/ goodB fsx) -> x_nmk (fb fsx found caught) = false -> safe (x_fs (fb fsx found caught)).
    Proof.
      intros fsx found caught Hg Hk. destruct found as [fm|]; simpl in *.
      - apply rec_safe; assumption.
      - destruct Hg as [Hg|Hg]; [apply goodA_safe|apply goodB_safe]; assumption.
    Qed.

    (* after a link could not be made: no attributes are applied through it *)
    Lemma finish_fb_safe : forall m sa fsx found caught,
      (is_sym (m_kind m) = true \/ sa = false) ->
      (goodA fsx \/ goodB fsx) ->
      x_nmk (finish fuel t m sa (fb fsx found caught)) = false ->
      safe (x_fs (finish fuel t m sa (fb fsx found caught))).
    Proof.
      intros m sa fsx found caught Hm Hg Hk.
      destruct (finish_noattrs m sa (fb fsx found caught) Hm) as [E1 E2].
      rewrite E1. rewrite E2 in Hk. apply fb_safe; assumption.
    Qed.

    Lemma sys_link_fail_same : forall fs a b fs1 e, sys_link fuel fs a b = (fs1, Some e) -> fs1 = fs.
    Proof.
      intros fs a b fs1 e. unfold sys_link.
      destruct (kres fuel fs [] false [] a) as [ls|]; [|intros H; inversion H; auto].
      destruct (stat fs ls) as [[m|i]|]; try (intros H; inversion H; auto; fail).
      destruct (kres fuel fs [] false [] b) as [ld|]; [|intros H; inversion H; auto].
      destruct (stat fs ld); intros H; inversion H; auto.
    Qed.

    Lemma sys_unlink_fail_same : forall fs a fs1 e, sys_unlink fuel fs a = (fs1, Some e) -> fs1 = fs.
    Proof.
      intros fs a fs1 e. unfold sys_unlink.
      destruct (kres fuel fs [] false [] a) as [ls|]; [|intros H; inversion H; auto].
      destruct (stat fs ls) as [[m|i]|]; intros H; inversion H; auto.
    Qed.

    Lemma sys_mknode_fail_same : forall fs a v fs1 e, sys_mknode fuel fs a v = (fs1, Some e) -> fs1 = fs.
    Proof.
      intros fs a v fs1 e. unfold sys_mknode.
      destruct (kres fuel fs [] false [] a) as [ls|]; [|intros H; inversion H; auto].
      destruct (stat fs ls); intros H; inversion H; auto.
    Qed.

    Lemma write_goodA : forall fs d, goodA fs -> goodA (fst (sys_write fuel fs t d)).
    Proof.
      intros fs d HA. pose proof HA as [Hi Hg Hd].
      eapply goodA_ext; [exact HA| |split].
      - apply sys_write_symext. eapply good_fresh; eauto.
      - apply (sys_write_inv ok ok_ext dest ok_dest); assumption.
      - apply sys_write_dir; assumption.
    Qed.

    Lemma mkdir_goodA : forall fs m, goodA fs -> goodA (fst (sys_mkdir fuel fs t m)).
    Proof.
      intros fs m HA. pose proof HA as [Hi Hg Hd].
      eapply goodA_ext; [exact HA| |split].
      - apply sys_mkdir_symext.
      - apply (sys_mkdir_inv ok ok_ext dest ok_dest); assumption.
      - apply sys_mkdir_dir; assumption.
    Qed.

    Lemma mknode_safe : forall fs v, goodA fs -> safe (fst (sys_mknode fuel fs t v)).
    Proof.
      intros fs v [Hi Hg Hd]. split.
      - apply (sys_mknode_inv ok ok_ext dest ok_dest); assumption.
      - apply sys_mknode_dir; assumption.
    Qed.

    Lemma mknode_goodA : forall fs v, i_kind v <> KSym -> goodA fs -> goodA (fst (sys_mknode fuel fs t v)).
    Proof.
      intros fs v Hk HA. eapply goodA_ext; [exact HA| |apply mknode_safe; exact HA].
      apply sys_mknode_symext; [eapply good_fresh; eauto|exact Hk].
    Qed.

    Lemma root_leaf_no_dir : forall fs i d, stat fs [] = Some (SLeaf i) -> is_dir fs d = false.
    Proof.
      intros fs i d H. unfold is_dir, stat, t_stat in *. simpl in H.
      destruct (f_root fs) as [m es|j]; [discriminate|]. destruct d; reflexivity.
    Qed.

    (* makelink() of a symlink member: unlink the existing name, then create the link at the same path *)
    Lemma unlink_then_mknode : forall fs fs1 v,
      goodA fs -> sys_unlink fuel fs t = (fs1, None) ->
      safe (fst (sys_mknode fuel fs1 t v)) /\
      (forall fs2 e, sys_mknode fuel fs1 t v = (fs2, Some e) -> fs2 = fs1 /\ goodB fs1).
    Proof.
      intros fs fs1 v HA Hu. pose proof HA as [Hi Hg Hd]. unfold sys_unlink in Hu.
      destruct (kres fuel fs [] false [] t) as [l|] eqn:Ek; [|discriminate].
      destruct (stat fs l) as [[m|i]|] eqn:Es; try discriminate. inversion Hu; subst fs1; clear Hu.
      pose proof (loc_nofollow ok dest ok_dest fuel _ _ _ _ Hi Hg Ek) as Hl.
      assert (Hne : l <> []).
      { intros E. subst l. rewrite (root_leaf_no_dir _ _ dest Es) in Hd. discriminate. }
      assert (Hi1 : inv ok fs0 (put fs l None)) by (apply inv_put_nonleaf; auto; intros j; discriminate).
      assert (Hd1 : is_dir (put fs l None) dest = true) by (apply is_dir_put; eauto).
      unfold sys_mknode.
      destruct (kres fuel (put fs l None) [] false [] t) as [x|] eqn:Ek1.
      - assert (Hp : is_prefix l [] = false) by (destruct l; [contradiction|reflexivity]).
        destruct (kres_removed fs l i Es Hne fuel [] false [] t x Hp Ek1) as [E|E].
        2:{ rewrite Ek in E. inversion E. subst x.
            rewrite (removed_below fs l Hne l (is_prefix_refl l)). simpl. split.
            - split; [apply inv_create; auto|apply is_dir_create; auto].
              apply (removed_below fs l Hne l (is_prefix_refl l)).
            - intros fs2 e H. discriminate. }
        subst x. rewrite (removed_below fs l Hne l (is_prefix_refl l)). simpl. split.
        + split; [apply inv_create; auto|apply is_dir_create; auto].
          apply (removed_below fs l Hne l (is_prefix_refl l)).
        + intros fs2 e H. discriminate.
      - simpl. split; [split; assumption|].
        intros fs2 e H. inversion H; subst. split; [reflexivity|]. unfold goodB. auto.
    Qed.

    Definition lnk_cond (fs : fsys) (s : option (list name)) (m : member) (sa : bool) : Prop :=
      m_kind m = MLnk -> match s with None => True | Some src => sa = false /\ guard dest fuel fs src end.

    Lemma body_safeA : forall fs s m sa nested before whole,
      goodA fs -> lnk_cond fs s m sa ->
      x_nmk (member_body rec fuel fs t s m sa nested before whole) = false ->
      safe (x_fs (member_body rec fuel fs t s m sa nested before whole)).
    Proof.
      intros fs s m sa nested before whole HA Hl Hk. unfold member_body in *.
      destruct (m_kind m) eqn:Ekind.
      - (* MReg *)
        destruct nested; [apply goodA_safe; exact HA|].
        pose proof (write_goodA fs (m_data m) HA) as Hw.
        destruct (sys_write fuel fs t (m_data m)) as [fs1 [e|]]; simpl in Hw.
        + apply goodA_safe. exact Hw.
        + apply finish_safeA. exact Hw.
      - (* MDir *)
        pose proof (mkdir_goodA fs 448 HA) as Hw.
        destruct (sys_mkdir fuel fs t 448) as [fs1 [[|]|]]; simpl in Hw.
        + apply finish_safeA. exact Hw.
        + apply goodA_safe. exact Hw.
        + apply finish_safeA. exact Hw.
      - (* MSym *)
        assert (Hm : is_sym (m_kind m) = true \/ sa = false) by (left; rewrite Ekind; reflexivity).
        destruct (sys_lexists fuel fs t).
        + destruct (sys_unlink fuel fs t) as [fs1 [e|]] eqn:Eu.
          * apply sys_unlink_fail_same in Eu. subst fs1.
            apply (finish_fb_safe m sa fs (find_member (sym_search_name m) whole) true); auto.
          * destruct (unlink_then_mknode fs fs1 (mknode_of m) HA Eu) as [H1 H2].
            destruct (sys_mknode fuel fs1 t (mknode_of m)) as [fs2 [e|]] eqn:Em; simpl in H1.
            { destruct (H2 fs2 e eq_refl) as [E HB]. subst fs2.
              apply (finish_fb_safe m sa fs1 (find_member (sym_search_name m) whole) true); auto. }
            { destruct (finish_noattrs m sa (mkX fs2 MOk false false) Hm) as [E1 _]. rewrite E1. exact H1. }
        + pose proof (mknode_safe fs (mknode_of m) HA) as H1.
          destruct (sys_mknode fuel fs t (mknode_of m)) as [fs2 [e|]] eqn:Em; simpl in H1.
          * apply sys_mknode_fail_same in Em. subst fs2.
            apply (finish_fb_safe m sa fs (find_member (sym_search_name m) whole) true); auto.
          * destruct (finish_noattrs m sa (mkX fs2 MOk false false) Hm) as [E1 _]. rewrite E1. exact H1.
      - (* MLnk *)
        specialize (Hl Ekind).
        destruct s as [src|]; [|apply goodA_safe; exact HA].
        destruct Hl as [Hsa Hgs]. subst sa.
        assert (Hm : is_sym (m_kind m) = true \/ false = false) by (right; reflexivity).
        pose proof HA as [Hi Hg Hd].
        destruct (sys_exists fuel fs src).
        + pose proof (sys_link_inv ok ok_ext dest ok_dest fuel fs0 fs src t Hi Hgs Hg) as H1.
          pose proof (sys_link_dir fuel fs src t dest Hd) as H2.
          destruct (sys_link fuel fs src t) as [fs1 [e|]] eqn:El; simpl in H1, H2.
          * apply sys_link_fail_same in El. subst fs1.
            apply (finish_fb_safe m false fs (find_member (normname (m_link m)) before) true); auto.
          * destruct (finish_noattrs m false (mkX fs1 MOk false false) Hm) as [E1 _]. rewrite E1.
            split; assumption.
        + apply (finish_fb_safe m false fs (find_member (normname (m_link m)) before) false); auto.
      - (* MFifo *)
        assert (Hns : i_kind (mknode_of m) <> KSym) by (unfold mknode_of; rewrite Ekind; discriminate).
        pose proof (mknode_goodA fs (mknode_of m) Hns HA) as Hw.
        destruct (sys_mknode fuel fs t (mknode_of m)) as [fs1 [e|]]; simpl in Hw.
        + apply goodA_safe. exact Hw.
        + apply finish_safeA. exact Hw.
      - (* MChr *)
        assert (Hns : i_kind (mknode_of m) <> KSym) by (unfold mknode_of; rewrite Ekind; discriminate).
        pose proof (mknode_goodA fs (mknode_of m) Hns HA) as Hw.
        destruct (sys_mknode fuel fs t (mknode_of m)) as [fs1 [e|]]; simpl in Hw.
        + apply goodA_safe. exact Hw.
        + apply finish_safeA. exact Hw.
      - (* MBlk *)
        assert (Hns : i_kind (mknode_of m) <> KSym) by (unfold mknode_of; rewrite Ekind; discriminate).
        pose proof (mknode_goodA fs (mknode_of m) Hns HA) as Hw.
        destruct (sys_mknode fuel fs t (mknode_of m)) as [fs1 [e|]]; simpl in Hw.
        + apply goodA_safe. exact Hw.
        + apply finish_safeA. exact Hw.
    Qed.

    Lemma body_safeB : forall fs m sa before whole,
      goodB fs ->
      x_nmk (member_body rec fuel fs t None m sa true before whole) = false ->
      safe (x_fs (member_body rec fuel fs t None m sa true before whole)).
    Proof.
      intros fs m sa before whole HB Hk. pose proof HB as [Hi [Hd Hn]].
      assert (Hs : safe fs) by (split; assumption).
      unfold member_body in *.
      destruct (m_kind m) eqn:Ekind; try exact Hs.
      - unfold sys_mkdir. rewrite Hn. simpl. exact Hs.
      - assert (Hm : is_sym (m_kind m) = true \/ sa = false) by (left; rewrite Ekind; reflexivity).
        unfold sys_lexists, sys_mknode in Hk |- *. rewrite Hn in Hk |- *. cbv iota beta in Hk |- *.
        rewrite Hn in Hk |- *. cbv iota beta in Hk |- *.
        apply (finish_fb_safe m sa fs (find_member (sym_search_name m) whole) true); auto.
      - unfold sys_mknode. rewrite Hn. simpl. exact Hs.
      - unfold sys_mknode. rewrite Hn. simpl. exact Hs.
      - unfold sys_mknode. rewrite Hn. simpl. exact Hs.
    Qed.
  End Body.

  (* TarFile._extract_member: every state reached is confined, unless a member
     re-extracted by the fall-back had to create directories (x_nmk) *)
  Lemma extract_member_safe : forall depth fs s m sa nested before whole,
    ((goodA fs /\ lnk_cond fs s m sa) \/ (nested = true /\ s = None /\ goodB fs)) ->
    x_nmk (extract_member depth fuel fs t s m sa nested before whole) = false ->
    safe (x_fs (extract_member depth fuel fs t s m sa nested before whole)).
  Proof.
    induction depth as [|d IH]; intros fs s m sa nested before whole Hg Hk.
    - simpl. destruct Hg as [[HA _]|[_ [_ HB]]]; [apply goodA_safe|apply goodB_safe]; assumption.
    - cbn [extract_member] in *.
      set (upper := rstrip_empty (removelast t)) in *.
      assert (Hrec : forall fsx fm, goodA fsx \/ goodB fsx ->
                x_nmk (extract_member d fuel fsx t None fm true true [] whole) = false ->
                safe (x_fs (extract_member d fuel fsx t None fm true true [] whole))).
      { intros fsx fm [HA|HB] Hx; apply IH; auto. left. split; [exact HA|]. intros _. exact I. }
      destruct (sys_exists fuel fs upper) eqn:Ex; simpl in Hk |- *.
      + (* parent directories exist *)
        rewrite andb_false_r in Hk. simpl in Hk.
        destruct Hg as [[HA Hl]|[Hn [Hs HB]]].
        * apply body_safeA; auto.
        * subst nested s. apply body_safeB; auto.
      + (* os.makedirs(upperdirs) *)
        rewrite andb_true_r in Hk.
        destruct Hg as [[HA Hl]|[Hn [Hs HB]]].
        2:{ subst nested. exfalso.
            destruct (makedirs fuel fs upper) as [fsm [e|]]; simpl in Hk; discriminate. }
        assert (HAm : goodA (fst (makedirs fuel fs upper))).
        { unfold makedirs. apply makedirs_rev_good; auto.
          rewrite rev_involutive. apply upper_prefix. }
        assert (Hlm : lnk_cond (fst (makedirs fuel fs upper)) s m sa).
        { intros E. specialize (Hl E). destruct s as [src|]; auto. destruct Hl as [H1 H2]. split; auto.
          eapply guard_ext; [|exact H2]. unfold makedirs. apply makedirs_rev_symext. }
        destruct (makedirs fuel fs upper) as [fsm [e|]]; simpl in *.
        * apply goodA_safe. exact HAm.
        * apply orb_false_iff in Hk as [_ Hk]. apply body_safeA; auto.
  Qed.
End Member.

(* ================================================================== Part 11: TarFile.extract with Bob's filter *)
Lemma is_abs_lstrip : forall s, is_abs (lstrip_slash s) = false.
Proof.
  induction s as [|c r IH]; simpl; auto.
  destruct (c =? SLASH) eqn:E; [exact IH|]. simpl. exact E.
Qed.

Definition all_empty (e : list name) : Prop := forallb (@is_nil N) e = true.

Lemma drop_empty_front_split : forall r, exists e, r = e ++ drop_empty_front r /\ all_empty e.
Proof.
  induction r as [|c r IH]; simpl; [exists []; split; reflexivity|].
  destruct (is_nil c) eqn:E; [|exists []; split; reflexivity].
  destruct IH as [e [He Ha]]. exists (c :: e). split; [simpl; f_equal; exact He|].
  unfold all_empty in *. simpl. rewrite E, Ha. reflexivity.
Qed.

Lemma all_empty_rev : forall e, all_empty e -> all_empty (rev e).
Proof.
  unfold all_empty. intros e H. rewrite forallb_forall in *. intros x Hx. apply H. apply in_rev. exact Hx.
Qed.

Lemma rstrip_empty_split : forall cs, exists e, cs = rstrip_empty cs ++ e /\ all_empty e.
Proof.
  intros cs. unfold rstrip_empty. destruct (drop_empty_front_split (rev cs)) as [e [He Ha]].
  exists (rev e). split; [|apply all_empty_rev; exact Ha].
  rewrite <- rev_app_distr. rewrite <- He. rewrite rev_involutive. reflexivity.
Qed.

Lemma is_nil_skip : forall c : name, is_nil c = true -> skip_comp c = true.
Proof. intros c H. destruct c; [reflexivity|discriminate]. Qed.

Lemma pygo_all_empty : forall (rec : pyres_t) fs st e cur, all_empty e -> pygo rec fs st e cur = Some (cur, true).
Proof.
  intros rec fs st. induction e as [|c e IH]; intros cur H; simpl; [reflexivity|].
  unfold all_empty in H. simpl in H. apply andb_true_iff in H as [H1 H2].
  rewrite (is_nil_skip c H1). apply IH. exact H2.
Qed.

Lemma lexnorm_acc_app : forall a b acc, lexnorm_acc (a ++ b) acc = lexnorm_acc b (lexnorm_acc a acc).
Proof.
  induction a as [|c a IH]; intros b acc; simpl; [reflexivity|].
  destruct (skip_comp c); [apply IH|]. destruct (is_dotdot c); apply IH.
Qed.

Lemma lexnorm_acc_empty : forall e acc, all_empty e -> lexnorm_acc e acc = acc.
Proof.
  induction e as [|c e IH]; intros acc H; simpl; [reflexivity|].
  unfold all_empty in H. simpl in H. apply andb_true_iff in H as [H1 H2].
  rewrite (is_nil_skip c H1). apply IH. exact H2.
Qed.

(* trailing slashes do not matter to realpath *)
Lemma realpath_rstrip : forall fuel fs cs, realpath fuel fs (rstrip_empty cs) = realpath fuel fs cs.
Proof.
  intros fuel fs cs. destruct (rstrip_empty_split cs) as [e [He Ha]].
  unfold realpath. destruct fuel as [|f]; [reflexivity|]. simpl.
  rewrite He at 2. rewrite pygo_app.
  destruct (pygo (fun st c cs0 => pyreal f fs st c cs0) fs [] (rstrip_empty cs) []) as [[q [|]]|]; auto.
  - rewrite pygo_all_empty by exact Ha. reflexivity.
  - unfold lexnorm. rewrite (lexnorm_acc_app q e []). rewrite (lexnorm_acc_empty e _ Ha). reflexivity.
Qed.

Section Extract.
  Variable ok : path -> bool.
  Hypothesis ok_ext : forall p r, ok p = true -> ok (p ++ r) = true.
  Variable dest : path.
  Hypothesis ok_dest : forall q, is_prefix dest q = true -> ok q = true.
  Hypothesis dest_nodd : nodd dest.
  Variable fuel : nat.
  Variable fs0 : fsys.

  Lemma tar_extract_safe : forall fs m sa before whole,
    safe ok dest fs0 fs ->
    (m_kind m = MLnk -> sa = false) ->
    x_nmk (tar_extract fuel fs dest m sa before whole) = false ->
    safe ok dest fs0 (x_fs (tar_extract fuel fs dest m sa before whole)).
  Proof.
    intros fs m sa before whole [Hi Hd] Hsa Hk. unfold tar_extract in *.
    destruct (tar_filter fuel fs dest m) as [name'|] eqn:Ef; [|split; assumption].
    unfold tar_filter in Ef.
    set (nm := if is_abs (m_name m) then lstrip_slash (m_name m) else m_name m) in *.
    destruct (has_dotdot nm) eqn:Edd; [discriminate|].
    destruct (inside dest (realpath fuel fs (join_dest dest nm))) eqn:Ein; simpl in Ef; [|discriminate].
    assert (Hna : is_abs nm = false).
    { unfold nm. destruct (is_abs (m_name m)) eqn:E; [apply is_abs_lstrip|exact E]. }
    assert (Hlnk : is_lnk (m_kind m) = true -> inside dest (realpath fuel fs (join_dest dest (m_link m))) = true).
    { intros E. rewrite E in Ef. simpl in Ef.
      destruct (inside dest (realpath fuel fs (join_dest dest (m_link m)))); [reflexivity|discriminate]. }
    assert (En : name' = nm).
    { destruct (is_lnk (m_kind m) && negb (inside dest (realpath fuel fs (join_dest dest (m_link m))))); inversion Ef; reflexivity. }
    subst name'. unfold join_dest in Ein. rewrite Hna in Ein.
    set (t := rstrip_empty (dest ++ comps_of nm)) in *.
    assert (Hnodd : nodd t).
    { assert (H : nodd (dest ++ comps_of nm)).
      { unfold nodd. rewrite existsb_app. unfold nodd in dest_nodd. rewrite dest_nodd. exact Edd. }
      destruct (rstrip_empty_prefix (dest ++ comps_of nm)) as [e He]. fold t in He. rewrite He in H.
      apply nodd_app in H. tauto. }
    apply extract_member_safe; auto.
    left. split.
    - constructor; auto. unfold guard, t. rewrite realpath_rstrip. exact Ein.
    - intros Ek. simpl in Ek. rewrite Ek. simpl. split; [apply Hsa; exact Ek|].
      unfold guard. apply Hlnk. rewrite Ek. reflexivity.
  Qed.
End Extract.

(* ================================================================== Part 12: canonical paths without symbolic links *)

Lemma plain_cons : forall c cs, plain (c :: cs) -> skip_comp c = false /\ is_dotdot c = false /\ plain cs.
Proof.
  unfold plain. intros c cs H. simpl in H. apply andb_true_iff in H as [H1 H2].
  apply andb_true_iff in H1 as [H3 H4]. apply negb_true_iff in H3. apply negb_true_iff in H4. auto.
Qed.

Lemma plain_app : forall a b, plain (a ++ b) -> plain a /\ plain b.
Proof. unfold plain. intros a b H. rewrite forallb_app in H. apply andb_true_iff in H. exact H. Qed.

Lemma plain_nodd : forall cs, plain cs -> nodd cs.
Proof.
  induction cs as [|c cs IH]; intros H; [reflexivity|].
  apply plain_cons in H as [_ [H2 H3]]. unfold nodd. simpl. rewrite H2. apply IH. exact H3.
Qed.

(* where no link is on the way the kernel walks to the path itself *)
Lemma kgo_plain : forall (rec : kres_t) fs st fw cs cur x,
  plain cs ->
  (forall a b, cs = a ++ b -> a <> [] -> sym_at fs (cur ++ a) = None) ->
  kgo rec fs st fw cs cur = Some x -> x = cur ++ cs.
Proof.
  intros rec fs st fw. induction cs as [|c rest IH]; intros cur x Hp Hs Hk; simpl in Hk.
  - inversion Hk. rewrite app_nil_r. reflexivity.
  - apply plain_cons in Hp as [H1 [H2 H3]]. rewrite H1, H2 in Hk.
    rewrite (Hs [c] rest eq_refl ltac:(discriminate)) in Hk.
    destruct (stat fs (cur ++ [c])) as [[m|i]|].
    + apply IH in Hk; auto.
      * rewrite Hk. rewrite <- app_assoc. reflexivity.
      * intros a b E Ha. rewrite <- app_assoc. simpl. apply (Hs (c :: a) b); [rewrite E; reflexivity|discriminate].
    + destruct rest; [|discriminate]. inversion Hk. reflexivity.
    + destruct rest; [|discriminate]. inversion Hk. reflexivity.
Qed.

Lemma kres_plain : forall fuel fs fw cs x,
  plain cs -> (forall a b, cs = a ++ b -> a <> [] -> sym_at fs a = None) ->
  kres fuel fs [] fw [] cs = Some x -> x = cs.
Proof.
  intros fuel fs fw cs x Hp Hs Hk. destruct fuel; simpl in Hk; [discriminate|].
  apply kgo_plain in Hk; auto.
Qed.

(* a new inode is reachable only through the name it was created with *)
Lemma create_leaf_unique : forall fs l v q,
  fresh_ok fs -> stat fs l = None -> stat (create fs l v) q = Some (SLeaf (f_next fs)) -> q = l.
Proof.
  intros fs l v q Hf Hn Hq. unfold stat, create in Hq; simpl in Hq.
  destruct (is_prefix l q) eqn:Ep.
  - assert (Hl : l <> []) by (intros E; subst; apply (stat_root_some fs); exact Hn).
    assert (Hg : t_get (f_root fs) l = None).
    { unfold stat, t_stat in Hn. destruct (t_get (f_root fs) l); [discriminate|reflexivity]. }
    destruct (t_stat_put_at_below l (f_root fs) (Some (SLeaf (f_next fs))) q Hl Ep (or_intror Hg)) as [[E _]|[_ H]]; auto.
    rewrite H in Hq. discriminate.
  - rewrite t_stat_put_other in Hq by exact Ep. pose proof (Hf q _ Hq). lia.
Qed.

Lemma same_outside_refl : forall ok fs, same_outside ok fs fs.
Proof. intros ok fs p Hp. split; auto. Qed.

Lemma same_outside_trans : forall ok a b c, same_outside ok a b -> same_outside ok b c -> same_outside ok a c.
Proof.
  intros ok a b c H1 H2 p Hp. destruct (H1 p Hp) as [A1 A2]. destruct (H2 p Hp) as [B1 B2]. split.
  - rewrite B1. exact A1.
  - intros i Hi. rewrite B2 by (rewrite A1; exact Hi). apply A2. exact Hi.
Qed.

Lemma same_outside_weaken : forall (ok ok' : path -> bool) a b,
  (forall p, ok' p = false -> ok p = false) -> same_outside ok a b -> same_outside ok' a b.
Proof. intros ok ok' a b H H1 p Hp. apply H1. apply H. exact Hp. Qed.

(* ================================================================== Part 13: TarHelper.__extractPackage *)
Section Loop.
  Variable dest audit : path.
  Variable fuel : nat.
  Hypothesis dest_plain : plain dest.
  Hypothesis audit_plain : plain audit.
  Hypothesis Hda : is_prefix dest audit = false.
  Hypothesis Had : is_prefix audit dest = false.

  Definition ok1 : path -> bool := is_prefix dest.
  Definition okA : path -> bool := allowed dest audit.

  Lemma ok1_ext : forall p r, ok1 p = true -> ok1 (p ++ r) = true.
  Proof. intros. apply is_prefix_app_r. assumption. Qed.
  Lemma ok1_dest : forall q, is_prefix dest q = true -> ok1 q = true.
  Proof. auto. Qed.
  Lemma okA_ok1 : forall p, okA p = false -> ok1 p = false.
  Proof. unfold okA, allowed, ok1. intros p H. apply orb_false_iff in H. tauto. Qed.
  Lemma okA_audit_below : forall q, is_prefix audit q = true -> okA q = true.
  Proof. unfold okA, allowed. intros q H. rewrite H. apply orb_true_r. Qed.
  Lemma ok1_audit : ok1 audit = false.
  Proof. exact Hda. Qed.

  Lemma audit_prefix_not_ok1 : forall a b, audit = a ++ b -> ok1 a = false.
  Proof.
    intros a b E. unfold ok1. destruct (is_prefix dest a) eqn:H; auto.
    rewrite E in Hda. rewrite (is_prefix_app_r _ _ b H) in Hda. discriminate.
  Qed.

  Record linv (fs : fsys) : Prop := mkLinv {
    l_inv : inv ok1 fs fs;
    l_dir : is_dir fs dest = true;
    l_areg : stat fs audit = None \/
             exists i d m, stat fs audit = Some (SLeaf i) /\ inode_of fs i = Some (mkInode KReg d m);
    l_aown : forall q i, stat fs audit = Some (SLeaf i) -> stat fs q = Some (SLeaf i) -> q = audit
  }.

  Lemma inv_rebase : forall ok a b, inv ok a b -> inv ok b b.
  Proof. intros ok a b [H1 H2 H3 H4]. constructor; auto. apply same_outside_refl. Qed.

  Lemma member_step : forall fs m sa before whole,
    linv fs -> (m_kind m = MLnk -> sa = false) ->
    x_nmk (tar_extract fuel fs dest m sa before whole) = false ->
    linv (x_fs (tar_extract fuel fs dest m sa before whole)) /\
    same_outside ok1 fs (x_fs (tar_extract fuel fs dest m sa before whole)).
  Proof.
    intros fs m sa before whole [Hi Hd Hr Ho] Hsa Hk.
    destruct (tar_extract_safe ok1 ok1_ext dest ok1_dest (plain_nodd _ dest_plain) fuel fs fs m sa before whole
                (conj Hi Hd) Hsa Hk) as [Hi' Hd'].
    set (fs' := x_fs (tar_extract fuel fs dest m sa before whole)) in *.
    destruct (inv_out _ _ _ Hi' audit ok1_audit) as [Ea Eb].
    split; [|exact (inv_out _ _ _ Hi')].
    constructor.
    - eapply inv_rebase; eauto.
    - exact Hd'.
    - rewrite Ea. destruct Hr as [Hr|[i [d [mm [H1 H2]]]]]; [left; exact Hr|].
      right. exists i, d, mm. split; [exact H1|]. rewrite (Eb i H1). exact H2.
    - intros q i Sa Sq. rewrite Ea in Sa. destruct (ok1 q) eqn:Eq.
      + exfalso. apply (inv_sep _ _ _ Hi' q audit i Eq ok1_audit Sq). rewrite Ea. exact Sa.
      + destruct (inv_out _ _ _ Hi' q Eq) as [Eq1 _]. rewrite Eq1 in Sq. eapply Ho; eauto.
  Qed.

  Lemma audit_walk : forall fs fw x, linv fs -> kres fuel fs [] fw [] audit = Some x -> x = audit.
  Proof.
    intros fs fw x [Hi Hd Hr Ho] Hk. apply kres_plain in Hk; auto.
    intros a b E Ha. destruct b as [|c b].
    - rewrite app_nil_r in E. subst a. unfold sym_at.
      destruct Hr as [Hr|[i [d [m [H1 H2]]]]]; [rewrite Hr; reflexivity|]. rewrite H1, H2. reflexivity.
    - apply (inv_nosym _ _ _ Hi). eapply audit_prefix_not_ok1; eauto.
  Qed.

  Lemma under_dest_not_audit : forall p, ok1 p = true -> is_prefix audit p = false.
  Proof.
    intros p Hp. destruct (is_prefix audit p) eqn:E; auto. unfold ok1 in Hp.
    destruct (is_prefix_comparable dest audit p Hp E) as [H|H]; congruence.
  Qed.

  Lemma audit_step : forall fs d,
    linv fs ->
    linv (fst (sys_write fuel fs audit d)) /\ same_outside okA fs (fst (sys_write fuel fs audit d)).
  Proof.
    intros fs d HL. pose proof HL as [Hi Hd Hr Ho]. unfold sys_write.
    destruct (kres fuel fs [] true [] audit) as [l|] eqn:Ek; [|split; [exact HL|apply same_outside_refl]].
    apply (audit_walk fs true l HL) in Ek. subst l.
    destruct (stat fs audit) as [[m|i]|] eqn:Es; [split; [exact HL|apply same_outside_refl]| |].
    - (* existing audit file *)
      destruct (inode_of fs i) as [[[] dd mm]|] eqn:Ei; try (split; [exact HL|apply same_outside_refl]).
      simpl. split.
      + constructor.
        * destruct Hi as [H1 H2 H3 H4]. constructor; auto; [apply same_outside_refl|].
          intros q Hq. rewrite <- (H4 q Hq).
          apply (sym_at_set_inode_nonsym fs i (mkInode KReg d mm) (mkInode KReg dd mm) Ei); simpl; discriminate.
        * exact Hd.
        * right. exists i, d, mm. split; [exact Es|]. unfold inode_of, set_inode; simpl. apply ino_get_set_same.
        * exact (l_aown fs HL).
      + intros q Hq. split; [reflexivity|]. intros j Sj. unfold inode_of, set_inode; simpl.
        apply ino_get_set_other. intros E. subst j.
        rewrite (Ho q i eq_refl Sj) in Hq. unfold okA, allowed in Hq. rewrite is_prefix_refl in Hq.
        rewrite orb_true_r in Hq. discriminate.
    - (* new audit file *)
      simpl.
      assert (Hf : fresh_ok fs) by (intros p j; apply (inv_fresh _ _ _ Hi)).
      assert (Hne : audit <> []) by (intros E; rewrite E in Es; apply (stat_root_some fs); exact Es).
      assert (Hg : t_get (f_root fs) audit = None).
      { unfold stat, t_stat in Es. destruct (t_get (f_root fs) audit); [discriminate|reflexivity]. }
      assert (Hat : stat (create fs audit (mkInode KReg d DEFAULT_FILE_MODE)) audit = Some (SLeaf (f_next fs)) \/
                    stat (create fs audit (mkInode KReg d DEFAULT_FILE_MODE)) audit = None).
      { destruct (t_stat_put_at_below audit (f_root fs) (Some (SLeaf (f_next fs))) audit Hne (is_prefix_refl _) (or_intror Hg))
          as [[_ H]|[H _]]; [exact H|contradiction]. }
      split.
      + constructor.
        * constructor.
          { apply same_outside_refl. }
          { intros p j Sp. unfold stat, create in Sp; simpl in Sp. apply t_stat_put_leaf in Sp as [Sp|Sp]; simpl.
            - pose proof (Hf p j Sp). lia.
            - inversion Sp. lia. }
          { intros p q j Hp Hq Sp Sq.
            assert (Sp' : stat fs p = Some (SLeaf j)).
            { unfold stat, create in Sp; simpl in Sp. rewrite t_stat_put_other in Sp; [exact Sp|].
              apply under_dest_not_audit. exact Hp. }
            unfold stat, create in Sq; simpl in Sq. apply t_stat_put_leaf in Sq as [Sq|Sq].
            - eapply (inv_sep _ _ _ Hi p q j); eauto.
            - inversion Sq; subst j. pose proof (Hf p _ Sp'). lia. }
          { intros q Hq.
            assert (Hk : i_kind (mkInode KReg d DEFAULT_FILE_MODE) <> KSym) by (simpl; discriminate).
            rewrite (sym_at_create_nonsym fs audit _ Hf Es Hk q).
            apply (inv_nosym _ _ _ Hi). exact Hq. }
        * apply is_dir_create; assumption.
        * destruct Hat as [H|H]; [|left; exact H]. right. exists (f_next fs), d, DEFAULT_FILE_MODE.
          split; [exact H|]. unfold inode_of, create; simpl. apply ino_get_set_same.
        * intros q j Sa Sq. destruct Hat as [H|H]; rewrite H in Sa; [|discriminate]. inversion Sa; subst j.
          eapply create_leaf_unique; eauto.
      + intros q Hq. assert (Hp : is_prefix audit q = false).
        { destruct (is_prefix audit q) eqn:E; auto. rewrite (okA_audit_below q E) in Hq. discriminate. }
        split.
        * unfold stat, create; simpl. apply t_stat_put_other. exact Hp.
        * intros j Sj. unfold inode_of, create; simpl. apply ino_get_set_other. pose proof (Hf q j Sj). lia.
  Qed.

  Lemma loop_confined : forall todo fs done,
    linv fs -> snd (extract_loop fuel fs audit dest done todo) = false ->
    same_outside okA fs (fst (fst (extract_loop fuel fs audit dest done todo))).
  Proof.
    induction todo as [|f rest IH]; intros fs done HL Hk; cbn [extract_loop fst snd] in *; [apply same_outside_refl|].
    destruct (starts_with CONTENT_PREFIX (m_name f)).
    - destruct (is_lnk (m_kind f) && negb (starts_with CONTENT_PREFIX (m_link f))); [apply same_outside_refl|].
      set (f' := mkMember (drop8 (m_name f)) (m_kind f) (if is_lnk (m_kind f) then drop8 (m_link f) else m_link f)
                          (m_mode f) (m_data f)) in *.
      set (r := tar_extract fuel fs dest f' (negb (is_lnk (m_kind f))) done (rev rest ++ f' :: done)) in *.
      assert (Hsa : m_kind f' = MLnk -> negb (is_lnk (m_kind f)) = false).
      { simpl. intros E. rewrite E. reflexivity. }
      assert (Hstep : x_nmk r = false -> linv (x_fs r) /\ same_outside okA fs (x_fs r)).
      { intros Hn. destruct (member_step fs f' _ done (rev rest ++ f' :: done) HL Hsa Hn) as [H1 H2].
        split; [exact H1|]. eapply same_outside_weaken; [|exact H2]. apply okA_ok1. }
      destruct (x_st r); destruct (x_consumed r); simpl in *;
        try (apply Hstep; exact Hk);
        (destruct (extract_loop fuel (x_fs r) audit dest (f' :: done) rest) as [[fs2 o] k] eqn:El; simpl in *;
         apply orb_false_iff in Hk as [Hk1 Hk2]; destruct (Hstep Hk1) as [H1 H2];
         eapply same_outside_trans; [exact H2|];
         specialize (IH (x_fs r) (f' :: done) H1); rewrite El in IH; apply IH; exact Hk2).
    - destruct (str_eqb (m_name f) AUDIT_NAME).
      + destruct (m_kind f); try apply same_outside_refl.
        destruct (audit_step fs (m_data f) HL) as [H1 H2].
        destruct (sys_write fuel fs audit (m_data f)) as [fs1 [e|]]; simpl in *; [exact H2|].
        eapply same_outside_trans; [exact H2|]. apply IH; assumption.
      + destruct (str_eqb (m_name f) CONTENT_NAME || str_eqb (m_name f) META_NAME); [|apply same_outside_refl].
        apply IH; assumption.
  Qed.
End Loop.

(* ================================================================== Part 14: TarHelper._extract *)
Lemma t_stat_put_same : forall p n t m v,
  t_stat t p = Some (SDir m) -> t_stat (t_put t (p ++ [n]) (Some v)) (p ++ [n]) = Some v.
Proof.
  unfold t_stat. induction p as [|c p IH]; intros n t m v Hd.
  - simpl in Hd. destruct t as [m0 es|j]; [|discriminate]. cbn [app t_put t_get]. rewrite assoc_set_same.
    destruct v as [m'|i]; simpl; [|reflexivity]. destruct (assoc n es) as [[]|]; reflexivity.
  - destruct t as [m0 es|j]; [|discriminate]. simpl in Hd.
    destruct (assoc c es) as [ch|] eqn:Ea; [|discriminate].
    cbn [app t_put]. destruct (p ++ [n]) eqn:Epn; [destruct p; discriminate|]. rewrite <- Epn.
    rewrite Ea. cbn [t_get]. rewrite assoc_set_same. eapply IH. exact Hd.
Qed.

Section Prologue.
  Variable dest audit : path.
  Variable fuel : nat.
  Hypothesis dest_plain : plain dest.
  Hypothesis audit_plain : plain audit.
  Hypothesis Hda : is_prefix dest audit = false.
  Hypothesis Had : is_prefix audit dest = false.

  Lemma okA_ext : forall p r, okA dest audit p = true -> okA dest audit (p ++ r) = true.
  Proof.
    unfold okA, allowed. intros p r H. apply orb_true_iff in H as [H|H];
      rewrite (is_prefix_app_r _ _ r H); [reflexivity|apply orb_true_r].
  Qed.

  Lemma put_okA : forall fs l v, okA dest audit l = true -> same_outside (okA dest audit) fs (put fs l v).
  Proof.
    intros fs l v Hl q Hq. split; [|reflexivity].
    unfold stat, put; simpl. apply t_stat_put_other.
    apply (ok_not_below (okA dest audit) okA_ext); assumption.
  Qed.

  Lemma okA_dest : okA dest audit dest = true.
  Proof. unfold okA, allowed. rewrite is_prefix_refl. reflexivity. Qed.
  Lemma okA_audit : okA dest audit audit = true.
  Proof. unfold okA, allowed. rewrite is_prefix_refl. apply orb_true_r. Qed.

  Lemma remove_path_outside : forall fs p, okA dest audit p = true ->
    same_outside (okA dest audit) fs (remove_path fuel fs p).
  Proof. intros fs p Hp. unfold remove_path. destruct (stat fs p); [apply put_okA; exact Hp|apply same_outside_refl]. Qed.

  Lemma remove_path_gone : forall fs p q, p <> [] -> is_prefix p q = true -> stat (remove_path fuel fs p) q = None.
  Proof.
    intros fs p q Hp Hq. unfold remove_path. destruct (stat fs p) eqn:Es.
    - unfold stat, put; simpl.
      destruct (t_stat_put_at_below p (f_root fs) None q Hp Hq (or_introl eq_refl)) as [[_ [H|H]]|[_ H]]; exact H.
    - apply is_prefix_app in Hq as [r ->]. apply t_stat_none_below. exact Es.
  Qed.

  Lemma remove_path_other : forall fs p q, is_prefix p q = false -> stat (remove_path fuel fs p) q = stat fs q.
  Proof.
    intros fs p q Hq. unfold remove_path. destruct (stat fs p); [|reflexivity].
    unfold stat, put; simpl. apply t_stat_put_other. exact Hq.
  Qed.

  Lemma remove_path_leaf : forall fs p q i, stat (remove_path fuel fs p) q = Some (SLeaf i) -> stat fs q = Some (SLeaf i).
  Proof.
    intros fs p q i. unfold remove_path. destruct (stat fs p); [|auto].
    unfold stat, put; simpl. intros H. apply t_stat_put_leaf in H as [H|H]; [exact H|discriminate].
  Qed.

  Lemma remove_path_tab : forall fs p, f_inodes (remove_path fuel fs p) = f_inodes fs /\ f_next (remove_path fuel fs p) = f_next fs.
  Proof. intros. unfold remove_path. destruct (stat fs p); split; reflexivity. Qed.

  Definition condP (fs : fsys) : Prop :=
    (forall a b, dest = a ++ b -> a <> [] -> sym_at fs a = None) /\
    (forall a b, dest = a ++ b -> b <> [] -> stat fs a <> None).

  Lemma mkdir_plain_step : forall fs nm rest m,
    dest = nm ++ rest -> condP fs ->
    (rest <> [] -> fst (sys_mkdir fuel fs nm m) = fs) /\
    (rest = [] -> (fst (sys_mkdir fuel fs nm m) = fs /\ snd (sys_mkdir fuel fs nm m) <> None) \/
                  (sys_mkdir fuel fs nm m = (put fs dest (Some (SDir m)), None) /\ stat fs dest = None)).
  Proof.
    intros fs nm rest m Hd [C1 C2]. unfold sys_mkdir.
    destruct (kres fuel fs [] false [] nm) as [x|] eqn:Ek.
    - assert (Hx : x = nm).
      { apply kres_plain in Ek; auto.
        - rewrite Hd in dest_plain. apply plain_app in dest_plain. tauto.
        - intros a b E Ha. apply (C1 a (b ++ rest)); [rewrite Hd, E, app_assoc; reflexivity|exact Ha]. }
      subst x. destruct (stat fs nm) eqn:Es; simpl.
      + split; [reflexivity|]. intros _. left. split; [reflexivity|discriminate].
      + split.
        * intros Hr. exfalso. apply (C2 nm rest Hd Hr). exact Es.
        * intros Hr. subst rest. rewrite app_nil_r in Hd. subst nm. right. split; [reflexivity|exact Es].
    - simpl. split; [reflexivity|]. intros _. left. split; [reflexivity|discriminate].
  Qed.

  Lemma plain_not_dot : forall c, skip_comp c = false -> is_nil c = false /\ str_eqb c n_dot = false.
  Proof.
    intros c H. unfold skip_comp in H. apply orb_false_iff in H as [H1 H2]. split; [|exact H2].
    destruct c; [discriminate|reflexivity].
  Qed.

  Lemma makedirs_plain : forall r fs rest,
    dest = rev r ++ rest -> condP fs ->
    (rest <> [] -> fst (makedirs_rev fuel fs r) = fs) /\
    (rest = [] -> (fst (makedirs_rev fuel fs r) = fs /\ snd (makedirs_rev fuel fs r) <> None) \/
                  (makedirs_rev fuel fs r = (put fs dest (Some (SDir DEFAULT_DIR_MODE)), None) /\ stat fs dest = None)).
  Proof.
    induction r as [|tail rh IH]; intros fs rest Hd HC.
    - simpl. split; [reflexivity|]. intros _. left. split; [reflexivity|discriminate].
    - cbn [makedirs_rev].
      assert (Hd' : dest = rev rh ++ (tail :: rest)).
      { rewrite Hd. simpl. rewrite <- app_assoc. reflexivity. }
      assert (Ht : skip_comp tail = false).
      { rewrite Hd' in dest_plain. apply plain_app in dest_plain as [_ H]. apply plain_cons in H. tauto. }
      destruct (plain_not_dot tail Ht) as [Hn Hdot]. rewrite Hn.
      destruct (IH fs (tail :: rest) Hd' HC) as [IH1 _].
      specialize (IH1 ltac:(discriminate)).
      assert (Hname : dest = rev (tail :: rh) ++ rest) by exact Hd.
      pose proof (mkdir_plain_step fs (rev (tail :: rh)) rest DEFAULT_DIR_MODE Hname HC) as Hstep.
      destruct (negb (sys_exists fuel fs (rev (drop_empty_front rh)))); [|exact Hstep].
      destruct (makedirs_rev fuel fs rh) as [fs1 e1]. simpl in IH1. subst fs1.
      destruct e1 as [[|]|]; try exact Hstep; try (rewrite Hdot; exact Hstep).
      split; [reflexivity|]. intros _. left. split; [reflexivity|discriminate].
  Qed.

  Lemma strict_prefix_not : forall (d x b : path), d = x ++ b -> b <> [] -> is_prefix d x = false.
  Proof.
    intros d x b E Hb. destruct (is_prefix d x) eqn:H; auto.
    apply is_prefix_app in H as [r Hr]. exfalso. apply Hb.
    assert (L : (length d = length d + length r + length b)%nat).
    { rewrite E at 1. rewrite Hr. rewrite !app_length. lia. }
    destruct b; [reflexivity|simpl in L; lia].
  Qed.

  Lemma strict_prefix_outside : forall x b, dest = x ++ b -> b <> [] -> okA dest audit x = false.
  Proof.
    intros x b E Hb. unfold okA, allowed. rewrite (strict_prefix_not dest x b E Hb). simpl.
    destruct (is_prefix audit x) eqn:H; auto.
    assert (Hx : is_prefix x dest = true) by (apply is_prefix_app; exists b; exact E).
    rewrite (is_prefix_trans _ _ _ H Hx) in Had. discriminate.
  Qed.

  Theorem extract_confined_partial_proof : forall fs a,
    fresh_ok fs ->
    (forall q, okA dest audit q = false -> sym_at fs q = None) ->
    (forall x b, dest = x ++ b -> b <> [] -> is_dir fs x = true) ->
    snd (bob_extract fuel fs audit dest a) = false ->
    same_outside (okA dest audit) fs (fst (fst (bob_extract fuel fs audit dest a))).
  Proof.
    intros fs a Hf Hsym Hanc Hk.
    assert (Hdne : dest <> []) by (intros E; rewrite E in Hda; simpl in Hda; discriminate).
    assert (Hane : audit <> []) by (intros E; rewrite E in Had; simpl in Had; discriminate).
    unfold bob_extract in *.
    set (fs1 := remove_path fuel fs audit) in *.
    set (fs2 := remove_path fuel fs1 dest) in *.
    assert (O12 : same_outside (okA dest audit) fs fs2).
    { eapply same_outside_trans; [apply remove_path_outside; apply okA_audit|apply remove_path_outside; apply okA_dest]. }
    assert (Hdest2 : forall q, is_prefix dest q = true -> stat fs2 q = None).
    { intros q Hq. apply remove_path_gone; assumption. }
    assert (Haud2 : forall q, is_prefix audit q = true -> stat fs2 q = None).
    { intros q Hq. unfold fs2. rewrite remove_path_other.
      - apply remove_path_gone; assumption.
      - destruct (is_prefix dest q) eqn:E; auto.
        destruct (is_prefix_comparable dest audit q E Hq) as [H|H]; congruence. }
    assert (Hsym2 : forall q, okA dest audit q = false -> sym_at fs2 q = None).
    { intros q Hq. rewrite <- (Hsym q Hq). destruct (O12 q Hq) as [E1 E2]. apply sym_at_outside_eq; assumption. }
    assert (HC : condP fs2).
    { split.
      - intros x b E Hx. destruct b as [|c b].
        + rewrite app_nil_r in E. subst x. unfold sym_at. rewrite (Hdest2 dest (is_prefix_refl _)). reflexivity.
        + apply Hsym2. eapply strict_prefix_outside; [exact E|discriminate].
      - intros x b E Hb. destruct (O12 x (strict_prefix_outside x b E Hb)) as [E1 _]. rewrite E1.
        specialize (Hanc x b E Hb). unfold is_dir in Hanc. destruct (stat fs x); [discriminate|discriminate]. }
    assert (Hmk : dest = rev (rev dest) ++ []) by (rewrite rev_involutive, app_nil_r; reflexivity).
    destruct (makedirs_plain (rev dest) fs2 [] Hmk HC) as [_ Hm]. specialize (Hm eq_refl).
    unfold makedirs in *.
    destruct Hm as [[Hm1 Hm2]|[Hm1 Hm2]].
    - destruct (makedirs_rev fuel fs2 (rev dest)) as [fs3 [e|]]; simpl in *; [subst fs3; exact O12|contradiction].
    - rewrite Hm1 in *. set (fs3 := put fs2 dest (Some (SDir DEFAULT_DIR_MODE))) in *.
      assert (O13 : same_outside (okA dest audit) fs fs3).
      { eapply same_outside_trans; [exact O12|apply put_okA; apply okA_dest]. }
      assert (Hleaf3 : forall p i, stat fs3 p = Some (SLeaf i) -> stat fs p = Some (SLeaf i)).
      { intros p i H. unfold fs3, stat, put in H; simpl in H. apply t_stat_put_leaf in H as [H|H]; [|discriminate].
        apply (remove_path_leaf fs audit). apply (remove_path_leaf fs1 dest). exact H. }
      assert (Hnext3 : f_next fs3 = f_next fs).
      { unfold fs3, put; simpl. unfold fs2. rewrite (proj2 (remove_path_tab fs1 dest)).
        apply (proj2 (remove_path_tab fs audit)). }
      assert (Hg2 : t_get (f_root fs2) dest = None).
      { unfold stat, t_stat in Hm2. destruct (t_get (f_root fs2) dest); [discriminate|reflexivity]. }
      assert (Hin3 : forall p, is_prefix dest p = true -> forall i, stat fs3 p <> Some (SLeaf i)).
      { intros p Hp i H. unfold fs3, stat, put in H; simpl in H.
        destruct (t_stat_put_at_below dest (f_root fs2) (Some (SDir DEFAULT_DIR_MODE)) p Hdne Hp (or_intror Hg2))
          as [[_ [E|E]]|[_ E]]; rewrite E in H; discriminate. }
      assert (HL : linv dest audit fs3).
      { constructor.
        - constructor.
          + apply same_outside_refl.
          + intros p i H. rewrite Hnext3. apply (Hf p i). apply Hleaf3. exact H.
          + intros p q i Hp Hq Sp Sq. exact (Hin3 p Hp i Sp).
          + intros q Hq. unfold ok1 in Hq.
            assert (E : stat fs3 q = stat fs2 q) by (unfold fs3, stat, put; simpl; apply t_stat_put_other; exact Hq).
            assert (Es : sym_at fs3 q = sym_at fs2 q) by (unfold sym_at; rewrite E; reflexivity).
            rewrite Es. destruct (is_prefix audit q) eqn:Ea.
            * unfold sym_at. rewrite (Haud2 q Ea). reflexivity.
            * apply Hsym2. unfold okA, allowed. rewrite Hq, Ea. reflexivity.
        - unfold is_dir.
          rewrite (app_removelast_last (l:=dest) [] Hdne).
          assert (Hpar : exists m, stat fs2 (removelast dest) = Some (SDir m)).
          { assert (E : dest = removelast dest ++ [last dest []]) by (apply app_removelast_last; exact Hdne).
            assert (Hb : [last dest []] <> []) by discriminate.
            destruct (O12 _ (strict_prefix_outside _ _ E Hb)) as [E1 _]. rewrite E1.
            specialize (Hanc _ _ E Hb). unfold is_dir in Hanc.
            destruct (stat fs (removelast dest)) as [[m|i]|]; try discriminate. eauto. }
          destruct Hpar as [m Hpar]. unfold fs3, stat, put; simpl.
          rewrite <- (app_removelast_last (l:=dest) [] Hdne) at 1.
          rewrite (app_removelast_last (l:=dest) [] Hdne) at 1 2.
          unfold stat in Hpar. rewrite (t_stat_put_same _ _ _ m _ Hpar). reflexivity.
        - left. unfold fs3, stat, put; simpl. rewrite t_stat_put_other by exact Hda.
          apply (Haud2 audit (is_prefix_refl _)).
        - intros q i H. exfalso. unfold fs3, stat, put in H; simpl in H. rewrite t_stat_put_other in H by exact Hda.
          pose proof (Haud2 audit (is_prefix_refl _)) as H0. unfold stat in H0. rewrite H0 in H. discriminate. }
      destruct (a_pax a) as [v|]; [|exact O13].
      destruct (str_eqb v VSN_ONE); [|exact O13].
      pose proof (loop_confined dest audit fuel dest_plain audit_plain Hda Had (a_members a) fs3 [] HL) as Hloop.
      destruct (extract_loop fuel fs3 audit dest [] (a_members a)) as [[fs4 o] k] eqn:El.
      simpl in Hloop. eapply same_outside_trans; [exact O13|].
      destruct o; simpl in *; apply Hloop; exact Hk.
  Qed.
End Prologue.

(* ================================================================== Part 15: the diagnostic flag implies rejection; rejection theorems *)
Lemma finish_flags : forall fuel t m sa r,
  x_consumed (finish fuel t m sa r) = x_consumed r /\ x_nmk (finish fuel t m sa r) = x_nmk r.
Proof.
  intros. unfold finish. destruct (x_st r); auto.
  destruct (apply_attrs fuel (x_fs r) t m sa) as [fs2 [|]]; auto.
Qed.

Lemma member_body_flag : forall rec fuel fs t s m sa nested before whole,
  x_nmk (member_body rec fuel fs t s m sa nested before whole) = true ->
  x_consumed (member_body rec fuel fs t s m sa nested before whole) = true.
Proof.
  intros rec fuel fs t s m sa nested before whole. unfold member_body.
  destruct (m_kind m).
  - destruct nested; [simpl; discriminate|].
    destruct (sys_write fuel fs t (m_data m)) as [fs1 [e|]]; [simpl; discriminate|].
    destruct (finish_flags fuel t m sa (mkX fs1 MOk false false)) as [E1 E2]. rewrite E1, E2. simpl. discriminate.
  - destruct (sys_mkdir fuel fs t 448) as [fs1 [[|]|]]; try (simpl; discriminate);
      destruct (finish_flags fuel t m sa (mkX fs1 MOk false false)) as [E1 E2]; rewrite E1, E2; simpl; discriminate.
  - destruct (if sys_lexists fuel fs t then sys_unlink fuel fs t else (fs, None)) as [fs1 [e1|]].
    + match goal with |- x_nmk (finish _ _ _ _ ?r) = true -> _ =>
        destruct (finish_flags fuel t m sa r) as [E1 E2]; rewrite E1, E2 end.
      destruct (find_member (sym_search_name m) whole); simpl; auto.
    + destruct (sys_mknode fuel fs1 t (mknode_of m)) as [fs2 [e|]].
      * match goal with |- x_nmk (finish _ _ _ _ ?r) = true -> _ =>
          destruct (finish_flags fuel t m sa r) as [E1 E2]; rewrite E1, E2 end.
        destruct (find_member (sym_search_name m) whole); simpl; auto.
      * destruct (finish_flags fuel t m sa (mkX fs2 MOk false false)) as [E1 E2]. rewrite E1, E2. simpl. discriminate.
  - destruct s as [src|]; [|simpl; discriminate].
    destruct (sys_exists fuel fs src).
    + destruct (sys_link fuel fs src t) as [fs1 [e|]].
      * match goal with |- x_nmk (finish _ _ _ _ ?r) = true -> _ =>
          destruct (finish_flags fuel t m sa r) as [E1 E2]; rewrite E1, E2 end.
        destruct (find_member (normname (m_link m)) before); simpl; auto.
      * destruct (finish_flags fuel t m sa (mkX fs1 MOk false false)) as [E1 E2]. rewrite E1, E2. simpl. discriminate.
    + match goal with |- x_nmk (finish _ _ _ _ ?r) = true -> _ =>
        destruct (finish_flags fuel t m sa r) as [E1 E2]; rewrite E1, E2 end.
      destruct (find_member (normname (m_link m)) before); simpl; auto.
  - destruct (sys_mknode fuel fs t (mknode_of m)) as [fs1 [e|]]; [simpl; discriminate|].
    destruct (finish_flags fuel t m sa (mkX fs1 MOk false false)) as [E1 E2]. rewrite E1, E2. simpl. discriminate.
  - destruct (sys_mknode fuel fs t (mknode_of m)) as [fs1 [e|]]; [simpl; discriminate|].
    destruct (finish_flags fuel t m sa (mkX fs1 MOk false false)) as [E1 E2]. rewrite E1, E2. simpl. discriminate.
  - destruct (sys_mknode fuel fs t (mknode_of m)) as [fs1 [e|]]; [simpl; discriminate|].
    destruct (finish_flags fuel t m sa (mkX fs1 MOk false false)) as [E1 E2]. rewrite E1, E2. simpl. discriminate.
Qed.

Lemma tar_extract_flag : forall fuel fs dest m sa before whole,
  x_nmk (tar_extract fuel fs dest m sa before whole) = true ->
  x_consumed (tar_extract fuel fs dest m sa before whole) = true.
Proof.
  intros fuel fs dest m sa before whole. unfold tar_extract.
  destruct (tar_filter fuel fs dest m) as [nm|]; [|simpl; discriminate].
  cbn [extract_member]. rewrite andb_false_l.
  match goal with |- context [if ?c then makedirs ?a ?b ?d else _] => destruct (if c then makedirs a b d else (fs, None)) as [fsm [e|]] end;
    [simpl; discriminate|].
  simpl. apply member_body_flag.
Qed.

(* the flag is only ever raised on a rejected extraction *)
Lemma extract_loop_flag : forall fuel todo fs audit dest done,
  snd (extract_loop fuel fs audit dest done todo) = true ->
  snd (fst (extract_loop fuel fs audit dest done todo)) = Rejected.
Proof.
  intros fuel. induction todo as [|f rest IH]; intros fs audit dest done; cbn [extract_loop fst snd]; [discriminate|].
  destruct (starts_with CONTENT_PREFIX (m_name f)).
  - destruct (is_lnk (m_kind f) && negb (starts_with CONTENT_PREFIX (m_link f))); [simpl; discriminate|].
    match goal with |- context [tar_extract ?a ?b ?c ?d ?e ?g ?h] => set (r := tar_extract a b c d e g h) end.
    pose proof (tar_extract_flag _ _ _ _ _ _ _ : x_nmk r = true -> x_consumed r = true) as Hf.
    destruct (x_st r); destruct (x_consumed r) eqn:Ec; simpl; auto;
      (match goal with |- context [extract_loop ?a ?b ?c ?d ?e ?g] =>
         specialize (IH b c d e); destruct (extract_loop a b c d e g) as [[fs2 o] k] end;
       simpl in *; intros H; apply orb_true_iff in H as [H|H]; [specialize (Hf H); discriminate|auto]).
  - destruct (str_eqb (m_name f) AUDIT_NAME).
    + destruct (m_kind f); try (simpl; discriminate).
      destruct (sys_write fuel fs audit (m_data f)) as [fs1 [e|]]; [simpl; discriminate|]. apply IH.
    + destruct (str_eqb (m_name f) CONTENT_NAME || str_eqb (m_name f) META_NAME); [apply IH|simpl; discriminate].
Qed.

Lemma bob_extract_flag : forall fuel fs audit dest a,
  snd (fst (bob_extract fuel fs audit dest a)) = Extracted -> snd (bob_extract fuel fs audit dest a) = false.
Proof.
  intros fuel fs audit dest a. unfold bob_extract.
  destruct (makedirs fuel (remove_path fuel (remove_path fuel fs audit) dest) dest) as [fs3 [e|]]; [simpl; discriminate|].
  destruct (a_pax a) as [v|]; [|simpl; discriminate].
  destruct (str_eqb v VSN_ONE); [|simpl; discriminate].
  pose proof (extract_loop_flag fuel (a_members a) fs3 audit dest []) as H.
  destruct (extract_loop fuel fs3 audit dest [] (a_members a)) as [[fs4 o] k]. simpl in *.
  destruct o; simpl.
  - intros _. destruct k; [specialize (H eq_refl); discriminate|reflexivity].
  - discriminate.
Qed.

(* ---- what an extraction that is not rejected implies about the artifact *)

Lemma extract_loop_classified : forall fuel todo fs audit dest done,
  snd (fst (extract_loop fuel fs audit dest done todo)) = Extracted -> forallb classified todo = true.
Proof.
  intros fuel. induction todo as [|f rest IH]; intros fs audit dest done; cbn [extract_loop fst snd forallb]; [reflexivity|].
  unfold classified at 1.
  destruct (starts_with CONTENT_PREFIX (m_name f)).
  - destruct (is_lnk (m_kind f) && negb (starts_with CONTENT_PREFIX (m_link f))); [simpl; discriminate|].
    match goal with |- context [tar_extract ?a ?b ?c ?d ?e ?g ?h] => set (r := tar_extract a b c d e g h) end.
    destruct (x_st r); destruct (x_consumed r); simpl; try discriminate;
      (match goal with |- context [extract_loop ?a ?b ?c ?d ?e ?g] =>
         specialize (IH b c d e); destruct (extract_loop a b c d e g) as [[fs2 o] k] end; simpl in *; exact IH).
  - destruct (str_eqb (m_name f) AUDIT_NAME); simpl.
    + destruct (m_kind f); try (simpl; discriminate).
      destruct (sys_write fuel fs audit (m_data f)) as [fs1 [e|]]; [simpl; discriminate|]. apply IH.
    + destruct (str_eqb (m_name f) CONTENT_NAME || str_eqb (m_name f) META_NAME); [apply IH|simpl; discriminate].
Qed.

Lemma bob_extract_accepts : forall fuel fs audit dest a,
  snd (fst (bob_extract fuel fs audit dest a)) = Extracted ->
  a_pax a = Some VSN_ONE /\ forallb classified (a_members a) = true /\ a_tail_ok a = true.
Proof.
  intros fuel fs audit dest a. unfold bob_extract.
  destruct (makedirs fuel (remove_path fuel (remove_path fuel fs audit) dest) dest) as [fs3 [e|]]; [simpl; discriminate|].
  destruct (a_pax a) as [v|]; [|simpl; discriminate].
  destruct (str_eqb v VSN_ONE) eqn:Ev; [|simpl; discriminate].
  apply str_eqb_eq in Ev. subst v.
  pose proof (extract_loop_classified fuel (a_members a) fs3 audit dest []) as H.
  destruct (extract_loop fuel fs3 audit dest [] (a_members a)) as [[fs4 o] k]. simpl in *.
  destruct o; simpl; [|discriminate].
  destruct (a_tail_ok a); [|discriminate]. intros _. auto.
Qed.

Lemma download_accept : forall (H : str -> str) (recorded : str -> option str) fuel fs audit dest a fs' h,
  download H recorded fuel fs audit dest a = (fs', Accepted h) ->
  exists art ab k, a = Some art /\ bob_extract fuel fs audit dest art = (fs', Extracted, k) /\
    sys_exists fuel fs' audit = true /\
    audit_bytes fs' audit = Some ab /\ recorded ab = Some h /\ hash_dir H fs' dest = Some h.
Proof.
  intros H recorded fuel fs audit dest a fs' h. unfold download.
  destruct a as [art|]; [|discriminate].
  destruct (bob_extract fuel fs audit dest art) as [[fs1 [|]] k] eqn:Eb; [|discriminate].
  destruct (sys_exists fuel fs1 audit) eqn:Ee; simpl; [|discriminate].
  destruct (audit_bytes fs1 audit) as [ab|] eqn:Ea; [|discriminate].
  destruct (hash_dir H fs1 dest) as [hh|] eqn:Eh; [|discriminate].
  destruct (recorded ab) as [rh|] eqn:Er; [|discriminate].
  destruct (str_eqb rh hh) eqn:Es; [|discriminate].
  apply str_eqb_eq in Es. subst rh. intros E. inversion E; subst.
  exists art, ab, k. auto 10.
Qed.

(* ================================================================== the statements of Properties.v *)
Lemma extract_confined_partial_stmt : forall fuel fs audit dest a,
  plain dest -> plain audit ->
  is_prefix dest audit = false -> is_prefix audit dest = false ->
  fresh_ok fs ->
  (forall q, allowed dest audit q = false -> sym_at fs q = None) ->
  (forall x b, dest = x ++ b -> b <> [] -> is_dir fs x = true) ->
  snd (bob_extract fuel fs audit dest a) = false ->
  same_outside (allowed dest audit) fs (fst (fst (bob_extract fuel fs audit dest a))).
Proof.
  intros fuel fs audit dest a Hd Ha H1 H2 Hf Hs Hp Hk.
  exact (extract_confined_partial_proof dest audit fuel Hd Ha H1 H2 fs a Hf Hs Hp Hk).
Qed.

Lemma accepted_extraction_confined_stmt : forall fuel fs audit dest a,
  plain dest -> plain audit ->
  is_prefix dest audit = false -> is_prefix audit dest = false ->
  fresh_ok fs ->
  (forall q, allowed dest audit q = false -> sym_at fs q = None) ->
  (forall x b, dest = x ++ b -> b <> [] -> is_dir fs x = true) ->
  snd (fst (bob_extract fuel fs audit dest a)) = Extracted ->
  same_outside (allowed dest audit) fs (fst (fst (bob_extract fuel fs audit dest a))).
Proof.
  intros fuel fs audit dest a Hd Ha H1 H2 Hf Hs Hp Hk.
  exact (extract_confined_partial_proof dest audit fuel Hd Ha H1 H2 fs a Hf Hs Hp
           (bob_extract_flag fuel fs audit dest a Hk)).
Qed.

Lemma member_extraction_confined_stmt : forall (ok : path -> bool) dest fuel fs0 fs m sa before whole,
  (forall p r, ok p = true -> ok (p ++ r) = true) ->
  (forall q, is_prefix dest q = true -> ok q = true) ->
  nodd dest ->
  inv ok fs0 fs /\ is_dir fs dest = true ->
  (m_kind m = MLnk -> sa = false) ->
  x_nmk (tar_extract fuel fs dest m sa before whole) = false ->
  inv ok fs0 (x_fs (tar_extract fuel fs dest m sa before whole)) /\
  is_dir (x_fs (tar_extract fuel fs dest m sa before whole)) dest = true.
Proof.
  intros ok dest fuel fs0 fs m sa before whole H1 H2 H3 H4 H5 H6.
  exact (tar_extract_safe ok H1 dest H2 H3 fuel fs0 fs m sa before whole H4 H5 H6).
Qed.

(* ================================================================== the filter judges the CURRENT file system state *)
(* _tarExtractFilter resolves the full member path (and hard link target) in the
   file system state it is called in: an accepted member satisfies [guard] for
   that very state.  Nothing resolved for an earlier member is reused. *)
Lemma filter_judges_current_state_stmt : forall fuel fs dest m nm,
  tar_filter fuel fs dest m = Some nm ->
  has_dotdot nm = false /\
  inside dest (realpath fuel fs (join_dest dest nm)) = true /\
  (is_lnk (m_kind m) = true -> inside dest (realpath fuel fs (join_dest dest (m_link m))) = true).
Proof.
  intros fuel fs dest m nm. unfold tar_filter.
  set (n0 := if is_abs (m_name m) then lstrip_slash (m_name m) else m_name m).
  destruct (has_dotdot n0) eqn:E1; [discriminate|].
  destruct (inside dest (realpath fuel fs (join_dest dest n0))) eqn:E2; simpl; [|discriminate].
  destruct (is_lnk (m_kind m)) eqn:E3; simpl.
  - destruct (inside dest (realpath fuel fs (join_dest dest (m_link m)))) eqn:E4; simpl; [|discriminate].
    intros H; inversion H; subst. auto.
  - intros H; inversion H; subst. split; [exact E1|]. split; [exact E2|]. discriminate.
Qed.

(* TarHelper.__extractPackage hands every content member to TarFile.extract in
   the state its predecessor left, and the next member gets the state this one left. *)
Lemma loop_threads_state_stmt : forall fuel fs audit dest done f rest,
  starts_with CONTENT_PREFIX (m_name f) = true ->
  is_lnk (m_kind f) && negb (starts_with CONTENT_PREFIX (m_link f)) = false ->
  let f' := mkMember (drop8 (m_name f)) (m_kind f) (if is_lnk (m_kind f) then drop8 (m_link f) else m_link f)
                     (m_mode f) (m_data f) in
  let r := tar_extract fuel fs dest f' (negb (is_lnk (m_kind f))) done (rev rest ++ f' :: done) in
  x_st r <> MFatal -> x_consumed r = false ->
  extract_loop fuel fs audit dest done (f :: rest) =
  (fst (fst (extract_loop fuel (x_fs r) audit dest (f' :: done) rest)),
   snd (fst (extract_loop fuel (x_fs r) audit dest (f' :: done) rest)),
   x_nmk r || snd (extract_loop fuel (x_fs r) audit dest (f' :: done) rest)).
Proof.
  intros fuel fs audit dest done f rest H1 H2 f' r H3 H4.
  cbn [extract_loop]. rewrite H1, H2. fold f'. fold r. rewrite H4.
  destruct (extract_loop fuel (x_fs r) audit dest (f' :: done) rest) as [[a b] c]. simpl.
  destruct (x_st r); try reflexivity. contradiction.
Qed.
