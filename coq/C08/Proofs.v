(* C08 — proofs.  Part 1: strings, prefixes, the directory tree. *)
From Coq Require Import List NArith Bool Arith Lia.
Require Import BobV.Gen.ConstsC08 BobV.C08.Model.
Import ListNotations.
Open Scope N_scope.

Lemma str_eqb_refl : forall a, str_eqb a a = true.
Proof. induction a; simpl; auto. rewrite N.eqb_refl; auto. Qed.

Lemma str_eqb_eq : forall a b, str_eqb a b = true <-> a = b.
Proof.
  induction a; destruct b; simpl; split; intros Hh; try discriminate; auto.
  - apply andb_true_iff in Hh as [H1 H2]. apply N.eqb_eq in H1. apply IHa in H2. subst; auto.
  - inversion Hh; subst. rewrite N.eqb_refl. simpl. apply IHa; auto.
Qed.

Lemma str_eqb_neq : forall a b, str_eqb a b = false <-> a <> b.
Proof.
  intros a b. split; intros Hh.
  - intros E. apply str_eqb_eq in E. congruence.
  - destruct (str_eqb a b) eqn:E; auto. apply str_eqb_eq in E. contradiction.
Qed.

Lemma path_eqb_eq : forall a b, path_eqb a b = true <-> a = b.
Proof.
  induction a; destruct b; simpl; split; intros Hh; try discriminate; auto.
  - apply andb_true_iff in Hh as [H1 H2]. apply str_eqb_eq in H1. apply IHa in H2. subst; auto.
  - inversion Hh; subst. rewrite str_eqb_refl. simpl. apply IHa; auto.
Qed.

Lemma is_prefix_refl : forall p, is_prefix p p = true.
Proof. induction p; simpl; auto. rewrite str_eqb_refl; auto. Qed.

Lemma is_prefix_app : forall d p, is_prefix d p = true <-> exists r, p = d ++ r.
Proof.
  induction d; simpl; intros p.
  - split; eauto.
  - destruct p; split; intros Hh; try discriminate.
    + destruct Hh as [r Hr]. discriminate.
    + apply andb_true_iff in Hh as [H1 H2]. apply str_eqb_eq in H1. apply IHd in H2 as [r ->]. subst. eauto.
    + destruct Hh as [r Hr]. inversion Hr; subst. rewrite str_eqb_refl. simpl. apply IHd. eauto.
Qed.

Lemma is_prefix_trans : forall a b c, is_prefix a b = true -> is_prefix b c = true -> is_prefix a c = true.
Proof.
  intros a b c H1 H2. apply is_prefix_app in H1 as [r1 ->]. apply is_prefix_app in H2 as [r2 ->].
  apply is_prefix_app. exists (r1 ++ r2). rewrite app_assoc. reflexivity.
Qed.

Lemma is_prefix_app_r : forall d p r, is_prefix d p = true -> is_prefix d (p ++ r) = true.
Proof. intros d p r Hh. apply is_prefix_app in Hh as [x ->]. apply is_prefix_app. exists (x ++ r). rewrite app_assoc; auto. Qed.

(* two prefixes of the same path are comparable *)
Lemma is_prefix_comparable : forall a b p, is_prefix a p = true -> is_prefix b p = true ->
  is_prefix a b = true \/ is_prefix b a = true.
Proof.
  induction a; simpl; intros b p Ha Hb; auto.
  destruct b; simpl; auto. destruct p; try discriminate. simpl in Hb.
  apply andb_true_iff in Ha as [A1 A2]. apply andb_true_iff in Hb as [B1 B2].
  apply str_eqb_eq in A1. apply str_eqb_eq in B1. subst. rewrite str_eqb_refl. simpl. eauto.
Qed.

(* ---- association lists *)
Lemma assoc_del_other : forall A n n' (es : list (name * A)),
  str_eqb n' n = false -> assoc n' (assoc_del n es) = assoc n' es.
Proof.
  induction es as [|[k w] r IH]; simpl; intros Hne; auto.
  destruct (str_eqb n k) eqn:E.
  - apply str_eqb_eq in E. subst k. rewrite Hne. auto.
  - simpl. destruct (str_eqb n' k); auto.
Qed.

Lemma assoc_del_same : forall A n (es : list (name * A)), assoc n (assoc_del n es) = None.
Proof.
  induction es as [|[k w] r IH]; simpl; auto.
  destruct (str_eqb n k) eqn:E; auto. simpl. rewrite E. auto.
Qed.

Lemma assoc_set_other : forall A n n' (v : option A) es,
  str_eqb n' n = false -> assoc n' (assoc_set n v es) = assoc n' es.
Proof.
  induction es as [|[k w] r IH]; simpl; intros Hne.
  - destruct v; simpl; auto. rewrite Hne; auto.
  - destruct (str_eqb n k) eqn:E.
    + apply str_eqb_eq in E. subst k. rewrite Hne.
      destruct v; simpl; [rewrite Hne|]; apply assoc_del_other; exact Hne.
    + simpl. destruct (str_eqb n' k); auto.
Qed.

Lemma assoc_set_same : forall A n (v : option A) es, assoc n (assoc_set n v es) = v.
Proof.
  induction es as [|[k w] r IH]; simpl.
  - destruct v; simpl; auto. rewrite str_eqb_refl; auto.
  - destruct (str_eqb n k) eqn:E.
    + destruct v; simpl; [rewrite E; auto|apply assoc_del_same].
    + simpl. rewrite E. auto.
Qed.

Lemma assoc_set_same_some : forall A n (x : A) es, assoc n (assoc_set n (Some x) es) = Some x.
Proof. intros. apply assoc_set_same. Qed.

(* ---- the tree: a change at p is invisible at every location that is not p or below p *)
Lemma t_stat_put_other : forall p t v q,
  is_prefix p q = false -> t_stat (t_put t p v) q = t_stat t q.
Proof.
  unfold t_stat.
  induction p as [|n r IH]; intros t v q Hq.
  - simpl in Hq. discriminate.
  - destruct t as [m es|i]; [|reflexivity].
    destruct q as [|n' q'].
    + simpl. destruct r; [reflexivity|]. destruct (assoc n es); reflexivity.
    + simpl in Hq.
      destruct (str_eqb n n') eqn:En.
      * apply str_eqb_eq in En. subst n'. simpl in Hq.
        destruct r as [|n2 r2].
        { simpl in Hq. discriminate. }
        cbn [t_put]. destruct (assoc n es) as [c|] eqn:Ea; [|reflexivity].
        cbn [t_get]. rewrite assoc_set_same_some. rewrite Ea. apply IH. exact Hq.
      * assert (Hn : str_eqb n' n = false).
        { apply str_eqb_neq. apply str_eqb_neq in En. congruence. }
        destruct r as [|n2 r2]; cbn [t_put].
        { cbn [t_get]. rewrite assoc_set_other by exact Hn. reflexivity. }
        destruct (assoc n es) as [c|] eqn:Ea; [|reflexivity].
        cbn [t_get]. rewrite assoc_set_other by exact Hn. reflexivity.
Qed.

(* ================================================================== Part 2: path resolution *)
(* what the kernel resolves (following the last component) is what realpath computes *)
Lemma kgo_pygo : forall (kr : kres_t) (pr : pyres_t) fs,
  (forall st c cs q, kr st c cs = Some q -> pr st c cs = Some (q, true)) ->
  forall cs st cur L, kgo kr fs st true cs cur = Some L -> pygo pr fs st cs cur = Some (L, true).
Proof.
  intros kr pr fs Hrec. induction cs as [|c rest IH]; intros st cur L Hk; simpl in *.
  - inversion Hk; reflexivity.
  - destruct (skip_comp c); [apply IH; exact Hk|].
    destruct (is_dotdot c); [apply IH; exact Hk|].
    destruct (sym_at fs (cur ++ [c])) as [tgt|] eqn:Es.
    + rewrite andb_false_r in Hk.
      destruct (mem_path (cur ++ [c]) st); [discriminate|].
      destruct (kr ((cur ++ [c]) :: st) (link_base tgt cur) (comps_of tgt)) as [q|] eqn:Er; [|discriminate].
      rewrite (Hrec _ _ _ _ Er).
      destruct rest as [|c2 r2].
      * inversion Hk; subst. reflexivity.
      * destruct (is_dir fs q); [|discriminate]. apply IH; exact Hk.
    + destruct (stat fs (cur ++ [c])) as [[m|i]|].
      * apply IH; exact Hk.
      * destruct rest; [|discriminate]. inversion Hk; subst. reflexivity.
      * destruct rest; [|discriminate]. inversion Hk; subst. reflexivity.
Qed.

Lemma kres_pyreal : forall fuel fs st cur cs L,
  kres fuel fs st true cur cs = Some L -> pyreal fuel fs st cur cs = Some (L, true).
Proof.
  induction fuel as [|f IH]; intros fs st cur cs L Hk; simpl in *; [discriminate|].
  eapply kgo_pygo; [|exact Hk]. intros st' c cs' q Hq. apply IH. exact Hq.
Qed.

(* without following the last component: same location unless it is a symbolic link *)
Lemma kgo_nofollow : forall kr fs cs st cur L,
  kgo kr fs st false cs cur = Some L -> sym_at fs L = None -> kgo kr fs st true cs cur = Some L.
Proof.
  intros kr fs. induction cs as [|c rest IH]; intros st cur L Hk Hs; simpl in *; [exact Hk|].
  destruct (skip_comp c); [apply IH; assumption|].
  destruct (is_dotdot c); [apply IH; assumption|].
  destruct (sym_at fs (cur ++ [c])) as [tgt|] eqn:Es.
  - destruct rest as [|c2 r2]; simpl in *.
    + inversion Hk; subst. congruence.
    + destruct (mem_path (cur ++ [c]) st); [discriminate|].
      destruct (kr ((cur ++ [c]) :: st) (link_base tgt cur) (comps_of tgt)) as [q|]; [|discriminate].
      destruct (is_dir fs q); [|discriminate]. apply IH; assumption.
  - destruct (stat fs (cur ++ [c])) as [[m|i]|]; try exact Hk. apply IH; assumption.
Qed.

Lemma kres_nofollow : forall fuel fs st cur cs L,
  kres fuel fs st false cur cs = Some L -> sym_at fs L = None -> kres fuel fs st true cur cs = Some L.
Proof. destruct fuel; simpl; intros; [discriminate|]. apply kgo_nofollow; assumption. Qed.

Lemma kgo_nofollow_none : forall kr fs cs st cur,
  kgo kr fs st false cs cur = None -> kgo kr fs st true cs cur = None.
Proof.
  intros kr fs. induction cs as [|c rest IH]; intros st cur Hk; simpl in *; [discriminate|].
  destruct (skip_comp c); [apply IH; assumption|].
  destruct (is_dotdot c); [apply IH; assumption|].
  destruct (sym_at fs (cur ++ [c])) as [tgt|] eqn:Es.
  - destruct rest as [|c2 r2]; simpl in *; [discriminate|].
    destruct (mem_path (cur ++ [c]) st); [reflexivity|].
    destruct (kr ((cur ++ [c]) :: st) (link_base tgt cur) (comps_of tgt)) as [q|]; [|reflexivity].
    destruct (is_dir fs q); [|reflexivity]. apply IH; assumption.
  - destruct (stat fs (cur ++ [c])) as [[m|i]|]; try exact Hk. apply IH; assumption.
Qed.

Lemma kres_nofollow_none : forall fuel fs st cur cs,
  kres fuel fs st false cur cs = None -> kres fuel fs st true cur cs = None.
Proof. destruct fuel; simpl; intros; [reflexivity|]. apply kgo_nofollow_none; assumption. Qed.

(* realpath only looks at which locations are symbolic links *)
Lemma pygo_ext : forall (pr pr' : pyres_t) fs fs',
  (forall q, sym_at fs' q = sym_at fs q) ->
  (forall st c cs, pr' st c cs = pr st c cs) ->
  forall cs st cur, pygo pr' fs' st cs cur = pygo pr fs st cs cur.
Proof.
  intros pr pr' fs fs' Hs Hr. induction cs as [|c rest IH]; intros st cur; simpl; [reflexivity|].
  destruct (skip_comp c); [apply IH|].
  destruct (is_dotdot c); [apply IH|].
  rewrite Hs. destruct (sym_at fs (cur ++ [c])) as [tgt|]; [|apply IH].
  destruct (mem_path (cur ++ [c]) st); [reflexivity|].
  rewrite Hr. destruct (pr ((cur ++ [c]) :: st) (link_base tgt cur) (comps_of tgt)) as [[q [|]]|]; auto.
Qed.

Lemma pyreal_ext : forall fuel fs fs',
  (forall q, sym_at fs' q = sym_at fs q) ->
  forall st cur cs, pyreal fuel fs' st cur cs = pyreal fuel fs st cur cs.
Proof.
  induction fuel as [|f IH]; intros fs fs' Hs st cur cs; simpl; [reflexivity|].
  apply pygo_ext; [exact Hs|]. intros. apply IH. exact Hs.
Qed.

Lemma realpath_ext : forall fuel fs fs' cs,
  (forall q, sym_at fs' q = sym_at fs q) -> realpath fuel fs' cs = realpath fuel fs cs.
Proof. intros. unfold realpath. rewrite (pyreal_ext fuel fs fs') by assumption. reflexivity. Qed.

(* the filter's verdict about a path bounds where system calls on it act *)
Lemma realpath_kres_follow : forall fuel fs cs L,
  kres fuel fs [] true [] cs = Some L -> realpath fuel fs cs = Some L.
Proof. intros. unfold realpath. rewrite (kres_pyreal _ _ _ _ _ _ H). reflexivity. Qed.

(* ================================================================== Part 3: more about the tree *)
Lemma t_get_none_below : forall p t r, t_get t p = None -> t_get t (p ++ r) = None.
Proof.
  induction p as [|n p IH]; intros t r Hn; simpl in *; [discriminate|].
  destruct t as [m es|i]; auto. destruct (assoc n es); auto.
Qed.

Lemma t_get_leaf_below : forall p t r i, t_get t p = Some (TLeaf i) -> r <> [] -> t_get t (p ++ r) = None.
Proof.
  induction p as [|n p IH]; intros t r i Hn Hr; simpl in *.
  - inversion Hn; subst. destruct r; [contradiction|reflexivity].
  - destruct t as [m es|j]; auto. destruct (assoc n es); auto. eapply IH; eauto.
Qed.

Lemma t_stat_none_below : forall t p r, t_stat t p = None -> t_stat t (p ++ r) = None.
Proof.
  unfold t_stat. intros t p r Hn. destruct (t_get t p) eqn:E; [discriminate|].
  rewrite (t_get_none_below _ _ r E). reflexivity.
Qed.

(* an existing location has existing ancestors, and they are directories *)
Lemma t_stat_ancestor_dir : forall p t r, r <> [] -> t_stat t (p ++ r) <> None ->
  exists m, t_stat t p = Some (SDir m).
Proof.
  unfold t_stat. intros p t r Hr Hs.
  destruct (t_get t p) as [[m es|i]|] eqn:E.
  - eexists; reflexivity.
  - rewrite (t_get_leaf_below _ _ _ _ E Hr) in Hs. contradiction.
  - rewrite (t_get_none_below _ _ r E) in Hs. contradiction.
Qed.

(* a leaf seen after a change at p is an old leaf or the one just put *)
Lemma t_stat_put_leaf : forall p t v q i,
  t_stat (t_put t p v) q = Some (SLeaf i) -> t_stat t q = Some (SLeaf i) \/ v = Some (SLeaf i).
Proof.
  unfold t_stat.
  induction p as [|n r IH]; intros t v q i Hq.
  - destruct t as [m es|j]; simpl in Hq.
    + destruct v as [[m'|j]|]; auto.
      destruct q; simpl in *; auto.
    + auto.
  - destruct t as [m es|j]; [|auto].
    destruct q as [|n' q'].
    + simpl in Hq. destruct r; [discriminate|]. destruct (assoc n es); discriminate.
    + destruct (str_eqb n' n) eqn:En.
      * apply str_eqb_eq in En. subst n'.
        destruct r as [|n2 r2]; cbn [t_put] in Hq.
        { cbn [t_get] in Hq. rewrite assoc_set_same in Hq. cbn [t_get].
          destruct v as [[m'|j]|]; simpl in Hq.
          - destruct (assoc n es) as [[m0 ces|j0]|] eqn:Ea.
            + left. destruct q'; simpl in *; [discriminate|exact Hq].
            + destruct q'; simpl in Hq; discriminate.
            + destruct q'; simpl in Hq; discriminate.
          - destruct q'; simpl in Hq; [|discriminate]. inversion Hq; subst. auto.
          - discriminate. }
        destruct (assoc n es) as [c|] eqn:Ea; [|auto].
        cbn [t_get] in *. rewrite assoc_set_same in Hq. rewrite Ea. eapply IH. exact Hq.
      * destruct r as [|n2 r2]; cbn [t_put] in Hq.
        { cbn [t_get] in *. rewrite assoc_set_other in Hq by exact En. auto. }
        destruct (assoc n es) as [c|] eqn:Ea; [|auto].
        cbn [t_get] in *. rewrite assoc_set_other in Hq by exact En. auto.
Qed.

(* below a removed or newly created node there is nothing; at the node there is what was put or nothing *)
Lemma t_stat_put_at_below : forall p t v q,
  p <> [] -> is_prefix p q = true ->
  (v = None \/ t_get t p = None) ->
  (q = p /\ (t_stat (t_put t p v) q = v \/ t_stat (t_put t p v) q = None))
  \/ (q <> p /\ t_stat (t_put t p v) q = None).
Proof.
  unfold t_stat.
  induction p as [|n r IH]; intros t v q Hp Hq Hv; [contradiction|].
  destruct q as [|n' q']; [discriminate|]. simpl in Hq.
  apply andb_true_iff in Hq as [En Hq']. apply str_eqb_eq in En. subst n'.
  destruct t as [m es|j].
  - destruct r as [|n2 r2].
    + cbn [t_put t_get]. rewrite assoc_set_same.
      destruct q' as [|c q''].
      * left. split; [reflexivity|]. destruct v as [[m'|i]|]; simpl; auto.
        destruct Hv as [Hv|Hv]; [discriminate|]. simpl in Hv.
        destruct (assoc n es); [discriminate|]. simpl. auto.
      * right. split; [intros E; inversion E|].
        destruct v as [[m'|i]|]; simpl; auto.
        destruct Hv as [Hv|Hv]; [discriminate|]. simpl in Hv.
        destruct (assoc n es); [discriminate|]. simpl. reflexivity.
    + cbn [t_put]. destruct (assoc n es) as [c|] eqn:Ea.
      * cbn [t_get]. rewrite assoc_set_same.
        assert (Hv' : v = None \/ t_get c (n2 :: r2) = None).
        { destruct Hv as [Hv|Hv]; [auto|]. right. simpl in Hv. rewrite Ea in Hv. exact Hv. }
        destruct (IH c v q' ltac:(discriminate) Hq' Hv') as [[E H1]|[E H1]].
        { left. split; [subst; reflexivity|exact H1]. }
        { right. split; [intros E2; inversion E2; contradiction|exact H1]. }
      * cbn [t_get]. rewrite Ea.
        destruct (path_eqb q' (n2 :: r2)) eqn:Eq.
        { apply path_eqb_eq in Eq. subst q'. left. split; [reflexivity|]. right. reflexivity. }
        { right. split; [|reflexivity]. intros E. inversion E; subst.
          rewrite (proj2 (path_eqb_eq _ _) eq_refl) in Eq. discriminate. }
  - cbn [t_put t_get].
    destruct (path_eqb q' r) eqn:Eq.
    + apply path_eqb_eq in Eq. subst. left. split; [reflexivity|]. right. reflexivity.
    + right. split; [|reflexivity]. intros E. inversion E; subst.
      rewrite (proj2 (path_eqb_eq _ _) eq_refl) in Eq. discriminate.
Qed.

(* ================================================================== Part 4: the confinement invariant *)
Lemma ino_get_set_same : forall tab i v, ino_get (ino_set tab i v) i = Some v.
Proof.
  induction tab as [|[k w] r IH]; intros i v; simpl.
  - rewrite N.eqb_refl. reflexivity.
  - destruct (k =? i) eqn:E; simpl; rewrite E; auto.
Qed.

Lemma ino_get_set_other : forall tab i j v, i <> j -> ino_get (ino_set tab i v) j = ino_get tab j.
Proof.
  induction tab as [|[k w] r IH]; intros i j v Hne; simpl.
  - destruct (i =? j) eqn:E; [apply N.eqb_eq in E; contradiction|reflexivity].
  - destruct (k =? i) eqn:E; simpl.
    + apply N.eqb_eq in E. subst k. destruct (i =? j) eqn:E2; [apply N.eqb_eq in E2; contradiction|reflexivity].
    + destruct (k =? j); auto.
Qed.

Section Confine.
  Variable ok : path -> bool.
  Hypothesis ok_ext : forall p r, ok p = true -> ok (p ++ r) = true.

  Lemma ok_not_below : forall l q, ok l = true -> ok q = false -> is_prefix l q = false.
  Proof.
    intros l q Hl Hq. destruct (is_prefix l q) eqn:E; auto.
    apply is_prefix_app in E as [r ->]. rewrite (ok_ext _ r Hl) in Hq. discriminate.
  Qed.

  Record inv (fs0 fs : fsys) : Prop := mkInv {
    inv_out : same_outside ok fs0 fs;
    inv_fresh : forall p i, stat fs p = Some (SLeaf i) -> i < f_next fs;
    inv_sep : forall p q i, ok p = true -> ok q = false ->
              stat fs p = Some (SLeaf i) -> stat fs q = Some (SLeaf i) -> False;
    inv_nosym : forall q, ok q = false -> sym_at fs q = None
  }.

  Lemma sym_at_outside_eq : forall fs fs' q,
    stat fs' q = stat fs q ->
    (forall i, stat fs q = Some (SLeaf i) -> inode_of fs' i = inode_of fs i) ->
    sym_at fs' q = sym_at fs q.
  Proof.
    intros fs fs' q Hs Hi. unfold sym_at. rewrite Hs.
    destruct (stat fs q) as [[m|i]|]; auto. rewrite (Hi i eq_refl). reflexivity.
  Qed.

  (* a step that leaves every not-ok location and the inodes named there alone *)
  Lemma inv_step : forall fs0 fs fs',
    inv fs0 fs ->
    (forall q, ok q = false -> stat fs' q = stat fs q) ->
    (forall q i, ok q = false -> stat fs q = Some (SLeaf i) -> inode_of fs' i = inode_of fs i) ->
    (forall p i, stat fs' p = Some (SLeaf i) -> i < f_next fs') ->
    (forall p q i, ok p = true -> ok q = false ->
       stat fs' p = Some (SLeaf i) -> stat fs q = Some (SLeaf i) -> False) ->
    inv fs0 fs'.
  Proof.
    intros fs0 fs fs' [Ho Hf Hs Hn] H1 H2 H3 H4. constructor.
    - intros q Hq. destruct (Ho q Hq) as [Ha Hb]. split.
      + rewrite H1 by exact Hq. exact Ha.
      + intros i Hi. rewrite <- Ha in Hi. rewrite (H2 q i Hq Hi). apply Hb. rewrite <- Ha. exact Hi.
    - exact H3.
    - intros p q i Hp Hq Sp Sq. rewrite H1 in Sq by exact Hq. eapply H4; eauto.
    - intros q Hq. rewrite <- (Hn q Hq). apply sym_at_outside_eq; [apply H1; exact Hq|].
      intros i Hi. eapply H2; eauto.
  Qed.

  (* a directory made, re-moded, or anything removed, at an ok location *)
  Lemma inv_put_nonleaf : forall fs0 fs l v,
    inv fs0 fs -> ok l = true -> (forall i, v <> Some (SLeaf i)) -> inv fs0 (put fs l v).
  Proof.
    intros fs0 fs l v Hi Hl Hv. apply (inv_step fs0 fs); auto.
    - intros q Hq. unfold stat, put; simpl. apply t_stat_put_other. apply ok_not_below; assumption.
    - intros p i Hp. unfold stat, put in Hp; simpl in Hp.
      apply t_stat_put_leaf in Hp as [Hp|Hp]; [|exfalso; eapply Hv; eauto].
      simpl. eapply inv_fresh; eauto.
    - intros p q i Hp Hq Sp Sq. unfold stat, put in Sp; simpl in Sp.
      apply t_stat_put_leaf in Sp as [Sp|Sp]; [|eapply Hv; eauto].
      eapply inv_sep; eauto.
  Qed.

  (* another name for an inode that already has an ok name *)
  Lemma inv_put_link : forall fs0 fs l ls i,
    inv fs0 fs -> ok l = true -> ok ls = true -> stat fs ls = Some (SLeaf i) ->
    inv fs0 (put fs l (Some (SLeaf i))).
  Proof.
    intros fs0 fs l ls i Hi Hl Hls Hs. apply (inv_step fs0 fs); auto.
    - intros q Hq. unfold stat, put; simpl. apply t_stat_put_other. apply ok_not_below; assumption.
    - intros p j Hp. unfold stat, put in Hp; simpl in Hp.
      apply t_stat_put_leaf in Hp as [Hp|Hp]; simpl.
      + eapply inv_fresh; eauto.
      + inversion Hp; subst. eapply inv_fresh; eauto.
    - intros p q j Hp Hq Sp Sq. unfold stat, put in Sp; simpl in Sp.
      apply t_stat_put_leaf in Sp as [Sp|Sp].
      + eapply inv_sep; eauto.
      + inversion Sp; subst. eapply (inv_sep _ _ Hi ls q); eauto.
  Qed.

  (* a new inode at an ok location *)
  Lemma inv_create : forall fs0 fs l v,
    inv fs0 fs -> ok l = true -> inv fs0 (create fs l v).
  Proof.
    intros fs0 fs l v Hi Hl. apply (inv_step fs0 fs); auto.
    - intros q Hq. unfold stat, create; simpl. apply t_stat_put_other. apply ok_not_below; assumption.
    - intros q i Hq Sq. unfold inode_of, create; simpl. apply ino_get_set_other.
      pose proof (inv_fresh _ _ Hi q i Sq). lia.
    - intros p i Hp. unfold stat, create in Hp; simpl in Hp.
      apply t_stat_put_leaf in Hp as [Hp|Hp]; simpl.
      + pose proof (inv_fresh _ _ Hi p i Hp). lia.
      + inversion Hp; subst. lia.
    - intros p q i Hp Hq Sp Sq. unfold stat, create in Sp; simpl in Sp.
      apply t_stat_put_leaf in Sp as [Sp|Sp].
      + eapply inv_sep; eauto.
      + inversion Sp; subst. pose proof (inv_fresh _ _ Hi q _ Sq). lia.
  Qed.

  (* new content or mode for an inode that has an ok name *)
  Lemma inv_set_inode : forall fs0 fs l i v,
    inv fs0 fs -> ok l = true -> stat fs l = Some (SLeaf i) -> inv fs0 (set_inode fs i v).
  Proof.
    intros fs0 fs l i v Hi Hl Hs. apply (inv_step fs0 fs); auto.
    - intros q j Hq Sq. unfold inode_of, set_inode; simpl. apply ino_get_set_other.
      intros E. subst j. eapply (inv_sep _ _ Hi l q); eauto.
    - intros p j Hp. simpl. eapply inv_fresh; eauto.
    - intros p q j Hp Hq Sp Sq. eapply inv_sep; eauto.
  Qed.
End Confine.

(* ================================================================== Part 5: steps that do not change which locations are symbolic links *)
Definition sym_ext (fs fs' : fsys) : Prop := forall q, sym_at fs' q = sym_at fs q.

Lemma sym_ext_refl : forall fs, sym_ext fs fs.
Proof. intros fs q. reflexivity. Qed.

Lemma sym_ext_trans : forall a b c, sym_ext a b -> sym_ext b c -> sym_ext a c.
Proof. intros a b c H1 H2 q. rewrite H2. apply H1. Qed.

Definition fresh_ok (fs : fsys) : Prop := forall p i, stat fs p = Some (SLeaf i) -> i < f_next fs.

Lemma stat_root_some : forall fs, stat fs [] <> None.
Proof. intros fs. unfold stat, t_stat. simpl. discriminate. Qed.

Lemma sym_at_put_newdir : forall fs l m, stat fs l = None -> sym_ext fs (put fs l (Some (SDir m))).
Proof.
  intros fs l m Hn q. unfold sym_at.
  destruct (is_prefix l q) eqn:Ep.
  - assert (Hl : l <> []) by (intros E; subst; apply (stat_root_some fs); exact Hn).
    assert (Hg : t_get (f_root fs) l = None).
    { unfold stat, t_stat in Hn. destruct (t_get (f_root fs) l); [discriminate|reflexivity]. }
    assert (Hold : stat fs q = None).
    { apply is_prefix_app in Ep as [r ->]. apply t_stat_none_below. exact Hn. }
    rewrite Hold.
    destruct (t_stat_put_at_below l (f_root fs) (Some (SDir m)) q Hl Ep (or_intror Hg)) as [[E [H1|H1]]|[E H1]];
      unfold stat, put; simpl; rewrite H1; reflexivity.
  - unfold stat, put; simpl. rewrite t_stat_put_other by exact Ep. reflexivity.
Qed.

Lemma sym_at_create_nonsym : forall fs l v,
  fresh_ok fs -> stat fs l = None -> i_kind v <> KSym -> sym_ext fs (create fs l v).
Proof.
  intros fs l v Hf Hn Hk q. unfold sym_at.
  destruct (is_prefix l q) eqn:Ep.
  - assert (Hl : l <> []) by (intros E; subst; apply (stat_root_some fs); exact Hn).
    assert (Hg : t_get (f_root fs) l = None).
    { unfold stat, t_stat in Hn. destruct (t_get (f_root fs) l); [discriminate|reflexivity]. }
    assert (Hold : stat fs q = None).
    { apply is_prefix_app in Ep as [r ->]. apply t_stat_none_below. exact Hn. }
    rewrite Hold.
    destruct (t_stat_put_at_below l (f_root fs) (Some (SLeaf (f_next fs))) q Hl Ep (or_intror Hg)) as [[E [H1|H1]]|[E H1]];
      unfold stat, create; simpl; rewrite H1; try reflexivity.
    unfold inode_of; simpl. rewrite ino_get_set_same. destruct v as [[] d m]; simpl in *; congruence.
  - unfold stat, create; simpl. rewrite t_stat_put_other by exact Ep.
    destruct (t_stat (f_root fs) q) as [[m|i]|] eqn:Es; auto.
    unfold inode_of; simpl. rewrite ino_get_set_other; [reflexivity|].
    pose proof (Hf q i Es). lia.
Qed.

Lemma sym_at_set_inode_nonsym : forall fs i v w,
  inode_of fs i = Some w -> i_kind w <> KSym -> i_kind v <> KSym -> sym_ext fs (set_inode fs i v).
Proof.
  intros fs i v w Hw Hkw Hkv q. unfold sym_at, stat, set_inode; simpl.
  destruct (t_stat (f_root fs) q) as [[m|j]|]; auto.
  unfold inode_of; simpl. destruct (N.eq_dec i j) as [E|E].
  - subst j. rewrite ino_get_set_same. unfold inode_of in Hw. rewrite Hw.
    destruct v as [[] d m]; destruct w as [[] d' m']; simpl in *; congruence.
  - rewrite ino_get_set_other by exact E. reflexivity.
Qed.

Lemma sys_mkdir_symext : forall fuel fs cs m, sym_ext fs (fst (sys_mkdir fuel fs cs m)).
Proof.
  intros. unfold sys_mkdir. destruct (kres fuel fs [] false [] cs) as [l|]; [|apply sym_ext_refl].
  destruct (stat fs l) eqn:E; [apply sym_ext_refl|]. simpl. apply sym_at_put_newdir. exact E.
Qed.

Lemma sys_write_symext : forall fuel fs cs d, fresh_ok fs -> sym_ext fs (fst (sys_write fuel fs cs d)).
Proof.
  intros fuel fs cs d Hf. unfold sys_write. destruct (kres fuel fs [] true [] cs) as [l|]; [|apply sym_ext_refl].
  destruct (stat fs l) as [[m|i]|] eqn:E; simpl.
  - apply sym_ext_refl.
  - destruct (inode_of fs i) as [[[] dd mm]|] eqn:Ei; simpl; try apply sym_ext_refl.
    eapply sym_at_set_inode_nonsym; eauto; simpl; discriminate.
  - apply sym_at_create_nonsym; auto. simpl. discriminate.
Qed.

Lemma sys_mknode_symext : forall fuel fs cs v,
  fresh_ok fs -> i_kind v <> KSym -> sym_ext fs (fst (sys_mknode fuel fs cs v)).
Proof.
  intros fuel fs cs v Hf Hk. unfold sys_mknode. destruct (kres fuel fs [] false [] cs) as [l|]; [|apply sym_ext_refl].
  destruct (stat fs l) eqn:E; [apply sym_ext_refl|]. simpl. apply sym_at_create_nonsym; auto.
Qed.

(* ================================================================== Part 6: system calls on a path the filter accepted *)
Section Ops.
  Variable ok : path -> bool.
  Hypothesis ok_ext : forall p r, ok p = true -> ok (p ++ r) = true.
  Variable dest : path.
  Hypothesis ok_dest : forall q, is_prefix dest q = true -> ok q = true.
  Variable fuel : nat.

  (* the verdict of _tarExtractFilter about the path cs in state fs *)
  Definition guard (fs : fsys) (cs : list name) : Prop := inside dest (realpath fuel fs cs) = true.

  Lemma guard_ext : forall fs fs' cs, sym_ext fs fs' -> guard fs cs -> guard fs' cs.
  Proof. intros fs fs' cs He Hg. unfold guard in *. rewrite (realpath_ext fuel fs fs' cs He). exact Hg. Qed.

  Lemma loc_follow : forall fs cs l, guard fs cs -> kres fuel fs [] true [] cs = Some l -> ok l = true.
  Proof.
    intros fs cs l Hg Hk. unfold guard in Hg. rewrite (realpath_kres_follow _ _ _ _ Hk) in Hg.
    simpl in Hg. apply ok_dest. exact Hg.
  Qed.

  Lemma loc_nofollow : forall fs0 fs cs l,
    inv ok fs0 fs -> guard fs cs -> kres fuel fs [] false [] cs = Some l -> ok l = true.
  Proof.
    intros fs0 fs cs l Hi Hg Hk. destruct (sym_at fs l) eqn:Es.
    - destruct (ok l) eqn:Eo; auto. rewrite (inv_nosym _ _ _ Hi l Eo) in Es. discriminate.
    - eapply loc_follow; eauto. apply kres_nofollow; assumption.
  Qed.

  Lemma sys_write_inv : forall fs0 fs cs d,
    inv ok fs0 fs -> guard fs cs -> inv ok fs0 (fst (sys_write fuel fs cs d)).
  Proof.
    intros fs0 fs cs d Hi Hg. unfold sys_write.
    destruct (kres fuel fs [] true [] cs) as [l|] eqn:Ek; [|exact Hi].
    pose proof (loc_follow _ _ _ Hg Ek) as Hl.
    destruct (stat fs l) as [[m|i]|] eqn:Es; simpl; auto.
    - destruct (inode_of fs i) as [[[] dd mm]|]; simpl; auto. eapply inv_set_inode; eauto.
    - apply inv_create; auto.
  Qed.

  Lemma sys_chmod_inv : forall fs0 fs cs m,
    inv ok fs0 fs -> guard fs cs -> inv ok fs0 (fst (sys_chmod fuel fs cs m)).
  Proof.
    intros fs0 fs cs m Hi Hg. unfold sys_chmod.
    destruct (kres fuel fs [] true [] cs) as [l|] eqn:Ek; [|exact Hi].
    pose proof (loc_follow _ _ _ Hg Ek) as Hl.
    destruct (stat fs l) as [[m0|i]|] eqn:Es; simpl; auto.
    - apply inv_put_nonleaf; auto. intros i. discriminate.
    - destruct (inode_of fs i) as [[k dd mm]|]; simpl; auto. eapply inv_set_inode; eauto.
  Qed.

  Lemma sys_mkdir_inv : forall fs0 fs cs m,
    inv ok fs0 fs -> guard fs cs -> inv ok fs0 (fst (sys_mkdir fuel fs cs m)).
  Proof.
    intros fs0 fs cs m Hi Hg. unfold sys_mkdir.
    destruct (kres fuel fs [] false [] cs) as [l|] eqn:Ek; [|exact Hi].
    pose proof (loc_nofollow _ _ _ _ Hi Hg Ek) as Hl.
    destruct (stat fs l); simpl; auto. apply inv_put_nonleaf; auto. intros i. discriminate.
  Qed.

  Lemma sys_mknode_inv : forall fs0 fs cs v,
    inv ok fs0 fs -> guard fs cs -> inv ok fs0 (fst (sys_mknode fuel fs cs v)).
  Proof.
    intros fs0 fs cs v Hi Hg. unfold sys_mknode.
    destruct (kres fuel fs [] false [] cs) as [l|] eqn:Ek; [|exact Hi].
    pose proof (loc_nofollow _ _ _ _ Hi Hg Ek) as Hl.
    destruct (stat fs l); simpl; auto. apply inv_create; auto.
  Qed.

  Lemma sys_unlink_inv : forall fs0 fs cs,
    inv ok fs0 fs -> guard fs cs -> inv ok fs0 (fst (sys_unlink fuel fs cs)).
  Proof.
    intros fs0 fs cs Hi Hg. unfold sys_unlink.
    destruct (kres fuel fs [] false [] cs) as [l|] eqn:Ek; [|exact Hi].
    pose proof (loc_nofollow _ _ _ _ Hi Hg Ek) as Hl.
    destruct (stat fs l) as [[m|i]|]; simpl; auto. apply inv_put_nonleaf; auto. intros j. discriminate.
  Qed.

  (* hard link: source and destination both accepted by the filter *)
  Lemma sys_link_inv : forall fs0 fs src dst,
    inv ok fs0 fs -> guard fs src -> guard fs dst -> inv ok fs0 (fst (sys_link fuel fs src dst)).
  Proof.
    intros fs0 fs src dst Hi Hs Hd. unfold sys_link.
    destruct (kres fuel fs [] false [] src) as [ls|] eqn:Eks; [|exact Hi].
    pose proof (loc_nofollow _ _ _ _ Hi Hs Eks) as Hls.
    destruct (stat fs ls) as [[m|i]|] eqn:Ess; simpl; auto.
    destruct (kres fuel fs [] false [] dst) as [ld|] eqn:Ekd; [|exact Hi].
    pose proof (loc_nofollow _ _ _ _ Hi Hd Ekd) as Hld.
    destruct (stat fs ld); simpl; auto. apply (inv_put_link ok ok_ext fs0 fs ld ls i); auto.
  Qed.
End Ops.

(* ================================================================== Part 7: the destination stays a directory *)
Lemma t_get_put_chmod : forall p t m' m es r,
  t_get t p = Some (TDir m es) ->
  t_get (t_put t p (Some (SDir m'))) (p ++ r) =
  match r with [] => Some (TDir m' es) | _ :: _ => t_get t (p ++ r) end.
Proof.
  induction p as [|n p' IH]; intros t m' m es r Hg.
  - simpl in Hg. inversion Hg; subst. simpl. destruct r; reflexivity.
  - destruct t as [m0 es0|j]; [|discriminate]. simpl in Hg.
    destruct (assoc n es0) as [c|] eqn:Ea; [|discriminate].
    destruct p' as [|n2 p2].
    + simpl in Hg. inversion Hg; subst c. cbn [t_put app t_get]. rewrite assoc_set_same. rewrite Ea. simpl.
      destruct r; reflexivity.
    + cbn [t_put]. rewrite Ea. cbn [app t_get]. rewrite assoc_set_same. rewrite Ea.
      apply (IH c m' m es r Hg).
Qed.

Lemma is_dir_put : forall fs l v d,
  is_dir fs d = true ->
  match v with
  | None => exists i, stat fs l = Some (SLeaf i)
  | Some (SLeaf _) => stat fs l = None
  | Some (SDir _) => stat fs l = None \/ is_dir fs l = true
  end ->
  is_dir (put fs l v) d = true.
Proof.
  intros fs l v d Hd Hv. unfold is_dir, stat, put in *. simpl.
  destruct (is_prefix l d) eqn:Ep.
  - apply is_prefix_app in Ep as [r ->].
    assert (Hne : t_stat (f_root fs) l <> None).
    { intros E. rewrite (t_stat_none_below _ _ r E) in Hd. discriminate. }
    destruct v as [[m'|i]|].
    + destruct Hv as [Hv|Hv]; [contradiction|].
      unfold t_stat in *. destruct (t_get (f_root fs) l) as [[m es|j]|] eqn:Eg; try discriminate.
      rewrite (t_get_put_chmod _ _ m' m es r Eg).
      destruct r; [reflexivity|]. exact Hd.
    + contradiction.
    + destruct Hv as [i Hv]. unfold t_stat in *.
      destruct (t_get (f_root fs) l) as [[m es|j]|] eqn:Eg; try discriminate.
      destruct r.
      * rewrite app_nil_r in Hd. rewrite Eg in Hd. discriminate.
      * rewrite (t_get_leaf_below _ _ (n :: r) _ Eg) in Hd by discriminate. discriminate.
  - rewrite t_stat_put_other by exact Ep. exact Hd.
Qed.

Lemma is_dir_create : forall fs l v d, is_dir fs d = true -> stat fs l = None -> is_dir (create fs l v) d = true.
Proof.
  intros fs l v d Hd Hn.
  pose proof (is_dir_put fs l (Some (SLeaf (f_next fs))) d Hd Hn) as H. unfold is_dir, stat, put, create in *. simpl in *. exact H.
Qed.

Lemma is_dir_set_inode : forall fs i v d, is_dir (set_inode fs i v) d = is_dir fs d.
Proof. reflexivity. Qed.

Lemma sys_mkdir_dir : forall fuel fs cs m d, is_dir fs d = true -> is_dir (fst (sys_mkdir fuel fs cs m)) d = true.
Proof.
  intros. unfold sys_mkdir. destruct (kres fuel fs [] false [] cs) as [l|]; auto.
  destruct (stat fs l) eqn:E; auto. simpl. apply is_dir_put; auto.
Qed.

Lemma sys_mknode_dir : forall fuel fs cs v d, is_dir fs d = true -> is_dir (fst (sys_mknode fuel fs cs v)) d = true.
Proof.
  intros. unfold sys_mknode. destruct (kres fuel fs [] false [] cs) as [l|]; auto.
  destruct (stat fs l) eqn:E; auto. simpl. apply is_dir_create; auto.
Qed.

Lemma sys_unlink_dir : forall fuel fs cs d, is_dir fs d = true -> is_dir (fst (sys_unlink fuel fs cs)) d = true.
Proof.
  intros. unfold sys_unlink. destruct (kres fuel fs [] false [] cs) as [l|]; auto.
  destruct (stat fs l) as [[m|i]|] eqn:E; auto. simpl. apply is_dir_put; eauto.
Qed.

Lemma sys_link_dir : forall fuel fs a b d, is_dir fs d = true -> is_dir (fst (sys_link fuel fs a b)) d = true.
Proof.
  intros. unfold sys_link. destruct (kres fuel fs [] false [] a) as [ls|]; auto.
  destruct (stat fs ls) as [[m|i]|]; auto.
  destruct (kres fuel fs [] false [] b) as [ld|]; auto.
  destruct (stat fs ld) eqn:E; auto. simpl. apply is_dir_put; auto.
Qed.

Lemma sys_write_dir : forall fuel fs cs x d, is_dir fs d = true -> is_dir (fst (sys_write fuel fs cs x)) d = true.
Proof.
  intros. unfold sys_write. destruct (kres fuel fs [] true [] cs) as [l|]; auto.
  destruct (stat fs l) as [[m|i]|] eqn:E; auto.
  - destruct (inode_of fs i) as [[[] dd mm]|]; auto.
  - simpl. apply is_dir_create; auto.
Qed.

Lemma sys_chmod_dir : forall fuel fs cs m d, is_dir fs d = true -> is_dir (fst (sys_chmod fuel fs cs m)) d = true.
Proof.
  intros. unfold sys_chmod. destruct (kres fuel fs [] true [] cs) as [l|]; auto.
  destruct (stat fs l) as [[m0|i]|] eqn:E; auto.
  - simpl. apply is_dir_put; auto. right. unfold is_dir. rewrite E. reflexivity.
  - destruct (inode_of fs i) as [[k dd mm]|]; auto.
Qed.

(* ================================================================== Part 8: os.makedirs below an accepted path *)
Definition nodd (cs : list name) : Prop := existsb is_dotdot cs = false.

Lemma nodd_app : forall a b, nodd (a ++ b) -> nodd a /\ nodd b.
Proof. unfold nodd. intros a b H. rewrite existsb_app in H. apply orb_false_iff in H. exact H. Qed.

Lemma pygo_app : forall (rec : pyres_t) fs st a b cur,
  pygo rec fs st (a ++ b) cur =
  match pygo rec fs st a cur with
  | Some (q, true) => pygo rec fs st b q
  | Some (q, false) => Some (q ++ b, false)
  | None => None
  end.
Proof.
  intros rec fs st. induction a as [|c a IH]; intros b cur; simpl; [reflexivity|].
  destruct (skip_comp c); [apply IH|].
  destruct (is_dotdot c); [apply IH|].
  destruct (sym_at fs (cur ++ [c])) as [tgt|]; [|apply IH].
  destruct (mem_path (cur ++ [c]) st).
  - f_equal. f_equal. rewrite <- !app_assoc. reflexivity.
  - destruct (rec ((cur ++ [c]) :: st) (link_base tgt cur) (comps_of tgt)) as [[q [|]]|]; auto.
    f_equal. f_equal. rewrite <- !app_assoc. reflexivity.
Qed.

Definition nonskip (cs : list name) : list name := filter (fun c => negb (skip_comp c)) cs.

(* below a missing location realpath is purely lexical *)
Lemma pygo_below_missing : forall (rec : pyres_t) fs st b n,
  stat fs n = None -> nodd b -> pygo rec fs st b n = Some (n ++ nonskip b, true).
Proof.
  intros rec fs st. induction b as [|c b IH]; intros n Hn Hd; simpl.
  - rewrite app_nil_r. reflexivity.
  - unfold nodd in Hd. simpl in Hd. apply orb_false_iff in Hd as [Hc Hb].
    destruct (skip_comp c) eqn:Es; simpl; [apply IH; assumption|].
    rewrite Hc.
    assert (Hp : stat fs (n ++ [c]) = None) by (apply t_stat_none_below; exact Hn).
    unfold sym_at. rewrite Hp. rewrite IH by assumption. rewrite <- app_assoc. reflexivity.
Qed.

Section Makedirs.
  Variable ok : path -> bool.
  Hypothesis ok_ext : forall p r, ok p = true -> ok (p ++ r) = true.
  Variable dest : path.
  Hypothesis ok_dest : forall q, is_prefix dest q = true -> ok q = true.
  Variable fuel : nat.

  (* a directory that mkdir would create on the way to an accepted path t lies below the destination *)
  Lemma mkdir_loc_ok : forall fs t nm rest n,
    guard dest fuel fs t -> is_dir fs dest = true -> t = nm ++ rest -> nodd rest ->
    kres fuel fs [] false [] nm = Some n -> stat fs n = None -> ok n = true.
  Proof.
    intros fs t nm rest n Hg Hd Ht Hr Hk Hn.
    assert (Hs : sym_at fs n = None) by (unfold sym_at; rewrite Hn; reflexivity).
    pose proof (kres_pyreal _ _ _ _ _ _ (kres_nofollow _ _ _ _ _ _ Hk Hs)) as Hp.
    destruct fuel as [|f]; [discriminate|].
    unfold guard, realpath in Hg. subst t. simpl in Hg, Hp. rewrite pygo_app in Hg. rewrite Hp in Hg.
    rewrite (pygo_below_missing _ _ _ _ _ Hn Hr) in Hg. simpl in Hg.
    apply ok_dest.
    destruct (is_prefix_comparable dest n (n ++ nonskip rest) Hg) as [H|H]; auto.
    { apply is_prefix_app. eexists; reflexivity. }
    apply is_prefix_app in H as [x ->]. unfold is_dir in Hd.
    unfold stat in *. rewrite (t_stat_none_below _ _ x Hn) in Hd. discriminate.
  Qed.

  Record good (fs0 fs : fsys) (t : list name) : Prop := mkGood {
    g_inv : inv ok fs0 fs;
    g_guard : guard dest fuel fs t;
    g_dir : is_dir fs dest = true
  }.

  Lemma good_fresh : forall fs0 fs t, good fs0 fs t -> fresh_ok fs.
  Proof. intros fs0 fs t [Hi _ _]. intros p i. apply (inv_fresh _ _ _ Hi). Qed.

  Lemma mkdir_prefix_good : forall fs0 fs t nm rest m,
    good fs0 fs t -> t = nm ++ rest -> nodd rest -> good fs0 (fst (sys_mkdir fuel fs nm m)) t.
  Proof.
    intros fs0 fs t nm rest m [Hi Hg Hd] Ht Hr. constructor.
    - unfold sys_mkdir. destruct (kres fuel fs [] false [] nm) as [l|] eqn:Ek; [|exact Hi].
      destruct (stat fs l) eqn:Es; [exact Hi|]. simpl.
      apply inv_put_nonleaf; auto; [|intros i; discriminate].
      eapply mkdir_loc_ok; eauto.
    - eapply guard_ext; [apply sys_mkdir_symext|exact Hg].
    - apply sys_mkdir_dir. exact Hd.
  Qed.

  Lemma makedirs_rev_good : forall r fs0 fs t,
    good fs0 fs t -> nodd t -> (exists rest, t = rev r ++ rest) ->
    good fs0 (fst (makedirs_rev fuel fs r)) t.
  Proof.
    induction r as [|tail rh IH]; intros fs0 fs t Hg Hn [rest Ht]; simpl; [exact Hg|].
    assert (Hrh : exists rest', t = rev rh ++ rest').
    { exists (tail :: rest). rewrite Ht. simpl. rewrite <- app_assoc. reflexivity. }
    assert (Hrest : nodd rest) by (rewrite Ht in Hn; apply nodd_app in Hn; tauto).
    destruct (is_nil tail); [apply IH; assumption|].
    destruct (sys_exists fuel fs (rev (drop_empty_front rh))); simpl.
    - eapply mkdir_prefix_good; eauto.
    - pose proof (IH fs0 fs t Hg Hn Hrh) as H1.
      destruct (makedirs_rev fuel fs rh) as [fs1 [[|]|]]; simpl in *; auto.
      + destruct (str_eqb tail n_dot); [exact H1|].
        eapply mkdir_prefix_good; eauto.
      + destruct (str_eqb tail n_dot); [exact H1|].
        eapply mkdir_prefix_good; eauto.
  Qed.
End Makedirs.

(* ================================================================== Part 9: resolving again after a leaf was unlinked *)
Lemma is_prefix_snoc : forall l cur c,
  is_prefix l (cur ++ [c]) = true -> is_prefix l cur = false -> l = cur ++ [c].
Proof.
  induction l as [|x l IH]; intros cur c H1 H2; simpl in *; [discriminate|].
  destruct cur as [|y cur]; simpl in *.
  - apply andb_true_iff in H1 as [E H1]. apply str_eqb_eq in E. subst.
    destruct l; [reflexivity|discriminate].
  - apply andb_true_iff in H1 as [E H1]. rewrite E in H2. simpl in H2.
    apply str_eqb_eq in E. subst. f_equal. apply IH; assumption.
Qed.

Lemma is_prefix_removelast : forall l cur, is_prefix l cur = false -> is_prefix l (removelast cur) = false.
Proof.
  intros l cur H. destruct (is_prefix l (removelast cur)) eqn:E; auto.
  destruct cur as [|x cur'] eqn:Ec; [simpl in E; congruence|].
  rewrite (app_removelast_last x (l:=x :: cur')) in H by discriminate.
  rewrite (is_prefix_app_r _ _ _ E) in H. discriminate.
Qed.

Section Removed.
  Variable fs : fsys.
  Variable l : path.
  Variable i0 : N.
  Hypothesis Hleaf : stat fs l = Some (SLeaf i0).
  Hypothesis Hl : l <> [].
  Let fs1 := put fs l None.

  Lemma removed_other : forall q, is_prefix l q = false -> stat fs1 q = stat fs q /\ sym_at fs1 q = sym_at fs q.
  Proof.
    intros q Hq. assert (E : stat fs1 q = stat fs q).
    { unfold stat, fs1, put; simpl. apply t_stat_put_other. exact Hq. }
    split; [exact E|]. unfold sym_at. rewrite E. reflexivity.
  Qed.

  Lemma removed_below : forall q, is_prefix l q = true -> stat fs1 q = None.
  Proof.
    intros q Hq. unfold stat, fs1, put; simpl.
    destruct (t_stat_put_at_below l (f_root fs) None q Hl Hq (or_introl eq_refl)) as [[E [H|H]]|[E H]]; exact H.
  Qed.

  Lemma kgo_removed : forall (kr kr1 : kres_t),
    (forall st c cs x, is_prefix l c = false -> kr1 st c cs = Some x -> x = l \/ kr st c cs = Some x) ->
    forall cs st fw cur x, is_prefix l cur = false ->
      kgo kr1 fs1 st fw cs cur = Some x -> x = l \/ kgo kr fs st fw cs cur = Some x.
  Proof.
    intros kr kr1 Hrec. induction cs as [|c rest IH]; intros st fw cur x Hc Hk; simpl in *; [auto|].
    destruct (skip_comp c); [apply IH; assumption|].
    destruct (is_dotdot c); [apply IH; [apply is_prefix_removelast|]; assumption|].
    destruct (is_prefix l (cur ++ [c])) eqn:Ep.
    - pose proof (removed_below _ Ep) as Hn.
      assert (Hs : sym_at fs1 (cur ++ [c]) = None) by (unfold sym_at; rewrite Hn; reflexivity).
      rewrite Hs, Hn in Hk. destruct rest; [|discriminate]. inversion Hk; subst.
      left. symmetry. apply is_prefix_snoc; assumption.
    - destruct (removed_other _ Ep) as [Es Ey]. rewrite Ey, Es in Hk.
      destruct (sym_at fs (cur ++ [c])) as [tgt|].
      + destruct (is_nil rest && negb fw); [auto|].
        destruct (mem_path (cur ++ [c]) st); [discriminate|].
        destruct (kr1 ((cur ++ [c]) :: st) (link_base tgt cur) (comps_of tgt)) as [q|] eqn:Er; [|discriminate].
        assert (Hb : is_prefix l (link_base tgt cur) = false).
        { unfold link_base. destruct (is_abs tgt); [|exact Hc]. destruct l; [contradiction|reflexivity]. }
        destruct (Hrec _ _ _ _ Hb Er) as [E|E].
        * subst q. destruct rest as [|c2 r2]; [inversion Hk; auto|].
          unfold is_dir in Hk. rewrite (removed_below l (is_prefix_refl l)) in Hk. discriminate.
        * rewrite E. destruct rest as [|c2 r2]; [auto|].
          destruct (is_dir fs1 q) eqn:Ed; [|discriminate].
          assert (Hq : is_prefix l q = false).
          { destruct (is_prefix l q) eqn:Eq; auto. unfold is_dir in Ed. rewrite (removed_below _ Eq) in Ed. discriminate. }
          unfold is_dir in *. rewrite (proj1 (removed_other _ Hq)) in Ed. rewrite Ed.
          apply IH; assumption.
      + destruct (stat fs (cur ++ [c])) as [[m|i]|]; auto.
  Qed.

  Lemma kres_removed : forall fuel st fw cur cs x, is_prefix l cur = false ->
    kres fuel fs1 st fw cur cs = Some x -> x = l \/ kres fuel fs st fw cur cs = Some x.
  Proof.
    induction fuel as [|f IH]; intros st fw cur cs x Hc Hk; simpl in *; [discriminate|].
    eapply kgo_removed; eauto. intros st' c cs' y Hc' Hy. apply IH; assumption.
  Qed.
End Removed.
