(* C08 — model of binary artifact extraction / packing / post-download check.

   pym/bob/archive.py   TarHelper._extract, __extractPackage, _pack
   pym/bob/utils.py     _tarExtractFilter, removePath
   pym/bob/builder.py   post-download verification (audit present, result hash)
   CPython 3.12 tarfile TarFile.extract/_extract_member/make*  (modelled standard library)
   CPython 3.12 posixpath.realpath, os.makedirs                  (modelled standard library)

   Definitions only.  All strings are byte strings ([list N], fsencode'd); '/' = 47, '.' = 46.

   The file system is a tree of directories whose leaves name inodes; regular
   files, symbolic links, fifos and device nodes are inodes (so hard links share
   content and mode).  Kernel path resolution ([kres]) and Python's
   os.path.realpath ([pyreal]) are two separate functions: the extraction filter
   decides with the second, the system calls act through the first. *)
From Coq Require Import List NArith Bool Arith.
Require Import BobV.Gen.ConstsC08.
Import ListNotations.
Open Scope N_scope.

Definition str := list N.
Definition name := str.          (* one path component *)
Definition path := list name.    (* canonical absolute location: components below "/" *)

(* ------------------------------------------------------------------ strings *)
Fixpoint str_eqb (a b : str) : bool :=
  match a, b with
  | [], [] => true
  | x :: a', y :: b' => (x =? y) && str_eqb a' b'
  | _, _ => false
  end.

Fixpoint path_eqb (a b : path) : bool :=
  match a, b with
  | [], [] => true
  | x :: a', y :: b' => str_eqb x y && path_eqb a' b'
  | _, _ => false
  end.

(* [is_prefix d p]: location p is d or lies below d *)
Fixpoint is_prefix (d p : path) : bool :=
  match d, p with
  | [], _ => true
  | x :: d', y :: p' => str_eqb x y && is_prefix d' p'
  | _ :: _, [] => false
  end.

Fixpoint mem_path (p : path) (l : list path) : bool :=
  match l with [] => false | q :: r => path_eqb p q || mem_path p r end.

Fixpoint mem_str (s : str) (l : list str) : bool :=
  match l with [] => false | q :: r => str_eqb s q || mem_str s r end.

Fixpoint starts_with (pre s : str) : bool :=
  match pre, s with
  | [], _ => true
  | x :: pre', y :: s' => (x =? y) && starts_with pre' s'
  | _ :: _, [] => false
  end.

Definition SLASH : N := 47.
Definition n_dot : name := [46].
Definition n_dotdot : name := [46; 46].
Definition skip_comp (c : name) : bool := str_eqb c [] || str_eqb c n_dot.
Definition is_dotdot (c : name) : bool := str_eqb c n_dotdot.
Definition is_nil {A} (l : list A) : bool := match l with [] => true | _ => false end.

(* "a//b/".split("/") = ["a"; ""; "b"; ""] *)
Fixpoint split_acc (s : str) (cur : str) : list name :=
  match s with
  | [] => [rev cur]
  | c :: r => if c =? SLASH then rev cur :: split_acc r [] else split_acc r (c :: cur)
  end.
Definition split_slash (s : str) : list name := split_acc s [].

Definition is_abs (s : str) : bool := match s with c :: _ => c =? SLASH | [] => false end.

(* str.lstrip('/') *)
Fixpoint lstrip_slash (s : str) : str :=
  match s with c :: r => if c =? SLASH then lstrip_slash r else s | [] => [] end.

(* components of a path string below its starting point (a leading '/' only
   selects the starting point, see [is_abs]) *)
Definition comps_of (s : str) : list name := split_slash s.

(* drop trailing empty components: str.rstrip('/') on the joined string *)
Fixpoint drop_empty_front (r : list name) : list name :=
  match r with c :: r' => if is_nil c then drop_empty_front r' else r | [] => [] end.
Definition rstrip_empty (cs : list name) : list name := rev (drop_empty_front (rev cs)).

(* lexical normalisation (os.path.normpath of an absolute path) *)
Fixpoint lexnorm_acc (cs : list name) (acc : path) : path :=
  match cs with
  | [] => acc
  | c :: r => if skip_comp c then lexnorm_acc r acc
              else if is_dotdot c then lexnorm_acc r (removelast acc)
              else lexnorm_acc r (acc ++ [c])
  end.
Definition lexnorm (cs : list name) : path := lexnorm_acc cs [].

(* os.path.normpath of a relative name as used by TarFile._getmember(normalize=True):
   result as component list; leading ".." are kept *)
Fixpoint normrel_acc (cs : list name) (acc : list name) : list name :=
  match cs with
  | [] => acc
  | c :: r => if skip_comp c then normrel_acc r acc
              else if is_dotdot c then
                     match rev acc with
                     | [] => normrel_acc r [n_dotdot]
                     | l :: _ => if is_dotdot l then normrel_acc r (acc ++ [n_dotdot])
                                 else normrel_acc r (removelast acc)
                     end
              else normrel_acc r (acc ++ [c])
  end.
(* absolute names keep their root: modelled by a leading empty component *)
Definition normname (s : str) : list name :=
  if is_abs s then [] :: lexnorm (comps_of s) else normrel_acc (comps_of s) [].

(* ------------------------------------------------------------------ file system *)
Inductive ikind := KReg | KSym | KFifo | KChr | KBlk.
Record inode := mkInode { i_kind : ikind; i_data : str; i_mode : N }.

Inductive tree :=
| TDir (mode : N) (es : list (name * tree))
| TLeaf (ino : N).

Record fsys := mkFs { f_root : tree; f_inodes : list (N * inode); f_next : N }.

Inductive snode := SDir (mode : N) | SLeaf (ino : N).

Fixpoint assoc {A} (n : name) (es : list (name * A)) : option A :=
  match es with
  | [] => None
  | (k, v) :: r => if str_eqb n k then Some v else assoc n r
  end.

Fixpoint assoc_del {A} (n : name) (es : list (name * A)) : list (name * A) :=
  match es with
  | [] => []
  | (k, w) :: r => if str_eqb n k then assoc_del n r else (k, w) :: assoc_del n r
  end.

(* replace in place, append when absent, delete when [v = None]; n is bound at most once afterwards *)
Fixpoint assoc_set {A} (n : name) (v : option A) (es : list (name * A)) : list (name * A) :=
  match es with
  | [] => match v with Some x => [(n, x)] | None => [] end
  | (k, w) :: r => if str_eqb n k then match v with Some x => (k, x) :: assoc_del n r | None => assoc_del n r end
                   else (k, w) :: assoc_set n v r
  end.

Fixpoint t_get (t : tree) (p : path) : option tree :=
  match p with
  | [] => Some t
  | n :: r => match t with
              | TDir _ es => match assoc n es with Some c => t_get c r | None => None end
              | TLeaf _ => None
              end
  end.

Definition shallow (t : tree) : snode := match t with TDir m _ => SDir m | TLeaf i => SLeaf i end.
Definition t_stat (t : tree) (p : path) : option snode := option_map shallow (t_get t p).

Definition node_put (old : option tree) (v : option snode) : option tree :=
  match v with
  | None => None
  | Some (SLeaf i) => Some (TLeaf i)
  | Some (SDir m) => Some (match old with Some (TDir _ ces) => TDir m ces | _ => TDir m [] end)
  end.

(* set / replace / delete the node at p (its parent must be an existing
   directory, otherwise nothing happens); a directory that stays a directory
   keeps its children *)
Fixpoint t_put (t : tree) (p : path) (v : option snode) : tree :=
  match t with
  | TLeaf _ => t
  | TDir m es =>
    match p with
    | [] => match v with Some (SDir m') => TDir m' es | _ => t end
    | n :: r =>
      match r with
      | [] => TDir m (assoc_set n (node_put (assoc n es) v) es)
      | _ :: _ => match assoc n es with
                  | Some c => TDir m (assoc_set n (Some (t_put c r v)) es)
                  | None => t
                  end
      end
    end
  end.

Fixpoint ino_get (tab : list (N * inode)) (i : N) : option inode :=
  match tab with [] => None | (k, v) :: r => if k =? i then Some v else ino_get r i end.

Fixpoint ino_set (tab : list (N * inode)) (i : N) (v : inode) : list (N * inode) :=
  match tab with
  | [] => [(i, v)]
  | (k, w) :: r => if k =? i then (k, v) :: r else (k, w) :: ino_set r i v
  end.

Definition stat (fs : fsys) (p : path) : option snode := t_stat (f_root fs) p.
Definition inode_of (fs : fsys) (i : N) : option inode := ino_get (f_inodes fs) i.

Definition put (fs : fsys) (p : path) (v : option snode) : fsys :=
  mkFs (t_put (f_root fs) p v) (f_inodes fs) (f_next fs).
Definition set_inode (fs : fsys) (i : N) (v : inode) : fsys :=
  mkFs (f_root fs) (ino_set (f_inodes fs) i v) (f_next fs).
(* new inode with a fresh number, linked at p *)
Definition create (fs : fsys) (p : path) (v : inode) : fsys :=
  mkFs (t_put (f_root fs) p (Some (SLeaf (f_next fs)))) (ino_set (f_inodes fs) (f_next fs) v) (N.succ (f_next fs)).

Definition is_dir (fs : fsys) (p : path) : bool :=
  match stat fs p with Some (SDir _) => true | _ => false end.

(* target of the symbolic link at location p, if p is one *)
Definition sym_at (fs : fsys) (p : path) : option str :=
  match stat fs p with
  | Some (SLeaf i) => match inode_of fs i with
                      | Some (mkInode KSym tgt _) => Some tgt
                      | _ => None
                      end
  | _ => None
  end.

Definition link_base (tgt : str) (cur : path) : path := if is_abs tgt then [] else cur.

(* ---- kernel path resolution.  [follow]: follow a symbolic link in the last
   component.  A missing last component is allowed (the location is returned,
   callers look at [stat]).  [stack] = links being resolved (ELOOP).  The
   MAXSYMLINKS limit of 40 is not modelled.  [kgo rec] walks one component
   list; [rec] resolves the target of a symbolic link (one level deeper). *)
Definition kres_t := list path -> path -> list name -> option path.

Fixpoint kgo (rec : kres_t) (fs : fsys) (stack : list path) (follow : bool)
             (comps : list name) (cur : path) {struct comps} : option path :=
  match comps with
  | [] => Some cur
  | c :: rest =>
    if skip_comp c then kgo rec fs stack follow rest cur
    else if is_dotdot c then kgo rec fs stack follow rest (removelast cur)
    else
      let p := cur ++ [c] in
      match sym_at fs p with
      | Some tgt =>
        if is_nil rest && negb follow then Some p
        else if mem_path p stack then None
        else match rec (p :: stack) (link_base tgt cur) (comps_of tgt) with
             | Some q => match rest with
                         | [] => Some q
                         | _ :: _ => if is_dir fs q then kgo rec fs stack follow rest q else None
                         end
             | None => None
             end
      | None =>
        match stat fs p with
        | Some (SDir _) => kgo rec fs stack follow rest p
        | _ => match rest with [] => Some p | _ :: _ => None end
        end
      end
  end.

Fixpoint kres (fuel : nat) (fs : fsys) (stack : list path) (follow : bool)
              (cur : path) (comps : list name) {struct fuel} : option path :=
  match fuel with
  | O => None
  | S f => kgo (fun st c cs => kres f fs st true c cs) fs stack follow comps cur
  end.

(* ---- posixpath._joinrealpath (strict=False).  Result: components and the
   "ok" flag; when not ok the components are not normalised (realpath() applies
   abspath() = normpath() afterwards, see [realpath]).  None = out of fuel. *)
Definition pyres_t := list path -> path -> list name -> option (list name * bool).

Fixpoint pygo (rec : pyres_t) (fs : fsys) (stack : list path)
              (comps : list name) (cur : path) {struct comps} : option (list name * bool) :=
  match comps with
  | [] => Some (cur, true)
  | c :: rest =>
    if skip_comp c then pygo rec fs stack rest cur
    else if is_dotdot c then pygo rec fs stack rest (removelast cur)
    else
      let p := cur ++ [c] in
      match sym_at fs p with
      | Some tgt =>
        if mem_path p stack then Some (p ++ rest, false)
        else match rec (p :: stack) (link_base tgt cur) (comps_of tgt) with
             | Some (q, true) => pygo rec fs stack rest q
             | Some (q, false) => Some (q ++ rest, false)
             | None => None
             end
      | None => pygo rec fs stack rest p
      end
  end.

Fixpoint pyreal (fuel : nat) (fs : fsys) (stack : list path)
                (cur : path) (comps : list name) {struct fuel} : option (list name * bool) :=
  match fuel with
  | O => None
  | S f => pygo (fun st c cs => pyreal f fs st c cs) fs stack comps cur
  end.

Definition realpath (fuel : nat) (fs : fsys) (comps : list name) : option path :=
  match pyreal fuel fs [] [] comps with
  | Some (q, true) => Some q
  | Some (q, false) => Some (lexnorm q)
  | None => None
  end.

(* ------------------------------------------------------------------ system calls *)
Inductive oserr := EEXIST | EOTHER.

Definition sys_exists (fuel : nat) (fs : fsys) (cs : list name) : bool :=
  match kres fuel fs [] true [] cs with
  | Some l => match stat fs l with Some _ => true | None => false end
  | None => false
  end.

Definition sys_lexists (fuel : nat) (fs : fsys) (cs : list name) : bool :=
  match kres fuel fs [] false [] cs with
  | Some l => match stat fs l with Some _ => true | None => false end
  | None => false
  end.

Definition sys_isdir (fuel : nat) (fs : fsys) (cs : list name) : bool :=
  match kres fuel fs [] true [] cs with
  | Some l => is_dir fs l
  | None => false
  end.

Definition sys_mkdir (fuel : nat) (fs : fsys) (cs : list name) (mode : N) : fsys * option oserr :=
  match kres fuel fs [] false [] cs with
  | None => (fs, Some EOTHER)
  | Some l => match stat fs l with
              | Some _ => (fs, Some EEXIST)
              | None => (put fs l (Some (SDir mode)), None)
              end
  end.

(* creation of a non-directory node: symlink(2), mkfifo(2), mknod(2) *)
Definition sys_mknode (fuel : nat) (fs : fsys) (cs : list name) (v : inode) : fsys * option oserr :=
  match kres fuel fs [] false [] cs with
  | None => (fs, Some EOTHER)
  | Some l => match stat fs l with
              | Some _ => (fs, Some EEXIST)
              | None => (create fs l v, None)
              end
  end.

Definition sys_unlink (fuel : nat) (fs : fsys) (cs : list name) : fsys * option oserr :=
  match kres fuel fs [] false [] cs with
  | None => (fs, Some EOTHER)
  | Some l => match stat fs l with
              | Some (SLeaf _) => (put fs l None, None)
              | _ => (fs, Some EOTHER)
              end
  end.

(* link(2): the last component of the source is not followed *)
Definition sys_link (fuel : nat) (fs : fsys) (src dst : list name) : fsys * option oserr :=
  match kres fuel fs [] false [] src with
  | None => (fs, Some EOTHER)
  | Some ls =>
    match stat fs ls with
    | Some (SLeaf i) =>
      match kres fuel fs [] false [] dst with
      | None => (fs, Some EOTHER)
      | Some ld => match stat fs ld with
                   | Some _ => (fs, Some EEXIST)
                   | None => (put fs ld (Some (SLeaf i)), None)
                   end
      end
    | _ => (fs, Some EOTHER)
    end
  end.

Definition DEFAULT_FILE_MODE : N := 420.   (* 0o666 & ~umask, umask 022 *)
Definition DEFAULT_DIR_MODE : N := 493.    (* 0o777 & ~umask *)

(* open(path, "wb") + write + close: follows links, creates or truncates,
   never unlinks.  Opening a fifo or a device node is not modelled (Error). *)
Definition sys_write (fuel : nat) (fs : fsys) (cs : list name) (data : str) : fsys * option oserr :=
  match kres fuel fs [] true [] cs with
  | None => (fs, Some EOTHER)
  | Some l =>
    match stat fs l with
    | None => (create fs l (mkInode KReg data DEFAULT_FILE_MODE), None)
    | Some (SLeaf i) =>
      match inode_of fs i with
      | Some (mkInode KReg _ m) => (set_inode fs i (mkInode KReg data m), None)
      | _ => (fs, Some EOTHER)
      end
    | Some (SDir _) => (fs, Some EOTHER)
    end
  end.

(* chmod(2) (chown/utime act on the same object and are not observable here) *)
Definition sys_chmod (fuel : nat) (fs : fsys) (cs : list name) (mode : N) : fsys * option oserr :=
  match kres fuel fs [] true [] cs with
  | None => (fs, Some EOTHER)
  | Some l =>
    match stat fs l with
    | Some (SDir _) => (put fs l (Some (SDir mode)), None)
    | Some (SLeaf i) =>
      match inode_of fs i with
      | Some (mkInode k d _) => (set_inode fs i (mkInode k d mode), None)
      | None => (fs, Some EOTHER)
      end
    | None => (fs, Some EOTHER)
    end
  end.

(* os.makedirs(name) with exist_ok=False, on the reversed component list
   (trailing empty components = trailing slashes are skipped like
   os.path.split does).  Returns the file system reached and the exception. *)
Fixpoint makedirs_rev (fuel : nat) (fs : fsys) (r : list name) {struct r} : fsys * option oserr :=
  match r with
  | [] => (fs, Some EEXIST)                       (* mkdir("/") *)
  | tail :: rh =>
    if is_nil tail then makedirs_rev fuel fs rh
    else
      let head := rev (drop_empty_front rh) in
      let name := rev r in
      if negb (sys_exists fuel fs head) then
        match makedirs_rev fuel fs rh with
        | (fs1, Some EOTHER) => (fs1, Some EOTHER)
        | (fs1, _) =>                                (* FileExistsError: pass *)
          if str_eqb tail n_dot then (fs1, None)
          else sys_mkdir fuel fs1 name DEFAULT_DIR_MODE
        end
      else sys_mkdir fuel fs name DEFAULT_DIR_MODE
  end.
Definition makedirs (fuel : nat) (fs : fsys) (cs : list name) : fsys * option oserr :=
  makedirs_rev fuel fs (rev cs).

(* ------------------------------------------------------------------ archive members *)
Inductive mkind := MReg | MDir | MSym | MLnk | MFifo | MChr | MBlk.

Record member := mkMember {
  m_name : str;
  m_kind : mkind;
  m_link : str;     (* linkname of MSym / MLnk *)
  m_mode : N;
  m_data : str      (* file content of MReg; "major,minor" encoding irrelevant here *)
}.

Definition is_lnk (k : mkind) : bool := match k with MLnk => true | _ => false end.
Definition is_sym (k : mkind) : bool := match k with MSym => true | _ => false end.

(* ---- bob.utils._tarExtractFilter(member, path): None = BuildError raised,
   Some name' = accepted with the (possibly stripped) name.  [dest] is the
   canonical location of the destination (os.path.realpath(path)). *)
Definition join_dest (dest : path) (s : str) : list name :=
  if is_abs s then comps_of s else dest ++ comps_of s.

Definition has_dotdot (s : str) : bool := existsb is_dotdot (split_slash s).

Definition inside (dest : path) (r : option path) : bool :=
  match r with Some q => is_prefix dest q | None => false end.

Definition tar_filter (fuel : nat) (fs : fsys) (dest : path) (m : member) : option str :=
  let name := if is_abs (m_name m) then lstrip_slash (m_name m) else m_name m in
  if has_dotdot name then None
  else if negb (inside dest (realpath fuel fs (join_dest dest name))) then None
  else if is_lnk (m_kind m)
          && negb (inside dest (realpath fuel fs (join_dest dest (m_link m)))) then None
  else Some name.

(* ---- tarfile.TarFile._extract_member and the make* methods.
   Status of one member: *)
Inductive mres :=
| MOk            (* extracted *)
| MNonfatal      (* ExtractError: swallowed by TarFile.extract with errorlevel=1 *)
| MFatal.        (* any other exception leaves TarFile.extract *)

(* TarFile._getmember(name, normalize=True) over a list searched from its end *)
Fixpoint find_member (nm : list name) (ms_rev : list member) : option member :=
  match ms_rev with
  | [] => None
  | m :: r => if path_eqb (normname (m_name m)) nm then Some m else find_member nm r
  end.

(* name searched by _find_link_target for a symlink member:
   "/".join(filter(None, (os.path.dirname(name), linkname))), normalised *)
Definition sym_search_name (m : member) : list name :=
  let d := rstrip_empty (removelast (split_slash (m_name m))) in
  if forallb is_nil d && negb (is_abs (m_name m)) then normname (m_link m)
  else if is_abs (m_name m) then [] :: lexnorm (d ++ comps_of (m_link m))
  else normrel_acc (d ++ comps_of (m_link m)) [].

(* chown/chmod/utime of _extract_member; false = ExtractError *)
Definition apply_attrs (fuel : nat) (fs : fsys) (t : list name) (m : member) (set_attrs : bool) : fsys * bool :=
  if set_attrs && negb (is_sym (m_kind m)) then
    match sys_chmod fuel fs t (m_mode m) with
    | (fs1, None) => (fs1, true)
    | (fs1, Some _) => (fs1, false)
    end
  else (fs, true).

Definition mknode_of (m : member) : inode :=
  match m_kind m with
  | MFifo => mkInode KFifo [] DEFAULT_FILE_MODE
  | MChr => mkInode KChr (m_data m) (m_mode m)
  | MBlk => mkInode KBlk (m_data m) (m_mode m)
  | _ => mkInode KSym (m_link m) 511
  end.

(* Result of one member: file system, status, "consumed" (tarfile had to search
   the archive with _find_link_target: the stream is then read to its end and the
   next TarFile.next() raises StreamError) and a diagnostic flag "nmk": a member
   re-extracted by the fall-back of makelink had to create parent directories
   (observation only; see extract_confined_partial). *)
Record xres := mkX { x_fs : fsys; x_st : mres; x_consumed : bool; x_nmk : bool }.

Definition finish (fuel : nat) (t : list name) (m : member) (set_attrs : bool) (r : xres) : xres :=
  match x_st r with
  | MOk => match apply_attrs fuel (x_fs r) t m set_attrs with
           | (fs2, true) => mkX fs2 MOk (x_consumed r) (x_nmk r)
           | (fs2, false) => mkX fs2 MNonfatal (x_consumed r) (x_nmk r)
           end
  | _ => r
  end.

(* [t] target path components (absolute); [s] = tarinfo._link_target of a hard
   link ([None] for members found through _find_link_target, which have none);
   [before]/[whole]: archive members in reverse order as TarFile.members holds
   them when this member is extracted (names of already processed members are
   the ones Bob rewrote).  [nested]: called from the fall-back of makelink.
   [member_body]: the part of _extract_member after the parent directories
   exist; [rec fsx fm] = self._extract_member(fm, targetpath) of the fall-back. *)
Definition member_body (rec : fsys -> member -> xres) (fuel : nat) (fs0 : fsys) (t : list name)
                       (s : option (list name)) (m : member) (set_attrs nested : bool)
                       (before whole : list member) : xres :=
  (* except symlink_exception / target missing: extract the member the link refers to instead *)
  let fallback (fsx : fsys) (found : option member) (caught : bool) : xres :=
    match found with
    | None => mkX fsx (if caught then MNonfatal else MFatal) true false      (* KeyError *)
    | Some fm => let r := rec fsx fm in mkX (x_fs r) (x_st r) true (x_nmk r)
    end in
  match m_kind m with
  | MReg =>
    (* makefile() first seeks to the member data: impossible for an earlier member of a stream *)
    if nested then mkX fs0 MFatal false false
    else
    match sys_write fuel fs0 t (m_data m) with
    | (fs1, None) => finish fuel t m set_attrs (mkX fs1 MOk false false)
    | (fs1, Some _) => mkX fs1 MFatal false false
    end
  | MDir =>
    match sys_mkdir fuel fs0 t 448 with
    | (fs1, Some EOTHER) => mkX fs1 MFatal false false
    | (fs1, _) => finish fuel t m set_attrs (mkX fs1 MOk false false)
    end
  | MFifo | MChr | MBlk =>
    match sys_mknode fuel fs0 t (mknode_of m) with
    | (fs1, None) => finish fuel t m set_attrs (mkX fs1 MOk false false)
    | (fs1, Some _) => mkX fs1 MFatal false false
    end
  | MSym =>
    let '(fs1, e1) := if sys_lexists fuel fs0 t then sys_unlink fuel fs0 t else (fs0, None) in
    match e1 with
    | Some _ => finish fuel t m set_attrs (fallback fs1 (find_member (sym_search_name m) whole) true)
    | None =>
      match sys_mknode fuel fs1 t (mknode_of m) with
      | (fs2, None) => finish fuel t m set_attrs (mkX fs2 MOk false false)
      | (fs2, Some _) => finish fuel t m set_attrs (fallback fs2 (find_member (sym_search_name m) whole) true)
      end
    end
  | MLnk =>
    match s with
    | None => mkX fs0 MFatal false false                       (* os.path.exists(None): TypeError *)
    | Some src =>
      if sys_exists fuel fs0 src then
        match sys_link fuel fs0 src t with
        | (fs1, None) => finish fuel t m set_attrs (mkX fs1 MOk false false)
        | (fs1, Some _) => finish fuel t m set_attrs (fallback fs1 (find_member (normname (m_link m)) before) true)
        end
      else finish fuel t m set_attrs (fallback fs0 (find_member (normname (m_link m)) before) false)
    end
  end.

(* TarFile._extract_member(tarinfo, targetpath, set_attrs); [depth] bounds the
   recursion of the fall-back (RecursionError). *)
Fixpoint extract_member (depth : nat) (fuel : nat) (fs : fsys) (t : list name) (s : option (list name))
                        (m : member) (set_attrs : bool) (nested : bool) (before whole : list member)
                        {struct depth} : xres :=
  match depth with
  | O => mkX fs MFatal false false
  | S depth' =>
    let upper := rstrip_empty (removelast t) in
    let mk := negb (sys_exists fuel fs upper) in
    let k0 := nested && mk in
    let '(fs0, e0) := if mk then makedirs fuel fs upper else (fs, None) in
    match e0 with
    | Some _ => mkX fs0 MFatal false k0
    | None =>
      let r := member_body (fun fsx fm => extract_member depth' fuel fsx t None fm true true [] whole)
                           fuel fs0 t s m set_attrs nested before whole in
      mkX (x_fs r) (x_st r) (x_consumed r) (k0 || x_nmk r)
    end
  end.

(* TarFile.extract(member, path, set_attrs) with the extraction filter *)
Definition tar_extract (fuel : nat) (fs : fsys) (dest : path) (m : member) (set_attrs : bool)
                       (before whole : list member) : xres :=
  match tar_filter fuel fs dest m with
  | None => mkX fs MFatal false false
  | Some name' =>
    let m' := mkMember name' (m_kind m) (m_link m) (m_mode m) (m_data m) in
    let t := rstrip_empty (dest ++ comps_of name') in
    let s := if is_lnk (m_kind m) then Some (join_dest dest (m_link m)) else None in
    extract_member (S fuel) fuel fs t s m' set_attrs false before whole
  end.

(* ------------------------------------------------------------------ Bob: TarHelper *)
(* CONTENT_PREFIX ("content/"), PREFIX_SLICE (8), AUDIT_NAME ("meta/audit.json.gz"),
   CONTENT_NAME, META_NAME, VSN_ONE come from Gen/ConstsC08.v (read from archive.py). *)

Inductive outcome := Extracted | Rejected.

Definition drop8 (s : str) : str := skipn PREFIX_SLICE s.

(* TarHelper.__extractPackage loop.  [done_rev]: members already taken from
   the stream, most recent first, with the names Bob assigned to them. *)
Fixpoint extract_loop (fuel : nat) (fs : fsys) (audit dest : path)
                      (done_rev : list member) (todo : list member) {struct todo} : fsys * outcome * bool :=
  match todo with
  | [] => (fs, Extracted, false)
  | f :: rest =>
    if starts_with CONTENT_PREFIX (m_name f) then
      if is_lnk (m_kind f) && negb (starts_with CONTENT_PREFIX (m_link f)) then (fs, Rejected, false)
      else
        let f' := mkMember (drop8 (m_name f)) (m_kind f)
                           (if is_lnk (m_kind f) then drop8 (m_link f) else m_link f)
                           (m_mode f) (m_data f) in
        let whole := rev rest ++ f' :: done_rev in
        let r := tar_extract fuel fs dest f' (negb (is_lnk (m_kind f))) done_rev whole in
        match x_st r, x_consumed r with
        | MFatal, _ => (x_fs r, Rejected, x_nmk r)
        | _, true => (x_fs r, Rejected, x_nmk r)              (* next tar.next(): StreamError *)
        | _, false =>
          match extract_loop fuel (x_fs r) audit dest (f' :: done_rev) rest with
          | (fs2, o, k) => (fs2, o, x_nmk r || k)
          end
        end
    else if str_eqb (m_name f) AUDIT_NAME then
      match m_kind f with
      | MReg =>
        match sys_write fuel fs audit (m_data f) with
        | (fs1, None) => extract_loop fuel fs1 audit dest (f :: done_rev) rest
        | (fs1, Some _) => (fs1, Rejected, false)
        end
      | _ => (fs, Rejected, false)                     (* extractfile() gives None / StreamError *)
      end
    else if str_eqb (m_name f) CONTENT_NAME || str_eqb (m_name f) META_NAME then
      extract_loop fuel fs audit dest (f :: done_rev) rest
    else (fs, Rejected, false)
  end.

(* bob.utils.removePath *)
Definition remove_path (fuel : nat) (fs : fsys) (p : path) : fsys :=
  match stat fs p with
  | Some _ => put fs p None          (* rmtree of a directory / unlink of anything else *)
  | None => fs
  end.

(* A decoded artifact: what tarfile delivers.  [a_pax]: value of the
   'bob-archive-vsn' pax header (None when absent); [a_tail_ok = false]: the
   stream ends with a read error (truncated / corrupt) after these members. *)
Record artifact := mkArtifact { a_pax : option str; a_members : list member; a_tail_ok : bool }.


(* TarHelper._extract(fileobj, audit, content) for an artifact whose header could be read *)
Definition bob_extract (fuel : nat) (fs : fsys) (audit dest : path) (a : artifact) : fsys * outcome * bool :=
  let fs1 := remove_path fuel fs audit in
  let fs2 := remove_path fuel fs1 dest in
  match makedirs fuel fs2 dest with
  | (fs3, Some _) => (fs3, Rejected, false)
  | (fs3, None) =>
    match a_pax a with
    | Some v =>
      if str_eqb v VSN_ONE then
        match extract_loop fuel fs3 audit dest [] (a_members a) with
        | (fs4, Extracted, k) => (fs4, if a_tail_ok a then Extracted else Rejected, k)
        | r => r
        end
      else (fs3, Rejected, false)
    | None => (fs3, Rejected, false)
    end
  end.

(* ------------------------------------------------------------------ directory hash *)
(* bob.utils.DirHasher.__hashDir without the stat cache.  H = SHA-1. *)
Definition S_IFDIR : N := 16384.
Definition S_IFREG : N := 32768.
Definition S_IFLNK : N := 40960.
Definition S_IFIFO : N := 4096.
Definition S_IFCHR : N := 8192.
Definition S_IFBLK : N := 24576.

Definition le32 (n : N) : str :=
  [n mod 256; (n / 256) mod 256; (n / 65536) mod 256; (n / 16777216) mod 256].

Fixpoint str_leb (a b : str) : bool :=
  match a, b with
  | [], _ => true
  | _ :: _, [] => false
  | x :: a', y :: b' => if x <? y then true else if y <? x then false else str_leb a' b'
  end.

Fixpoint insert_sorted (e : str * str) (l : list (str * str)) : list (str * str) :=
  match l with
  | [] => [e]
  | x :: r => if str_leb (fst e) (fst x) then e :: l else x :: insert_sorted e r
  end.
Definition sort_entries (l : list (str * str)) : list (str * str) := fold_right insert_sorted [] l.

Section Hash.
  Variable H : str -> str.

  Definition leaf_entry (fs : fsys) (i : N) : str * str :=      (* (st_mode, digest) *)
    match inode_of fs i with
    | Some (mkInode KReg d m) => (le32 (S_IFREG + m), H d)
    | Some (mkInode KSym d m) => (le32 (S_IFLNK + 511), H d)
    | Some (mkInode KFifo d m) => (le32 (S_IFIFO + m), [])
    | Some (mkInode KChr d m) => (le32 (S_IFCHR + m), d)
    | Some (mkInode KBlk d m) => (le32 (S_IFBLK + m), d)
    | None => ([], [])
    end.

  (* returns the digest of directory node t *)
  Fixpoint hash_tree (fs : fsys) (t : tree) : str :=
    match t with
    | TLeaf i => snd (leaf_entry fs i)
    | TDir _ es =>
      let ents :=
        (fix go (es : list (name * tree)) : list (str * str) :=
           match es with
           | [] => []
           | (n, c) :: r =>
             match c with
             | TDir m _ => if mem_str n HASH_IGNORE_DIRS then go r
                           else (n ++ [SLASH], le32 (S_IFDIR + m) ++ hash_tree fs c ++ n ++ [SLASH]) :: go r
             | TLeaf i => if mem_str n HASH_IGNORE_FILES then go r
                          else (n, fst (leaf_entry fs i) ++ snd (leaf_entry fs i) ++ n) :: go r
             end
           end) es in
      H (concat (map snd (sort_entries ents)))
    end.

  Definition hash_dir (fs : fsys) (p : path) : option str :=
    match t_get (f_root fs) p with
    | Some (TDir m es) => Some (hash_tree fs (TDir m es))
    | _ => None
    end.

  (* ---- the download path as far as acceptance is concerned:
     archive download, then builder.py: audit must exist, recorded result hash
     must equal the hash of the extracted workspace.  [recorded]: result hash
     stored in the audit trail (Audit.fromFile(...).getArtifact().getResultHash()),
     None when the audit file cannot be parsed. *)
  Variable recorded : str -> option str.

  Inductive verdict := Accepted (h : str) | Failed.

  Definition audit_bytes (fs : fsys) (audit : path) : option str :=
    match stat fs audit with
    | Some (SLeaf i) => match inode_of fs i with
                        | Some (mkInode KReg d _) => Some d
                        | _ => None
                        end
    | _ => None
    end.

  (* [None] artifact: the file could not even be opened as a tar stream (tarfileOpen raises) *)
  Definition download (fuel : nat) (fs : fsys) (audit dest : path) (a : option artifact) : fsys * verdict :=
    match a with
    | None => (fs, Failed)
    | Some art =>
      match bob_extract fuel fs audit dest art with
      | (fs1, Rejected, _) => (fs1, Failed)
      | (fs1, Extracted, _) =>
        if negb (sys_exists fuel fs1 audit) then (fs1, Failed)            (* misses its audit trail *)
        else
          match audit_bytes fs1 audit, hash_dir fs1 dest with
          | Some ab, Some h =>
            match recorded ab with
            | Some rh => if str_eqb rh h then (fs1, Accepted h) else (fs1, Failed)
            | None => (fs1, Failed)
            end
          | _, _ => (fs1, Failed)
          end
      end
    end.
End Hash.

(* ------------------------------------------------------------------ packing *)
(* tarfile.TarFile.add(content, arcname="content") after tar.add(audit, "meta/audit.json.gz"):
   depth-first listing in directory order; a regular file whose inode was
   already emitted becomes a hard link to the first name (TarFile.inodes). *)
Definition join_name (a b : str) : str := a ++ [SLASH] ++ b.

Fixpoint ino_seen (i : N) (seen : list (N * str)) : option str :=
  match seen with [] => None | (k, v) :: r => if k =? i then Some v else ino_seen i r end.

Fixpoint pack_tree (fs : fsys) (t : tree) (arc : str) (seen : list (N * str)) {struct t}
  : list member * list (N * str) :=
  match t with
  | TLeaf i =>
    match inode_of fs i with
    | Some (mkInode KReg d m) =>
      match ino_seen i seen with
      | Some first => ([mkMember arc MLnk first m []], seen)
      | None => ([mkMember arc MReg [] m d], (i, arc) :: seen)
      end
    | Some (mkInode KSym d m) => ([mkMember arc MSym d 511 []], seen)
    | Some (mkInode KFifo d m) => ([mkMember arc MFifo [] m []], seen)
    | Some (mkInode KChr d m) => ([mkMember arc MChr [] m d], seen)
    | Some (mkInode KBlk d m) => ([mkMember arc MBlk [] m d], seen)
    | None => ([], seen)
    end
  | TDir m es =>
    let '(ms, seen') :=
      (fix go (es : list (name * tree)) (seen : list (N * str)) : list member * list (N * str) :=
         match es with
         | [] => ([], seen)
         | (n, c) :: r =>
           let '(m1, s1) := pack_tree fs c (join_name arc n) seen in
           let '(m2, s2) := go r s1 in
           (m1 ++ m2, s2)
         end) es seen in
    (mkMember arc MDir [] m [] :: ms, seen')
  end.

Definition pack (fs : fsys) (audit content : path) : option artifact :=
  match audit_bytes fs audit, t_get (f_root fs) content with
  | Some ab, Some (TDir m es) =>
    Some (mkArtifact (if str_eqb PACK_VSN_KEY VSN_KEY then Some PACK_VSN else None)
                     (mkMember PACK_AUDIT_NAME MReg [] DEFAULT_FILE_MODE ab
                      :: fst (pack_tree fs (TDir m es) PACK_CONTENT_NAME []))
                     true)
  | _, _ => None
  end.

(* ------------------------------------------------------------------ specification *)
(* locations extraction may touch: the workspace and everything below, the audit file *)
Definition allowed (dest audit p : path) : bool := is_prefix dest p || is_prefix audit p.

(* fs' looks like fs at every location for which [ok] is false: same node
   (kind, mode, inode) and, for leaves, same inode content (data, mode, kind) *)
Definition same_outside (ok : path -> bool) (fs fs' : fsys) : Prop :=
  forall p, ok p = false ->
    stat fs' p = stat fs p /\
    (forall i, stat fs p = Some (SLeaf i) -> inode_of fs' i = inode_of fs i).

(* a canonical path: no "", "." or ".." components *)
Definition plain (cs : list name) : Prop :=
  forallb (fun c => negb (skip_comp c) && negb (is_dotdot c)) cs = true.

(* the inode allocator hands out unused numbers *)
Definition fresh_ok (fs : fsys) : Prop := forall p i, stat fs p = Some (SLeaf i) -> i < f_next fs.

(* member names the extraction loop knows *)
Definition classified (m : member) : bool :=
  starts_with CONTENT_PREFIX (m_name m) || str_eqb (m_name m) AUDIT_NAME
  || str_eqb (m_name m) CONTENT_NAME || str_eqb (m_name m) META_NAME.

(* ---- packing followed by extraction: what is compared and what is assumed *)
(* a directory entry name: not empty, not "." or "..", no '/' *)
Definition good_name (n : name) : Prop :=
  skip_comp n = false /\ is_dotdot n = false /\ forallb (fun c => negb (c =? SLASH)) n = true.


(* a node of the source tree (inodes of sfs) and a node of the target file system (inodes of fs) *)
Definition node_match (sfs : fsys) (sn : option snode) (fs : fsys) (tn : option snode) : Prop :=
  match sn, tn with
  | None, None => True
  | Some (SDir m), Some (SDir m') => m = m'
  | Some (SLeaf i), Some (SLeaf j) => inode_of fs j = inode_of sfs i /\ inode_of sfs i <> None
  | _, _ => False
  end.

(* what pack can represent exactly: every inode exists; symlinks carry mode 0o777, fifos no data *)
Definition inode_ok (v : inode) : Prop :=
  match i_kind v with KSym => i_mode v = 511 | KFifo => i_data v = [] | _ => True end.

Fixpoint src_ok (sfs : fsys) (t : tree) : Prop :=
  match t with
  | TLeaf i => exists v, inode_of sfs i = Some v /\ inode_ok v
  | TDir m es =>
    NoDup (map fst es) /\ Forall good_name (map fst es) /\
    (fix go (es : list (name * tree)) : Prop :=
       match es with [] => True | (n, c) :: r => src_ok sfs c /\ go r end) es
  end.


(* the state extraction starts from: canonical, not nested paths whose ancestors are directories *)
Record target_ok (fs : fsys) (audit dest : path) : Prop := mkTarget {
  tk_dplain : plain dest;
  tk_aplain : plain audit;
  tk_da : is_prefix dest audit = false;
  tk_ad : is_prefix audit dest = false;
  tk_fresh : fresh_ok fs;
  tk_danc : forall x b, dest = x ++ b -> b <> [] -> is_dir fs x = true;
  tk_aanc : forall x b, audit = x ++ b -> b <> [] -> is_dir fs x = true
}.

