(* C08 — packing followed by extraction reproduces the tree (up to inode numbers). *)
From Coq Require Import List NArith Bool Arith Lia.
Require Import BobV.Gen.ConstsC08 BobV.C08.Model BobV.C08.Proofs.
Import ListNotations.
Open Scope N_scope.

(* ---- names and member names *)
Lemma split_acc_nosep : forall n r cur,
  forallb (fun c => negb (c =? SLASH)) n = true -> split_acc (n ++ r) cur = split_acc r (rev n ++ cur).
Proof.
  induction n as [|c n IH]; intros r cur H; simpl in *; [reflexivity|].
  apply andb_true_iff in H as [H1 H2]. apply negb_true_iff in H1. rewrite H1.
  rewrite IH by exact H2. rewrite <- app_assoc. reflexivity.
Qed.

Lemma split_slash_single : forall n, forallb (fun c => negb (c =? SLASH)) n = true -> split_slash n = [n].
Proof.
  intros n H. unfold split_slash. rewrite <- (app_nil_r n) at 1. rewrite split_acc_nosep by exact H.
  simpl. rewrite app_nil_r, rev_involutive. reflexivity.
Qed.

Lemma split_slash_cons : forall n s, forallb (fun c => negb (c =? SLASH)) n = true ->
  split_slash (n ++ SLASH :: s) = n :: split_slash s.
Proof.
  intros n s H. unfold split_slash. rewrite split_acc_nosep by exact H. simpl.
  rewrite app_nil_r, rev_involutive. reflexivity.
Qed.

(* "a/b/c" *)
Fixpoint relstr (rel : list name) : str :=
  match rel with
  | [] => []
  | [n] => n
  | n :: r => n ++ SLASH :: relstr r
  end.

Lemma split_relstr : forall rel, rel <> [] -> Forall good_name rel -> split_slash (relstr rel) = rel.
Proof.
  induction rel as [|n r IH]; intros Hne Hg; [contradiction|].
  inversion Hg as [|? ? [_ [_ Hn]] Hr]; subst.
  destruct r as [|n2 r2].
  - simpl. apply split_slash_single. exact Hn.
  - change (relstr (n :: n2 :: r2)) with (n ++ SLASH :: relstr (n2 :: r2)).
    rewrite split_slash_cons by exact Hn. f_equal. apply IH; [discriminate|exact Hr].
Qed.

Lemma good_plain : forall rel, Forall good_name rel -> plain rel.
Proof.
  induction rel as [|n r IH]; intros H; [reflexivity|].
  inversion H as [|? ? [H1 [H2 _]] Hr]; subst. unfold plain. simpl. rewrite H1, H2. simpl. apply IH. exact Hr.
Qed.

(* ---- resolution of a path that runs through directories only *)
Definition dirs_to (fs : fsys) (p : path) : Prop :=
  forall a b, p = a ++ b -> a <> [] -> b <> [] -> is_dir fs a = true.

Lemma is_dir_not_sym : forall fs p, is_dir fs p = true -> sym_at fs p = None.
Proof. intros fs p H. unfold is_dir in H. unfold sym_at. destruct (stat fs p) as [[m|i]|]; try discriminate. reflexivity. Qed.

Lemma kgo_dirs : forall (rec : kres_t) fs st fw cs cur,
  plain cs ->
  (forall a b, cs = a ++ b -> a <> [] -> b <> [] -> is_dir fs (cur ++ a) = true) ->
  sym_at fs (cur ++ cs) = None ->
  kgo rec fs st fw cs cur = Some (cur ++ cs).
Proof.
  intros rec fs st fw. induction cs as [|c rest IH]; intros cur Hp Hd Hs; simpl.
  - rewrite app_nil_r. reflexivity.
  - apply plain_cons in Hp as [H1 [H2 H3]]. rewrite H1, H2.
    destruct rest as [|c2 r2].
    + rewrite Hs. destruct (stat fs (cur ++ [c])) as [[m|i]|]; reflexivity.
    + assert (Hdc : is_dir fs (cur ++ [c]) = true) by (apply (Hd [c] (c2 :: r2)); [reflexivity|discriminate|discriminate]).
      rewrite (is_dir_not_sym _ _ Hdc). unfold is_dir in Hdc.
      destruct (stat fs (cur ++ [c])) as [[m|i]|]; try discriminate.
      rewrite IH; auto.
      * rewrite <- app_assoc. reflexivity.
      * intros a b E Ha Hb. rewrite <- app_assoc. simpl. apply (Hd (c :: a) b); [rewrite E; reflexivity|discriminate|exact Hb].
      * rewrite <- app_assoc. exact Hs.
Qed.

Lemma kres_dirs : forall fuel fs fw p,
  plain p -> dirs_to fs p -> sym_at fs p = None -> kres (S fuel) fs [] fw [] p = Some p.
Proof. intros. simpl. apply kgo_dirs; auto. Qed.

Lemma pygo_dirs : forall (rec : pyres_t) fs st cs cur,
  plain cs ->
  (forall a b, cs = a ++ b -> a <> [] -> sym_at fs (cur ++ a) = None) ->
  pygo rec fs st cs cur = Some (cur ++ cs, true).
Proof.
  intros rec fs st. induction cs as [|c rest IH]; intros cur Hp Hs; simpl.
  - rewrite app_nil_r. reflexivity.
  - apply plain_cons in Hp as [H1 [H2 H3]]. rewrite H1, H2.
    rewrite (Hs [c] rest eq_refl ltac:(discriminate)).
    rewrite IH; auto.
    + rewrite <- app_assoc. reflexivity.
    + intros a b E Ha. rewrite <- app_assoc. simpl. apply (Hs (c :: a) b); [rewrite E; reflexivity|discriminate].
Qed.

(* a path whose proper prefixes are directories and which itself is no symbolic link *)
Record straight (fs : fsys) (p : path) : Prop := mkStraight {
  st_plain : plain p;
  st_dirs : dirs_to fs p;
  st_nosym : sym_at fs p = None
}.

Lemma straight_prefix_nosym : forall fs p a b, straight fs p -> p = a ++ b -> a <> [] -> sym_at fs a = None.
Proof.
  intros fs p a b [Hp Hd Hs] E Ha. destruct b as [|c b].
  - rewrite app_nil_r in E. subst a. exact Hs.
  - apply is_dir_not_sym. apply (Hd a (c :: b) E Ha). discriminate.
Qed.

Lemma realpath_straight : forall fuel fs p, straight fs p -> realpath (S fuel) fs p = Some p.
Proof.
  intros fuel fs p H. unfold realpath. simpl.
  rewrite pygo_dirs; [reflexivity|exact (st_plain _ _ H)|].
  intros a b E Ha. simpl. eapply straight_prefix_nosym; eauto.
Qed.

Lemma kres_straight : forall fuel fs fw p, straight fs p -> kres (S fuel) fs [] fw [] p = Some p.
Proof. intros fuel fs fw p [H1 H2 H3]. apply kres_dirs; assumption. Qed.

Lemma eff_exists : forall fuel fs p, straight fs p ->
  sys_exists (S fuel) fs p = match stat fs p with Some _ => true | None => false end.
Proof. intros. unfold sys_exists. rewrite kres_straight by assumption. reflexivity. Qed.

Lemma eff_lexists : forall fuel fs p, straight fs p ->
  sys_lexists (S fuel) fs p = match stat fs p with Some _ => true | None => false end.
Proof. intros. unfold sys_lexists. rewrite kres_straight by assumption. reflexivity. Qed.

Lemma eff_mkdir : forall fuel fs p m, straight fs p -> stat fs p = None ->
  sys_mkdir (S fuel) fs p m = (put fs p (Some (SDir m)), None).
Proof. intros fuel fs p m H Hn. unfold sys_mkdir. rewrite kres_straight by assumption. rewrite Hn. reflexivity. Qed.

Lemma eff_mknode : forall fuel fs p v, straight fs p -> stat fs p = None ->
  sys_mknode (S fuel) fs p v = (create fs p v, None).
Proof. intros fuel fs p v H Hn. unfold sys_mknode. rewrite kres_straight by assumption. rewrite Hn. reflexivity. Qed.

Lemma eff_write_new : forall fuel fs p d, straight fs p -> stat fs p = None ->
  sys_write (S fuel) fs p d = (create fs p (mkInode KReg d DEFAULT_FILE_MODE), None).
Proof. intros fuel fs p d H Hn. unfold sys_write. rewrite kres_straight by assumption. rewrite Hn. reflexivity. Qed.

Lemma eff_chmod_dir : forall fuel fs p m0 m, straight fs p -> stat fs p = Some (SDir m0) ->
  sys_chmod (S fuel) fs p m = (put fs p (Some (SDir m)), None).
Proof. intros fuel fs p m0 m H Hn. unfold sys_chmod. rewrite kres_straight by assumption. rewrite Hn. reflexivity. Qed.

Lemma eff_chmod_leaf : forall fuel fs p i k d m0 m, straight fs p -> stat fs p = Some (SLeaf i) ->
  inode_of fs i = Some (mkInode k d m0) ->
  sys_chmod (S fuel) fs p m = (set_inode fs i (mkInode k d m), None).
Proof. intros fuel fs p i k d m0 m H Hn Hi. unfold sys_chmod. rewrite kres_straight by assumption. rewrite Hn, Hi. reflexivity. Qed.

Lemma eff_link : forall fuel fs src dst i, straight fs src -> straight fs dst ->
  stat fs src = Some (SLeaf i) -> stat fs dst = None ->
  sys_link (S fuel) fs src dst = (put fs dst (Some (SLeaf i)), None).
Proof.
  intros fuel fs src dst i Hs Hd H1 H2. unfold sys_link.
  rewrite (kres_straight fuel fs false src Hs). rewrite H1.
  rewrite (kres_straight fuel fs false dst Hd). rewrite H2. reflexivity.
Qed.

(* ---- what a put / create at the end of a straight path does *)
Lemma straight_parent_dir : forall fs p n, straight fs (p ++ [n]) -> p <> [] -> exists m, stat fs p = Some (SDir m).
Proof.
  intros fs p n H Hp. pose proof (st_dirs _ _ H p [n] eq_refl Hp ltac:(discriminate)) as Hd.
  unfold is_dir in Hd. destruct (stat fs p) as [[m|i]|]; try discriminate. eauto.
Qed.

Lemma stat_put_self : forall fs p n v, straight fs (p ++ [n]) -> p <> [] ->
  stat (put fs (p ++ [n]) (Some v)) (p ++ [n]) = Some v.
Proof.
  intros fs p n v H Hp. destruct (straight_parent_dir fs p n H Hp) as [m Hm].
  unfold stat, put; simpl. eapply t_stat_put_same. exact Hm.
Qed.

Lemma stat_create_self : forall fs p n v, straight fs (p ++ [n]) -> p <> [] ->
  stat (create fs (p ++ [n]) v) (p ++ [n]) = Some (SLeaf (f_next fs)).
Proof.
  intros fs p n v H Hp. destruct (straight_parent_dir fs p n H Hp) as [m Hm].
  unfold stat, create; simpl. eapply t_stat_put_same. exact Hm.
Qed.

Lemma proper_prefix_not_below : forall (p a b : path), p = a ++ b -> b <> [] -> is_prefix p a = false.
Proof.
  intros p a b E Hb. destruct (is_prefix p a) eqn:H; auto. apply is_prefix_app in H as [r Hr]. exfalso. apply Hb.
  assert (L : (length p = length p + length r + length b)%nat).
  { rewrite E at 1. rewrite Hr. rewrite !app_length. lia. }
  destruct b; [reflexivity|simpl in L; lia].
Qed.

(* a change at the end of a straight path keeps the path straight as long as no link is put there *)
Lemma straight_after : forall fs fs' p,
  straight fs p ->
  (forall q, is_prefix p q = false -> stat fs' q = stat fs q) ->
  sym_at fs' p = None ->
  straight fs' p.
Proof.
  intros fs fs' p [H1 H2 H3] Ho Hs. constructor; auto.
  intros a b E Ha Hb. unfold is_dir. rewrite Ho; [apply (H2 a b E Ha Hb)|].
  eapply proper_prefix_not_below; eauto.
Qed.

Lemma stat_put_other' : forall fs l v q, is_prefix l q = false -> stat (put fs l v) q = stat fs q.
Proof. intros. unfold stat, put; simpl. apply t_stat_put_other. assumption. Qed.

Lemma stat_create_other : forall fs l v q, is_prefix l q = false -> stat (create fs l v) q = stat fs q.
Proof. intros. unfold stat, create; simpl. apply t_stat_put_other. assumption. Qed.

Lemma rstrip_empty_id : forall (cs : list name) (n : name), is_nil n = false -> rstrip_empty (cs ++ [n]) = cs ++ [n].
Proof.
  intros cs n Hn. unfold rstrip_empty. rewrite rev_app_distr. simpl. rewrite Hn. simpl.
  rewrite rev_involutive. reflexivity.
Qed.

Lemma good_name_not_nil : forall n, good_name n -> is_nil n = false.
Proof. intros n [H _]. unfold skip_comp in H. apply orb_false_iff in H as [H _]. destruct n; [discriminate|reflexivity]. Qed.

Lemma relstr_not_abs : forall rel, rel <> [] -> Forall good_name rel -> is_abs (relstr rel) = false.
Proof.
  intros rel Hne Hg. destruct rel as [|n r]; [contradiction|]. inversion Hg as [|? ? Hn Hr]; subst.
  pose proof (good_name_not_nil n Hn) as Hnil. destruct Hn as [_ [_ Hs]].
  destruct n as [|c n']; [discriminate|]. simpl in Hs. apply andb_true_iff in Hs as [Hc _]. apply negb_true_iff in Hc.
  destruct r; simpl; exact Hc.
Qed.

Lemma good_no_dotdot : forall rel, Forall good_name rel -> existsb is_dotdot rel = false.
Proof.
  induction rel as [|n r IH]; intros H; [reflexivity|]. inversion H as [|? ? [_ [H2 _]] Hr]; subst.
  simpl. rewrite H2. apply IH. exact Hr.
Qed.

(* ---- one benign member at a fresh location *)
Record ready (fs : fsys) (dest : path) (rel : list name) : Prop := mkReady {
  r_dest : dest <> [];
  r_rel : rel <> [];
  r_good : Forall good_name rel;
  r_straight : straight fs (dest ++ rel);
  r_fresh : stat fs (dest ++ rel) = None
}.

Lemma rel_last : forall (rel : list name), rel <> [] -> exists r n, rel = r ++ [n].
Proof. intros rel H. exists (removelast rel), (last rel []). apply app_removelast_last. exact H. Qed.

Lemma Forall_last : forall (P : name -> Prop) r n, Forall P (r ++ [n]) -> P n.
Proof. intros P r n H. rewrite Forall_forall in H. apply H. apply in_or_app. right. left. reflexivity. Qed.

Lemma filter_ok : forall fuel fs dest rel m,
  ready fs dest rel -> m_name m = relstr rel ->
  (m_kind m = MLnk -> inside dest (realpath (S fuel) fs (join_dest dest (m_link m))) = true) ->
  tar_filter (S fuel) fs dest m = Some (relstr rel).
Proof.
  intros fuel fs dest rel m [Hd Hr Hg Hs Hf] Hn Hl. unfold tar_filter. rewrite Hn.
  rewrite (relstr_not_abs rel Hr Hg).
  assert (E1 : has_dotdot (relstr rel) = false).
  { unfold has_dotdot. rewrite (split_relstr rel Hr Hg). apply good_no_dotdot. exact Hg. }
  assert (E2 : inside dest (realpath (S fuel) fs (join_dest dest (relstr rel))) = true).
  { unfold join_dest. rewrite (relstr_not_abs rel Hr Hg). unfold comps_of. rewrite (split_relstr rel Hr Hg).
    rewrite (realpath_straight fuel fs _ Hs). simpl. apply is_prefix_app_r. apply is_prefix_refl. }
  rewrite E1, E2. cbn [negb].
  destruct (m_kind m) eqn:Ek; cbn [is_lnk andb]; try reflexivity.
  rewrite (Hl eq_refl). reflexivity.
Qed.

Lemma straight_upper : forall fs p n, straight fs (p ++ [n]) -> p <> [] -> straight fs p /\ is_dir fs p = true.
Proof.
  intros fs p n H Hp. pose proof (st_dirs _ _ H p [n] eq_refl Hp ltac:(discriminate)) as Hd.
  split; [|exact Hd]. constructor.
  - pose proof (st_plain _ _ H) as Hpl. apply plain_app in Hpl. tauto.
  - intros a b E Ha Hb. apply (st_dirs _ _ H a (b ++ [n])); [rewrite E, app_assoc; reflexivity|exact Ha|destruct b; discriminate].
  - apply is_dir_not_sym. exact Hd.
Qed.

Definition effect (fs : fsys) (t : path) (m : member) (li : N) : fsys :=
  match m_kind m with
  | MDir => put (put fs t (Some (SDir 448))) t (Some (SDir (m_mode m)))
  | MReg => set_inode (create fs t (mkInode KReg (m_data m) DEFAULT_FILE_MODE)) (f_next fs) (mkInode KReg (m_data m) (m_mode m))
  | MSym => create fs t (mkInode KSym (m_link m) 511)
  | MLnk => put fs t (Some (SLeaf li))
  | MFifo => set_inode (create fs t (mkInode KFifo [] DEFAULT_FILE_MODE)) (f_next fs) (mkInode KFifo [] (m_mode m))
  | MChr => set_inode (create fs t (mkInode KChr (m_data m) (m_mode m))) (f_next fs) (mkInode KChr (m_data m) (m_mode m))
  | MBlk => set_inode (create fs t (mkInode KBlk (m_data m) (m_mode m))) (f_next fs) (mkInode KBlk (m_data m) (m_mode m))
  end.

Lemma inode_create_self : forall fs l v, inode_of (create fs l v) (f_next fs) = Some v.
Proof. intros. unfold inode_of, create; simpl. apply ino_get_set_same. Qed.

Lemma straight_created : forall fs p n v, straight fs (p ++ [n]) -> p <> [] -> i_kind v <> KSym ->
  straight (create fs (p ++ [n]) v) (p ++ [n]).
Proof.
  intros fs p n v H Hp Hk. eapply straight_after; [exact H| |].
  - intros q Hq. apply stat_create_other. exact Hq.
  - unfold sym_at. rewrite (stat_create_self fs p n v H Hp). rewrite inode_create_self.
    destruct v as [[] d m]; simpl in *; congruence.
Qed.

Lemma tar_extract_fresh : forall fuel fs dest rel m sa before whole lrel li,
  ready fs dest rel -> m_name m = relstr rel ->
  (m_kind m = MLnk -> sa = false /\ m_link m = relstr lrel /\ lrel <> [] /\ Forall good_name lrel /\
                      straight fs (dest ++ lrel) /\ stat fs (dest ++ lrel) = Some (SLeaf li)) ->
  (m_kind m <> MLnk -> sa = true) ->
  tar_extract (S fuel) fs dest m sa before whole = mkX (effect fs (dest ++ rel) m li) MOk false false.
Proof.
  intros fuel fs dest rel m sa before whole lrel li HR Hn Hl Hsa.
  pose proof HR as [Hd Hr Hg Hs Hf].
  assert (Hlg : m_kind m = MLnk -> join_dest dest (m_link m) = dest ++ lrel).
  { intros E. destruct (Hl E) as [_ [E2 [E3 [E4 _]]]]. unfold join_dest. rewrite E2.
    rewrite (relstr_not_abs lrel E3 E4). unfold comps_of. rewrite (split_relstr lrel E3 E4). reflexivity. }
  unfold tar_extract. rewrite (filter_ok fuel fs dest rel m HR Hn).
  2:{ intros E. rewrite (Hlg E). destruct (Hl E) as [_ [_ [_ [_ [E5 _]]]]].
      rewrite (realpath_straight fuel fs _ E5). simpl. apply is_prefix_app_r. apply is_prefix_refl. }
  unfold comps_of. rewrite (split_relstr rel Hr Hg).
  destruct (rel_last rel Hr) as [r0 [n0 Erel]].
  assert (Hn0 : good_name n0) by (rewrite Erel in Hg; eapply Forall_last; eauto).
  assert (ET : dest ++ rel = (dest ++ r0) ++ [n0]) by (rewrite Erel, app_assoc; reflexivity).
  assert (Hp0 : dest ++ r0 <> []) by (destruct dest; [contradiction|discriminate]).
  rewrite ET in Hs, Hf |- *. rewrite (rstrip_empty_id (dest ++ r0) n0 (good_name_not_nil n0 Hn0)).
  destruct (straight_upper fs (dest ++ r0) n0 Hs Hp0) as [Hup Hupd].
  cbn [extract_member]. rewrite removelast_last.
  assert (Eup : rstrip_empty (dest ++ r0) = dest ++ r0).
  { destruct (rel_last (dest ++ r0) Hp0) as [u [k Eu]]. rewrite Eu.
    apply rstrip_empty_id. pose proof (st_plain _ _ Hup) as Hpl. rewrite Eu in Hpl. apply plain_app in Hpl as [_ Hk].
    apply plain_cons in Hk as [Hk _]. unfold skip_comp in Hk. apply orb_false_iff in Hk as [Hk _].
    destruct k; [discriminate|reflexivity]. }
  rewrite Eup. rewrite (eff_exists fuel fs _ Hup). unfold is_dir in Hupd.
  destruct (stat fs (dest ++ r0)) as [[mu|iu]|] eqn:Esu; try discriminate. simpl.
  unfold member_body, effect. cbn [m_kind m_data m_link m_mode].
  destruct (m_kind m) eqn:Ek.
  - (* MReg *)
    rewrite (Hsa ltac:(discriminate)).
    rewrite (eff_write_new fuel fs _ (m_data m) Hs Hf). unfold finish, apply_attrs. cbn [x_st x_fs m_kind m_mode is_sym]. simpl negb. simpl andb.
    rewrite (eff_chmod_leaf fuel _ _ (f_next fs) KReg (m_data m) DEFAULT_FILE_MODE (m_mode m)).
    + reflexivity.
    + apply straight_created; auto. simpl. discriminate.
    + apply stat_create_self; auto.
    + apply inode_create_self.
  - (* MDir *)
    rewrite (Hsa ltac:(discriminate)).
    rewrite (eff_mkdir fuel fs _ 448 Hs Hf). unfold finish, apply_attrs. cbn [x_st x_fs m_kind m_mode is_sym]. simpl negb. simpl andb.
    rewrite (eff_chmod_dir fuel _ _ 448 (m_mode m)).
    + reflexivity.
    + eapply straight_after; [exact Hs| |].
      * intros q Hq. apply stat_put_other'. exact Hq.
      * unfold sym_at. rewrite (stat_put_self fs _ _ _ Hs Hp0). reflexivity.
    + apply stat_put_self; auto.
  - (* MSym *)
    rewrite (eff_lexists fuel fs _ Hs). rewrite Hf.
    unfold mknode_of. cbn [m_kind].
    rewrite (eff_mknode fuel fs _ _ Hs Hf). unfold finish, apply_attrs. cbn [x_st x_fs m_kind is_sym]. simpl.
    rewrite andb_false_r. reflexivity.
  - (* MLnk *)
    destruct (Hl eq_refl) as [E1 [E2 [E3 [E4 [E5 E6]]]]]. subst sa.
    assert (Ej : join_dest dest (m_link m) = dest ++ lrel) by (apply Hlg; reflexivity).
    cbn [is_lnk]. rewrite Ej. rewrite (eff_exists fuel fs _ E5). rewrite E6.
    rewrite (eff_link fuel fs _ _ li E5 Hs E6 Hf). unfold finish, apply_attrs. reflexivity.
  - (* MFifo *)
    rewrite (Hsa ltac:(discriminate)). unfold mknode_of. cbn [m_kind].
    rewrite (eff_mknode fuel fs _ _ Hs Hf). unfold finish, apply_attrs. cbn [x_st x_fs m_kind m_mode is_sym]. simpl negb. simpl andb.
    rewrite (eff_chmod_leaf fuel _ _ (f_next fs) KFifo [] DEFAULT_FILE_MODE (m_mode m)).
    + reflexivity.
    + apply straight_created; auto. simpl. discriminate.
    + apply stat_create_self; auto.
    + apply inode_create_self.
  - (* MChr *)
    rewrite (Hsa ltac:(discriminate)). unfold mknode_of. cbn [m_kind].
    rewrite (eff_mknode fuel fs _ _ Hs Hf). unfold finish, apply_attrs. cbn [x_st x_fs m_kind m_mode is_sym]. simpl negb. simpl andb.
    rewrite (eff_chmod_leaf fuel _ _ (f_next fs) KChr (m_data m) (m_mode m) (m_mode m)).
    + reflexivity.
    + apply straight_created; auto. simpl. discriminate.
    + apply stat_create_self; auto.
    + apply inode_create_self.
  - (* MBlk *)
    rewrite (Hsa ltac:(discriminate)). unfold mknode_of. cbn [m_kind].
    rewrite (eff_mknode fuel fs _ _ Hs Hf). unfold finish, apply_attrs. cbn [x_st x_fs m_kind m_mode is_sym]. simpl negb. simpl andb.
    rewrite (eff_chmod_leaf fuel _ _ (f_next fs) KBlk (m_data m) (m_mode m) (m_mode m)).
    + reflexivity.
    + apply straight_created; auto. simpl. discriminate.
    + apply stat_create_self; auto.
    + apply inode_create_self.
Qed.

(* ================================================================== induction over source trees *)
Section TreeInd.
  Variable P : tree -> Prop.
  Hypothesis Hleaf : forall i, P (TLeaf i).
  Hypothesis Hdir : forall m es, Forall (fun e => P (snd e)) es -> P (TDir m es).
  Fixpoint tree_ind2 (t : tree) : P t :=
    match t with
    | TLeaf i => Hleaf i
    | TDir m es =>
      Hdir m es ((fix go (es : list (name * tree)) : Forall (fun e => P (snd e)) es :=
                    match es with
                    | [] => Forall_nil _
                    | e :: r => Forall_cons e (tree_ind2 (snd e)) (go r)
                    end) es)
    end.
End TreeInd.

Definition seen_t := list (N * str).

Fixpoint pack_list (pk : tree -> str -> seen_t -> list member * seen_t) (arc : str)
                   (es : list (name * tree)) (seen : seen_t) : list member * seen_t :=
  match es with
  | [] => ([], seen)
  | (n, c) :: r =>
    let '(m1, s1) := pk c (join_name arc n) seen in
    let '(m2, s2) := pack_list pk arc r s1 in
    (m1 ++ m2, s2)
  end.

Lemma pack_tree_dir : forall sfs m es arc seen,
  pack_tree sfs (TDir m es) arc seen =
  let '(ms, seen') := pack_list (pack_tree sfs) arc es seen in (mkMember arc MDir [] m [] :: ms, seen').
Proof.
  intros. simpl.
  assert (E : forall es seen,
    (fix go (es0 : list (name * tree)) (seen0 : list (N * str)) {struct es0} : list member * list (N * str) :=
       match es0 with
       | [] => ([], seen0)
       | (n, c) :: r => let '(m1, s1) := pack_tree sfs c (join_name arc n) seen0 in
                        let '(m2, s2) := go r s1 in (m1 ++ m2, s2)
       end) es seen = pack_list (pack_tree sfs) arc es seen).
  { induction es0 as [|[n c] r IH]; intros seen0; simpl; [reflexivity|].
    destruct (pack_tree sfs c (join_name arc n) seen0) as [m1 s1]. rewrite IH. reflexivity. }
  rewrite E. reflexivity.
Qed.

(* ================================================================== the extraction loop on a packed member *)
Definition arc_of (rel : list name) : str := CONTENT_PREFIX ++ relstr rel.

Lemma prefix_is_content : CONTENT_PREFIX = PACK_CONTENT_NAME ++ [SLASH].
Proof. reflexivity. Qed.

Lemma starts_with_prefix : forall x, starts_with CONTENT_PREFIX (CONTENT_PREFIX ++ x) = true.
Proof. intros. reflexivity. Qed.

Lemma drop8_prefix : forall x, drop8 (CONTENT_PREFIX ++ x) = x.
Proof. intros. reflexivity. Qed.

Lemma join_arc : forall rel n, rel <> [] -> join_name (arc_of rel) n = arc_of (rel ++ [n]).
Proof.
  intros rel n Hr. unfold join_name, arc_of. rewrite <- app_assoc. f_equal.
  induction rel as [|a r IH]; [contradiction|].
  destruct r as [|b r'].
  - reflexivity.
  - change (relstr (a :: b :: r')) with (a ++ SLASH :: relstr (b :: r')).
    change ((a :: b :: r') ++ [n]) with (a :: (b :: r') ++ [n]).
    assert (E : relstr (a :: (b :: r') ++ [n]) = a ++ SLASH :: relstr ((b :: r') ++ [n])).
    { simpl. destruct (r' ++ [n]) eqn:E0; [destruct r'; discriminate|reflexivity]. }
    rewrite E. rewrite <- app_assoc. simpl. f_equal. f_equal. apply IH. discriminate.
Qed.

Lemma join_arc_root : forall n, join_name PACK_CONTENT_NAME n = arc_of [n].
Proof. intros. reflexivity. Qed.

Lemma loop_step : forall fuel fs audit dest done rest rel k link mode data lrel li,
  ready fs dest rel ->
  (k = MLnk -> link = arc_of lrel /\ lrel <> [] /\ Forall good_name lrel /\
               straight fs (dest ++ lrel) /\ stat fs (dest ++ lrel) = Some (SLeaf li)) ->
  exists done',
  extract_loop (S fuel) fs audit dest done (mkMember (arc_of rel) k link mode data :: rest) =
  extract_loop (S fuel)
    (effect fs (dest ++ rel) (mkMember (relstr rel) k (if is_lnk k then drop8 link else link) mode data) li)
    audit dest done' rest.
Proof.
  intros fuel fs audit dest done rest rel k link mode data lrel li HR Hl.
  exists (mkMember (relstr rel) k (if is_lnk k then drop8 link else link) mode data :: done).
  cbn [extract_loop m_name m_kind m_link m_mode m_data]. unfold arc_of at 1. rewrite starts_with_prefix.
  assert (Hlk : is_lnk k && negb (starts_with CONTENT_PREFIX link) = false).
  { destruct k; try reflexivity. destruct (Hl eq_refl) as [E _]. rewrite E. unfold arc_of. rewrite starts_with_prefix. reflexivity. }
  rewrite Hlk. unfold arc_of. rewrite drop8_prefix.
  set (f' := mkMember (relstr rel) k (if is_lnk k then drop8 link else link) mode data).
  rewrite (tar_extract_fresh fuel fs dest rel f' (negb (is_lnk k)) done _ lrel li HR eq_refl).
  - cbn [x_st x_consumed x_fs x_nmk].
    destruct (extract_loop (S fuel) (effect fs (dest ++ rel) f' li) audit dest (f' :: done) rest) as [[a b] c]. reflexivity.
  - intros E. simpl in E. subst k. destruct (Hl eq_refl) as [E1 [E2 [E3 [E4 E5]]]].
    split; [reflexivity|]. split; [|auto]. simpl. rewrite E1. unfold arc_of. apply drop8_prefix.
  - intros E. simpl in E. destruct k; try reflexivity. contradiction.
Qed.

(* ================================================================== frames *)
Record frame (fs fs' : fsys) (loc : path) : Prop := mkFrame {
  fr_stat : forall q, is_prefix loc q = false -> stat fs' q = stat fs q;
  fr_ino : forall j, j < f_next fs -> inode_of fs' j = inode_of fs j;
  fr_next : f_next fs <= f_next fs';
  fr_fresh : fresh_ok fs'
}.

Lemma frame_refl : forall fs loc, fresh_ok fs -> frame fs fs loc.
Proof. intros. constructor; auto. lia. Qed.

Lemma frame_trans : forall a b c l1 l2 l,
  frame a b l1 -> frame b c l2 ->
  (forall q, is_prefix l q = false -> is_prefix l1 q = false /\ is_prefix l2 q = false) ->
  frame a c l.
Proof.
  intros a b c l1 l2 l [A1 A2 A3 A4] [B1 B2 B3 B4] H. constructor.
  - intros q Hq. destruct (H q Hq) as [H1 H2]. rewrite B1 by exact H2. apply A1. exact H1.
  - intros j Hj. rewrite B2 by lia. apply A2. exact Hj.
  - lia.
  - exact B4.
Qed.

Lemma sym_at_frame : forall fs fs' loc q, fresh_ok fs -> frame fs fs' loc -> is_prefix loc q = false ->
  sym_at fs' q = sym_at fs q.
Proof.
  intros fs fs' loc q Hf [F1 F2 _ _] Hq. unfold sym_at. rewrite (F1 q Hq).
  destruct (stat fs q) as [[m|i]|] eqn:E; auto. rewrite (F2 i (Hf q i E)). reflexivity.
Qed.

Lemma not_below_fresh : forall fs loc q, stat fs loc = None -> stat fs q <> None -> is_prefix loc q = false.
Proof.
  intros fs loc q Hn Hq. destruct (is_prefix loc q) eqn:E; auto.
  apply is_prefix_app in E as [r ->]. exfalso. apply Hq. apply t_stat_none_below. exact Hn.
Qed.

(* a straight existing path stays straight when something appears at a fresh location *)
Lemma straight_frame : forall fs fs' loc p,
  fresh_ok fs -> frame fs fs' loc -> stat fs loc = None -> straight fs p -> stat fs p <> None -> straight fs' p.
Proof.
  intros fs fs' loc p Hf HF Hn [S1 S2 S3] Hp. constructor; auto.
  - intros a b E Ha Hb. specialize (S2 a b E Ha Hb). unfold is_dir in *.
    rewrite (fr_stat _ _ _ HF a); [exact S2|].
    apply (not_below_fresh fs loc a Hn). destruct (stat fs a); [discriminate|discriminate].
  - rewrite (sym_at_frame fs fs' loc p Hf HF); [exact S3|]. apply (not_below_fresh fs loc p Hn Hp).
Qed.

(* ---- frames and local shape of [effect] *)
Lemma frame_put : forall fs l v, fresh_ok fs -> (forall i, v = Some (SLeaf i) -> i < f_next fs) -> frame fs (put fs l v) l.
Proof.
  intros fs l v Hf Hv. constructor.
  - intros q Hq. apply stat_put_other'. exact Hq.
  - reflexivity.
  - simpl. lia.
  - intros p i H. unfold stat, put in H; simpl in H. apply t_stat_put_leaf in H as [H|H]; simpl; [eapply Hf; eauto|apply Hv; exact H].
Qed.

Lemma frame_create : forall fs l v, fresh_ok fs -> frame fs (create fs l v) l.
Proof.
  intros fs l v Hf. constructor.
  - intros q Hq. apply stat_create_other. exact Hq.
  - intros j Hj. unfold inode_of, create; simpl. apply ino_get_set_other. lia.
  - simpl. lia.
  - intros p i H. unfold stat, create in H; simpl in H. apply t_stat_put_leaf in H as [H|H]; simpl.
    + pose proof (Hf p i H). lia.
    + inversion H. lia.
Qed.

Lemma frame_set_new : forall fs fs1 l v, frame fs fs1 l -> f_next fs < f_next fs1 ->
  frame fs (set_inode fs1 (f_next fs) v) l.
Proof.
  intros fs fs1 l v [F1 F2 F3 F4] Hlt. constructor; auto.
  - intros j Hj. unfold inode_of, set_inode; simpl. rewrite ino_get_set_other by lia. apply F2. exact Hj.
Qed.

Lemma stat_below_leaf : forall fs p i r, stat fs p = Some (SLeaf i) -> r <> [] -> stat fs (p ++ r) = None.
Proof.
  intros fs p i r H Hr. unfold stat, t_stat in *.
  destruct (t_get (f_root fs) p) as [[m es|j]|] eqn:E; try discriminate.
  rewrite (t_get_leaf_below _ _ r _ E Hr). reflexivity.
Qed.

Lemma ready_split : forall fs dest rel, ready fs dest rel -> exists p n, dest ++ rel = p ++ [n] /\ p <> [].
Proof.
  intros fs dest rel [Hd Hr _ _ _]. destruct (rel_last rel Hr) as [r0 [n0 E]].
  exists (dest ++ r0), n0. split; [rewrite E, app_assoc; reflexivity|destruct dest; [contradiction|discriminate]].
Qed.

Lemma effect_new_leaf : forall fs dest rel v0 v,
  ready fs dest rel -> fresh_ok fs ->
  let t := dest ++ rel in
  let fs' := set_inode (create fs t v0) (f_next fs) v in
  frame fs fs' t /\ stat fs' t = Some (SLeaf (f_next fs)) /\ inode_of fs' (f_next fs) = Some v /\
  (forall r, r <> [] -> stat fs' (t ++ r) = None).
Proof.
  intros fs dest rel v0 v HR Hf. cbv zeta. destruct (ready_split fs dest rel HR) as [p [n [E Hp]]].
  pose proof (r_straight _ _ _ HR) as Hs. rewrite E in *.
  assert (Hst : stat (set_inode (create fs (p ++ [n]) v0) (f_next fs) v) (p ++ [n]) = Some (SLeaf (f_next fs)))
    by (apply (stat_create_self fs p n v0 Hs Hp)).
  split; [|split; [exact Hst|split]].
  - apply frame_set_new; [apply frame_create; exact Hf|simpl; lia].
  - unfold inode_of, set_inode; simpl. apply ino_get_set_same.
  - intros r Hr. eapply stat_below_leaf; eauto.
Qed.

Lemma effect_sym_leaf : forall fs dest rel v,
  ready fs dest rel -> fresh_ok fs ->
  let t := dest ++ rel in
  let fs' := create fs t v in
  frame fs fs' t /\ stat fs' t = Some (SLeaf (f_next fs)) /\ inode_of fs' (f_next fs) = Some v /\
  (forall r, r <> [] -> stat fs' (t ++ r) = None).
Proof.
  intros fs dest rel v HR Hf. cbv zeta. destruct (ready_split fs dest rel HR) as [p [n [E Hp]]].
  pose proof (r_straight _ _ _ HR) as Hs. rewrite E in *.
  assert (Hst : stat (create fs (p ++ [n]) v) (p ++ [n]) = Some (SLeaf (f_next fs))) by (apply (stat_create_self fs p n v Hs Hp)).
  split; [|split; [exact Hst|split]].
  - apply frame_create; exact Hf.
  - apply inode_create_self.
  - intros r Hr. eapply stat_below_leaf; eauto.
Qed.

Lemma effect_link_leaf : forall fs dest rel li,
  ready fs dest rel -> fresh_ok fs -> li < f_next fs ->
  let t := dest ++ rel in
  let fs' := put fs t (Some (SLeaf li)) in
  frame fs fs' t /\ stat fs' t = Some (SLeaf li) /\ (forall r, r <> [] -> stat fs' (t ++ r) = None).
Proof.
  intros fs dest rel li HR Hf Hli. cbv zeta. destruct (ready_split fs dest rel HR) as [p [n [E Hp]]].
  pose proof (r_straight _ _ _ HR) as Hs. rewrite E in *.
  assert (Hst : stat (put fs (p ++ [n]) (Some (SLeaf li))) (p ++ [n]) = Some (SLeaf li)) by (apply (stat_put_self fs p n _ Hs Hp)).
  split; [|split; [exact Hst|]].
  - apply frame_put; [exact Hf|]. intros i Hi. inversion Hi; subst. exact Hli.
  - intros r Hr. eapply stat_below_leaf; eauto.
Qed.

Lemma effect_dir : forall fs dest rel m,
  ready fs dest rel -> fresh_ok fs ->
  let t := dest ++ rel in
  let fs' := put (put fs t (Some (SDir 448))) t (Some (SDir m)) in
  frame fs fs' t /\ stat fs' t = Some (SDir m) /\ (forall r, r <> [] -> stat fs' (t ++ r) = None) /\
  straight fs' t.
Proof.
  intros fs dest rel m HR Hf. cbv zeta. destruct (ready_split fs dest rel HR) as [p [n [E Hp]]].
  pose proof (r_straight _ _ _ HR) as Hs. pose proof (r_fresh _ _ _ HR) as Hn. rewrite E in *.
  set (fs1 := put fs (p ++ [n]) (Some (SDir 448))) in *.
  set (fs' := put fs1 (p ++ [n]) (Some (SDir m))) in *.
  assert (Hs1 : straight fs1 (p ++ [n])).
  { eapply straight_after; [exact Hs| |].
    - intros q Hq. apply stat_put_other'. exact Hq.
    - unfold sym_at. unfold fs1. rewrite (stat_put_self fs p n _ Hs Hp). reflexivity. }
  assert (Hst : stat fs' (p ++ [n]) = Some (SDir m)) by (apply (stat_put_self fs1 p n _ Hs1 Hp)).
  assert (Hf1 : frame fs fs1 (p ++ [n])) by (apply frame_put; [exact Hf|intros i Hi; discriminate]).
  assert (Hf2 : frame fs1 fs' (p ++ [n])) by (apply frame_put; [exact (fr_fresh _ _ _ Hf1)|intros i Hi; discriminate]).
  split; [|split; [exact Hst|split]].
  - eapply frame_trans; [exact Hf1|exact Hf2|]. intros q Hq. auto.
  - intros r Hr.
    assert (Hg : t_get (f_root fs) (p ++ [n]) = None).
    { unfold stat, t_stat in Hn. destruct (t_get (f_root fs) (p ++ [n])); [discriminate|reflexivity]. }
    assert (Hne : p ++ [n] <> []) by (destruct p; discriminate).
    assert (H1 : stat fs1 ((p ++ [n]) ++ r) = None).
    { unfold fs1, stat, put; simpl.
      destruct (t_stat_put_at_below (p ++ [n]) (f_root fs) (Some (SDir 448)) ((p ++ [n]) ++ r) Hne
                  (is_prefix_app_r _ _ r (is_prefix_refl _)) (or_intror Hg)) as [[Eq _]|[_ H]]; [|exact H].
      exfalso. rewrite <- (app_nil_r (p ++ [n])) in Eq at 2. apply app_inv_head in Eq. contradiction. }
    (* the second put only changes the mode: below the node nothing appears *)
    assert (Hd1 : exists es, t_get (f_root fs1) (p ++ [n]) = Some (TDir 448 es)).
    { pose proof (stat_put_self fs p n (SDir 448) Hs Hp) as H0. unfold stat, t_stat in H0. fold fs1 in H0.
      destruct (t_get (f_root fs1) (p ++ [n])) as [[mm es|j]|]; try discriminate. inversion H0; subst. eauto. }
    destruct Hd1 as [es Hd1].
    unfold stat, t_stat in *.
    change (f_root fs') with (t_put (f_root fs1) (p ++ [n]) (Some (SDir m))).
    rewrite (t_get_put_chmod _ _ m 448 es r Hd1).
    destruct r; [contradiction|]. exact H1.
  - eapply straight_after; [exact Hs1| |].
    + intros q Hq. apply stat_put_other'. exact Hq.
    + unfold sym_at. rewrite Hst. reflexivity.
Qed.

(* ================================================================== source trees, matching, the seen map *)
Fixpoint all_ok (sfs : fsys) (es : list (name * tree)) : Prop :=
  match es with [] => True | (n, c) :: r => src_ok sfs c /\ all_ok sfs r end.

Lemma src_ok_dir : forall sfs m es, src_ok sfs (TDir m es) <->
  NoDup (map fst es) /\ Forall good_name (map fst es) /\ all_ok sfs es.
Proof.
  intros. simpl. assert (E : forall es0,
    (fix go (es1 : list (name * tree)) : Prop := match es1 with [] => True | (n, c) :: r => src_ok sfs c /\ go r end) es0
    <-> all_ok sfs es0).
  { induction es0 as [|[n c] r IH]; simpl; [tauto|]. rewrite IH. tauto. }
  rewrite E. tauto.
Qed.

Definition seen_entry (sfs fs : fsys) (dest : path) (e : N * str) : Prop :=
  exists lrel j d m, snd e = arc_of lrel /\ lrel <> [] /\ Forall good_name lrel /\
    straight fs (dest ++ lrel) /\ stat fs (dest ++ lrel) = Some (SLeaf j) /\
    inode_of sfs (fst e) = Some (mkInode KReg d m) /\ inode_of fs j = Some (mkInode KReg d m).

Definition seen_ok (sfs fs : fsys) (dest : path) (seen : seen_t) : Prop := Forall (seen_entry sfs fs dest) seen.

Lemma ino_seen_in : forall i seen a, ino_seen i seen = Some a -> In (i, a) seen.
Proof.
  induction seen as [|[k v] r IH]; intros a H; simpl in *; [discriminate|].
  destruct (k =? i) eqn:E; [apply N.eqb_eq in E; inversion H; subst; left; reflexivity|right; apply IH; exact H].
Qed.

Lemma seen_ok_frame : forall sfs fs fs' dest loc seen,
  fresh_ok fs -> frame fs fs' loc -> stat fs loc = None -> seen_ok sfs fs dest seen -> seen_ok sfs fs' dest seen.
Proof.
  intros sfs fs fs' dest loc seen Hf HF Hn H. unfold seen_ok in *. rewrite Forall_forall in *.
  intros e He. destruct (H e He) as [lrel [j [d [m [E1 [E2 [E3 [E4 [E5 [E6 E7]]]]]]]]]].
  exists lrel, j, d, m.
  split; [exact E1|split; [exact E2|split; [exact E3|split; [|split; [|split; [exact E6|]]]]]].
  - eapply straight_frame; eauto. rewrite E5. discriminate.
  - rewrite (fr_stat _ _ _ HF); [exact E5|]. apply (not_below_fresh fs loc _ Hn). rewrite E5. discriminate.
  - rewrite (fr_ino _ _ _ HF); [exact E7|]. eapply Hf; eauto.
Qed.

(* ================================================================== installing a packed tree *)
Definition installs (sfs : fsys) (t : tree) : Prop :=
  src_ok sfs t -> forall fuel fs audit dest done rest rel seen,
    ready fs dest rel -> fresh_ok fs -> seen_ok sfs fs dest seen ->
    exists fs' done',
      extract_loop (S fuel) fs audit dest done (fst (pack_tree sfs t (arc_of rel) seen) ++ rest)
      = extract_loop (S fuel) fs' audit dest done' rest
      /\ frame fs fs' (dest ++ rel)
      /\ seen_ok sfs fs' dest (snd (pack_tree sfs t (arc_of rel) seen))
      /\ (forall r, node_match sfs (t_stat t r) fs' (stat fs' (dest ++ rel ++ r))).

Lemma t_stat_leaf : forall i r, t_stat (TLeaf i) r = match r with [] => Some (SLeaf i) | _ => None end.
Proof. intros i r. destruct r; reflexivity. Qed.

Lemma leaf_match : forall sfs fs' dest rel i j,
  stat fs' (dest ++ rel) = Some (SLeaf j) ->
  (forall r, r <> [] -> stat fs' ((dest ++ rel) ++ r) = None) ->
  inode_of fs' j = inode_of sfs i -> inode_of sfs i <> None ->
  forall r, node_match sfs (t_stat (TLeaf i) r) fs' (stat fs' (dest ++ rel ++ r)).
Proof.
  intros sfs fs' dest rel i j Hs Hb Hi Hn r. rewrite t_stat_leaf. rewrite app_assoc. destruct r as [|c r].
  - rewrite app_nil_r. rewrite Hs. simpl. auto.
  - rewrite Hb by discriminate. exact I.
Qed.

Lemma new_leaf_installs : forall sfs fuel fs audit dest done rest rel seen i k link mode data v0 v,
  ready fs dest rel -> fresh_ok fs -> seen_ok sfs fs dest seen ->
  k <> MLnk ->
  effect fs (dest ++ rel) (mkMember (relstr rel) k link mode data) 0 = set_inode (create fs (dest ++ rel) v0) (f_next fs) v
  \/ effect fs (dest ++ rel) (mkMember (relstr rel) k link mode data) 0 = create fs (dest ++ rel) v ->
  inode_of sfs i = Some v ->
  exists fs' done',
    extract_loop (S fuel) fs audit dest done ([mkMember (arc_of rel) k link mode data] ++ rest)
    = extract_loop (S fuel) fs' audit dest done' rest
    /\ frame fs fs' (dest ++ rel)
    /\ stat fs' (dest ++ rel) = Some (SLeaf (f_next fs)) /\ inode_of fs' (f_next fs) = Some v
    /\ seen_ok sfs fs' dest seen
    /\ (forall r, node_match sfs (t_stat (TLeaf i) r) fs' (stat fs' (dest ++ rel ++ r))).
Proof.
  intros sfs fuel fs audit dest done rest rel seen i k link mode data v0 v HR Hf Hseen Hk He Hi.
  destruct (loop_step fuel fs audit dest done rest rel k link mode data [] 0 HR ltac:(intros E; contradiction)) as [done' Hstep].
  assert (Hlk : (if is_lnk k then drop8 link else link) = link) by (destruct k; try reflexivity; contradiction).
  rewrite Hlk in Hstep.
  assert (Hshape : exists fs', effect fs (dest ++ rel) (mkMember (relstr rel) k link mode data) 0 = fs' /\
            frame fs fs' (dest ++ rel) /\ stat fs' (dest ++ rel) = Some (SLeaf (f_next fs)) /\
            inode_of fs' (f_next fs) = Some v /\ (forall r, r <> [] -> stat fs' ((dest ++ rel) ++ r) = None)).
  { destruct He as [He|He]; rewrite He; eexists; (split; [reflexivity|]).
    - apply (effect_new_leaf fs dest rel v0 v HR Hf).
    - apply (effect_sym_leaf fs dest rel v HR Hf). }
  destruct Hshape as [fs' [Ee [HF [Hs [Hino Hb]]]]]. rewrite Ee in Hstep.
  exists fs', done'. split; [exact Hstep|]. split; [exact HF|]. split; [exact Hs|]. split; [exact Hino|]. split.
  - eapply seen_ok_frame; eauto. exact (r_fresh _ _ _ HR).
  - apply (leaf_match sfs fs' dest rel i (f_next fs) Hs Hb); [rewrite Hino, Hi; reflexivity|rewrite Hi; discriminate].
Qed.

Lemma installs_leaf : forall sfs i, installs sfs (TLeaf i).
Proof.
  intros sfs i [v [Hi Hok]] fuel fs audit dest done rest rel seen HR Hf Hseen.
  destruct v as [k d m]. cbn [pack_tree]. rewrite Hi.
  destruct k; cbn [fst snd].
  - (* regular file *)
    destruct (ino_seen i seen) as [first|] eqn:Eseen; cbn [fst snd].
    + (* hard link to the first name *)
      pose proof (ino_seen_in _ _ _ Eseen) as Hin.
      unfold seen_ok in Hseen. rewrite Forall_forall in Hseen.
      destruct (Hseen _ Hin) as [lrel [j [d' [m' [E1 [E2 [E3 [E4 [E5 [E6 E7]]]]]]]]]]. simpl in E1, E6.
      rewrite Hi in E6. inversion E6; subst d' m'.
      destruct (loop_step fuel fs audit dest done rest rel MLnk first m [] lrel j HR) as [done' Hstep].
      { intros _. auto 10. }
      cbn [effect m_kind] in Hstep.
      destruct (effect_link_leaf fs dest rel j HR Hf (Hf _ _ E5)) as [HF [Hs Hb]].
      eexists. exists done'. split; [exact Hstep|]. split; [exact HF|]. split.
      * unfold seen_ok. rewrite Forall_forall. intros e He.
        assert (Hse : seen_ok sfs fs dest seen) by (unfold seen_ok; rewrite Forall_forall; exact Hseen).
        pose proof (seen_ok_frame _ _ _ _ _ _ Hf HF (r_fresh _ _ _ HR) Hse) as H'.
        unfold seen_ok in H'. rewrite Forall_forall in H'. apply H'. exact He.
      * apply (leaf_match sfs _ dest rel i j Hs Hb); [rewrite Hi; exact E7|rewrite Hi; discriminate].
    + (* first occurrence *)
      destruct (new_leaf_installs sfs fuel fs audit dest done rest rel seen i MReg [] m d
                  (mkInode KReg d DEFAULT_FILE_MODE) (mkInode KReg d m) HR Hf Hseen ltac:(discriminate)
                  (or_introl eq_refl) Hi) as [fs' [done' [H1 [H2 [H3 [H4 [H5 H6]]]]]]].
      exists fs', done'. split; [exact H1|]. split; [exact H2|]. split; [|exact H6].
      constructor; [|exact H5]. exists rel, (f_next fs), d, m. simpl.
      split; [reflexivity|]. split; [exact (r_rel _ _ _ HR)|]. split; [exact (r_good _ _ _ HR)|].
      split; [|split; [exact H3|split; [exact Hi|exact H4]]].
      eapply straight_after; [exact (r_straight _ _ _ HR)|exact (fr_stat _ _ _ H2)|].
      unfold sym_at. rewrite H3, H4. reflexivity.
  - (* symbolic link *)
    unfold inode_ok in Hok; simpl in Hok. subst m.
    destruct (new_leaf_installs sfs fuel fs audit dest done rest rel seen i MSym d 511 []
                (mkInode KSym d 511) (mkInode KSym d 511) HR Hf Hseen ltac:(discriminate)
                (or_intror eq_refl) Hi) as [fs' [done' [H1 [H2 [H3 [H4 [H5 H6]]]]]]].
    exists fs', done'. auto.
  - (* fifo *)
    unfold inode_ok in Hok; simpl in Hok. subst d.
    destruct (new_leaf_installs sfs fuel fs audit dest done rest rel seen i MFifo [] m []
                (mkInode KFifo [] DEFAULT_FILE_MODE) (mkInode KFifo [] m) HR Hf Hseen ltac:(discriminate)
                (or_introl eq_refl) Hi) as [fs' [done' [H1 [H2 [H3 [H4 [H5 H6]]]]]]].
    exists fs', done'. auto.
  - (* character device *)
    destruct (new_leaf_installs sfs fuel fs audit dest done rest rel seen i MChr [] m d
                (mkInode KChr d m) (mkInode KChr d m) HR Hf Hseen ltac:(discriminate)
                (or_introl eq_refl) Hi) as [fs' [done' [H1 [H2 [H3 [H4 [H5 H6]]]]]]].
    exists fs', done'. auto.
  - (* block device *)
    destruct (new_leaf_installs sfs fuel fs audit dest done rest rel seen i MBlk [] m d
                (mkInode KBlk d m) (mkInode KBlk d m) HR Hf Hseen ltac:(discriminate)
                (or_introl eq_refl) Hi) as [fs' [done' [H1 [H2 [H3 [H4 [H5 H6]]]]]]].
    exists fs', done'. auto.
Qed.

(* ---- siblings *)
Lemma is_prefix_sibling : forall (t : path) n n' r, n <> n' -> is_prefix (t ++ [n]) (t ++ n' :: r) = false.
Proof.
  induction t as [|c t IH]; intros n n' r H; simpl.
  - destruct (str_eqb n n') eqn:E; [apply str_eqb_eq in E; contradiction|reflexivity].
  - rewrite str_eqb_refl. simpl. apply IH. exact H.
Qed.

Lemma is_prefix_child_parent : forall (t : path) n, is_prefix (t ++ [n]) t = false.
Proof. intros. apply (proper_prefix_not_below (t ++ [n]) t [n]); [reflexivity|discriminate]. Qed.

Lemma app_snoc_split : forall (t a b : path) (n : name), t ++ [n] = a ++ b -> b <> [] -> exists b', b = b' ++ [n] /\ t = a ++ b'.
Proof.
  intros t a b n E Hb. destruct (rel_last b Hb) as [b' [x Eb]]. subst b.
  rewrite app_assoc in E. apply app_inj_tail in E as [E1 E2]. subst x. eauto.
Qed.

Lemma straight_child : forall fs t n, t <> [] -> straight fs t -> is_dir fs t = true -> good_name n ->
  stat fs (t ++ [n]) = None -> straight fs (t ++ [n]).
Proof.
  intros fs t n Ht [S1 S2 S3] Hd [G1 [G2 G3]] Hn. constructor.
  - unfold plain in *. rewrite forallb_app. rewrite S1. simpl. rewrite G1, G2. reflexivity.
  - intros a b E Ha Hb. destruct (app_snoc_split t a b n E Hb) as [b' [Eb Et]].
    destruct b' as [|c b'']; [rewrite app_nil_r in Et; subst a; exact Hd|].
    apply (S2 a (c :: b'') Et Ha). discriminate.
  - unfold sym_at. rewrite Hn. reflexivity.
Qed.

Lemma node_match_transfer : forall sfs fs1 fs' sn q,
  fresh_ok fs1 -> stat fs' q = stat fs1 q -> (forall j, j < f_next fs1 -> inode_of fs' j = inode_of fs1 j) ->
  node_match sfs sn fs1 (stat fs1 q) -> node_match sfs sn fs' (stat fs' q).
Proof.
  intros sfs fs1 fs' sn q Hf Hs Hi H. rewrite Hs. unfold node_match in *.
  destruct sn as [[m|i]|]; destruct (stat fs1 q) as [[m'|j]|] eqn:E; auto.
  rewrite (Hi j (Hf q j E)). exact H.
Qed.

(* changes confined to the children named [names] of directory t *)
Record frameL (fs fs' : fsys) (t : path) (names : list name) : Prop := mkFrameL {
  fl_stat : forall q, (forall n, In n names -> is_prefix (t ++ [n]) q = false) -> stat fs' q = stat fs q;
  fl_ino : forall j, j < f_next fs -> inode_of fs' j = inode_of fs j;
  fl_next : f_next fs <= f_next fs';
  fl_fresh : fresh_ok fs'
}.

Lemma installs_list : forall sfs es,
  Forall (fun e => installs sfs (snd e)) es ->
  NoDup (map fst es) -> Forall good_name (map fst es) -> all_ok sfs es ->
  forall fuel fs audit dest done rest rel arc seen,
    dest <> [] -> Forall good_name rel ->
    (forall n : name, join_name arc n = arc_of (rel ++ [n])) ->
    straight fs (dest ++ rel) -> is_dir fs (dest ++ rel) = true ->
    (forall n, In n (map fst es) -> stat fs ((dest ++ rel) ++ [n]) = None) ->
    fresh_ok fs -> seen_ok sfs fs dest seen ->
    exists fs' done',
      extract_loop (S fuel) fs audit dest done (fst (pack_list (pack_tree sfs) arc es seen) ++ rest)
      = extract_loop (S fuel) fs' audit dest done' rest
      /\ frameL fs fs' (dest ++ rel) (map fst es)
      /\ seen_ok sfs fs' dest (snd (pack_list (pack_tree sfs) arc es seen))
      /\ (forall n c, In (n, c) es -> forall r, node_match sfs (t_stat c r) fs' (stat fs' ((dest ++ rel) ++ n :: r))).
Proof.
  intros sfs. induction es as [|[n c] es IH]; intros HI Hnd Hgn Hok fuel fs audit dest done rest rel arc seen Hd Hgr Harc Hst Hdir Hfr Hf Hseen.
  - simpl. exists fs, done. split; [reflexivity|]. split; [|split; [exact Hseen|intros n c []]].
    constructor; auto. lia.
  - inversion HI as [|? ? Hic HIes]; subst. simpl in Hic.
    simpl in Hnd. inversion Hnd as [|? ? Hnin Hnd']; subst.
    simpl in Hgn. inversion Hgn as [|? ? Hgood Hgn']; subst.
    destruct Hok as [Hokc Hokes].
    cbn [pack_list]. rewrite Harc.
    assert (Hdne : dest ++ rel <> []) by (destruct dest; [contradiction|discriminate]).
    assert (HR : ready fs dest (rel ++ [n])).
    { constructor; auto.
      - destruct rel; discriminate.
      - apply Forall_app. split; [exact Hgr|constructor; [exact Hgood|constructor]].
      - rewrite app_assoc. apply straight_child; auto. apply Hfr. left. reflexivity.
      - rewrite app_assoc. apply Hfr. left. reflexivity. }
    match goal with |- context [pack_tree sfs c ?a seen] => destruct (pack_tree sfs c a seen) as [m1 s1] eqn:Ep end. cbv iota beta.
    destruct (pack_list (pack_tree sfs) arc es s1) as [m2 s2] eqn:El. cbv iota beta.
    cbn [fst snd]. rewrite <- app_assoc.
    destruct (Hic Hokc fuel fs audit dest done (m2 ++ rest) (rel ++ [n]) seen HR Hf Hseen) as [fs1 [done1 [E1 [F1 [S1 M1]]]]].
    rewrite Ep in E1, S1. cbn [fst snd] in E1, S1.
    assert (Hloc : dest ++ rel ++ [n] = (dest ++ rel) ++ [n]) by (rewrite app_assoc; reflexivity).
    rewrite Hloc in F1.
    assert (Hfresh_n : stat fs ((dest ++ rel) ++ [n]) = None) by (apply Hfr; left; reflexivity).
    assert (Hst1 : straight fs1 (dest ++ rel)).
    { eapply straight_frame; [exact Hf|exact F1|exact Hfresh_n|exact Hst|].
      unfold is_dir in Hdir. destruct (stat fs (dest ++ rel)); [discriminate|discriminate]. }
    assert (Hdir1 : is_dir fs1 (dest ++ rel) = true).
    { unfold is_dir. rewrite (fr_stat _ _ _ F1); [exact Hdir|apply is_prefix_child_parent]. }
    assert (Hfr1 : forall n', In n' (map fst es) -> stat fs1 ((dest ++ rel) ++ [n']) = None).
    { intros n' Hin. rewrite (fr_stat _ _ _ F1).
      - apply Hfr. right. exact Hin.
      - apply is_prefix_sibling. intros E. subst n'. contradiction. }
    destruct (IH HIes Hnd' Hgn' Hokes fuel fs1 audit dest done1 rest rel arc s1 Hd Hgr Harc Hst1 Hdir1 Hfr1
                 (fr_fresh _ _ _ F1) S1) as [fs' [done' [E2 [F2 [S2 M2]]]]].
    rewrite El in E2, S2. cbn [fst snd] in E2, S2.
    exists fs', done'. split; [rewrite E1; exact E2|]. split; [|split; [exact S2|]].
    + constructor.
      * intros q Hq. rewrite (fl_stat _ _ _ _ F2).
        { apply (fr_stat _ _ _ F1). apply Hq. left. reflexivity. }
        { intros n' Hin. apply Hq. right. exact Hin. }
      * intros j Hj. rewrite (fl_ino _ _ _ _ F2) by (pose proof (fr_next _ _ _ F1); lia). apply (fr_ino _ _ _ F1). exact Hj.
      * pose proof (fr_next _ _ _ F1). pose proof (fl_next _ _ _ _ F2). lia.
      * exact (fl_fresh _ _ _ _ F2).
    + intros n' c' [Hin|Hin] r.
      * inversion Hin; subst n' c'.
        apply (node_match_transfer sfs fs1 fs' _ _ (fr_fresh _ _ _ F1)).
        { apply (fl_stat _ _ _ _ F2). intros n' Hn'. apply is_prefix_sibling. intros E. subst n'. contradiction. }
        { apply (fl_ino _ _ _ _ F2). }
        { specialize (M1 r). rewrite <- app_assoc in M1. simpl in M1. rewrite app_assoc in M1. exact M1. }
      * apply M2. exact Hin.
Qed.

Lemma assoc_in : forall A n (es : list (name * A)) v, assoc n es = Some v -> In (n, v) es.
Proof.
  induction es as [|[k w] r IH]; intros v H; simpl in *; [discriminate|].
  destruct (str_eqb n k) eqn:E.
  - apply str_eqb_eq in E. subst k. inversion H; subst. left. reflexivity.
  - right. apply IH. exact H.
Qed.

Lemma assoc_none_notin : forall A n (es : list (name * A)), assoc n es = None -> ~ In n (map fst es).
Proof.
  induction es as [|[k w] r IH]; intros H; simpl in *; [tauto|].
  destruct (str_eqb n k) eqn:E; [discriminate|]. intros [H1|H1].
  - subst k. rewrite str_eqb_refl in E. discriminate.
  - apply IH; assumption.
Qed.

Lemma t_stat_dir_cons : forall m es n r,
  t_stat (TDir m es) (n :: r) = match assoc n es with Some c => t_stat c r | None => None end.
Proof. intros. unfold t_stat. simpl. destruct (assoc n es); reflexivity. Qed.

Lemma installs_dir : forall sfs m es, Forall (fun e => installs sfs (snd e)) es -> installs sfs (TDir m es).
Proof.
  intros sfs m es Hall Hok fuel fs audit dest done rest rel seen HR Hf Hseen.
  apply src_ok_dir in Hok as [Hnd [Hgn Hall_ok]].
  rewrite pack_tree_dir.
  destruct (pack_list (pack_tree sfs) (arc_of rel) es seen) as [ms seen'] eqn:El. cbn [fst snd].
  destruct (loop_step fuel fs audit dest done (ms ++ rest) rel MDir [] m [] [] 0 HR ltac:(discriminate)) as [done0 E0].
  cbn [effect m_kind m_mode is_lnk] in E0.
  destruct (effect_dir fs dest rel m HR Hf) as [F0 [S0 [B0 St0]]].
  set (fs0 := put (put fs (dest ++ rel) (Some (SDir 448))) (dest ++ rel) (Some (SDir m))) in *.
  assert (Hseen0 : seen_ok sfs fs0 dest seen) by (eapply seen_ok_frame; eauto; exact (r_fresh _ _ _ HR)).
  destruct (installs_list sfs es Hall Hnd Hgn Hall_ok fuel fs0 audit dest done0 rest rel (arc_of rel) seen
              (r_dest _ _ _ HR) (r_good _ _ _ HR) (fun n => join_arc rel n (r_rel _ _ _ HR)) St0)
    as [fs' [done' [E1 [FL [S1 M1]]]]]; auto.
  { unfold is_dir. rewrite S0. reflexivity. }
  { intros n _. apply B0. discriminate. }
  { exact (fr_fresh _ _ _ F0). }
  rewrite El in E1, S1. cbn [fst snd] in E1, S1.
  assert (Hup : forall q n, is_prefix (dest ++ rel) q = false -> is_prefix ((dest ++ rel) ++ [n]) q = false).
  { intros q n Hq. destruct (is_prefix ((dest ++ rel) ++ [n]) q) eqn:E; auto.
    assert (H1 : is_prefix (dest ++ rel) ((dest ++ rel) ++ [n]) = true) by (apply is_prefix_app_r; apply is_prefix_refl).
    rewrite (is_prefix_trans _ _ _ H1 E) in Hq. discriminate. }
  exists fs', done'. split; [simpl; simpl in E0; rewrite E0; exact E1|]. split; [|split; [exact S1|]].
  - constructor.
    + intros q Hq. rewrite (fl_stat _ _ _ _ FL); [apply (fr_stat _ _ _ F0); exact Hq|]. intros n _. apply Hup. exact Hq.
    + intros j Hj. rewrite (fl_ino _ _ _ _ FL) by (pose proof (fr_next _ _ _ F0); lia). apply (fr_ino _ _ _ F0). exact Hj.
    + pose proof (fr_next _ _ _ F0). pose proof (fl_next _ _ _ _ FL). lia.
    + exact (fl_fresh _ _ _ _ FL).
  - intros r. rewrite app_assoc. destruct r as [|n r0].
    + rewrite app_nil_r. rewrite (fl_stat _ _ _ _ FL); [|intros n _; apply is_prefix_child_parent].
      rewrite S0. reflexivity.
    + rewrite t_stat_dir_cons. destruct (assoc n es) as [c|] eqn:Ea.
      * apply M1. apply assoc_in. exact Ea.
      * rewrite (fl_stat _ _ _ _ FL).
        { rewrite (B0 (n :: r0)) by discriminate. exact I. }
        { intros n' Hin. apply is_prefix_sibling. intros E. subst n'. exact (assoc_none_notin _ _ _ Ea Hin). }
Qed.

Theorem installs_all : forall sfs t, installs sfs t.
Proof. intros sfs. apply tree_ind2; [apply installs_leaf|apply installs_dir]. Qed.

(* ================================================================== pack, then TarHelper._extract *)
Lemma drop_empty_front_plain : forall r, plain (rev r) -> drop_empty_front r = r.
Proof.
  intros r H. destruct r as [|c r]; [reflexivity|]. simpl in *. apply plain_app in H as [_ H].
  apply plain_cons in H as [H _]. unfold skip_comp in H. apply orb_false_iff in H as [H _].
  destruct c; [discriminate|reflexivity].
Qed.

Lemma straight_of_prefixes : forall fs p,
  plain p -> (forall x b, p = x ++ b -> b <> [] -> is_dir fs x = true) -> sym_at fs p = None -> straight fs p.
Proof. intros fs p H1 H2 H3. constructor; auto. intros a b E Ha Hb. eapply H2; eauto. Qed.

Lemma makedirs_dest : forall fuel fs dest,
  dest <> [] -> plain dest -> (forall x b, dest = x ++ b -> b <> [] -> is_dir fs x = true) -> stat fs dest = None ->
  makedirs (S fuel) fs dest = (put fs dest (Some (SDir DEFAULT_DIR_MODE)), None).
Proof.
  intros fuel fs dest Hne Hp Hanc Hn. unfold makedirs.
  destruct (rel_last dest Hne) as [par [n E]]. rewrite E. rewrite rev_app_distr. simpl.
  assert (Hpl : plain (par ++ [n])) by (rewrite <- E; exact Hp).
  pose proof (plain_app _ _ Hpl) as [Hpar Hn1]. apply plain_cons in Hn1 as [Hn1 _].
  unfold skip_comp in Hn1. apply orb_false_iff in Hn1 as [Hn1 _].
  assert (Hnil : is_nil n = false) by (destruct n; [discriminate|reflexivity]). rewrite Hnil.
  rewrite drop_empty_front_plain by (rewrite rev_involutive; exact Hpar). rewrite rev_involutive.
  assert (Hex : sys_exists (S fuel) fs par = true).
  { destruct par as [|c par'].
    - unfold sys_exists. simpl. destruct (stat fs []) eqn:Er; [reflexivity|]. exfalso. exact (stat_root_some fs Er).
    - assert (Hd : is_dir fs (c :: par') = true) by (apply (Hanc (c :: par') [n]); [exact E|discriminate]).
      rewrite eff_exists.
      + unfold is_dir in Hd. destruct (stat fs (c :: par')); [reflexivity|discriminate].
      + apply straight_of_prefixes; auto.
        * intros x b Ex Hb. apply (Hanc x (b ++ [n])); [rewrite E, Ex, app_assoc; reflexivity|destruct b; discriminate].
        * apply is_dir_not_sym. exact Hd. }
  rewrite Hex. simpl negb. cbv iota. rewrite <- E.
  apply eff_mkdir; [|exact Hn].
  apply straight_of_prefixes; auto. unfold sym_at. rewrite Hn. reflexivity.
Qed.

Lemma fresh_remove : forall fuel fs p, fresh_ok fs -> fresh_ok (remove_path fuel fs p).
Proof.
  intros fuel fs p Hf q i H. rewrite (proj2 (remove_path_tab fuel fs p)). apply (Hf q i).
  eapply remove_path_leaf. exact H.
Qed.

Lemma is_prefix_app_same : forall (d x b : path), d = x ++ b -> is_prefix x d = true.
Proof. intros d x b E. apply is_prefix_app. exists b. exact E. Qed.

Theorem pack_extract_roundtrip_proof : forall fuel sfs saudit scontent fs audit dest art m es ab,
  t_get (f_root sfs) scontent = Some (TDir m es) -> src_ok sfs (TDir m es) ->
  audit_bytes sfs saudit = Some ab ->
  pack sfs saudit scontent = Some art ->
  target_ok fs audit dest ->
  snd (fst (bob_extract (S fuel) fs audit dest art)) = Extracted /\
  audit_bytes (fst (fst (bob_extract (S fuel) fs audit dest art))) audit = Some ab /\
  (forall n r0, node_match sfs (t_stat (TDir m es) (n :: r0)) (fst (fst (bob_extract (S fuel) fs audit dest art)))
                           (stat (fst (fst (bob_extract (S fuel) fs audit dest art))) (dest ++ n :: r0))).
Proof.
  intros fuel sfs saudit scontent fs audit dest art m es ab Hget Hok Hab Hpack [Hdp Hap Hda Had Hf Hdanc Haanc].
  assert (Hdne : dest <> []) by (intros E; rewrite E in Hda; simpl in Hda; discriminate).
  assert (Hane : audit <> []) by (intros E; rewrite E in Had; simpl in Had; discriminate).
  unfold pack in Hpack. rewrite Hab, Hget in Hpack.
  assert (Hart : Some art = Some art) by reflexivity. rewrite <- Hpack in Hart at 1. clear Hpack.
  assert (Hart' := f_equal (fun o => match o with Some a => a | None => art end) Hart). cbv beta iota in Hart'. subst art. clear Hart.
  apply src_ok_dir in Hok as [Hnd [Hgn Hallok]].
  unfold bob_extract. cbn [a_pax a_members a_tail_ok].
  set (fs1 := remove_path (S fuel) fs audit).
  set (fs2 := remove_path (S fuel) fs1 dest).
  (* what the removals leave *)
  assert (Hf2 : fresh_ok fs2) by (apply fresh_remove; apply fresh_remove; exact Hf).
  assert (Hd2 : forall q, is_prefix dest q = true -> stat fs2 q = None) by (intros q Hq; apply remove_path_gone; assumption).
  assert (Ha2 : forall q, is_prefix audit q = true -> stat fs2 q = None).
  { intros q Hq. unfold fs2. rewrite remove_path_other.
    - apply remove_path_gone; assumption.
    - destruct (is_prefix dest q) eqn:E; auto. destruct (is_prefix_comparable dest audit q E Hq) as [H|H]; congruence. }
  assert (Hout2 : forall q, is_prefix dest q = false -> is_prefix audit q = false -> stat fs2 q = stat fs q).
  { intros q H1 H2. unfold fs2, fs1. rewrite remove_path_other by exact H1. apply remove_path_other. exact H2. }
  assert (Hdanc2 : forall x b, dest = x ++ b -> b <> [] -> is_dir fs2 x = true).
  { intros x b E Hb. unfold is_dir. rewrite Hout2; [apply (Hdanc x b E Hb)|eapply proper_prefix_not_below; eauto|].
    destruct (is_prefix audit x) eqn:H; auto. rewrite (is_prefix_trans _ _ _ H (is_prefix_app_same _ _ _ E)) in Had. discriminate. }
  assert (Haanc2 : forall x b, audit = x ++ b -> b <> [] -> is_dir fs2 x = true).
  { intros x b E Hb. unfold is_dir. rewrite Hout2; [apply (Haanc x b E Hb)| |eapply proper_prefix_not_below; eauto].
    destruct (is_prefix dest x) eqn:H; auto. rewrite (is_prefix_trans _ _ _ H (is_prefix_app_same _ _ _ E)) in Hda. discriminate. }
  rewrite (makedirs_dest fuel fs2 dest Hdne Hdp Hdanc2 (Hd2 dest (is_prefix_refl _))).
  set (fs3 := put fs2 dest (Some (SDir DEFAULT_DIR_MODE))).
  match goal with |- context [if str_eqb PACK_VSN_KEY VSN_KEY then ?a else ?b] =>
    change (if str_eqb PACK_VSN_KEY VSN_KEY then a else b) with (Some VSN_ONE) end.
  cbv iota. rewrite str_eqb_refl. cbv iota.
  (* the audit member *)
  destruct (rel_last dest Hdne) as [dpar [dn Ed]].
  assert (Hdpar : exists mm, stat fs2 dpar = Some (SDir mm)).
  { pose proof (Hdanc2 dpar [dn] Ed ltac:(discriminate)) as H. unfold is_dir in H. destruct (stat fs2 dpar) as [[mm|]|]; try discriminate. eauto. }
  destruct Hdpar as [mm Hdpar].
  assert (S3 : stat fs3 dest = Some (SDir DEFAULT_DIR_MODE)).
  { unfold fs3, stat, put; simpl. rewrite Ed. eapply t_stat_put_same. exact Hdpar. }
  assert (Hg2 : t_get (f_root fs2) dest = None).
  { pose proof (Hd2 dest (is_prefix_refl _)) as H. unfold stat, t_stat in H. destruct (t_get (f_root fs2) dest); [discriminate|reflexivity]. }
  assert (B3 : forall r, r <> [] -> stat fs3 (dest ++ r) = None).
  { intros r Hr. unfold fs3, stat, put; simpl.
    destruct (t_stat_put_at_below dest (f_root fs2) (Some (SDir DEFAULT_DIR_MODE)) (dest ++ r) Hdne
                (is_prefix_app_r _ _ r (is_prefix_refl _)) (or_intror Hg2)) as [[Eq _]|[_ H]]; [|exact H].
    exfalso. rewrite <- (app_nil_r dest) in Eq at 2. apply app_inv_head in Eq. contradiction. }
  assert (O3 : forall q, is_prefix dest q = false -> stat fs3 q = stat fs2 q) by (intros q Hq; apply stat_put_other'; exact Hq).
  assert (Hf3 : fresh_ok fs3).
  { intros p i H. unfold fs3, stat, put in H; simpl in H. apply t_stat_put_leaf in H as [H|H]; [apply (Hf2 p i H)|discriminate]. }
  assert (Sa3 : straight fs3 audit).
  { apply straight_of_prefixes; auto.
    - intros x b E Hb. unfold is_dir. rewrite O3; [apply (Haanc2 x b E Hb)|].
      destruct (is_prefix dest x) eqn:H; auto. rewrite (is_prefix_trans _ _ _ H (is_prefix_app_same _ _ _ E)) in Hda. discriminate.
    - unfold sym_at. rewrite (O3 audit Hda). rewrite (Ha2 audit (is_prefix_refl _)). reflexivity. }
  assert (Na3 : stat fs3 audit = None) by (rewrite (O3 audit Hda); apply (Ha2 audit (is_prefix_refl _))).
  cbn [extract_loop m_name m_kind m_data].
  assert (E1 : starts_with CONTENT_PREFIX PACK_AUDIT_NAME = false) by reflexivity.
  assert (E2 : str_eqb PACK_AUDIT_NAME AUDIT_NAME = true) by reflexivity.
  rewrite E1, E2. rewrite (eff_write_new fuel fs3 audit ab Sa3 Na3).
  set (fs4 := create fs3 audit (mkInode KReg ab DEFAULT_FILE_MODE)).
  (* the root directory member is skipped *)
  rewrite pack_tree_dir.
  destruct (pack_list (pack_tree sfs) PACK_CONTENT_NAME es []) as [ms seen'] eqn:El. cbn [fst].
  cbn [extract_loop m_name m_kind].
  assert (E3 : starts_with CONTENT_PREFIX PACK_CONTENT_NAME = false) by reflexivity.
  assert (E4 : str_eqb PACK_CONTENT_NAME AUDIT_NAME = false) by reflexivity.
  assert (E5 : str_eqb PACK_CONTENT_NAME CONTENT_NAME = true) by reflexivity.
  rewrite E3, E4, E5. cbn [orb].
  (* the content *)
  assert (F34 : frame fs3 fs4 audit) by (apply frame_create; exact Hf3).
  assert (Hnad : forall q, is_prefix dest q = true -> is_prefix audit q = false).
  { intros q Hq. destruct (is_prefix audit q) eqn:E; auto. destruct (is_prefix_comparable dest audit q Hq E) as [H|H]; congruence. }
  assert (S4 : stat fs4 dest = Some (SDir DEFAULT_DIR_MODE)).
  { rewrite (fr_stat _ _ _ F34); [exact S3|]. apply Hnad. apply is_prefix_refl. }
  assert (Sd4 : straight fs4 dest).
  { apply straight_of_prefixes; auto.
    - intros x b E Hb. unfold is_dir. rewrite (fr_stat _ _ _ F34).
      + rewrite O3; [apply (Hdanc2 x b E Hb)|eapply proper_prefix_not_below; eauto].
      + destruct (is_prefix audit x) eqn:H; auto. rewrite (is_prefix_trans _ _ _ H (is_prefix_app_same _ _ _ E)) in Had. discriminate.
    - unfold sym_at. rewrite S4. reflexivity. }
  assert (Hlist := installs_list sfs es).
  assert (Hall : Forall (fun e => installs sfs (snd e)) es) by (apply Forall_forall; intros e _; apply installs_all).
  specialize (Hlist Hall Hnd Hgn Hallok fuel fs4 audit dest
                [mkMember PACK_CONTENT_NAME MDir [] m []; mkMember PACK_AUDIT_NAME MReg [] DEFAULT_FILE_MODE ab]
                [] [] PACK_CONTENT_NAME [] Hdne (Forall_nil _) join_arc_root).
  rewrite !app_nil_r in Hlist.
  destruct Hlist as [fs' [done' [EL [FL [_ M1]]]]]; auto.
  { unfold is_dir. rewrite S4. reflexivity. }
  { intros n _. rewrite (fr_stat _ _ _ F34); [apply B3; discriminate|]. apply Hnad. apply is_prefix_app_r. apply is_prefix_refl. }
  { exact (fr_fresh _ _ _ F34). }
  { constructor. }
  rewrite El in EL. cbn [fst] in EL. rewrite EL. cbn [extract_loop fst snd].
  split; [reflexivity|]. split.
  - (* the audit trail *)
    assert (Sa4 : stat fs4 audit = Some (SLeaf (f_next fs3))).
    { destruct (rel_last audit Hane) as [apar [an Ea]].
      assert (Hap' : exists mm', stat fs3 apar = Some (SDir mm')).
      { pose proof (st_dirs _ _ Sa3) as Hdd. destruct apar as [|c apar'].
        - pose proof (Hdanc2 [] dest eq_refl Hdne) as H0. unfold is_dir in H0.
          rewrite <- (O3 [] ltac:(destruct dest; [contradiction|reflexivity])) in H0.
          destruct (stat fs3 []) as [[mm'|]|]; try discriminate. eauto.
        - pose proof (Hdd (c :: apar') [an] Ea ltac:(discriminate) ltac:(discriminate)) as H0. unfold is_dir in H0.
          destruct (stat fs3 (c :: apar')) as [[mm'|]|]; try discriminate. eauto. }
      destruct Hap' as [mm' Hap']. unfold fs4, stat, create; simpl. rewrite Ea. eapply t_stat_put_same. exact Hap'. }
    unfold audit_bytes. rewrite (fl_stat _ _ _ _ FL).
    + rewrite Sa4. rewrite (fl_ino _ _ _ _ FL) by (simpl; lia).
      unfold fs4. rewrite inode_create_self. reflexivity.
    + intros n _. destruct (is_prefix (dest ++ [n]) audit) eqn:E; auto.
      assert (H1 : is_prefix dest (dest ++ [n]) = true) by (apply is_prefix_app_r; apply is_prefix_refl).
      rewrite (is_prefix_trans _ _ _ H1 E) in Hda. discriminate.
  - (* the tree *)
    intros n r0. rewrite t_stat_dir_cons. destruct (assoc n es) as [c|] eqn:Ea.
    + apply M1. apply assoc_in. exact Ea.
    + rewrite (fl_stat _ _ _ _ FL).
      * rewrite (fr_stat _ _ _ F34); [rewrite (B3 (n :: r0)) by discriminate; exact I|].
        apply Hnad. apply is_prefix_app_r. apply is_prefix_refl.
      * intros n' Hin. apply is_prefix_sibling. intros E. subst n'. exact (assoc_none_notin _ _ _ Ea Hin).
Qed.
