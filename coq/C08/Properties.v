From Coq Require Import List NArith Bool.
Require Import BobV.Gen.ConstsC08 BobV.C08.Model BobV.C08.Proofs.
Import ListNotations.
Open Scope N_scope.
Example placeholder_nonvacuous : is_prefix [[1]] [[1];[2]] = true.
Proof. vm_compute. reflexivity. Qed.
