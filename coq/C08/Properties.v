(* C08 — property theorems.  Only statements (closed by [exact] of a lemma of
   Proofs.v) and non-vacuity examples.

   Model: decoded tar member lists (the tar/gzip codecs are CPython's), Bob's
   TarHelper._extract / __extractPackage / _tarExtractFilter, CPython 3.12
   TarFile.extract + os.makedirs + os.path.realpath, a file system with
   directories, inodes, symbolic and hard links, and the post-download check of
   builder.py.  All of it is validated against the real code on every run. *)
From Coq Require Import List NArith Bool.
Require Import BobV.Gen.ConstsC08 BobV.C08.Model BobV.C08.Proofs BobV.C08.Roundtrip.
Import ListNotations.
Open Scope N_scope.

(* ---------------------------------------------------------------- extraction is confined *)

(* Whatever the kernel resolves a path to (following links) is what
   os.path.realpath computes for it: the filter judges the location the
   system calls act on. *)
Theorem kernel_agrees_with_realpath : forall fuel fs cs l,
  kres fuel fs [] true [] cs = Some l -> realpath fuel fs cs = Some l.
Proof. exact realpath_kres_follow. Qed.

(* TarHelper._extract of ANY artifact (hostile member names, kinds, link
   targets, order, duplicates, version header, truncation) leaves every
   location that is neither the workspace (or below) nor the audit file (or
   below) as it was: same node, same inode, same content and mode of the inode.
   Assumptions about the state before: workspace and audit paths are canonical
   and not nested, the ancestors of the workspace are directories, no symbolic
   link exists outside workspace/audit, inode numbers handed out are unused.

   _partial: the statement carries one run-time side condition,
   [snd (bob_extract ...) = false]: tarfile's makelink() fall-back did not
   re-extract a member in a state where the parent directory of the target had
   to be created again (only reachable when a symlink member's own path runs
   through the very link it replaces, e.g. member 's/s' over s -> '.').  Full
   statement = the same without that hypothesis; it is proved below for every
   extraction that is not rejected ([accepted_extraction_confined]); for rejected
   ones in that corner it is exercised by the correspondence and the oracle only. *)
Theorem extract_confined_partial : forall fuel fs audit dest a,
  plain dest -> plain audit ->
  is_prefix dest audit = false -> is_prefix audit dest = false ->
  fresh_ok fs ->
  (forall q, allowed dest audit q = false -> sym_at fs q = None) ->
  (forall x b, dest = x ++ b -> b <> [] -> is_dir fs x = true) ->
  snd (bob_extract fuel fs audit dest a) = false ->
  same_outside (allowed dest audit) fs (fst (fst (bob_extract fuel fs audit dest a))).
Proof. exact extract_confined_partial_stmt. Qed.

(* Full statement for every extraction that is not rejected. *)
Theorem accepted_extraction_confined : forall fuel fs audit dest a,
  plain dest -> plain audit ->
  is_prefix dest audit = false -> is_prefix audit dest = false ->
  fresh_ok fs ->
  (forall q, allowed dest audit q = false -> sym_at fs q = None) ->
  (forall x b, dest = x ++ b -> b <> [] -> is_dir fs x = true) ->
  snd (fst (bob_extract fuel fs audit dest a)) = Extracted ->
  same_outside (allowed dest audit) fs (fst (fst (bob_extract fuel fs audit dest a))).
Proof. exact accepted_extraction_confined_stmt. Qed.

(* The judgement of _tarExtractFilter is about the file system state AT THE
   TIME the member is extracted: an accepted member's full path (and hard link
   target) resolves inside the destination in the very state [fs] that
   TarFile.extract then acts on -- no resolution made for an earlier member is
   reused.  [member_extraction_confined] and all theorems above depend on this:
   their filter premise and their system calls share the same [fs]. *)
Theorem filter_judges_current_state : forall fuel fs dest m nm,
  tar_filter fuel fs dest m = Some nm ->
  has_dotdot nm = false /\
  inside dest (realpath fuel fs (join_dest dest nm)) = true /\
  (is_lnk (m_kind m) = true -> inside dest (realpath fuel fs (join_dest dest (m_link m))) = true).
Proof. exact filter_judges_current_state_stmt. Qed.

(* ... and the extraction loop gives every member the state its predecessor left. *)
Theorem loop_threads_state : forall fuel fs audit dest done f rest,
  starts_with CONTENT_PREFIX (m_name f) = true ->
  is_lnk (m_kind f) && negb (starts_with CONTENT_PREFIX (m_link f)) = false ->
  let f' := mkMember (drop8 (m_name f)) (m_kind f) (if is_lnk (m_kind f) then drop8 (m_link f) else m_link f)
                     (m_mode f) (m_data f) in
  let r := tar_extract fuel fs dest f' (negb (is_lnk (m_kind f))) done (rev rest ++ f' :: done) in
  x_st r <> MFatal -> x_consumed r = false ->
  extract_loop fuel fs audit dest done (f :: rest) =
  (fst (fst (extract_loop fuel (x_fs r) audit dest (f' :: done) rest)),
   snd (fst (extract_loop fuel (x_fs r) audit dest (f' :: done) rest)),
   x_nmk r || snd (extract_loop fuel (x_fs r) audit dest (f' :: done) rest)).
Proof. exact loop_threads_state_stmt. Qed.

(* One accepted member: every state reached while tarfile works on it
   (parent directories, the node itself, attributes, the fall-back of
   makelink) keeps the invariant "nothing outside the destination changed, no
   inode is shared between inside and outside, no link outside". *)
Theorem member_extraction_confined : forall (ok : path -> bool) dest fuel fs0 fs m sa before whole,
  (forall p r, ok p = true -> ok (p ++ r) = true) ->
  (forall q, is_prefix dest q = true -> ok q = true) ->
  nodd dest ->
  inv ok fs0 fs /\ is_dir fs dest = true ->
  (m_kind m = MLnk -> sa = false) ->
  x_nmk (tar_extract fuel fs dest m sa before whole) = false ->
  inv ok fs0 (x_fs (tar_extract fuel fs dest m sa before whole)) /\
  is_dir (x_fs (tar_extract fuel fs dest m sa before whole)) dest = true.
Proof. exact member_extraction_confined_stmt. Qed.

(* ---------------------------------------------------------------- packing is lossless *)

(* TarHelper._pack of ANY workspace tree (regular files, directories including
   empty ones, symbolic links, hard links, fifos, device nodes, any mode bits,
   any entry names without '/') followed by TarHelper._extract into a fresh
   workspace: the artifact is extracted without rejection, the audit trail has
   the same bytes, and the extracted tree equals the packed one as a map from
   relative paths to nodes: same directories with the same mode, and leaves
   whose inode has the same kind, content (data / link target / device number)
   and mode.  Hard links are packed as links to the first name and extracted as
   names of one inode.  Assumptions on the source: entry names are distinct
   valid names, every leaf has an inode, symlink inodes carry mode 0o777 and
   fifo inodes no data (what lstat reports); on the target: [target_ok].

   _partial with respect to the property text: "identical directory hash" is
   not derived inside Coq.  hash_dir sorts the entries of every directory by
   name, so it is a function of exactly this path -> node map; the missing step
   is the uniqueness of the sorted entry list.  hash_dir of source and
   extracted tree is evaluated and compared with bob.utils.hashDirectory on
   every generated tree by the correspondence. *)
Theorem pack_extract_roundtrip_partial : forall fuel sfs saudit scontent fs audit dest art m es ab,
  t_get (f_root sfs) scontent = Some (TDir m es) -> src_ok sfs (TDir m es) ->
  audit_bytes sfs saudit = Some ab ->
  pack sfs saudit scontent = Some art ->
  target_ok fs audit dest ->
  snd (fst (bob_extract (S fuel) fs audit dest art)) = Extracted /\
  audit_bytes (fst (fst (bob_extract (S fuel) fs audit dest art))) audit = Some ab /\
  (forall n r0, node_match sfs (t_stat (TDir m es) (n :: r0)) (fst (fst (bob_extract (S fuel) fs audit dest art)))
                           (stat (fst (fst (bob_extract (S fuel) fs audit dest art))) (dest ++ n :: r0))).
Proof. exact pack_extract_roundtrip_proof. Qed.

(* ---------------------------------------------------------------- corrupt / foreign artifacts are rejected *)

(* An extraction that is not rejected saw the version header "1", only members
   of the known classes, and a clean end of the stream. *)
Theorem wrong_version_unknown_member_truncation_rejected : forall fuel fs audit dest a,
  snd (fst (bob_extract fuel fs audit dest a)) = Extracted ->
  a_pax a = Some VSN_ONE /\ forallb classified (a_members a) = true /\ a_tail_ok a = true.
Proof. exact bob_extract_accepts. Qed.

(* The download path accepts a package only if extraction succeeded, the audit
   trail exists, and the result hash recorded in it equals the directory hash of
   what was extracted (H = SHA-1, [recorded] = parsing of the audit trail; both
   arbitrary): a missing audit trail, an unreadable one, or a content mismatch
   is never accepted. *)
Theorem mismatch_or_missing_audit_rejected :
  forall (H : str -> str) (recorded : str -> option str) fuel fs audit dest a fs' h,
  download H recorded fuel fs audit dest a = (fs', Accepted h) ->
  exists art ab k, a = Some art /\ bob_extract fuel fs audit dest art = (fs', Extracted, k) /\
    sys_exists fuel fs' audit = true /\
    audit_bytes fs' audit = Some ab /\ recorded ab = Some h /\ hash_dir H fs' dest = Some h.
Proof. exact download_accept. Qed.

(* ---------------------------------------------------------------- non-vacuity *)
(* / { o/{victim (inode 1, 0600)}, p/{ q/{ ws/ } } } *)
Definition ex_fs : fsys :=
  mkFs (TDir 493 [([111], TDir 493 [([118], TLeaf 1)]);
                  ([112], TDir 493 [([113], TDir 493 [([119], TDir 493 [])])])])
       [(1, mkInode KReg [112; 114; 101] 384)] 2.
Definition ex_dest : path := [[112]; [113]; [119]].
Definition ex_audit : path := [[112]; [113]; [97]].
Definition ex_auditm : member := mkMember AUDIT_NAME MReg [] 420 [65].
Definition c (s : str) : str := CONTENT_PREFIX ++ s.

(* F2: hard link content/x -> content/../../../o/v, then a regular member content/x *)
Example f2_hardlink_rejected_victim_untouched :
  let a := mkArtifact (Some VSN_ONE)
             [ex_auditm; mkMember (c [120]) MLnk (c [46;46;47;46;46;47;46;46;47;111;47;118]) 438 [];
              mkMember (c [120]) MReg [] 438 [111; 119; 110]] true in
  let r := bob_extract 20 ex_fs ex_audit ex_dest a in
  snd (fst r) = Rejected /\ snd r = false /\
  stat (fst (fst r)) [[111]; [118]] = Some (SLeaf 1) /\
  inode_of (fst (fst r)) 1 = Some (mkInode KReg [112; 114; 101] 384).
Proof. vm_compute. repeat split; reflexivity. Qed.

(* symlink s -> ../../../o then a write through it: rejected, nothing created outside *)
Example symlink_then_write_rejected :
  let a := mkArtifact (Some VSN_ONE)
             [ex_auditm; mkMember (c [115]) MSym [46;46;47;46;46;47;46;46;47;111] 511 [];
              mkMember (c [115; 47; 118]) MReg [] 420 [111; 119; 110]] true in
  let r := bob_extract 20 ex_fs ex_audit ex_dest a in
  snd (fst r) = Rejected /\ inode_of (fst (fst r)) 1 = Some (mkInode KReg [112; 114; 101] 384) /\
  sym_at (fst (fst r)) (ex_dest ++ [[115]]) = Some [46;46;47;46;46;47;46;46;47;111].
Proof. vm_compute. repeat split; reflexivity. Qed.

(* hard link to a symlink that resolves differently from its new place:
   extracted, and the outside file keeps its mode 0600 (no attributes through links) *)
Example hardlink_to_symlink_keeps_outside_mode :
  let a := mkArtifact (Some VSN_ONE)
             [ex_auditm; mkMember (c [118]) MReg [] 420 [105];
              mkMember (c [97; 47; 98; 47; 99; 47; 115]) MSym [46;46;47;46;46;47;46;46;47;118] 511 [];
              mkMember (c [104]) MLnk (c [97; 47; 98; 47; 99; 47; 115]) 2559 []] true in
  let r := bob_extract 20 ex_fs ex_audit ex_dest a in
  snd (fst r) = Extracted /\
  sym_at (fst (fst r)) (ex_dest ++ [[104]]) = Some [46;46;47;46;46;47;46;46;47;118] /\
  inode_of (fst (fst r)) 1 = Some (mkInode KReg [112; 114; 101] 384).
Proof. vm_compute. repeat split; reflexivity. Qed.

(* '..' behind a missing component: rejected before any directory is made *)
Example dotdot_behind_missing_rejected :
  let a := mkArtifact (Some VSN_ONE)
             [ex_auditm; mkMember (c [115]) MSym [46;46;47;46;46;47;46;46] 511 [];
              mkMember (c [115;47;110;47;46;46;47;112;47;113;47;119;47;120]) MReg [] 420 [120]] true in
  let r := bob_extract 20 ex_fs ex_audit ex_dest a in
  snd (fst r) = Rejected /\ stat (fst (fst r)) [[110]] = None.
Proof. vm_compute. repeat split; reflexivity. Qed.

(* a benign artifact is extracted: directory, file with mode, symlink, hard link *)
Example benign_extracted :
  let a := mkArtifact (Some VSN_ONE)
             [ex_auditm; mkMember CONTENT_NAME MDir [] 493 [];
              mkMember (c [100]) MDir [] 448 []; mkMember (c [100; 47; 102]) MReg [] 365 [104; 105];
              mkMember (c [108]) MSym [100; 47; 102] 511 [];
              mkMember (c [104]) MLnk (c [100; 47; 102]) 365 []] true in
  let r := bob_extract 20 ex_fs ex_audit ex_dest a in
  snd (fst r) = Extracted /\ snd r = false /\
  stat (fst (fst r)) (ex_dest ++ [[100]]) = Some (SDir 448) /\
  stat (fst (fst r)) (ex_dest ++ [[104]]) = stat (fst (fst r)) (ex_dest ++ [[100]; [102]]) /\
  audit_bytes (fst (fst r)) ex_audit = Some [65].
Proof. vm_compute. repeat split; reflexivity. Qed.

(* the hypotheses of the confinement theorems hold of the example state *)
Example confinement_hypotheses_nonvacuous :
  plain ex_dest /\ plain ex_audit /\ is_prefix ex_dest ex_audit = false /\ is_prefix ex_audit ex_dest = false /\
  (forall x b, ex_dest = x ++ b -> b <> [] -> is_dir ex_fs x = true).
Proof.
  repeat split; try reflexivity.
  intros x b E Hb.
  destruct x as [|x1 [|x2 [|x3 [|x4 x]]]]; simpl in E; inversion E; subst; try reflexivity.
Qed.

(* unknown member / wrong version / truncated stream are rejected *)
Example unknown_member_rejected :
  snd (fst (bob_extract 20 ex_fs ex_audit ex_dest
         (mkArtifact (Some VSN_ONE) [ex_auditm; mkMember [101; 118; 105; 108] MReg [] 420 []] true))) = Rejected /\
  snd (fst (bob_extract 20 ex_fs ex_audit ex_dest (mkArtifact (Some [50]) [ex_auditm] true))) = Rejected /\
  snd (fst (bob_extract 20 ex_fs ex_audit ex_dest (mkArtifact (Some VSN_ONE) [ex_auditm] false))) = Rejected /\
  snd (fst (bob_extract 20 ex_fs ex_audit ex_dest (mkArtifact (Some VSN_ONE) [ex_auditm] true))) = Extracted.
Proof. vm_compute. repeat split; reflexivity. Qed.

(* a source tree: src/{audit (inode 9), content/{d/{f (inode 1, 0555)}, h (hard link to inode 1), l -> d/f, e/ (empty, 0700)}} *)
Definition ex_src : fsys :=
  mkFs (TDir 493 [([115], TDir 493 [([97], TLeaf 9);
                                    ([99], TDir 493 [([100], TDir 488 [([102], TLeaf 1)]); ([104], TLeaf 1);
                                                     ([108], TLeaf 2); ([101], TDir 448 [])])])])
       [(1, mkInode KReg [104; 105] 365); (2, mkInode KSym [100; 47; 102] 511); (9, mkInode KReg [65; 85] 420)] 10.

Example roundtrip_nonvacuous :
  match pack ex_src [[115]; [97]] [[115]; [99]] with
  | Some art =>
    let r := bob_extract 20 ex_fs ex_audit ex_dest art in
    length (a_members art) = 7%nat /\
    snd (fst r) = Extracted /\
    audit_bytes (fst (fst r)) ex_audit = Some [65; 85] /\
    stat (fst (fst r)) (ex_dest ++ [[100]]) = Some (SDir 488) /\
    stat (fst (fst r)) (ex_dest ++ [[101]]) = Some (SDir 448) /\
    stat (fst (fst r)) (ex_dest ++ [[104]]) = stat (fst (fst r)) (ex_dest ++ [[100]; [102]]) /\
    sym_at (fst (fst r)) (ex_dest ++ [[108]]) = Some [100; 47; 102] /\
    match stat (fst (fst r)) (ex_dest ++ [[104]]) with
    | Some (SLeaf i) => inode_of (fst (fst r)) i = Some (mkInode KReg [104; 105] 365)
    | _ => False
    end
  | None => False
  end.
Proof. vm_compute. repeat split; reflexivity. Qed.

(* re-targeting: real/, lnk -> real, lnk/a, lnk -> ../../../o (same name again), lnk/v.
   tarfile unlinks and re-creates the link; a judgement made with the state BEFORE the
   second lnk member (stale resolution) would accept lnk/v, the judgement in the current
   state rejects it; the outside file is untouched. *)
Definition ex_retarget_pre : list member :=
  [ex_auditm; mkMember (c [114]) MDir [] 493 []; mkMember (c [108]) MSym [114] 511 [];
   mkMember (c [108; 47; 97]) MReg [] 420 [102]].
Definition ex_retarget_sym : member := mkMember (c [108]) MSym [46;46;47;46;46;47;46;46;47;111] 511 [].
Definition ex_retarget_write : member := mkMember (c [108; 47; 118]) MReg [] 420 [111; 119; 110].

Example retargeted_symlink_judged_in_current_state :
  let before := fst (fst (bob_extract 20 ex_fs ex_audit ex_dest (mkArtifact (Some VSN_ONE) ex_retarget_pre true))) in
  let now := fst (fst (bob_extract 20 ex_fs ex_audit ex_dest (mkArtifact (Some VSN_ONE) (ex_retarget_pre ++ [ex_retarget_sym]) true))) in
  let t := ex_dest ++ [[108]; [118]] in
  inside ex_dest (realpath 20 before t) = true /\          (* stale judgement: accept *)
  inside ex_dest (realpath 20 now t) = false /\            (* current state: refuse *)
  sym_at now (ex_dest ++ [[108]]) = Some [46;46;47;46;46;47;46;46;47;111] /\
  let r := bob_extract 20 ex_fs ex_audit ex_dest
             (mkArtifact (Some VSN_ONE) (ex_retarget_pre ++ [ex_retarget_sym; ex_retarget_write]) true) in
  snd (fst r) = Rejected /\ inode_of (fst (fst r)) 1 = Some (mkInode KReg [112; 114; 101] 384) /\
  stat (fst (fst r)) [[111]; [118]] = Some (SLeaf 1).
Proof. vm_compute. repeat split; reflexivity. Qed.
