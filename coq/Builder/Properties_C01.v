(* C01 — incremental build equals clean build (statements only). *)
From Coq Require Import List NArith Arith Bool Permutation.
Require Import BobV.Builder.Model BobV.Builder.Proofs BobV.Builder.Sched.
Import ListNotations.
Open Scope N_scope.

(* After any history of project states, each followed by an incremental build
   in the same workspace state, every workspace of the final project holds what
   a from-scratch build of the final project produces.  [AllInv] holds of the
   empty workspace; scripts are deterministic in the sense spelled out in
   Model.v (run_on / the checkout obliviousness). *)
Theorem incremental_equals_clean :
  forall (hash : content -> Hsh) (is_src : N -> bool) (c : cfg) (Ps : list project) (P : project) (w : wstate),
    AllInv hash is_src w -> Forall (wf is_src) Ps -> wf is_src P ->
    let w' := build hash c P (fold_left (fun st Q => build hash c Q st) Ps w) in
    forall sd, In sd P -> cont (w' (sd_path sd)) = clean hash P (sd_path sd).
Proof. exact history_correct_proof. Qed.

(* One build from any state satisfying the invariants: clean content, an
   accurate stored result hash, and the invariants again. *)
Theorem build_correct :
  forall (hash : content -> Hsh) (is_src : N -> bool) (c : cfg) (P : project) (w : wstate),
    AllInv hash is_src w -> wf is_src P ->
    AllInv hash is_src (build hash c P w) /\
    forall sd, In sd P ->
      cont (build hash c P w (sd_path sd)) = clean hash P (sd_path sd) /\
      result (build hash c P w (sd_path sd)) = Some (RHash (hash (clean hash P (sd_path sd)))).
Proof. exact build_correct_proof. Qed.

(* An immediately repeated build re-executes no build step, no package step
   and no deterministic checkout. *)
Theorem repeated_build_step_noop :
  forall (hash : content -> Hsh) (c : cfg) (d : D) (ins : list Hsh) (s : slot),
    force c = false -> Ready hash d s -> inputs s = Some ins ->
    runs (cook_build hash c d ins s) = false.
Proof. exact cook_build_noop. Qed.

Theorem repeated_package_step_noop :
  forall (hash : content -> Hsh) (c : cfg) (d : D) (ins : list Hsh) (s : slot),
    force c = false -> Ready hash d s -> inputs s = Some ins ->
    runs (cook_package hash c d ins s) = false.
Proof. exact cook_package_noop. Qed.

Theorem repeated_deterministic_checkout_noop :
  forall (hash : content -> Hsh) (c : cfg) (d : D) (ins : list Hsh) (s : slot),
    force c = false -> exists_ s = true -> dirst s = Some d -> inputs s = Some ins ->
    result s = Some (RHash (hash (cont s))) ->
    runs (cook_checkout hash c true d ins s) = false.
Proof. exact cook_checkout_noop. Qed.

(* A build or package directory handed to a different variant is emptied
   before the script runs: from every state satisfying the invariant the step
   ends with the run's own output, never with Garbage (shared with C16). *)
Theorem reused_dir_is_pruned :
  forall (hash : content -> Hsh) (c : cfg) (d : D) (ins : list Hsh) (s : slot),
    InvB hash s ->
    cont (exec hash (cook_build hash c d ins s) s) = Out d ins /\
    cont (exec hash (cook_package hash c d ins s) s) = Out d ins.
Proof.
  intros hash c d ins s I. split.
  - exact (proj1 (proj2 (proj2 (cook_build_ok hash c d ins s I)))).
  - exact (proj1 (proj2 (proj2 (cook_package_ok hash c d ins s I)))).
Qed.

(* With -jN the steps of one build run in some other dependency-respecting
   order (each step execution touches only its own workspace, so a parallel run
   is an interleaving of whole step executions).  Whatever order each build of
   the history used, and whatever order P' the last one uses, every workspace
   ends with the content of the from-scratch build in the canonical order. *)
Theorem any_schedule_equals_clean :
  forall (hash : content -> Hsh) (is_src : N -> bool) (c : cfg) (Ps : list project) (P P' : project) (w : wstate),
    AllInv hash is_src w -> Forall (wf is_src) Ps -> wf is_src P -> wf is_src P' -> Permutation P P' ->
    let w' := build hash c P' (fold_left (fun st Q => build hash c Q st) Ps w) in
    forall sd, In sd P -> cont (w' (sd_path sd)) = clean hash P (sd_path sd).
Proof. exact any_schedule_equals_clean_proof. Qed.

(* the from-scratch result itself is a function of the step set, not of the order *)
Theorem clean_schedule_independent :
  forall (hash : content -> Hsh) (is_src : N -> bool) (P P' : project),
    wf is_src P -> wf is_src P' -> Permutation P P' ->
    forall sd, In sd P -> clean hash P' (sd_path sd) = clean hash P (sd_path sd).
Proof. exact clean_schedule_independent_proof. Qed.

(* non-vacuity: a script edit, then a revert, on a 3-step project *)
Definition h0 (c : content) : Hsh :=
  match c with Empty => 1 | Out d i => 10 + d + 7 * fold_right N.add 0 i | Partial d => 3 | Garbage => 5 end.
Definition cfg0 : cfg := {| force := false; dev_rehash := true; clean_build := false |}.
Definition proj_v (v : N) : project :=
  [ {| sd_path := 0; sd_kind := KCheckout true; sd_d := 100; sd_deps := [] |};
    {| sd_path := 1; sd_kind := KBuild; sd_d := v; sd_deps := [0] |};
    {| sd_path := 2; sd_kind := KPackage; sd_d := 300; sd_deps := [1] |} ].

Example incremental_nonvacuous :
  let w := build h0 cfg0 (proj_v 200) (build h0 cfg0 (proj_v 201) (build h0 cfg0 (proj_v 200) (fun _ => empty_slot))) in
  map (fun p => cont (w p)) [0; 1; 2] = map (clean h0 (proj_v 200)) [0; 1; 2]
  /\ build_runs h0 cfg0 (proj_v 200) w = [(0, false); (1, false); (2, false)]
  /\ build_runs h0 cfg0 (proj_v 201) w = [(0, false); (1, true); (2, true)].
Proof. vm_compute. auto. Qed.

(* non-vacuity of the schedule theorems: a diamond built in its two orders *)
Definition sdA := {| sd_path := 0; sd_kind := KCheckout true; sd_d := 100; sd_deps := [] |}.
Definition sdB := {| sd_path := 1; sd_kind := KBuild; sd_d := 200; sd_deps := [0] |}.
Definition sdC := {| sd_path := 2; sd_kind := KBuild; sd_d := 201; sd_deps := [0] |}.
Definition sdD := {| sd_path := 3; sd_kind := KPackage; sd_d := 300; sd_deps := [1; 2] |}.
Definition src0 (p : N) : bool := N.eqb p 0.

Example schedule_nonvacuous :
  wf src0 [sdA; sdB; sdC; sdD] /\ wf src0 [sdA; sdC; sdB; sdD] /\
  Permutation [sdA; sdB; sdC; sdD] [sdA; sdC; sdB; sdD] /\
  map (fun p => cont (build h0 cfg0 [sdA; sdC; sdB; sdD] (fun _ => empty_slot) p)) [0; 1; 2; 3]
    = map (clean h0 [sdA; sdB; sdC; sdD]) [0; 1; 2; 3].
Proof.
  split; [|split; [|split]].
  - cbn. repeat split; try (intros q Hq; cbn in Hq; tauto); intuition discriminate.
  - cbn. repeat split; try (intros q Hq; cbn in Hq; tauto); intuition discriminate.
  - apply perm_skip. apply perm_swap.
  - vm_compute. reflexivity.
Qed.
