(* C01 — incremental build equals clean build (statements only). *)
From Coq Require Import List NArith Arith Bool.
Require Import BobV.Builder.Model BobV.Builder.Proofs.
Import ListNotations.
Open Scope N_scope.

(* After any history of project states, each followed by an incremental build
   in the same workspace state, every workspace of the final project holds what
   a from-scratch build of the final project produces.  [AllInv] holds of the
   empty workspace; scripts are deterministic in the sense spelled out in
   Model.v (run_on / the checkout obliviousness). *)
Theorem incremental_equals_clean :
  forall (hash : content -> Hsh) (is_src : N -> bool) (c : cfg) (Ps : list project) (P : project) (w : wstate),
    AllInv hash is_src w -> Forall (wf is_src) Ps -> wf is_src P ->
    let w' := build hash c P (fold_left (fun st Q => build hash c Q st) Ps w) in
    forall sd, In sd P -> cont (w' (sd_path sd)) = clean hash P (sd_path sd).
Proof. exact history_correct_proof. Qed.

(* One build from any state satisfying the invariants: clean content, an
   accurate stored result hash, and the invariants again. *)
Theorem build_correct :
  forall (hash : content -> Hsh) (is_src : N -> bool) (c : cfg) (P : project) (w : wstate),
    AllInv hash is_src w -> wf is_src P ->
    AllInv hash is_src (build hash c P w) /\
    forall sd, In sd P ->
      cont (build hash c P w (sd_path sd)) = clean hash P (sd_path sd) /\
      result (build hash c P w (sd_path sd)) = Some (RHash (hash (clean hash P (sd_path sd)))).
Proof. exact build_correct_proof. Qed.

(* An immediately repeated build re-executes no build step, no package step
   and no deterministic checkout. *)
Theorem repeated_build_step_noop :
  forall (hash : content -> Hsh) (c : cfg) (d : D) (ins : list Hsh) (s : slot),
    force c = false -> Ready hash d s -> inputs s = Some ins ->
    runs (cook_build hash c d ins s) = false.
Proof. exact cook_build_noop. Qed.

Theorem repeated_package_step_noop :
  forall (hash : content -> Hsh) (c : cfg) (d : D) (ins : list Hsh) (s : slot),
    force c = false -> Ready hash d s -> inputs s = Some ins ->
    runs (cook_package hash c d ins s) = false.
Proof. exact cook_package_noop. Qed.

Theorem repeated_deterministic_checkout_noop :
  forall (hash : content -> Hsh) (c : cfg) (d : D) (ins : list Hsh) (s : slot),
    force c = false -> exists_ s = true -> dirst s = Some d -> inputs s = Some ins ->
    result s = Some (RHash (hash (cont s))) ->
    runs (cook_checkout hash c true d ins s) = false.
Proof. exact cook_checkout_noop. Qed.

(* A build or package directory handed to a different variant is emptied
   before the script runs: from every state satisfying the invariant the step
   ends with the run's own output, never with Garbage (shared with C16). *)
Theorem reused_dir_is_pruned :
  forall (hash : content -> Hsh) (c : cfg) (d : D) (ins : list Hsh) (s : slot),
    InvB hash s ->
    cont (exec hash (cook_build hash c d ins s) s) = Out d ins /\
    cont (exec hash (cook_package hash c d ins s) s) = Out d ins.
Proof.
  intros hash c d ins s I. split.
  - exact (proj1 (proj2 (proj2 (cook_build_ok hash c d ins s I)))).
  - exact (proj1 (proj2 (proj2 (cook_package_ok hash c d ins s I)))).
Qed.

(* non-vacuity: a script edit, then a revert, on a 3-step project *)
Definition h0 (c : content) : Hsh :=
  match c with Empty => 1 | Out d i => 10 + d + 7 * fold_right N.add 0 i | Partial d => 3 | Garbage => 5 end.
Definition cfg0 : cfg := {| force := false; dev_rehash := true; clean_build := false |}.
Definition proj_v (v : N) : project :=
  [ {| sd_path := 0; sd_kind := KCheckout true; sd_d := 100; sd_deps := [] |};
    {| sd_path := 1; sd_kind := KBuild; sd_d := v; sd_deps := [0] |};
    {| sd_path := 2; sd_kind := KPackage; sd_d := 300; sd_deps := [1] |} ].

Example incremental_nonvacuous :
  let w := build h0 cfg0 (proj_v 200) (build h0 cfg0 (proj_v 201) (build h0 cfg0 (proj_v 200) (fun _ => empty_slot))) in
  map (fun p => cont (w p)) [0; 1; 2] = map (clean h0 (proj_v 200)) [0; 1; 2]
  /\ build_runs h0 cfg0 (proj_v 200) w = [(0, false); (1, false); (2, false)]
  /\ build_runs h0 cfg0 (proj_v 201) w = [(0, false); (1, true); (2, true)].
Proof. vm_compute. auto. Qed.
