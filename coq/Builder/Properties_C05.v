(* C05 — failed or killed builds never poison the workspace (statements only). *)
From Coq Require Import List NArith Arith Bool.
Require Import BobV.Builder.Model BobV.Builder.Proofs.
Import ListNotations.
Open Scope N_scope.

(* Every crash image of every step — a kill after any persistent-state
   operation, or inside the running script (MRunCrash: partial output) — keeps
   the invariants of every workspace. *)
Theorem crash_image_keeps_invariants :
  forall (hash : content -> Hsh) (is_src : N -> bool) (c : cfg) (P1 : project) (sd : stepdef) (w : wstate) (t : list mop),
    AllInv hash is_src w -> wf_from is_src [] (P1 ++ [sd]) ->
    In t (crash_traces (cook_step hash c (build hash c P1 w) sd)) ->
    AllInv hash is_src (upd (build hash c P1 w) (sd_path sd) (exec hash t (build hash c P1 w (sd_path sd)))).
Proof. exact crash_image_inv_proof. Qed.

(* ... and from any state satisfying the invariants — hence after any sequence
   of aborted builds, of any project states — the next build completes with the
   clean results. *)
Theorem abort_recovers :
  forall (hash : content -> Hsh) (is_src : N -> bool) (c : cfg) (P : project) (w : wstate),
    AllInv hash is_src w -> wf is_src P ->
    AllInv hash is_src (build hash c P w) /\
    forall sd, In sd P ->
      cont (build hash c P w (sd_path sd)) = clean hash P (sd_path sd) /\
      result (build hash c P w (sd_path sd)) = Some (RHash (hash (clean hash P (sd_path sd)))).
Proof. exact build_correct_proof. Qed.

(* Bob never treats a step as up to date whose workspace was left incomplete:
   a build/package step is skipped only when the stored input hashes equal the
   current ones, and then the invariant says the workspace holds the complete
   output for exactly these inputs. *)
Theorem skip_only_if_complete :
  forall (hash : content -> Hsh) (d : D) (ins : list Hsh) (s : slot),
    Ready hash d s -> inputs s = Some ins ->
    cont s = Out d ins /\ result s = Some (RHash (hash (Out d ins))).
Proof.
  intros hash d ins s ((_ & _ & _ & _ & F) & _ & Hd) Hi.
  destruct (F ins Hi) as (d' & H1 & H2 & H3). assert (d' = d) by congruence. subst. auto.
Qed.

(* per step kind: all crash images satisfy the workspace invariant *)
Theorem build_step_crash_safe :
  forall (hash : content -> Hsh) (c : cfg) (d : D) (ins : list Hsh) (s : slot),
    InvB hash s -> forall t, In t (crash_traces (cook_build hash c d ins s)) -> InvB hash (exec hash t s).
Proof. intros hash c d ins s I. exact (proj1 (cook_build_ok hash c d ins s I)). Qed.

Theorem package_step_crash_safe :
  forall (hash : content -> Hsh) (c : cfg) (d : D) (ins : list Hsh) (s : slot),
    InvB hash s -> forall t, In t (crash_traces (cook_package hash c d ins s)) -> InvB hash (exec hash t s).
Proof. intros hash c d ins s I. exact (proj1 (cook_package_ok hash c d ins s I)). Qed.

Theorem checkout_step_crash_safe :
  forall (hash : content -> Hsh) (c : cfg) (det : bool) (d : D) (ins : list Hsh) (s : slot),
    InvC hash s -> forall t, In t (crash_traces (cook_checkout hash c det d ins s)) -> InvC hash (exec hash t s).
Proof. intros hash c det d ins s I. exact (proj1 (cook_checkout_ok hash c det d ins s I)). Qed.

(* non-vacuity: the F29 history (edit, kill right after the prune, revert):
   with the state invalidated before the prune the next build re-runs the step *)
Definition h0 (c : content) : Hsh :=
  match c with Empty => 1 | Out d i => 10 + d + 7 * fold_right N.add 0 i | Partial d => 3 | Garbage => 5 end.
Definition cfg0 : cfg := {| force := false; dev_rehash := true; clean_build := false |}.

Example prune_then_kill_nonvacuous :
  let s1 := exec h0 (cook_package h0 cfg0 300 [7] empty_slot) empty_slot in       (* built for variant 300 *)
  let killed := exec h0 [MResetNone; MPrune] s1 in                                (* variant 301: kill after the prune *)
  In [MResetNone; MPrune] (crash_traces (cook_package h0 cfg0 301 [7] s1)) /\
  runs (cook_package h0 cfg0 300 [7] killed) = true /\                            (* edit reverted: not skipped *)
  cont (exec h0 (cook_package h0 cfg0 300 [7] killed) killed) = Out 300 [7].
Proof. vm_compute. auto 10. Qed.
