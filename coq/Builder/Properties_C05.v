(* C05 — failed or killed builds never poison the workspace (statements only). *)
From Coq Require Import List NArith Arith Bool Permutation.
Require Import BobV.Builder.Model BobV.Builder.Proofs BobV.Builder.Sched.
Import ListNotations.
Open Scope N_scope.

(* Every crash image of every step — a kill after any persistent-state
   operation, or inside the running script (MRunCrash: partial output) — keeps
   the invariants of every workspace. *)
Theorem crash_image_keeps_invariants :
  forall (hash : content -> Hsh) (is_src : N -> bool) (c : cfg) (P1 : project) (sd : stepdef) (w : wstate) (t : list mop),
    AllInv hash is_src w -> wf_from is_src [] (P1 ++ [sd]) ->
    In t (crash_traces (cook_step hash c (build hash c P1 w) sd)) ->
    AllInv hash is_src (upd (build hash c P1 w) (sd_path sd) (exec hash t (build hash c P1 w (sd_path sd)))).
Proof. exact crash_image_inv_proof. Qed.

(* ... and from any state satisfying the invariants — hence after any sequence
   of aborted builds, of any project states — the next build completes with the
   clean results. *)
Theorem abort_recovers :
  forall (hash : content -> Hsh) (is_src : N -> bool) (c : cfg) (P : project) (w : wstate),
    AllInv hash is_src w -> wf is_src P ->
    AllInv hash is_src (build hash c P w) /\
    forall sd, In sd P ->
      cont (build hash c P w (sd_path sd)) = clean hash P (sd_path sd) /\
      result (build hash c P w (sd_path sd)) = Some (RHash (hash (clean hash P (sd_path sd)))).
Proof. exact build_correct_proof. Qed.

(* Killed -jN builds and repeated aborted builds: any sequence of partial or
   complete executions of steps (of any project states, in any order, several
   of them stopped midway), each computed against the state it found, keeps the
   invariants of every workspace ... *)
Theorem partial_executions_keep_invariants :
  forall (hash : content -> Hsh) (is_src : N -> bool) (c : cfg) (l : list (stepdef * list mop)) (w : wstate),
    AllInv hash is_src w -> partial_ok hash is_src c w l ->
    AllInv hash is_src (fold_left (partial_step hash) l w).
Proof. exact partial_executions_keep_invariants_proof. Qed.

(* ... and the next build, whatever its schedule, ends with the clean results. *)
Theorem recover_after_partial_executions :
  forall (hash : content -> Hsh) (is_src : N -> bool) (c : cfg) (l : list (stepdef * list mop))
         (P P' : project) (w : wstate),
    AllInv hash is_src w -> partial_ok hash is_src c w l ->
    wf is_src P -> wf is_src P' -> Permutation P P' ->
    forall sd, In sd P ->
      cont (build hash c P' (fold_left (partial_step hash) l w) (sd_path sd)) = clean hash P (sd_path sd).
Proof. exact recover_after_partial_executions_proof. Qed.

(* Bob never treats a step as up to date whose workspace was left incomplete:
   a build/package step is skipped only when the stored input hashes equal the
   current ones, and then the invariant says the workspace holds the complete
   output for exactly these inputs. *)
Theorem skip_only_if_complete :
  forall (hash : content -> Hsh) (d : D) (ins : list Hsh) (s : slot),
    Ready hash d s -> inputs s = Some ins ->
    cont s = Out d ins /\ result s = Some (RHash (hash (Out d ins))).
Proof.
  intros hash d ins s ((_ & _ & _ & _ & F) & _ & Hd) Hi.
  destruct (F ins Hi) as (d' & H1 & H2 & H3). assert (d' = d) by congruence. subst. auto.
Qed.

(* per step kind: all crash images satisfy the workspace invariant *)
Theorem build_step_crash_safe :
  forall (hash : content -> Hsh) (c : cfg) (d : D) (ins : list Hsh) (s : slot),
    InvB hash s -> forall t, In t (crash_traces (cook_build hash c d ins s)) -> InvB hash (exec hash t s).
Proof. intros hash c d ins s I. exact (proj1 (cook_build_ok hash c d ins s I)). Qed.

Theorem package_step_crash_safe :
  forall (hash : content -> Hsh) (c : cfg) (d : D) (ins : list Hsh) (s : slot),
    InvB hash s -> forall t, In t (crash_traces (cook_package hash c d ins s)) -> InvB hash (exec hash t s).
Proof. intros hash c d ins s I. exact (proj1 (cook_package_ok hash c d ins s I)). Qed.

Theorem checkout_step_crash_safe :
  forall (hash : content -> Hsh) (c : cfg) (det : bool) (d : D) (ins : list Hsh) (s : slot),
    InvC hash s -> forall t, In t (crash_traces (cook_checkout hash c det d ins s)) -> InvC hash (exec hash t s).
Proof. intros hash c det d ins s I. exact (proj1 (cook_checkout_ok hash c det d ins s I)). Qed.

(* non-vacuity: the F29 history (edit, kill right after the prune, revert):
   with the state invalidated before the prune the next build re-runs the step *)
Definition h0 (c : content) : Hsh :=
  match c with Empty => 1 | Out d i => 10 + d + 7 * fold_right N.add 0 i | Partial d => 3 | Garbage => 5 end.
Definition cfg0 : cfg := {| force := false; dev_rehash := true; clean_build := false |}.

Example prune_then_kill_nonvacuous :
  let s1 := exec h0 (cook_package h0 cfg0 300 [7] empty_slot) empty_slot in       (* built for variant 300 *)
  let killed := exec h0 [MResetNone; MPrune] s1 in                                (* variant 301: kill after the prune *)
  In [MResetNone; MPrune] (crash_traces (cook_package h0 cfg0 301 [7] s1)) /\
  runs (cook_package h0 cfg0 300 [7] killed) = true /\                            (* edit reverted: not skipped *)
  cont (exec h0 (cook_package h0 cfg0 300 [7] killed) killed) = Out 300 [7].
Proof. vm_compute. auto 10. Qed.

(* non-vacuity: two steps of a parallel build killed inside their scripts, a third one complete *)
Definition pA := {| sd_path := 0; sd_kind := KCheckout true; sd_d := 100; sd_deps := [] |}.
Definition pB := {| sd_path := 1; sd_kind := KBuild; sd_d := 200; sd_deps := [0] |}.
Definition pC := {| sd_path := 2; sd_kind := KBuild; sd_d := 201; sd_deps := [0] |}.
Definition psrc (p : N) : bool := N.eqb p 0.
Definition w_a : wstate := build_step h0 cfg0 (fun _ => empty_slot) pA.

Example parallel_kill_nonvacuous :
  let tB := [MMkdir; MReset 200; MDelInputs; MSetTime; MRunCrash 200 false] in
  let tC := [MMkdir; MReset 201; MDelInputs; MSetTime; MRunCrash 201 false] in
  partial_ok h0 psrc cfg0 (fun _ => empty_slot)
    [(pA, cook_step h0 cfg0 (fun _ => empty_slot) pA); (pB, tB); (pC, tC)] /\
  let w := fold_left (partial_step h0) [(pA, cook_step h0 cfg0 (fun _ => empty_slot) pA); (pB, tB); (pC, tC)] (fun _ => empty_slot) in
  map (fun p => cont (w p)) [1; 2] = [Partial 200; Partial 201] /\
  map (fun p => cont (build h0 cfg0 [pA; pC; pB] w p)) [0; 1; 2] = map (clean h0 [pA; pB; pC]) [0; 1; 2].
Proof. vm_compute. intuition. Qed.
