(* Builder — the result of a build does not depend on the schedule: any
   dependency-respecting order of the same steps (what -jN executes is some
   interleaving of whole step executions, each touching only its own
   workspace) leaves the content of the canonical clean build. *)
From Coq Require Import List NArith Arith Bool Lia Permutation.
Require Import BobV.Builder.Model BobV.Builder.Proofs.
Import ListNotations.

Section Sched.
  Variable hash : content -> Hsh.
  Variable is_src : N -> bool.

  Local Notation wf_from := (wf_from is_src).
  Local Notation wf := (wf is_src).

  Definition paths (P : project) : list N := map sd_path P.

  (* the equation a from-scratch build satisfies at a step *)
  Definition char_at (f : N -> content) (sd : stepdef) : Prop :=
    f (sd_path sd) = Out (sd_d sd) (map (fun p => hash (f p)) (sd_deps sd)).

  Lemma wf_from_fresh seen P : wf_from seen P -> forall p, In p seen -> ~ In p (paths P).
  Proof.
    revert seen. induction P as [|sd P IH]; intros seen W p Hp; cbn; [tauto|].
    destruct W as (W1 & _ & _ & W4). intros [E|H].
    - subst p. contradiction.
    - apply (IH _ W4 p); [now right | exact H].
  Qed.

  Lemma clean_fold_outside P : forall cl p, ~ In p (paths P) -> fold_left (clean_step hash) P cl p = cl p.
  Proof.
    induction P as [|sd P IH]; intros cl p H; cbn [fold_left]; [reflexivity|].
    cbn in H. rewrite IH by tauto. unfold clean_step, upd.
    destruct (N.eqb p (sd_path sd)) eqn:E; [|reflexivity]. apply N.eqb_eq in E. subst. tauto.
  Qed.

  Lemma clean_fold_char P : forall seen cl, wf_from seen P ->
    forall sd, In sd P -> char_at (fold_left (clean_step hash) P cl) sd.
  Proof.
    induction P as [|sd0 P IH]; intros seen cl W sd Hsd; [contradiction|].
    destruct W as (W1 & W2 & W3 & W4). cbn [fold_left]. destruct Hsd as [<-|Hsd].
    - unfold char_at.
      assert (F0 : ~ In (sd_path sd0) (paths P)) by (apply (wf_from_fresh _ _ W4); now left).
      rewrite (clean_fold_outside P _ _ F0). unfold clean_step at 1, upd. rewrite N.eqb_refl. f_equal.
      apply map_ext_in. intros q Hq.
      assert (Fq : ~ In q (paths P)) by (apply (wf_from_fresh _ _ W4); right; now apply W2).
      rewrite (clean_fold_outside P _ _ Fq). unfold clean_step, upd.
      destruct (N.eqb q (sd_path sd0)) eqn:E; [|reflexivity].
      apply N.eqb_eq in E. subst q. exfalso. apply W1. now apply W2.
    - exact (IH _ _ W4 sd Hsd).
  Qed.

  (* the equations have one solution on the steps of a well-formed project *)
  Lemma char_unique P : forall seen (f g : N -> content), wf_from seen P ->
    (forall p, In p seen -> f p = g p) ->
    (forall sd, In sd P -> char_at f sd) -> (forall sd, In sd P -> char_at g sd) ->
    forall p, In p (paths P) \/ In p seen -> f p = g p.
  Proof.
    induction P as [|sd0 P IH]; intros seen f g W Hs Hf Hg p Hp.
    - destruct Hp as [[]|Hp]. now apply Hs.
    - destruct W as (W1 & W2 & W3 & W4).
      assert (E0 : f (sd_path sd0) = g (sd_path sd0)).
      { rewrite (Hf sd0 (or_introl eq_refl)), (Hg sd0 (or_introl eq_refl)). f_equal.
        apply map_ext_in. intros q Hq. f_equal. apply Hs. now apply W2. }
      apply (IH (sd_path sd0 :: seen) f g W4).
      + intros q [<-|Hq]; [exact E0 | now apply Hs].
      + intros sd H. apply Hf. now right.
      + intros sd H. apply Hg. now right.
      + cbn in Hp. cbn. tauto.
  Qed.

  Lemma clean_schedule_independent_proof P P' :
    wf P -> wf P' -> Permutation P P' ->
    forall sd, In sd P -> clean hash P' (sd_path sd) = clean hash P (sd_path sd).
  Proof.
    intros W W' Pm sd Hsd. unfold clean.
    apply (char_unique P [] _ _ W).
    - intros p [].
    - intros x Hx. apply (clean_fold_char P' [] _ W'). now apply (Permutation_in _ Pm).
    - intros x Hx. now apply (clean_fold_char P [] _ W).
    - left. now apply in_map.
  Qed.

  (* any history (each build in any order of its own), then the final project in any schedule *)
  Lemma any_schedule_equals_clean_proof c (Ps : list project) P P' w :
    AllInv hash is_src w -> Forall wf Ps -> wf P -> wf P' -> Permutation P P' ->
    let w' := build hash c P' (fold_left (fun st Q => build hash c Q st) Ps w) in
    forall sd, In sd P -> cont (w' (sd_path sd)) = clean hash P (sd_path sd).
  Proof.
    intros A F W W' Pm. cbn zeta. intros sd Hsd.
    rewrite (history_correct_proof hash is_src c Ps P' w A F W' sd (Permutation_in _ Pm Hsd)).
    now apply clean_schedule_independent_proof.
  Qed.
End Sched.

(* ---- crash images of parallel and repeated builds ----
   A killed -jN build leaves several steps partially executed; repeated aborted
   builds pile such images on top of each other.  Both are sequences of
   partial-or-complete step executions, each computed against the state it
   found.  The invariants of every workspace survive any such sequence. *)
Section Partial.
  Variable hash : content -> Hsh.
  Variable is_src : N -> bool.

  Lemma full_trace_is_crash_trace ops : In ops (crash_traces ops).
  Proof.
    induction ops as [|o r IH]; cbn [crash_traces]; [now left|].
    right. apply in_or_app. right. now apply in_map.
  Qed.

  (* one (step, trace) pair applied to a state *)
  Definition partial_step (w : wstate) (st : stepdef * list mop) : wstate :=
    upd w (sd_path (fst st)) (exec hash (snd st) (w (sd_path (fst st)))).

  (* every trace is a crash image (or the complete execution) of the step in the state it found *)
  Fixpoint partial_ok (c : cfg) (w : wstate) (l : list (stepdef * list mop)) : Prop :=
    match l with
    | [] => True
    | st :: r => kind_ok is_src (fst st) /\ In (snd st) (crash_traces (cook_step hash c w (fst st))) /\
                 partial_ok c (partial_step w st) r
    end.

  Lemma partial_executions_keep_invariants_proof c l : forall w,
    AllInv hash is_src w -> partial_ok c w l -> AllInv hash is_src (fold_left partial_step l w).
  Proof.
    induction l as [|[sd t] l IH]; intros w A H; cbn [fold_left]; [exact A|].
    destruct H as (K & Ht & H). apply IH; [|exact H].
    exact (proj1 (cook_step_ok hash is_src c w sd A K) t Ht).
  Qed.

  (* ... hence the next build, in any schedule, completes with the clean results *)
  Lemma recover_after_partial_executions_proof c l P P' w :
    AllInv hash is_src w -> partial_ok c w l ->
    wf is_src P -> wf is_src P' -> Permutation P P' ->
    forall sd, In sd P ->
      cont (build hash c P' (fold_left partial_step l w) (sd_path sd)) = clean hash P (sd_path sd).
  Proof.
    intros A H W W' Pm sd Hsd.
    pose proof (partial_executions_keep_invariants_proof c l w A H) as A'.
    exact (any_schedule_equals_clean_proof hash is_src c [] P P' _ A' (Forall_nil _) W W' Pm sd Hsd).
  Qed.
End Partial.
