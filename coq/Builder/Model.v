(* Builder — model of the "invalidate, run, record" logic of
   pym/bob/builder.py: _cookBuildStep (1376-1432), _preparePackageStep /
   _cookPackageStep (1434-1460, 1650-1700) and the script-relevant part of
   _cookCheckoutStep (1180-1345), as sequences of micro-operations on one
   workspace slot; every state operation is a durable save point (C10), so
   every prefix of a trace is a possible crash image.  Definitions only.

   Content abstraction: what a step leaves in its workspace is determined by
   its digest [d] (variant, exec paths) and the *hashes* of its inputs; that
   equal input hashes mean equal input content is property C11. *)
From Coq Require Import List NArith Arith Bool.
Import ListNotations.

Definition D := N.              (* step digest as compared by the builder *)
Definition Hsh := N.            (* directory hash *)

Inductive content :=
| Empty
| Out (d : D) (i : list Hsh)     (* complete result of a run of digest d on inputs i *)
| Partial (d : D)                (* left behind by an aborted/failed run of digest d *)
| Garbage.                       (* a script ran on top of leftovers of another variant *)

Inductive res := RHash (h : Hsh) | RTime.   (* stored result: a hash or the timestamp marker *)

Record slot := {
  exists_ : bool;                (* directory exists *)
  cont : content;
  dirst : option D;              (* BobState directory state *)
  inputs : option (list Hsh);    (* BobState input hashes *)
  result : option res;
  vidst : option D
}.

Definition empty_slot : slot :=
  {| exists_ := false; cont := Empty; dirst := None; inputs := None; result := None; vidst := None |}.

Fixpoint list_eqb (a b : list N) : bool :=
  match a, b with
  | [], [] => true
  | x :: a', y :: b' => N.eqb x y && list_eqb a' b'
  | _, _ => false
  end.

Definition opt_eqb {A} (e : A -> A -> bool) (a b : option A) : bool :=
  match a, b with Some x, Some y => e x y | None, None => true | _, _ => false end.

(* A script of digest d run in a directory: correct on an empty directory and
   on leftovers of the *same* digest (incremental / restartable build),
   unpredictable on anything else. *)
Definition run_on (d : D) (i : list Hsh) (c : content) : content :=
  match c with
  | Empty => Out d i
  | Out d' _ => if N.eqb d d' then Out d i else Garbage
  | Partial d' => if N.eqb d d' then Out d i else Garbage
  | Garbage => Garbage
  end.

Definition crash_on (d : D) (c : content) : content :=    (* run interrupted / script failed midway *)
  match c with
  | Empty => Partial d
  | Out d' _ => if N.eqb d d' then Partial d else Garbage
  | Partial d' => if N.eqb d d' then Partial d else Garbage
  | Garbage => Garbage
  end.

Inductive mop :=
| MMkdir                         (* _constructDir creates the directory *)
| MPrune                         (* emptyDirectory *)
| MReset (d : D)                 (* resetWorkspaceState(path, d) *)
| MResetNone                     (* resetWorkspaceState(path, None): invalidate before pruning *)
| MResetEmpty                    (* resetWorkspaceState(path, {}): a source workspace that was just created *)
| MDelInputs
| MSetTime                       (* setResultHash(now) *)
| MRun (d : D) (i : list Hsh) (clean : bool)   (* _runShell; clean = workspace emptied first *)
| MRunCrash (d : D) (clean : bool)             (* the same, interrupted *)
| MSetResult                     (* setResultHash(hashWorkspace()) *)
| MSetVid (d : D)
| MSetInputs (i : list Hsh)
| MSetDir (d : D)                (* setDirectoryState *)
| MClrDir.                       (* checkout: directory state stored without the variant key *)

Section Hash.
  Variable hash : content -> Hsh.

  Definition apply (o : mop) (s : slot) : slot :=
    match o with
    | MMkdir => {| exists_ := true; cont := cont s; dirst := dirst s; inputs := inputs s; result := result s; vidst := vidst s |}
    | MPrune => {| exists_ := exists_ s; cont := Empty; dirst := dirst s; inputs := inputs s; result := result s; vidst := vidst s |}
    | MReset d => {| exists_ := exists_ s; cont := cont s; dirst := Some d; inputs := None; result := None; vidst := None |}
    | MResetNone | MResetEmpty => {| exists_ := exists_ s; cont := cont s; dirst := None; inputs := None; result := None; vidst := None |}
    | MDelInputs => {| exists_ := exists_ s; cont := cont s; dirst := dirst s; inputs := None; result := result s; vidst := vidst s |}
    | MSetTime => {| exists_ := exists_ s; cont := cont s; dirst := dirst s; inputs := inputs s; result := Some RTime; vidst := vidst s |}
    | MRun d i clean =>
      {| exists_ := exists_ s; cont := run_on d i (if clean then Empty else cont s); dirst := dirst s;
         inputs := inputs s; result := result s; vidst := vidst s |}
    | MRunCrash d clean =>
      {| exists_ := exists_ s; cont := crash_on d (if clean then Empty else cont s); dirst := dirst s;
         inputs := inputs s; result := result s; vidst := vidst s |}
    | MSetResult => {| exists_ := exists_ s; cont := cont s; dirst := dirst s; inputs := inputs s;
                       result := Some (RHash (hash (cont s))); vidst := vidst s |}
    | MSetVid d => {| exists_ := exists_ s; cont := cont s; dirst := dirst s; inputs := inputs s; result := result s; vidst := Some d |}
    | MSetInputs i => {| exists_ := exists_ s; cont := cont s; dirst := dirst s; inputs := Some i; result := result s; vidst := vidst s |}
    | MSetDir d => {| exists_ := exists_ s; cont := cont s; dirst := Some d; inputs := inputs s; result := result s; vidst := vidst s |}
    | MClrDir => {| exists_ := exists_ s; cont := cont s; dirst := None; inputs := inputs s; result := result s; vidst := vidst s |}
    end.

  Definition exec (ops : list mop) (s : slot) : slot := fold_left (fun st o => apply o st) ops s.

  Record cfg := { force : bool; dev_rehash : bool; clean_build : bool }.

  (* ---- _cookBuildStep *)
  Definition build_prepare (d : D) (s : slot) : list mop :=
    (if exists_ s then [] else [MMkdir]) ++
    (if negb (exists_ s) || negb (opt_eqb N.eqb (dirst s) (Some d))
     then (if exists_ s then [MResetNone; MPrune] else []) ++ [MReset d] else []).

  Definition build_body (c : cfg) (d : D) (ins : list Hsh) (s : slot) : list mop :=
    if negb (force c) && opt_eqb list_eqb (inputs s) (Some ins)
    then (if clean_build c then [] else [MSetResult])     (* skipped; develop mode re-hashes *)
    else [MDelInputs; MSetTime; MRun d ins (clean_build c); MSetResult; MSetVid d; MSetInputs ins].

  Definition cook_build (c : cfg) (d : D) (ins : list Hsh) (s : slot) : list mop :=
    let p := build_prepare d s in p ++ build_body c d ins (exec p s).

  (* ---- _preparePackageStep + _cookPackageStep (no download / sharing: C07, C15) *)
  Definition package_prepare (d : D) (s : slot) : list mop :=
    let prune := exists_ s && negb (opt_eqb N.eqb (dirst s) (Some d)) in
    (if prune then [MResetNone; MPrune] else []) ++
    (if negb (exists_ s) || prune then [MReset d] else []) ++
    (if exists_ s then [] else [MMkdir]).

  Definition package_body (c : cfg) (d : D) (ins : list Hsh) (s : slot) : list mop :=
    if negb (force c) && opt_eqb list_eqb (inputs s) (Some ins)
    then []
    else [MDelInputs; MSetTime; MRun d ins true; MSetResult; MSetVid d; MSetInputs ins].

  Definition cook_package (c : cfg) (d : D) (ins : list Hsh) (s : slot) : list mop :=
    let p := package_prepare d s in p ++ package_body c d ins (exec p s).

  (* ---- _cookCheckoutStep for script / import checkouts (no SCM switch, no attic: C12).
     [det] = isDeterministic.  The directory state is stored without the variant
     key before the script runs and completely afterwards; the result hash is
     always recomputed.  Source workspaces are never wiped by Bob, so the
     "deterministic scripts" assumption has to be read strictly here: a
     checkout script / import is oblivious to what an earlier variant left
     behind — expressed by evaluating it as on an empty directory. *)
  Definition checkout_body (c : cfg) (det : bool) (d : D) (ins : list Hsh) (s0 s : slot) : list mop :=
    let created := negb (exists_ s0) in
    let stale_result := match result s with Some (RHash h) => negb (N.eqb h (hash (cont s))) | _ => true end in
    if created || force c || negb det || negb (opt_eqb N.eqb (dirst s) (Some d))
       || negb (opt_eqb list_eqb (inputs s) (Some ins)) || stale_result
    then [MClrDir] ++ (match result s with Some _ => [MSetTime] | None => [] end)
         ++ [MRun d ins true; MSetDir d; MSetInputs ins; MSetVid d; MSetResult]
    else [].     (* skipped; the directory is re-hashed but the stored result is only rewritten when it differs *)

  Definition cook_checkout (c : cfg) (det : bool) (d : D) (ins : list Hsh) (s : slot) : list mop :=
    let p := if exists_ s then [] else [MMkdir; MResetEmpty] in
    p ++ checkout_body c det d ins s (exec p s).

  (* does a trace execute the script? *)
  Definition runs (ops : list mop) : bool :=
    existsb (fun o => match o with MRun _ _ _ => true | _ => false end) ops.

  (* crash images: every prefix, and every prefix that stops inside a run *)
  Fixpoint crash_traces (ops : list mop) : list (list mop) :=
    match ops with
    | [] => [[]]
    | o :: r =>
      [] :: (match o with MRun d _ cl => [[MRunCrash d cl]] | _ => [] end)
         ++ map (cons o) (crash_traces r)
    end.

  (* ------------------------------------------------------------------ project level *)
  Inductive kind := KCheckout (det : bool) | KBuild | KPackage.

  Record stepdef := {
    sd_path : N;                   (* workspace directory *)
    sd_kind : kind;
    sd_d : D;
    sd_deps : list N               (* workspaces of the input steps *)
  }.

  Definition project := list stepdef.      (* in dependency order *)
  Definition wstate := N -> slot.

  Definition upd {A} (w : N -> A) (p : N) (x : A) : N -> A :=
    fun q => if N.eqb q p then x else w q.

  Definition res_hash (w : wstate) (p : N) : Hsh :=
    match result (w p) with Some (RHash h) => h | _ => 0%N end.

  Definition cook_step (c : cfg) (w : wstate) (sd : stepdef) : list mop :=
    let ins := map (res_hash w) (sd_deps sd) in
    match sd_kind sd with
    | KCheckout det => cook_checkout c det (sd_d sd) ins (w (sd_path sd))
    | KBuild => cook_build c (sd_d sd) ins (w (sd_path sd))
    | KPackage => cook_package c (sd_d sd) ins (w (sd_path sd))
    end.

  Definition build_step (c : cfg) (w : wstate) (sd : stepdef) : wstate :=
    upd w (sd_path sd) (exec (cook_step c w sd) (w (sd_path sd))).

  Definition build (c : cfg) (P : project) (w : wstate) : wstate := fold_left (build_step c) P w.

  (* what a from-scratch build of P leaves in every workspace *)
  Definition clean_step (cl : N -> content) (sd : stepdef) : N -> content :=
    upd cl (sd_path sd) (Out (sd_d sd) (map (fun p => hash (cl p)) (sd_deps sd))).

  Definition clean (P : project) : N -> content := fold_left clean_step P (fun _ => Empty).

  (* number of script executions of a build *)
  Fixpoint history_runs (c : cfg) (Ps : list project) (w : wstate) : list (list (N * bool)) :=
    match Ps with
    | [] => []
    | P :: r => (fix br (Q : project) (st : wstate) : list (N * bool) :=
                   match Q with
                   | [] => []
                   | sd :: q => (sd_path sd, runs (cook_step c st sd)) :: br q (build_step c st sd)
                   end) P w :: history_runs c r (build c P w)
    end.

  (* the micro-op sequence of every step of every build of a history, as observable kinds
     (compared with the traced persistent-state operations, prunes and script runs of the real builder) *)
  Definition mop_code (o : mop) : N :=
    match o with
    | MMkdir => 1 | MPrune => 2 | MReset _ => 3 | MResetEmpty => 3 | MResetNone => 4 | MDelInputs => 5 | MSetTime => 6
    | MRun _ _ _ => 7 | MRunCrash _ _ => 7 | MSetResult => 8 | MSetVid _ => 9 | MSetInputs _ => 10
    | MSetDir _ => 11 | MClrDir => 12
    end%N.

  Fixpoint history_traces (c : cfg) (Ps : list project) (w : wstate) : list (list (N * list N)) :=
    match Ps with
    | [] => []
    | P :: r => (fix br (Q : project) (st : wstate) : list (N * list N) :=
                   match Q with
                   | [] => []
                   | sd :: q => (sd_path sd, map mop_code (cook_step c st sd)) :: br q (build_step c st sd)
                   end) P w :: history_traces c r (build c P w)
    end.

  Fixpoint build_runs (c : cfg) (P : project) (w : wstate) : list (N * bool) :=
    match P with
    | [] => []
    | sd :: r => (sd_path sd, runs (cook_step c w sd)) :: build_runs c r (build_step c w sd)
    end.
End Hash.

(* an executable stand-in for the directory hash (polynomial, 61-bit modulus) used to RUN the model *)
Definition MODP : N := 2305843009213693951.
Definition hash_poly (c : content) : Hsh :=
  match c with
  | Empty => 1
  | Out d i => (fold_left (fun acc x => (acc * 1000003 + x + 7) mod MODP) i ((d * 31 + 11) mod MODP) + 4)%N
  | Partial d => 2
  | Garbage => 3
  end%N.

Definition dev_cfg : cfg := {| force := false; dev_rehash := true; clean_build := false |}.
Definition release_cfg : cfg := {| force := false; dev_rehash := false; clean_build := true |}.

Fixpoint lookup_run (p : N) (l : list (N * bool)) : option bool :=
  match l with [] => None | (q, b) :: r => if N.eqb p q then Some b else lookup_run p r end.

(* observed decisions (workspace, script ran?) agree with the model's *)
Definition runs_agree (model expected : list (N * bool)) : bool :=
  forallb (fun pb => match lookup_run (fst pb) model with Some b => Bool.eqb b (snd pb) | None => false end) expected.

Fixpoint history_agree (model expected : list (list (N * bool))) : bool :=
  match model, expected with
  | [], [] => true
  | m :: mr, e :: er => runs_agree m e && history_agree mr er
  | _, _ => false
  end.

(* trace agreement: every workspace has the same micro-op kinds in the model and in the observation
   (a workspace missing on one side counts as the empty sequence) *)
Fixpoint lookup_trace (p : N) (l : list (N * list N)) : list N :=
  match l with [] => [] | (q, t) :: r => if N.eqb p q then t else lookup_trace p r end.
Definition trace_agree (model observed : list (N * list N)) : bool :=
  forallb (fun pt => list_eqb (snd pt) (lookup_trace (fst pt) observed)) model &&
  forallb (fun pt => list_eqb (snd pt) (lookup_trace (fst pt) model)) observed.
Fixpoint traces_agree (model observed : list (list (N * list N))) : bool :=
  match model, observed with
  | [], [] => true
  | m :: mr, e :: er => trace_agree m e && traces_agree mr er
  | _, _ => false
  end.
