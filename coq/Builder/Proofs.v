(* Builder — invariants of the cook micro-op sequences at every crash point. *)
From Coq Require Import List Arith Bool Lia.
Require Import BobV.Builder.Model.
Import ListNotations.

Lemma list_eqb_eq a b : list_eqb a b = true <-> a = b.
Proof.
  revert b; induction a as [|x a IH]; intros [|y b]; simpl; split; intro H; try congruence; try reflexivity.
  - apply andb_true_iff in H as [H1 H2]. apply Nat.eqb_eq in H1. apply IH in H2. congruence.
  - inversion H; subst. rewrite Nat.eqb_refl. simpl. now apply IH.
Qed.

Lemma list_eqb_refl a : list_eqb a a = true.
Proof. now apply list_eqb_eq. Qed.

Section Hash.
  Variable hash : content -> Hsh.

  (* ---- invariant of build and package workspaces *)
  Definition InvB (s : slot) : Prop :=
    (exists_ s = false -> cont s = Empty) /\
    cont s <> Garbage /\
    (forall d x, cont s = Out d x -> dirst s = Some d) /\
    (forall d, cont s = Partial d -> dirst s = Some d) /\
    (forall i, inputs s = Some i -> exists d, dirst s = Some d /\ cont s = Out d i).

  Lemma InvB_empty : InvB empty_slot.
  Proof. unfold InvB, empty_slot; simpl. repeat split; try congruence; intros; discriminate. Qed.

  Ltac break :=
    repeat match goal with
           | |- context [if ?b then _ else _] => destruct b eqn:?
           | H : context [if ?b then _ else _] |- _ => destruct b eqn:?
           | |- context [match ?x with _ => _ end] => destruct x eqn:?
           end.

  Ltac eqs :=
    repeat match goal with
           | H : Nat.eqb _ _ = true |- _ => apply Nat.eqb_eq in H; subst
           | H : Nat.eqb _ _ = false |- _ => apply Nat.eqb_neq in H
           | H : list_eqb _ _ = true |- _ => apply list_eqb_eq in H; subst
           | H : Some _ = Some _ |- _ => inversion H; subst; clear H
           | H : Out _ _ = Out _ _ |- _ => inversion H; subst; clear H
           | H : Partial _ = Partial _ |- _ => inversion H; subst; clear H
           end.

  (* one generic step lemma per micro-op that the cook functions emit under InvB *)
  Lemma InvB_mkdir s : InvB s -> exists_ s = false -> InvB (apply hash MMkdir s).
  Proof.
    intros (H1 & H2 & H3 & H4 & H5) E. unfold InvB; simpl. repeat split; auto. intros; discriminate.
  Qed.

  Lemma InvB_prune s : InvB s -> InvB (apply hash MDelInputs (apply hash MPrune s)).
  Proof.
    intros (H1 & H2 & H3 & H4 & H5). unfold InvB; simpl. repeat split; auto; try congruence; intros; discriminate.
  Qed.

  Lemma InvB_reset s d : InvB s -> cont s = Empty -> InvB (apply hash (MReset d) s).
  Proof.
    intros (H1 & H2 & H3 & H4 & H5) E. unfold InvB; simpl. rewrite E. repeat split; auto; try congruence; intros; discriminate.
  Qed.
End Hash.
