(* Builder — invariants of the cook micro-op sequences at every crash point. *)
From Coq Require Import List NArith Arith Bool Lia.
Require Import BobV.Builder.Model.
Import ListNotations.

Lemma list_eqb_eq a b : list_eqb a b = true <-> a = b.
Proof.
  revert b; induction a as [|x a IH]; intros [|y b]; simpl; split; intro H; try congruence; try reflexivity.
  - apply andb_true_iff in H as [H1 H2]. apply N.eqb_eq in H1. apply IH in H2. congruence.
  - inversion H; subst. rewrite N.eqb_refl. simpl. now apply IH.
Qed.

Lemma list_eqb_refl a : list_eqb a a = true.
Proof. now apply list_eqb_eq. Qed.

Lemma opt_nat_eqb_eq a d : opt_eqb N.eqb a (Some d) = true <-> a = Some d.
Proof.
  destruct a as [x|]; simpl; split; intro H; try discriminate.
  - apply N.eqb_eq in H. now subst.
  - inversion H. apply N.eqb_refl.
Qed.

Lemma opt_list_eqb_eq a i : opt_eqb list_eqb a (Some i) = true <-> a = Some i.
Proof.
  destruct a as [x|]; simpl; split; intro H; try discriminate.
  - apply list_eqb_eq in H. now subst.
  - inversion H. apply list_eqb_refl.
Qed.

Section Hash.
  Variable hash : content -> Hsh.

  Notation apply := (apply hash).
  Notation exec := (exec hash).

  Lemma exec_app a b s : exec (a ++ b) s = exec b (exec a s).
  Proof. unfold Model.exec. apply fold_left_app. Qed.

  Lemma crash_traces_app a : forall b t,
    In t (crash_traces (a ++ b)) ->
    In t (crash_traces a) \/ exists t', t = a ++ t' /\ In t' (crash_traces b).
  Proof.
    induction a as [|o a IH]; intros b t H.
    - right. exists t. auto.
    - cbn [app crash_traces] in H. destruct H as [<-|H]; [left; cbn; auto|].
      apply in_app_or in H. destruct H as [H|H].
      + left. cbn [crash_traces]. right. apply in_or_app. left. exact H.
      + apply in_map_iff in H. destruct H as (t0 & <- & H0).
        destruct (IH b t0 H0) as [H1|(t' & -> & H1)].
        * left. cbn [crash_traces]. right. apply in_or_app. right. now apply in_map.
        * right. exists t'. auto.
  Qed.

  Lemma crash_traces_full ops : In ops (crash_traces ops).
  Proof.
    induction ops as [|o r IH]; cbn [crash_traces]; [now left|].
    right. apply in_or_app. right. now apply in_map.
  Qed.

  (* ---- invariant of build and package workspaces *)
  Definition InvB (s : slot) : Prop :=
    (exists_ s = false -> cont s = Empty) /\
    cont s <> Garbage /\
    (forall d x, cont s = Out d x -> dirst s = Some d \/ dirst s = None) /\
    (forall d, cont s = Partial d -> dirst s = Some d \/ dirst s = None) /\
    (forall i, inputs s = Some i ->
       exists d, dirst s = Some d /\ cont s = Out d i /\ result s = Some (RHash (hash (Out d i)))).

  Lemma InvB_empty : InvB empty_slot.
  Proof. unfold InvB, empty_slot; simpl. repeat split; try congruence; intros; discriminate. Qed.

  (* a state in which the step may run: directory exists, recorded digest is d *)
  Definition Ready (d : D) (s : slot) : Prop := InvB s /\ exists_ s = true /\ dirst s = Some d.

  Lemma Ready_cont d s : Ready d s ->
    cont s = Empty \/ (exists x, cont s = Out d x) \/ cont s = Partial d.
  Proof.
    intros ((_ & G & O & P & _) & _ & Hd).
    destruct (cont s) as [|d' x|d'|] eqn:E; auto.
    - right. left. exists x. destruct (O d' x eq_refl) as [H|H]; congruence.
    - right. right. destruct (P d' eq_refl) as [H|H]; congruence.
    - congruence.
  Qed.

  (* invalidating operations keep the invariant *)
  Lemma InvB_noinputs s :
    (exists_ s = false -> cont s = Empty) -> cont s <> Garbage ->
    (forall d x, cont s = Out d x -> dirst s = Some d \/ dirst s = None) ->
    (forall d, cont s = Partial d -> dirst s = Some d \/ dirst s = None) ->
    inputs s = None -> InvB s.
  Proof. intros. unfold InvB. repeat split; auto. intros i Hi. congruence. Qed.

  Lemma InvB_resetnone s : InvB s -> InvB (apply MResetNone s).
  Proof. intros (A & B & _). apply InvB_noinputs; cbn; auto. Qed.

  Lemma InvB_delinputs s : InvB s -> InvB (apply MDelInputs s).
  Proof. intros (A & B & C & E & _). apply InvB_noinputs; cbn; auto. Qed.

  Lemma InvB_settime s : InvB s -> inputs s = None -> InvB (apply MSetTime s).
  Proof. intros (A & B & C & E & _) Hi. apply InvB_noinputs; cbn; auto. Qed.

  Lemma InvB_setvid s d : InvB s -> InvB (apply (MSetVid d) s).
  Proof. intros I; exact I. Qed.

  Lemma InvB_setresult s : InvB s -> InvB (apply MSetResult s).
  Proof.
    intros (A & B & C & E & F). unfold InvB; cbn. repeat split; auto.
    intros i Hi. destruct (F i Hi) as (d & H1 & H2 & H3). exists d. rewrite H2. auto.
  Qed.

  Lemma InvB_mkdir s : InvB s -> exists_ s = false -> InvB (apply MMkdir s).
  Proof.
    intros (A & B & C & E & F) Hx. unfold InvB; cbn. repeat split; auto; intros; discriminate.
  Qed.

  Lemma InvB_prune s : InvB s -> inputs s = None -> InvB (apply MPrune s).
  Proof. intros (A & _) Hi. apply InvB_noinputs; cbn; auto; intros; discriminate. Qed.

  Lemma InvB_reset_empty s d : InvB s -> cont s = Empty -> InvB (apply (MReset d) s).
  Proof. intros (A & _) Hc. apply InvB_noinputs; cbn; auto; rewrite Hc; intros; discriminate. Qed.

  Ltac crash_cases H :=
    cbn [crash_traces app map] in H;
    repeat match type of H with
           | _ \/ _ => destruct H as [H|H]
           | False => contradiction
           | In _ _ => cbn [In app map] in H
           end; subst.

  (* ---- build step: prepare phase *)
  Lemma build_prepare_ok d s : InvB s ->
    (forall t, In t (crash_traces (build_prepare d s)) -> InvB (exec t s)) /\
    Ready d (exec (build_prepare d s) s).
  Proof.
    intros I. unfold build_prepare.
    destruct (exists_ s) eqn:Ex.
    - cbn [negb orb app].
      destruct (opt_eqb N.eqb (dirst s) (Some d)) eqn:Ed; cbn [negb app].
      + split; [intros t Ht; crash_cases Ht; exact I|].
        apply opt_nat_eqb_eq in Ed. repeat split; auto; apply I.
      + assert (I1 := InvB_resetnone s I).
        assert (I2 : InvB (apply MPrune (apply MResetNone s))) by (apply InvB_prune; auto).
        assert (I3 : InvB (apply (MReset d) (apply MPrune (apply MResetNone s)))) by (apply InvB_reset_empty; auto).
        split; [intros t Ht; crash_cases Ht; cbn; auto|].
        split; [exact I3|]. cbn. auto.
    - cbn [negb orb app].
      assert (Hc : cont s = Empty) by (apply I; exact Ex).
      assert (I1 := InvB_mkdir s I Ex).
      assert (I2 : InvB (apply (MReset d) (apply MMkdir s))) by (apply InvB_reset_empty; auto).
      split; [intros t Ht; crash_cases Ht; cbn; auto|].
      split; [exact I2|]. cbn. auto.
  Qed.

  (* ---- the run sequence shared by build and package steps *)
  Definition run_seq (d : D) (ins : list Hsh) (cl : bool) : list mop :=
    [MDelInputs; MSetTime; MRun d ins cl; MSetResult; MSetVid d; MSetInputs ins].

  Lemma run_on_ready d ins (cl : bool) s : Ready d s ->
    run_on d ins (if cl then Empty else cont s) = Out d ins /\
    crash_on d (if cl then Empty else cont s) = Partial d.
  Proof.
    intros R. destruct cl; [cbn; auto|].
    destruct (Ready_cont d s R) as [H|[[x H]|H]]; rewrite H; cbn; rewrite ?N.eqb_refl; auto.
  Qed.

  Lemma run_seq_ok d ins (cl : bool) s : Ready d s ->
    (forall t, In t (crash_traces (run_seq d ins cl)) -> InvB (exec t s)) /\
    let s' := exec (run_seq d ins cl) s in
    Ready d s' /\ cont s' = Out d ins /\ inputs s' = Some ins /\
    result s' = Some (RHash (hash (Out d ins))).
  Proof.
    intros R. pose proof R as ((A & B & C & E & F) & Hx & Hd).
    destruct (run_on_ready d ins cl s R) as [Hr Hk].
    assert (I0 : InvB (apply MDelInputs s)) by (apply InvB_delinputs; apply R).
    assert (I1 : InvB (apply MSetTime (apply MDelInputs s))) by (apply InvB_settime; auto).
    assert (Irun : InvB (apply (MRun d ins cl) (apply MSetTime (apply MDelInputs s)))).
    { apply InvB_noinputs; cbn; rewrite ?Hr; auto; try congruence;
        try (intros; discriminate); try (intros d0 x Hq; inversion Hq; subst; auto). }
    assert (Icr : InvB (apply (MRunCrash d cl) (apply MSetTime (apply MDelInputs s)))).
    { apply InvB_noinputs; cbn; rewrite ?Hk; auto; try congruence;
        try (intros; discriminate); try (intros d0 Hq; inversion Hq; subst; auto). }
    assert (Isr := InvB_setresult _ Irun).
    assert (Isv := InvB_setvid _ d Isr).
    assert (Ifin : InvB (exec (run_seq d ins cl) s)).
    { unfold InvB; cbn. rewrite Hr. repeat split; auto; try congruence;
        try (intros; discriminate); try (intros d0 x Hq; inversion Hq; subst; auto).
      intros i Hi. inversion Hi; subst. exists d. auto. }
    split.
    - intros t Ht. unfold run_seq in Ht. crash_cases Ht; cbn [Model.exec fold_left];
        first [ exact (proj1 R) | exact I0 | exact I1 | exact Icr | exact Irun | exact Isr | exact Isv | exact Ifin ].
    - cbn zeta. split; [split; [exact Ifin|cbn; auto]|]. cbn. rewrite Hr. auto.
  Qed.

  (* ---- build step *)
  Lemma build_body_ok c d ins s : Ready d s ->
    (forall t, In t (crash_traces (build_body c d ins s)) -> InvB (exec t s)) /\
    let s' := exec (build_body c d ins s) s in
    Ready d s' /\ cont s' = Out d ins /\ inputs s' = Some ins /\
    result s' = Some (RHash (hash (Out d ins))).
  Proof.
    intros R. unfold build_body.
    destruct (negb (force c) && opt_eqb list_eqb (inputs s) (Some ins)) eqn:Sk.
    - apply andb_true_iff in Sk as [_ Sk]. apply opt_list_eqb_eq in Sk.
      pose proof R as ((A & B & C & E & F) & Hx & Hd).
      destruct (F ins Sk) as (d' & H1 & H2 & H3).
      assert (d' = d) by congruence. subst d'.
      destruct (clean_build c).
      + split; [intros t Ht; crash_cases Ht; apply R|]. cbn. auto.
      + assert (Isr := InvB_setresult _ (proj1 R)).
        split; [intros t Ht; crash_cases Ht; cbn; auto; apply R|].
        split; [split; [exact Isr | cbn; auto] | cbn; rewrite H2; auto].
    - apply run_seq_ok. exact R.
  Qed.

  Lemma cook_build_ok c d ins s : InvB s ->
    (forall t, In t (crash_traces (cook_build hash c d ins s)) -> InvB (exec t s)) /\
    let s' := exec (cook_build hash c d ins s) s in
    Ready d s' /\ cont s' = Out d ins /\ inputs s' = Some ins /\
    result s' = Some (RHash (hash (Out d ins))).
  Proof.
    intros I. unfold cook_build. cbn zeta.
    destruct (build_prepare_ok d s I) as [P1 P2].
    destruct (build_body_ok c d ins _ P2) as [B1 B2].
    split.
    - intros t Ht. apply crash_traces_app in Ht. destruct Ht as [Ht|(t' & -> & Ht)].
      + now apply P1.
      + rewrite exec_app. now apply B1.
    - rewrite exec_app. exact B2.
  Qed.

  (* an immediately repeated build does not run the script *)
  Lemma cook_build_noop c d ins s :
    force c = false -> Ready d s -> inputs s = Some ins ->
    runs (cook_build hash c d ins s) = false.
  Proof.
    intros Hf (I & Hx & Hd) Hi. unfold cook_build, build_prepare. rewrite Hx. cbn [negb orb app].
    assert (E : opt_eqb N.eqb (dirst s) (Some d) = true) by (apply opt_nat_eqb_eq; exact Hd).
    rewrite E. cbn [negb app Model.exec fold_left]. unfold build_body. rewrite Hf.
    assert (E2 : opt_eqb list_eqb (inputs s) (Some ins) = true) by (apply opt_list_eqb_eq; exact Hi).
    rewrite E2. cbn. destruct (clean_build c); reflexivity.
  Qed.

  (* ---- package step *)
  Lemma package_prepare_ok d s : InvB s ->
    (forall t, In t (crash_traces (package_prepare d s)) -> InvB (exec t s)) /\
    Ready d (exec (package_prepare d s) s).
  Proof.
    intros I. unfold package_prepare.
    destruct (exists_ s) eqn:Ex.
    - cbn [negb orb andb app].
      destruct (opt_eqb N.eqb (dirst s) (Some d)) eqn:Ed; cbn [negb app].
      + split; [intros t Ht; crash_cases Ht; exact I|].
        apply opt_nat_eqb_eq in Ed. repeat split; auto; apply I.
      + assert (I1 := InvB_resetnone s I).
        assert (I2 : InvB (apply MPrune (apply MResetNone s))) by (apply InvB_prune; auto).
        assert (I3 : InvB (apply (MReset d) (apply MPrune (apply MResetNone s)))) by (apply InvB_reset_empty; auto).
        split; [intros t Ht; crash_cases Ht; cbn; auto|].
        split; [exact I3|]. cbn. auto.
    - cbn [negb orb andb app].
      assert (Hc : cont s = Empty) by (apply I; exact Ex).
      assert (I1 : InvB (apply (MReset d) s)) by (apply InvB_reset_empty; auto).
      assert (I2 : InvB (apply MMkdir (apply (MReset d) s))) by (apply InvB_mkdir; auto).
      split; [intros t Ht; crash_cases Ht; cbn; auto|].
      split; [exact I2|]. cbn. auto.
  Qed.

  Lemma package_body_ok c d ins s : Ready d s ->
    (forall t, In t (crash_traces (package_body c d ins s)) -> InvB (exec t s)) /\
    let s' := exec (package_body c d ins s) s in
    Ready d s' /\ cont s' = Out d ins /\ inputs s' = Some ins /\
    result s' = Some (RHash (hash (Out d ins))).
  Proof.
    intros R. unfold package_body.
    destruct (negb (force c) && opt_eqb list_eqb (inputs s) (Some ins)) eqn:Sk.
    - apply andb_true_iff in Sk as [_ Sk]. apply opt_list_eqb_eq in Sk.
      pose proof R as ((A & B & C & E & F) & Hx & Hd).
      destruct (F ins Sk) as (d' & H1 & H2 & H3).
      assert (d' = d) by congruence. subst d'.
      split; [intros t Ht; crash_cases Ht; apply R|]. cbn. auto.
    - apply (run_seq_ok d ins true s R).
  Qed.

  Lemma cook_package_ok c d ins s : InvB s ->
    (forall t, In t (crash_traces (cook_package hash c d ins s)) -> InvB (exec t s)) /\
    let s' := exec (cook_package hash c d ins s) s in
    Ready d s' /\ cont s' = Out d ins /\ inputs s' = Some ins /\
    result s' = Some (RHash (hash (Out d ins))).
  Proof.
    intros I. unfold cook_package. cbn zeta.
    destruct (package_prepare_ok d s I) as [P1 P2].
    destruct (package_body_ok c d ins _ P2) as [B1 B2].
    split.
    - intros t Ht. apply crash_traces_app in Ht. destruct Ht as [Ht|(t' & -> & Ht)].
      + now apply P1.
      + rewrite exec_app. now apply B1.
    - rewrite exec_app. exact B2.
  Qed.

  Lemma cook_package_noop c d ins s :
    force c = false -> Ready d s -> inputs s = Some ins ->
    runs (cook_package hash c d ins s) = false.
  Proof.
    intros Hf (I & Hx & Hd) Hi. unfold cook_package, package_prepare. rewrite Hx.
    assert (E : opt_eqb N.eqb (dirst s) (Some d) = true) by (apply opt_nat_eqb_eq; exact Hd).
    rewrite E. cbn [negb orb andb app Model.exec fold_left]. unfold package_body. rewrite Hf.
    assert (E2 : opt_eqb list_eqb (inputs s) (Some ins) = true) by (apply opt_list_eqb_eq; exact Hi).
    rewrite E2. reflexivity.
  Qed.

  (* ---- checkout step *)
  Definition InvC (s : slot) : Prop :=
    forall d i h, dirst s = Some d -> inputs s = Some i -> result s = Some (RHash h) ->
                  h = hash (cont s) -> cont s = Out d i.

  Lemma InvC_empty : InvC empty_slot.
  Proof. unfold InvC, empty_slot; cbn. intros; discriminate. Qed.

  Lemma InvC_nodir s : dirst s = None -> InvC s.
  Proof. unfold InvC. intros H d i h Hd. congruence. Qed.

  Lemma InvC_nores s : (forall h, result s <> Some (RHash h)) -> InvC s.
  Proof. unfold InvC. intros H d i h _ _ Hr. exfalso. eapply H; eauto. Qed.

  Definition co_run_seq (pre : list mop) (d : D) (ins : list Hsh) : list mop :=
    [MClrDir] ++ pre ++ [MRun d ins true; MSetDir d; MSetInputs ins; MSetVid d; MSetResult].

  Lemma co_run_seq_ok d ins s pre : InvC s ->
    (pre = [MSetTime] \/ (pre = [] /\ result s = None)) ->
    (forall t, In t (crash_traces (co_run_seq pre d ins)) -> InvC (exec t s)) /\
    let s' := exec (co_run_seq pre d ins) s in
    InvC s' /\ cont s' = Out d ins /\ dirst s' = Some d /\ inputs s' = Some ins /\
    result s' = Some (RHash (hash (Out d ins))) /\ exists_ s' = exists_ s.
  Proof.
    intros I Hpre.
    assert (Ifin : InvC (exec (co_run_seq pre d ins) s)).
    { destruct Hpre as [->|[-> _]]; unfold InvC; cbn; intros d0 i0 h0 H1 H2 _ _; congruence. }
    split.
    - intros t Ht. destruct Hpre as [->|[-> Hn]]; unfold co_run_seq in Ht; crash_cases Ht;
        cbn [Model.exec fold_left];
        first [ exact I | exact Ifin
              | apply InvC_nodir; cbn; reflexivity
              | apply InvC_nores; cbn; intros h; try rewrite Hn; discriminate ].
    - cbn zeta. split; [exact Ifin|]. destruct Hpre as [->|[-> _]]; cbn; auto 10.
  Qed.

  Lemma cook_checkout_ok c det d ins s : InvC s ->
    (forall t, In t (crash_traces (cook_checkout hash c det d ins s)) -> InvC (exec t s)) /\
    let s' := exec (cook_checkout hash c det d ins s) s in
    InvC s' /\ cont s' = Out d ins /\ result s' = Some (RHash (hash (Out d ins))) /\
    dirst s' = Some d /\ inputs s' = Some ins /\ exists_ s' = true.
  Proof.
    intros I. unfold cook_checkout. cbn zeta.
    set (p := if exists_ s then [] else [MMkdir; MResetEmpty]).
    set (s1 := exec p s).
    assert (Hp : (forall t, In t (crash_traces p) -> InvC (exec t s)) /\ InvC s1 /\ exists_ s1 = true /\
                 (exists_ s = false -> result s1 = None)).
    { subst p s1. destruct (exists_ s) eqn:Ex.
      - split; [intros t Ht; crash_cases Ht; exact I|]. cbn. repeat split; auto. discriminate.
      - split.
        + intros t Ht. crash_cases Ht; cbn [Model.exec fold_left]; try exact I;
            try (apply InvC_nodir; reflexivity);
            try (apply InvC_nores; cbn; intros; discriminate).
        + cbn. repeat split; auto. apply InvC_nodir. reflexivity. }
    destruct Hp as (P1 & I1 & Hx1 & Hr1).
    unfold checkout_body.
    match goal with |- context [if ?b then _ else _] => destruct b eqn:Dec end.
    - (* the script runs *)
      assert (Hpre : (match result s1 with Some _ => [MSetTime] | None => [] end) = [MSetTime] \/
                     ((match result s1 with Some _ => [MSetTime] | None => [] end) = [] /\ result s1 = None)).
      { destruct (result s1); auto. }
      destruct (co_run_seq_ok d ins s1 _ I1 Hpre) as [B1 B2]. unfold co_run_seq in B1, B2.
      split.
      + intros t Ht. apply crash_traces_app in Ht. destruct Ht as [Ht|(t' & -> & Ht)].
        * now apply P1.
        * rewrite exec_app. now apply B1.
      + rewrite exec_app. cbn zeta in B2. destruct B2 as (A1 & A2 & A3 & A4 & A5 & A6).
        repeat split; auto. fold s1. congruence.
    - (* skipped: only the result hash is refreshed *)
      repeat (apply orb_false_iff in Dec; destruct Dec as [Dec ?]).
      match goal with Hq : negb (opt_eqb N.eqb _ _) = false |- _ => apply negb_false_iff, opt_nat_eqb_eq in Hq; rename Hq into Hd end.
      match goal with Hq : negb (opt_eqb list_eqb _ _) = false |- _ => apply negb_false_iff, opt_list_eqb_eq in Hq; rename Hq into Hi end.
      assert (Hr : result s1 = Some (RHash (hash (cont s1)))).
      { match goal with Hq : match result s1 with _ => _ end = false |- _ =>
          destruct (result s1) as [[h|]|]; try discriminate;
          apply negb_false_iff, N.eqb_eq in Hq; now subst end. }
      assert (Hc : cont s1 = Out d ins) by (eapply I1; eauto).
      split.
      + intros t Ht. apply crash_traces_app in Ht. destruct Ht as [Ht|(t' & -> & Ht)].
        * now apply P1.
        * rewrite exec_app. fold s1. crash_cases Ht; cbn [Model.exec fold_left]; exact I1.
      + rewrite exec_app. fold s1. cbn. rewrite Hr, Hc. repeat split; auto.
  Qed.

  Lemma cook_checkout_noop c d ins s :
    force c = false -> exists_ s = true -> dirst s = Some d -> inputs s = Some ins ->
    result s = Some (RHash (hash (cont s))) ->
    runs (cook_checkout hash c true d ins s) = false.
  Proof.
    intros Hf Hx Hd Hi Hr. unfold cook_checkout. rewrite Hx. cbn [app Model.exec fold_left].
    unfold checkout_body. rewrite Hx, Hf, Hd, Hi, Hr. cbn [negb orb opt_eqb].
    rewrite ?N.eqb_refl, ?list_eqb_refl. cbn. rewrite ?N.eqb_refl. reflexivity.
  Qed.

  (* ------------------------------------------------------------------ project level *)
  Variable is_src : N -> bool.      (* which workspace directories are source (checkout) workspaces *)

  Definition InvP (p : N) (s : slot) : Prop := if is_src p then InvC s else InvB s.
  Definition AllInv (w : wstate) : Prop := forall p, InvP p (w p).

  Definition kind_ok (sd : stepdef) : Prop :=
    match sd_kind sd with KCheckout _ => is_src (sd_path sd) = true | _ => is_src (sd_path sd) = false end.

  Lemma AllInv_upd w p s : AllInv w -> InvP p s -> AllInv (upd w p s).
  Proof.
    intros A I q. unfold upd. destruct (N.eqb q p) eqn:E; [apply N.eqb_eq in E; now subst|apply A].
  Qed.

  (* one step: every crash image keeps every workspace's invariant; afterwards the
     workspace holds the run's output for the current inputs *)
  Lemma cook_step_ok c w sd : AllInv w -> kind_ok sd ->
    (forall t, In t (crash_traces (cook_step hash c w sd)) ->
               AllInv (upd w (sd_path sd) (exec t (w (sd_path sd))))) /\
    let w' := build_step hash c w sd in
    AllInv w' /\
    cont (w' (sd_path sd)) = Out (sd_d sd) (map (res_hash w) (sd_deps sd)) /\
    result (w' (sd_path sd)) = Some (RHash (hash (Out (sd_d sd) (map (res_hash w) (sd_deps sd))))).
  Proof.
    intros A K. pose proof (A (sd_path sd)) as Ip. unfold InvP, kind_ok in *.
    unfold build_step, cook_step. cbn zeta.
    destruct (sd_kind sd) as [det| |]; rewrite K in Ip.
    - destruct (cook_checkout_ok c det (sd_d sd) (map (res_hash w) (sd_deps sd)) _ Ip) as [C1 C2].
      cbn zeta in C2. destruct C2 as (C2 & C3 & C4 & _).
      split; [intros t Ht; apply AllInv_upd; auto; unfold InvP; rewrite K; auto|].
      split; [apply AllInv_upd; auto; unfold InvP; rewrite K; auto|].
      unfold upd. rewrite N.eqb_refl. auto.
    - destruct (cook_build_ok c (sd_d sd) (map (res_hash w) (sd_deps sd)) _ Ip) as [C1 C2].
      cbn zeta in C2. destruct C2 as ((C2 & _) & C3 & _ & C4).
      split; [intros t Ht; apply AllInv_upd; auto; unfold InvP; rewrite K; auto|].
      split; [apply AllInv_upd; auto; unfold InvP; rewrite K; auto|].
      unfold upd. rewrite N.eqb_refl. auto.
    - destruct (cook_package_ok c (sd_d sd) (map (res_hash w) (sd_deps sd)) _ Ip) as [C1 C2].
      cbn zeta in C2. destruct C2 as ((C2 & _) & C3 & _ & C4).
      split; [intros t Ht; apply AllInv_upd; auto; unfold InvP; rewrite K; auto|].
      split; [apply AllInv_upd; auto; unfold InvP; rewrite K; auto|].
      unfold upd. rewrite N.eqb_refl. auto.
  Qed.

  (* well-formed project: distinct workspaces, inputs are produced earlier *)
  Fixpoint wf_from (seen : list N) (P : project) : Prop :=
    match P with
    | [] => True
    | sd :: r => ~ In (sd_path sd) seen /\ (forall q, In q (sd_deps sd) -> In q seen) /\ kind_ok sd /\
                 wf_from (sd_path sd :: seen) r
    end.
  Definition wf (P : project) : Prop := wf_from [] P.

  (* [Good seen w cl]: the workspaces built so far hold the clean content and an accurate result hash *)
  Definition Good (seen : list N) (w : wstate) (cl : N -> content) : Prop :=
    forall p, In p seen -> cont (w p) = cl p /\ result (w p) = Some (RHash (hash (cl p))).

  Lemma build_from_good c : forall P seen w cl,
    AllInv w -> Good seen w cl -> wf_from seen P ->
    let w' := fold_left (build_step hash c) P w in
    let cl' := fold_left (clean_step hash) P cl in
    AllInv w' /\ Good (rev (map sd_path P) ++ seen) w' cl'.
  Proof.
    induction P as [|sd P IH]; intros seen w cl A G W; cbn zeta.
    - cbn. auto.
    - cbn [wf_from] in W. destruct W as (Wn & Wd & Wk & Wr).
      cbn [fold_left].
      destruct (cook_step_ok c w sd A Wk) as [_ S]. cbn zeta in S. destruct S as (A' & Sc & Sr).
      assert (Eins : map (res_hash w) (sd_deps sd) = map (fun p => hash (cl p)) (sd_deps sd)).
      { apply map_ext_in. intros q Hq. unfold res_hash. destruct (G q (Wd q Hq)) as [_ ->]. reflexivity. }
      assert (G' : Good (sd_path sd :: seen) (build_step hash c w sd) (clean_step hash cl sd)).
      { intros q [<-|Hq].
        - rewrite Sc, Sr, Eins. unfold clean_step, upd. rewrite N.eqb_refl. auto.
        - assert (N : N.eqb q (sd_path sd) = false) by (apply N.eqb_neq; intros ->; auto).
          unfold build_step, clean_step, upd. rewrite N. apply G. exact Hq. }
      specialize (IH (sd_path sd :: seen) _ _ A' G' Wr). cbn zeta in IH.
      destruct IH as [IA IG]. split; [exact IA|].
      cbn [map rev]. rewrite <- app_assoc. exact IG.
  Qed.

  Lemma Good_nil w cl : Good [] w cl.
  Proof. intros p []. Qed.

  Lemma build_correct_proof c P w :
    AllInv w -> wf P ->
    AllInv (build hash c P w) /\
    forall sd, In sd P ->
      cont (build hash c P w (sd_path sd)) = clean hash P (sd_path sd) /\
      result (build hash c P w (sd_path sd)) = Some (RHash (hash (clean hash P (sd_path sd)))).
  Proof.
    intros A W. destruct (build_from_good c P [] w (fun _ => Empty) A (Good_nil _ _) W) as [A' G].
    cbn zeta in *. split; [exact A'|]. intros sd Hsd. apply G. rewrite app_nil_r.
    apply in_rev. rewrite rev_involutive. now apply in_map.
  Qed.

  (* any history of projects, then the final one *)
  Lemma history_correct_proof c (Ps : list project) P w :
    AllInv w -> Forall wf Ps -> wf P ->
    let w' := build hash c P (fold_left (fun st Q => build hash c Q st) Ps w) in
    forall sd, In sd P -> cont (w' (sd_path sd)) = clean hash P (sd_path sd).
  Proof.
    intros A F W. cbn zeta.
    assert (A' : AllInv (fold_left (fun st Q => build hash c Q st) Ps w)).
    { revert w A. induction F as [|Q Ps Hq F IH]; intros w A; cbn [fold_left]; [exact A|].
      apply IH. apply (build_correct_proof c Q w A Hq). }
    intros sd Hsd. apply (build_correct_proof c P _ A' W). exact Hsd.
  Qed.

  (* crash anywhere inside a build: the image still satisfies every invariant *)
  Lemma crash_image_inv_proof c P1 sd w t :
    AllInv w -> wf_from [] (P1 ++ [sd]) ->
    In t (crash_traces (cook_step hash c (build hash c P1 w) sd)) ->
    AllInv (upd (build hash c P1 w) (sd_path sd) (exec t (build hash c P1 w (sd_path sd)))).
  Proof.
    intros A W Ht.
    assert (A1 : AllInv (build hash c P1 w) /\ kind_ok sd).
    { clear Ht. unfold build. revert w A W. generalize (@nil N).
      induction P1 as [|x P1 IH]; intros seen w A W; cbn [app wf_from fold_left] in *.
      - split; [exact A|]. apply W.
      - destruct W as (W1 & W2 & W3 & W4).
        destruct (cook_step_ok c w x A W3) as [_ (Ax & _)].
        exact (IH _ _ Ax W4). }
    destruct A1 as [A1 K]. apply (cook_step_ok c _ sd A1 K). exact Ht.
  Qed.
End Hash.
