(* C18 — property theorems.  This file contains only statements, each closed
   by [exact] of a lemma from Proofs.v, and non-vacuity examples.

   Reading guide.  [g] is a package graph (nodes numbered topologically, root
   0), [sv] the string value of a string expression at a package (arbitrary),
   [holds]/[sem_path] the declarative XPath-like semantics of predicates and
   paths (Model.v, last section).  The model functions are transliterations of
   pym/bob/pathspec.py and are compared with it on every run:
     norm_path     LocationPath.__init__ rewriting
     pred_back / path_back   <predicate>.evalBackward / LocationPath.evalBackward
     eval_forward  LocationPath.evalForward   (nodes, valid) or the error raised
     frn           PackageSet.__findResultNodes
     query_tree    PackageSet.queryTreePath after parsing                      *)
From Coq Require Import List NArith Bool Arith.
Require Import BobV.Gen.ConstsC18 BobV.C18.Model BobV.C18.Proofs.
Import ListNotations.
Local Open Scope nat_scope.

(* The worklist loops of the (direct-)descendant and ancestor axes compute
   exactly the transitive closure of the (direct) dependency relation (this
   includes "the fuel S (length g) is enough"). *)
Theorem axis_closure_correct : forall g, wf_graph g -> forall ind ns m,
  (In m (ax_desc g ind ns) <-> exists n, In n ns /\ tc (edge g ind) n m) /\
  (In m (ax_anc g ind ns) <-> exists n, In n ns /\ tc (edge g ind) m n).
Proof. exact axis_closure_correct_proof. Qed.

(* Backward evaluation (used for every predicate) is the declarative meaning:
   a predicate is computed as the set of packages at which it holds, a path as
   the set of packages from which it selects something; absolute paths inside
   predicates, negation and string tests included. *)
Theorem eval_backward_correct : forall g sv, wf_graph g ->
  (forall p n, In n (pred_back g sv p) <-> n < length g /\ holds g sv p n) /\
  (forall q n, In n (path_back g sv q) <-> n < length g /\ exists m, sem_path g sv q n m).
Proof. exact back_correct. Qed.

(* Forward evaluation returns exactly the packages selected step by step from
   the root; it raises only if that set is empty. *)
Theorem eval_forward_correct : forall g sv, wf_graph g -> forall mode q,
  match eval_forward g sv mode q with
  | FOk ns _ => forall m, In m ns <-> sem_path g sv q root m
  | _ => forall m, ~ sem_path g sv q root m
  end.
Proof. exact eval_forward_correct_proof. Qed.

(* The rewriting done when a path is constructed ('//' expansion, removal of
   '.', fusion into the descendant axis, also inside predicates) keeps the
   meaning. *)
Theorem normalize_sem : forall g sv q n m,
  sem_path g sv (norm_path q) n m <-> sem_path g sv q n m.
Proof. exact normalize_sem_proof. Qed.

(* queryTreePath: every reported (stack, package) is a real path from the root
   to a package that the query selects ... *)
Theorem result_paths_sound : forall g sv, wf_graph g -> forall mode q qa found,
  query_tree g sv mode q qa = QOk found ->
  forall stk m, In (stk, m) found -> real_path g root stk m /\ sem_path g sv q root m.
Proof. exact query_tree_sound_proof. Qed.

(* ... and every selected package is reported, with and without queryAll
   (the set of packages returned equals the declarative set). *)
Theorem result_paths_complete : forall g sv, wf_graph g -> forall mode q qa found,
  query_tree g sv mode q qa = QOk found ->
  forall m, sem_path g sv q root m -> exists stk, In (stk, m) found.
Proof. exact query_tree_complete_proof. Qed.

(* Without queryAll every package is reported once. *)
Theorem result_reported_once : forall g sv mode q found,
  query_tree g sv mode q false = QOk found -> NoDup (map snd found).
Proof. exact query_tree_once_proof. Qed.

(* An error is raised only for queries that select nothing. *)
Theorem error_only_when_empty : forall g sv, wf_graph g -> forall mode q qa,
  query_tree g sv mode q qa = QNotFound \/ query_tree g sv mode q qa = QNoMatch ->
  forall m, ~ sem_path g sv q root m.
Proof. exact query_tree_error_proof. Qed.

(* PARTIAL.  The third clause of the property ("each result is reported with a
   real path that passes through the intermediate steps of the query") holds
   only in this weak form: after evalForward every context package is
   connected to the root by a path that stays inside the node set 'valid'
   (what __findIntermediateNodes and __findReachableSubset have to guarantee),
   and reported stacks never leave 'valid'.  The full statement and what is
   missing are given with result_paths_through_steps_refuted below. *)
Theorem result_paths_through_steps_partial : forall g sv, wf_graph g -> forall mode q,
  match eval_forward g sv mode q with
  | FOk ns valid =>
      (forall m, In m ns -> exists stk, real_path g root stk m /\ forall x, In x stk -> In x valid) /\
      (forall qa stk m, In (stk, m) (fst (frn g qa (S (length g)) root [] (valid, ns))) ->
                        forall x, In x stk -> In x valid)
  | _ => True
  end.
Proof. exact inside_valid_proof. Qed.

(* Empty results: nullset never raises; nullfail never returns an empty set;
   nullglob never raises "matched no packages", and for a query without
   wildcard, predicate and multi-hop axis it never returns an empty set
   (such a query fails with "not found" instead). *)
Theorem empty_mode_table : forall g sv q,
  (exists ns v, eval_forward g sv NullSet q = FOk ns v) /\
  (forall ns v, eval_forward g sv NullFail q = FOk ns v -> ns <> []) /\
  (forall k, eval_forward g sv NullGlob q <> FNoMatch k) /\
  (simple_path q = true -> forall ns v, eval_forward g sv NullGlob q = FOk ns v -> ns <> []).
Proof. exact empty_mode_table_proof. Qed.

(* Name patterns: only the star is special. *)
Theorem glob_match_spec : forall pat s, glob pat s = true <-> gmatch pat s.
Proof. exact glob_match_spec_proof. Qed.

(* ------------------------------------------------------------------ "passes through the intermediate steps"
   Full (strict) statement, FALSE of the faithful model and of the implementation
   (known finding F30):
       forall g sv mode q qa found, wf_graph g -> query_tree g sv mode q qa = QOk found ->
         (forall stk m, In (stk, m) found -> witness_b g sv q root stk = true) /\
         (qa = true -> forall stk, witness_b g sv q root stk = true -> exists m, In (stk, m) found)
   What is proved instead is [result_paths_through_steps_partial] above: reported
   stacks are real paths to selected packages that stay inside the node set
   'valid' collected by evalForward, in which every context package stays
   connected to the root.  Missing: 'valid' is only a node set, so (1) a reported
   path may use an edge between two of its nodes that no step of the query
   walks, and (2) the shortcut 'old.issuperset(new)' of __findIntermediateNodes
   skips the nodes between two context packages. *)
(* witness (Proofs.v, g_f30a_w): a depends on zb and c, zb depends on c;
   a/zb/c is answered with the path a/c, which does not pass through zb *)
Theorem result_paths_through_steps_refuted :
  exists g sv mode q qa found stk m,
    wf_graph g /\ query_tree g sv mode q qa = QOk found /\ In (stk, m) found /\
    witness_b g sv q root stk = false.
Proof. exact result_paths_through_steps_refuted_proof. Qed.

(* witness (g_f30b_w): root -> a -> w -> b, root -> b;  */descendant@b : the only
   witness path a/w/b is missing even with queryAll (and the reported path b
   is no witness) *)
Theorem queryall_reports_every_witness_refuted :
  exists g sv mode q found stk,
    wf_graph g /\ query_tree g sv mode q true = QOk found /\
    witness_b g sv q root stk = true /\ forall m, ~ In (stk, m) found.
Proof. exact queryall_reports_every_witness_refuted_proof. Qed.

(* DESIGN's reading "every node of valid lies on a root path that decomposes
   along the query steps" is false as well: root -> a -> x, root -> b -> a,
   query */x : b stays in valid (it reaches x through a), but no witness path
   passes through b *)
Example valid_nodes_on_witness_paths_refuted :
  let g := [ {| n_name := []%N;     n_kids := [(1, true); (2, true)]; n_env := [] |};
             {| n_name := [98]%N;   n_kids := [(2, true)];            n_env := [] |};
             {| n_name := [97]%N;   n_kids := [(3, true)];            n_env := [] |};
             {| n_name := [120]%N;  n_kids := [];                     n_env := [] |} ] in
  let q := PCons false AChild [42]%N PNone (PCons false AChild [120]%N PNone PNil) in
  wf_graphb g = true /\
  (exists ns valid, eval_forward g (sval_impl g) NullGlob q = FOk ns valid /\ In 1 valid) /\
  existsb (fun stk => memb 1 stk && witness_b g (sval_impl g) q root stk) (paths_from g 4 root) = false /\
  existsb (fun stk => witness_b g (sval_impl g) q root stk) (paths_from g 4 root) = true.
Proof.
  split; [vm_compute; reflexivity|]. split; [|split; vm_compute; reflexivity].
  eexists. eexists. split; [vm_compute; reflexivity|]. vm_compute. auto.
Qed.

(* ------------------------------------------------------------------ non-vacuity: a concrete graph
        root -> a1 -> b -> a2        names: 0 "", 1 "a1", 2 "b", 3 "lib", 4 "a2"
        root -> lib -> a2            a1 -> lib is an indirect (provided) dependency
        a1 ..> lib                                                                  *)
Definition g_ex : graph := [
  {| n_name := []%N;                   n_kids := [(1, true); (3, true)];  n_env := [] |};
  {| n_name := [97; 49]%N;             n_kids := [(2, true); (3, false)]; n_env := [([76]%N, [71; 80; 76]%N)] |};
  {| n_name := [98]%N;                 n_kids := [(4, true)];             n_env := [] |};
  {| n_name := [108; 105; 98]%N;       n_kids := [(4, true)];             n_env := [([76]%N, [77; 73; 84]%N)] |};
  {| n_name := [97; 50]%N;             n_kids := [];                      n_env := [([76]%N, [71; 80; 76]%N)] |} ].

Example g_ex_wellformed : wf_graph g_ex.
Proof. apply wf_graphb_sound. vm_compute. reflexivity. Qed.

(* //a*  : a2 is only reachable through another match (a1) and a non-matching
   package (b); all four paths are reported with queryAll, one per package without *)
Example result_paths_nonvacuous :
  let q := PCons true AChild [97; 42]%N PNone PNil in
  query_tree g_ex (sval_impl g_ex) NullGlob q true =
    QOk [([1], 1); ([1; 2; 4], 4); ([1; 3; 4], 4); ([3; 4], 4)] /\
  query_tree g_ex (sval_impl g_ex) NullGlob q false = QOk [([1], 1); ([1; 2; 4], 4)] /\
  sem_path g_ex (sval_impl g_ex) q root 4.
Proof.
  split; [vm_compute; reflexivity|]. split; [vm_compute; reflexivity|].
  pose proof (eval_forward_correct g_ex (sval_impl g_ex) g_ex_wellformed NullSet
                (PCons true AChild [97; 42]%N PNone PNil)) as H.
  remember (eval_forward g_ex (sval_impl g_ex) NullSet (PCons true AChild [97; 42]%N PNone PNil)) as r eqn:E.
  vm_compute in E. subst r. apply (proj1 (H 4)). vm_compute. auto.
Qed.

(* direct-descendant excludes the provided edge; a nested predicate with an
   absolute path, negation and a string comparison:
       //*[ !(b) && /a1/lib && "${L}" == 'GPL' ]      selects a2 only *)
Example eval_backward_nonvacuous :
  let p := PAnd (PAnd (PNot (PPath false (PCons false AChild [98]%N PNone PNil)))
                      (PPath true (PCons false AChild [97; 49]%N PNone (PCons false AChild [108; 105; 98]%N PNone PNil))))
                (PCmp OEq (SVar [76]%N) (SLit [71; 80; 76]%N)) in
  pred_back g_ex (sval_impl g_ex) p = [4] /\
  ax_desc g_ex false [1] = [2; 4] /\ ax_desc g_ex true [1] = [2; 3; 4] /\ ax_anc g_ex false [4] = [2; 3; 1; 0].
Proof. vm_compute. auto. Qed.

Example normalize_nonvacuous :    (* .//./lib//a2  ->  descendant@lib/descendant@a2 *)
  norm_path (PCons false ASelf [42]%N PNone (PCons true ASelf [42]%N PNone
            (PCons false AChild [108; 105; 98]%N PNone (PCons true AChild [97; 50]%N PNone PNil)))) =
  PCons false ADesc [108; 105; 98]%N PNone (PCons false ADesc [97; 50]%N PNone PNil).
Proof. vm_compute. reflexivity. Qed.

Example empty_mode_nonvacuous :   (* zz : not found unless nullset;  z* : empty set, error only with nullfail *)
  let zz := PCons false AChild [122; 122]%N PNone PNil in
  let zs := PCons false AChild [122; 42]%N PNone PNil in
  eval_forward g_ex (sval_impl g_ex) NullGlob zz = FNotFound 1 /\
  eval_forward g_ex (sval_impl g_ex) NullSet zz = FOk [] [] /\
  eval_forward g_ex (sval_impl g_ex) NullGlob zs = FOk [] [] /\
  eval_forward g_ex (sval_impl g_ex) NullFail zs = FNoMatch 1 /\
  simple_path zz = true /\ simple_path zs = false.
Proof. vm_compute. auto 10. Qed.

Example glob_nonvacuous :
  glob [97; 42; 50]%N [97; 49; 50]%N = true /\ glob [42; 98; 42]%N [108; 105; 98]%N = true /\
  glob [97; 42]%N [98; 97]%N = false /\ gmatch [97; 42]%N ([97]%N ++ [49; 50]%N).
Proof. split; [|split; [|split]]; try (vm_compute; reflexivity). apply gm_char; [discriminate|]. apply (gm_star [] [49; 50]%N []). constructor. Qed.

(* tie to the current source (tables regenerated from pathspec.py on every run):
   the model has exactly the axes the grammar accepts and the two evaluators
   dispatch on, and the star is the only fnmatch metacharacter (of * ? [ ] !)
   a name test can contain *)
Example source_tables_tie :
  same_strs (map axis_name all_axes) AXIS_KEYWORDS = true /\
  map axis_name all_axes = AXIS_FORWARD /\ AXIS_BACKWARD = AXIS_FORWARD /\
  mem_N ch_star NODETEST_EXTRA = true /\
  forallb (fun c => negb (mem_N c NODETEST_EXTRA)) [63; 91; 93; 33]%N = true.
Proof. vm_compute. auto. Qed.
