(* C18 — property theorems (in progress) *)
From Coq Require Import List NArith Bool Arith.
Require Import BobV.C18.Model BobV.C18.Proofs.
Import ListNotations.
