(* C18 — model of pym/bob/pathspec.py: package graph (PkgGraphNode), query AST
   (LocationPath / LocationStep / predicate classes), constructor rewriting,
   forward evaluation with valid-set trimming, backward (predicate) evaluation,
   result path reconstruction.  Definitions only.

   Nodes are natural numbers, the virtual root package is node 0.  The graph
   is the list of node records; record i describes node i.  The harness
   numbers the nodes of the generated DAG topologically (every edge goes to a
   larger number), which is the well-formedness hypothesis [wf_graph] of the
   theorems (any finite DAG can be numbered like that).

   Python sets are lists; only membership matters ([In]).  Set operations keep
   lists duplicate free where the size matters for evaluation.

   The declarative (XPath style) semantics [holds] / [sem_path] is at the end
   of the file.  *)
From Coq Require Import List NArith Bool Arith.
Require Import BobV.Gen.ConstsC18.
Import ListNotations.
Local Open Scope nat_scope.

Definition str := list N.
Definition node := nat.

(* ------------------------------------------------------------------ strings *)
Fixpoint str_eqb (a b : str) : bool :=
  match a, b with
  | [], [] => true
  | x :: a', y :: b' => N.eqb x y && str_eqb a' b'
  | _, _ => false
  end.

(* Python str "<": code point lexicographic, a proper prefix is smaller *)
Fixpoint str_ltb (a b : str) : bool :=
  match a, b with
  | _, [] => false
  | [], _ :: _ => true
  | x :: a', y :: b' => N.ltb x y || (N.eqb x y && str_ltb a' b')
  end.

Definition ch_star : N := 42.
Definition star : str := [ch_star].

Fixpoint mem_N (c : N) (l : list N) : bool :=
  match l with [] => false | x :: r => N.eqb c x || mem_N c r end.

(* fnmatchcase(name, pat) for patterns over the nodeTest alphabet
   (letters, digits, underscore, dot, colon, plus, minus, star): only the star
   is a metacharacter.  [glob pat] is defined
   by recursion on the pattern, the inner loop tries every split of the name. *)
Fixpoint glob (pat : str) : str -> bool :=
  match pat with
  | [] => fun s => match s with [] => true | _ => false end
  | c :: pat' =>
      if N.eqb c ch_star then
        (fix any (s : str) : bool :=
           glob pat' s || match s with [] => false | _ :: s' => any s' end)
      else
        fun s => match s with [] => false | d :: s' => N.eqb c d && glob pat' s' end
  end.

(* declarative reading of a name pattern: the star stands for any (possibly
   empty) string, every other character for itself *)
Inductive gmatch : str -> str -> Prop :=
| gm_nil : gmatch [] []
| gm_star : forall pat s1 s2, gmatch pat s2 -> gmatch (ch_star :: pat) (s1 ++ s2)
| gm_char : forall c pat s, c <> ch_star -> gmatch pat s -> gmatch (c :: pat) (c :: s).

(* LocationStep name test: the star alone, a pattern containing a star, or an exact name *)
Definition test_match (t nm : str) : bool :=
  if str_eqb t star then true
  else if mem_N ch_star t then glob t nm
  else str_eqb nm t.

(* ------------------------------------------------------------------ sets of nodes *)
Fixpoint memb (n : node) (l : list node) : bool :=
  match l with [] => false | x :: r => Nat.eqb n x || memb n r end.

Fixpoint dedup (l : list node) : list node :=
  match l with
  | [] => []
  | x :: r => if memb x r then dedup r else x :: dedup r
  end.

Definition inter (a b : list node) : list node := filter (fun x => memb x b) a.
Definition diff (a b : list node) : list node := filter (fun x => negb (memb x b)) a.
Definition union (a b : list node) : list node := a ++ dedup (diff b a).
Definition subset (a b : list node) : bool := forallb (fun x => memb x b) a.
Definition remove1 (n : node) (l : list node) : list node := filter (fun x => negb (Nat.eqb x n)) l.
Definition is_empty (l : list node) : bool := match l with [] => true | _ => false end.

(* ------------------------------------------------------------------ graph *)
Record nrec := {
  n_name : str;                    (* PkgGraphNode.getName() *)
  n_kids : list (node * bool);     (* childs in OrderedDict order: (child, isDirect) *)
  n_env  : list (str * str)        (* variables visible to string predicates *)
}.
Definition graph := list nrec.

Definition nodummy : nrec := {| n_name := []; n_kids := []; n_env := [] |}.
Definition rec_of (g : graph) (n : node) : nrec := nth n g nodummy.
Definition name (g : graph) (n : node) : str := n_name (rec_of g n).
Definition kids (g : graph) (n : node) : list (node * bool) := n_kids (rec_of g n).
Definition nodes (g : graph) : list node := seq 0 (length g).      (* allNodes() *)
Definition root : node := 0.

(* c.node for c in i.values() if (queryIndirect or c.direct) *)
Definition kids_f (g : graph) (ind : bool) (n : node) : list node :=
  map fst (filter (fun e => ind || snd e) (kids g n)).

(* PkgGraphNode.parents(queryIndirect).  The implementation stores the parent
   dictionary redundantly in every node; the model derives it. *)
Definition parents (g : graph) (ind : bool) (n : node) : list node :=
  filter (fun p => memb n (kids_f g ind p)) (nodes g).

(* ------------------------------------------------------------------ axes
   __evalAxisChild / __evalAxisParent: one hop from every node of the set. *)
Definition hop (next : node -> list node) (ns : list node) : list node :=
  dedup (flat_map next ns).

(* __evalAxisDescendant / __evalAxisAncestor:
       ret = set(); todo = nodes
       while todo:
           childs = union of next(i) for i in todo
           todo = childs - ret
           ret.update(childs)
   The loop runs on fuel; [closure] supplies S (length g), which is enough
   because ret grows strictly while todo is not empty (closure_loop_correct). *)
Fixpoint closure_loop (next : node -> list node) (fuel : nat) (todo ret : list node) : list node :=
  match fuel with
  | 0 => ret
  | S f =>
      match todo with
      | [] => ret
      | _ => let childs := hop next todo in
             closure_loop next f (diff childs ret) (union ret childs)
      end
  end.

Definition closure (g : graph) (next : node -> list node) (ns : list node) : list node :=
  closure_loop next (S (length g)) ns [].

Definition ax_child (g : graph) (ind : bool) ns := hop (kids_f g ind) ns.
Definition ax_desc (g : graph) (ind : bool) ns := closure g (kids_f g ind) ns.
Definition ax_parent (g : graph) (ind : bool) ns := hop (parents g ind) ns.
Definition ax_anc (g : graph) (ind : bool) ns := closure g (parents g ind) ns.

(* ------------------------------------------------------------------ query AST *)
Inductive axis := AChild | ADesc | ADescSelf | ADChild | ADDesc | ADDescSelf | ASelf.

Definition axis_eqb (a b : axis) : bool :=
  match a, b with
  | AChild, AChild | ADesc, ADesc | ADescSelf, ADescSelf | ADChild, ADChild
  | ADDesc, ADDesc | ADDescSelf, ADDescSelf | ASelf, ASelf => true
  | _, _ => false
  end.

(* string valued expressions inside predicates *)
Inductive sexpr :=
| SLit (s : str)                       (* single quoted text, or double quoted text without backslash, quotes, dollar *)
| SVar (v : str)                       (* double quoted ${v}: substituted from the package environment *)
| SFn (f : str) (args : list sexpr).   (* string function call *)

Inductive cmpop := OLt | OLe | OGt | OGe | OEq | ONe.

(* Predicates and paths.  [PNone] is "the step has no predicate" (self.__pred
   is None).  A path is the token list handed to LocationPath.__init__: every
   step carries the flag "preceded by '//'" (for the first step: the path
   started with '//').  After [norm_path] no flag is set. *)
Inductive pred :=
| PNone
| PPath (abs : bool) (p : path)
| PNot (a : pred)
| PAnd (a b : pred)
| POr (a b : pred)
| PCmp (o : cmpop) (l r : sexpr)
| PStr (e : sexpr)
with path :=
| PNil
| PCons (dsl : bool) (a : axis) (t : str) (pr : pred) (rest : path).

Definition is_pnone (p : pred) : bool := match p with PNone => true | _ => false end.

(* ------------------------------------------------------------------ LocationPath.__init__
   (1) '//' becomes the step descendant-or-self@*            [expand]
   (2) trivial self steps (self@* without predicate) vanish   [drop_self]
   (3) descendant-or-self@* (no predicate) directly followed by a child step
       is fused into that step with axis descendant            [fuse]
   Nested paths (inside predicates) were rewritten when they were parsed. *)
Fixpoint expand (p : path) : path :=
  match p with
  | PNil => PNil
  | PCons dsl a t pr rest =>
      if dsl then PCons false ADescSelf star PNone (PCons false a t pr (expand rest))
      else PCons false a t pr (expand rest)
  end.

Definition trivial_self (a : axis) (t : str) (pr : pred) : bool :=
  axis_eqb a ASelf && str_eqb t star && is_pnone pr.

Fixpoint drop_self (p : path) : path :=
  match p with
  | PNil => PNil
  | PCons dsl a t pr rest =>
      (* after [expand] no step carries the '//' flag any more *)
      if trivial_self a t pr && negb dsl then drop_self rest else PCons dsl a t pr (drop_self rest)
  end.

Definition fusable (a : axis) (t : str) (pr : pred) : bool :=
  axis_eqb a ADescSelf && str_eqb t star && is_pnone pr.

Fixpoint fuse (p : path) : path :=
  match p with
  | PNil => PNil
  | PCons dsl a t pr rest =>
      match rest with
      | PCons dsl2 AChild t2 pr2 rest2 =>
          if fusable a t pr then PCons false ADesc t2 pr2 (fuse rest2)
          else PCons dsl a t pr (fuse rest)
      | _ => PCons dsl a t pr (fuse rest)
      end
  end.

Fixpoint norm_pred (p : pred) : pred :=
  match p with
  | PNone => PNone
  | PPath abs q => PPath abs (norm_path q)
  | PNot a => PNot (norm_pred a)
  | PAnd a b => PAnd (norm_pred a) (norm_pred b)
  | POr a b => POr (norm_pred a) (norm_pred b)
  | PCmp o l r => PCmp o l r
  | PStr e => PStr e
  end
with norm_inner (p : path) : path :=     (* rewrite the predicates of every step *)
  match p with
  | PNil => PNil
  | PCons dsl a t pr rest => PCons dsl a t (norm_pred pr) (norm_inner rest)
  end
with norm_path (p : path) : path :=
  match p with
  | PNil => PNil
  | PCons dsl a t pr rest =>
      fuse (drop_self (expand (PCons dsl a t (norm_pred pr) (norm_inner rest))))
  end.

(* ------------------------------------------------------------------ string values
   StringLiteral / FunctionCall .evalString for the modelled fragment
   (bob.stringparser functions eq ne not or and if-then-else; ASCII only). *)
Fixpoint lookup (e : list (str * str)) (k : str) : option str :=
  match e with
  | [] => None
  | (k', v) :: r => if str_eqb k k' then Some v else lookup r k
  end.

Definition ascii_ws : list N := [9; 10; 11; 12; 13; 28; 29; 30; 31; 32]%N.
Fixpoint lstrip (s : str) : str :=
  match s with [] => [] | c :: r => if mem_N c ascii_ws then lstrip r else s end.
Definition strip (s : str) : str := rev (lstrip (rev (lstrip s))).
Definition lower_c (c : N) : N := if N.leb 65%N c && N.leb c 90%N then N.add c 32%N else c.
Definition s_false : str := [102; 97; 108; 115; 101]%N.
Definition s_true : str := [116; 114; 117; 101]%N.
Definition is_false (s : str) : bool :=
  let t := map lower_c (strip s) in
  str_eqb t [] || str_eqb t [48]%N || str_eqb t s_false.
Definition is_true (s : str) : bool := negb (is_false s).
Definition of_bool (b : bool) : str := if b then s_true else s_false.

Definition f_eq : str := [101; 113]%N.
Definition f_ne : str := [110; 101]%N.
Definition f_not : str := [110; 111; 116]%N.
Definition f_or : str := [111; 114]%N.
Definition f_and : str := [97; 110; 100]%N.
Definition f_ite : str := [105; 102; 45; 116; 104; 101; 110; 45; 101; 108; 115; 101]%N.

Definition call_fn (f : str) (args : list str) : str :=
  if str_eqb f f_eq then match args with [a; b] => of_bool (str_eqb a b) | _ => [] end
  else if str_eqb f f_ne then match args with [a; b] => of_bool (negb (str_eqb a b)) | _ => [] end
  else if str_eqb f f_not then match args with [a] => of_bool (is_false a) | _ => [] end
  else if str_eqb f f_or then of_bool (existsb is_true args)
  else if str_eqb f f_and then of_bool (forallb is_true args)
  else if str_eqb f f_ite then match args with [c; a; b] => if is_true c then a else b | _ => [] end
  else [].

Fixpoint sval_impl (g : graph) (e : sexpr) (n : node) : str :=
  match e with
  | SLit s => s
  | SVar v => match lookup (n_env (rec_of g n)) v with Some x => x | None => [] end
  | SFn f args => call_fn f (map (fun a => sval_impl g a n) args)
  end.

Definition cmp_eval (o : cmpop) (l r : str) : bool :=
  match o with
  | OLt => str_ltb l r
  | OGt => str_ltb r l
  | OLe => negb (str_ltb r l)
  | OGe => negb (str_ltb l r)
  | OEq => str_eqb l r
  | ONe => negb (str_eqb l r)
  end.

(* ================================================================== evaluation *)
Section Eval.
Variable g : graph.
Variable sv : sexpr -> node -> str.     (* string value of an expression at a package *)

Definition all := nodes g.

(* inverse of an axis: LocationStep.evalBackward, second half *)
Definition axis_back (a : axis) (ns : list node) : list node :=
  match a with
  | AChild => ax_parent g true ns
  | ADesc => ax_anc g true ns
  | ADescSelf => union (ax_anc g true ns) ns
  | ADChild => ax_parent g false ns
  | ADDesc => ax_anc g false ns
  | ADDescSelf => union (ax_anc g false ns) ns
  | ASelf => ns
  end.

(* the axis itself: LocationStep.evalForward, first half; second component is
   'search' (None: single hop; Some queryIndirect: several hops) *)
Definition axis_fwd (a : axis) (ns : list node) : list node * option bool :=
  match a with
  | AChild => (ax_child g true ns, None)
  | ADesc => (ax_desc g true ns, Some true)
  | ADescSelf => (union (ax_desc g true ns) ns, Some true)
  | ADChild => (ax_child g false ns, None)
  | ADDesc => (ax_desc g false ns, Some false)
  | ADDescSelf => (union (ax_desc g false ns) ns, Some false)
  | ASelf => (ns, None)
  end.

Definition by_test (t : str) (ns : list node) : list node :=
  filter (fun n => test_match t (name g n)) ns.

(* <pred>.evalBackward() : all nodes at which the predicate holds;
   LocationPath.evalBackward / LocationStep.evalBackward for paths *)
Fixpoint pred_back (p : pred) : list node :=
  match p with
  | PNone => all
  | PPath abs q =>
      let ns := path_back q in
      if abs then (if memb root ns then all else []) else ns
  | PNot a => diff all (pred_back a)
  | PAnd a b => inter (pred_back a) (pred_back b)
  | POr a b => union (pred_back a) (pred_back b)
  | PCmp o l r => filter (fun n => cmp_eval o (sv l n) (sv r n)) all
  | PStr e => filter (fun n => is_true (sv e n)) all
  end
with path_back (q : path) : list node :=
  match q with
  | PNil => all
  | PCons dsl a t pr rest =>
      let ns := path_back rest in
      let ns := by_test t ns in
      let ns := if is_pnone pr then ns else inter ns (pred_back pr) in
      let ns := axis_back a ns in
      if dsl then axis_back ADescSelf ns else ns
  end.

(* LocationStep.evalForward : (nodes, search, complexQuery) *)
Definition step_fwd (a : axis) (t : str) (pr : pred) (ns : list node)
  : list node * option bool * bool :=
  let '(ns1, search) := axis_fwd a ns in
  let cq := if str_eqb t star then true
            else if mem_N ch_star t then true
            else match search with Some _ => true | None => false end in
  let ns2 := by_test t ns1 in
  if is_pnone pr then (ns2, search, cq)
  else (inter ns2 (pred_back pr), search, true).

(* LocationPath.__findIntermediateNodes.
       def traverse(node, stack):
           if node in visited:
               if (node in new) or (node in intermediate): intermediate.update(stack)
               return
           if node in new: intermediate.update(stack)
           stack = stack + [node]
           for i in node.values(): if queryIndirect or i.direct: traverse(i.node, stack)
           visited.add(node)
   state = (visited, intermediate).  Fuel: the depth of the recursion is
   bounded by the number of nodes (edges go to larger numbers). *)
Fixpoint traverse (ind : bool) (new : list node) (fuel : nat) (n : node) (stack : list node)
         (st : list node * list node) : list node * list node :=
  match fuel with
  | 0 => st
  | S f =>
      if memb n (fst st) then
        (if memb n new || memb n (snd st) then (fst st, union (snd st) stack) else st)
      else
        let im1 := if memb n new then union (snd st) stack else snd st in
        let st' := fold_left (fun s c => traverse ind new f c (stack ++ [n]) s)
                             (kids_f g ind n) (fst st, im1) in
        (n :: fst st', snd st')
  end.

Definition find_intermediate (old new : list node) (ind : bool) : list node :=
  if subset new old then []
  else snd (fold_left (fun s n => traverse ind new (S (length g)) n [] s) old ([], [])).

(* LocationPath.__findReachableSubset
       ret = set(); todo = set(nodes)
       while todo:
           node = todo.pop()
           if (node not in valid) or (node in ret): continue
           ret.add(node); todo.update(node.parents(True))                       *)
Fixpoint reach_loop (valid : list node) (fuel : nat) (todo ret : list node) : list node :=
  match fuel with
  | 0 => ret
  | S f =>
      match todo with
      | [] => ret
      | n :: rest =>
          if negb (memb n valid) || memb n ret then reach_loop valid f rest ret
          else reach_loop valid f (parents g true n ++ rest) (n :: ret)
      end
  end.

Definition find_reachable_subset (valid ns : list node) : list node :=
  reach_loop valid (length ns + length g * length g + 1) ns [].

(* LocationPath.evalForward *)
Inductive emode := NullSet | NullGlob | NullFail.
Definition emode_eqb (a b : emode) : bool :=
  match a, b with NullSet, NullSet | NullGlob, NullGlob | NullFail, NullFail => true | _, _ => false end.

Inductive fres :=
| FOk (ns valid : list node)
| FNotFound (k : nat)      (* BobError "Package '/…' not found", raised at step k *)
| FNoMatch (k : nat).      (* BobError "Query '/…' matched no packages" *)

Record fstate := { f_nodes : list node; f_valid : list node; f_complex : bool; f_k : nat }.

(* one iteration of the loop; inl = exception *)
Definition fwd_one (mode : emode) (a : axis) (t : str) (pr : pred) (st : fstate) : fres + fstate :=
  let old := f_nodes st in
  let valid := f_valid st in
  let '(ns, search, cq) := step_fwd a t pr old in
  let wc := f_complex st || cq in
  let k := S (f_k st) in
  if is_empty ns && negb (emode_eqb mode NullSet) && negb wc then inl (FNotFound k)
  else if is_empty ns && negb (emode_eqb mode NullSet) && emode_eqb mode NullFail then inl (FNoMatch k)
  else
    let valid1 := match search with
                  | Some ind => union valid (find_intermediate old ns ind)
                  | None => union valid ns
                  end in
    let valid2 := union valid1 ns in
    let valid3 := inter valid2 (find_reachable_subset valid2 ns) in
    inr {| f_nodes := ns; f_valid := valid3; f_complex := wc; f_k := k |}.

Fixpoint fwd_loop (mode : emode) (q : path) (st : fstate) : fres :=
  match q with
  | PNil => FOk (f_nodes st) (f_valid st)
  | PCons dsl a t pr rest =>
      match (if dsl then fwd_one mode ADescSelf star PNone st else inr st) with
      | inl e => e
      | inr st1 =>
          match fwd_one mode a t pr st1 with
          | inl e => e
          | inr st2 => fwd_loop mode rest st2
          end
      end
  end.

Definition eval_forward (mode : emode) (q : path) : fres :=
  fwd_loop mode q {| f_nodes := [root]; f_valid := [root]; f_complex := false; f_k := 0 |}.

(* ------------------------------------------------------------------ result paths
   PackageSet.__findResultNodes: depth first through the children that are in
   'valid', sorted by name; every node that is in 'result' is reported with the
   stack that led to it.  Without queryAll a visited node leaves 'valid' and a
   reported node leaves 'result'.  A reported stack is the list of nodes below
   the root (the implementation reports their names). *)
Fixpoint insert_by_name (c : node) (l : list node) : list node :=
  match l with
  | [] => [c]
  | x :: r => if str_ltb (name g x) (name g c) then x :: insert_by_name c r else c :: l
  end.
Definition sort_by_name (l : list node) : list node := fold_right insert_by_name [] l.

Definition rstate := (list node * list node)%type.     (* (valid, result) *)

Fixpoint frn (qa : bool) (fuel : nat) (n : node) (stack : list node) (st : rstate)
  : list (list node * node) * rstate :=
  match fuel with
  | 0 => ([], st)
  | S f =>
      let '(valid, result) := st in
      let valid1 := if qa then valid else remove1 n valid in
      let hit := memb n result in
      let result1 := if hit && negb qa then remove1 n result else result in
      let out0 := if hit then [(stack, n)] else [] in
      let ks := sort_by_name (filter (fun c => memb c valid1) (map fst (kids g n))) in
      fold_left (fun acc c =>
                   let '(o2, st2) := frn qa f c (stack ++ [c]) (snd acc) in
                   (fst acc ++ o2, st2))
                ks (out0, (valid1, result1))
  end.

(* __findResultPackages: same walk, but the test "in result" is made by the
   parent, so the (virtual) root package itself is never reported. *)
Fixpoint frp (qa : bool) (fuel : nat) (n : node) (stack : list node) (st : rstate)
  : list (list node * node) * rstate :=
  match fuel with
  | 0 => ([], st)
  | S f =>
      let '(valid, result) := st in
      let valid1 := if qa then valid else remove1 n valid in
      let ks := sort_by_name (filter (fun c => memb c valid1) (map fst (kids g n))) in
      fold_left (fun acc c =>
                   let '(valid', result') := snd acc in
                   let hit := memb c result' in
                   let result1 := if hit && negb qa then remove1 c result' else result' in
                   let out0 := if hit then [(stack ++ [c], c)] else [] in
                   let '(o2, st2) := frp qa f c (stack ++ [c]) (valid', result1) in
                   (fst acc ++ out0 ++ o2, st2))
                ks ([], (valid1, result))
  end.

Inductive qres :=
| QOk (found : list (list node * node))
| QNotFound
| QNoMatch.

(* PackageSet.queryTreePath(path, queryAll) after parsing *)
Definition query_tree (mode : emode) (q : path) (qa : bool) : qres :=
  match eval_forward mode (norm_path q) with
  | FOk ns valid => QOk (fst (frn qa (S (length g)) root [] (valid, ns)))
  | FNotFound _ => QNotFound
  | FNoMatch _ => QNoMatch
  end.

Definition query_pkgs (mode : emode) (q : path) (qa : bool) : qres :=
  match eval_forward mode (norm_path q) with
  | FOk ns valid => QOk (fst (frp qa (S (length g)) root [] (valid, ns)))
  | FNotFound _ => QNotFound
  | FNoMatch _ => QNoMatch
  end.

(* ================================================================== declarative semantics *)
Definition edge (ind : bool) (n m : node) : Prop :=
  exists d, In (m, d) (kids g n) /\ (ind = true \/ d = true).

(* one or more hops *)
Inductive tc (R : node -> node -> Prop) : node -> node -> Prop :=
| tc_one : forall n m, R n m -> tc R n m
| tc_more : forall n x m, R n x -> tc R x m -> tc R n m.

Definition axis_rel (a : axis) (n m : node) : Prop :=
  match a with
  | AChild => edge true n m
  | ADesc => tc (edge true) n m
  | ADescSelf => n = m \/ tc (edge true) n m
  | ADChild => edge false n m
  | ADDesc => tc (edge false) n m
  | ADDescSelf => n = m \/ tc (edge false) n m
  | ASelf => n = m
  end.

Definition is_node (n : node) : Prop := n < length g.

(* [holds p n]: predicate p is true at package n.
   [sem_path q n m]: m is selected by path q starting at n: every step moves
   along its axis to a package whose name passes the test and at which the
   predicate holds; '//' in front of a step inserts descendant-or-self. *)
Fixpoint holds (p : pred) (n : node) : Prop :=
  match p with
  | PNone => True
  | PPath abs q => exists m, sem_path q (if abs then root else n) m
  | PNot a => ~ holds a n
  | PAnd a b => holds a n /\ holds b n
  | POr a b => holds a n \/ holds b n
  | PCmp o l r => cmp_eval o (sv l n) (sv r n) = true
  | PStr e => is_true (sv e n) = true
  end
with sem_path (q : path) (n m : node) : Prop :=
  match q with
  | PNil => n = m
  | PCons dsl a t pr rest =>
      exists x y,
        (if dsl then axis_rel ADescSelf n x else n = x) /\
        axis_rel a x y /\ test_match t (name g y) = true /\ holds pr y /\
        sem_path rest y m
  end.

(* a real path in the graph: consecutive nodes are connected by an edge *)
Fixpoint real_path (n : node) (stack : list node) (m : node) : Prop :=
  match stack with
  | [] => n = m
  | c :: r => edge true n c /\ real_path c r m
  end.

End Eval.

(* ================================================================== strict reading of
   "a result is reported with a path that passes through the intermediate
   steps of the query": the reported stack itself decomposes along the steps
   (every step is realised by consecutive edges of the stack).  Executable
   checker; the implementation does not guarantee it (known finding F30,
   Properties.v: result_paths_through_steps_refuted). *)
Section Witness.
Variable g : graph.
Variable sv : sexpr -> node -> str.

(* all ways to cut a list into a prefix and the rest *)
Fixpoint splits (l : list node) : list (list node * list node) :=
  ([], l) :: match l with
             | [] => []
             | x :: r => map (fun p => (x :: fst p, snd p)) (splits r)
             end.

(* follow the stack from x along allowed edges; the node where it ends *)
Fixpoint walk_end (ind : bool) (x : node) (s : list node) : option node :=
  match s with
  | [] => Some x
  | c :: r => if memb c (kids_f g ind x) then walk_end ind c r else None
  end.

Definition axis_walk (a : axis) (x : node) (s : list node) : option node :=
  match a with
  | ASelf => match s with [] => Some x | _ => None end
  | AChild => match s with [_] => walk_end true x s | _ => None end
  | ADChild => match s with [_] => walk_end false x s | _ => None end
  | ADesc => match s with [] => None | _ => walk_end true x s end
  | ADDesc => match s with [] => None | _ => walk_end false x s end
  | ADescSelf => walk_end true x s
  | ADDescSelf => walk_end false x s
  end.

(* [witness_b q n stk]: the stack (nodes below n) is a path from n that
   decomposes along the steps of q *)
Fixpoint witness_b (q : path) (n : node) (stk : list node) : bool :=
  match q with
  | PNil => is_empty stk
  | PCons dsl a t pr rest =>
      existsb (fun p0 =>
        (dsl || is_empty (fst p0)) &&
        match walk_end true n (fst p0) with
        | None => false
        | Some x =>
            existsb (fun p1 =>
              match axis_walk a x (fst p1) with
              | None => false
              | Some y =>
                  test_match t (name g y) &&
                  (is_pnone pr || memb y (pred_back g sv pr)) &&
                  witness_b rest y (snd p1)
              end) (splits (snd p0))
        end) (splits stk)
  end.

(* all paths (stacks) that start at n, up to the given length *)
Fixpoint paths_from (fuel : nat) (n : node) : list (list node) :=
  match fuel with
  | 0 => [[]]
  | S f => [] :: flat_map (fun c => map (cons c) (paths_from f c)) (map fst (kids g n))
  end.

End Witness.

(* well-formed graph: nodes are numbered topologically and the root exists *)
Definition wf_graph (g : graph) : Prop :=
  0 < length g /\
  forall n c d, In (c, d) (kids g n) -> n < c /\ c < length g.

Definition wf_graphb (g : graph) : bool :=
  Nat.ltb 0 (length g) &&
  forallb (fun n => forallb (fun e => Nat.ltb n (fst e) && Nat.ltb (fst e) (length g)) (kids g n)) (nodes g).

(* a query that uses neither wildcards nor predicates nor multi-hop axes *)
Definition simple_axis (a : axis) : bool :=
  match a with AChild | ADChild | ASelf => true | _ => false end.
Fixpoint simple_path (q : path) : bool :=
  match q with
  | PNil => true
  | PCons dsl a t pr rest =>
      negb dsl && simple_axis a && negb (mem_N ch_star t) && is_pnone pr && simple_path rest
  end.

(* names of the axes as the implementation spells them; Properties.v checks
   them against the tables regenerated from pathspec.py (Gen/ConstsC18.v) *)
Definition all_axes : list axis := [AChild; ADesc; ADescSelf; ADChild; ADDesc; ADDescSelf; ASelf].
Definition axis_name (a : axis) : str :=
  match a with
  | AChild => [99;104;105;108;100]
  | ADesc => [100;101;115;99;101;110;100;97;110;116]
  | ADescSelf => [100;101;115;99;101;110;100;97;110;116;45;111;114;45;115;101;108;102]
  | ADChild => [100;105;114;101;99;116;45;99;104;105;108;100]
  | ADDesc => [100;105;114;101;99;116;45;100;101;115;99;101;110;100;97;110;116]
  | ADDescSelf => [100;105;114;101;99;116;45;100;101;115;99;101;110;100;97;110;116;45;111;114;45;115;101;108;102]
  | ASelf => [115;101;108;102]
  end%N.
Fixpoint str_mem (s : str) (l : list str) : bool :=
  match l with [] => false | x :: r => str_eqb s x || str_mem s r end.
Definition same_strs (a b : list str) : bool :=
  forallb (fun x => str_mem x b) a && forallb (fun x => str_mem x a) b && Nat.eqb (length a) (length b).
